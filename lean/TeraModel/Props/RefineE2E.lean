/-
The last mile: the evaluator (Model/Eval.lean, AST semantics) against the chunk the engine model
STORES and RUNS, `storeChunk = decode ∘ Chunk::optimize ∘ encode ∘ compile` (Model/Pipeline.lean).

Composition of
* Props/Refine.lean (p2_refine_expr): evaluator = VM on the UNOPTIMISED typed compiled chunk, and
* Props/C09Vm.lean (bC_opt): the optimised typed chunk renders what the original renders
  (`optimize_preserves_output`, nesting fuel 1: no assumption on nested calls), whose hypotheses
  `DecOK` / `OtherNoTarget` / `TargetsInRange` / `PathSpans` p2_pipeline discharged for compiled
  chunks with the positional decoder of `storeChunk` (Lemmas/PipelineVerify.lean, PipelineStore.lean).

Theorems
* `stored_run`: one `interpret` call on the stored chunk of an include-free in-domain statement
  list gives the evaluator's text, or a rendering error of the evaluator's class where it fails;
* `render_correct_optimized` (the original `vm_refines_spec`, include-free): `Tera.render`
  (evaluator) against `Vm.render` on the stored chunk;
* `source_to_output_semantics`: source TEXT through `Pipeline.renderSourcesT` (lexer, whitespace
  filter, parser, compiler, optimiser, registry, VM) against the evaluator on the parsed AST.
Any nesting fuel `≥ 1`, any step fuel `≥ N` (`N` depends on the run only).

Glue proved for this (Lemmas/RefineOpt.lean, RefineOptPipe.lean): the compiled code of an
include-free in-domain AST has no `Include` (so its runs do not depend on the nested interpreter
and `C09Vm` applies with nesting fuel 1, where it needs no assumption); an `interpret` call that
ends with nesting fuel 1 ends the same way with any (`run_depth_irrel`); `Refine.embed` IS
`Pipeline.typedCode`; the entry of the VM's table after a one-source `addTemplatesT`.

Outside (named propositions at the end): `include` across the optimiser
(`render_correct_optimized_includes`), `parents = []` from a source without `extends`
(`single_source_no_parents`; a hypothesis of `source_to_output_semantics`).  The error class across
the optimiser, first a named gap, is now the theorem `render_correct_optimized_error_class`.  Blocks / inheritance: C04Vm; component calls: C05Vm (the
evaluator does not model them).
-/
import TeraModel.Props.Refine
import TeraModel.Props.C09Vm
import TeraModel.Props.C09VmErr
import TeraModel.Lemmas.RefineOptPipe
namespace Tera.RefineE2E
open Tera Tera.Vm Tera.Compiler Tera.Refine

/-- One `interpret` call on the STORED chunk of an include-free in-domain statement list, from the
state `render` starts in: the evaluator's text, or a rendering error when the evaluator fails. -/
theorem stored_run (venv : Vm.Env) (eenv : Tera.Env) (hE : EnvRel venv eenv)
    (hB : BuiltinsRel venv eenv) (vm : VmCtx) (hov : vm.autoescapeOverride = none)
    (nodes : List Node) (hcheck : nodesInCore [] false nodes = true) (ch : Chunk)
    (hst : Pipeline.storeChunk vm.template.name (nodesCode 0 none nodes) = .ok ch)
    (ctx g : Ctx) (fuel : Nat) :
    (∀ est', execNodes fuel eenv vm.autoescape
        { scope := Scope.root ctx g, out := [], captures := [] } nodes = .ok (est', .normal) →
      ∃ N, ∀ steps depth, N ≤ steps →
        ∃ st', Vm.run ⟨depth + 1, steps⟩ venv vm ch (entryState none ctx g) = .done st'
          ∧ st'.out = est'.out)
    ∧ (∀ err, execNodes fuel eenv vm.autoescape
        { scope := Scope.root ctx g, out := [], captures := [] } nodes = .error err →
      reportable err = true →
      ∃ N, ∀ steps depth, N ≤ steps →
        ∃ re, errMatch err re = true ∧
          Vm.run ⟨depth + 1, steps⟩ venv vm ch (entryState none ctx g) = .err re) := by
  obtain ⟨c', code', hopt, hd, rfl⟩ := storeChunk_inv _ _ ch hst
  obtain ⟨tcode, htyped⟩ := typedCode_nodes nodes
  have hemb : embed (nodesCode 0 none nodes) = some tcode := htyped
  have hno := noInclude_nodes false nodes hcheck tcode htyped
  have hlen := embed_length hemb
  have hcode := codeAt_of_embed (name := vm.template.name) (pre := []) (post := []) hemb
  simp only [List.nil_append, List.append_nil, List.length_nil] at hcode
  have ht : reportTargetOk venv vm ⟨vm.template.name, tcode⟩ = true := by simp [reportTargetOk]
  have hsim : NodeOutcome venv vm ⟨vm.template.name, tcode⟩ false none
      (execNodes fuel eenv vm.autoescape { scope := Scope.root ctx g, out := [], captures := [] } nodes)
      0 (nodesCode 0 none nodes).length (entryState none ctx g) :=
    nodes_sim (Inc := (· ∈ ([] : List String))) hE hB ⟨fun _ h => (List.not_mem_nil h).elim⟩ ht hov
      fuel false nodes (nodesInCore_sound [] false nodes hcheck) 0 none
      (entryState none ctx g) { scope := Scope.root ctx g, out := [], captures := [] }
      ⟨ScopeSim.refl _, rfl, rfl⟩ (fun h => by cases h) hcode
  -- the optimiser bridge, for every step fuel
  have hbridge := fun (steps : Nat) =>
    C09Vm.optimize_preserves_output_errclass (Pipeline.decodeInstr (nodesCode 0 none nodes))
      (Pipeline.decOK_decodeInstr _) (Pipeline.encode (nodesCode 0 none nodes)) c' tcode code'
      vm.template.name (Pipeline.encode_targetsInRange nodes) (Pipeline.pathSpans_encode nodes)
      (Pipeline.otherNoTarget_encode _) (by rw [Pipeline.mapM_encode]; exact htyped) hopt
      (by rw [← Pipeline.decodeAll_eq_mapM]; exact hd) ⟨1, steps⟩ venv vm (entryState none ctx g) rfl rfl
      (by
        intro d hd1
        have : d = 0 := by simp at hd1; omega
        subst this
        exact ⟨fun _ _ _ _ => True.intro, fun _ _ _ _ => True.intro⟩)
  have hrunEq : ∀ steps, Vm.run ⟨1, steps⟩ venv vm ⟨vm.template.name, tcode⟩ (entryState none ctx g)
      = runLoop (interp venv steps 0) venv vm ⟨vm.template.name, tcode⟩ steps 0 (entryState none ctx g) :=
    fun _ => rfl
  constructor
  · intro est' hv
    rw [hv] at hsim
    obtain ⟨tr, sc', _, _, hrun, _, _⟩ := hsim
    have hrun' : RunI venv vm ⟨vm.template.name, tcode⟩ 0 (entryState none ctx g) tr
        (0 + (nodesCode 0 none nodes).length) (withSc (entryState none ctx g) est' sc') := hrun
    have hrun'' := hrun'.toRun hno
    refine ⟨tr.length, fun steps depth hsteps => ?_⟩
    have hdone : Vm.run ⟨1, steps⟩ venv vm ⟨vm.template.name, tcode⟩ (entryState none ctx g)
        = .done (withSc (entryState none ctx g) est' sc') := by
      rw [hrunEq]
      have := hrun''.runLoop (interp venv steps 0) (steps - tr.length)
      rw [show tr.length + (steps - tr.length) = steps by omega] at this
      rw [this, ← hlen]
      exact runLoop_off_end _ _ _ _ _ _ _ (by simp)
    have hb := hbridge steps (by rw [hdone]; intro h; cases h)
    rw [hdone] at hb
    cases hr' : Vm.run ⟨1, steps⟩ venv vm ⟨vm.template.name, code'⟩ (entryState none ctx g) with
    | done b =>
      rw [hr'] at hb
      exact ⟨b, by rw [run_depth_irrel _ _ _ _ _ _ (by rw [hr']; intro h; cases h), hr'], hb.1⟩
    | err e => rw [hr'] at hb; exact hb.elim
    | panic s => rw [hr'] at hb; exact hb.elim
    | unmodelled w => rw [hr'] at hb; exact hb.elim
    | outOfFuel => rw [hr'] at hb; exact hb.elim
  · intro err hv hrep
    rw [hv] at hsim
    obtain ⟨tr, re, hf, hm, _, _⟩ := hsim hrep
    have hf' := hf.toFails hno
    refine ⟨tr.length, fun steps depth hsteps => ?_⟩
    have herr : Vm.run ⟨1, steps⟩ venv vm ⟨vm.template.name, tcode⟩ (entryState none ctx g) = .err re := by
      rw [hrunEq]
      have := hf'.runLoop (interp venv steps 0) (steps - tr.length)
      rw [show tr.length + (steps - tr.length) = steps by omega] at this
      exact this
    have hb := hbridge steps (by rw [herr]; intro h; cases h)
    rw [herr] at hb
    cases hr' : Vm.run ⟨1, steps⟩ venv vm ⟨vm.template.name, code'⟩ (entryState none ctx g) with
    | err e =>
      rw [hr'] at hb
      exact ⟨e, by rw [C09Vm.errMatch_errClassRel err hb]; exact hm,
        by rw [run_depth_irrel _ _ _ _ _ _ (by rw [hr']; intro h; cases h), hr']⟩
    | done b => rw [hr'] at hb; exact hb.elim
    | panic s => rw [hr'] at hb; exact hb.elim
    | unmodelled w => rw [hr'] at hb; exact hb.elim
    | outOfFuel => rw [hr'] at hb; exact hb.elim

/-- **`render_correct_optimized`** (the original `vm_refines_spec`, include-free): for every
template body in the checked domain with no includable template (`nodesInCore []`), when the VM's
table holds under `name` a template without parents whose chunk IS what the pipeline stores —
`storeChunk tpl.name (compile body)` = decode (optimize (encode (compile body))) — and the
evaluator's table holds the body with the same autoescape flag, then what `Tera.render`
(the evaluator) gives, `Vm.render` gives on the optimised chunk: the same text; and when the
evaluator fails with a reportable error, a rendering error of the evaluator's class (`errMatch`;
not a panic, not `unmodelled`, not out of fuel).  Any nesting fuel `≥ 1` (nothing is nested in an include-free template: `run_depth_irrel`),
any step fuel `≥ N`.
The error class crosses the optimiser by bC_opt's `C09VmErr` (`errClassRel`: the three
"undefined" errors are one class, which `errMatch` merges anyway; every other class is kept). -/
theorem render_correct_optimized (venv : Vm.Env) (eenv : Tera.Env) (hE : EnvRel venv eenv)
    (hB : BuiltinsRel venv eenv) (name : String) (tpl : TemplateInfo) (nodes : List Node)
    (hv : venv.template name = some tpl) (hpar : tpl.parents = [])
    (hst : Pipeline.storeChunk tpl.name (nodesCode 0 none nodes) = .ok tpl.chunk)
    (he : eenv.template name = some ⟨nodes, tpl.autoescape⟩)
    (hcheck : nodesInCore [] false nodes = true) (ctx g : Ctx) (fuel : Nat) :
    (∀ text, Tera.render fuel eenv name ctx g = .ok text →
      ∃ N, ∀ steps depth, N ≤ steps → Vm.render ⟨depth + 1, steps⟩ venv name none ctx g = .ok text)
    ∧ (∀ err, Tera.render fuel eenv name ctx g = .error err → reportable err = true →
      ∃ N, ∀ steps depth, N ≤ steps →
        ∃ re, errMatch err re = true ∧ Vm.render ⟨depth + 1, steps⟩ venv name none ctx g = .err re) := by
  have hS := stored_run venv eenv hE hB { template := tpl, autoescapeOverride := none, depth := 0 } rfl
    nodes hcheck tpl.chunk hst ctx g fuel
  have hae : ({ template := tpl, autoescapeOverride := none, depth := 0 } : VmCtx).autoescape
      = tpl.autoescape := rfl
  rw [hae] at hS
  have hrender : ∀ steps depth, Vm.render ⟨depth + 1, steps⟩ venv name none ctx g
      = outcomeOf none (Vm.run ⟨depth + 1, steps⟩ venv
          { template := tpl, autoescapeOverride := none, depth := 0 }
          tpl.chunk (entryState none ctx g)) := by
    intro steps depth
    simp only [Vm.render, hv, lineageMissing, Bool.false_eq_true, if_false, entryChunk, hpar,
      List.head?_nil]
  constructor
  · intro text htext
    simp only [Tera.render, he] at htext
    cases hr : execNodes fuel eenv tpl.autoescape
        { scope := Scope.root ctx g, out := [], captures := [] } nodes with
    | error err => simp [hr] at htext
    | ok p =>
      obtain ⟨est', sig⟩ := p
      cases sig with
      | normal =>
        simp only [hr, Except.ok.injEq] at htext
        obtain ⟨N, hN⟩ := hS.1 est' hr
        refine ⟨N, fun steps depth hsteps => ?_⟩
        obtain ⟨st', hrun, hout⟩ := hN steps depth hsteps
        rw [hrender, hrun]
        simp only [outcomeOf, Option.isSome_none, Bool.false_eq_true, if_false, hout, htext]
      | brk => simp [hr] at htext
      | cont => simp [hr] at htext
  · intro err herr hrep
    simp only [Tera.render, he] at herr
    cases hr : execNodes fuel eenv tpl.autoescape
        { scope := Scope.root ctx g, out := [], captures := [] } nodes with
    | ok p =>
      obtain ⟨est', sig⟩ := p
      cases sig <;> simp only [hr] at herr
      · cases herr
      · cases herr; simp [reportable] at hrep
      · cases herr; simp [reportable] at hrep
    | error err' =>
      simp only [hr, Except.error.injEq] at herr
      subst herr
      obtain ⟨N, hN⟩ := hS.2 err' hr hrep
      refine ⟨N, fun steps depth hsteps => ?_⟩
      obtain ⟨re, hm, hrun⟩ := hN steps depth hsteps
      exact ⟨re, hm, by rw [hrender, hrun]; rfl⟩

/-! ## From source text -/

/-- **`source_to_output_semantics`**: the whole engine model — `Pipeline.renderSourcesT`: lexer,
whitespace filter, parser, compiler, optimiser, registry, VM — computes the AST semantics.  For a
single source that the front end parses to `t`, whose body passes the domain check
(`nodesInCore []`: no include, block, component call) and which the registry files without
parents, rendering it through the pipeline gives the text the evaluator gives on `t.nodes` (with
the autoescape flag the registry derived); when the evaluator fails with a reportable error the
pipeline answers a rendering error of the same class (never a panic, `unmodelled`, out of fuel, or
an add-time error).  Any nesting fuel `≥ 1`, any step fuel `≥ N`.  `eenv` is any evaluator environment that agrees
with the configuration's built-ins (`EnvRel`, `BuiltinsRel`) and holds the parsed body. -/
theorem source_to_output_semantics (cfg : Pipeline.Config) (name : String) (src : Tera.Bytes)
    (t : Template) (env : Pipeline.Env) (hf : Pipeline.front cfg.delims src = .ok t)
    (hadd : Pipeline.addTemplatesT cfg [(name, src)] = .ok env)
    (hcheck : nodesInCore [] false t.nodes = true) (tpl : TemplateInfo)
    (htpl : env.template name = some tpl) (hpar : tpl.parents = [])
    (eenv : Tera.Env) (hE : EnvRel env eenv) (hB : BuiltinsRel env eenv)
    (he : eenv.template name = some ⟨t.nodes, tpl.autoescape⟩) (ctx : Ctx) (fuel : Nat) :
    (∀ text, Tera.render fuel eenv name ctx [] = .ok text →
      ∃ N, ∀ steps depth, N ≤ steps →
        Pipeline.renderSourcesT cfg [(name, src)] ⟨depth + 1, steps⟩ name ctx = .ok (.ok text))
    ∧ (∀ err, Tera.render fuel eenv name ctx [] = .error err → reportable err = true →
      ∃ N, ∀ steps depth, N ≤ steps → ∃ re, errMatch err re = true ∧
        Pipeline.renderSourcesT cfg [(name, src)] ⟨depth + 1, steps⟩ name ctx = .ok (.err re)) := by
  obtain ⟨_, hst⟩ := single_template_entry cfg name src t env hf hadd tpl htpl
  have h := render_correct_optimized env eenv hE hB name tpl t.nodes htpl hpar hst he hcheck ctx [] fuel
  have hrs : ∀ fl, Pipeline.renderSourcesT cfg [(name, src)] fl name ctx
      = .ok (Vm.render fl env name none ctx []) := by
    intro fl
    simp only [Pipeline.renderSourcesT, hadd, Pipeline.render]
  refine ⟨fun text ht => ?_, fun err herr hrep => ?_⟩
  · obtain ⟨N, hN⟩ := h.1 text ht
    exact ⟨N, fun steps depth hs => by rw [hrs, hN steps depth hs]⟩
  · obtain ⟨N, hN⟩ := h.2 err herr hrep
    refine ⟨N, fun steps depth hs => ?_⟩
    obtain ⟨re, hm, hre⟩ := hN steps depth hs
    exact ⟨re, hm, by rw [hrs, hre]⟩

/-! ## What remains outside, as named propositions

* blocks / inheritance (`tpl.parents ≠ []`, `RenderBlock`, `super()`): C04Vm; component calls: C05Vm —
  the evaluator Model/Eval.lean does not model them (`Err.unsupported`), so there is nothing to
  compose here.
* `include` across the optimiser and `parents = []` from the source: the two propositions below
  (the error class across the optimiser is proved: `render_correct_optimized_error_class`). -/

/-- The include lift: `Refine.render_correct_core` covers `include` on UNOPTIMISED chunks (runs
through `Include` as derivations, `RunI.adequate`); `C09Vm.optimize_preserves_run` covers nested
calls under `NestedOK`.  Composing them needs `NestedOK` for `Vm.interp` by induction on the
include nesting of an environment ALL of whose chunks are stored (optimised) chunks — bC_opt's
`C09Vm.optimize_preserves_render` is the same gap.  Statement: as `render_correct_optimized`, with
`incs` includable templates related by `TemplatesRel` up to `storeChunk`, any nesting fuel `≥ D`. -/
def render_correct_optimized_includes : Prop :=
  ∀ (venv : Vm.Env) (eenv : Tera.Env), EnvRel venv eenv → BuiltinsRel venv eenv →
  ∀ (incs : List String),
    (∀ n ∈ incs, match eenv.template n with
      | none => venv.template n = none
      | some t => ∃ tpl, venv.template n = some tpl ∧
          Pipeline.storeChunk tpl.name (nodesCode 0 none t.nodes) = .ok tpl.chunk ∧
          tpl.autoescape = t.autoescape ∧ nodesInCore incs false t.nodes = true) →
  ∀ (name : String) (tpl : TemplateInfo) (nodes : List Node),
    venv.template name = some tpl → tpl.parents = [] →
    Pipeline.storeChunk tpl.name (nodesCode 0 none nodes) = .ok tpl.chunk →
    eenv.template name = some ⟨nodes, tpl.autoescape⟩ → nodesInCore incs false nodes = true →
  ∀ (ctx g : Ctx) (fuel : Nat) (text : List Char), Tera.render fuel eenv name ctx g = .ok text →
    ∃ N D, ∀ steps depth, N ≤ steps → D ≤ depth →
      Vm.render ⟨depth + 1, steps⟩ venv name none ctx g = .ok text

/-- The error class across the optimiser (formerly a named gap, now proved through bC_opt's
`C09VmErr.optimize_preserves_output_errclass` + `errMatch_errClassRel`): the stored chunk fails in
the evaluator's class, where the fused loads may say `undefinedVariable` for `undefinedField` /
`undefinedRender` (all of them `Err.undefined` for `errMatch`).  It is the second half of
`render_correct_optimized`. -/
theorem render_correct_optimized_error_class (venv : Vm.Env) (eenv : Tera.Env)
    (hE : EnvRel venv eenv) (hB : BuiltinsRel venv eenv)
    (name : String) (tpl : TemplateInfo) (nodes : List Node)
    (hv : venv.template name = some tpl) (hpar : tpl.parents = [])
    (hst : Pipeline.storeChunk tpl.name (nodesCode 0 none nodes) = .ok tpl.chunk)
    (he : eenv.template name = some ⟨nodes, tpl.autoescape⟩)
    (hcheck : nodesInCore [] false nodes = true)
    (ctx g : Ctx) (fuel : Nat) (err : Err) (herr : Tera.render fuel eenv name ctx g = .error err)
    (hrep : reportable err = true) :
    ∃ N, ∀ steps depth, N ≤ steps → ∃ re, errMatch err re = true ∧
      Vm.render ⟨depth + 1, steps⟩ venv name none ctx g = .err re :=
  (render_correct_optimized venv eenv hE hB name tpl nodes hv hpar hst he hcheck ctx g fuel).2 err herr hrep

/-- A source without `extends` is filed without parents (the registry derivation `find_parents`,
C04 / C11): in `source_to_output_semantics` this is the hypothesis `tpl.parents = []`. -/
def single_source_no_parents : Prop :=
  ∀ (cfg : Pipeline.Config) (name : String) (src : Tera.Bytes) (t : Template) (env : Pipeline.Env),
    Pipeline.front cfg.delims src = .ok t → t.parent = none →
    Pipeline.addTemplatesT cfg [(name, src)] = .ok env →
    ∀ tpl, env.template name = some tpl → tpl.parents = []

/-! ## Spot checks: source text through the WHOLE pipeline model against the evaluator -/

/-- a configuration whose built-in tables are the evaluator's (registered under their names) -/
def exCfg : Pipeline.Config :=
  { delims := Generated.defaultDelims, prefixes := [], suffixes := [".html"],
    reg := { filters := ["safe", "default", "upper", "lower", "length", "str", "trim", "first", "last", "join"],
             tests := ["defined", "undefined", "none", "string", "number", "integer", "float", "bool",
                       "array", "map", "iterable", "odd", "even"],
             functions := ["throw", "range"] },
    builtins := { callFilter := fun n v kw => callOf (applyFilter exEenv n v kw),
                  filterIsSafe := fun _ => false,
                  callTest := fun n v _ => callOf ((applyTest n v).map Value.bool),
                  callFunction := fun n kw => callOf (applyFunction n kw),
                  functionIsSafe := fun _ => false, F := exF, fmtF64 := fun _ => [] } }

/-- `Pipeline.renderSourcesT` (lexer … optimiser, registry, VM; nesting fuel 1) against
`Tera.render` on the AST the front end parses, which must pass the domain check; the registry
derives autoescape ON for `t.html` -/
def agreeE2E (src : String) (ctx : Ctx) : Bool :=
  match Pipeline.front exCfg.delims (srcOf src) with
  | .ok t =>
    nodesInCore [] false t.nodes &&
    (match Tera.render 60 { exEenv with templates := [("t.html", ⟨t.nodes, true⟩)] } "t.html" ctx [],
        Pipeline.renderSourcesT exCfg [("t.html", srcOf src)] ⟨1, 3000⟩ "t.html" ctx with
    | .ok text, .ok (.ok text') => text == text' && !text.isEmpty
    | .error err, .ok (.err re) => errMatch err re
    | _, _ => false)
  | _ => false

example : agreeE2E ("Hello {{ name | upper }}! {% for x in xs %}{{ loop.index }}={{ x * 2 }}"
    ++ "{% if not loop.last %}, {% endif %}{% else %}none{% endfor %}") srcCtx = true := by decide +kernel
example : agreeE2E ("{{ [y + 1 for y in xs if y > 1] | length }} {% set t = a.b or 'd' %}"
    ++ "{{ t if t else 'z' }}{% filter upper %}x{{ name }}{% endfilter %}") srcCtx = true := by
  decide +kernel
example : agreeE2E ("{% for k, v in m %}{{ k ~ '=' ~ v }}{% if v == 7 %}{% continue %}{% endif %};"
    ++ "{% endfor %}{{ a.b }}{{ m.k }}{{ name }}") srcCtx = true := by decide +kernel
/-- errors: the class survives the optimiser (fused `LoadPath` / `WritePath`) -/
example : agreeE2E "{{ zz.y }}" srcCtx = true := by decide +kernel
example : agreeE2E "a{{ a.b.c }}" srcCtx = true := by decide +kernel
example : agreeE2E "{{ xs | first + 'a' }}" srcCtx = true := by decide +kernel

end Tera.RefineE2E
