/-
The last mile: the evaluator (Model/Eval.lean, AST semantics) against the chunk the engine model
STORES and RUNS, `storeChunk = decode ∘ Chunk::optimize ∘ encode ∘ compile` (Model/Pipeline.lean).

Composition of
* Props/Refine.lean (p2_refine_expr): evaluator = VM on the UNOPTIMISED typed compiled chunk, and
* Props/C09Vm.lean (bC_opt): the optimised typed chunk renders what the original renders
  (`optimize_preserves_output`, nesting fuel 1: no assumption on nested calls), whose hypotheses
  `DecOK` / `OtherNoTarget` / `TargetsInRange` / `PathSpans` p2_pipeline discharged for compiled
  chunks with the positional decoder of `storeChunk` (Lemmas/PipelineVerify.lean, PipelineStore.lean).

Theorems
* `stored_run`: one `interpret` call on the stored chunk of an include-free in-domain statement
  list gives the evaluator's text, or a rendering error of the evaluator's class where it fails;
* `render_correct_optimized` (the original `vm_refines_spec`, include-free): `Tera.render`
  (evaluator) against `Vm.render` on the stored chunk;
* `source_to_output_semantics`: source TEXT through `Pipeline.renderSourcesT` (lexer, whitespace
  filter, parser, compiler, optimiser, registry, VM) against the evaluator on the parsed AST.
  Any nesting fuel `≥ 1`, any step fuel `≥ N` (`N` depends on the run only).
* WITH `include` (every chunk of the table a stored = optimised chunk, transitively):
  `stored_run_includes`, `stored_include_oracle`, `render_correct_optimized_includes`, and from
  source text for a batch of sources `source_to_output_includes` (`template_entry_sources`: every
  entry of the table after `addTemplatesT` holds the stored chunk of its source's compiled body).
  Any step fuel `≥ N`, nesting fuel `≥ D`.  Through bC_opt's
  `C09Vm.optimize_preserves_output_noblocks` (Props/C09VmLift.lean: any nesting fuel, no assumption
  on nested calls, chunks without `RenderBlock` / `super()`), by induction on the evaluator's fuel
  (see the section).  Extra executable hypothesis there: `codeNoBlockCalls` of the compiled bodies
  (the domain check accepts `super()` as an ordinary function call; the evaluator answers
  `unsupported` for it).

Glue proved for this (Lemmas/RefineOpt.lean, RefineOptPipe.lean, RefineOptMono.lean,
RefineOptIncl.lean): the compiled code of an include-free in-domain AST has no `Include` (so its
runs do not depend on the nested interpreter and `C09Vm` applies with nesting fuel 1, where it
needs no assumption); an `interpret` call that ends with nesting fuel 1 ends the same way with any
(`run_depth_irrel`); `Refine.embed` IS `Pipeline.typedCode`; the entries of the VM's table after
`addTemplatesT`; fuel monotonicity of the VM model (`interp_mono`).

Outside (named proposition at the end): `parents = []` from a source without `extends`
(`single_source_no_parents`; a hypothesis of the two source-level theorems).  The error class
across the optimiser and the include lift, first named gaps, are now the theorems
`render_correct_optimized_error_class` and `render_correct_optimized_includes`.  Blocks /
inheritance: C04Vm; component calls: C05Vm (the evaluator does not model them).
-/
import TeraModel.Props.Refine
import TeraModel.Props.C09Vm
import TeraModel.Props.C09VmErr
import TeraModel.Props.C09VmLift
import TeraModel.Lemmas.RefineOptPipe
import TeraModel.Lemmas.RefineOptIncl
namespace Tera.RefineE2E
open Tera Tera.Vm Tera.Compiler Tera.Refine

/-- One `interpret` call on the STORED chunk of an include-free in-domain statement list, from the
state `render` starts in: the evaluator's text, or a rendering error when the evaluator fails. -/
theorem stored_run (venv : Vm.Env) (eenv : Tera.Env) (hE : EnvRel venv eenv)
    (hB : BuiltinsRel venv eenv) (vm : VmCtx) (hov : vm.autoescapeOverride = none)
    (nodes : List Node) (hcheck : nodesInCore [] false nodes = true) (ch : Chunk)
    (hst : Pipeline.storeChunk vm.template.name (nodesCode 0 none nodes) = .ok ch)
    (ctx g : Ctx) (fuel : Nat) :
    (∀ est', execNodes fuel eenv vm.autoescape
        { scope := Scope.root ctx g, out := [], captures := [] } nodes = .ok (est', .normal) →
      ∃ N, ∀ steps depth, N ≤ steps →
        ∃ st', Vm.run ⟨depth + 1, steps⟩ venv vm ch (entryState none ctx g) = .done st'
          ∧ st'.out = est'.out)
    ∧ (∀ err, execNodes fuel eenv vm.autoescape
        { scope := Scope.root ctx g, out := [], captures := [] } nodes = .error err →
      reportable err = true →
      ∃ N, ∀ steps depth, N ≤ steps →
        ∃ re, errMatch err re = true ∧
          Vm.run ⟨depth + 1, steps⟩ venv vm ch (entryState none ctx g) = .err re) := by
  obtain ⟨c', code', hopt, hd, rfl⟩ := storeChunk_inv _ _ ch hst
  obtain ⟨tcode, htyped⟩ := typedCode_nodes nodes
  have hemb : embed (nodesCode 0 none nodes) = some tcode := htyped
  have hno := noInclude_nodes false nodes hcheck tcode htyped
  have hlen := embed_length hemb
  have hcode := codeAt_of_embed (name := vm.template.name) (pre := []) (post := []) hemb
  simp only [List.nil_append, List.append_nil, List.length_nil] at hcode
  have ht : reportTargetOk venv vm ⟨vm.template.name, tcode⟩ = true := by simp [reportTargetOk]
  have hsim : NodeOutcome venv vm ⟨vm.template.name, tcode⟩ false none
      (execNodes fuel eenv vm.autoescape { scope := Scope.root ctx g, out := [], captures := [] } nodes)
      0 (nodesCode 0 none nodes).length (entryState none ctx g) :=
    nodes_sim (Inc := (· ∈ ([] : List String))) hE hB ⟨fun _ h => (List.not_mem_nil h).elim⟩ ht hov
      fuel false nodes (nodesInCore_sound [] false nodes hcheck) 0 none
      (entryState none ctx g) { scope := Scope.root ctx g, out := [], captures := [] }
      ⟨ScopeSim.refl _, rfl, rfl⟩ (fun h => by cases h) hcode
  -- the optimiser bridge, for every step fuel
  have hbridge := fun (steps : Nat) =>
    C09Vm.optimize_preserves_output_errclass (Pipeline.decodeInstr (nodesCode 0 none nodes))
      (Pipeline.decOK_decodeInstr _) (Pipeline.encode (nodesCode 0 none nodes)) c' tcode code'
      vm.template.name (Pipeline.encode_targetsInRange nodes) (Pipeline.pathSpans_encode nodes)
      (Pipeline.otherNoTarget_encode _) (by rw [Pipeline.mapM_encode]; exact htyped) hopt
      (by rw [← Pipeline.decodeAll_eq_mapM]; exact hd) ⟨1, steps⟩ venv vm (entryState none ctx g) rfl rfl
      (by
        intro d hd1
        have : d = 0 := by simp at hd1; omega
        subst this
        exact ⟨fun _ _ _ _ => True.intro, fun _ _ _ _ => True.intro⟩)
  have hrunEq : ∀ steps, Vm.run ⟨1, steps⟩ venv vm ⟨vm.template.name, tcode⟩ (entryState none ctx g)
      = runLoop (interp venv steps 0) venv vm ⟨vm.template.name, tcode⟩ steps 0 (entryState none ctx g) :=
    fun _ => rfl
  constructor
  · intro est' hv
    rw [hv] at hsim
    obtain ⟨tr, sc', _, _, hrun, _, _⟩ := hsim
    have hrun' : RunI venv vm ⟨vm.template.name, tcode⟩ 0 (entryState none ctx g) tr
        (0 + (nodesCode 0 none nodes).length) (withSc (entryState none ctx g) est' sc') := hrun
    have hrun'' := hrun'.toRun hno
    refine ⟨tr.length, fun steps depth hsteps => ?_⟩
    have hdone : Vm.run ⟨1, steps⟩ venv vm ⟨vm.template.name, tcode⟩ (entryState none ctx g)
        = .done (withSc (entryState none ctx g) est' sc') := by
      rw [hrunEq]
      have := hrun''.runLoop (interp venv steps 0) (steps - tr.length)
      rw [show tr.length + (steps - tr.length) = steps by omega] at this
      rw [this, ← hlen]
      exact runLoop_off_end _ _ _ _ _ _ _ (by simp)
    have hb := hbridge steps (by rw [hdone]; intro h; cases h)
    rw [hdone] at hb
    cases hr' : Vm.run ⟨1, steps⟩ venv vm ⟨vm.template.name, code'⟩ (entryState none ctx g) with
    | done b =>
      rw [hr'] at hb
      exact ⟨b, by rw [run_depth_irrel _ _ _ _ _ _ (by rw [hr']; intro h; cases h), hr'], hb.1⟩
    | err e => rw [hr'] at hb; exact hb.elim
    | panic s => rw [hr'] at hb; exact hb.elim
    | unmodelled w => rw [hr'] at hb; exact hb.elim
    | outOfFuel => rw [hr'] at hb; exact hb.elim
  · intro err hv hrep
    rw [hv] at hsim
    obtain ⟨tr, re, hf, hm, _, _⟩ := hsim hrep
    have hf' := hf.toFails hno
    refine ⟨tr.length, fun steps depth hsteps => ?_⟩
    have herr : Vm.run ⟨1, steps⟩ venv vm ⟨vm.template.name, tcode⟩ (entryState none ctx g) = .err re := by
      rw [hrunEq]
      have := hf'.runLoop (interp venv steps 0) (steps - tr.length)
      rw [show tr.length + (steps - tr.length) = steps by omega] at this
      exact this
    have hb := hbridge steps (by rw [herr]; intro h; cases h)
    rw [herr] at hb
    cases hr' : Vm.run ⟨1, steps⟩ venv vm ⟨vm.template.name, code'⟩ (entryState none ctx g) with
    | err e =>
      rw [hr'] at hb
      exact ⟨e, by rw [C09Vm.errMatch_errClassRel err hb]; exact hm,
        by rw [run_depth_irrel _ _ _ _ _ _ (by rw [hr']; intro h; cases h), hr']⟩
    | done b => rw [hr'] at hb; exact hb.elim
    | panic s => rw [hr'] at hb; exact hb.elim
    | unmodelled w => rw [hr'] at hb; exact hb.elim
    | outOfFuel => rw [hr'] at hb; exact hb.elim

/-- **`render_correct_optimized`** (the original `vm_refines_spec`, include-free): for every
template body in the checked domain with no includable template (`nodesInCore []`), when the VM's
table holds under `name` a template without parents whose chunk IS what the pipeline stores —
`storeChunk tpl.name (compile body)` = decode (optimize (encode (compile body))) — and the
evaluator's table holds the body with the same autoescape flag, then what `Tera.render`
(the evaluator) gives, `Vm.render` gives on the optimised chunk: the same text; and when the
evaluator fails with a reportable error, a rendering error of the evaluator's class (`errMatch`;
not a panic, not `unmodelled`, not out of fuel).  Any nesting fuel `≥ 1` (nothing is nested in an include-free template: `run_depth_irrel`),
any step fuel `≥ N`.
The error class crosses the optimiser by bC_opt's `C09VmErr` (`errClassRel`: the three
"undefined" errors are one class, which `errMatch` merges anyway; every other class is kept). -/
theorem render_correct_optimized (venv : Vm.Env) (eenv : Tera.Env) (hE : EnvRel venv eenv)
    (hB : BuiltinsRel venv eenv) (name : String) (tpl : TemplateInfo) (nodes : List Node)
    (hv : venv.template name = some tpl) (hpar : tpl.parents = [])
    (hst : Pipeline.storeChunk tpl.name (nodesCode 0 none nodes) = .ok tpl.chunk)
    (he : eenv.template name = some ⟨nodes, tpl.autoescape⟩)
    (hcheck : nodesInCore [] false nodes = true) (ctx g : Ctx) (fuel : Nat) :
    (∀ text, Tera.render fuel eenv name ctx g = .ok text →
      ∃ N, ∀ steps depth, N ≤ steps → Vm.render ⟨depth + 1, steps⟩ venv name none ctx g = .ok text)
    ∧ (∀ err, Tera.render fuel eenv name ctx g = .error err → reportable err = true →
      ∃ N, ∀ steps depth, N ≤ steps →
        ∃ re, errMatch err re = true ∧ Vm.render ⟨depth + 1, steps⟩ venv name none ctx g = .err re) := by
  have hS := stored_run venv eenv hE hB { template := tpl, autoescapeOverride := none, depth := 0 } rfl
    nodes hcheck tpl.chunk hst ctx g fuel
  have hae : ({ template := tpl, autoescapeOverride := none, depth := 0 } : VmCtx).autoescape
      = tpl.autoescape := rfl
  rw [hae] at hS
  have hrender : ∀ steps depth, Vm.render ⟨depth + 1, steps⟩ venv name none ctx g
      = outcomeOf none (Vm.run ⟨depth + 1, steps⟩ venv
          { template := tpl, autoescapeOverride := none, depth := 0 }
          tpl.chunk (entryState none ctx g)) := by
    intro steps depth
    simp only [Vm.render, hv, lineageMissing, Bool.false_eq_true, if_false, entryChunk, hpar,
      List.head?_nil]
  constructor
  · intro text htext
    simp only [Tera.render, he] at htext
    cases hr : execNodes fuel eenv tpl.autoescape
        { scope := Scope.root ctx g, out := [], captures := [] } nodes with
    | error err => simp [hr] at htext
    | ok p =>
      obtain ⟨est', sig⟩ := p
      cases sig with
      | normal =>
        simp only [hr, Except.ok.injEq] at htext
        obtain ⟨N, hN⟩ := hS.1 est' hr
        refine ⟨N, fun steps depth hsteps => ?_⟩
        obtain ⟨st', hrun, hout⟩ := hN steps depth hsteps
        rw [hrender, hrun]
        simp only [outcomeOf, Option.isSome_none, Bool.false_eq_true, if_false, hout, htext]
      | brk => simp [hr] at htext
      | cont => simp [hr] at htext
  · intro err herr hrep
    simp only [Tera.render, he] at herr
    cases hr : execNodes fuel eenv tpl.autoescape
        { scope := Scope.root ctx g, out := [], captures := [] } nodes with
    | ok p =>
      obtain ⟨est', sig⟩ := p
      cases sig <;> simp only [hr] at herr
      · cases herr
      · cases herr; simp [reportable] at hrep
      · cases herr; simp [reportable] at hrep
    | error err' =>
      simp only [hr, Except.error.injEq] at herr
      subst herr
      obtain ⟨N, hN⟩ := hS.2 err' hr hrep
      refine ⟨N, fun steps depth hsteps => ?_⟩
      obtain ⟨re, hm, hrun⟩ := hN steps depth hsteps
      exact ⟨re, hm, by rw [hrender, hrun]; rfl⟩

/-! ## From source text -/

/-- **`source_to_output_semantics`**: the whole engine model — `Pipeline.renderSourcesT`: lexer,
whitespace filter, parser, compiler, optimiser, registry, VM — computes the AST semantics.  For a
single source that the front end parses to `t`, whose body passes the domain check
(`nodesInCore []`: no include, block, component call) and which the registry files without
parents, rendering it through the pipeline gives the text the evaluator gives on `t.nodes` (with
the autoescape flag the registry derived); when the evaluator fails with a reportable error the
pipeline answers a rendering error of the same class (never a panic, `unmodelled`, out of fuel, or
an add-time error).  Any nesting fuel `≥ 1`, any step fuel `≥ N`.  `eenv` is any evaluator environment that agrees
with the configuration's built-ins (`EnvRel`, `BuiltinsRel`) and holds the parsed body. -/
theorem source_to_output_semantics (cfg : Pipeline.Config) (name : String) (src : Tera.Bytes)
    (t : Template) (env : Pipeline.Env) (hf : Pipeline.front cfg.delims src = .ok t)
    (hadd : Pipeline.addTemplatesT cfg [(name, src)] = .ok env)
    (hcheck : nodesInCore [] false t.nodes = true) (tpl : TemplateInfo)
    (htpl : env.template name = some tpl) (hpar : tpl.parents = [])
    (eenv : Tera.Env) (hE : EnvRel env eenv) (hB : BuiltinsRel env eenv)
    (he : eenv.template name = some ⟨t.nodes, tpl.autoescape⟩) (ctx : Ctx) (fuel : Nat) :
    (∀ text, Tera.render fuel eenv name ctx [] = .ok text →
      ∃ N, ∀ steps depth, N ≤ steps →
        Pipeline.renderSourcesT cfg [(name, src)] ⟨depth + 1, steps⟩ name ctx = .ok (.ok text))
    ∧ (∀ err, Tera.render fuel eenv name ctx [] = .error err → reportable err = true →
      ∃ N, ∀ steps depth, N ≤ steps → ∃ re, errMatch err re = true ∧
        Pipeline.renderSourcesT cfg [(name, src)] ⟨depth + 1, steps⟩ name ctx = .ok (.err re)) := by
  obtain ⟨_, hst⟩ := single_template_entry cfg name src t env hf hadd tpl htpl
  have h := render_correct_optimized env eenv hE hB name tpl t.nodes htpl hpar hst he hcheck ctx [] fuel
  have hrs : ∀ fl, Pipeline.renderSourcesT cfg [(name, src)] fl name ctx
      = .ok (Vm.render fl env name none ctx []) := by
    intro fl
    simp only [Pipeline.renderSourcesT, hadd, Pipeline.render]
  refine ⟨fun text ht => ?_, fun err herr hrep => ?_⟩
  · obtain ⟨N, hN⟩ := h.1 text ht
    exact ⟨N, fun steps depth hs => by rw [hrs, hN steps depth hs]⟩
  · obtain ⟨N, hN⟩ := h.2 err herr hrep
    refine ⟨N, fun steps depth hs => ?_⟩
    obtain ⟨re, hm, hre⟩ := hN steps depth hs
    exact ⟨re, hm, by rw [hrs, hre]⟩

/-! ## What remains outside

* blocks / inheritance (`tpl.parents ≠ []`, `RenderBlock`, `super()`): C04Vm; component calls: C05Vm —
  the evaluator Model/Eval.lean does not model them (`Err.unsupported`), so there is nothing to
  compose here.
* `parents = []` from the source: the named proposition `single_source_no_parents` below.
  (The error class across the optimiser and the include lift are proved:
  `render_correct_optimized_error_class`, `render_correct_optimized_includes`.) -/

/-! ## `include` across the optimiser

Every chunk of the environment is a STORED (optimised) chunk, the included templates' too.  The
simulation of Props/Refine.lean follows the UNOPTIMISED chunk of the template being rendered turn
by turn; at an `Include` it only needs to know what the NESTED CALL does (`IncOracle`,
Lemmas/RefineNode.lean) — and the nested call runs the included template's stored chunk.  By
induction on the evaluator's fuel: the included body is evaluated with less fuel, so the theorem
for it (simulation on its unoptimised chunk, in the SAME environment of stored chunks, then
bC_opt's `C09Vm.optimize_preserves_output_noblocks` — any nesting fuel, no assumption on nested
calls, for chunks without `RenderBlock` / `super()`) is the oracle at that fuel.  The fuel of the
model is monotone (`interp_mono`), which turns "the same text for every large fuel" into the one
final state the nested call ends in. -/

/-- The includable templates `incs` of an environment whose chunks are STORED chunks: the evaluator
has the template exactly when the VM has it; the VM's template holds, under its own name, what
`storeChunk` makes of the compiled body (decode ∘ optimize ∘ encode), with the same autoescape
flag; the body passes the domain check (with the same `incs`) and its compiled code has no
`RenderBlock` / `CallFunction("super")` (`codeNoBlockCalls`, an executable check). -/
def StoredIncludes (venv : Vm.Env) (eenv : Tera.Env) (incs : List String) : Prop :=
  ∀ n ∈ incs, match eenv.template n with
    | none => venv.template n = none
    | some t => ∃ tpl, venv.template n = some tpl ∧
        Pipeline.storeChunk tpl.name (nodesCode 0 none t.nodes) = .ok tpl.chunk ∧
        tpl.autoescape = t.autoescape ∧ nodesInCore incs false t.nodes = true ∧
        codeNoBlockCalls (nodesCode 0 none t.nodes) = true

/-- One `interpret` call on the STORED chunk of an in-domain statement list that may `include`
the templates `incs`, from any start state with an empty stack and no open loop that the
evaluator's state matches, GIVEN what nested calls do at smaller evaluator fuel (`IncOracle`):
the evaluator's text, or a rendering error of the evaluator's class. -/
theorem stored_run_includes (venv : Vm.Env) (eenv : Tera.Env) (hE : EnvRel venv eenv)
    (hB : BuiltinsRel venv eenv) (incs : List String) (fuel : Nat)
    (hO : ∀ f, f < fuel → IncOracle venv eenv (· ∈ incs) f)
    (vm : VmCtx) (hov : vm.autoescapeOverride = none)
    (nodes : List Node) (hcheck : nodesInCore incs false nodes = true)
    (hnb : codeNoBlockCalls (nodesCode 0 none nodes) = true) (ch : Chunk)
    (hst : Pipeline.storeChunk vm.template.name (nodesCode 0 none nodes) = .ok ch)
    (st0 : State) (est0 : Tera.St) (hsim0 : StSim est0 st0) (h1 : st0.stack = [])
    (h2 : st0.scope.forLoops = []) :
    (∀ est', execNodes fuel eenv vm.autoescape est0 nodes = .ok (est', .normal) →
      ∃ N D, ∀ steps depth, N ≤ steps → D ≤ depth →
        ∃ st', Vm.run ⟨depth + 1, steps⟩ venv vm ch st0 = .done st' ∧ st'.out = est'.out)
    ∧ (∀ err, execNodes fuel eenv vm.autoescape est0 nodes = .error err → reportable err = true →
      ∃ N D, ∀ steps depth, N ≤ steps → D ≤ depth →
        ∃ re, errMatch err re = true ∧ Vm.run ⟨depth + 1, steps⟩ venv vm ch st0 = .err re) := by
  obtain ⟨c', code', hopt, hd, rfl⟩ := storeChunk_inv _ _ ch hst
  obtain ⟨tcode, htyped⟩ := typedCode_nodes nodes
  have hemb : embed (nodesCode 0 none nodes) = some tcode := htyped
  have hlen := embed_length hemb
  have hcode := codeAt_of_embed (name := vm.template.name) (pre := []) (post := []) hemb
  simp only [List.nil_append, List.append_nil, List.length_nil] at hcode
  have ht : reportTargetOk venv vm ⟨vm.template.name, tcode⟩ = true := by simp [reportTargetOk]
  have hsim : NodeOutcome venv vm ⟨vm.template.name, tcode⟩ false none
      (execNodes fuel eenv vm.autoescape est0 nodes) 0 (nodesCode 0 none nodes).length st0 :=
    (nodeSimAt_of_oracle (lf := false) (Inc := (· ∈ incs)) hE hB ht hov fuel hO).nodes false nodes
      (nodesInCore_sound incs false nodes hcheck) 0 none st0 est0 hsim0 (fun h => by cases h) hcode
  -- the optimiser bridge, for every fuel
  have hbridge := fun (fl : Vm.Fuel) =>
    C09Vm.optimize_preserves_output_noblocks (Pipeline.decodeInstr (nodesCode 0 none nodes))
      (Pipeline.decOK_decodeInstr _) (Pipeline.encode (nodesCode 0 none nodes)) c' tcode code'
      vm.template.name (Pipeline.encode_targetsInRange nodes) (Pipeline.pathSpans_encode nodes)
      (Pipeline.otherNoTarget_encode _) (by rw [Pipeline.mapM_encode]; exact htyped) hopt
      (by rw [← Pipeline.decodeAll_eq_mapM]; exact hd)
      (noBlockCalls_typed _ tcode htyped hnb) fl venv vm st0 h1 h2
  have hrunEq : ∀ steps depth, Vm.run ⟨depth + 1, steps⟩ venv vm ⟨vm.template.name, tcode⟩ st0
      = runLoop (interp venv steps depth) venv vm ⟨vm.template.name, tcode⟩ steps 0 st0 :=
    fun _ _ => rfl
  constructor
  · intro est' hv
    rw [hv] at hsim
    obtain ⟨tr, sc', _, _, hrun, _, _⟩ := hsim
    have hrun' : RunI venv vm ⟨vm.template.name, tcode⟩ 0 st0 tr
        (0 + (nodesCode 0 none nodes).length) (withSc st0 est' sc') := hrun
    obtain ⟨N, D, hND⟩ := hrun'.adequate
    refine ⟨max N tr.length, D, fun steps depth hsteps hdepth => ?_⟩
    have hdone : Vm.run ⟨depth + 1, steps⟩ venv vm ⟨vm.template.name, tcode⟩ st0
        = .done (withSc st0 est' sc') := by
      rw [hrunEq]
      have := hND steps depth (by omega) hdepth (steps - tr.length)
      rw [show tr.length + (steps - tr.length) = steps by omega] at this
      rw [this, ← hlen]
      exact runLoop_off_end _ _ _ _ _ _ _ (by simp)
    have hb := hbridge ⟨depth + 1, steps⟩ (by rw [hdone]; intro h; cases h)
    rw [hdone] at hb
    cases hr' : Vm.run ⟨depth + 1, steps⟩ venv vm ⟨vm.template.name, code'⟩ st0 with
    | done b => rw [hr'] at hb; exact ⟨b, rfl, hb.1⟩
    | err e => rw [hr'] at hb; exact hb.elim
    | panic s => rw [hr'] at hb; exact hb.elim
    | unmodelled w => rw [hr'] at hb; exact hb.elim
    | outOfFuel => rw [hr'] at hb; exact hb.elim
  · intro err hv hrep
    rw [hv] at hsim
    obtain ⟨tr, re, hf, hm, _, _⟩ := hsim hrep
    obtain ⟨N, D, hND⟩ := hf.adequate
    refine ⟨max N tr.length, D, fun steps depth hsteps hdepth => ?_⟩
    have herr : Vm.run ⟨depth + 1, steps⟩ venv vm ⟨vm.template.name, tcode⟩ st0 = .err re := by
      rw [hrunEq]
      have := hND steps depth (by omega) hdepth (steps - tr.length)
      rw [show tr.length + (steps - tr.length) = steps by omega] at this
      exact this
    have hb := hbridge ⟨depth + 1, steps⟩ (by rw [herr]; intro h; cases h)
    rw [herr] at hb
    cases hr' : Vm.run ⟨depth + 1, steps⟩ venv vm ⟨vm.template.name, code'⟩ st0 with
    | err e =>
      rw [hr'] at hb
      exact ⟨e, by rw [C09Vm.errMatch_errClassRel err hb]; exact hm, rfl⟩
    | done b => rw [hr'] at hb; exact hb.elim
    | panic s => rw [hr'] at hb; exact hb.elim
    | unmodelled w => rw [hr'] at hb; exact hb.elim
    | outOfFuel => rw [hr'] at hb; exact hb.elim

/-- **The include oracle for stored chunks**, at every evaluator fuel: in an environment whose
includable templates are stored chunks (`StoredIncludes`), the nested call of `Include` on the
stored chunk ends with the text the evaluator writes for the included body, or fails in the
evaluator's class. -/
theorem stored_include_oracle (venv : Vm.Env) (eenv : Tera.Env) (hE : EnvRel venv eenv)
    (hB : BuiltinsRel venv eenv) (incs : List String) (hS : StoredIncludes venv eenv incs) :
    ∀ fuel, IncOracle venv eenv (· ∈ incs) fuel := by
  intro fuel
  induction fuel using Nat.strong_induction_on with
  | _ fuel ih =>
    intro vm hov name hinc st est hst
    have hrel := hS name hinc
    cases het : eenv.template name with
    | none => rw [het] at hrel; exact hrel
    | some t =>
      rw [het] at hrel
      obtain ⟨tpl, hvt, hstore, hae, hcheck, hnb⟩ := hrel
      refine ⟨tpl, hvt, ?_⟩
      have haeI : (inclVm vm tpl).autoescape = t.autoescape := by
        simp [VmCtx.autoescape, inclVm, hov, hae]
      have hR := stored_run_includes venv eenv hE hB incs fuel ih (inclVm vm tpl) hov t.nodes hcheck
        hnb tpl.chunk hstore (includeState st)
        { scope := Scope.included est.scope, out := [], captures := [] }
        ⟨hst.1.included, rfl, rfl⟩ rfl rfl
      rw [haeI] at hR
      cases hr : execNodes fuel eenv t.autoescape
          { scope := Scope.included est.scope, out := [], captures := [] } t.nodes with
      | error err =>
        intro hrep
        exact inclErr_of_runs (P := fun re => errMatch err re = true) (hR.2 err hr hrep)
      | ok p =>
        obtain ⟨est', sig⟩ := p
        intro hsig
        simp only at hsig
        subst hsig
        exact inclDone_of_runs (hR.1 est' hr)

/-- **`render_correct_optimized_includes`** (formerly a named gap): `render_correct_optimized`
for templates that `include` the templates `incs`, every chunk of the VM's table — the rendered
template's and the included ones', transitively — being what the pipeline STORES (compiled and
optimised).  Same text; when the evaluator fails with a reportable error, a rendering error of the
evaluator's class.  Any step fuel `≥ N` and nesting fuel `≥ D` (`N`, `D` depend on the run only:
the include nesting actually entered). -/
theorem render_correct_optimized_includes (venv : Vm.Env) (eenv : Tera.Env) (hE : EnvRel venv eenv)
    (hB : BuiltinsRel venv eenv) (incs : List String) (hS : StoredIncludes venv eenv incs)
    (name : String) (tpl : TemplateInfo) (nodes : List Node)
    (hv : venv.template name = some tpl) (hpar : tpl.parents = [])
    (hst : Pipeline.storeChunk tpl.name (nodesCode 0 none nodes) = .ok tpl.chunk)
    (he : eenv.template name = some ⟨nodes, tpl.autoescape⟩)
    (hcheck : nodesInCore incs false nodes = true)
    (hnb : codeNoBlockCalls (nodesCode 0 none nodes) = true) (ctx g : Ctx) (fuel : Nat) :
    (∀ text, Tera.render fuel eenv name ctx g = .ok text →
      ∃ N D, ∀ steps depth, N ≤ steps → D ≤ depth →
        Vm.render ⟨depth + 1, steps⟩ venv name none ctx g = .ok text)
    ∧ (∀ err, Tera.render fuel eenv name ctx g = .error err → reportable err = true →
      ∃ N D, ∀ steps depth, N ≤ steps → D ≤ depth →
        ∃ re, errMatch err re = true ∧ Vm.render ⟨depth + 1, steps⟩ venv name none ctx g = .err re) := by
  have hS' := stored_run_includes venv eenv hE hB incs fuel
    (fun f _ => stored_include_oracle venv eenv hE hB incs hS f)
    { template := tpl, autoescapeOverride := none, depth := 0 } rfl nodes hcheck hnb tpl.chunk hst
    (entryState none ctx g) { scope := Scope.root ctx g, out := [], captures := [] }
    ⟨ScopeSim.refl _, rfl, rfl⟩ rfl rfl
  have hae : ({ template := tpl, autoescapeOverride := none, depth := 0 } : VmCtx).autoescape
      = tpl.autoescape := rfl
  rw [hae] at hS'
  have hrender : ∀ steps depth, Vm.render ⟨depth + 1, steps⟩ venv name none ctx g
      = outcomeOf none (Vm.run ⟨depth + 1, steps⟩ venv
          { template := tpl, autoescapeOverride := none, depth := 0 }
          tpl.chunk (entryState none ctx g)) := by
    intro steps depth
    simp only [Vm.render, hv, lineageMissing, Bool.false_eq_true, if_false, entryChunk, hpar,
      List.head?_nil]
  constructor
  · intro text htext
    simp only [Tera.render, he] at htext
    cases hr : execNodes fuel eenv tpl.autoescape
        { scope := Scope.root ctx g, out := [], captures := [] } nodes with
    | error err => simp [hr] at htext
    | ok p =>
      obtain ⟨est', sig⟩ := p
      cases sig with
      | normal =>
        simp only [hr, Except.ok.injEq] at htext
        obtain ⟨N, D, hN⟩ := hS'.1 est' hr
        refine ⟨N, D, fun steps depth hsteps hdepth => ?_⟩
        obtain ⟨st', hrun, hout⟩ := hN steps depth hsteps hdepth
        rw [hrender, hrun]
        simp only [outcomeOf, Option.isSome_none, Bool.false_eq_true, if_false, hout, htext]
      | brk => simp [hr] at htext
      | cont => simp [hr] at htext
  · intro err herr hrep
    simp only [Tera.render, he] at herr
    cases hr : execNodes fuel eenv tpl.autoescape
        { scope := Scope.root ctx g, out := [], captures := [] } nodes with
    | ok p =>
      obtain ⟨est', sig⟩ := p
      cases sig <;> simp only [hr] at herr
      · cases herr
      · cases herr; simp [reportable] at hrep
      · cases herr; simp [reportable] at hrep
    | error err' =>
      simp only [hr, Except.error.injEq] at herr
      subst herr
      obtain ⟨N, D, hN⟩ := hS'.2 err' hr hrep
      refine ⟨N, D, fun steps depth hsteps hdepth => ?_⟩
      obtain ⟨re, hm, hrun⟩ := hN steps depth hsteps hdepth
      exact ⟨re, hm, by rw [hrender, hrun]; rfl⟩

/-! ### … and from source text, several sources -/

/-- What the evaluator's table holds for the names `incs`, against a batch of SOURCES filed by
`addTemplatesT` in `env`: the evaluator has the name exactly when the registry resolves it; its
body is the body the front end parses from the source(s) filed under the resolved template's own
name (`tpl.name`: the name itself, or what a prefix alias resolves to), with the autoescape flag the
registry derived; the body passes the two executable checks. -/
def SourcesRel (cfg : Pipeline.Config) (sources : List (String × Tera.Bytes)) (env : Pipeline.Env)
    (eenv : Tera.Env) (incs : List String) : Prop :=
  ∀ n ∈ incs, match eenv.template n with
    | none => env.template n = none
    | some et => ∃ tpl, env.template n = some tpl ∧ tpl.autoescape = et.autoescape ∧
        (∀ src t, (tpl.name, src) ∈ sources → Pipeline.front cfg.delims src = .ok t →
          t.nodes = et.nodes) ∧
        nodesInCore incs false et.nodes = true ∧ codeNoBlockCalls (nodesCode 0 none et.nodes) = true

/-- after `addTemplatesT`, `SourcesRel` is `StoredIncludes`: every entry of the table holds the
stored chunk of its source's compiled body (`template_entry_sources`) -/
theorem storedIncludes_of_sources (cfg : Pipeline.Config) (sources : List (String × Tera.Bytes))
    (env : Pipeline.Env) (hadd : Pipeline.addTemplatesT cfg sources = .ok env) (eenv : Tera.Env)
    (incs : List String) (h : SourcesRel cfg sources env eenv incs) :
    StoredIncludes env eenv incs := by
  intro n hn
  have hrel := h n hn
  cases het : eenv.template n with
  | none => rw [het] at hrel; exact hrel
  | some et =>
    rw [het] at hrel
    obtain ⟨tpl, htpl, hae, hsrc, hcheck, hnb⟩ := hrel
    obtain ⟨src, hm, t, hf, hst⟩ := template_entry_sources cfg sources env hadd n tpl htpl
    rw [hsrc src t hm hf] at hst
    exact ⟨tpl, htpl, hst, hae, hcheck, hnb⟩

/-- **`source_to_output_includes`**: `source_to_output_semantics` for a batch of sources that
`include` each other.  `Pipeline.renderSourcesT` (lexer, whitespace filter, parser, compiler,
optimiser on EVERY chunk, registry, VM) on the batch renders `name` to the text the evaluator
gives on the parsed ASTs, and fails in the evaluator's class where the evaluator fails, when the
names `incs` (the rendered template among them) are related as `SourcesRel` says and the rendered
template is filed without parents.  Any step fuel `≥ N`, nesting fuel `≥ D`. -/
theorem source_to_output_includes (cfg : Pipeline.Config) (sources : List (String × Tera.Bytes))
    (env : Pipeline.Env) (hadd : Pipeline.addTemplatesT cfg sources = .ok env)
    (eenv : Tera.Env) (hE : EnvRel env eenv) (hB : BuiltinsRel env eenv) (incs : List String)
    (hS : SourcesRel cfg sources env eenv incs) (name : String) (hname : name ∈ incs)
    (et : TemplateDef) (he : eenv.template name = some et)
    (hpar : ∀ tpl, env.template name = some tpl → tpl.parents = []) (ctx : Ctx) (fuel : Nat) :
    (∀ text, Tera.render fuel eenv name ctx [] = .ok text →
      ∃ N D, ∀ steps depth, N ≤ steps → D ≤ depth →
        Pipeline.renderSourcesT cfg sources ⟨depth + 1, steps⟩ name ctx = .ok (.ok text))
    ∧ (∀ err, Tera.render fuel eenv name ctx [] = .error err → reportable err = true →
      ∃ N D, ∀ steps depth, N ≤ steps → D ≤ depth → ∃ re, errMatch err re = true ∧
        Pipeline.renderSourcesT cfg sources ⟨depth + 1, steps⟩ name ctx = .ok (.err re)) := by
  have hSt := storedIncludes_of_sources cfg sources env hadd eenv incs hS
  have hrel := hSt name hname
  rw [he] at hrel
  obtain ⟨tpl, htpl, hst, hae, hcheck, hnb⟩ := hrel
  obtain ⟨enodes, eae⟩ := et
  simp only at hst hae hcheck hnb
  subst hae
  have h := render_correct_optimized_includes env eenv hE hB incs hSt name tpl enodes htpl
    (hpar tpl htpl) hst he hcheck hnb ctx [] fuel
  have hrs : ∀ fl, Pipeline.renderSourcesT cfg sources fl name ctx
      = .ok (Vm.render fl env name none ctx []) := by
    intro fl
    simp only [Pipeline.renderSourcesT, hadd, Pipeline.render]
  refine ⟨fun text ht => ?_, fun err herr hrep => ?_⟩
  · obtain ⟨N, D, hN⟩ := h.1 text ht
    exact ⟨N, D, fun steps depth hs hd => by rw [hrs, hN steps depth hs hd]⟩
  · obtain ⟨N, D, hN⟩ := h.2 err herr hrep
    refine ⟨N, D, fun steps depth hs hd => ?_⟩
    obtain ⟨re, hm, hre⟩ := hN steps depth hs hd
    exact ⟨re, hm, by rw [hrs, hre]⟩

/-- The error class across the optimiser (formerly a named gap, now proved through bC_opt's
`C09VmErr.optimize_preserves_output_errclass` + `errMatch_errClassRel`): the stored chunk fails in
the evaluator's class, where the fused loads may say `undefinedVariable` for `undefinedField` /
`undefinedRender` (all of them `Err.undefined` for `errMatch`).  It is the second half of
`render_correct_optimized`. -/
theorem render_correct_optimized_error_class (venv : Vm.Env) (eenv : Tera.Env)
    (hE : EnvRel venv eenv) (hB : BuiltinsRel venv eenv)
    (name : String) (tpl : TemplateInfo) (nodes : List Node)
    (hv : venv.template name = some tpl) (hpar : tpl.parents = [])
    (hst : Pipeline.storeChunk tpl.name (nodesCode 0 none nodes) = .ok tpl.chunk)
    (he : eenv.template name = some ⟨nodes, tpl.autoescape⟩)
    (hcheck : nodesInCore [] false nodes = true)
    (ctx g : Ctx) (fuel : Nat) (err : Err) (herr : Tera.render fuel eenv name ctx g = .error err)
    (hrep : reportable err = true) :
    ∃ N, ∀ steps depth, N ≤ steps → ∃ re, errMatch err re = true ∧
      Vm.render ⟨depth + 1, steps⟩ venv name none ctx g = .err re :=
  (render_correct_optimized venv eenv hE hB name tpl nodes hv hpar hst he hcheck ctx g fuel).2 err herr hrep

/-- A source without `extends` is filed without parents (the registry derivation `find_parents`,
C04 / C11): in `source_to_output_semantics` this is the hypothesis `tpl.parents = []`. -/
def single_source_no_parents : Prop :=
  ∀ (cfg : Pipeline.Config) (name : String) (src : Tera.Bytes) (t : Template) (env : Pipeline.Env),
    Pipeline.front cfg.delims src = .ok t → t.parent = none →
    Pipeline.addTemplatesT cfg [(name, src)] = .ok env →
    ∀ tpl, env.template name = some tpl → tpl.parents = []

/-! ## Spot checks: source text through the WHOLE pipeline model against the evaluator -/

/-- a configuration whose built-in tables are the evaluator's (registered under their names) -/
def exCfg : Pipeline.Config :=
  { delims := Generated.defaultDelims, prefixes := [], suffixes := [".html"],
    reg := { filters := ["safe", "default", "upper", "lower", "length", "str", "trim", "first", "last", "join"],
             tests := ["defined", "undefined", "none", "string", "number", "integer", "float", "bool",
                       "array", "map", "iterable", "odd", "even"],
             functions := ["throw", "range"] },
    builtins := { callFilter := fun n v kw => callOf (applyFilter exEenv n v kw),
                  filterIsSafe := fun _ => false,
                  callTest := fun n v _ => callOf ((applyTest n v).map Value.bool),
                  callFunction := fun n kw => callOf (applyFunction n kw),
                  functionIsSafe := fun _ => false, F := exF, fmtF64 := fun _ => [] } }

/-- `Pipeline.renderSourcesT` (lexer … optimiser, registry, VM; nesting fuel 1) against
`Tera.render` on the AST the front end parses, which must pass the domain check; the registry
derives autoescape ON for `t.html` -/
def agreeE2E (src : String) (ctx : Ctx) : Bool :=
  match Pipeline.front exCfg.delims (srcOf src) with
  | .ok t =>
    nodesInCore [] false t.nodes &&
    (match Tera.render 60 { exEenv with templates := [("t.html", ⟨t.nodes, true⟩)] } "t.html" ctx [],
        Pipeline.renderSourcesT exCfg [("t.html", srcOf src)] ⟨1, 3000⟩ "t.html" ctx with
    | .ok text, .ok (.ok text') => text == text' && !text.isEmpty
    | .error err, .ok (.err re) => errMatch err re
    | _, _ => false)
  | _ => false

example : agreeE2E ("Hello {{ name | upper }}! {% for x in xs %}{{ loop.index }}={{ x * 2 }}"
    ++ "{% if not loop.last %}, {% endif %}{% else %}none{% endfor %}") srcCtx = true := by decide +kernel
example : agreeE2E ("{{ [y + 1 for y in xs if y > 1] | length }} {% set t = a.b or 'd' %}"
    ++ "{{ t if t else 'z' }}{% filter upper %}x{{ name }}{% endfilter %}") srcCtx = true := by
  decide +kernel
example : agreeE2E ("{% for k, v in m %}{{ k ~ '=' ~ v }}{% if v == 7 %}{% continue %}{% endif %};"
    ++ "{% endfor %}{{ a.b }}{{ m.k }}{{ name }}") srcCtx = true := by decide +kernel
/-- errors: the class survives the optimiser (fused `LoadPath` / `WritePath`) -/
example : agreeE2E "{{ zz.y }}" srcCtx = true := by decide +kernel
example : agreeE2E "a{{ a.b.c }}" srcCtx = true := by decide +kernel
example : agreeE2E "{{ xs | first + 'a' }}" srcCtx = true := by decide +kernel

/-! ### `include` through the whole pipeline: several sources -/

/-- `Pipeline.renderSourcesT` on several sources (every chunk stored = optimised) against the
evaluator on the parsed ASTs; every body must pass the domain check with the other names
includable, and the `codeNoBlockCalls` check -/
def agreeE2Es (srcs : List (String × String)) (main : String) (ctx : Ctx) : Bool :=
  let names := srcs.map (·.1)
  let parsed := srcs.filterMap fun (n, src) =>
    match Pipeline.front exCfg.delims (srcOf src) with
    | .ok t => some (n, t.nodes)
    | _ => none
  parsed.length == srcs.length &&
  parsed.all (fun (_, nodes) => nodesInCore names false nodes && codeNoBlockCalls (nodesCode 0 none nodes)) &&
  (match Tera.render 60 { exEenv with templates := parsed.map fun (n, nodes) => (n, ⟨nodes, true⟩) } main ctx [],
      Pipeline.renderSourcesT exCfg (srcs.map fun (n, src) => (n, srcOf src)) ⟨4, 3000⟩ main ctx with
  | .ok text, .ok (.ok text') => text == text' && !text.isEmpty
  | .error err, .ok (.err re) => errMatch err re
  | _, _ => false)

/-- the included templates read the includer's loop and variables through fused `LoadPath` /
`WritePath`; `foot.html` includes in turn -/
def exSrcs : List (String × String) :=
  [("main.html", "{% set t = 'T' %}{% for x in xs %}{% include 'row.html' %}{% endfor %}"
      ++ "{% include 'foot.html' %}"),
   ("row.html", "[{{ loop.index }}:{{ x }}{{ t }}{% set t = x %}{{ t }}{{ a.b }}]"),
   ("foot.html", "{{ t }}{{ name | upper }}{% include 'row.html' %}")]

example : agreeE2Es exSrcs "main.html" (("x", .u64 5) :: srcCtx) = true := by decide +kernel
/-- an error inside an included template, found through a fused instruction -/
example : agreeE2Es [("m2.html", "a{% include 'bad.html' %}"), ("bad.html", "{{ zz.y.w }}")]
    "m2.html" srcCtx = true := by decide +kernel
/-- a missing include never reaches the VM through the pipeline: the registry refuses it at add
time (the VM-level case is `Refine.agreeTs … "m2"`, Props/Refine.lean) -/
example : (match Pipeline.renderSourcesT exCfg [("m3.html", srcOf "a{% include 'nope.html' %}")]
      ⟨4, 3000⟩ "m3.html" srcCtx with
    | .error _ => true
    | .ok _ => false) = true := by decide +kernel
/-- `super()` is what `codeNoBlockCalls` excludes (the domain check alone accepts it) -/
example : (match Pipeline.front exCfg.delims (srcOf "{{ super() }}") with
    | .ok t => nodesInCore [] false t.nodes && !codeNoBlockCalls (nodesCode 0 none t.nodes)
    | _ => false) = true := by decide +kernel

end Tera.RefineE2E
