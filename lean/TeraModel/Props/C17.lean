/-
C17 — Every built-in filter, test and function is total and honours its contract.

Property theorems only (helper lemmas: Lemmas/Builtins.lean).  Statements are about the models
in Model/Args.lean and Model/Builtins.lean, tied to tera/src/{args,filters,tests,functions}.rs by
the translator (registration lists, receiver types, `MAX_RANGE_LEN`: Generated/Builtins.lean) and
by the correspondence run of harness/src/bin/c17.rs (the full built-in × receiver × keyword
matrix and seeded random streams, value level for every filter modelled here).
-/
import TeraModel.Lemmas.Builtins
import TeraModel.Lemmas.Range
import TeraModel.Lemmas.Round
import TeraModel.Lemmas.Text
import TeraModel.Lemmas.Total
import TeraModel.Lemmas.KwDeps
import TeraModel.Generated.Builtins
namespace Tera.C17
open Tera Tera.Args Tera.Builtins

/-! ## The dispatch tables are exactly the registration lists of tera.rs -/

def tableNames (t : List (String × Builtin)) : List String := t.map (·.1)
def recvSigs (t : List (String × Builtin)) : List (String × String) := t.map fun (n, b) => (n, b.recv.rust)
def genRecv (g : List (String × String × List (String × String × Bool))) : List (String × String) :=
  g.map fun (n, r, _) => (n, r)

/-- The model has a filter for exactly the names `register_builtin_filters` registers (same
order), whatever the std parameters. Re-proved against the source on every run. -/
theorem filter_names_exact (P : Params) :
    tableNames (filterTable P) = Generated.Builtins.filterNames := by rfl
theorem test_names_exact : tableNames testTable = Generated.Builtins.testNames := by rfl
theorem function_names_exact (n : Nat) :
    tableNames (functionTable n) = Generated.Builtins.functionNames := by rfl

/-- Each modelled built-in is guarded by the receiver type its Rust signature declares (the
`ArgFromValue` impl that runs before the body). -/
theorem filter_receivers_match (P : Params) :
    recvSigs (filterTable P) = genRecv Generated.Builtins.filterSigs := by rfl
theorem test_receivers_match : recvSigs testTable = genRecv Generated.Builtins.testSigs := by rfl
theorem function_receivers_match (n : Nat) :
    recvSigs (functionTable n) = genRecv Generated.Builtins.functionSigs := by rfl

/-- A receiver the declared type refuses is reported with exactly the class of that refusal
(InvalidArgument / OutOfRange / the "out of range for i128" message), before anything else;
the body never sees it. -/
theorem receiver_refusal_reported (b : Builtin) (v : Value) (kw : Kwargs) (e : BErr)
    (h : b.recv.check v = .error e) : b.apply v kw = .err e := by
  simp [Builtin.apply, h]

/-- …and an accepted receiver reaches the body. -/
theorem receiver_accepted_runs_body (b : Builtin) (v : Value) (kw : Kwargs)
    (h : b.recv.check v = .ok ()) : b.apply v kw = b.body v kw := by
  simp [Builtin.apply, h]

/-- **Keyword arguments: exactly the declared ones matter.**  Pairing the model's tables with
the signatures extracted from filters.rs / tests.rs / functions.rs (names equal, position by
position): the outcome of every built-in, on every receiver, is the same for any two keyword
maps that agree on the names the Rust body reads with `kwargs.get / must_get` — an argument the
built-in does not declare can never change a result, and the model reads no name the Rust does
not.  Re-proved against the source on every run. -/
theorem kwargs_only_declared_matter (P : Params) (n : Nat) :
    AllPairs SigOk (filterTable P) Generated.Builtins.filterSigs ∧
    AllPairs SigOk testTable Generated.Builtins.testSigs ∧
    AllPairs SigOk (functionTable n) Generated.Builtins.functionSigs :=
  ⟨filters_depend_only P, tests_depend_only, functions_depend_only n⟩

/-! ## `ArgFromValue`: which kinds each typed argument accepts -/

/-- the `ValueInner` variant of a value -/
def kindName : Value → String
  | .undef => "Undefined" | .none => "None" | .bool _ => "Bool" | .u64 _ => "U64" | .i64 _ => "I64"
  | .u128 _ => "U128" | .i128 _ => "I128" | .f64 _ => "F64" | .str .. => "String" | .arr _ => "Array"
  | .map _ => "Map" | .bytes _ => "Bytes"

def rowOf (t : ArgTy) : List String := (Generated.Builtins.argRows.lookup t.rust).getD []

def isIntTy : ArgTy → Bool
  | .usize | .u32 | .i32 | .i128 => true
  | _ => false

/-- **The model's argument acceptance is the table of args.rs.**  For every argument type the
built-ins use and every value: a value whose `ValueInner` variant is not in the row extracted
from the `ArgFromValue` impl is refused with InvalidArgument, and InvalidArgument is produced
only for those — plus, for the integer types, a float that is not integral (the `v.trunc() == *v`
guard of `int_from_value`).  Re-proved against args.rs on every run. -/
theorem arg_rows_match (t : ArgTy) (v : Value) (ht : t ≠ .none) :
    (kindName v ∉ rowOf t → t.check v = .error .invalidArg) ∧
    (t.check v = .error .invalidArg →
      kindName v ∉ rowOf t ∨ (isIntTy t = true ∧ ∃ x, v = .f64 x ∧ floatIntegral x = .notIntegral)) := by
  have r1 : rowOf .str = ["String"] := by rfl
  have r2 : rowOf .cowStr = ["Undefined", "None", "Bool", "U64", "I64", "U128", "I128", "F64", "String", "Array", "Map", "Bytes"] := by rfl
  have r3 : rowOf .value = rowOf .cowStr := by rfl
  have r4 : rowOf .valueRef = rowOf .cowStr := by rfl
  have r5 : rowOf .slice = ["Array"] := by rfl
  have r6 : rowOf .map = ["Map"] := by rfl
  have r7 : rowOf .f64 = ["I64", "I128", "U64", "U128", "F64"] := by rfl
  have r8 : rowOf .number = ["U64", "I64", "F64", "U128", "I128"] := by rfl
  have r9 : rowOf .bool = ["Bool"] := by rfl
  have r10 : rowOf .usize = rowOf .f64 := by rfl
  have r11 : rowOf .u32 = rowOf .f64 := by rfl
  have r12 : rowOf .i32 = rowOf .f64 := by rfl
  have r13 : rowOf .i128 = rowOf .f64 := by rfl
  have intCase : ∀ (lo hi : Int) (v : Value),
      (kindName v ∉ (["I64", "I128", "U64", "U128", "F64"] : List String) →
        ((intFromValue lo hi v).map fun _ => ()) = .error .invalidArg) ∧
      (((intFromValue lo hi v).map fun _ => ()) = .error .invalidArg →
        kindName v ∉ (["I64", "I128", "U64", "U128", "F64"] : List String) ∨
          ∃ x, v = .f64 x ∧ floatIntegral x = .notIntegral) := by
    intro lo hi v
    cases v with
    | f64 x =>
      refine ⟨by simp [kindName], fun h => Or.inr ⟨x, rfl, ?_⟩⟩
      simp only [intFromValue] at h
      cases hf : floatIntegral x with
      | notIntegral => rfl
      | infinite => simp [hf, Except.map] at h
      | int n =>
        simp only [hf] at h
        split at h <;> (try split at h) <;> simp [Except.map] at h
    | u64 n => by_cases hr : lo ≤ (n : Int) ∧ (n : Int) ≤ hi <;> simp [kindName, intFromValue, Value.intVal, Except.map, hr]
    | i64 n => by_cases hr : lo ≤ n ∧ n ≤ hi <;> simp [kindName, intFromValue, Value.intVal, Except.map, hr]
    | u128 n => by_cases hr : lo ≤ (n : Int) ∧ (n : Int) ≤ hi <;> simp [kindName, intFromValue, Value.intVal, Except.map, hr]
    | i128 n => by_cases hr : lo ≤ n ∧ n ≤ hi <;> simp [kindName, intFromValue, Value.intVal, Except.map, hr]
    | _ => simp [kindName, intFromValue, Value.intVal, Except.map]
  cases t with
  | none => exact absurd rfl ht
  | str => rw [r1]; cases v <;> simp [kindName, ArgTy.check, strFromValue, Except.map, isIntTy]
  | cowStr => rw [r2]; cases v <;> simp [kindName, ArgTy.check, isIntTy]
  | value => rw [r3, r2]; cases v <;> simp [kindName, ArgTy.check, isIntTy]
  | valueRef => rw [r4, r2]; cases v <;> simp [kindName, ArgTy.check, isIntTy]
  | slice => rw [r5]; cases v <;> simp [kindName, ArgTy.check, sliceFromValue, Except.map, isIntTy]
  | map => rw [r6]; cases v <;> simp [kindName, ArgTy.check, mapFromValue, Except.map, isIntTy]
  | f64 => rw [r7]; cases v <;> simp [kindName, ArgTy.check, f64FromValue, Value.intVal, Except.map, isIntTy]
  | number =>
    rw [r8]
    cases v with
    | u64 n => by_cases hr : inI128 (n : Int) <;> simp [kindName, ArgTy.check, numberFromValue, Value.asNumber, Value.asI128, Value.intVal, Value.isNumber, Except.map, isIntTy, hr]
    | i64 n => by_cases hr : inI128 n <;> simp [kindName, ArgTy.check, numberFromValue, Value.asNumber, Value.asI128, Value.intVal, Value.isNumber, Except.map, isIntTy, hr]
    | u128 n => by_cases hr : inI128 (n : Int) <;> simp [kindName, ArgTy.check, numberFromValue, Value.asNumber, Value.asI128, Value.intVal, Value.isNumber, Except.map, isIntTy, hr]
    | i128 n => by_cases hr : inI128 n <;> simp [kindName, ArgTy.check, numberFromValue, Value.asNumber, Value.asI128, Value.intVal, Value.isNumber, Except.map, isIntTy, hr]
    | _ => simp [kindName, ArgTy.check, numberFromValue, Value.asNumber, Value.asI128, Value.intVal, Value.isNumber, Except.map, isIntTy]
  | bool => rw [r9]; cases v <;> simp [kindName, ArgTy.check, boolFromValue, Except.map, isIntTy]
  | usize => rw [r10, r7]; simpa [ArgTy.check, isIntTy] using intCase 0 USIZE_MAX v
  | u32 => rw [r11, r7]; simpa [ArgTy.check, isIntTy] using intCase 0 U32_MAX' v
  | i32 => rw [r12, r7]; simpa [ArgTy.check, isIntTy] using intCase I32_MIN I32_MAX v
  | i128 => rw [r13, r7]; simpa [ArgTy.check, isIntTy] using intCase I128_MIN I128_MAX v

/-- `&str` accepts strings (normal and safe) and nothing else; refusal is InvalidArgument. -/
theorem str_arg_accepts (v : Value) :
    (∃ sf s, v = .str sf s ∧ strFromValue v = .ok s) ∨ ((∀ sf s, v ≠ .str sf s) ∧ strFromValue v = .error .invalidArg) := by
  cases v <;> simp [strFromValue]

/-- Integer arguments (`usize`, `u32`, `i32`, `i128`, any bounds): an integer of any encoding is
accepted iff its exact value fits, and refused with OutOfRange (never InvalidArgument, never a
wrapped value) otherwise. -/
theorem int_arg_exact (lo hi : Int) (v : Value) (n : Int) (h : v.intVal = some n) :
    intFromValue lo hi v = if lo ≤ n ∧ n ≤ hi then .ok n else .error .outOfRange := by
  cases v <;> simp_all [intFromValue, Value.intVal]

/-- A float is accepted as an integer argument only when it is integral, finite and fits;
a fractional float or NaN is a *type* error, an integral one that does not fit a *range* error. -/
theorem int_arg_float (lo hi : Int) (x : F64) :
    intFromValue lo hi (.f64 x) =
      match floatIntegral x with
      | .notIntegral => .error .invalidArg
      | .infinite => .error .outOfRange
      | .int n => if (I128_MIN ≤ n ∧ n < (2:Int)^127) ∧ lo ≤ n ∧ n ≤ hi then .ok n else .error .outOfRange := by
  simp only [intFromValue]
  cases floatIntegral x with
  | notIntegral => rfl
  | infinite => rfl
  | int n =>
    simp only
    by_cases hA : I128_MIN ≤ n ∧ n < (2:Int)^127 <;> by_cases hB : lo ≤ n ∧ n ≤ hi <;>
      simp only [hA, hB, and_self, and_true, and_false, if_true, if_false]

/-- Whatever is accepted is inside the bounds of the target type: no wrap-around can reach a
built-in through its typed arguments. -/
theorem int_arg_in_bounds (lo hi : Int) (v : Value) (n : Int) (h : intFromValue lo hi v = .ok n) :
    lo ≤ n ∧ n ≤ hi := by
  unfold intFromValue at h
  split at h
  · split at h
    · simp at h
    · simp at h
    · split at h
      · split at h
        · simp at h; omega
        · simp at h
      · simp at h
  · split at h
    · split at h
      · simp at h; omega
      · simp at h
    · simp at h

/-- `Kwargs::must_get`: an absent key is MissingArgument; a present one is converted, and a
refused conversion keeps its class. -/
theorem must_get_reports {α : Type} (conv : Value → Except BErr α) (kw : Kwargs) (name : String) :
    kwMust conv kw name =
      match kw.find name with
      | none => .error .missingArg
      | some v => conv v := by
  simp only [kwMust, kwGet]
  cases kw.find name with
  | none => rfl
  | some v => cases hc : conv v <;> simp [hc, Except.map]

/-! ## Type tests partition the values -/

def runTest (name : String) (v : Value) : Option Bool :=
  match lookup testTable name with
  | some b => match b.apply v [] with
    | .ok (.bool r) => some r
    | _ => none
  | none => none

/-- For every value: the eleven kind tests always answer; `number ⇔ integer xor float`;
`defined ⇔ ¬undefined`; `iterable ⇔ map ∨ array ∨ string ∨ bytes`; and exactly one of
string / number / map / bool / array / none / undefined / bytes holds. -/
theorem type_tests_partition (v : Value) :
    ∃ s n m b a i f no it d u : Bool,
      runTest "string" v = some s ∧ runTest "number" v = some n ∧ runTest "map" v = some m ∧
      runTest "bool" v = some b ∧ runTest "array" v = some a ∧ runTest "integer" v = some i ∧
      runTest "float" v = some f ∧ runTest "none" v = some no ∧ runTest "iterable" v = some it ∧
      runTest "defined" v = some d ∧ runTest "undefined" v = some u ∧
      (n = (i != f)) ∧ (i && f) = false ∧ (d = !u) ∧ (it = (m || a || s || isBytes v)) ∧
      ((if s then 1 else 0) + (if n then 1 else 0) + (if m then 1 else 0) + (if b then 1 else 0)
        + (if a then 1 else 0) + (if no then 1 else 0) + (if u then 1 else 0)
        + (if isBytes v then 1 else 0) = 1) := by
  have h1 : runTest "string" v = some (isStr v) := by cases v <;> rfl
  have h2 : runTest "number" v = some v.isNumber := by cases v <;> rfl
  have h3 : runTest "map" v = some (isMap v) := by cases v <;> rfl
  have h4 : runTest "bool" v = some (isBool v) := by cases v <;> rfl
  have h5 : runTest "array" v = some (isArr v) := by cases v <;> rfl
  have h6 : runTest "integer" v = some (v.isNumber && !isF64 v) := by cases v <;> rfl
  have h7 : runTest "float" v = some (isF64 v) := by cases v <;> rfl
  have h8 : runTest "none" v = some (isNone v) := by cases v <;> rfl
  have h9 : runTest "iterable" v = some (isMap v || isArr v || isStr v || isBytes v) := by cases v <;> rfl
  have h10 : runTest "defined" v = some (!isUndef v) := by cases v <;> rfl
  have h11 : runTest "undefined" v = some (isUndef v) := by cases v <;> rfl
  refine ⟨_, _, _, _, _, _, _, _, _, _, _, h1, h2, h3, h4, h5, h6, h7, h8, h9, h10, h11, ?_⟩
  cases v <;> simp [isStr, isMap, isBool, isArr, isBytes, isNone, isUndef, isF64, Value.isNumber]

/-! ## `default` -/

/-- `default(value=d)` replaces exactly `undefined`; with `boolean=true` exactly the falsy
values; a missing `value` is MissingArgument and a non-bool `boolean` InvalidArgument. -/
theorem default_contract (v d : Value) (kw : Kwargs) (h : kw.find "value" = some d) :
    (kw.find "boolean" = none → fDefault v kw = .ok (if isUndef v then d else v)) ∧
    (kw.find "boolean" = some (.bool false) → fDefault v kw = .ok (if isUndef v then d else v)) ∧
    (kw.find "boolean" = some (.bool true) → fDefault v kw = .ok (if truthy v then v else d)) ∧
    (∀ x, kw.find "boolean" = some x → (∀ b, x ≠ .bool b) → fDefault v kw = .err .invalidArg) := by
  refine ⟨?_, ?_, ?_, ?_⟩
  · intro hb
    cases v <;> simp [fDefault, kwMust, kwGet, Builtins.ofExcept, h, hb, isUndef, Except.map]
  · intro hb
    cases v <;> simp [fDefault, kwMust, kwGet, Builtins.ofExcept, h, hb, isUndef, Except.map, boolFromValue]
  · intro hb
    cases hv : truthy v <;> simp [fDefault, kwMust, kwGet, Builtins.ofExcept, h, hb, hv, Except.map, boolFromValue]
  · intro x hb hx
    cases x <;> simp_all [fDefault, kwMust, kwGet, Builtins.ofExcept, Except.map, boolFromValue]

theorem default_missing_value (v : Value) (kw : Kwargs) (h : kw.find "value" = none) :
    fDefault v kw = .err .missingArg := by
  simp [fDefault, kwMust, kwGet, Builtins.ofExcept, h]


/-! ## `range` -/

/-- **range is exactly the arithmetic progression or a documented failure.**  For all i128
`start`, `end`, `step_by` (what the typed extraction can deliver) and the size cap extracted from
functions.rs: either one of the failure conditions holds (zero step; positive step with
`start > end`; the i128 guard on `end - start` / the rounding term / `-step_by`; more terms than
`MAX_RANGE_LEN`) and the result is the error, or none holds and the result is the list
`start, start + step, …` of `n ≤ MAX_RANGE_LEN` terms where `n` is exactly the number of terms
before `end`, and no `i * step_by` or `start + i * step_by` leaves i128 (the unchecked `+` and
`*` of the Rust loop can neither panic in debug nor wrap in release). -/
theorem range_exact (start end_ step : Int) (hs : inI128 start) (he : inI128 end_) :
    (RangeFails Generated.Builtins.MAX_RANGE_LEN start end_ step ∧
      rangeCore Generated.Builtins.MAX_RANGE_LEN start end_ step = .err .msg) ∨
    (¬ RangeFails Generated.Builtins.MAX_RANGE_LEN start end_ step ∧
      ∃ n : Nat, n ≤ Generated.Builtins.MAX_RANGE_LEN ∧
        rangeCore Generated.Builtins.MAX_RANGE_LEN start end_ step
          = .ok (.arr (((List.range' 0 n).map fun (j : Nat) => start + (j : Int) * step).map Value.i128)) ∧
        IsRange start end_ step n) :=
  rangeCore_spec _ start end_ step hs he

/-- The arguments of `range` reach `rangeCore` only as i128 values (`start` defaults to 0,
`step_by` to 1); a missing `end` is MissingArgument, a mistyped one InvalidArgument / OutOfRange. -/
theorem range_arguments (maxLen : Nat) (kw : Kwargs) :
    (∃ e, fnRange maxLen kw = .err e) ∨
    (∃ s e st, inI128 s ∧ inI128 e ∧ inI128 st ∧ fnRange maxLen kw = rangeCore maxLen s e st) := by
  unfold fnRange Builtins.ofExcept
  have b0 : inI128 0 := by decide
  have b1 : inI128 1 := by decide
  cases h1 : kwGet (intFromValue I128_MIN I128_MAX) kw "start" with
  | error e => left; exact ⟨e, rfl⟩
  | ok s =>
    cases h2 : kwMust (intFromValue I128_MIN I128_MAX) kw "end" with
    | error e => left; exact ⟨e, rfl⟩
    | ok e =>
      cases h3 : kwGet (intFromValue I128_MIN I128_MAX) kw "step_by" with
      | error e => left; exact ⟨e, rfl⟩
      | ok st =>
        right
        have hs : inI128 (s.getD 0) := by
          cases s with
          | none => exact b0
          | some n => exact kwGet_int_bounds _ _ kw "start" n h1
        have he : inI128 e := kwMust_int_bounds _ _ kw "end" e h2
        have hst : inI128 (st.getD 1) := by
          cases st with
          | none => exact b1
          | some n => exact kwGet_int_bounds _ _ kw "step_by" n h3
        exact ⟨s.getD 0, e, st.getD 1, hs, he, hst, rfl⟩

/-- `range` never panics, whatever the keyword arguments: every path ends in a value or an error. -/
theorem range_never_panics (kw : Kwargs) (site : String) :
    fnRange Generated.Builtins.MAX_RANGE_LEN kw ≠ .panic site := by
  rcases range_arguments Generated.Builtins.MAX_RANGE_LEN kw with ⟨e, h⟩ | ⟨s, e, st, hs, he, _, h⟩
  · rw [h]; intro hc; cases hc
  · rw [h]
    rcases range_exact s e st hs he with ⟨_, h2⟩ | ⟨_, n, _, h2, _⟩ <;> rw [h2] <;> intro hc <;> cases hc

/-! ## Conversions: `abs`, `int`, `float`, `round` -/

/-- **abs is exact or fails.**  For an integer of any encoding (payload in the range of its
kind): the result is an integer value denoting exactly `|n|` (`i64::MIN` widens to i128, u128
stays u128), except `i128::MIN`, whose absolute value does not fit and is an error; never a
panic, never a wrapped value. -/
theorem abs_exact (v : Value) (n : Int) (h : v.intVal = some n) (hw : v.scalarWF) :
    (fAbs v = .err .msg ∧ v = .i128 I128_MIN) ∨
    (∃ r, fAbs v = .ok r ∧ r.intVal = some (n.natAbs : Int) ∧ r.scalarWF) := by
  cases v with
  | u64 m => right; simp [Value.intVal] at h; subst h; exact ⟨_, rfl, by simp [Value.intVal], hw⟩
  | u128 m => right; simp [Value.intVal] at h; subst h; exact ⟨_, rfl, by simp [Value.intVal], hw⟩
  | i64 m =>
    right
    simp only [Value.intVal, Option.some.injEq] at h; subst h
    have hw' : I64_MIN ≤ m ∧ m ≤ I64_MAX := hw
    have hin : inI128 m := by
      simp only [inI128, I128_MIN, I128_MAX, I64_MIN, I64_MAX] at *; omega
    simp only [fAbs, Value.asI128, Value.intVal, hin, if_true]
    by_cases hm : m = I64_MIN
    · simp only [hm, if_true]
      refine ⟨_, rfl, ?_, ?_⟩
      · simp only [I64_MIN]; norm_num
      · simp only [Value.scalarWF, inI128, I128_MIN, I128_MAX, I64_MIN]; norm_num
    · simp only [hm, if_false]
      refine ⟨_, rfl, ?_, ?_⟩
      · simp only [Value.intVal]; split <;> congr 1 <;> omega
      · simp only [Value.scalarWF, inI64, I64_MIN, I64_MAX] at *; split <;> omega
  | i128 m =>
    simp only [Value.intVal, Option.some.injEq] at h; subst h
    have hin : inI128 m := hw
    simp only [fAbs, Value.asI128, Value.intVal, hin, if_true]
    by_cases hm : m = I128_MIN
    · left; simp [hm]
    · right
      simp only [hm, if_false]
      refine ⟨_, rfl, ?_, ?_⟩
      · simp only [Value.intVal]; split <;> congr 1 <;> omega
      · simp only [Value.scalarWF, inI128, I128_MIN, I128_MAX] at *; split <;> omega
  | _ => simp [Value.intVal] at h

/-- `abs` of a float is the float with the sign cleared (same magnitude, exactly); of anything
that is not a number an error. -/
theorem abs_float_and_others (v : Value) :
    (∀ x, v = .f64 x → fAbs v = .ok (.f64 x.absF) ∧ x.absF.num = (x.num.natAbs : Int) ∧ x.absF.den = x.den) ∧
    (v.isNumber = false → fAbs v = .err .msg) := by
  constructor
  · intro x hx
    subst hx
    refine ⟨rfl, ?_, ?_⟩
    · cases x with
      | nan => rfl
      | inf s => rfl
      | fin neg m e =>
        simp only [F64.absF, F64.num]
        cases neg
        · simp only [Bool.false_eq_true, if_false]
          rw [Int.natAbs_of_nonneg (by positivity)]
        · simp only [if_true, Bool.false_eq_true, if_false]
          have : -1 * (m : Int) * (2 : Int) ^ e.toNat = -(1 * (m : Int) * (2 : Int) ^ e.toNat) := by ring
          rw [this, Int.natAbs_neg, Int.natAbs_of_nonneg (by positivity)]
    · cases x <;> rfl
  · intro hn
    cases v <;> simp_all [fAbs, Value.isNumber]


/-- The `base` argument of `int` is absent or an integer in `2..=36`. -/
def ValidBase (kw : Kwargs) : Prop :=
  ∃ ob : Option Int, kwGet (intFromValue 0 U32_MAX') kw "base" = .ok ob ∧ 2 ≤ ob.getD 10 ∧ ob.getD 10 ≤ 36

/-- **int of an integer is that integer** (any encoding, any valid base): the result denotes
exactly the same value, in a kind whose range holds it (u64 stays u64, u128 stays u128, i64 and
i128 become i128); no wrap-around, no panic from the `unwrap`s. -/
theorem int_of_integer_exact (P : Params) (v : Value) (n : Int) (h : v.intVal = some n)
    (hw : v.scalarWF) (kw : Kwargs) (hb : ValidBase kw) :
    ∃ r, fInt P v kw = .ok r ∧ r.intVal = some n ∧ r.scalarWF := by
  obtain ⟨ob, hb1, hb2, hb3⟩ := hb
  have hnot : ¬ ¬ (2 ≤ ob.getD 10 ∧ ob.getD 10 ≤ 36) := by simp [hb2, hb3]
  cases v with
  | u64 m =>
    simp only [Value.intVal, Option.some.injEq] at h; subst h
    have hw' : m ≤ U64_MAX := hw
    have hin : inI128 (m : Int) := by
      simp only [inI128, I128_MIN, I128_MAX, U64_MAX] at *; omega
    refine ⟨.u64 m, ?_, rfl, hw⟩
    simp only [fInt, Builtins.ofExcept, hb1, hb2, hb3, and_self, not_true_eq_false, if_false,
      Value.asI128, Value.intVal, hin, if_true]
    congr 2
    simp only [U64_MAX] at hw'
    omega
  | i64 m =>
    simp only [Value.intVal, Option.some.injEq] at h; subst h
    have hw' : I64_MIN ≤ m ∧ m ≤ I64_MAX := hw
    have hin : inI128 m := by
      simp only [inI128, I128_MIN, I128_MAX, I64_MIN, I64_MAX] at *; omega
    refine ⟨.i128 m, ?_, rfl, hin⟩
    simp only [fInt, Builtins.ofExcept, hb1, hb2, hb3, and_self, not_true_eq_false, if_false,
      Value.asI128, Value.intVal, hin, if_true]
  | u128 m =>
    simp only [Value.intVal, Option.some.injEq] at h; subst h
    refine ⟨.u128 m, ?_, rfl, hw⟩
    simp only [fInt, Builtins.ofExcept, hb1, hb2, hb3, and_self, not_true_eq_false, if_false]
  | i128 m =>
    simp only [Value.intVal, Option.some.injEq] at h; subst h
    have hin : inI128 m := hw
    refine ⟨.i128 m, ?_, rfl, hin⟩
    simp only [fInt, Builtins.ofExcept, hb1, hb2, hb3, and_self, not_true_eq_false, if_false,
      Value.asI128, Value.intVal, hin, if_true]
  | _ => simp [Value.intVal] at h

/-- **int of a float is exact or fails**: the result is `n` exactly when the float is finite,
its exact (dyadic) value is the integer `n`, and `-2^127 ≤ n < 2^127`; every other float
(fractional, NaN, infinite, too large) is an error — never a truncated or saturated value. -/
theorem int_of_float_exact (P : Params) (x : F64) (kw : Kwargs) (hb : ValidBase kw) :
    (∃ n : Int, x.isFinite = true ∧ x.num = n * (x.den : Int) ∧ I128_MIN ≤ n ∧ n < (2:Int)^127 ∧
        fInt P (.f64 x) kw = .ok (.i128 n)) ∨
    ((¬ ∃ n : Int, x.isFinite = true ∧ x.num = n * (x.den : Int) ∧ I128_MIN ≤ n ∧ n < (2:Int)^127) ∧
        fInt P (.f64 x) kw = .err .msg) := by
  obtain ⟨ob, hb1, hb2, hb3⟩ := hb
  have hred : fInt P (.f64 x) kw = match floatAsInteger x with
      | some n => .ok (.i128 n) | none => .err .msg := by
    simp only [fInt, Builtins.ofExcept, hb1, hb2, hb3, and_self, not_true_eq_false, if_false]
    rfl
  rw [hred]
  unfold floatAsInteger
  cases hf : floatIntegral x with
  | int n =>
    have := (floatIntegral_int_iff x n).1 hf
    by_cases hr : I128_MIN ≤ n ∧ n < (2:Int)^127
    · left; exact ⟨n, this.1, this.2, hr.1, hr.2, by simp only []; rw [if_pos hr]⟩
    · right
      refine ⟨?_, by simp only []; rw [if_neg hr]⟩
      rintro ⟨n', h1, h2, h3, h4⟩
      have hd : (x.den : Int) ≠ 0 := by have := den_pos x; omega
      have : n' = n := by
        have := this.2
        rw [h2] at this
        exact Int.eq_of_mul_eq_mul_right hd this
      subst this
      exact hr ⟨h3, h4⟩
  | notIntegral =>
    right
    refine ⟨?_, rfl⟩
    rintro ⟨n', h1, h2, _, _⟩
    have := (floatIntegral_int_iff x n').2 ⟨h1, h2⟩
    rw [hf] at this; cases this
  | infinite =>
    right
    refine ⟨?_, rfl⟩
    rintro ⟨n', h1, h2, _, _⟩
    have := (floatIntegral_int_iff x n').2 ⟨h1, h2⟩
    rw [hf] at this; cases this

/-- `int` of anything that is neither a number nor a string is an error. -/
theorem int_of_other (P : Params) (v : Value) (kw : Kwargs) (hb : ValidBase kw)
    (hn : v.isNumber = false) (hs : ∀ sf s, v ≠ .str sf s) : fInt P v kw = .err .msg := by
  obtain ⟨ob, hb1, hb2, hb3⟩ := hb
  cases v <;> simp_all [fInt, Builtins.ofExcept, Value.isNumber]

/-- A `base` outside `2..=36` is an error before anything else; a mistyped one keeps its class. -/
theorem int_bad_base (P : Params) (v : Value) (kw : Kwargs) :
    (∀ b, kwGet (intFromValue 0 U32_MAX') kw "base" = .ok (some b) → ¬ (2 ≤ b ∧ b ≤ 36) →
      fInt P v kw = .err .msg) ∧
    (∀ e, kwGet (intFromValue 0 U32_MAX') kw "base" = .error e → fInt P v kw = .err e) := by
  constructor
  · intro b h hb
    simp only [fInt, Builtins.ofExcept, h, Option.getD_some, hb, not_false_eq_true, if_true]
  · intro e h
    simp only [fInt, Builtins.ofExcept, h]

/-- **float of a number**: a float is returned as it is; an integer that fits i128 becomes the
nearest float (`F64.ofIntRNE`, round to nearest, ties to even — exact for |n| ≤ 2^53, see C13);
an integer above i128::MAX, and every non-number that is not a string, is an error. -/
theorem float_of_number (P : Params) (v : Value) :
    (∀ x, v = .f64 x → fFloat P v = .ok (.f64 x)) ∧
    (∀ n, v.asI128 = some n → (∀ x, v ≠ .f64 x) → (∀ sf s, v ≠ .str sf s) →
      fFloat P v = .ok (.f64 (F64.ofIntRNE n))) ∧
    (v.asNumber = none → (∀ sf s, v ≠ .str sf s) → fFloat P v = .err .msg) := by
  refine ⟨?_, ?_, ?_⟩
  · intro x hx; subst hx; rfl
  · intro n hn hx hs
    cases v <;> simp_all [fFloat, Value.asNumber, Number.toFloat]
  · intro hn hs
    cases v <;> simp_all [fFloat]

/-- **float of a small integer is exact**: for `|n| < 2^53` the float `float` returns denotes
exactly `n` (beyond that it is the nearest float, ties to even — `F64.ofIntRNE`, shared with C13). -/
theorem float_of_small_int_exact (n : Int) (h : n.natAbs < 2 ^ 53) :
    (F64.ofIntRNE n).num = n ∧ (F64.ofIntRNE n).den = 1 := by
  have hb : F64.bitLen n.natAbs ≤ 53 := by
    unfold F64.bitLen
    split
    · omega
    · rename_i h0
      have := (Nat.log2_lt h0).2 h
      omega
  have hr : F64.roundNat n.natAbs = (n.natAbs, 0) := by
    simp [F64.roundNat, hb]
  simp only [F64.ofIntRNE, hr, F64.num, F64.den]
  constructor
  · by_cases hn : n < 0
    · have e0 : ((0 : Nat) : Int).toNat = 0 := rfl
      simp only [hn, decide_true, if_true, e0, pow_zero, mul_one]; omega
    · have e0 : ((0 : Nat) : Int).toNat = 0 := rfl
      simp only [hn, decide_false, Bool.false_eq_true, if_false, e0, pow_zero, mul_one]; omega
  · simp

/-- **round (precision 0) is exact**: for a finite float `x = num / den`, the default method
gives the integer-valued float `±k` with `|x| - 1/2 < k ≤ |x| + 1/2` (nearest, ties away from
zero) and the sign of `x`; `floor` gives the integer `n` with `n ≤ x < n + 1`, `ceil` the integer
`c` with `c - 1 < x ≤ c` (denominator 1: integer-valued); NaN and the infinities are returned
unchanged; an unknown method is an error. -/
theorem round_exact (neg : Bool) (m : Nat) (e : Int) (kw : Kwargs)
    (hp : kw.find "precision" = none) :
    let x := F64.fin neg m e
    (kw.find "method" = none →
      ∃ k : Nat, fRound x kw = .ok (.f64 (.fin neg k 0)) ∧
        2 * x.num.natAbs < (2 * k + 1) * x.den ∧ 2 * k * x.den ≤ 2 * x.num.natAbs + x.den) ∧
    (kw.find "method" = some (.str false "floor".toList) →
      ∃ r : F64, fRound x kw = .ok (.f64 r) ∧ r.den = 1 ∧
        r.num * (x.den : Int) ≤ x.num ∧ x.num < (r.num + 1) * (x.den : Int)) ∧
    (kw.find "method" = some (.str false "ceil".toList) →
      ∃ r : F64, fRound x kw = .ok (.f64 r) ∧ r.den = 1 ∧
        (r.num - 1) * (x.den : Int) < x.num ∧ x.num ≤ r.num * (x.den : Int)) := by
  intro x
  have hprec : kwGet (intFromValue I32_MIN I32_MAX) kw "precision" = .ok none := by
    simp [kwGet, hp]
  refine ⟨?_, ?_, ?_⟩
  · intro hm
    obtain ⟨k, h1, h2, h3⟩ := roundF_spec neg m e
    refine ⟨k, ?_, h2, h3⟩
    have : kwGet strFromValue kw "method" = .ok none := by simp [kwGet, hm]
    simp [fRound, Builtins.ofExcept, this, hprec, x, F64.isFinite, h1]
  · intro hm
    obtain ⟨h1, h2, h3, h4⟩ := floorF_spec neg m e
    have : kwGet strFromValue kw "method" = .ok (some "floor".toList) := by
      simp [kwGet, hm, strFromValue, Except.map]
    refine ⟨x.floorF, ?_, h2, by rw [h1]; exact h3, by rw [h1]; exact h4⟩
    simp [fRound, Builtins.ofExcept, this, hprec, x, F64.isFinite]
  · intro hm
    obtain ⟨c, h1, h2, h3, h4⟩ := ceilF_spec neg m e
    have : kwGet strFromValue kw "method" = .ok (some "ceil".toList) := by
      simp [kwGet, hm, strFromValue, Except.map]
    refine ⟨x.ceilF, ?_, h2, by rw [h1]; exact h3, by rw [h1]; exact h4⟩
    simp [fRound, Builtins.ofExcept, this, hprec, x, F64.isFinite]

/-- `round`: a `precision` for which `10^precision` is not a normal float is an error (F15),
before anything else; a `method` other than `ceil` / `floor` is an error **for every value**
(finite or not) and every in-range precision; non-finite inputs with a valid method come back
unchanged. -/
theorem round_guards (x : F64) (kw : Kwargs) :
    (∀ p om, kwGet (intFromValue I32_MIN I32_MAX) kw "precision" = .ok (some p) →
      kwGet strFromValue kw "method" = .ok om → ¬ (-307 ≤ p ∧ p ≤ 308) → fRound x kw = .err .msg) ∧
    (∀ op m, kwGet (intFromValue I32_MIN I32_MAX) kw "precision" = .ok op →
      (op.getD 0 = 0 ∨ (-307 ≤ op.getD 0 ∧ op.getD 0 ≤ 308)) →
      kwGet strFromValue kw "method" = .ok (some m) → m ≠ "ceil".toList → m ≠ "floor".toList →
      fRound x kw = .err .msg) ∧
    (kw.find "precision" = none → kw.find "method" = none → x.isFinite = false →
      fRound x kw = .ok (.f64 x)) := by
  refine ⟨?_, ?_, ?_⟩
  · intro p om hp hm hr
    have hp0 : p ≠ 0 := by intro h; subst h; exact hr (by omega)
    simp [fRound, Builtins.ofExcept, hp, hm, hp0, hr]
  · intro op m hp hr hm h1 h2
    have hg : ¬ (op.getD 0 ≠ 0 ∧ ¬ (-307 ≤ op.getD 0 ∧ op.getD 0 ≤ 308)) := by
      rintro ⟨g1, g2⟩
      rcases hr with hr | hr
      · exact g1 hr
      · exact g2 hr
    simp only [fRound, Builtins.ofExcept, hp, hm, hg, if_false, h1, h2]
  · intro hp hm hx
    have h1 : kwGet (intFromValue I32_MIN I32_MAX) kw "precision" = .ok none := by simp [kwGet, hp]
    have h2 : kwGet strFromValue kw "method" = .ok none := by simp [kwGet, hm]
    simp [fRound, Builtins.ofExcept, h1, h2, hx]

/-! ## String filters -/

/-- **truncate**: a string of at most `length` characters is returned unchanged; a longer one
becomes its first `length` characters followed by the end marker — so the result never has more
than `length` characters plus the marker, and it is a list of characters (cut between
characters, never inside one: valid text by construction). -/
theorem truncate_contract (length : Nat) (end_ s : List Char) :
    (s.length ≤ length → truncate length end_ s = s) ∧
    (length < s.length → truncate length end_ s = s.take length ++ end_ ∧
      (truncate length end_ s).length = length + end_.length) ∧
    (truncate length end_ s).length ≤ max s.length (length + end_.length) := by
  unfold truncate
  refine ⟨?_, ?_, ?_⟩
  · intro h; simp [Nat.not_lt.2 h]
  · intro h; simp [h, List.length_take, Nat.min_eq_left (Nat.le_of_lt h)]
  · by_cases h : length < s.length
    · simp only [h, if_true, List.length_append, List.length_take, Nat.min_eq_left (Nat.le_of_lt h)]; omega
    · simp only [h, if_false]; omega

/-- `truncate`'s arguments: `length` is required (MissingArgument) and must be an integer that
fits `usize` (InvalidArgument / OutOfRange otherwise); `end` defaults to "…". -/
theorem truncate_arguments (s : List Char) (kw : Kwargs) :
    (kw.find "length" = none → fTruncate s kw = .err .missingArg) ∧
    (∀ v e, kw.find "length" = some v → intFromValue 0 USIZE_MAX v = .error e → fTruncate s kw = .err e) ∧
    (∀ v n, kw.find "length" = some v → intFromValue 0 USIZE_MAX v = .ok n → kw.find "end" = none →
      fTruncate s kw = .ok (strV (truncate n.toNat ellipsis s))) := by
  refine ⟨?_, ?_, ?_⟩
  · intro h; simp [fTruncate, Builtins.ofExcept, kwMust, kwGet, h]
  · intro v e h he; simp [fTruncate, Builtins.ofExcept, kwMust, kwGet, h, he, Except.map]
  · intro v n h hn he
    simp [fTruncate, Builtins.ofExcept, kwMust, kwGet, h, hn, he, Except.map]

/-- **trim_start / trim_end / trim with `pat`** remove only whole copies of `pat` from the
matching end(s) and leave none there; the empty pattern removes nothing. -/
theorem trim_pat_contract (pat s : List Char) :
    (∃ k, s = rep pat k ++ trimStartMatches pat s) ∧
    (pat ≠ [] → ¬ pat <+: trimStartMatches pat s) ∧
    (∃ k, s = trimEndMatches pat s ++ rep pat k) ∧
    (pat ≠ [] → ¬ pat <:+ trimEndMatches pat s) ∧
    (∃ j k, s = rep pat j ++ trimEndMatches pat (trimStartMatches pat s) ++ rep pat k) ∧
    (pat = [] → trimStartMatches pat s = s ∧ trimEndMatches pat s = s) := by
  obtain ⟨a1, a2, a3⟩ := trimStartMatches_spec pat s
  obtain ⟨b1, b2, b3⟩ := trimEndMatches_spec pat s
  refine ⟨a1, a2, b1, b2, ?_, fun h => ⟨a3 h, b3 h⟩⟩
  obtain ⟨j, hj⟩ := a1
  obtain ⟨⟨k, hk⟩, _, _⟩ := trimEndMatches_spec pat (trimStartMatches pat s)
  exact ⟨j, k, by rw [List.append_assoc, ← hk, ← hj]⟩

/-- **trim_start / trim_end / trim without `pat`** remove only whitespace (the Unicode
White_Space set of `char::is_whitespace`) from the matching end(s), and all of it. -/
theorem trim_ws_contract (s : List Char) :
    (∃ pre, s = pre ++ trimStartWs s ∧ ∀ c ∈ pre, isWhitespace c = true) ∧
    (∀ c, (trimStartWs s).head? = some c → isWhitespace c = false) ∧
    (∃ suf, s = trimEndWs s ++ suf ∧ ∀ c ∈ suf, isWhitespace c = true) ∧
    (∀ c, (trimEndWs s).getLast? = some c → isWhitespace c = false) ∧
    (∃ pre suf, s = pre ++ trimWs s ++ suf ∧ (∀ c ∈ pre, isWhitespace c = true) ∧
      ∀ c ∈ suf, isWhitespace c = true) := by
  have hend : ∀ t : List Char, (∃ suf, t = trimEndWs t ++ suf ∧ ∀ c ∈ suf, isWhitespace c = true) ∧
      (∀ c, (trimEndWs t).getLast? = some c → isWhitespace c = false) := by
    intro t
    obtain ⟨⟨pre, h1, h2⟩, h3⟩ := dropWhile_spec isWhitespace t.reverse
    unfold trimEndWs
    refine ⟨⟨pre.reverse, ?_, ?_⟩, ?_⟩
    · have := congrArg List.reverse h1
      simpa using this
    · intro c hc; exact h2 c (by simpa using hc)
    · intro c hc
      apply h3 c
      simpa [List.getLast?_reverse] using hc
  obtain ⟨⟨pre, h1, h2⟩, h3⟩ := dropWhile_spec isWhitespace s
  obtain ⟨⟨suf, e1, e2⟩, e3⟩ := hend s
  refine ⟨⟨pre, h1, h2⟩, h3, ⟨suf, e1, e2⟩, e3, ?_⟩
  obtain ⟨⟨suf', f1, f2⟩, _⟩ := hend (trimStartWs s)
  refine ⟨pre, suf', ?_, h2, f2⟩
  unfold trimWs
  rw [List.append_assoc, ← f1]
  exact h1

def htmlSpecial (c : Char) : Prop := c = '&' ∨ c = '<' ∨ c = '>' ∨ c = '"' ∨ c = '\''

/-- **escape_html / escape_xml change only the five documented characters**: they act character
by character (so concatenation is preserved), leave every other character alone, map the five
specials to their entities, and leave no raw `<`, `>`, `"` or `'` in the output. -/
theorem escape_html_contract (a b : List Char) :
    escapeHtml (a ++ b) = escapeHtml a ++ escapeHtml b ∧
    ((∀ c ∈ a, ¬ htmlSpecial c) → escapeHtml a = a) ∧
    (escapeHtml ['&'] = "&amp;".toList ∧ escapeHtml ['<'] = "&lt;".toList ∧ escapeHtml ['>'] = "&gt;".toList ∧
      escapeHtml ['"'] = "&quot;".toList ∧ escapeHtml ['\''] = "&#39;".toList) ∧
    (∀ x ∈ escapeHtml a, x ≠ '<' ∧ x ≠ '>' ∧ x ≠ '"' ∧ x ≠ '\'') := by
  refine ⟨by unfold escapeHtml; exact List.flatMap_append, ?_, by decide, ?_⟩
  · intro h
    apply flatMap_id_of
    intro c hc
    have := h c hc
    simp only [htmlSpecial, not_or] at this
    simp [this]
  · intro x hx
    have := flatMap_mem_not (bad := fun x => x = '<' ∨ x = '>' ∨ x = '"' ∨ x = '\'') a ?_ x hx
    · simpa [not_or] using this
    · intro c y hy
      by_cases h1 : c = '&'
      · subst h1; revert y; decide
      by_cases h2 : c = '<'
      · subst h2; revert y; decide
      by_cases h3 : c = '>'
      · subst h3; revert y; decide
      by_cases h4 : c = '"'
      · subst h4; revert y; decide
      by_cases h5 : c = '\''
      · subst h5; revert y; decide
      simp only [h1, h2, h3, h4, h5, if_false, List.mem_singleton] at hy
      subst hy
      simp [h2, h3, h4, h5]

theorem escape_xml_contract (a b : List Char) :
    escapeXml (a ++ b) = escapeXml a ++ escapeXml b ∧
    ((∀ c ∈ a, ¬ htmlSpecial c) → escapeXml a = a) ∧
    (escapeXml ['&'] = "&amp;".toList ∧ escapeXml ['<'] = "&lt;".toList ∧ escapeXml ['>'] = "&gt;".toList ∧
      escapeXml ['"'] = "&quot;".toList ∧ escapeXml ['\''] = "&apos;".toList) ∧
    (∀ x ∈ escapeXml a, x ≠ '<' ∧ x ≠ '>' ∧ x ≠ '"' ∧ x ≠ '\'') := by
  refine ⟨by unfold escapeXml; exact List.flatMap_append, ?_, by decide, ?_⟩
  · intro h
    apply flatMap_id_of
    intro c hc
    have := h c hc
    simp only [htmlSpecial, not_or] at this
    simp [this]
  · intro x hx
    have := flatMap_mem_not (bad := fun x => x = '<' ∨ x = '>' ∨ x = '"' ∨ x = '\'') a ?_ x hx
    · simpa [not_or] using this
    · intro c y hy
      by_cases h1 : c = '&'
      · subst h1; revert y; decide
      by_cases h2 : c = '<'
      · subst h2; revert y; decide
      by_cases h3 : c = '>'
      · subst h3; revert y; decide
      by_cases h4 : c = '"'
      · subst h4; revert y; decide
      by_cases h5 : c = '\''
      · subst h5; revert y; decide
      simp only [h1, h2, h3, h4, h5, if_false, List.mem_singleton] at hy
      subst hy
      simp [h2, h3, h4, h5]

/-- **replace** is leftmost, non-overlapping replacement and nothing else: for a non-empty
pattern, text without an occurrence is unchanged; an occurrence at the front is replaced and
the scan resumes after it; otherwise the first character is kept.  (These equations determine
the function.)  The empty pattern inserts `to` at every character boundary, as `str::replace`
does. -/
theorem replace_contract (frm rep' : List Char) :
    (frm ≠ [] →
      replace frm rep' [] = [] ∧
      (∀ rest, replace frm rep' (frm ++ rest) = rep' ++ replace frm rep' rest) ∧
      (∀ c cs, ¬ frm <+: c :: cs → replace frm rep' (c :: cs) = c :: replace frm rep' cs) ∧
      (∀ s, (∀ t, t <:+ s → ¬ frm <+: t) → replace frm rep' s = s)) ∧
    (∀ s, replace [] rep' s = rep' ++ s.flatMap fun c => c :: rep') := by
  refine ⟨fun hf => ?_, fun s => by simp [replace]⟩
  obtain ⟨h1, h2, h3⟩ := replace_equations frm rep' hf
  exact ⟨h1, h2, h3, replace_no_match frm rep' hf⟩

/-- `replace` reports a missing `from` / `to` as MissingArgument and a non-string one as
InvalidArgument. -/
theorem replace_arguments (s : List Char) (kw : Kwargs) :
    (kw.find "from" = none → fReplace s kw = .err .missingArg) ∧
    (∀ sf f, kw.find "from" = some (.str sf f) → kw.find "to" = none → fReplace s kw = .err .missingArg) ∧
    (∀ v, kw.find "from" = some v → (∀ sf f, v ≠ .str sf f) → fReplace s kw = .err .invalidArg) := by
  refine ⟨?_, ?_, ?_⟩
  · intro h; simp [fReplace, Builtins.ofExcept, kwMust, kwGet, h]
  · intro sf f h1 h2
    simp [fReplace, Builtins.ofExcept, kwMust, kwGet, h1, h2, strFromValue, Except.map]
  · intro v h hv
    cases v <;> simp_all [fReplace, Builtins.ofExcept, kwMust, kwGet, strFromValue, Except.map]

/-- **wordcount** counts maximal runs of non-whitespace: a non-empty run counts 1, and
splitting a text at a whitespace character adds the counts of the two sides. -/
theorem wordcount_contract :
    wordcount [] = 0 ∧
    (∀ s, s ≠ [] → (∀ c ∈ s, isWhitespace c = false) → wordcount s = 1) ∧
    (∀ a w b, isWhitespace w = true → wordcount (a ++ w :: b) = wordcount a + wordcount b) :=
  ⟨rfl, wordcount_run, fun a w b hw => wordcountAux_false_append_ws a w b hw false⟩

/-- **newlines_to_br** does exactly what it documents: the two-pass code
(`replace("\r\n", "<br>")` then every `\n` / `\r`) equals the one-pass specification `brSpec`
(`\r\n`, a lone `\n`, a lone `\r` each become `<br>`, every other character is kept in place);
in particular no `\n` or `\r` is left. -/
theorem newlines_to_br_contract (s : List Char) :
    newlinesToBr s = brSpec s ∧ ∀ x ∈ newlinesToBr s, x ≠ '\n' ∧ x ≠ '\r' := by
  refine ⟨newlinesToBr_eq_spec s, ?_⟩
  intro x hx
  unfold newlinesToBr at hx
  obtain ⟨c, _, hc⟩ := List.mem_flatMap.1 hx
  by_cases h : c = '\n' ∨ c = '\r'
  · simp only [h, if_true] at hc
    have hbr : ∀ y ∈ br, y ≠ '\n' ∧ y ≠ '\r' := by decide
    exact hbr x hc
  · simp only [h, if_false, List.mem_singleton] at hc
    subst hc
    simpa [not_or] using h

/-- **indent does exactly what it documents**: on every text without `\r`, the code (built on
`str::lines`, re-joining with `\n` and re-adding a final `\n`) equals the one-pass specification
`indentSpec`: the prefix of `min width 1000` spaces goes in front of the first line iff `first`
(and the text is not empty), and after every line break that is followed by more text unless
the line it starts is empty and `blank` is off; every character of the input is kept, in
order, and nothing else is inserted.  (With `\r\n` line ends `str::lines` drops the `\r`: an
observation reported to the lead, mirrored by the harness's reference implementation.) -/
theorem indent_contract (width : Nat) (first blank : Bool) (s : List Char) (hcr : '\r' ∉ s) :
    indent width first blank s = indentSpec (List.replicate (min width 1000) ' ') first blank s ∧
    indent width first blank s = indent (min width 1000) first blank s := by
  refine ⟨indent_eq_spec width first blank s hcr, ?_⟩
  simp [indent, Nat.min_assoc]

example : indent 2 false false "a\n\nb\n".toList = "a\n\n  b\n".toList := by decide
example : indent 1 true true "a\n\nb".toList = " a\n \n b".toList := by decide

/-- **Case filters change only case**, for ANY case mapping that is case-insensitively the
identity: if `fold` (a case folding that respects concatenation) identifies each mapped piece
with the original, then it identifies the results of `upper`, `lower`, `capitalize` and `title`
with their inputs — no character is dropped, duplicated, reordered or replaced by a different
letter. -/
structure CaseOnly (P : Params) (fold : List Char → List Char) : Prop where
  append : ∀ a b, fold (a ++ b) = fold a ++ fold b
  upperChar : ∀ c, fold (P.upperChar c) = fold [c]
  lowerChar : ∀ c, fold (P.lowerChar c) = fold [c]
  upperStr : ∀ s, fold (P.upperStr s) = fold s
  lowerStr : ∀ s, fold (P.lowerStr s) = fold s

theorem case_filters_change_only_case (P : Params) (fold : List Char → List Char)
    (h : CaseOnly P fold) (s : List Char) :
    fold (P.upperStr s) = fold s ∧ fold (P.lowerStr s) = fold s ∧
    fold (capitalize P s) = fold s ∧ fold (title P s) = fold s := by
  refine ⟨h.upperStr s, h.lowerStr s, ?_, ?_⟩
  · cases s with
    | nil => rfl
    | cons c cs =>
      simp only [capitalize]
      rw [h.append, h.upperChar, h.lowerStr, ← h.append]
      rfl
  · unfold title
    generalize true = cap
    induction s generalizing cap with
    | nil => rfl
    | cons c cs ih =>
      simp only [titleAux]
      have hc : fold (c :: cs) = fold [c] ++ fold cs := by rw [← h.append]; rfl
      split
      · rw [hc, ← ih]
        have : c :: titleAux P (if c ≠ '\'' then true else cap) cs = [c] ++ titleAux P (if c ≠ '\'' then true else cap) cs := rfl
        rw [this, h.append]
      · split
        · rw [h.append, h.upperChar, ih, hc]
        · rw [h.append, h.lowerChar, ih, hc]

/-- The hypothesis is satisfiable (identity mapping), and the concrete ASCII instance behaves as
documented on examples. -/
example : CaseOnly ⟨fun c => [c], fun c => [c], id, id, fun _ => none⟩ id :=
  ⟨fun _ _ => rfl, fun _ => rfl, fun _ => rfl, fun _ => rfl, fun _ => rfl⟩
example : title asciiParams "hello wORLD it's x-ray".toList = "Hello World It's X-Ray".toList := by decide
example : capitalize asciiParams "hELLO wORLD".toList = "Hello world".toList := by decide

/-- **pluralize** answers the singular suffix exactly for `1` and `-1`, the plural suffix for
every other integer that fits i128, and an error for anything else. -/
theorem pluralize_contract (v : Value) (kw : Kwargs) (hs : kw.find "singular" = none)
    (hp : kw.find "plural" = none) :
    (∀ n, v.asI128 = some n → fPluralize v kw = .ok (strV (if n = 1 ∨ n = -1 then [] else ['s']))) ∧
    (v.asI128 = none → fPluralize v kw = .err .msg) := by
  constructor
  · intro n hn
    simp [fPluralize, Builtins.ofExcept, kwGet, hs, hp, hn]
  · intro hn
    simp [fPluralize, Builtins.ofExcept, kwGet, hs, hp, hn]

/-- **get** returns the entry under a string key, else the default, else an error; a missing
`key` is MissingArgument and a non-string one InvalidArgument. -/
theorem get_contract (es : List (Key × Value)) (kw : Kwargs) :
    (kw.find "key" = none → fGet es kw = .err .missingArg) ∧
    (∀ v, kw.find "key" = some v → (∀ sf s, v ≠ .str sf s) → fGet es kw = .err .invalidArg) ∧
    (∀ sf k, kw.find "key" = some (.str sf k) →
      fGet es kw = match lookupStr es k with
        | some x => .ok x
        | none => match kw.find "default" with
          | some d => .ok d
          | none => .err .msg) := by
  refine ⟨?_, ?_, ?_⟩
  · intro h; simp [fGet, Builtins.ofExcept, kwMust, kwGet, h]
  · intro v h hv
    cases v <;> simp_all [fGet, Builtins.ofExcept, kwMust, kwGet, strFromValue, Except.map]
  · intro sf k h
    cases hd : kw.find "default" <;> cases hl : lookupStr es k <;>
      simp [fGet, Builtins.ofExcept, kwMust, kwGet, h, hd, hl, strFromValue, Except.map]


/-! ## Totality of the dispatch -/

/-- **Every modelled filter and test, on every receiver and every keyword arguments, ends in a
value, an error class or "not modelled" — never in a panic**, for any std parameters.  The
only hypothesis is that the receiver's scalar payload is in the range of its kind (what the
Rust types guarantee); it is what makes the `as_i128().unwrap()`s of `int` and `abs`
unreachable.  (`range` and `throw`: `range_never_panics`, `throw_contract`.) -/
theorem builtins_never_panic (P : Params) (name : String) (b : Builtin)
    (h : lookup (filterTable P) name = some b ∨ lookup testTable name = some b)
    (v : Value) (kw : Kwargs) (hw : v.scalarWF) (site : String) : b.apply v kw ≠ .panic site := by
  have hnp : NoPanic b := by
    rcases h with h | h
    · exact filters_noPanic P _ (lookup_mem _ _ _ h)
    · exact tests_noPanic _ (lookup_mem _ _ _ h)
  intro hc
  have := hnp v kw hw
  rw [hc] at this
  cases this

/-- `throw` always fails: with the message when it is a string, MissingArgument without one,
InvalidArgument for a non-string. -/
theorem throw_contract (kw : Kwargs) : ∃ e, fnThrow kw = .err e := by
  unfold fnThrow Builtins.ofExcept
  cases kwMust strFromValue kw "message" with
  | ok a => exact ⟨_, rfl⟩
  | error e => exact ⟨e, rfl⟩

/-! ## `odd`, `even`, `divisible_by` -/

/-- For an integer receiver that fits i128: `odd` and `even` are exact (also for negative
numbers) and complementary. -/
theorem odd_even_exact (n : Int) (h : inI128 n) :
    runTest "odd" (.i128 n) = some (decide (n % 2 = 1)) ∧
    runTest "even" (.i128 n) = some (decide (n % 2 = 0)) := by
  have t1 : Int.tmod n 2 ≠ 0 ↔ n % 2 = 1 := by
    rw [Int.tmod_eq_emod]
    split <;> omega
  have t2 : Int.tmod n 2 = 0 ↔ n % 2 = 0 := by
    rw [Int.tmod_eq_emod]
    split <;> omega
  have hodd : runTest "odd" (.i128 n) = some (Int.tmod n 2 != 0) := by
    simp only [runTest]
    have hl : lookup testTable "odd" = some { recv := .number, body := onNumber fun n _ => match n with
        | .int u => .ok (.bool (Int.tmod u 2 != 0)) | .float _ => .err .msg } := by rfl
    simp [hl, Builtin.apply, ArgTy.check, numberFromValue, Value.asNumber, Value.asI128, Value.intVal, h,
      onNumber, Except.map]
  have heven : runTest "even" (.i128 n) = some (Int.tmod n 2 == 0) := by
    simp only [runTest]
    have hl : lookup testTable "even" = some { recv := .number, body := onNumber fun n _ => match n with
        | .int u => .ok (.bool (Int.tmod u 2 == 0)) | .float _ => .err .msg } := by rfl
    simp [hl, Builtin.apply, ArgTy.check, numberFromValue, Value.asNumber, Value.asI128, Value.intVal, h,
      onNumber, Except.map]
  rw [hodd, heven]
  constructor
  · by_cases h1 : n % 2 = 1
    · have : Int.tmod n 2 ≠ 0 := t1.2 h1
      simp [h1, this]
    · have : Int.tmod n 2 = 0 := by rw [t2]; omega
      simp [h1, this]
  · by_cases h1 : n % 2 = 0
    · simp [h1, t2.2 h1]
    · have : Int.tmod n 2 ≠ 0 := by rw [t1]; omega
      simp [h1, this]

/-- **divisible_by** is exact: for i128 `n` and divisor `d`, the answer is `d ≠ 0 ∧ d ∣ n`
(including `i128::MIN` by `-1`, where the checked remainder has no value); a float receiver is
an error unless the divisor is zero (answered first). -/
theorem divisible_by_exact (n d : Int) (kw : Kwargs)
    (hd : kwMust (intFromValue I128_MIN I128_MAX) kw "divisor" = .ok d) :
    tDivisibleBy (.int n) kw = .ok (.bool (decide (d ≠ 0 ∧ d ∣ n))) := by
  simp only [tDivisibleBy, Builtins.ofExcept, hd]
  by_cases h0 : d = 0
  · simp [h0]
  · simp only [h0, if_false, checkedRemEuclid]
    have hb : (d == 0) = false := by simpa using h0
    simp only [hb, Bool.false_eq_true, if_false]
    by_cases hm : (n == I128_MIN && d == -1) = true
    · simp only [hm, if_true]
      have : d = -1 := by simp at hm; exact hm.2
      subst this
      simp
    · simp only [hm, if_false]
      congr 2
      simp only [h0, ne_eq, not_false_eq_true, true_and, beq_iff_eq, Int.dvd_iff_emod_eq_zero]
      rfl


end Tera.C17
