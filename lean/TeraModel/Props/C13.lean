/-
C13 — Integer arithmetic is exact or an error; mixed comparisons are exact.

Property theorems only (helper lemmas live in Lemmas/F64Cmp.lean).  All statements are about
the model in Model/Number.lean + Model/F64.lean, which the correspondence harness
(harness/src/bin/c13.rs) ties to tera/src/value/number.rs and value/mod.rs on every run.
-/
import TeraModel.Lemmas.F64Cmp
import TeraModel.Lemmas.Pow
import TeraModel.Lemmas.RoundNat
namespace Tera.C13
open Tera

/-! ## Exact values -/

/-- The mathematical value of a number: an extended rational. -/
inductive EV where
  | nan
  | ninf
  | pinf
  | rat (num : Int) (den : Nat)   -- num / den, den > 0
  deriving Repr, DecidableEq

def evF : F64 → EV
  | .nan => .nan
  | .inf true => .ninf
  | .inf false => .pinf
  | x@(.fin ..) => .rat x.num x.den

/-- Exact value of a numeric `Value` (integers of every encoding, floats). -/
def ev : Value → EV
  | .f64 x => evF x
  | v => match v.intVal with
    | some n => .rat n 1
    | none => .nan

/-- The order the property prescribes: by exact mathematical value, NaN equal to itself and
after every number. -/
def EV.cmp : EV → EV → Ordering
  | .nan, .nan => .eq
  | .nan, _ => .gt
  | _, .nan => .lt
  | .ninf, .ninf => .eq
  | .ninf, _ => .lt
  | _, .ninf => .gt
  | .pinf, .pinf => .eq
  | .pinf, _ => .gt
  | _, .pinf => .lt
  | .rat a b, .rat c d => cmpInt (a * (d : Int)) (c * (b : Int))

/-! ## Comparisons -/

/-- `cmp_f64_to_i128` is the exact comparison, for every float (finite, infinite, NaN, any
magnitude) and every i128. -/
theorem cmpF64ToI128_exact (x : F64) (n : Int) (h : inI128 n) :
    cmpF64ToI128 x n = F64.cmpIntSpec x n := by
  have hb : I128_MIN ≤ n ∧ n ≤ I128_MAX := h
  have := cmpF64_generic x n I128_MIN I128_MAX hb.1 hb.2
  unfold cmpF64ToI128 I128_MIN_F I128_MAX_F
  have e : I128_MAX + 1 = (2:Int)^127 := by unfold I128_MAX; ring
  rw [e] at this
  exact this

/-- `cmp_f64_to_u128` is the exact comparison for every float and every u128. -/
theorem cmpF64ToU128_exact (x : F64) (n : Int) (h : inU128 n) :
    cmpF64ToU128 x n = F64.cmpIntSpec x n := by
  have hb : 0 ≤ n ∧ n ≤ (U128_MAX : Int) := h
  have := cmpF64_generic x n 0 (U128_MAX : Int) hb.1 hb.2
  unfold cmpF64ToU128 U128_MAX_F ZERO_F
  have e : ((U128_MAX : Nat) : Int) + 1 = (2:Int)^128 := by unfold U128_MAX; norm_num
  rw [e] at this
  exact this

/-- The float-vs-integer specification is the order on exact values. -/
theorem cmpIntSpec_eq_ev (x : F64) (n : Int) :
    F64.cmpIntSpec x n = EV.cmp (evF x) (.rat n 1) := by
  cases x with
  | nan => rfl
  | inf neg => cases neg <;> rfl
  | fin neg m e => simp [F64.cmpIntSpec, evF, EV.cmp]

theorem cmpInt_rev (a b : Int) : Ordering.rev (cmpInt a b) = cmpInt b a := by
  rcases lt_trichotomy a b with h | h | h
  · rw [cmpInt_of_lt h, cmpInt_of_gt h]; rfl
  · subst h; rw [cmpInt_of_eq rfl]; rfl
  · rw [cmpInt_of_gt h, cmpInt_of_lt h]; rfl

theorem EV.cmp_rev (a b : EV) : Ordering.rev (EV.cmp a b) = EV.cmp b a := by
  cases a <;> cases b <;> first | rfl | exact cmpInt_rev _ _

/-- An integer-kind value with a payload in its Rust range. -/
structure IntVal (v : Value) (n : Int) : Prop where
  val : v.intVal = some n
  wf : v.scalarWF

theorem IntVal.range {v : Value} {n : Int} (h : IntVal v n) :
    I128_MIN ≤ n ∧ n ≤ (U128_MAX : Int) := by
  obtain ⟨hv, hw⟩ := h
  cases v <;> simp only [Value.intVal, Option.some.injEq, reduceCtorEq] at hv <;> subst hv <;>
    simp only [Value.scalarWF, inI64, inI128, I64_MIN, I64_MAX, I128_MIN, I128_MAX, U64_MAX, U128_MAX] at hw ⊢ <;>
    omega

theorem IntVal.asI128 {v : Value} {n : Int} (h : IntVal v n) :
    v.asI128 = if inI128 n then some n else none := by
  simp [Value.asI128, h.val]

theorem IntVal.asU128 {v : Value} {n : Int} (h : IntVal v n) :
    v.asU128 = if inU128 n then some n else none := by
  simp [Value.asU128, h.val]

theorem IntVal.isInteger {v : Value} {n : Int} (h : IntVal v n) : v.isInteger = true := by
  obtain ⟨hv, _⟩ := h
  cases v <;> simp [Value.intVal] at hv <;> rfl

theorem IntVal.ev {v : Value} {n : Int} (h : IntVal v n) : ev v = .rat n 1 := by
  obtain ⟨hv, _⟩ := h
  cases v <;> simp [Value.intVal] at hv <;> subst hv <;> simp [C13.ev, Value.intVal]

theorem IntVal.not_f64 {v : Value} {n : Int} (h : IntVal v n) : ∀ x, v ≠ .f64 x := by
  intro x hx; subst hx; simpa [Value.intVal] using h.val

/-- float vs integer of any encoding -/
theorem cmpF64ToNumber_exact (x : F64) {v : Value} {n : Int} (h : IntVal v n) :
    cmpF64ToNumber x v = some (EV.cmp (evF x) (.rat n 1)) := by
  unfold cmpF64ToNumber
  rw [h.asI128, h.asU128]
  by_cases c : inI128 n
  · simp [c, cmpF64ToI128_exact x n c, cmpIntSpec_eq_ev]
  · have r := h.range
    have cu : inU128 n := by
      simp only [inI128, inU128, I128_MIN, I128_MAX, U128_MAX] at c r ⊢
      omega
    simp [c, cu, cmpF64ToU128_exact x n cu, cmpIntSpec_eq_ev]

/-- A numeric value: a float, or an integer-kind value within its Rust range. -/
inductive IsNum : Value → Prop where
  | float (x : F64) : IsNum (.f64 x)
  | int {v : Value} {n : Int} (h : IntVal v n) : IsNum v

theorem f64_cmp_exact (x y : F64) : f64Cmp x y = EV.cmp (evF x) (evF y) := by
  unfold f64Cmp
  cases x with
  | nan => cases y <;> simp [F64.partialCmp, F64.isNan, evF, EV.cmp]
           rename_i b; cases b <;> rfl
  | inf a =>
    cases y with
    | nan => cases a <;> simp [F64.partialCmp, F64.isNan, evF, EV.cmp]
    | inf b => cases a <;> cases b <;> simp [F64.partialCmp, evF, EV.cmp]
    | fin n m e => cases a <;> simp [F64.partialCmp, evF, EV.cmp]
  | fin n m e =>
    cases y with
    | nan => simp [F64.partialCmp, F64.isNan, evF, EV.cmp]
    | inf b => cases b <;> simp [F64.partialCmp, evF, EV.cmp]
    | fin n' m' e' => simp [F64.partialCmp, evF, EV.cmp]

/-- **C13 (comparison, ordering).** For any two numbers — every width, signedness, floatness,
including values not representable in f64, infinities, NaN, ±0 — `partial_cmp` answers the order
of their exact mathematical values (NaN equal to itself and after every number). -/
theorem C13_partial_cmp_exact (a b : Value) (ha : IsNum a) (hb : IsNum b) :
    numPartialCmp a b = some (EV.cmp (ev a) (ev b)) := by
  cases ha with
  | float x =>
    cases hb with
    | float y => simp [numPartialCmp, ev, f64_cmp_exact]
    | int h =>
      have := cmpF64ToNumber_exact x h
      rw [h.ev]
      have nf := h.not_f64
      cases b <;> simp_all [numPartialCmp, ev]
  | int h =>
    cases hb with
    | float y =>
      have := cmpF64ToNumber_exact y h
      rw [h.ev, ← EV.cmp_rev]
      have nf := h.not_f64
      cases a <;> simp_all [numPartialCmp, ev]
    | int h' =>
      rename_i x y
      rw [h.ev, h'.ev]
      have ra := h.range
      have rb := h'.range
      have e1 : numPartialCmp a b = intPartialCmp a b := by
        have nfa := h.not_f64
        have nfb := h'.not_f64
        have ia := h.isInteger
        have ib := h'.isInteger
        cases a <;> cases b <;> simp_all [numPartialCmp]
      rw [e1]; unfold intPartialCmp
      rw [h.asU128, h'.asU128, h.asI128, h'.asI128]
      simp only [EV.cmp, Nat.cast_one, mul_one]
      simp only [I128_MIN, U128_MAX] at ra rb
      by_cases px : 0 ≤ x <;> by_cases py : 0 ≤ y
      · have ux : inU128 x := ⟨px, by simp only [U128_MAX]; omega⟩
        have uy : inU128 y := ⟨py, by simp only [U128_MAX]; omega⟩
        simp [ux, uy]
      · have ux : inU128 x := ⟨px, by simp only [U128_MAX]; omega⟩
        have uy : ¬ inU128 y := fun h => py h.1
        simp [ux, uy]
        symm; apply cmpInt_of_gt; omega
      · have ux : ¬ inU128 x := fun h => px h.1
        have uy : inU128 y := ⟨py, by simp only [U128_MAX]; omega⟩
        simp [ux, uy]
        symm; apply cmpInt_of_lt; omega
      · have ux : ¬ inU128 x := fun h => px h.1
        have uy : ¬ inU128 y := fun h => py h.1
        have ix : inI128 x := ⟨by simp only [I128_MIN]; omega, by simp only [I128_MAX]; omega⟩
        have iy : inI128 y := ⟨by simp only [I128_MIN]; omega, by simp only [I128_MAX]; omega⟩
        simp [ux, uy, ix, iy]

theorem f64_eq_exact (x y : F64) :
    ((x.isNan && y.isNan) || F64.feq x y) = (EV.cmp (evF x) (evF y) == .eq) := by
  cases x with
  | nan => cases y <;> simp [F64.feq, F64.partialCmp, F64.isNan, evF, EV.cmp]
           rename_i b; cases b <;> decide
  | inf a =>
    cases y with
    | nan => cases a <;> simp [F64.feq, F64.partialCmp, F64.isNan, evF, EV.cmp]
    | inf b => cases a <;> cases b <;> simp [F64.feq, F64.partialCmp, F64.isNan, evF, EV.cmp]
    | fin n m e => cases a <;> simp [F64.feq, F64.partialCmp, F64.isNan, evF, EV.cmp]
  | fin n m e =>
    cases y with
    | nan => simp [F64.feq, F64.partialCmp, F64.isNan, evF, EV.cmp]
    | inf b => cases b <;> simp [F64.feq, F64.partialCmp, F64.isNan, evF, EV.cmp]
    | fin n' m' e' => simp [F64.feq, F64.partialCmp, F64.isNan, evF, EV.cmp]

/-- **C13 (comparison, equality).** `==` between any two numbers holds exactly when their exact
mathematical values are equal (NaN equal to itself). -/
theorem C13_eq_exact (a b : Value) (ha : IsNum a) (hb : IsNum b) :
    numEq a b = (EV.cmp (ev a) (ev b) == .eq) := by
  cases ha with
  | float x =>
    cases hb with
    | float y => simp only [numEq, ev]; exact f64_eq_exact x y
    | int h =>
      have := cmpF64ToNumber_exact x h
      rw [h.ev]
      have nf := h.not_f64
      cases b <;> simp_all [numEq, ev]
  | int h =>
    cases hb with
    | float y =>
      have := cmpF64ToNumber_exact y h
      rw [h.ev, ← EV.cmp_rev]
      have nf := h.not_f64
      cases a <;> simp_all [numEq, ev] <;>
        (cases EV.cmp (evF y) (EV.rat _ 1) <;> simp [Ordering.rev])
    | int h' =>
      rename_i x y
      rw [h.ev, h'.ev]
      have ra := h.range
      have rb := h'.range
      have e1 : numEq a b = intEq a b := by
        have nfa := h.not_f64
        have nfb := h'.not_f64
        have ia := h.isInteger
        have ib := h'.isInteger
        cases a <;> cases b <;> simp_all [numEq]
      rw [e1]; unfold intEq
      rw [h.asU128, h'.asU128, h.asI128, h'.asI128]
      simp only [EV.cmp, Nat.cast_one, mul_one]
      simp only [I128_MIN, U128_MAX] at ra rb
      have key : (cmpInt x y == Ordering.eq) = decide (x = y) := by
        by_cases hxy : x = y
        · simp [hxy, cmpInt_of_eq]
        · have : cmpInt x y ≠ .eq := fun h => hxy (cmpInt_eq.1 h)
          simp [hxy]; cases hc : cmpInt x y <;> simp_all
      rw [key]
      by_cases px : 0 ≤ x <;> by_cases py : 0 ≤ y
      · have ux : inU128 x := ⟨px, by simp only [U128_MAX]; omega⟩
        have uy : inU128 y := ⟨py, by simp only [U128_MAX]; omega⟩
        simp [ux, uy, beq_eq_decide]
      · have ux : inU128 x := ⟨px, by simp only [U128_MAX]; omega⟩
        have uy : ¬ inU128 y := fun h => py h.1
        simp [ux, uy]; omega
      · have ux : ¬ inU128 x := fun h => px h.1
        have uy : inU128 y := ⟨py, by simp only [U128_MAX]; omega⟩
        simp [ux, uy]; omega
      · have ux : ¬ inU128 x := fun h => px h.1
        have uy : ¬ inU128 y := fun h => py h.1
        have ix : inI128 x := ⟨by simp only [I128_MIN]; omega, by simp only [I128_MAX]; omega⟩
        have iy : inI128 y := ⟨by simp only [I128_MIN]; omega, by simp only [I128_MAX]; omega⟩
        simp [ux, uy, ix, iy, beq_eq_decide]

/-- **C13 (representation independence).** Two encodings of the same mathematical value compare
identically against everything, under both `partial_cmp` and `==`. -/
theorem C13_representation_independent (a a' b : Value) (ha : IsNum a) (ha' : IsNum a')
    (hb : IsNum b) (same : ev a = ev a') :
    numPartialCmp a b = numPartialCmp a' b ∧ numPartialCmp b a = numPartialCmp b a' ∧
    numEq a b = numEq a' b ∧ numEq b a = numEq b a' := by
  simp [C13_partial_cmp_exact _ _ ha hb, C13_partial_cmp_exact _ _ ha' hb,
    C13_partial_cmp_exact _ _ hb ha, C13_partial_cmp_exact _ _ hb ha',
    C13_eq_exact _ _ ha hb, C13_eq_exact _ _ ha' hb, C13_eq_exact _ _ hb ha,
    C13_eq_exact _ _ hb ha', same]

/-- **C13 (NaN).** NaN is equal to itself and ordered after every number. -/
theorem C13_nan_last (b : Value) (hb : IsNum b) :
    numPartialCmp (.f64 .nan) (.f64 .nan) = some .eq ∧ numEq (.f64 .nan) (.f64 .nan) = true ∧
    (ev b ≠ .nan → numPartialCmp (.f64 .nan) b = some .gt ∧ numPartialCmp b (.f64 .nan) = some .lt) := by
  refine ⟨by rfl, by rfl, ?_⟩
  intro hne
  rw [C13_partial_cmp_exact _ _ (.float .nan) hb, C13_partial_cmp_exact _ _ hb (.float .nan)]
  cases hev : ev b <;> simp_all [ev, evF, EV.cmp]

/-! Non-vacuity: the hypotheses are met by concrete values of every encoding, including one not
representable in f64, and the theorem decides a classic trap (2^53 + 1 vs 2^53 as float). -/
example : IsNum (.u64 9007199254740993) :=
  .int (n := 9007199254740993) ⟨rfl, by simp only [Value.scalarWF, U64_MAX]; omega⟩
example : IsNum (.i128 (-170141183460469231731687303715884105728)) :=
  .int (n := -170141183460469231731687303715884105728)
    ⟨rfl, by simp only [Value.scalarWF, inI128, I128_MIN, I128_MAX]; omega⟩
example : numPartialCmp (.u64 9007199254740993) (.f64 (F64.ofBits 0x4340000000000000)) = some .gt := by
  decide +kernel

/-! ## Integer arithmetic -/

theorem IntVal.asNumber {v : Value} {n : Int} (h : IntVal v n) (hr : inI128 n) :
    v.asNumber = some (.int n) := by
  have nf := h.not_f64
  have e := h.asI128
  simp only [hr, if_true] at e
  cases v <;> simp_all [Value.asNumber]

theorem IntVal.asNumber_none {v : Value} {n : Int} (h : IntVal v n) (hr : ¬ inI128 n) :
    v.asNumber = none ∧ argError v = .operandRange := by
  have nf := h.not_f64
  have e := h.asI128
  have hi := h.isInteger
  simp only [hr, if_false] at e
  cases v <;> simp_all [Value.asNumber, argError, Value.isNumber, Value.isInteger]

/-- Two integer operands (any encoding) whose values fit in i128. -/
structure IntOperands (a b : Value) (x y : Int) : Prop where
  ha : IntVal a x
  hb : IntVal b y
  hx : inI128 x
  hy : inI128 y

theorem mathOp_int {a b : Value} {x y : Int} (h : IntOperands a b x y)
    (iop : Int → Int → Int) (fop : F64 → F64 → F64) :
    mathOp iop fop a b =
      if inI128 (iop x y) then .ok (.i128 (iop x y)) else .error .overflow := by
  unfold mathOp
  rw [h.ha.asNumber h.hx, h.hb.asNumber h.hy]
  simp only [Number.isFloat, Bool.or_self, Bool.false_eq_true, if_false, checkedI128]
  by_cases hc : inI128 (iop x y) <;> simp [hc]

/-- **C13 (`+ - *`).** On integers of any width whose values fit in i128 the result is the
mathematically exact one when it fits in i128 and an error otherwise — never a wrapped value. -/
theorem C13_add_sub_mul_exact (F : FloatOps) {a b : Value} {x y : Int} (h : IntOperands a b x y) :
    add F a b = (if inI128 (x + y) then .ok (.i128 (x + y)) else .error .overflow) ∧
    sub F a b = (if inI128 (x - y) then .ok (.i128 (x - y)) else .error .overflow) ∧
    mul F a b = (if inI128 (x * y) then .ok (.i128 (x * y)) else .error .overflow) :=
  ⟨mathOp_int h _ _, mathOp_int h _ _, mathOp_int h _ _⟩

/-- **C13 (operand range).** An integer operand outside i128 (a u128 above `i128::MAX`) makes
every arithmetic operator an error. -/
theorem C13_operand_out_of_range (F : FloatOps) {a : Value} (b : Value) {x : Int} (ha : IntVal a x)
    (hx : ¬ inI128 x) :
    add F a b = .error .operandRange ∧ sub F a b = .error .operandRange ∧
    mul F a b = .error .operandRange ∧ div F a b = .error .operandRange ∧
    floorDiv F a b = .error .operandRange ∧ rem F a b = .error .operandRange ∧
    pow F a b = .error .operandRange ∧ negate F a = .error .overflow := by
  obtain ⟨n1, n2⟩ := ha.asNumber_none hx
  have hn : a.isNumber = true := by
    have := ha.isInteger
    cases a <;> simp_all [Value.isNumber, Value.isInteger]
  refine ⟨?_, ?_, ?_, ?_, ?_, ?_, ?_, ?_⟩ <;>
    simp [add, sub, mul, div, floorDiv, rem, pow, negate, mathOp, n1, n2, hn]

/-- **C13 (negation).** -/
theorem C13_neg_exact (F : FloatOps) {a : Value} {x : Int} (ha : IntVal a x) (hx : inI128 x) :
    negate F a = if inI128 (-x) then .ok (.i128 (-x)) else .error .overflow := by
  unfold negate
  rw [ha.asNumber hx]
  simp only [checkedI128]
  by_cases hc : inI128 (-x) <;> simp [hc]

theorem isZero_int (y : Int) : (Number.int y).isZero = decide (y = 0) := rfl

/-- **C13 (`%`).** For a non-zero divisor `a % b` is the Euclidean remainder — always
representable, including `i128::MIN % -1 = 0` — and satisfies `0 ≤ a % b < |b|`. -/
theorem C13_rem_exact (F : FloatOps) {a b : Value} {x y : Int} (h : IntOperands a b x y)
    (hy0 : y ≠ 0) :
    rem F a b = .ok (.i128 (x % y)) ∧ 0 ≤ x % y ∧ x % y < |y| := by
  refine ⟨?_, Int.emod_nonneg x hy0, Int.emod_lt_abs x hy0⟩
  unfold rem
  rw [h.ha.asNumber h.hx, h.hb.asNumber h.hy]
  simp only [isZero_int, hy0, decide_false, Bool.false_eq_true, if_false, Number.isFloat,
    Bool.or_self, checkedRemEuclid]
  by_cases c : (x == I128_MIN && y == -1) = true
  · have hy1 : y = -1 := by simp at c; exact c.2
    subst hy1
    by_cases hx : x = I128_MIN <;> simp [hx]
  · simp [c, hy0]

/-- **C13 (`//`).** For a non-zero divisor `a // b` is the Euclidean (flooring for positive `b`)
quotient when it fits (only `i128::MIN // -1` does not) and an error otherwise, and together with
`%` it satisfies `(a // b) * b + a % b = a`. -/
theorem C13_floordiv_exact (F : FloatOps) {a b : Value} {x y : Int} (h : IntOperands a b x y)
    (hy0 : y ≠ 0) :
    floorDiv F a b = (if inI128 (x / y) then .ok (.i128 (x / y)) else .error .overflow) ∧
    (x / y) * y + x % y = x := by
  refine ⟨?_, by rw [mul_comm]; exact Int.mul_ediv_add_emod x y⟩
  unfold floorDiv
  rw [h.ha.asNumber h.hx, h.hb.asNumber h.hy]
  simp only [isZero_int, hy0, decide_false, Bool.false_eq_true, if_false, Number.isFloat,
    Bool.or_self, checkedDivEuclid]
  obtain ⟨xl, xu⟩ := h.hx
  simp only [I128_MIN, I128_MAX] at xl xu
  by_cases c : (x == I128_MIN && y == -1) = true
  · have hx1 : x = I128_MIN := by simp at c; exact c.1
    have hy1 : y = -1 := by simp at c; exact c.2
    subst hx1 hy1
    have : ¬ inI128 (-I128_MIN) := by
      simp only [inI128, I128_MIN, I128_MAX]; omega
    simp [this]
  · -- the quotient fits
    have fits : inI128 (x / y) := by
      have hne : ¬ (x = I128_MIN ∧ y = -1) := by simpa using c
      have habs : (x / y).natAbs ≤ x.natAbs := Int.natAbs_ediv_le_natAbs x y
      have e1 := Int.mul_ediv_add_emod x y
      have r0 := Int.emod_nonneg x hy0
      have r1 := Int.emod_lt_abs x hy0
      obtain ⟨yl, yu⟩ := h.hy
      simp only [I128_MIN, I128_MAX] at yl yu hne
      by_contra hnf
      have hq : x / y = 2 ^ 127 := by
        simp only [inI128, I128_MIN, I128_MAX] at hnf
        omega
      rw [hq] at e1
      have hxm : x = -2 ^ 127 := by omega
      rcases abs_cases y with ⟨ha, _⟩ | ⟨ha, _⟩ <;> rw [ha] at r1 <;> omega
    simp [c, hy0, fits]

/-- **C13 (division by zero).** A zero divisor — integer zero of any encoding, `0.0` or `-0.0` —
makes `/`, `//` and `%` an error, whatever the (numeric, in-range) dividend. -/
theorem C13_div_zero (F : FloatOps) (a b : Value) (na : Number) (ha : a.asNumber = some na)
    (hb : (∃ y, IntVal b y ∧ y = 0) ∨ (∃ s m e, b = .f64 (.fin s m e) ∧ m = 0)) :
    div F a b = .error .divZero ∧ floorDiv F a b = .error .divZero ∧
    rem F a b = .error .divZero := by
  have hz : ∃ nb, b.asNumber = some nb ∧ nb.isZero = true := by
    rcases hb with ⟨y, hy, rfl⟩ | ⟨s, m, e, rfl, rfl⟩
    · exact ⟨.int 0, hy.asNumber (by simp only [inI128, I128_MIN, I128_MAX]; omega), rfl⟩
    · exact ⟨.float (.fin s 0 e), rfl, rfl⟩
  obtain ⟨nb, h1, h2⟩ := hz
  simp [div, floorDiv, rem, ha, h1, h2]

/-- **C13 (`/`).** With a non-zero divisor `/` always yields a float (the quotient of the two
operands converted to f64), even for two integers. -/
theorem C13_div_is_float (F : FloatOps) (a b : Value) (na nb : Number)
    (ha : a.asNumber = some na) (hb : b.asNumber = some nb) (hz : nb.isZero = false) :
    div F a b = .ok (.f64 (F.div na.toFloat nb.toFloat)) := by
  simp [div, ha, hb, hz]

/-- **C13 (float contagion).** If either operand is a float, `+ - *` are carried out in floating
point on the operands converted to f64 (integers rounded to nearest, ties to even). -/
theorem C13_float_contagion (F : FloatOps) (a b : Value) (na nb : Number)
    (ha : a.asNumber = some na) (hb : b.asNumber = some nb)
    (hf : na.isFloat = true ∨ nb.isFloat = true) :
    add F a b = .ok (.f64 (F.add na.toFloat nb.toFloat)) ∧
    sub F a b = .ok (.f64 (F.sub na.toFloat nb.toFloat)) ∧
    mul F a b = .ok (.f64 (F.mul na.toFloat nb.toFloat)) := by
  have : (na.isFloat || nb.isFloat) = true := by rcases hf with h | h <;> simp [h]
  simp [add, sub, mul, mathOp, ha, hb, this]

/-- **C13 (`**`).** For integer operands in i128 and a non-negative exponent of *any* size the
result is the exact power when it fits in i128 and an error otherwise. -/
theorem C13_pow_exact (F : FloatOps) {a b : Value} {x y : Int} (h : IntOperands a b x y)
    (hy0 : 0 ≤ y) :
    (inI128 (x ^ y.toNat) → pow F a b = .ok (.i128 (x ^ y.toNat))) ∧
    (¬ inI128 (x ^ y.toNat) → ∃ e, pow F a b = .error e) := by
  unfold pow
  rw [h.ha.asNumber h.hx, h.hb.asNumber h.hy]
  have hneg : decide (y < 0) = false := by simp; omega
  simp only [Number.isFloat, hneg, Bool.or_self, Bool.false_eq_true, if_false]
  by_cases hu : 0 ≤ y ∧ y ≤ U32_MAX
  · simp only [hu, and_self, if_true, checkedPow_eq_spec, checkedI128]
    by_cases hc : inI128 (x ^ y.toNat) <;> simp [hc]
  · simp only [hu, if_false]
    have ybig : 2 ^ 32 ≤ y := by simp only [U32_MAX] at hu; omega
    by_cases hs : -1 ≤ x ∧ x ≤ 1
    · have e2 : (2 + (y % 2).toNat) = 2 + y.toNat % 2 := by omega
      have hp : x ^ (2 + (y % 2).toNat) = x ^ y.toNat := by
        rw [e2]; exact small_base_pow x hs y.toNat (by omega)
      simp only [hs, and_self, if_true, checkedPow_eq_spec, checkedI128, hp]
      by_cases hc : inI128 (x ^ y.toNat) <;> simp [hc]
    · simp only [hs, if_false]
      have : ¬ inI128 (x ^ y.toNat) := pow_big_not_inI128 x y.toNat (by omega) (by omega)
      simp [this]

/-- **C13 (integer → float conversion).** When an integer operand meets a float operand it is
converted to the float `± m · 2^e` nearest to it, ties to even (small integers exactly): this is
the `as f64` the float contagion theorems refer to. -/
theorem C13_int_to_float_nearest (i : Int) :
    ∃ m e : Nat, Number.toFloat (.int i) = .fin (decide (i < 0)) m (e : Int) ∧
      2 * (((i.natAbs : Nat) : Int) - (m : Int) * (2 ^ e : Nat)).natAbs ≤ 2 ^ e ∧
      (2 * (((i.natAbs : Nat) : Int) - (m : Int) * (2 ^ e : Nat)).natAbs = 2 ^ e → m % 2 = 0) ∧
      (F64.bitLen i.natAbs ≤ 53 → m = i.natAbs ∧ e = 0) := by
  refine ⟨(F64.roundNat i.natAbs).1, (F64.roundNat i.natAbs).2, ?_, roundNat_nearest i.natAbs⟩
  simp [Number.toFloat, F64.ofIntRNE]

/-! Non-vacuity and spot checks of the arithmetic theorems (kernel-evaluated on the model). -/
example : IntOperands (.i64 (-7)) (.u128 3) (-7) 3 :=
  ⟨⟨rfl, by simp only [Value.scalarWF, inI64, I64_MIN, I64_MAX]; omega⟩,
   ⟨rfl, by simp only [Value.scalarWF, U128_MAX]; omega⟩,
   by simp only [inI128, I128_MIN, I128_MAX]; omega, by simp only [inI128, I128_MIN, I128_MAX]; omega⟩
example : ((-7 : Int) / 3 = -3) ∧ ((-7 : Int) % 3 = 2) := by decide
example : checkedRemEuclid I128_MIN (-1) = none := by decide +kernel
example : checkedPow (-1) 4294967297 = some (-1) := by decide +kernel
-- 2^53 + 1 is a tie and rounds to the even significand 2^52 (times 2); 2^53 + 3 rounds up
example : F64.roundNat (2^53 + 1) = (2^52, 1) := by decide +kernel
example : F64.roundNat (2^53 + 3) = (2^52 + 2, 1) := by decide +kernel

end Tera.C13
