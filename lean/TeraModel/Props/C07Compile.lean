/-
C07, compiler half — the guarantees of C07 for EVERY program, not only for the sampled listings.

Property theorems about the model of the bytecode compiler (Model/Compiler.lean: `nodesCode`,
`exprCode`, `compileTemplate` mirror tera/src/parsing/compiler.rs and `Template::new`), all by
induction over the mutually recursive AST, no size bound:

* T1 `compile_stack_discipline`: every chunk compiled for a template (main, blocks, component
  bodies) runs on the abstract stack machine of Model/WellFormed.lean without ever popping or
  peeking an empty value stack, popping an empty capture stack, appending to a non-array, acting
  on a loop that is not there or `Break`ing before `Iterate` set the loop end; every jump lands
  inside the chunk or one past its end; and at the end the value, loop and capture stacks are as
  at entry.  Hypothesis: the syntactic scoping the parser enforces (`templateScoped`, evaluated
  on every real AST by the stage diff).  Without it the compiler model panics or emits a stray
  `Break` (witnesses below).
* T2 `refs_complete`: every name in an `ApplyFilter / RunTest / CallFunction / Include /
  Render*Component / RenderBlock` instruction of any chunk is in the collected call table (block
  map).
* T3 `compile_end_ip_pos`: the operand of every `Iterate` is positive.
* T5 `compile_meets_optimize_hypotheses`: every compiled chunk satisfies the three hypotheses of the
  optimiser theorems of Props/C09.lean, so those apply to every program.
* T6 `compile_imperative_agrees`: the transcription of compiler.rs as a mutable pass with
  back-patched placeholders (Model/CompilerImp.lean) computes exactly the functional model and reaches
  none of the `unreachable!()` sites.
* T4 `compile_deterministic_up_to_kwarg_order`: reordering every kwargs map (the `HashMap` iteration
  order of `compile_kwargs`) changes neither the outcome class, nor the chunk sizes, nor the tables.

The tie to the real compiler is the stage diff of harness bin c07c (real AST → `drv_c07c` must
reproduce the real pre-optimisation listing of every chunk and the call tables).
-/
import TeraModel.Lemmas.CompilerOpOf
import TeraModel.Lemmas.CompilerKwOrder
import TeraModel.Lemmas.CompilerOptHyps
import TeraModel.Lemmas.CompilerImpEq
import TeraModel.Props.C09
import TeraModel.Props.C07
namespace Tera.C07Compile
open Tera Tera.Compiler Tera.WellFormed

/-- T1 for one compiled node list (a whole chunk: compiled at index 0 with no current loop),
started on arbitrary stacks `a`. -/
theorem nodes_stack_discipline (ns : List Node) (hsc : nodesScoped false ns = true) (a : St) :
    let c := nodesCode 0 none ns
    (∀ pc s, Reach c a pc s → ¬ Panics c pc s) ∧
    (∀ pc s, Reach c a pc s → pc ≤ c.length) ∧
    (∀ pc s, Reach c a pc s → c.length ≤ pc → s.le a = true) := by
  intro c
  have hlen : (nodesTab 0 none a ns).length = c.length := tabLen2 ns 0 none a
  have hend : (nodesTab 0 none a ns ++ [a])[0 + c.length]? = some a := by
    rw [Nat.zero_add, ← hlen]; simp
  have hsegT : Seg (nodesTab 0 none a ns ++ [a]) 0 (nodesTab 0 none a ns) := seg_prefix _ _
  have hok := wf_aux.2.1 0 none ns 0 none a c (nodesTab 0 none a ns ++ [a]) false (seg_self c) hsegT
    hend hsc (fun h => by cases h)
  have h0 : (nodesTab 0 none a ns ++ [a])[0]? = some a :=
    head_nodes hsegT hend hsc (fun h => by cases h)
  exact table_sound c _ a hlen h0 hok

/-- **T1** `compile_stack_discipline`.  For every template whose AST is scoped the way the parser
guarantees, the compiler does not panic, and every chunk it produces (main chunk, every block
chunk, every component body), started on any stacks `a` (`St.empty` for a render; a block chunk
runs on top of its caller's stacks):
* never reaches an instruction that would pop / peek an empty value stack, pop an empty capture
  stack, `AppendToList` below a non-array, use a loop that is not there or `Break` before the loop
  end is set;
* only ever jumps to an index inside the chunk or one past its end;
* when it runs off the end, the value stack (heights and what is underneath), the loop stack and
  the capture count are as at entry (`s ⊑ a`: same three stacks up to the "known array" tag and
  the recorded loop ends, see `WellFormed.St.le`). -/
theorem compile_stack_discipline (t : Template) (hs : templateScoped t = true) :
    ∃ c, compileTemplate t = .ok c ∧ ∀ ch ∈ c.chunks, ∀ a : St,
      (∀ pc s, Reach ch a pc s → ¬ Panics ch pc s) ∧
      (∀ pc s, Reach ch a pc s → pc ≤ ch.length) ∧
      (∀ pc s, Reach ch a pc s → ch.length ≤ pc → s.le a = true) := by
  have hnp : firstPanic (allEvents t) = none := by
    simp only [templateScoped, Bool.and_eq_true, List.all_eq_true] at hs
    obtain ⟨hmain, hcomps⟩ := hs
    have hall : AllE Good (allEvents t) := by
      simp only [allEvents, allE_append]
      refine ⟨scoped_good_aux.2.1 false 0 t.nodes false hmain (fun h => h), ?_⟩
      intro ev hev
      obtain ⟨cd, hcd, hev'⟩ := List.mem_flatMap.mp hev
      exact scoped_good_aux.2.1 false 0 cd.body false (hcomps cd hcd).1 (fun h => h) ev hev'
    unfold firstPanic
    rw [List.findSome?_eq_none_iff]
    intro ev hev
    have := hall ev hev
    cases ev <;> simp [Event.isPanic, Good] at this ⊢
  have hc : ∃ c, compileTemplate t = .ok c := by
    unfold compileTemplate; rw [hnp]; exact ⟨_, rfl⟩
  obtain ⟨c, hc⟩ := hc
  refine ⟨c, hc, ?_⟩
  intro ch hch a
  obtain ⟨ns, rfl, hsc⟩ := chunks_are_scoped_nodes t hs c hc ch hch
  exact nodes_stack_discipline ns hsc a

/-- **T1, in terms of the verified checker of Props/C07.lean** (`compile_wellFormed`): for every
scoped template and whatever the payload encoders are, the wire form of every compiled chunk has a
table that passes `WellFormed.verify` — so `C07.verify_sound` applies to every chunk the compiler can
produce, not only to the sampled listings: on the `Entry`-level machine of Props/C07.lean
(`C07.Reach`, `C07.Panics`) no reachable instruction panics, every jump lands inside the chunk or one
past its end, and at the end the three stacks are empty.  (For a block chunk, run on its caller's
stacks, `compile_stack_discipline` above gives the framed statement directly.) -/
theorem compile_verify (t : Template) (hs : templateScoped t = true) (enc : Enc) :
    ∃ c, compileTemplate t = .ok c ∧ ∀ ch ∈ c.chunks,
      (∃ table, verify (toEntries enc ch) table = true) ∧
      (∀ pc s, C07.Reach (toEntries enc ch) pc s → ¬ C07.Panics (toEntries enc ch) pc s) ∧
      (∀ pc s, C07.Reach (toEntries enc ch) pc s → pc ≤ (toEntries enc ch).length) ∧
      (∀ pc s, C07.Reach (toEntries enc ch) pc s → (toEntries enc ch).length ≤ pc → s = St.empty) := by
  obtain ⟨c, hc, _⟩ := compile_stack_discipline t hs
  refine ⟨c, hc, ?_⟩
  intro ch hch
  obtain ⟨ns, rfl, hsc⟩ := chunks_are_scoped_nodes t hs c hc ch hch
  have hv := nodes_verify enc ns hsc
  exact ⟨⟨_, hv⟩, C07.verify_sound _ _ hv⟩

/-- Corollary: a render (empty stacks at entry) ends with the three stacks empty. -/
theorem compile_stacks_empty_at_end (t : Template) (hs : templateScoped t = true) :
    ∃ c, compileTemplate t = .ok c ∧ ∀ ch ∈ c.chunks, ∀ s,
      Reach ch St.empty ch.length s → s = St.empty := by
  obtain ⟨c, hc, h⟩ := compile_stack_discipline t hs
  exact ⟨c, hc, fun ch hch s hr => St.le_empty s ((h ch hch St.empty).2.2 _ s hr (Nat.le_refl _))⟩

/-! ## T2 -/

/-- the name instruction `i` refers to is in the template's tables -/
def RefOK (c : Compiled) (i : CInstr) : Prop :=
  match i with
  | .applyFilter n => n ∈ c.filterCalls
  | .runTest n => n ∈ c.testCalls
  | .callFunction n => n ∈ c.functionCalls
  | .include n => n ∈ c.includeCalls
  | .renderInlineComponent n => n ∈ c.componentCalls
  | .renderBodyComponent n => n ∈ c.componentCalls
  | _ => True

/-- **T2** `refs_complete` (call tables): every filter, test, function, include and component
name occurring in an instruction of ANY chunk produced for the template — main chunk, block
chunks, component bodies; this includes set-block filter chains, kwarg and argument expressions,
comprehension bodies and component-call bodies, which are all compiled inline into one of those
chunks — is a key of the corresponding call table that `validate_template_references` checks at
add time.  No hypothesis on the AST. -/
theorem refs_complete (t : Template) (c : Compiled) (hc : compileTemplate t = .ok c) :
    ∀ ch ∈ c.chunks, ∀ e ∈ ch, RefOK c e.1 := by
  unfold compileTemplate at hc
  split at hc
  · cases hc
  · cases hc
    -- S: "is a recorded event of the template"
    have hbody : AllE (· ∈ allEvents t) (bodyEvents t) :=
      fun ev hev => List.mem_append_left _ hev
    have hcomp : ∀ cd ∈ t.componentDefinitions, AllE (· ∈ allEvents t) (componentEvents cd) :=
      fun cd hcd ev hev => List.mem_append_right _ (List.mem_flatMap.mpr ⟨cd, hcd, hev⟩)
    have key : ∀ ch : Code, AllC (RefS (· ∈ allEvents t)) ch → ∀ e ∈ ch,
        RefOK { main := nodesCode 0 none t.nodes, blocks := blockDefs (bodyEvents t),
                blockNames := topBlocks (bodyEvents t),
                components := t.componentDefinitions.map fun c => (c.name, nodesCode 0 none c.body),
                filterCalls := filterCalls (allEvents t), testCalls := testCalls (allEvents t),
                functionCalls := functionCalls (allEvents t),
                includeCalls := includeCalls (allEvents t),
                componentCalls := componentCalls (allEvents t) } e.1 := by
      intro ch hch e he
      have := hch e he
      obtain ⟨i, sp⟩ := e
      cases i <;> simp only [RefS, RefOK] at this ⊢ <;>
        simp only [filterCalls, testCalls, functionCalls, includeCalls, componentCalls,
          List.mem_filterMap] <;> exact ⟨_, this, rfl⟩
    intro ch hch
    simp only [Compiled.chunks, List.mem_cons, List.mem_append, List.mem_map] at hch
    rcases hch with rfl | ⟨⟨n, code⟩, hmem, rfl⟩ | ⟨_, ⟨cd, hmem, rfl⟩, rfl⟩
    · exact key _ (refs_nodes t.nodes 0 none false 0 _ hbody)
    · have hblk := blocks_refs_aux.2.1 false 0 t.nodes _ hbody
      simp only [blockDefs, bodyEvents, List.mem_filterMap] at hmem
      obtain ⟨ev, hev, hsome⟩ := hmem
      have := hblk ev hev
      cases ev <;> simp at hsome
      obtain ⟨rfl, rfl⟩ := hsome
      exact key _ this
    · exact key _ (refs_nodes cd.body 0 none false 0 _ (hcomp cd hmem))

/-- **T2** `refs_complete` (blocks): every `RenderBlock(name)` of the main chunk or of a block
chunk names a block of the template's block map. -/
theorem refs_complete_blocks (t : Template) (c : Compiled) (hc : compileTemplate t = .ok c) :
    ∀ ch ∈ c.main :: c.blocks.map (·.2), ∀ e ∈ ch, ∀ n, e.1 = .renderBlock n →
      ∃ code, (n, code) ∈ c.blocks := by
  unfold compileTemplate at hc
  split at hc
  · cases hc
  · cases hc
    have hbody : AllE (· ∈ bodyEvents t) (bodyEvents t) := fun ev hev => hev
    have key : ∀ ch : Code, AllC (RefS (· ∈ bodyEvents t)) ch → ∀ e ∈ ch, ∀ n,
        e.1 = .renderBlock n → ∃ code, (n, code) ∈ blockDefs (bodyEvents t) := by
      intro ch hch e he n hn
      have := hch e he
      simp only [RefS, hn] at this
      obtain ⟨code, top, hmem⟩ := this
      exact ⟨code, by simp only [blockDefs, List.mem_filterMap]; exact ⟨_, hmem, rfl⟩⟩
    intro ch hch
    simp only [List.mem_cons, List.mem_map] at hch
    rcases hch with rfl | ⟨⟨n, code⟩, hmem, rfl⟩
    · exact key _ (refs_nodes t.nodes 0 none false 0 _ hbody)
    · have hblk := blocks_refs_aux.2.1 false 0 t.nodes _ hbody
      simp only [blockDefs, bodyEvents, List.mem_filterMap] at hmem
      obtain ⟨ev, hev, hsome⟩ := hmem
      have := hblk ev hev
      cases ev <;> simp at hsome
      obtain ⟨rfl, rfl⟩ := hsome
      exact key _ this

/-! ## T3 -/

/-- **T3** `compile_end_ip_pos`: the operand of every `Iterate` of every chunk is positive (the
`end_ip != 0` convention of the loop bookkeeping, vm/for_loop.rs).  No hypothesis on the AST. -/
theorem compile_end_ip_pos (t : Template) (c : Compiled) (hc : compileTemplate t = .ok c) :
    ∀ ch ∈ c.chunks, ∀ e ∈ ch, ∀ target, e.1 = .iterate target → 0 < target := by
  unfold compileTemplate at hc
  split at hc
  · cases hc
  · cases hc
    intro ch hch
    simp only [Compiled.chunks, List.mem_cons, List.mem_append, List.mem_map] at hch
    rcases hch with rfl | ⟨⟨n, code⟩, hmem, rfl⟩ | ⟨_, ⟨cd, hmem, rfl⟩, rfl⟩
    · exact iter_nodes t.nodes 0 none
    · have hgood := blocks_iter_aux.2.1 false 0 t.nodes
      simp only [blockDefs, bodyEvents, List.mem_filterMap] at hmem
      obtain ⟨ev, hev, hsome⟩ := hmem
      have := hgood ev hev
      cases ev <;> simp at hsome
      obtain ⟨rfl, rfl⟩ := hsome
      exact this
    · exact iter_nodes cd.body 0 none

/-! ## T4 -/

/-- **T4** `compile_deterministic_up_to_kwarg_order`.  `compile_kwargs` visits a
`HashMap<String, Expression>` in an unspecified order; in the model that order is the order of the
kwargs lists of the AST, and `compileTemplate` is a function of the AST (so for a fixed order the
result is unique).  For ANY reordering `σ` applied to every kwargs map of the template at every depth
(`reTemplate σ t`; `σ l` is a permutation of `l`), the outcome does not change except for the order
of the kwarg segments inside the chunks:
* the scoping precondition of T1 is unaffected, and the compiler panics for the one order iff it
  panics for the other;
* the main chunk and every component chunk have the same number of instructions (every kwarg
  contributes its `LoadConst` and its value's code wherever it is placed), and the same
  components are defined;
* the five call tables have the same keys, the same blocks are defined, and the same block names
  are recorded as top level.
T1, T2 and T3 hold for every order (they are stated for all ASTs). -/
theorem compile_deterministic_up_to_kwarg_order (t : Template)
    (σ : List (String × Expr) → List (String × Expr)) (hσ : ∀ l, (σ l).Perm l) :
    templateScoped (reTemplate σ t) = templateScoped t ∧
    ((∃ c, compileTemplate t = .ok c) ↔ (∃ c', compileTemplate (reTemplate σ t) = .ok c')) ∧
    ∀ c c', compileTemplate t = .ok c → compileTemplate (reTemplate σ t) = .ok c' →
      c'.main.length = c.main.length ∧
      c'.components.map (fun p => (p.1, p.2.length)) = c.components.map (fun p => (p.1, p.2.length)) ∧
      (∀ n, n ∈ c'.filterCalls ↔ n ∈ c.filterCalls) ∧
      (∀ n, n ∈ c'.testCalls ↔ n ∈ c.testCalls) ∧
      (∀ n, n ∈ c'.functionCalls ↔ n ∈ c.functionCalls) ∧
      (∀ n, n ∈ c'.includeCalls ↔ n ∈ c.includeCalls) ∧
      (∀ n, n ∈ c'.componentCalls ↔ n ∈ c.componentCalls) ∧
      (∀ n, n ∈ c'.blocks.map (·.1) ↔ n ∈ c.blocks.map (·.1)) ∧
      (∀ n, n ∈ c'.blockNames ↔ n ∈ c.blockNames) := by
  have hall := re_tags_allEvents σ hσ t
  have hbody := re_tags_bodyEvents σ hσ t
  have hpanic : firstPanic (allEvents (reTemplate σ t)) = none ↔ firstPanic (allEvents t) = none := by
    rw [firstPanic_none, firstPanic_none]; simp only [hall]
  refine ⟨re_templateScoped σ hσ t, ?_, ?_⟩
  · unfold compileTemplate
    constructor
    · rintro ⟨c, hc⟩
      split at hc
      · cases hc
      · rename_i h; rw [hpanic.mpr h]; exact ⟨_, rfl⟩
    · rintro ⟨c, hc⟩
      split at hc
      · cases hc
      · rename_i h; rw [hpanic.mp h]; exact ⟨_, rfl⟩
  · intro c c' hc hc'
    unfold compileTemplate at hc hc'
    split at hc
    · cases hc
    split at hc'
    · cases hc'
    cases hc; cases hc'
    have hlen := (re_len_aux σ hσ).2.1
    refine ⟨hlen t.nodes 0 none, ?_, ?_, ?_, ?_, ?_, ?_, ?_, ?_⟩
    · simp only [reTemplate, List.map_map]
      apply List.map_congr_left
      intro cd _
      simp only [Function.comp, hlen cd.body 0 none]
    · intro n; simp only [mem_filterCalls, hall]
    · intro n; simp only [mem_testCalls, hall]
    · intro n; simp only [mem_functionCalls, hall]
    · intro n; simp only [mem_includeCalls, hall]
    · intro n; simp only [mem_componentCalls, hall]
    · intro n; simp only [mem_blockNames, hbody]
    · intro n; simp only [mem_topBlocks, hbody]

/-! ## T5: compiled chunks meet the hypotheses of the optimiser theorems (C09) -/

/-- **T5** `compile_meets_optimize_hypotheses`.  The theorems of Props/C09.lean about the peephole
pass (`optimize_no_panic`, `optimize_expand`, `jumps_land_same_code`, `optimize_preserves`) assume of
their input what "the compiler emits": every jump operand is an instruction index or the
one-past-the-end index (`TargetsInRange`), there is no fused instruction (`NoFused`), and every
`LoadName` / `LoadAttr` was added with a span (`PathSpans`).  For EVERY template (no hypothesis on
the AST) and every chunk the compiler model produces for it, in wire form with any payload
encoders, the three hold — hence the pass never hits its `index_map[target]` panic on compiled
code (`Chunk::optimize`, instructions.rs) and `C09.optimize_preserves` applies to it. -/
theorem compile_meets_optimize_hypotheses (t : Template) (c : Compiled)
    (hc : compileTemplate t = .ok c) (enc : Enc) :
    ∀ ch ∈ c.chunks,
      C09.TargetsInRange (toEntries enc ch) ∧ C09.NoFused (toEntries enc ch) ∧
      PathVm.PathSpans (toEntries enc ch) ∧
      ∃ r, Optimize.optimize (toEntries enc ch) = .ok r := by
  have key : ∀ ns : List Node,
      C09.TargetsInRange (toEntries enc (nodesCode 0 none ns)) ∧
      C09.NoFused (toEntries enc (nodesCode 0 none ns)) ∧
      PathVm.PathSpans (toEntries enc (nodesCode 0 none ns)) ∧
      ∃ r, Optimize.optimize (toEntries enc (nodesCode 0 none ns)) = .ok r := by
    intro ns
    have h1 : C09.TargetsInRange (toEntries enc (nodesCode 0 none ns)) := by
      intro e he t ht
      simp only [toEntries, List.mem_map] at he
      obtain ⟨y, hy, rfl⟩ := he
      simp only [target_toInstr] at ht
      rcases targets_nodes ns y hy t ht with h | h
      · simpa [toEntries] using h.2
      · cases h
    refine ⟨h1, ?_, ?_, ⟨_, C09.optimize_no_panic _ h1⟩⟩
    · intro e he
      simp only [toEntries, List.mem_map] at he
      obtain ⟨y, _, rfl⟩ := he
      exact isFused_toInstr enc y.1
    · intro e he hk
      simp only [toEntries, List.mem_map] at he
      obtain ⟨y, hy, rfl⟩ := he
      have hsp := pspan_nodes ns 0 none y hy
      have : y.2 = true := by
        apply hsp
        obtain ⟨i, b⟩ := y
        rcases hk with ⟨n, hn⟩ | ⟨a, ha⟩
        · left; cases i <;> simp [CInstr.toInstr] at hn ⊢
        · right; cases i <;> simp [CInstr.toInstr] at ha ⊢
      simp [this]
  unfold compileTemplate at hc
  split at hc
  · cases hc
  · cases hc
    intro ch hch
    simp only [Compiled.chunks, List.mem_cons, List.mem_append, List.mem_map] at hch
    rcases hch with rfl | ⟨⟨n, code⟩, hmem, rfl⟩ | ⟨_, ⟨cd, hmem, rfl⟩, rfl⟩
    · exact key _
    · -- the chunk of a recorded block is `nodesCode 0 none body`
      have hb := blockChunks_are_nodes t.nodes
      simp only [blockDefs, bodyEvents, List.mem_filterMap] at hmem
      obtain ⟨ev, hev, hsome⟩ := hmem
      have := hb ev hev
      cases ev <;> simp at hsome
      obtain ⟨rfl, rfl⟩ := hsome
      obtain ⟨body, rfl⟩ := this
      exact key _
    · exact key _

/-- **T3, after the optimisation pass** `compile_end_ip_pos_optimized`: for every template (no
hypothesis on the AST), every chunk the compiler produces and whatever `Chunk::optimize` returns
for it, the operand of every `Iterate` of the OPTIMISED chunk is positive too — the `end_ip != 0`
hypothesis of the loop-bookkeeping theorems of Props/C03.lean (`set_in_loop_is_iteration_local`,
…) holds for the code that is actually interpreted.  (T3 for the compiled chunk, T5 for
`TargetsInRange`, `C09.jumps_land_same` for what `index_map[t]` is.) -/
theorem compile_end_ip_pos_optimized (t : Template) (c : Compiled) (hc : compileTemplate t = .ok c)
    (enc : Enc) :
    ∀ ch ∈ c.chunks, ∀ r, Optimize.optimize (toEntries enc ch) = .ok r →
      ∀ e ∈ r, ∀ target, e.1 = .iterate target → 0 < target := by
  intro ch hch r hr
  have h5 := compile_meets_optimize_hypotheses t c hc enc ch hch
  have h3 := compile_end_ip_pos t c hc ch hch
  refine optimize_keeps_iterate_pos _ r hr h5.1 ?_
  intro e he tt hte
  simp only [toEntries, List.mem_map] at he
  obtain ⟨y, hy, rfl⟩ := he
  refine h3 y hy tt ?_
  obtain ⟨i, b⟩ := y
  cases i <;> simp [CInstr.toInstr] at hte ⊢
  exact hte

/-! ## T6: the mutable pass of compiler.rs and the functional model agree -/

/-- **T6** `compile_imperative_agrees`.  Model/CompilerImp.lean transcribes compiler.rs as the
mutable pass it is: `chunk.add`, the `processing_bodies` stack, placeholders `Jump(0)` /
`PopJumpIfFalse(0)` / `JumpIf…OrPop(0)` / `Iterate(0)` patched later through `get_mut`, `end_branch`,
`compile_block` swapping the chunk, every `unreachable!()` / `unwrap()` an `.error` outcome.  For
every scoped node list (the body of a template, the body of a component definition), started from
`Compiler::new`, that pass
* returns (`.ok`): none of the panic sites compiler.rs:289, 297, 386, 403, 409, 452, 569, 572, 591 is
  reached;
* leaves exactly the chunk `nodesCode 0 none ns` of the functional model (every placeholder patched
  to the operand the functional model writes directly) and exactly its events (blocks with their
  chunks, call sites), with `processing_bodies` empty and `block_depth` 0 again.
So T1–T5, proved about the functional model, are theorems about the transcription of the Rust. -/
theorem compile_imperative_agrees (ns : List Node) (h : nodesScoped false ns = true) :
    Imp.compileNodes ns Imp.Comp.new
      = .ok { chunk := nodesCode 0 none ns, bodies := [], events := nodesEvents false 0 ns, depth := 0 } :=
  Imp.imp_eq_scoped ns h

/-- the same for a whole template: body and every component body -/
theorem compile_imperative_agrees_template (t : Template) (hs : templateScoped t = true) :
    Imp.compileNodes t.nodes Imp.Comp.new
        = .ok { chunk := nodesCode 0 none t.nodes, bodies := [], events := bodyEvents t, depth := 0 } ∧
    ∀ cd ∈ t.componentDefinitions,
      Imp.compileNodes cd.body Imp.Comp.new
        = .ok { chunk := nodesCode 0 none cd.body, bodies := [], events := componentEvents cd, depth := 0 } := by
  simp only [templateScoped, Bool.and_eq_true, List.all_eq_true] at hs
  exact ⟨Imp.imp_eq_scoped t.nodes hs.1, fun cd hcd => Imp.imp_eq_scoped cd.body (hs.2 cd hcd).1⟩

/-! ## The hypotheses are satisfiable, and needed (spot checks; the stage diff runs the model on
every real AST) -/

/-- `{% for x in xs %}{% if x %}{% break %}{% endif %}{{ x | f(a=1) }}{% else %}e{% endfor %}`
`{% block b %}{% include "i" %}{% endblock %}` -/
def exTemplate : Template :=
  { parent := none
    nodes := [
      .forLoop none "x" (.var "xs")
        [.if (.var "x") [.break] [], .expression (.filter (.var "x") "f" [("a", .const (.i64 1))])]
        [.content "e"],
      .block "b" [.include "i"]]
    componentDefinitions := [] }

example : templateScoped exTemplate = true := by decide

/-- the model compiles it to the listing of the checker example `C07.exFor` (plus the filter call):
19 instructions, jump operands `Iterate 14, PopJumpIfFalse 7, Jump 3, PopJumpIfFalse 18` -/
example : (nodesCode 0 none exTemplate.nodes).length = 19 ∧
    (nodesCode 0 none exTemplate.nodes).filterMap (fun e => match e.1 with
      | .iterate t => some t | .jump t => some t | .popJumpIfFalse t => some t | _ => none)
    = [14, 7, 3, 18] := by decide

/-- its tables: the filter, the include (recorded while compiling the block chunk), the block -/
example : (match compileTemplate exTemplate with
    | .ok c => (c.filterCalls, c.includeCalls, c.blocks.map (·.1), c.blockNames)
    | .error _ => ([], [], [], [])) = (["f"], ["i"], ["b"], ["b"]) := by decide

/-- the abstract machine really runs compiled code: `{{ a }}` reaches its end -/
example : Reach (nodesCode 0 none [.expression (.var "a")]) St.empty 2 St.empty := by
  have h1 : Reach (nodesCode 0 none [.expression (.var "a")]) St.empty 1 ⟨[false], [], 0⟩ :=
    Reach.next (e := sp (.loadName "a")) Reach.start rfl rfl (List.Mem.head _)
  exact Reach.next (e := ns .writeTop) h1 rfl rfl (List.Mem.head _)

/-- `templateScoped` is needed (1): `{% continue %}` outside a loop is a panic of the compiler
(`get_current_loop().unwrap()`, compiler.rs:591) — the parser rejects the source -/
example : (match compileTemplate { parent := none, nodes := [.continue], componentDefinitions := [] } with
    | .error site => site
    | .ok _ => "") = "compiler.rs:591" := by decide

/-- (2): a `break` outside a loop compiles, and the chunk panics the machine at once -/
example : Panics (nodesCode 0 none [.break]) 0 St.empty := ⟨ns .break_, rfl, rfl⟩

/-- (3): a `break` in a set block inside a loop would leave the capture stack unbalanced: the
machine reaches the end of the loop with one capture buffer too many -/
example : nodesScoped false [.forLoop none "x" (.var "l") [.blockSet "v" [] [.break] false] []]
    = false := by decide

/-- (4): a block inside a component definition would be rendered by name but its chunk dropped:
excluded by `templateScoped` (parser.rs:1515), not needed for T2's call tables -/
def exBlockInComponent : ComponentDefinition where
  name := "c"
  kwargs := []
  restParamName := none
  metadata := []
  body := [.block "b" []]

example : templateScoped
    { parent := none, nodes := [], componentDefinitions := [exBlockInComponent] } = false := by
  decide

/-- T4 is about a real degree of freedom: reversing the kwargs of `{{ f(a=1, b=x) }}` is a
permutation, and it changes the listing (`LoadConst a; LoadConst 1; LoadConst b; LoadName x`
becomes `LoadConst b; LoadName x; LoadConst a; LoadConst 1`) but not its length -/
example : (∀ l : List (String × Expr), l.reverse.Perm l) ∧
    let ns := [Node.expression (.functionCall "f" [("a", .const (.i64 1)), ("b", .var "x")])]
    ((nodesCode 0 none (reNodes List.reverse ns)).map fun e =>
        match e.1 with | .loadName n => n | .loadConst (.str _ s) => String.ofList s | _ => "")
      = ["b", "x", "a", "", "", "", ""] ∧
    ((nodesCode 0 none ns).map fun e =>
        match e.1 with | .loadName n => n | .loadConst (.str _ s) => String.ofList s | _ => "")
      = ["a", "", "b", "x", "", "", ""] := by
  refine ⟨fun l => List.reverse_perm l, ?_⟩
  decide

end Tera.C07Compile
