/-
C09WF, value-level checker: acceptance by `Vm.verify` (Model/VmCheck.lean — per-slot flags
arr / map / sp / okb, loop ends, capture count) is preserved by `Optimize.optimize`, in the
table-existential form (no `infer`).  Helper lemmas: Lemmas/OptimizeVWF.lean.

The typed code is the listing decoded by an ARBITRARY `dec : Instr → Option Vm.VInstr` that is the
identity on the ten structural instructions (`DecOK`) and sends no opaque instruction of the
listing to a jump-carrying one (`OtherNoTarget`); `Vm.decodeWith p` is such a decoder for every
`p`, and so is the pipeline's positional `decodeInstr` on compiled chunks.
-/
import TeraModel.Props.C09WF
import TeraModel.Lemmas.OptimizeVWF
import TeraModel.Lemmas.VmWellFormed
namespace Tera.C09WF
open Tera Tera.Optimize Tera.OptimizeVWF Tera.OptimizeWF

/-- `optimize_preserves_vverify`: if the listing `c` has its jump operands in range and one span
on every `LoadName` / `LoadAttr` (both hold for every compiled chunk), decodes to the typed code
`code`, and `code` has SOME table `Vm.verify` accepts, then the pass returns a listing `c'`, `c'`
decodes (with the same decoder) to a typed code `code'`, and `vnewTable c table` — the old table
read at the first instruction of every group, loop ends mapped through `index_map` — is a table
`Vm.verify` accepts for `code'`.

On the arms for the fused instructions (`astep (.loadPath p)` / `(.writePath p)`:
`p ≠ [] ∧ p.length ≤ nspans`, push `Tag.fresh own` / keep the stack): they are exactly as strict
as needed — the unfused sequence needs a span on the `LoadName` and on every `LoadAttr` (each
`LoadAttr _ false` demands `sp` of the slot below, `WriteTop` too), which is `PathSpans`, and
then the fused instruction carries `1 + #attrs` spans (`C09.spans_preserved`), so
`p.length ≤ nspans` holds and `own` is true on both sides; the pushed slot is `Tag.fresh true`
on both sides.  Neither too strict nor too lax relative to the sequence they replace. -/
theorem optimize_preserves_vverify (dec : Instr → Option Vm.VInstr) (hD : DecOK dec)
    (c : List Entry) (code : List Vm.VEntry) (table : List (Option Vm.ASt))
    (hT : C09.TargetsInRange c) (hS : PathVm.PathSpans c) (hO : OtherNoTarget dec c)
    (hdec : c.mapM (fun e => (dec e.1).map (·, e.2)) = some code)
    (hv : Vm.verify code table = true) :
    ∃ c' code', optimize c = .ok c' ∧ c'.mapM (fun e => (dec e.1).map (·, e.2)) = some code' ∧
      Vm.verify code' (vnewTable c table) = true := by
  have hdec0 : c.mapM (decEntry dec) = some code := hdec
  have hd := decoded_of_mapM dec c code hdec0
  obtain ⟨code', hc'⟩ := optCode_decodes dec hD c code hO hd
  have hd' := decoded_of_mapM dec _ code' hc'
  exact ⟨ChunkVm.optCode c, code', C09.optimize_no_panic c hT, hc',
    vverify_optCode dec hD c code code' hT hS hO hd hd' table hv⟩

/-! ## `Vm.decodeWith p` is such a decoder -/

theorem decodeWith_decOK (p : String → Option Value) : DecOK (Vm.decodeWith p) :=
  ⟨fun _ => rfl, fun _ => rfl, rfl, fun _ => rfl, fun _ => rfl, fun _ => rfl, fun _ => rfl,
    fun _ => rfl, fun _ => rfl, fun _ => rfl⟩

theorem decodeWith_other (p : String → Option Value) (k a : String) (vi : Vm.VInstr)
    (h : Vm.decodeWith p (.other k a) = some vi) : vtarget vi = none := by
  simp only [Vm.decodeWith] at h
  split at h
  all_goals first
    | (cases h; done)
    | (cases h; rfl)
    | (simp only [Vm.nullary] at h; split at h <;> first | (cases h; rfl) | (cases h; done))
    | (obtain ⟨x, _, rfl⟩ := Option.map_eq_some_iff.mp h; rfl)

theorem decodeWith_otherNoTarget (p : String → Option Value) (c : List Entry) :
    OtherNoTarget (Vm.decodeWith p) c := by
  intro e _ k a vi he h
  rw [he] at h
  exact decodeWith_other p k a vi h

/-- The statement asked for (`Vm.decodeCode p`, the optimised listing and its decoding given). -/
def optimize_preserves_vverify_full : Prop :=
  ∀ (p : String → Option Value) (c c' : List Entry) (code code' : List Vm.VEntry)
    (table : List (Option Vm.ASt)),
    C09.TargetsInRange c → C09.NoFused c → PathVm.PathSpans c →
    Vm.decodeCode p c = some code → Vm.verify code table = true →
    optimize c = .ok c' → Vm.decodeCode p c' = some code' →
    ∃ table', Vm.verify code' table' = true

theorem optimize_preserves_vverify_full_holds : optimize_preserves_vverify_full := by
  intro p c c' code code' table hT _ hS hdec hv hopt hdec'
  have hc' : c' = ChunkVm.optCode c := C09.optimize_ok c c' hopt
  subst hc'
  have hd := decoded_of_mapM (Vm.decodeWith p) c code hdec
  have hd' := decoded_of_mapM (Vm.decodeWith p) _ code' hdec'
  exact ⟨_, vverify_optCode _ (decodeWith_decOK p) c code code' hT hS
    (decodeWith_otherNoTarget p c) hd hd' table hv⟩

/-- the hypotheses are satisfiable: the `for` chunk of Props/C09WF.lean decodes, has a table the
value-level verifier accepts, and so does its optimised form with the constructed table -/
example : (match Vm.decodeCode (fun _ => none) exC, Vm.decodeCode (fun _ => none) (ChunkVm.optCode exC) with
    | some code, some code' =>
      (match Vm.infer code with
       | some t => Vm.verify code t && Vm.verify code' (vnewTable exC t)
       | none => false)
    | _, _ => false) = true := by decide

end Tera.C09WF
