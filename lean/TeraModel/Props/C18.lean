/-
C18 — Output channels agree, write failures surface, rendering is pure.

Property theorems only (helper lemmas: Lemmas/Writer.lean).  All statements are about the model
in Model/Writer.lean: `renderTo` = `VirtualMachine::render_to` (hence `Tera::render_to`,
`render_str_to`, `render_block_to`, `render_component_to`), `render` = the `String`-returning
variants, `interp` = `VirtualMachine::interpret`, over *every* program (tree of writes, captures,
includes, blocks, `super()`, components, errors), *every* writer (an arbitrary state machine
answering `write` calls: any failure point, partial writes, `Ok(0)`) and both entry modes
(whole template / one block).

What is NOT in the model and therefore only covered by the harness (harness/src/bin/c18.rs):
that each write site of the real interpreter propagates the error with `?` (the model's `write`
step does so by construction; a swallowed error in the Rust shows up as a model disagreement and
as a failure of the direct prefix / Io oracles), thread schedules, `Send`/`Sync`.
-/
import TeraModel.Lemmas.Writer
namespace Tera.C18
open Tera.W

/-- **render = render_to** (whole template and single block; `render_str`, `one_off`,
`render_component` are the `none` case).  For every program and every writer that never refuses
(whole or short writes alike): `render_to` ends with the same result class as the render into a
`Vec` that `render` performs, and the writer has accepted exactly the bytes `render` returns. -/
theorem render_eq_render_to {σ : Type} (W : Writer σ) (hW : NeverFails W) (blk : Option String)
    (p : Prog) (s0 : σ) :
    (renderTo (userDev W) blk p (Sink.fresh s0)).1 = (renderTo vecDev blk p []).1 ∧
    (renderTo (userDev W) blk p (Sink.fresh s0)).2.accepted = (renderTo vecDev blk p []).2 ∧
    (renderTo (userDev W) blk p (Sink.fresh s0)).2.failed = false := by
  have hok : ∀ (o : Sink σ) (x : Bytes),
      ((userDev W).writeAll o x).2 = true ∧ ((userDev W).writeAll o x).1.failed = o.failed :=
    fun o x => writeAllAux_neverFails W hW x.length o x (Nat.le_refl _)
  cases blk with
  | none =>
    simp only [renderTo]
    have hs := sim W p St.fresh (Sink.fresh s0) [] rfl rfl
    have hf := (nofail_interp p (userDev W) (fun a b => b.failed = a.failed) (fun _ => rfl)
      (fun _ _ _ h1 h2 => h2.trans h1) hok St.fresh (Sink.fresh s0)).2
    rcases hs with ⟨e1, _, e3, e4⟩ | ⟨_, e2, _⟩
    · exact ⟨e1, e3, e4⟩
    · rw [hf] at e2; simp [Sink.fresh] at e2
  | some b =>
    simp only [renderTo]
    generalize interp sinkDev p { St.fresh with captureBlock := some b } () = res
    obtain ⟨r, st, u⟩ := res
    cases r with
    | ok =>
      simp only [userDev, vecDev]
      have h := hok (Sink.fresh s0) st.blockBuffer
      have hacc := writeAll_spec W (Sink.fresh s0) st.blockBuffer
      simp only [userDev] at h
      generalize writeAll W (Sink.fresh s0) st.blockBuffer = wr at h hacc ⊢
      obtain ⟨s1, ok⟩ := wr
      simp only at h
      obtain ⟨h1, h2⟩ := h
      subst h1
      simp_all [Sink.fresh]
    | io => simp [Sink.fresh]
    | fail c => simp [Sink.fresh]
    | panic c => simp [Sink.fresh]

/-- The String-returning variant is literally the writer variant on a `Vec` followed by the
UTF-8 check (how `VirtualMachine::render`, `render_block`, `Tera::render_str`,
`Tera::render_component` are written), so whenever `render` succeeds its bytes are the bytes a
never-refusing writer receives from `render_to`. -/
theorem render_ok_bytes {σ : Type} (W : Writer σ) (hW : NeverFails W) (utf8 : Bytes → Bool)
    (blk : Option String) (p : Prog) (s0 : σ) (out : Bytes)
    (h : render utf8 blk p = (.ok, out)) :
    (renderTo (userDev W) blk p (Sink.fresh s0)).1 = .ok ∧
    (renderTo (userDev W) blk p (Sink.fresh s0)).2.accepted = out := by
  obtain ⟨e1, e2, _⟩ := render_eq_render_to W hW blk p s0
  unfold render at h
  generalize renderTo vecDev blk p [] = res at h e1 e2
  obtain ⟨r, o⟩ := res
  cases r with
  | ok =>
    simp only at h
    split at h
    · simp only [Prod.mk.injEq, true_and] at h; subst h; exact ⟨e1, e2⟩
    · simp at h
  | io => simp at h
  | fail c => simp at h
  | panic c => simp at h

/-- **Write failures surface, and what was accepted is a prefix** — for ANY writer (any state
machine: failing at its k-th call, after n bytes with a partial write, answering `Ok(0)`,
failing intermittently, …), any program, whole-template and single-block mode.  Either the
writer never refused, and then `render_to` ended exactly like the render into a `Vec` with
exactly the same bytes accepted; or it refused at some point, and then `render_to` returned the
I/O error (not `Ok`, not another error, not a panic) and the accepted bytes are a prefix of the
full output.  Lifted through nested calls (include, block, `super()`, component), captures
(which never touch the writer) and `render_block`'s side buffer by induction on the program
(`W.sim`). -/
theorem write_failure_prefix {σ : Type} (W : Writer σ) (blk : Option String) (p : Prog) (s0 : σ) :
    ((renderTo (userDev W) blk p (Sink.fresh s0)).2.failed = false ∧
      (renderTo (userDev W) blk p (Sink.fresh s0)).1 = (renderTo vecDev blk p []).1 ∧
      (renderTo (userDev W) blk p (Sink.fresh s0)).2.accepted = (renderTo vecDev blk p []).2) ∨
    ((renderTo (userDev W) blk p (Sink.fresh s0)).2.failed = true ∧
      (renderTo (userDev W) blk p (Sink.fresh s0)).1 = .io ∧
      (renderTo (userDev W) blk p (Sink.fresh s0)).2.accepted <+: (renderTo vecDev blk p []).2) := by
  cases blk with
  | none =>
    simp only [renderTo]
    rcases sim W p St.fresh (Sink.fresh s0) [] rfl rfl with ⟨e1, _, e3, e4⟩ | ⟨e1, e2, e3⟩
    · left; exact ⟨e4, e1, e3⟩
    · right; exact ⟨e2, e1, e3⟩
  | some b =>
    simp only [renderTo]
    generalize interp sinkDev p { St.fresh with captureBlock := some b } () = res
    obtain ⟨r, st, u⟩ := res
    cases r with
    | ok =>
      simp only [userDev, vecDev]
      have hacc := writeAll_spec W (Sink.fresh s0) st.blockBuffer
      generalize writeAll W (Sink.fresh s0) st.blockBuffer = wr at hacc ⊢
      obtain ⟨s1, ok⟩ := wr
      rcases hacc with ⟨g1, g2, g3⟩ | ⟨g1, g2, d, g3, g4⟩
      · simp only at g1 g2 g3; subst g1; left; simp_all [Sink.fresh]
      · simp only at g1 g2 g3; subst g1; right; simp_all [Sink.fresh]
    | io => left; simp [Sink.fresh]
    | fail c => left; simp [Sink.fresh]
    | panic c => left; simp [Sink.fresh]

/-- A render into a `Vec` (what `render` does) never reports an I/O error. -/
theorem render_vec_never_io (blk : Option String) (p : Prog) :
    (renderTo vecDev blk p []).1 ≠ .io := by
  cases blk with
  | none => simp only [renderTo]; exact vec_ne_io p St.fresh []
  | some b =>
    simp only [renderTo]
    have := sink_ne_io p { St.fresh with captureBlock := some b }
    generalize interp sinkDev p { St.fresh with captureBlock := some b } () = res at this
    obtain ⟨r, st, u⟩ := res
    cases r <;> simp_all [vecDev]

/-- `render_to` returns the I/O error **exactly when** the writer refused a call: never `Ok`
after a refusal, never an I/O error without one. -/
theorem io_iff_writer_refused {σ : Type} (W : Writer σ) (blk : Option String) (p : Prog) (s0 : σ) :
    (renderTo (userDev W) blk p (Sink.fresh s0)).1 = .io ↔
    (renderTo (userDev W) blk p (Sink.fresh s0)).2.failed = true := by
  rcases write_failure_prefix W blk p s0 with ⟨h1, h2, _⟩ | ⟨h1, h2, _⟩
  · constructor
    · intro h; rw [h2] at h; exact absurd h (render_vec_never_io blk p)
    · intro h; rw [h1] at h; cases h
  · exact ⟨fun _ => h1, fun _ => h2⟩

/-- A failing writer cannot make the engine panic: if `render_to` panics under some writer then
the very same program panics when rendered into a `Vec` (the panic has nothing to do with I/O). -/
theorem writer_cannot_cause_panic {σ : Type} (W : Writer σ) (blk : Option String) (p : Prog)
    (s0 : σ) (site : String)
    (h : (renderTo (userDev W) blk p (Sink.fresh s0)).1 = .panic site) :
    (renderTo vecDev blk p []).1 = .panic site := by
  rcases write_failure_prefix W blk p s0 with ⟨_, h2, _⟩ | ⟨_, h2, _⟩
  · rw [← h2]; exact h
  · rw [h2] at h; cases h

/-- **Rendering is pure** (in the model this is immediate, and it is the point: `interp` takes
the program, the routing state and the output and returns new ones; there is no other state).
Two renders of the same program agree, whatever was rendered in between, and what a writer
receives does not depend on the writer's own state as long as it does not refuse. -/
theorem render_pure {σ τ : Type} (W : Writer σ) (V : Writer τ) (hW : NeverFails W)
    (hV : NeverFails V) (blk : Option String) (p : Prog) (s0 : σ) (t0 : τ) :
    (renderTo (userDev W) blk p (Sink.fresh s0)).1 = (renderTo (userDev V) blk p (Sink.fresh t0)).1 ∧
    (renderTo (userDev W) blk p (Sink.fresh s0)).2.accepted
      = (renderTo (userDev V) blk p (Sink.fresh t0)).2.accepted := by
  obtain ⟨a1, a2, _⟩ := render_eq_render_to W hW blk p s0
  obtain ⟨b1, b2, _⟩ := render_eq_render_to V hV blk p t0
  exact ⟨a1.trans b1.symm, a2.trans b2.symm⟩

/-- **The byte-budget writer of the harness, exactly.**  A writer that accepts `n` bytes in
total (splitting the last buffer: a partial write) and then refuses has accepted, when
`render_to` returns, exactly the first `n` bytes of the full output (all of it when the output is
shorter) — for every program and both entry modes. -/
theorem acceptBytes_accepted_exact (n : Nat) (blk : Option String) (p : Prog) :
    (renderTo (userDev acceptBytes) blk p (Sink.fresh n)).2.accepted
      = (renderTo vecDev blk p []).2.take n := by
  have hfresh : Budget n (Sink.fresh n) := ⟨by simp [Sink.fresh], by simp [Sink.fresh]⟩
  have hb : Budget n (renderTo (userDev acceptBytes) blk p (Sink.fresh n)).2 := by
    cases blk with
    | none => simp only [renderTo]; exact acceptBytes_interp n p St.fresh _ hfresh
    | some b =>
      simp only [renderTo]
      generalize interp sinkDev p { St.fresh with captureBlock := some b } () = res
      obtain ⟨r, st, u⟩ := res
      have hw := acceptBytes_writeAllAux n st.blockBuffer.length (Sink.fresh n) st.blockBuffer hfresh
      cases r with
      | ok =>
        simp only [userDev]
        change Budget n (writeAll acceptBytes (Sink.fresh n) st.blockBuffer).1 at hw
        generalize writeAll acceptBytes (Sink.fresh n) st.blockBuffer = wr at hw
        obtain ⟨s1, ok⟩ := wr
        cases ok <;> exact hw
      | io => exact hfresh
      | fail c => exact hfresh
      | panic c => exact hfresh
  obtain ⟨hb1, hb2⟩ := hb
  rcases write_failure_prefix acceptBytes blk p n with ⟨_, _, h3⟩ | ⟨h1, _, h3⟩
  · rw [h3] at hb1 ⊢
    rw [List.take_of_length_le (by omega)]
  · have hz := hb2 h1
    rw [hz] at hb1
    have hlen : (renderTo (userDev acceptBytes) blk p (Sink.fresh n)).2.accepted.length = n := by omega
    rw [List.prefix_iff_eq_take, hlen] at h3
    exact h3

/-- **The call-index writer of the harness, exactly.**  Let `T` be the list of (non-empty)
`write_all` calls the full render makes on its output (`traceDev`; their concatenation is the
full output).  A writer that refuses its `k`-th `write` call (0-based) and every later one has
accepted exactly the first `k` of them when `render_to` returns, and `render_to` returns the I/O
error iff there was a `k`-th call (`k < |T|`); otherwise it ends like the render into a `Vec`. -/
theorem failAtCall_exact (k : Nat) (p : Prog) :
    (renderTo (userDev (failAtCall k)) none p (Sink.fresh 0)).2.accepted
      = ((renderTo traceDev none p []).2.take k).flatten ∧
    ((renderTo (userDev (failAtCall k)) none p (Sink.fresh 0)).1 = .io ↔ k < (renderTo traceDev none p []).2.length) ∧
    (renderTo traceDev none p []).2.flatten = (renderTo vecDev none p []).2 ∧
    (¬ k < (renderTo traceDev none p []).2.length →
      (renderTo (userDev (failAtCall k)) none p (Sink.fresh 0)).1 = (renderTo vecDev none p []).1) := by
  simp only [renderTo]
  obtain ⟨tv1, tv2⟩ := trace_vec p St.fresh [] [] rfl
  have hne := vec_ne_io p St.fresh []
  have h0 : CallR k (Sink.fresh 0) [] := ⟨rfl, rfl, rfl, Nat.zero_le _⟩
  rcases sim2 _ _ _ _ (call_stepOk k) (call_refDev k) p St.fresh (Sink.fresh 0) [] h0 with
    ⟨e1, _, _, _, e3, e4⟩ | ⟨e1, _, e2, e3⟩
  · refine ⟨?_, ?_, tv2, fun _ => e1.trans tv1⟩
    · rw [e3, List.take_of_length_le e4]
    · constructor
      · intro h; rw [e1, tv1] at h; exact absurd h hne
      · intro h; exact absurd h (Nat.not_lt.2 e4)
  · exact ⟨e2, ⟨fun _ => e3, fun _ => e1⟩, tv2, fun h => absurd e3 h⟩

/-! ## The hypotheses are satisfiable, and the statements bite -/

example : NeverFails recorder := fun _ buf h => by
  cases buf with
  | nil => exact absurd rfl h
  | cons b bs => exact ⟨bs.length, rfl⟩

example : NeverFails trickle := fun _ _ _ => ⟨0, rfl⟩

/-- A program touching every construct: text, a captured section written later, an include under
a capture, a block with `super()`, a component. -/
def demo : Prog :=
  .write [[104], [105]] <|
  .capture <| .write [[1, 2]] <| .incl (.write [[3]] .halt) <| .endCapture fun cap =>
  .renderBlock "b" (.callSuper (.write [[7]] .halt) fun sup => .write [sup, cap] .halt) <|
  .component (.write [[9]] .halt) fun c => .write [c] .halt

example : render (fun _ => true) none demo = (.ok, [104, 105, 7, 1, 2, 3, 9]) := by decide
example : render (fun _ => true) (some "b") demo = (.ok, [7, 1, 2, 3]) := by decide
/-- failing at the third `write` call: I/O error, the first two chunks accepted -/
example : (renderTo (userDev (failAtCall 2)) none demo (Sink.fresh 0)).1 = .io ∧
    (renderTo (userDev (failAtCall 2)) none demo (Sink.fresh 0)).2.accepted = [104, 105] := by decide
/-- accepting 4 bytes: I/O error after a partial write inside the block's output -/
example : (renderTo (userDev acceptBytes) none demo (Sink.fresh 4)).1 = .io ∧
    (renderTo (userDev acceptBytes) none demo (Sink.fresh 4)).2.accepted = [104, 105, 7, 1] := by decide
/-- a budget equal to the output length is never exceeded: success -/
example : (renderTo (userDev acceptBytes) none demo (Sink.fresh 7)).1 = .ok := by decide
/-- writes inside a capture never reach a failing writer: no error if nothing is written out -/
example : (renderTo (userDev (failAtCall 0)) none
    (.capture <| .write [[1]] <| .endCapture fun _ => .halt) (Sink.fresh 0)).1 = .ok := by decide

end Tera.C18
