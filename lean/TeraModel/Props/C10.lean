/-
C10 — Template registration is atomic and independent of history.

Property theorems only (helper lemmas: Lemmas/RegistryUndo.lean, Lemmas/RegistryHist.lean and the
C04 / C11 lemma files they build on).  Statements are about the model of `add_raw_templates`,
`finalize_templates` and `autoescape_on` in Model/Registry.lean + Model/Finalize.lean; maps are
compared by lookup (`eget`), because they are `HashMap`s in the Rust.  The correspondence harness
(harness/src/bin/c10.rs) ties the model to tera/src/tera.rs on every run and evaluates the
property directly (fresh-instance differential, failure = identity).
-/
import TeraModel.Lemmas.RegistryHist
import TeraModel.Lemmas.RegistryAccept
namespace Tera.C10
open Tera.Reg

/-! ## A failed call changes nothing -/

/-- **The undo loop restores the template map exactly**, for every prior map and every batch
(the same name several times in the batch, replacements of existing templates and new names in any
mixture; whether the loop stopped at a syntax error or ran to the end): every name maps to
exactly the entry — source *and* derived data — it mapped to before the call. -/
theorem undo_restores (ts : List Entry) (items : List Item) (k : String) :
    eget (undo (insertBatch ts [] items).1 (insertBatch ts [] items).2.1) k = eget ts k := by
  obtain ⟨added, h1, h2⟩ := insertBatch_undo items ts []
  rw [h1]
  simpa using h2 k

/-- the undo loop run in PUSH order instead of reverse order (the realistic slip: `inserted.into_iter()`
without `.rev()`) -/
def undoForward (ts : List Entry) (log : UndoLog) : List Entry := log.foldl undoOne ts

/-- **The reverse order of the undo loop is needed** (the converse of `undo_restores`, kernel-evaluated
witness).  With the log replayed in push order, a batch that names one NEW template twice and then
fails leaves a ghost entry behind: the name was unbound before the call and is bound after it.
A batch without a repeated name does not show the difference, which is why `undo_restores`
quantifies over batches with repetitions. -/
theorem undo_forward_leaves_ghost :
    ∃ (ts : List Entry) (items : List Item) (k : String),
      eget ts k = none ∧
      (eget (undoForward (insertBatch ts [] items).1 (insertBatch ts [] items).2.1) k).isSome = true := by
  refine ⟨[], [.good ⟨"a", none, [], [], [], [], false, 1⟩, .good ⟨"a", none, [], [], [], [], false, 2⟩, .bad "b"], "a", ?_, ?_⟩
  · decide
  · decide

/-- **A failing `add_raw_templates` is the identity**: every template with its parents, block
lineage, size hint and autoescape flag, the component table and the configuration are as before,
whatever the error was (syntax error in any position of the batch, or any error of
`finalize_templates`) and whatever the `HashMap` iteration orders were. -/
theorem add_failure_is_identity (st : State) (items : List Item) (ord2 ord3 : List String → List String)
    (e : Err) (h : (addBatch st items ord2 ord3).2 = some e) :
    (addBatch st items ord2 ord3).1.comps = st.comps ∧
    (addBatch st items ord2 ord3).1.suffixes = st.suffixes ∧
    (addBatch st items ord2 ord3).1.prefixes = st.prefixes ∧
    ∀ k, eget (addBatch st items ord2 ord3).1.templates k = eget st.templates k := by
  have hu := undo_restores st.templates items
  unfold addBatch at h ⊢
  rcases hib : insertBatch st.templates [] items with ⟨ts, log, ok⟩
  rw [hib] at hu
  simp only at hu
  cases ok with
  | false => exact ⟨rfl, rfl, rfl, hu⟩
  | true =>
    simp only [hib] at h ⊢
    cases hf : finalize { st with templates := ts } (ord2 (ts.map (·.tpl.name))) (ord3 (ts.map (·.tpl.name))) with
    | ok st' => simp [hf] at h
    | error x => exact ⟨rfl, rfl, rfl, hu⟩

/-! ## A successful call depends only on the resulting set -/

/-- the state and map on which `finalize_templates` runs during a successful call -/
theorem add_success_finalize (st st' : State) (items : List Item) (ord2 ord3 : List String → List String)
    (h : addBatch st items ord2 ord3 = (st', none)) :
    finalize { st with templates := (insertBatch st.templates [] items).1 }
      (ord2 ((insertBatch st.templates [] items).1.map (·.tpl.name)))
      (ord3 ((insertBatch st.templates [] items).1.map (·.tpl.name))) = .ok st' := by
  unfold addBatch at h
  rcases hib : insertBatch st.templates [] items with ⟨ts, log, ok⟩
  cases ok with
  | false => simp [hib] at h
  | true =>
    simp only [hib] at h ⊢
    cases hf : finalize { st with templates := ts } (ord2 (ts.map (·.tpl.name))) (ord3 (ts.map (·.tpl.name))) with
    | ok s => simp only [hf] at h; cases h; rfl
    | error x => simp [hf] at h

/-- `ord` lists every key of the map it is given (it models a `HashMap` iteration order) -/
def Enumerates (ord : List String → List String) : Prop := ∀ ks k, k ∈ ks → k ∈ ord ks

/-- **History independence.**  Take any two instances with the same configuration (fallback
prefixes, autoescape suffixes), whatever happened to them before, and any two successful
`add_raw_templates` calls after which both hold the same sources under the same names.  Then the two
instances are equivalent: same component table, and under every name the same template with the
same parents, size hint, autoescape flag and block lineage — for every choice of `HashMap`
iteration orders in either instance.  (Everything `finalize_templates` derives is a function of the
resulting set and the configuration; nothing depends on order or grouping of earlier calls.) -/
theorem history_independent (st₁ st₂ r₁ r₂ : State) (items₁ items₂ : List Item)
    (ord2 ord3 ord2' ord3' : List String → List String)
    (he2 : Enumerates ord2) (he3 : Enumerates ord3) (he2' : Enumerates ord2') (he3' : Enumerates ord3')
    (hp : st₁.prefixes = st₂.prefixes) (hs : st₁.suffixes = st₂.suffixes)
    (h₁ : addBatch st₁ items₁ ord2 ord3 = (r₁, none)) (h₂ : addBatch st₂ items₂ ord2' ord3' = (r₂, none))
    (hsame : SameSources (insertBatch st₁.templates [] items₁).1 (insertBatch st₂.templates [] items₂).1) :
    StateEquiv r₁ r₂ := by
  have f₁ := add_success_finalize st₁ r₁ items₁ ord2 ord3 h₁
  have f₂ := add_success_finalize st₂ r₂ items₂ ord2' ord3' h₂
  exact finalize_congr { st₁ with templates := (insertBatch st₁.templates [] items₁).1 }
    { st₂ with templates := (insertBatch st₂.templates [] items₂).1 } r₁ r₂ _ _ _ _ hp hs hsame f₁ f₂
    (fun k hk => he2 _ k (eget_mem_names hk)) (fun k hk => he3 _ k (eget_mem_names hk))
    (fun k hk => he2' _ k (eget_mem_names hk)) (fun k hk => he3' _ k (eget_mem_names hk))

/-- `ord` lists exactly the keys of the map it is given -/
def EnumeratesExactly (ord : List String → List String) : Prop := ∀ ks k, k ∈ ord ks ↔ k ∈ ks

/-- **Acceptance is a function of the set.**  Whether `finalize_templates` accepts depends only on
the map from names to sources and on the fallback prefixes: not on the list that represents the
map (the history that built it) and not on the `HashMap` iteration orders. -/
theorem acceptance_is_a_function_of_the_set (ps : List String) (S S' : List Tpl) (hsame : SameMap S S')
    (o2 o3 o2' o3' : List String)
    (ho2 : ∀ k, k ∈ o2 ↔ has S k = true) (ho3 : ∀ k, k ∈ o3 ↔ has S k = true)
    (ho2' : ∀ k, k ∈ o2' ↔ has S' k = true) (ho3' : ∀ k, k ∈ o3' ↔ has S' k = true) :
    (∃ d, derive ps S o2 o3 = .ok d) ↔ (∃ d', derive ps S' o2' o3' = .ok d') := by
  constructor
  · rintro ⟨d, h⟩
    exact derive_accept_congr ps S S' hsame o2 o3 o2' o3' (fun k hk => (ho2 k).mpr hk)
      (fun k hk => (ho2' k).mp hk) (fun k hk => (ho3' k).mp hk) (fun k hk => (ho2' k).mpr hk) d h
  · rintro ⟨d, h⟩
    exact derive_accept_congr ps S' S hsame.symm o2' o3' o2 o3 (fun k hk => (ho2' k).mpr hk)
      (fun k hk => (ho2 k).mp hk) (fun k hk => (ho3 k).mp hk) (fun k hk => (ho2 k).mpr hk) d h

/-- **Success = fresh instance.**  After a successful call the instance is equivalent to a fresh
instance (`Tera::default()` with the same prefixes and autoescape suffixes) given, in one batch and
in any order, sources that parse and make up the resulting set: the fresh instance accepts that
batch, and the two states are equivalent (same component table; under every name the same
template, parents, size hint, autoescape flag and block lineage). -/
theorem add_success_eq_fresh (st r : State) (items batch : List Item)
    (ord2 ord3 ord2' ord3' : List String → List String)
    (he2 : Enumerates ord2) (he3 : Enumerates ord3)
    (he2' : EnumeratesExactly ord2') (he3' : EnumeratesExactly ord3')
    (h : addBatch st items ord2 ord3 = (r, none))
    (hparse : ∀ it ∈ batch, ∃ t, it = .good t)
    (hsame : SameSources (insertBatch st.templates [] items).1 (insertBatch [] [] batch).1) :
    ∃ fr, addBatch (autoescapeOn (State.init st.prefixes) st.suffixes) batch ord2' ord3' = (fr, none) ∧
      StateEquiv r fr := by
  have f := add_success_finalize st r items ord2 ord3 h
  have hnames : ∀ (ts : List Entry) k, k ∈ ts.map (·.tpl.name) ↔ (eget ts k).isSome = true :=
    fun ts k => ⟨mem_names_eget, eget_mem_names⟩
  obtain ⟨fr, hfr⟩ := finalize_accept_congr
    { st with templates := (insertBatch st.templates [] items).1 }
    { (autoescapeOn (State.init st.prefixes) st.suffixes) with templates := (insertBatch [] [] batch).1 }
    r _ _ (ord2' ((insertBatch [] [] batch).1.map (·.tpl.name))) (ord3' ((insertBatch [] [] batch).1.map (·.tpl.name)))
    rfl hsame (fun k hk => he2 _ k (eget_mem_names hk))
    (fun k => by rw [he2', hnames]) (fun k => by rw [he3', hnames]) f
  have hadd : addBatch (autoescapeOn (State.init st.prefixes) st.suffixes) batch ord2' ord3' = (fr, none) := by
    have hgood := insertBatch_good batch [] [] hparse
    unfold addBatch
    rcases hib : insertBatch (autoescapeOn (State.init st.prefixes) st.suffixes).templates [] batch with ⟨ts, log, ok⟩
    have e1 : (autoescapeOn (State.init st.prefixes) st.suffixes).templates = [] := rfl
    rw [e1] at hib
    rw [hib] at hgood hfr
    simp only at hgood hfr
    subst hgood
    simp only [hfr]
  refine ⟨fr, hadd, ?_⟩
  exact history_independent st (autoescapeOn (State.init st.prefixes) st.suffixes) r fr items batch
    ord2 ord3 ord2' ord3' he2 he3 (fun ks k hk => (he2' ks k).mpr hk) (fun ks k hk => (he3' ks k).mpr hk)
    rfl rfl h hadd hsame

/-- **Replace everywhere.**  After a successful call the source stored under every name is the one
the insert loop left there (for a re-added name: the new source, the last one if the batch names it
twice), and this is the map all derived data was computed from. -/
theorem add_success_sources (st r : State) (items : List Item) (ord2 ord3 : List String → List String)
    (h : addBatch st items ord2 ord3 = (r, none)) :
    SameSources r.templates (insertBatch st.templates [] items).1 := by
  have f := add_success_finalize st r items ord2 ord3 h
  obtain ⟨d, ts, _, hc, hr⟩ := finalize_ok_parts f
  intro k
  rw [hr]
  simp only at hc ⊢
  have a := commitAll_eget _ _ hc k
  cases he : eget (insertBatch st.templates [] items).1 k with
  | none => simp only [he] at a; simp [a]
  | some e =>
    simp only [he] at a
    obtain ⟨e', h1, h2⟩ := a
    simp [h2, (commitEntry_tpl h1).1]

/-! ## Autoescape flags -/

/-- every stored template's flag is "its name ends with one of the current suffixes" -/
def FlagsRecomputed (st : State) : Prop :=
  ∀ k e, eget st.templates k = some e → e.autoescape = autoescapeFlag st.suffixes k

theorem flags_after_op (ord2 ord3 : List String → List String) (st : State) (op : Op)
    (h : FlagsRecomputed st) : FlagsRecomputed (applyOp ord2 ord3 st op) := by
  cases op with
  | escape sfx =>
    intro k e he
    simp only [applyOp, autoescapeOn] at he ⊢
    rw [eget_map_autoescape] at he
    cases ho : eget st.templates k with
    | none => simp [ho] at he
    | some o =>
      simp only [ho, Option.map_some, Option.some.injEq] at he
      rw [← he, eget_name ho]
  | add items =>
    simp only [applyOp]
    cases hr : (addBatch st items ord2 ord3).2 with
    | some err =>
      obtain ⟨_, h2, _, h4⟩ := add_failure_is_identity st items ord2 ord3 err hr
      intro k e he
      rw [h4 k] at he
      rw [h2]
      exact h k e he
    | none =>
      have hpair : addBatch st items ord2 ord3 = ((addBatch st items ord2 ord3).1, none) := by
        rw [← hr]
      have f := add_success_finalize st _ items ord2 ord3 hpair
      obtain ⟨d, ts, _, hc, hres⟩ := finalize_ok_parts f
      intro k e he
      rw [hres] at he ⊢
      simp only at he hc ⊢
      have a := commitAll_eget _ _ hc k
      cases ho : eget (insertBatch st.templates [] items).1 k with
      | none => simp only [ho] at a; rw [a] at he; cases he
      | some o =>
        simp only [ho] at a
        obtain ⟨e', h1, h2⟩ := a
        rw [h2] at he
        cases he
        rw [(commitEntry_tpl h1).2.2.2.2, eget_name ho]

/-- **Autoescape flags are always recomputed.**  After any interleaving of `autoescape_on` and
(successful or failing, single or batched) `add_raw_templates` calls on a fresh instance, the flag
of every template equals "its name ends with one of the suffixes configured last". -/
theorem autoescape_recomputed (prefixes : List String) (ord2 ord3 : List String → List String)
    (ops : List Op) : FlagsRecomputed (runOps ord2 ord3 (State.init prefixes) ops) := by
  have gen : ∀ (ops : List Op) (st : State), FlagsRecomputed st → FlagsRecomputed (runOps ord2 ord3 st ops) := by
    intro ops
    induction ops with
    | nil => intro st h; exact h
    | cons op rest ih => intro st h; exact ih _ (flags_after_op ord2 ord3 st op h)
  apply gen
  intro k e he
  simp [State.init, eget] at he

end Tera.C10
