/-
C14 — Indexing and slicing follow Python semantics and respect character boundaries.

Property theorems only (helper lemmas live in Lemmas/Index*.lean).  All statements are about
the model in Model/Index.lean, which the correspondence harness (harness/src/bin/c14.rs) ties to
tera/src/value/mod.rs, vm/interpreter.rs, vm/for_loop.rs and filters.rs on every run, and
against Spec/PySlice.lean, an independent statement of what CPython selects.

The only hypothesis about sizes is `length ≤ USIZE_MAX` (= 2^64 - 1): what `Vec::len() : usize`
guarantees on a 64-bit target.  Start, stop and step range over all of i128 (`inI128`), which is
what `Value::as_i128` hands to `Value::slice`.
-/
import TeraModel.Lemmas.IndexGet
import TeraModel.Lemmas.IndexUtf8
namespace Tera.C14
open Tera Tera.Index Tera.PySlice Tera.Wire

/-! ## `x[i]` -/

/-- `x[i]` on an array, for an index of any integer kind and width (u64, i64, u128 — also above
`i128::MAX` —, i128): the element Python selects (counting from the end for negative `i`),
undefined when out of range; never an error, never a panic. -/
theorem index_spec_array (xs : List Value) (hlen : xs.length ≤ USIZE_MAX)
    (item : Value) (n : Int) (hv : item.intVal = some n) (hwf : item.scalarWF) :
    getItem (.arr xs) item = .ok ((PySlice.index xs n).getD .undef) :=
  getItem_arr_int hv hwf xs hlen

/-- `x[i]` on a string: the one-character string at character position `i` (Python rule), of the
same kind (the safe mark is kept), undefined when out of range. -/
theorem index_spec_string (kind : Bool) (s : List Char) (hlen : s.length ≤ USIZE_MAX)
    (item : Value) (n : Int) (hv : item.intVal = some n) (hwf : item.scalarWF) :
    getItem (.str kind s) item =
      .ok (match PySlice.index s n with
           | some c => .str kind [c]
           | none => .undef) :=
  getItem_str_int hv hwf kind s hlen

/-- A subscript that is not of an integer kind (float, string, bool, none, array, …) is an error
on arrays and on strings. -/
theorem index_non_integer_error (item : Value) (hv : item.intVal = none) :
    (∀ xs, getItem (.arr xs) item = .err .indexNotInteger) ∧
    (∀ kind s, getItem (.str kind s) item = .err .indexNotInteger) := by
  constructor
  · intro xs
    simp only [getItem, resolveIndex_nonint hv, Res.bind]
  · intro kind s
    simp only [getItem, resolveIndex_nonint hv, Res.bind]

/-- The VM arm for `x[i]` and `x?[i]` on an array or string receiver and an integer subscript is
`get_item`, hence (previous theorems) Python's rule; `?[` makes no difference there. -/
theorem vm_subscript_integer (optional : Bool) (recv item : Value) (n : Int)
    (hr : (∃ xs, recv = .arr xs) ∨ (∃ k s, recv = .str k s))
    (hv : item.intVal = some n) :
    vmSubscript optional recv item = getItem recv item := by
  have hi : isUndef item = false := by
    cases item <;> simp [Value.intVal] at hv <;> rfl
  rcases hr with ⟨xs, rfl⟩ | ⟨k, s, rfl⟩ <;>
    (simp only [vmSubscript, hi]; simp [isUndefOrNone, isUndef])

/-- `x?[i]` on none or undefined is undefined; `x[i]` on undefined is an error; an undefined
subscript is an error. -/
theorem vm_subscript_undefined (item : Value) :
    vmSubscript true .undef item = .ok .undef ∧
    vmSubscript true .none item = .ok .undef ∧
    vmSubscript false .undef item = .err .recvUndefined ∧
    (∀ xs optional, vmSubscript optional (.arr xs) .undef = .err .indexUndefined) ∧
    (∀ k s optional, vmSubscript optional (.str k s) .undef = .err .indexUndefined) := by
  refine ⟨by simp [vmSubscript, isUndefOrNone], by simp [vmSubscript, isUndefOrNone],
    by simp [vmSubscript, isUndef], ?_, ?_⟩
  · intro xs optional; simp [vmSubscript, isUndefOrNone, isUndef]
  · intro k s optional; simp [vmSubscript, isUndefOrNone, isUndef]

/-! ## `x[a:b:c]` -/

/-- `slice_items` returns exactly the elements Python's slice selects — for every length, every
present or absent start and stop in i128, every non-zero step in i128, and every fuel of at least
`len` (so in particular it is `ok`: no out-of-range `items[i as usize]`, no clamp assertion, no
overflow, and the loop ends). -/
theorem slice_items_eq_python {α : Type} (items : List α) (hlen : items.length ≤ USIZE_MAX)
    (start stop : Option Int) (step : Int)
    (hstart : ∀ v, start = some v → inI128 v) (hstop : ∀ v, stop = some v → inI128 v)
    (hstep : inI128 step) (hnz : step ≠ 0) (fuel : Nat) (hfuel : items.length ≤ fuel) :
    (sliceItems fuel items start stop step).map some = .ok (select items start stop (some step)) := by
  rw [sliceItems_eq items start stop step hstart hstop hstep hnz hlen fuel hfuel]
  rw [select_eq_pick items start stop (some step) (by simpa using hnz)]
  rfl

/-- Every `items[i as usize]` the loop executes is in range, the clamp's `min <= max` holds and
`len - 1` does not overflow: `slice_items` never panics, whatever the (sufficient) fuel. -/
theorem slice_no_panic {α : Type} (items : List α) (hlen : items.length ≤ USIZE_MAX)
    (start stop : Option Int) (step : Int)
    (hstart : ∀ v, start = some v → inI128 v) (hstop : ∀ v, stop = some v → inI128 v)
    (hstep : inI128 step) (hnz : step ≠ 0) (fuel : Nat) (hfuel : items.length ≤ fuel) :
    ∃ r, sliceItems fuel items start stop step = .ok r :=
  ⟨_, sliceItems_eq items start stop step hstart hstop hstep hnz hlen fuel hfuel⟩

/-- The loop runs at most `len` times: fuel `len` is enough (the result is not `.fuel`), more
fuel changes nothing, and the number of pushes is at most `len`. -/
theorem slice_terminates {α : Type} (items : List α) (hlen : items.length ≤ USIZE_MAX)
    (start stop : Option Int) (step : Int)
    (hstart : ∀ v, start = some v → inI128 v) (hstop : ∀ v, stop = some v → inI128 v)
    (hstep : inI128 step) (hnz : step ≠ 0) (fuel : Nat) (hfuel : items.length ≤ fuel) :
    sliceItems fuel items start stop step = sliceItems items.length items start stop step ∧
    sliceItems fuel items start stop step ≠ .fuel ∧
    (∀ r, sliceItems fuel items start stop step = .ok r → r.length ≤ items.length) := by
  have h1 := sliceItems_eq items start stop step hstart hstop hstep hnz hlen fuel hfuel
  have h2 := sliceItems_eq items start stop step hstart hstop hstep hnz hlen items.length (Nat.le_refl _)
  refine ⟨by rw [h1, h2], ?_, ?_⟩
  · rw [h1]; intro h; cases h
  intro r hr
  rw [h1] at hr
  cases hr
  unfold pick
  refine Nat.le_trans (List.length_filterMap_le _ _) ?_
  rw [List.length_range]
  have hl0 : (0 : Int) ≤ (items.length : Int) := by omega
  by_cases hpos : 0 < step
  · have hn : ¬ step < 0 := by omega
    have a := sliceLength_le_pos (i := adjStart items.length step start)
      (e := adjStop items.length step stop) hpos
    have b : 0 ≤ adjStart items.length step start := by
      cases start with
      | none => simp [adjStart, hn]
      | some p => exact (adjustBound_pos_range hpos hl0).1
    have c : adjStop items.length step stop ≤ (items.length : Int) := by
      cases stop with
      | none => simp [adjStop, hn]
      | some p => exact (adjustBound_pos_range hpos hl0).2
    omega
  · have hneg : step < 0 := by omega
    have a := sliceLength_le_neg (i := adjStart items.length step start)
      (e := adjStop items.length step stop) hneg
    have b : adjStart items.length step start ≤ (items.length : Int) - 1 := by
      cases start with
      | none => simp [adjStart, hneg]
      | some p => exact (adjustBound_neg_range hneg hl0).2
    have c : -1 ≤ adjStop items.length step stop := by
      cases stop with
      | none => simp [adjStop, hneg]
      | some p => exact (adjustBound_neg_range hneg hl0).1
    omega

/-- For *every* fuel, sufficient or not: `slice_items` is a value or reports that the fuel ran
out; the panic outcomes (`items[i as usize]` out of range, the clamp assertion, `len - 1`
overflow) are unreachable. -/
theorem slice_no_panic_any_fuel {α : Type} (items : List α) (hlen : items.length ≤ USIZE_MAX)
    (start stop : Option Int) (step : Int)
    (hstart : ∀ v, start = some v → inI128 v) (hstop : ∀ v, stop = some v → inI128 v)
    (hstep : inI128 step) (hnz : step ≠ 0) (fuel : Nat) :
    sliceItems fuel items start stop step = .fuel ∨ ∃ r, sliceItems fuel items start stop step = .ok r := by
  rcases sliceItems_fuel_le items start stop step fuel (max fuel items.length) (Nat.le_max_left _ _)
    with h | h
  · exact Or.inl h
  · right
    rw [h]
    exact ⟨_, sliceItems_eq items start stop step hstart hstop hstep hnz hlen _ (Nat.le_max_right _ _)⟩

/-- Sanity of the specification itself: every position `PySlice.indices` enumerates lies inside
the sequence, so `PySlice.select` drops nothing and returns exactly `sliceLength` elements. -/
theorem spec_positions_in_range {α : Type} (items : List α) (start stop : Option Int) (step : Int)
    (hnz : step ≠ 0) :
    (∀ i ∈ indices items.length start stop step, 0 ≤ i ∧ i < (items.length : Int)) ∧
    ∃ r, select items start stop (some step) = some r ∧
      r.length = sliceLength (adjStart items.length step start) (adjStop items.length step stop) step := by
  have hr := indices_in_range items.length start stop step hnz
  refine ⟨hr, ?_⟩
  unfold select
  simp only [Option.getD_some, hnz, if_false]
  refine ⟨_, rfl, ?_⟩
  have hall : ∀ i ∈ indices items.length start stop step,
      (if 0 ≤ i then items[i.toNat]? else none).isSome = true := by
    intro i hi
    obtain ⟨h0, h1⟩ := hr i hi
    have hlt : i.toNat < items.length := by omega
    simp [h0, hlt]
  have hlen : ∀ (l : List Int), (∀ i ∈ l, (if 0 ≤ i then items[i.toNat]? else none).isSome = true) →
      (l.filterMap fun i => if 0 ≤ i then items[i.toNat]? else none).length = l.length := by
    intro l
    induction l with
    | nil => intro _; rfl
    | cons a l ih =>
      intro h
      have ha := h a (List.mem_cons_self)
      have hl := ih (fun i hi => h i (List.mem_cons_of_mem _ hi))
      cases hx : (if 0 ≤ a then items[a.toNat]? else none) with
      | none => rw [hx] at ha; cases ha
      | some x => rw [List.filterMap_cons, hx]; simp [hl]
  rw [hlen _ hall]
  simp [indices]

/-- `Value::slice` = Python's selection for every combination of present/absent start, stop and
step over all of i128, on arrays and on strings (by characters, same kind so the safe mark is
kept); a zero step is an error. -/
theorem slice_eq_python (recv : Value) (hlen : recvLen recv ≤ USIZE_MAX)
    (start stop step : Option Int)
    (hstart : ∀ v, start = some v → inI128 v) (hstop : ∀ v, stop = some v → inI128 v)
    (hstep : ∀ v, step = some v → inI128 v) :
    slice recv start stop step = pySliceValue recv start stop step := by
  have hst : inI128 (step.getD 1) := by
    cases step with
    | none => simp only [Option.getD, inI128, I128_MIN, I128_MAX]; omega
    | some v => exact hstep v rfl
  unfold slice sliceF pySliceValue select
  by_cases hz : step.getD 1 = 0
  · simp only [hz, if_true]
    cases recv <;> rfl
  · simp only [hz, if_false]
    cases recv with
    | arr xs =>
      simp only [recvLen] at hlen ⊢
      rw [sliceItems_eq xs start stop _ hstart hstop hst hz hlen xs.length (Nat.le_refl _)]
      have := select_eq_pick xs start stop step hz
      simp only [select, hz, if_false, Option.some.injEq] at this
      simp only [Res.map, Res.bind, this]
    | str kind s =>
      simp only [recvLen] at hlen ⊢
      rw [sliceItems_eq s start stop _ hstart hstop hst hz hlen s.length (Nat.le_refl _)]
      have := select_eq_pick s start stop step hz
      simp only [select, hz, if_false, Option.some.injEq] at this
      simp only [Res.map, Res.bind, this]
    | _ => rfl

/-- A zero step is an error on every receiver. -/
theorem slice_step_zero (recv : Value) (start stop : Option Int) :
    slice recv start stop (some 0) = .err .stepZero := by
  simp [slice, sliceF]

/-- Operand validation of the VM: whatever `sliceOperand` lets through is absent or an i128. -/
theorem slice_operand_range (p : Pos) (v : Value) (r : Option Int)
    (h : sliceOperand p v = .ok r) : ∀ n, r = some n → inI128 n := by
  intro n hn
  subst hn
  cases v <;> simp only [sliceOperand, reduceCtorEq] at h
  case none => cases h
  all_goals
    split at h
    · rename_i m hc
      cases h
      exact asI128_range hc
    · cases h

/-- The whole VM arm for `x[a:b:c]` / `x?[a:b:c]`, for *arbitrary* operand values: it never
panics and never runs out of fuel; it is an error or a value. -/
theorem vm_slice_total (optional : Bool) (recv start stop step : Value)
    (hlen : recvLen recv ≤ USIZE_MAX) :
    (∃ v, vmSlice optional recv start stop step = .ok v) ∨
    (∃ e, vmSlice optional recv start stop step = .err e) := by
  unfold vmSlice
  split
  · exact Or.inl ⟨_, rfl⟩
  · split
    · exact Or.inr ⟨_, rfl⟩
    · cases hs : sliceOperand .start start with
      | ok s =>
        cases he : sliceOperand .stop stop with
        | ok e =>
          cases ht : sliceOperand .step step with
          | ok st =>
            simp only [Res.bind]
            rw [slice_eq_python recv hlen s e st (slice_operand_range _ _ _ hs)
              (slice_operand_range _ _ _ he) (slice_operand_range _ _ _ ht)]
            exact pySliceValue_total recv s e st
          | err e => exact Or.inr ⟨_, rfl⟩
          | panic m => cases step <;> simp [sliceOperand] at ht <;> (split at ht <;> cases ht)
          | fuel => cases step <;> simp [sliceOperand] at ht <;> (split at ht <;> cases ht)
        | err e => exact Or.inr ⟨_, rfl⟩
        | panic m => cases stop <;> simp [sliceOperand] at he <;> (split at he <;> cases he)
        | fuel => cases stop <;> simp [sliceOperand] at he <;> (split at he <;> cases he)
      | err e => exact Or.inr ⟨_, rfl⟩
      | panic m => cases start <;> simp [sliceOperand] at hs <;> (split at hs <;> cases hs)
      | fuel => cases start <;> simp [sliceOperand] at hs <;> (split at hs <;> cases hs)

/-- What a slice operand value denotes for the property: the value none (or an unwritten
operand, which the compiler turns into none, or into the constant 1 for the step) is "absent",
an integer of any kind whose value fits i128 is that integer. -/
def OperandDenotes (v : Value) (r : Option Int) : Prop :=
  (v = .none ∧ r = none) ∨ (∃ n, v.intVal = some n ∧ inI128 n ∧ r = some n)

theorem slice_operand_denotes (p : Pos) (v : Value) (r : Option Int) (h : OperandDenotes v r) :
    sliceOperand p v = .ok r := by
  rcases h with ⟨rfl, rfl⟩ | ⟨n, hv, hn, rfl⟩
  · rfl
  · cases v <;> simp only [Value.intVal, reduceCtorEq] at hv <;>
      (have hv' := Option.some.inj hv; subst hv'; simp [sliceOperand, Value.asI128, Value.intVal, hn])

/-- The VM arm `x[a:b:c]` / `x?[a:b:c]` end to end on an array or string receiver: for every
combination of absent and integer operands (any integer kind, any value in i128) the result is
Python's selection in the receiver's kind, and the zero-step error when the step is 0. -/
theorem vm_slice_eq_python (optional : Bool) (recv : Value)
    (hr : (∃ xs, recv = .arr xs) ∨ (∃ k s, recv = .str k s)) (hlen : recvLen recv ≤ USIZE_MAX)
    (a b c : Value) (ra rb rc : Option Int)
    (ha : OperandDenotes a ra) (hb : OperandDenotes b rb) (hc : OperandDenotes c rc) :
    vmSlice optional recv a b c = pySliceValue recv ra rb rc := by
  have hu : isUndefOrNone recv = false ∧ isUndef recv = false := by
    rcases hr with ⟨xs, rfl⟩ | ⟨k, s, rfl⟩ <;> exact ⟨rfl, rfl⟩
  have range : ∀ (v : Value) (r : Option Int), OperandDenotes v r → ∀ n, r = some n → inI128 n := by
    intro v r h n hn
    rcases h with ⟨_, rfl⟩ | ⟨m, _, hm, rfl⟩
    · cases hn
    · cases hn; exact hm
  unfold vmSlice
  simp only [hu.1, hu.2, Bool.and_false, Bool.false_eq_true, if_false,
    slice_operand_denotes _ _ _ ha, slice_operand_denotes _ _ _ hb, slice_operand_denotes _ _ _ hc,
    Res.bind]
  exact slice_eq_python recv hlen ra rb rc (range a ra ha) (range b rb hb) (range c rc hc)

/-- Operand validation: an operand that is undefined, or not an integer (float, string, bool,
array, …), or an integer above `i128::MAX` (`as_i128` is `None`) makes the whole slice an error —
whatever the other operands are — unless `?[` short-circuits on a none or undefined receiver. -/
theorem vm_slice_bad_operand (optional : Bool) (recv a b c : Value) (hlen : recvLen recv ≤ USIZE_MAX)
    (hshort : (optional && isUndefOrNone recv) = false)
    (hbad : (a ≠ .none ∧ a.asI128 = none) ∨ (b ≠ .none ∧ b.asI128 = none) ∨ (c ≠ .none ∧ c.asI128 = none)) :
    ∃ e, vmSlice optional recv a b c = .err e := by
  have bad : ∀ (p : Pos) (v : Value), v ≠ .none → v.asI128 = none → ∃ e, sliceOperand p v = .err e := by
    intro p v hn hv
    cases v <;> first | exact absurd rfl hn | (simp only [sliceOperand, hv]; exact ⟨_, rfl⟩)
  have tot := vm_slice_total optional recv a b c hlen
  rcases tot with ⟨v, hv⟩ | h
  · exfalso
    unfold vmSlice at hv
    rw [hshort] at hv
    simp only [Bool.false_eq_true, if_false] at hv
    split at hv
    · cases hv
    · cases hs : sliceOperand .start a with
      | ok s =>
        cases he : sliceOperand .stop b with
        | ok e =>
          cases ht : sliceOperand .step c with
          | ok st =>
            rcases hbad with ⟨h1, h2⟩ | ⟨h1, h2⟩ | ⟨h1, h2⟩
            · obtain ⟨e', he'⟩ := bad .start a h1 h2; rw [he'] at hs; cases hs
            · obtain ⟨e', he'⟩ := bad .stop b h1 h2; rw [he'] at he; cases he
            · obtain ⟨e', he'⟩ := bad .step c h1 h2; rw [he'] at ht; cases ht
          | err _ => rw [hs, he, ht] at hv; cases hv
          | panic _ => rw [hs, he, ht] at hv; cases hv
          | fuel => rw [hs, he, ht] at hv; cases hv
        | err _ => rw [hs, he] at hv; cases hv
        | panic _ => rw [hs, he] at hv; cases hv
        | fuel => rw [hs, he] at hv; cases hv
      | err _ => rw [hs] at hv; cases hv
      | panic _ => rw [hs] at hv; cases hv
      | fuel => rw [hs] at hv; cases hv
  · exact h

/-! ## length, reverse -/

/-- `length` measures a string in characters, coherently with every other operation: it is the
number of items a `for` loop yields (char level and byte level), `x[i]` is defined exactly for
`-length ≤ i < length`, the full slice and the reversal have that many characters. -/
theorem length_by_chars (kind : Bool) (s : List Char) (hlen : s.length ≤ USIZE_MAX) :
    lengthFilter (.str kind s) = .ok s.length ∧
    (iterChars s).length = s.length ∧
    (strIterAll (utf8Encode s) (s.length + 1) 0 []).map List.length = .ok s.length ∧
    (∀ n : Int, (PySlice.index s n).isSome ↔ (-(s.length : Int) ≤ n ∧ n < (s.length : Int))) ∧
    slice (.str kind s) none none none = .ok (.str kind s) ∧
    (reverse (.str kind s)).bind lengthFilter = .ok s.length := by
  refine ⟨rfl, by simp [iterChars], ?_, ?_, ?_, by simp [reverse, Res.bind, lengthFilter, len]⟩
  · have := strIterAll_enc s [] [] (s.length + 1) (Nat.lt_succ_self _)
    simp only [List.nil_append, utf8Encode_nil, List.length_nil] at this
    rw [this]
    simp [Res.map, Res.bind]
  · intro n
    unfold PySlice.index
    simp only
    by_cases hn : n < 0
    · simp only [hn, if_true]
      split_ifs with hc
      · have hlt : (n + (s.length : Int)).toNat < s.length := by omega
        simp [List.getElem?_eq_getElem hlt]; omega
      · simp; omega
    · simp only [hn, if_false]
      split_ifs with hc
      · have hlt : n.toNat < s.length := by omega
        simp [List.getElem?_eq_getElem hlt]; omega
      · simp; omega
  · rw [slice_eq_python (.str kind s) hlen none none none (by simp) (by simp) (by simp)]
    unfold pySliceValue
    simp only [select_all]

/-- `reverse` reverses the list of elements / characters, keeps the length, and is an involution
on arrays and on normal strings (on a safe string the content comes back, as a normal string). -/
theorem reverse_involutive (xs : List Value) (kind : Bool) (s : List Char) :
    reverse (.arr xs) = .ok (.arr xs.reverse) ∧
    (reverse (.arr xs)).bind reverse = .ok (.arr xs) ∧
    reverse (.str kind s) = .ok (.str false s.reverse) ∧
    (reverse (.str kind s)).bind reverse = .ok (.str false s) ∧
    (reverse (.str kind s)).bind lengthFilter = lengthFilter (.str kind s) := by
  simp [reverse, Res.bind, lengthFilter, len]

/-! ## Strings are handled by characters -/

/-- Every character of a string slice is a character of the receiver (no partial characters can
appear: the result is a list of whole chars taken from the input), and the result has the
receiver's kind. -/
theorem slice_string_chars (kind : Bool) (s : List Char) (hlen : s.length ≤ USIZE_MAX)
    (start stop step : Option Int)
    (hstart : ∀ v, start = some v → inI128 v) (hstop : ∀ v, stop = some v → inI128 v)
    (hstep : ∀ v, step = some v → inI128 v) (hnz : step.getD 1 ≠ 0) :
    ∃ r, slice (.str kind s) start stop step = .ok (.str kind r) ∧ ∀ c ∈ r, c ∈ s := by
  rw [slice_eq_python (.str kind s) hlen start stop step hstart hstop hstep]
  unfold pySliceValue select
  simp only [hnz, if_false]
  refine ⟨_, rfl, ?_⟩
  intro c hc
  rw [List.mem_filterMap] at hc
  obtain ⟨i, _, hi⟩ := hc
  split_ifs at hi
  exact List.mem_of_getElem? hi

/-- `truncate(length=n, end=e)` at the byte level, on the UTF-8 bytes of any string: the cut
offset `char_indices().nth(n)` is a char boundary, `val[..idx]` does not panic, and the result is
the encoding of "first n characters, then `e`" (or the whole string when it has at most n
characters) — valid text that never splits a multi-byte character. -/
theorem truncate_boundary (cs endS : List Char) (n : Nat) :
    truncateBytes (utf8Encode cs) n (utf8Encode endS) = .ok (utf8Encode (truncateChars cs n endS)) ∧
    (∀ idx, charIndexNth (utf8Encode cs) n 0 = some idx → isCharBoundary (utf8Encode cs) idx = true) := by
  refine ⟨truncateBytes_enc cs endS n, ?_⟩
  intro idx h
  rw [charIndexNth_enc] at h
  split_ifs at h
  cases h
  have hsplit : utf8Encode cs = utf8Encode (cs.take n) ++ utf8Encode (cs.drop n) := by
    rw [← utf8Encode_append, List.take_append_drop]
  rw [Nat.zero_add]
  conv => lhs; arg 1; rw [hsplit]
  exact boundary_at_prefix _ _

/-- A `for` loop over a string, at the byte level (`char_indices().nth(1)` from `current_pos`):
it yields one item per character, each the encoding of exactly that character, in order; no
slice is taken off a char boundary; `chars + 1` calls of `next()` end the iteration. -/
theorem for_string_by_chars (cs : List Char) :
    strIterAll (utf8Encode cs) (cs.length + 1) 0 [] = .ok (cs.map utf8EncodeChar) := by
  have := strIterAll_enc cs [] [] (cs.length + 1) (Nat.lt_succ_self _)
  simpa [utf8Encode_nil] using this

/-- The loop variables over an exactly-sized iterator (arrays, bytes, and — next theorem —
strings): pass `k` (0-based) of `n` shows `loop.index0 = k`, `loop.index = k + 1`, `loop.first`
iff `k = 0`, `loop.last` iff it is the last pass, `loop.length = n`; exactly `n` passes. -/
theorem loop_vars_spec (n : Nat) :
    loopRows n = .ok ((List.range n).map fun k => (⟨k, k == 0, k + 1 == n, n⟩ : LoopData)) :=
  loopRows_eq n

/-- A `for` loop over a string exactly as the VM runs it at the byte level (iterator with its
`remaining = chars().count()` pre-count, `ForLoop::new` taking `size_hint().1` as the length,
`Iterate` leaving when `size_hint().0 = 0`): there is one pass per character, the item is that
character's encoding, and the loop variables count characters — `loop.length` is the number of
characters (not bytes) and `loop.last` holds on the last character only. No panic (`remaining`
never underflows, no slice off a char boundary) and `chars + 1` fuel suffices. -/
theorem for_string_loop_by_chars (cs : List Char) :
    ∃ rows, strFor (utf8Encode cs) = .ok rows ∧ rows.length = cs.length ∧
      ∀ i (h : i < cs.length), rows[i]? =
        some (utf8EncodeChar cs[i], (⟨i, i == 0, i + 1 == cs.length, cs.length⟩ : LoopData)) := by
  refine ⟨rowsFrom 0 cs.length cs, strFor_enc cs, rowsFrom_length _ _ _, ?_⟩
  intro i h
  have := rowsFrom_get cs.length cs 0 i h
  simpa [rowData] using this

/-- A list comprehension over a string goes by characters and always builds a list: the
identity comprehension `[c for c in s]` is the list of the one-character strings of `s` (never
the string itself), it has `chars` entries, and slicing it is Python's selection of characters,
each still a separate list entry. -/
theorem comprehension_string_by_chars (kind : Bool) (s : List Char) (hlen : s.length ≤ USIZE_MAX)
    (start stop step : Option Int)
    (hstart : ∀ v, start = some v → inI128 v) (hstop : ∀ v, stop = some v → inI128 v)
    (hstep : ∀ v, step = some v → inI128 v) (hnz : step.getD 1 ≠ 0) :
    identityComprehension (.str kind s) = .ok (.arr (s.map fun c => Value.str false [c])) ∧
    (identityComprehension (.str kind s)).bind lengthFilter = .ok s.length ∧
    ∃ r, select s start stop step = some r ∧
      (identityComprehension (.str kind s)).bind (fun l => slice l start stop step) =
        .ok (.arr (r.map fun c => Value.str false [c])) := by
  have h0 : identityComprehension (.str kind s) = .ok (.arr (s.map fun c => Value.str false [c])) := by
    simp [identityComprehension, comprehension, iterItems, iterChars, Res.bind]
  refine ⟨h0, by rw [h0]; simp [Res.bind, lengthFilter, len], ?_⟩
  have hsel : ∃ r, select s start stop step = some r := by
    unfold select; simp only [hnz, if_false]; exact ⟨_, rfl⟩
  obtain ⟨r, hr⟩ := hsel
  refine ⟨r, hr, ?_⟩
  rw [h0]
  simp only [Res.bind]
  rw [slice_eq_python _ (by simpa [recvLen] using hlen) start stop step hstart hstop hstep]
  simp only [pySliceValue, select_map, hr, Option.map_some]

/-- The char-level view used by the other theorems agrees with the byte-level one: iterating
yields the one-character strings of the receiver. -/
theorem for_string_items (cs : List Char) :
    (iterChars cs).length = cs.length ∧
    ∀ i (h : i < cs.length), (iterChars cs)[i]? = some (.str false [cs[i]]) := by
  refine ⟨by simp [iterChars], ?_⟩
  intro i h
  simp [iterChars, h]

/-! ## Non-vacuity and kernel-evaluated spot checks (expected values produced by CPython 3) -/

def L7 : List Nat := [10, 11, 12, 13, 14, 15, 16]

example : select L7 (some (1)) (some (5)) (some (2)) = some [11, 13] := by decide +kernel
example : select L7 (none) (none) (some (-1)) = some [16, 15, 14, 13, 12, 11, 10] := by decide +kernel
example : select L7 (some (-3)) (none) (none) = some [14, 15, 16] := by decide +kernel
example : select L7 (none) (some (-2)) (none) = some [10, 11, 12, 13, 14] := by decide +kernel
example : select L7 (some (5)) (some (1)) (some (-2)) = some [15, 13] := by decide +kernel
example : select L7 (some (-100)) (some (100)) (some (3)) = some [10, 13, 16] := by decide +kernel
example : select L7 (some (100)) (some (-100)) (some (-3)) = some [16, 13, 10] := by decide +kernel
example : select L7 (none) (none) (some (170141183460469231731687303715884105727)) = some [10] := by decide +kernel
example : select L7 (none) (none) (some (-170141183460469231731687303715884105728)) = some [16] := by decide +kernel
example : select L7 (some (-170141183460469231731687303715884105728)) (some (170141183460469231731687303715884105727)) (some (1)) = some [10, 11, 12, 13, 14, 15, 16] := by decide +kernel
example : select L7 (some (170141183460469231731687303715884105727)) (some (-170141183460469231731687303715884105728)) (some (-1)) = some [16, 15, 14, 13, 12, 11, 10] := by decide +kernel
example : select L7 (some (6)) (none) (some (-85070591730234615865843651857942052864)) = some [16] := by decide +kernel
example : select L7 (some (3)) (some (3)) (some (1)) = some [] := by decide +kernel
example : select L7 (some (2)) (some (4)) (some (-1)) = some [] := by decide +kernel
example : select L7 (some (-1)) (some (-8)) (some (-2)) = some [16, 14, 12, 10] := by decide +kernel
example : select L7 (none) (some (0)) (some (-1)) = some [16, 15, 14, 13, 12, 11] := by decide +kernel
example : select L7 (some (-7)) (some (-8)) (some (-1)) = some [10] := by decide +kernel
example : select L7 (some 1) (some 2) (some 0) = none := by decide +kernel
example : PySlice.index L7 (-7) = some 10 ∧ PySlice.index L7 6 = some 16 ∧ PySlice.index L7 (-1) = some 16
    ∧ PySlice.index L7 7 = none ∧ PySlice.index L7 (-8) = none := by decide +kernel
/-- `"héllo😀"[::-2]`, `[1:4]` in CPython. -/
example : select "héllo😀".toList none none (some (-2)) = some "😀lé".toList
    ∧ select "héllo😀".toList (some 1) (some 4) none = some "éll".toList := by decide +kernel

-- the model itself, evaluated by the kernel, at the extremes
example : sliceItems 7 L7 (some I128_MIN) (some I128_MAX) I128_MAX = .ok [10] := by decide +kernel
example : sliceItems 7 L7 (some I128_MAX) (some I128_MIN) I128_MIN = .ok [16] := by decide +kernel
example : sliceItems 7 L7 none none (-3) = .ok [16, 13, 10] := by decide +kernel
example : sliceItems 0 ([] : List Nat) (some 5) (some (-5)) (-1) = .ok [] := by decide +kernel
-- fuel below the number of iterations is reported as such, not silently truncated
example : sliceItems 2 L7 none none 1 = .fuel := by decide +kernel
-- a panic outcome is reachable in the model when the guard is removed: the loop started outside
-- the clamped range indexes out of bounds (so `slice_no_panic` is not true by construction)
example : sliceLoop L7 1 9 9 7 [] = .panic "value/mod.rs:1009 items[i as usize]" := by decide +kernel
example : sliceLoop L7 (-1) (-3) 9 0 [] = .panic "value/mod.rs:1009 items[i as usize]" := by decide +kernel
-- hypotheses of the theorems are satisfiable
example : L7.length ≤ USIZE_MAX ∧ inI128 I128_MIN ∧ inI128 I128_MAX ∧ inI128 (-1) := by decide +kernel
example : (Value.u128 (2^128 - 1)).intVal = some (((2^128 - 1 : Nat) : Int)) ∧ (Value.u128 (2^128 - 1)).scalarWF :=
  ⟨rfl, by simp only [Value.scalarWF, U128_MAX]; omega⟩

-- operands: a u64 5 denotes 5, none denotes "absent"; a u128 at 2^127, a float-free example of a
-- refused operand (as_i128 is None), so the hypotheses of the VM theorems are satisfiable
example : OperandDenotes (.u64 5) (some 5) ∧ OperandDenotes .none none :=
  ⟨Or.inr ⟨5, rfl, by decide +kernel, rfl⟩, Or.inl ⟨rfl, rfl⟩⟩
example : (Value.u128 (2^127)) ≠ .none ∧ (Value.u128 (2^127)).asI128 = none ∧
    (Value.bool true).asI128 = none ∧ Value.undef.asI128 = none := by
  refine ⟨(fun h => by cases h), ?_, rfl, rfl⟩
  decide +kernel

-- byte level: "héllo😀" truncated to 2 characters plus "…" is "hé…" (bytes below); cutting "hé"
-- after 2 bytes would be inside the é and is a panic in the model, as it is in Rust
example : truncateBytes (utf8Encode "héllo😀".toList) 2 (utf8Encode "…".toList)
    = .ok [0x68, 0xC3, 0xA9, 0xE2, 0x80, 0xA6] := by decide +kernel
example : strTo [0x68, 0xC3, 0xA9] 2 = .panic "str slice ..idx not on a char boundary" := by
  decide +kernel
example : strIterAll (utf8Encode "a€😀".toList) 4 0 []
    = .ok [[0x61], [0xE2, 0x82, 0xAC], [0xF0, 0x9F, 0x98, 0x80]] := by decide +kernel
-- "héé" is 3 characters in 5 bytes: three passes, loop.length 3, loop.last on the third only
example : strFor (utf8Encode "héé".toList) = .ok
    [([0x68], ⟨0, true, false, 3⟩), ([0xC3, 0xA9], ⟨1, false, false, 3⟩), ([0xC3, 0xA9], ⟨2, false, true, 3⟩)] := by
  decide +kernel
example : (utf8Encode "héé".toList).length = 5 ∧ charsCount (utf8Encode "héé".toList) = 3 := by decide +kernel
-- with a pre-count larger than the number of chars the engine's loop would never end (`next()`
-- answers None while `remaining > 0`): the model reports that as `.fuel`, so the theorem above is not vacuous
example : strForLoop (utf8Encode "hé".toList) 9 0 3 (loopInit 3) false [] = .fuel := by decide +kernel

end Tera.C14
