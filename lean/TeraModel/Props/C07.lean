/-
C07 — Rendering accepted templates never panics; all references checked at add time.

Property theorems only (helper lemmas: Lemmas/WellFormed.lean).  The statements are about the
bytecode checker and the abstract stack machine of Model/WellFormed.lean.  The harness
(harness/src/bin/c07.rs) runs the checker on the real listing of every chunk of every generated
template (translation validation of the real compiler + optimiser), and ties the abstract machine
to the real VM by `take_final_stacks()` and by rendering under adversarial contexts.
-/
import TeraModel.Lemmas.WellFormed
namespace Tera.C07
open Tera Tera.WellFormed

/-- Configurations the abstract machine can reach when the chunk is started with empty stacks
(every choice at a conditional jump or loop test is possible). -/
inductive Reach (c : List Entry) : Nat → St → Prop where
  | start : Reach c 0 St.empty
  | next {pc : Nat} {s : St} {e : Entry} {op : Op} {succs : List (Nat × St)} {pc' : Nat} {s' : St} :
      Reach c pc s → c[pc]? = some e → opOf e.1 = some op → step op pc s = some succs →
      (pc', s') ∈ succs → Reach c pc' s'

/-- The instruction at `pc` would panic in state `s`: `Stack::pop/peek/peek_mut` on an empty
value stack, `capture_buffers.pop().unwrap()` with no capture buffer, `AppendToList` below a
non-array, a loop instruction (or `Break`) without its loop / before `Iterate` set the loop end —
or it is not an instruction the compiler emits. -/
def Panics (c : List Entry) (pc : Nat) (s : St) : Prop :=
  ∃ e, c[pc]? = some e ∧ (opOf e.1 = none ∨ ∃ op, opOf e.1 = some op ∧ step op pc s = none)

theorem reach_covered (c : List Entry) (table : List (Option St)) (h : verify c table = true) :
    ∀ pc s, Reach c pc s → covered table c.length (pc, s) = true := by
  simp only [verify, Bool.and_eq_true, List.all_eq_true, List.mem_range] at h
  obtain ⟨h0, hall⟩ := h
  intro pc s hr
  induction hr with
  | start => exact h0
  | @next pc s e op succs pc' s' _ he hop hstep hmem ih =>
    have hlt : pc < c.length := (List.getElem?_eq_some_iff.mp he).1
    -- the table describes (pc, s)
    simp only [covered, hlt, ↓reduceIte] at ih
    cases htab : table[pc]? with
    | none => rw [htab] at ih; cases ih
    | some entry =>
      cases entry with
      | none => rw [htab] at ih; cases ih
      | some b =>
        rw [htab] at ih
        simp only at ih
        -- the table entry passed the check
        have hv := hall pc hlt
        simp only [verifyAt, htab, he, hop] at hv
        cases hsb : step op pc b with
        | none => rw [hsb] at hv; cases hv
        | some succsB =>
          rw [hsb] at hv
          simp only [List.all_eq_true] at hv
          obtain ⟨succsS, hs1, hs2⟩ := step_mono op pc s b ih succsB hsb
          rw [hstep] at hs1
          cases hs1
          obtain ⟨y, hy, hy1, hy2⟩ := hs2.mem (pc', s') hmem
          have hc := hv y hy
          simp only at hy1
          simp only [covered] at hc ⊢
          rw [← hy1] at hc
          by_cases hl : pc' < c.length
          · simp only [hl, ↓reduceIte] at hc ⊢
            cases ht2 : table[pc']? with
            | none => rw [ht2] at hc; cases hc
            | some entry2 =>
              cases entry2 with
              | none => rw [ht2] at hc; cases hc
              | some b2 =>
                rw [ht2] at hc
                exact St.le_trans _ _ _ hy2 hc
          · simp only [hl, ↓reduceIte, Bool.and_eq_true, beq_iff_eq] at hc ⊢
            refine ⟨hc.1, ?_⟩
            have : y.2 = St.empty := hc.2
            rw [this] at hy2
            exact St.le_empty _ hy2

/-- `wellFormed_sound`: if the table passes `verify`, then however the run goes (whichever way
every conditional jump and loop test falls), started with empty stacks the chunk
* never pops or peeks an empty value stack, never pops an empty capture stack, never executes
  `AppendToList` below a non-array, never executes a loop instruction without its loop nor a
  `Break` before `Iterate` has set the loop end, and only jumps to instruction indices within
  the chunk or to the one-past-the-end index;
* when it runs off the end (normal termination) the value stack, the loop stack and the capture
  stack are empty again. -/
theorem verify_sound (c : List Entry) (table : List (Option St)) (h : verify c table = true) :
    (∀ pc s, Reach c pc s → ¬ Panics c pc s) ∧
    (∀ pc s, Reach c pc s → pc ≤ c.length) ∧
    (∀ pc s, Reach c pc s → c.length ≤ pc → s = St.empty) := by
  have hcov := reach_covered c table h
  simp only [verify, Bool.and_eq_true, List.all_eq_true, List.mem_range] at h
  obtain ⟨_, hall⟩ := h
  refine ⟨?_, ?_, ?_⟩
  · intro pc s hr ⟨e, he, hbad⟩
    have hlt : pc < c.length := (List.getElem?_eq_some_iff.mp he).1
    have ih := hcov pc s hr
    simp only [covered, hlt, ↓reduceIte] at ih
    cases htab : table[pc]? with
    | none => rw [htab] at ih; cases ih
    | some entry =>
      cases entry with
      | none => rw [htab] at ih; cases ih
      | some b =>
        rw [htab] at ih
        simp only at ih
        have hv := hall pc hlt
        simp only [verifyAt, htab, he] at hv
        rcases hbad with hnone | ⟨op, hop, hstep⟩
        · rw [hnone] at hv; cases hv
        · rw [hop] at hv
          simp only at hv
          cases hsb : step op pc b with
          | none => rw [hsb] at hv; cases hv
          | some succsB =>
            obtain ⟨succsS, hs1, _⟩ := step_mono op pc s b ih succsB hsb
            rw [hstep] at hs1; cases hs1
  · intro pc s hr
    have ih := hcov pc s hr
    simp only [covered] at ih
    by_cases hl : pc < c.length
    · omega
    · simp only [hl, ↓reduceIte, Bool.and_eq_true, beq_iff_eq] at ih
      omega
  · intro pc s hr hge
    have ih := hcov pc s hr
    simp only [covered] at ih
    have hl : ¬ pc < c.length := by omega
    simp only [hl, ↓reduceIte, Bool.and_eq_true, beq_iff_eq] at ih
    exact ih.2

/-- The same for the checker that infers the table itself. -/
theorem wellFormed_sound (c : List Entry) (h : wellFormed c = true) :
    (∀ pc s, Reach c pc s → ¬ Panics c pc s) ∧
    (∀ pc s, Reach c pc s → pc ≤ c.length) ∧
    (∀ pc s, Reach c pc s → c.length ≤ pc → s = St.empty) := by
  unfold wellFormed at h
  cases hi : infer c with
  | none => rw [hi] at h; cases h
  | some table => rw [hi] at h; exact verify_sound c table h

/-- `stacks_empty_at_end`: a well-formed chunk that terminates normally leaves the three stacks
empty (what `take_final_stacks() == (0,0,0)` observes on the real VM). -/
theorem stacks_empty_at_end (c : List Entry) (h : wellFormed c = true) (s : St)
    (hr : Reach c c.length s) : s.stack = [] ∧ s.loops = [] ∧ s.caps = 0 := by
  have := (wellFormed_sound c h).2.2 c.length s hr (Nat.le_refl _)
  subst this; exact ⟨rfl, rfl, rfl⟩

/-! ## Chunks that run on top of their caller's stacks (blocks, `super()`) -/

/-- Configurations reachable when the chunk is started on top of the stacks `base` (a block chunk
is interpreted in its caller's `State`: the caller's values, loops and capture buffers are
underneath). -/
inductive ReachFrom (c : List Entry) (base : St) : Nat → St → Prop where
  | start : ReachFrom c base 0 base
  | next {pc : Nat} {s : St} {e : Entry} {op : Op} {succs : List (Nat × St)} {pc' : Nat} {s' : St} :
      ReachFrom c base pc s → c[pc]? = some e → opOf e.1 = some op → step op pc s = some succs →
      (pc', s') ∈ succs → ReachFrom c base pc' s'

/-- Every configuration reached on top of `base` is a configuration reached from empty stacks
with `base` underneath, untouched. -/
theorem reachFrom_frame (c : List Entry) (h : wellFormed c = true) (base : St) :
    ∀ pc s', ReachFrom c base pc s' → ∃ s, Reach c pc s ∧ s' = s.frame base := by
  intro pc s' hr
  induction hr with
  | start => exact ⟨St.empty, Reach.start, (St.empty_frame base).symm⟩
  | @next pc s1 e op succs pc' s2 _ he hop hstep hmem ih =>
    obtain ⟨s, hreach, rfl⟩ := ih
    -- the unframed state does not panic, so it has successors
    have hnp := (wellFormed_sound c h).1 pc s hreach
    cases hs : step op pc s with
    | none => exact absurd ⟨e, he, Or.inr ⟨op, hop, hs⟩⟩ hnp
    | some L =>
      rw [step_frame op pc s base L hs] at hstep
      cases hstep
      obtain ⟨x, hx, hxe⟩ := List.mem_map.mp hmem
      cases hxe
      exact ⟨x.2, Reach.next hreach he hop hs hx, rfl⟩

/-- `wellFormed_sound`, with a caller underneath: whatever the caller's value stack, loop stack
and capture stack hold, a well-formed chunk never panics, never touches them, and on normal
termination the three stacks are exactly as at entry. -/
theorem wellFormed_sound_framed (c : List Entry) (h : wellFormed c = true) (base : St) :
    (∀ pc s, ReachFrom c base pc s → ¬ Panics c pc s) ∧
    (∀ pc s, ReachFrom c base pc s → pc ≤ c.length) ∧
    (∀ pc s, ReachFrom c base pc s → c.length ≤ pc → s = base) := by
  refine ⟨?_, ?_, ?_⟩
  · intro pc s' hr ⟨e, he, hbad⟩
    obtain ⟨s, hreach, rfl⟩ := reachFrom_frame c h base pc s' hr
    have hnp := (wellFormed_sound c h).1 pc s hreach
    rcases hbad with hnone | ⟨op, hop, hstep⟩
    · exact hnp ⟨e, he, Or.inl hnone⟩
    · cases hs : step op pc s with
      | none => exact hnp ⟨e, he, Or.inr ⟨op, hop, hs⟩⟩
      | some L => rw [step_frame op pc s base L hs] at hstep; cases hstep
  · intro pc s' hr
    obtain ⟨s, hreach, _⟩ := reachFrom_frame c h base pc s' hr
    exact (wellFormed_sound c h).2.1 pc s hreach
  · intro pc s' hr hge
    obtain ⟨s, hreach, rfl⟩ := reachFrom_frame c h base pc s' hr
    rw [(wellFormed_sound c h).2.2 pc s hreach hge, St.empty_frame]

/-! ## The checker accepts what the compiler emits, rejects what would panic (spot checks; the
harness runs it on every real listing) -/

/-- `{% for x in xs %}{% if x %}{% break %}{% endif %}{{ x }}{% else %}e{% endfor %}` -/
def exFor : List Entry :=
  [(.loadName "xs", ["s"]), (.other "StartIterate" "f", []), (.other "StoreLocal" "78", []),
   (.iterate 10, []), (.loadName "x", ["s"]), (.popJumpIfFalse 7, []), (.other "Break" "", []),
   (.loadName "x", ["s"]), (.writeTop, []), (.jump 3, []),
   (.other "StoreDidNotIterate" "", []), (.other "PopLoop" "", []), (.popJumpIfFalse 14, []),
   (.other "WriteText" "65", [])]

example : wellFormed exFor = true := by decide

/-- `{{ [y for y in a if y] }}` — `AppendToList` lands on the list of the prologue -/
example : wellFormed
    [(.other "BuildList" "0", ["s"]), (.loadName "a", ["s"]), (.other "StartIterateComprehension" "f", []),
     (.other "StoreLocal" "79", []), (.iterate 10, []), (.loadName "y", ["s"]), (.popJumpIfFalse 9, []),
     (.loadName "y", ["s"]), (.other "AppendToList" "", []), (.jump 4, []), (.other "PopLoop" "", []),
     (.writeTop, [])] = true := by decide

/-- a value left on the stack at the end -/
example : wellFormed [(.loadName "a", ["s"])] = false := by decide
/-- pop from an empty stack -/
example : wellFormed [(.writeTop, [])] = false := by decide
/-- `Break` outside a loop -/
example : wellFormed [(.other "Break" "", [])] = false := by decide
/-- `EndCapture` without `Capture` -/
example : wellFormed [(.other "EndCapture" "", []), (.writeTop, [])] = false := by decide
/-- a jump past the one-past-the-end index -/
example : wellFormed [(.jump 5, [])] = false := by decide
/-- `BuildMap` popping in the wrong amount: 2 pairs need 4 values -/
example : wellFormed [(.other "LoadConst" "x", ["s"]), (.loadName "a", ["s"]),
    (.other "BuildMap" "2", []), (.writeTop, [])] = false := by decide
/-- the two branches of an `if` leaving different stack heights -/
example : wellFormed [(.loadName "a", ["s"]), (.popJumpIfFalse 3, []), (.loadName "b", ["s"]),
    (.other "WriteText" "78", [])] = false := by decide
/-- `AppendToList` on something that is not the comprehension's list -/
example : wellFormed [(.loadName "l", ["s"]), (.loadName "v", ["s"]), (.other "AppendToList" "", []),
    (.writeTop, [])] = false := by decide

/-- the abstract machine really runs: `{{ a }}` reaches its end with empty stacks -/
example : Reach [(.loadName "a", ["s"]), (.writeTop, [])] 2 St.empty := by
  have h1 : Reach [(.loadName "a", ["s"]), (.writeTop, [])] 1 ⟨[false], [], 0⟩ :=
    Reach.next (op := .push false) Reach.start rfl rfl rfl (List.Mem.head _)
  exact Reach.next (op := .pop 1) h1 rfl rfl rfl (List.Mem.head _)

end Tera.C07
