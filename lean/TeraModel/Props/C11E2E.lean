/-
C11 end to end — the acyclicity hypothesis of `C11Eval.render_terminates_e2e` DISCHARGED: a batch
the whole-engine model accepts has an include rank.

`addTemplatesT cfg sources = .ok env` means `Reg.derive` accepted the summaries of the batch, so
(`C11.C11_accepted_graphs`) no include cycle is reachable from any registered template in the
registry's own graph `Reg.IncEdge` (include targets resolved, fallback prefixes too).  On that
finite acyclic graph "number of templates reachable in one or more steps" is a rank that strictly
decreases along every edge (Lemmas/PipelineIncludeRank.lean `reachRank_lt`,
`accepted_env_include_rank`); the include calls of a registered summary are the compiler's
`Include` events of the parsed source, which contain every `{% include %}` node the evaluator's
walk `nodesIncludes` sees (`nodesIncludes_sub_events`); an entry of the VM's table under the name
`k` is the registered template `k` resolves to (`table_entry_resolves`).  Fallback prefixes are
covered (an include alias ranks as the template it resolves to).

Hypothesis kept: the evaluator's table has no template outside `incs` (`hall`), the set of names
`SourcesRel` speaks about — `IncludeRank` quantifies over EVERY template of the evaluator's table,
and nothing is known about an entry that is not tied to a source.
-/
import TeraModel.Props.C11Eval
import TeraModel.Lemmas.PipelineIncludeRank
namespace Tera.C11E2E
open Tera Tera.Refine Tera.Compiler Tera.C11Eval

/-- every `{% include %}` the evaluator's walk sees is an `Include` event of the compiler -/
theorem nodesIncludes_sub_events_aux :
    (∀ (_il : Bool) (_d : Nat) (_e : Expr), True) ∧
    (∀ il d ns, ∀ m ∈ nodesIncludes ns, m ∈ includeCalls (nodesEvents il d ns)) ∧
    (∀ il d n, ∀ m ∈ nodeIncludes n, m ∈ includeCalls (nodeEvents il d n)) ∧
    (∀ (_il : Bool) (_d : Nat) (_k : List (String × Expr)), True) ∧
    (∀ (_il : Bool) (_d : Nat) (_f : List Expr), True) ∧
    (∀ (_il : Bool) (_d : Nat) (_o : Option Expr), True) ∧
    (∀ (_il : Bool) (_d : Nat) (_a : List ArrayEntry), True) ∧
    (∀ (_il : Bool) (_d : Nat) (_m : List MapEntry), True) := by
  apply exprEvents.mutual_induct
    (motive_1 := fun _ _ _ => True)
    (motive_2 := fun il d ns => ∀ m ∈ nodesIncludes ns, m ∈ includeCalls (nodesEvents il d ns))
    (motive_3 := fun il d n => ∀ m ∈ nodeIncludes n, m ∈ includeCalls (nodeEvents il d n))
    (motive_4 := fun _ _ _ => True)
    (motive_5 := fun _ _ _ => True)
    (motive_6 := fun _ _ _ => True)
    (motive_7 := fun _ _ _ => True)
    (motive_8 := fun _ _ _ => True)
  all_goals intros
  all_goals (try trivial)
  all_goals simp_all [nodesIncludes, nodeIncludes, nodesEvents, nodeEvents, includeCalls,
    List.filterMap_append]
  case case24 =>
    rename_i ih2 ih1 a
    rcases a with a | a
    · exact Or.inr (Or.inl (ih2 _ a))
    · exact Or.inr (Or.inr (ih1 _ a))
  case case28 =>
    rename_i ih2 ih1 a
    rcases a with a | a
    · exact Or.inr (Or.inl (ih2 _ a))
    · exact Or.inr (Or.inr (ih1 _ a))
  case case41 =>
    rename_i ih2 ih1 a
    rcases a with a | a
    · exact Or.inl (ih2 _ a)
    · exact Or.inr (ih1 _ a)

theorem nodesIncludes_sub_events (t : Template) :
    ∀ m ∈ nodesIncludes t.nodes, m ∈ includeCalls (allEvents t) := by
  intro m hm
  have := nodesIncludes_sub_events_aux.2.1 false 0 t.nodes m hm
  unfold allEvents bodyEvents
  simp only [includeCalls, List.filterMap_append, List.mem_append]
  exact Or.inl this

/-- **`accepted_batch_has_include_rank`.**  For a batch the whole-engine model accepts and an
evaluator table tied to its sources by `RefineE2E.SourcesRel` on the names `incs`, with no
template outside `incs`: the include relation of the evaluator's table is acyclic — there is a
rank on template names that strictly decreases along every `{% include %}` of an existing
template.  Any fallback prefixes. -/
theorem accepted_batch_has_include_rank (cfg : Pipeline.Config) (sources : List (String × Tera.Bytes))
    (env : Pipeline.Env) (hadd : Pipeline.addTemplatesT cfg sources = .ok env)
    (eenv : Tera.Env) (incs : List String)
    (hS : RefineE2E.SourcesRel cfg sources env eenv incs)
    (hall : ∀ n, (eenv.template n).isSome = true → n ∈ incs) :
    ∃ rk, IncludeRank eenv rk := by
  obtain ⟨rk, hrk⟩ := Pipeline.accepted_env_include_rank cfg sources env hadd
  refine ⟨rk, ?_⟩
  intro n et hn m hm hmsome
  have hnin : n ∈ incs := hall n (by rw [hn]; rfl)
  have hmin : m ∈ incs := hall m hmsome
  have hreln := hS n hnin
  rw [hn] at hreln
  obtain ⟨tpl, htpl, _, hsrc, _, _⟩ := hreln
  have hrelm := hS m hmin
  obtain ⟨etm, hetm⟩ := Option.isSome_iff_exists.mp hmsome
  rw [hetm] at hrelm
  obtain ⟨tplm, htplm, _⟩ := hrelm
  apply hrk n tpl m tplm htpl htplm
  intro src t hmem hf
  apply nodesIncludes_sub_events t m
  rw [hsrc src t hmem hf]
  exact hm

/-- **`render_terminates_e2e_unconditional`**: `C11Eval.render_terminates_e2e` without the
acyclicity hypothesis.  A batch of sources without `extends`, accepted by `addTemplatesT`, whose
templates are in the checked domain and are the evaluator's table (`SourcesRel`, `hall`): unless
the evaluator answers `unsupported`, there are a step fuel `N` and a nesting fuel `D` from which
the whole-engine model — lexer, whitespace filter, parser, compiler, optimiser, registry, VM —
answers TEXT or a RENDERING ERROR: not fuel exhaustion, not a panic, not `unmodelled`, not an
add-time error.  That includes cannot loop is no longer assumed: it is what the registry's
acceptance (`check_include_cycles`, C11) guarantees. -/
theorem render_terminates_e2e_unconditional (cfg : Pipeline.Config)
    (sources : List (String × Tera.Bytes))
    (env : Pipeline.Env) (hadd : Pipeline.addTemplatesT cfg sources = .ok env)
    (hnoext : ∀ p ∈ sources, ∀ t, Pipeline.front cfg.delims p.2 = .ok t → t.parent = none)
    (eenv : Tera.Env) (hE : EnvRel env eenv) (hB : BuiltinsRel env eenv) (incs : List String)
    (hS : RefineE2E.SourcesRel cfg sources env eenv incs)
    (hall : ∀ n, (eenv.template n).isSome = true → n ∈ incs)
    (name : String) (hname : name ∈ incs)
    (et : TemplateDef) (he : eenv.template name = some et) (ctx : Ctx)
    (hsup : ∀ fuel w, Tera.render fuel eenv name ctx [] ≠ .error (.unsupported w)) :
    ∃ N D, ∀ steps depth, N ≤ steps → D ≤ depth →
      (∃ text, Pipeline.renderSourcesT cfg sources ⟨depth + 1, steps⟩ name ctx = .ok (.ok text))
      ∨ (∃ re, Pipeline.renderSourcesT cfg sources ⟨depth + 1, steps⟩ name ctx = .ok (.err re)) := by
  obtain ⟨rk, hrk⟩ := accepted_batch_has_include_rank cfg sources env hadd eenv incs hS hall
  exact render_terminates_e2e cfg sources env hadd hnoext eenv hE hB incs hS name hname et he rk hrk
    ctx hsup

/-- the evaluator itself, on the table of an accepted batch: `Tera.render` terminates -/
theorem eval_terminates_accepted (cfg : Pipeline.Config) (sources : List (String × Tera.Bytes))
    (env : Pipeline.Env) (hadd : Pipeline.addTemplatesT cfg sources = .ok env)
    (eenv : Tera.Env) (incs : List String)
    (hS : RefineE2E.SourcesRel cfg sources env eenv incs)
    (hall : ∀ n, (eenv.template n).isSome = true → n ∈ incs) (name : String) (ctx g : Ctx) :
    ∃ fuel r, r ≠ .error .fuel ∧ ∀ fuel', fuel ≤ fuel' → Tera.render fuel' eenv name ctx g = r := by
  obtain ⟨rk, hrk⟩ := accepted_batch_has_include_rank cfg sources env hadd eenv incs hS hall
  exact eval_terminates eenv rk hrk name ctx g

end Tera.C11E2E
