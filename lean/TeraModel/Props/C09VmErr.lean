/-
C09VmErr: the run-preservation theorems of Props/C09Vm.lean WITH the error class.

`C09Vm.SameOutcome` relates any rendering error to any rendering error.  Here the two errors are
related by `errClassRel`: EQUAL `RErr`, except that the three "undefined" errors
(`undefinedVariable`, `undefinedField`, `undefinedRender`) form one class — exactly the ones a fused
`LoadPath` / `WritePath` can exchange for those of the `LoadName; LoadAttr*; [WriteTop]` sequence it
replaces (missing root: "Variable `x` is not defined" vs "Field `y` is not defined" / "Tried to
render a variable that is not defined").  Every instruction the optimiser keeps raises the SAME
`RErr` on both sides (`OptimizeSimVm.step_keptG` with any reflexive error relation); only the
fused-group lemmas use the merged class (`OptimizeSimVm.isUndefErr`).

Report target.  In the model an error result `.err e` carries no span: `raise` returns it when the
report target exists (`reportTargetOk`, the chunk's template is registered) and panics otherwise;
`renderingError` / `errorAt` panic when the span is missing.  All three agree on the two sides:
the chunk name is the same (`reportTarget_same`), a span exists at an index of the original chunk
iff one exists at its image (`OptimizeSimVm.Good`, part of the invariant; an error raised at the
span range `r` of a stack slot is raised at `index_map r` on the optimised side,
`OptimizeSimVm.renderingError_map`), so err-vs-panic agrees — that is the `panic/panic` and
`err/err` split of the outcome relation.  That the span found there is the same SOURCE span is
`kept_instruction_spans` below (kept instruction: same span list at the image index) and
`C09.spans_preserved_per_element` (fused: the spans of the group, concatenated in order).
-/
import TeraModel.Props.C09Vm
import TeraModel.Lemmas.RefineInstr
namespace Tera.C09Vm
open Tera Tera.Optimize Tera.OptimizeVWF Tera.OptimizeWF Tera.OptimizeSimVm Tera.ChunkVm

/-- equal errors, the three "undefined" errors being one class -/
def errClassRel (e e' : Vm.RErr) : Prop :=
  e' = e ∨ (isUndefErr e = true ∧ isUndefErr e' = true)

theorem errClassRel_refl (e : Vm.RErr) : errClassRel e e := Or.inl rfl

theorem errClassRel_symm {e e' : Vm.RErr} (h : errClassRel e e') : errClassRel e' e := by
  rcases h with rfl | ⟨h1, h2⟩
  · exact Or.inl rfl
  · exact Or.inr ⟨h2, h1⟩

theorem errClassRel_trans {a b c : Vm.RErr} (h1 : errClassRel a b) (h2 : errClassRel b c) :
    errClassRel a c := by
  rcases h1 with rfl | ⟨ha, hb⟩
  · exact h2
  · rcases h2 with rfl | ⟨_, hc⟩
    · exact Or.inr ⟨ha, hb⟩
    · exact Or.inr ⟨ha, hc⟩

theorem errClassRel_undef {e e' : Vm.RErr} (h1 : isUndefErr e = true) (h2 : isUndefErr e' = true) :
    errClassRel e e' := Or.inr ⟨h1, h2⟩

/-- outside the undefined family the class is the error itself -/
theorem errClassRel_eq {e e' : Vm.RErr} (h : errClassRel e e') (hn : isUndefErr e = false) : e' = e := by
  rcases h with rfl | ⟨h1, _⟩
  · rfl
  · rw [hn] at h1; cases h1

/-- the evaluator's error-matching (`Refine.errMatch`, Lemmas/RefineInstr.lean) does not
distinguish the members of a class -/
theorem errMatch_errClassRel (err : Err) {e e' : Vm.RErr} (h : errClassRel e e') :
    Refine.errMatch err e' = Refine.errMatch err e := by
  rcases h with rfl | ⟨h1, h2⟩
  · rfl
  · cases e <;> simp [isUndefErr] at h1 <;> cases e' <;> simp [isUndefErr] at h2 <;>
      cases err <;> rfl

/-- `SameOutcome` with the error class -/
abbrev SameOutcomeE (c : List Entry) (C C' : Vm.Chunk) : Vm.RunRes → Vm.RunRes → Prop :=
  RunRelG errClassRel idP C C' (imapFn c) (PcRel c)

/-- `NestedOK` with the error class -/
abbrev NestedOKE (c : List Entry) (C C' : Vm.Chunk) (rec rec' : Vm.VmCtx → Vm.Chunk → Vm.State → Vm.RunRes) :
    Prop :=
  RecOKG errClassRel idP rec rec' C C' (imapFn c) (PcRel c)

theorem sameOutcomeE_weaken {c : List Entry} {C C' : Vm.Chunk} {a b : Vm.RunRes}
    (h : SameOutcomeE c C C' a b) : SameOutcome c C C' a b := RunRelG.weaken h

theorem sameOutcomeE_err {c : List Entry} {C C' : Vm.Chunk} {e e' : Vm.RErr}
    (h : SameOutcomeE c C C' (.err e) (.err e')) : errClassRel e e' := h

/-- the report target (`report_target(chunk)`: the chunk's own template) is the same -/
theorem reportTarget_same (env : Vm.Env) (vm : Vm.VmCtx) (name : String) (code code' : List Vm.VEntry) :
    Vm.reportTargetOk env vm ⟨name, code'⟩ = Vm.reportTargetOk env vm ⟨name, code⟩ := rfl

section chunk
variable (dec : Instr → Option Vm.VInstr) (hD : DecOK dec) (c c' : List Entry)
  (code code' : List Vm.VEntry) (name : String)
  (hT : C09.TargetsInRange c) (hS : PathVm.PathSpans c) (hO : OtherNoTarget dec c)
  (hdec : c.mapM (fun e => (dec e.1).map (·, e.2)) = some code)
  (hopt : optimize c = .ok c')
  (hdec' : c'.mapM (fun e => (dec e.1).map (·, e.2)) = some code')
include hD hT hS hO hdec hopt hdec'

/-- `optimize_preserves_runLoop` with the error class -/
theorem optimize_preserves_runLoop_errclass (rec rec' : Vm.VmCtx → Vm.Chunk → Vm.State → Vm.RunRes)
    (hrec : NestedOKE c ⟨name, code⟩ ⟨name, code'⟩ rec rec')
    (env : Vm.Env) (vm : Vm.VmCtx) (st : Vm.State) (hst : GoodState c ⟨name, code⟩ ⟨name, code'⟩ st)
    (n : Nat) (hne : Vm.runLoop rec env vm ⟨name, code⟩ n 0 st ≠ .outOfFuel) :
    SameOutcomeE c ⟨name, code⟩ ⟨name, code'⟩ (Vm.runLoop rec env vm ⟨name, code⟩ n 0 st)
      (Vm.runLoop rec' env vm ⟨name, code'⟩ n 0 (renameState c st)) := by
  have hc' : c' = optCode c := C09.optimize_ok c c' hopt
  subst hc'
  have hd := decoded_of_mapM dec c code hdec
  have hd' := decoded_of_mapM dec _ code' hdec'
  obtain ⟨m, hm, hrr⟩ := sim_forwardG dec hD c hT hS hO ⟨name, code⟩ ⟨name, code'⟩ rfl hd hd' (π := idP)
    errClassRel_refl (fun _ _ => errClassRel_undef) env vm hrec.fresh (fun _ => hrec.blockOK)
    n 0 0 st (PcRel_zero c) hst hne
  rw [mapStateP_id] at hrr
  have hne' : Vm.runLoop rec' env vm ⟨name, code'⟩ m 0 (renameState c st) ≠ .outOfFuel := by
    intro h
    rw [h] at hrr
    revert hrr hne
    cases Vm.runLoop rec env vm ⟨name, code⟩ n 0 st <;> intro hne hrr <;>
      first | exact hrr.elim | exact hne rfl
  rw [runLoop_mono rec' env vm ⟨name, code'⟩ m 0 _ hne' n hm]
  exact hrr

/-- `optimize_reflects_runLoop` with the error class -/
theorem optimize_reflects_runLoop_errclass (rec rec' : Vm.VmCtx → Vm.Chunk → Vm.State → Vm.RunRes)
    (hrec : NestedOKE c ⟨name, code⟩ ⟨name, code'⟩ rec rec')
    (env : Vm.Env) (vm : Vm.VmCtx) (st : Vm.State) (hst : GoodState c ⟨name, code⟩ ⟨name, code'⟩ st)
    (m : Nat) (hne : Vm.runLoop rec' env vm ⟨name, code'⟩ m 0 (renameState c st) ≠ .outOfFuel) :
    ∃ n, SameOutcomeE c ⟨name, code⟩ ⟨name, code'⟩ (Vm.runLoop rec env vm ⟨name, code⟩ n 0 st)
      (Vm.runLoop rec' env vm ⟨name, code'⟩ m 0 (renameState c st)) := by
  have hc' : c' = optCode c := C09.optimize_ok c c' hopt
  subst hc'
  have hd := decoded_of_mapM dec c code hdec
  have hd' := decoded_of_mapM dec _ code' hdec'
  have h := sim_backwardG dec hD c hT hS hO ⟨name, code⟩ ⟨name, code'⟩ rfl hd hd' (π := idP)
    errClassRel_refl (fun _ _ => errClassRel_undef) env vm hrec.fresh (fun _ => hrec.blockOK)
    m 0 0 st (PcRel_zero c) hst (by rw [mapStateP_id]; exact hne)
  rw [mapStateP_id] at h
  exact h

/-- `optimize_preserves_run` with the error class -/
theorem optimize_preserves_run_errclass (fuel : Vm.Fuel) (env : Vm.Env) (vm : Vm.VmCtx) (st : Vm.State)
    (hst : GoodState c ⟨name, code⟩ ⟨name, code'⟩ st)
    (hrec : ∀ d, fuel.depth = d + 1 →
      NestedOKE c ⟨name, code⟩ ⟨name, code'⟩ (Vm.interp env fuel.steps d) (Vm.interp env fuel.steps d))
    (hne : Vm.run fuel env vm ⟨name, code⟩ st ≠ .outOfFuel) :
    SameOutcomeE c ⟨name, code⟩ ⟨name, code'⟩ (Vm.run fuel env vm ⟨name, code⟩ st)
      (Vm.run fuel env vm ⟨name, code'⟩ (renameState c st)) := by
  obtain ⟨depth, steps⟩ := fuel
  cases depth with
  | zero => exact absurd rfl hne
  | succ d =>
    simp only [Vm.run, Vm.interp] at hne ⊢
    exact optimize_preserves_runLoop_errclass dec hD c c' code code' name hT hS hO hdec hopt hdec'
      _ _ (hrec d rfl) env vm st hst steps hne

/-- depth 1: no assumption on nested calls -/
theorem optimize_preserves_run_depth1_errclass (steps : Nat) (env : Vm.Env) (vm : Vm.VmCtx) (st : Vm.State)
    (hst : GoodState c ⟨name, code⟩ ⟨name, code'⟩ st)
    (hne : Vm.run ⟨1, steps⟩ env vm ⟨name, code⟩ st ≠ .outOfFuel) :
    SameOutcomeE c ⟨name, code⟩ ⟨name, code'⟩ (Vm.run ⟨1, steps⟩ env vm ⟨name, code⟩ st)
      (Vm.run ⟨1, steps⟩ env vm ⟨name, code'⟩ (renameState c st)) := by
  apply optimize_preserves_run_errclass dec hD c c' code code' name hT hS hO hdec hopt hdec' ⟨1, steps⟩
    env vm st hst _ hne
  intro d hd
  have : d = 0 := by simp at hd; omega
  subst this
  exact ⟨fun _ _ _ _ => True.intro, fun _ _ _ _ => True.intro⟩

/-- `optimize_preserves_output` with the error class: entry states (empty stack, no open loop), the
SAME start state on both sides; same output text (and capture buffers, block buffer, block stack),
or both a rendering error of the same class, or both a panic, or both outside the model. -/
theorem optimize_preserves_output_errclass (fuel : Vm.Fuel) (env : Vm.Env) (vm : Vm.VmCtx) (st : Vm.State)
    (h1 : st.stack = []) (h2 : st.scope.forLoops = [])
    (hrec : ∀ d, fuel.depth = d + 1 →
      NestedOKE c ⟨name, code⟩ ⟨name, code'⟩ (Vm.interp env fuel.steps d) (Vm.interp env fuel.steps d))
    (hne : Vm.run fuel env vm ⟨name, code⟩ st ≠ .outOfFuel) :
    match Vm.run fuel env vm ⟨name, code⟩ st, Vm.run fuel env vm ⟨name, code'⟩ st with
    | .done a, .done b => b.out = a.out ∧ b.captures = a.captures ∧ b.blockBuffer = a.blockBuffer ∧
        b.blocks = a.blocks
    | .err e, .err e' => errClassRel e e'
    | .panic _, .panic _ => True
    | .unmodelled _, .unmodelled _ => True
    | _, _ => False := by
  obtain ⟨he, hg⟩ := renameState_entry c ⟨name, code⟩ ⟨name, code'⟩ st h1 h2
  have h := optimize_preserves_run_errclass dec hD c c' code code' name hT hS hO hdec hopt hdec' fuel env vm
    st hg hrec hne
  rw [he] at h
  revert h hne
  cases Vm.run fuel env vm ⟨name, code⟩ st <;> cases Vm.run fuel env vm ⟨name, code'⟩ st <;>
    intro hne h <;> first | exact h.elim | exact True.intro | exact absurd rfl hne | skip
  · rename_i a b
    obtain ⟨h1, h2, h3, h4, _, _⟩ := sameOutcome_done c _ _ a b (RunRelG.weaken h)
    exact ⟨h1, h2, h3, h4⟩
  · exact h

omit hS in
/-- The span an error is reported at: an instruction the optimiser keeps (the group at `pc` is the
instruction itself) carries the SAME span list at its image `index_map pc` in the optimised chunk. -/
theorem kept_instruction_spans (pc k : Nat) (g : Group) (hrel : PcRel c pc k)
    (hg : (groups c)[k]? = some g) (hkeep : g.orig = [g.out]) :
    imapFn c pc = k ∧ code'[k]?.map (·.2) = code[pc]?.map (·.2) := by
  have hc' : c' = optCode c := C09.optimize_ok c c' hopt
  subst hc'
  have hd := decoded_of_mapM dec c code hdec
  have hd' := decoded_of_mapM dec _ code' hdec'
  have hlt : pc < c.length := by
    apply Classical.byContradiction
    intro hge
    have hpc : pc = c.length := by have := hrel.2.2; omega
    subst hpc
    have := at_end c k hrel
    rw [this] at hg
    simp at hg
  obtain ⟨g', hg', hdrop, _⟩ := group_at c pc k hrel hlt
  rw [hg] at hg'
  cases hg'
  obtain ⟨vi, h1, h2, _, _, hfk, _⟩ :=
    kept_facts dec hD c hT hO ⟨"", code⟩ ⟨"", code'⟩ hd hd' pc k g hrel hg hdrop hkeep
  have h1' : code[pc]? = some (vi, g.out.2) := h1
  have h2' : code'[k]? = some (vmapTarget (imapFn c) vi, g.out.2) := h2
  exact ⟨hfk, by rw [h1', h2']; rfl⟩

end chunk

end Tera.C09Vm
