/-
C15 — Equality, ordering and map-key lookup are coherent across all value kinds.

Property theorems only.  They are about the model in Model/Order.lean (`impl PartialEq /
PartialOrd / Ord for Value`), Model/KeyModel.lean (`Key` Eq/Ord/Hash) and Model/Lookup.lean
(`get_attr`, `get_item`, `contains`, `get`, `containing`), which harness/src/bin/c15.rs ties to
tera/src/value/{mod,key}.rs on every run; the two `type_order` tables and `ATTR_SCAN_CUTOFF` are
re-extracted from the source by translator/tables/type_order.py.  Helper lemmas:
Lemmas/{OrdLaws,KeyOrder,EVOrder,ValueOrder,SortLemmas,LookupLemmas,MapEq,KeyValue}.lean.  The numeric arms are the exact order of
C13 (`C13_partial_cmp_exact`, `C13_eq_exact`).

`Value.WF` (Lemmas/ValueOrder.lean) is what the Rust types guarantee: every integer payload,
also inside map keys and at any nesting depth, is in the range of its width, and no map holds two
`==` keys.
-/
import TeraModel.Lemmas.KeyValue
namespace Tera.C15
open Tera Tera.Value

/-! ## `==` is an equivalence relation -/

/-- **C15 (`==` is an equivalence).** Reflexive, symmetric and transitive on all well-formed
values: nested arrays and maps of any depth and mix of kinds, every integer width, floats (NaN
equal to itself), safe and normal strings. -/
theorem C15_eq_equivalence (a b c : Value) (ha : a.WF) (hb : b.WF) (hc : c.WF) :
    eqV a a = true ∧ (eqV a b = true → eqV b a = true) ∧
    (eqV a b = true → eqV b c = true → eqV a c = true) :=
  ⟨eqV_refl a ha, eqV_symm ha hb, eqV_trans ha hb hc⟩

/-- **C15 (`==` is structural, exact on numbers, blind to the safe mark).** Arrays are equal iff
they have the same length and equal elements; maps iff they have the same size and every entry
of one is found in the other with an equal value; strings iff their texts are equal whatever
the two safe marks; numbers iff their exact mathematical values are equal; values of different
kinds never. -/
theorem C15_eq_structural :
    (∀ xs ys, eqV (.arr xs) (.arr ys) = true ↔ List.Forall₂ (fun x y => eqV x y = true) xs ys) ∧
    (∀ x y, eqV (.map x) (.map y) = true ↔
      x.length = y.length ∧ ∀ e ∈ x, ∃ v2, Map.get e.1.toRepr y = some v2 ∧ eqV e.2 v2 = true) ∧
    (∀ s1 s2 x y, eqV (.str s1 x) (.str s2 y) = true ↔ x = y) ∧
    (∀ a b, a.WF → b.WF → a.isNumber = true → b.isNumber = true →
      eqV a b = (C13.EV.cmp (C13.ev a) (C13.ev b) == .eq)) ∧
    (∀ a b, a.typeOrder ≠ b.typeOrder → eqV a b = false) := by
  refine ⟨?_, ?_, ?_, fun a b ha hb na nb => eqV_num ha hb na nb, eqV_cross⟩
  · intro xs ys; simp only [eqV]; exact eqList_iff xs ys
  · intro x y; simp only [eqV, Bool.and_eq_true, beq_iff_eq, eqEntries_iff]
  · intro s1 s2 x y; simp [eqV]

/-! ## The ordering used by `sort`, `unique` and (where it answers) `<` is a total order -/

/-- **C15 (total order: totality and antisymmetry).** For all well-formed values of any kinds and
nesting, `cmp` always answers, and swapping the operands reverses the answer: exactly one of
`a < b`, `a ~ b`, `a > b` holds and `b` vs `a` says the mirror image. -/
theorem C15_cmp_total_antisymmetric (a b : Value) (ha : a.WF) (hb : b.WF) :
    Value.cmp b a = (Value.cmp a b).swap :=
  cmp_laws.rev a b ha hb

/-- **C15 (total order: transitivity).** `≤`, `<` and `Equal` under `cmp` are transitive, across
all kinds (the per-kind rank fallback included) and through nested arrays and maps. -/
theorem C15_cmp_transitive (a b c : Value) (ha : a.WF) (hb : b.WF) (hc : c.WF) :
    (Value.cmp a b ≠ .gt → Value.cmp b c ≠ .gt → Value.cmp a c ≠ .gt) ∧
    (Value.cmp a b = .lt → Value.cmp b c = .lt → Value.cmp a c = .lt) ∧
    (Value.cmp a b = .eq → Value.cmp b c = .eq → Value.cmp a c = .eq) :=
  ⟨cmp_laws.le_trans a b c ha hb hc, cmp_laws.lt_trans ha hb hc, cmp_laws.eq_trans ha hb hc⟩

/-- **C15 (order respects its own equivalence).** Values that compare `Equal` are
indistinguishable to `cmp`: they compare identically against every third value (what `BTreeSet`
in `unique` and the stable sort rely on). -/
theorem C15_cmp_congruence (a b c : Value) (ha : a.WF) (hb : b.WF) (hc : c.WF)
    (h : Value.cmp a b = .eq) : Value.cmp a c = Value.cmp b c ∧ Value.cmp c a = Value.cmp c b :=
  ⟨cmp_laws.congr_left ha hb hc h, cmp_laws.congr_right hc ha hb h⟩

/-- **C15 (`<` agrees with the order).** Whenever `partial_cmp` (what `<`, `<=`, `>`, `>=` use)
answers, `cmp` (what `sort` / `unique` use) gives the same answer.  No well-formedness needed. -/
theorem C15_cmp_agrees_partial_cmp (a b : Value) (o : Ordering) (h : partialCmp a b = some o) :
    Value.cmp a b = o :=
  cmp_of_partialCmp h

/-- **C15 (numbers by exact value inside the order).** Two numbers of any integer widths or
floatness are ordered by `cmp` as their exact mathematical values (NaN last, equal to itself). -/
theorem C15_cmp_numbers_exact (a b : Value) (ha : a.WF) (hb : b.WF) (na : a.isNumber = true)
    (nb : b.isNumber = true) : Value.cmp a b = C13.EV.cmp (C13.ev a) (C13.ev b) :=
  cmp_num ha hb na nb

/-- **C15 (structure of the order).** Arrays are ordered lexicographically by `cmp` of their
elements, maps by their key-sorted entry lists; values of different kinds by the kind rank of the
source's `type_order` table. -/
theorem C15_cmp_structure :
    (∀ xs ys, Value.cmp (.arr xs) (.arr ys) = lexCmp Value.cmp xs ys) ∧
    (∀ x y, Value.cmp (.map x) (.map y) = lexCmp entryCmp (sortEntriesK x) (sortEntriesK y)) ∧
    (∀ a b, a.typeOrder ≠ b.typeOrder → Value.cmp a b = cmpNat a.typeOrder b.typeOrder) :=
  ⟨cmp_arr, cmp_map, cmp_cross⟩

/-- **C15 (the order says equal only if `==` does, and conversely).** `cmp a b = Equal ⇔ a == b`
on all well-formed values; the map case compares a lookup-based equality with a sort-and-zip
order and needs the uniqueness of keys. -/
theorem C15_cmp_equal_iff_eq (a b : Value) (ha : a.WF) (hb : b.WF) :
    Value.cmp a b = .eq ↔ eqV a b = true :=
  cmp_eq_iff_eqV a b ha hb

/-! ## Keys: Eq, Ord and Hash agree over all seven representations -/

/-- **C15 (key Eq/Hash coherence).** Equal keys feed the hasher the same bytes, hence land in the
same bucket under every hasher — for every pair of representations (u64/i64/u128/i128 of the
same integer, owned and borrowed strings). -/
theorem C15_key_eq_hash (a b : KeyRepr) (h : KeyRepr.eq a b = true) :
    a.hashInput = b.hashInput :=
  KeyRepr.hash_of_eq a b h

/-- **C15 (key Eq/Ord coherence).** `cmp` says `Equal` exactly when `==` holds. -/
theorem C15_key_cmp_eq_iff (a b : KeyRepr) : KeyRepr.cmp a b = .eq ↔ KeyRepr.eq a b = true :=
  KeyRepr.cmp_eq_iff a b

/-- **C15 (key order).** `Key::Value.cmp` is a total order up to `==`: reversing, transitive. -/
theorem C15_key_total_order (a b c : KeyRepr) :
    KeyRepr.cmp b a = (KeyRepr.cmp a b).swap ∧
    (KeyRepr.cmp a b ≠ .gt → KeyRepr.cmp b c ≠ .gt → KeyRepr.cmp a c ≠ .gt) ∧
    (KeyRepr.cmp a b = .lt → KeyRepr.cmp b c = .lt → KeyRepr.cmp a c = .lt) :=
  ⟨KeyRepr.cmp_laws.rev a b trivial trivial, KeyRepr.cmp_laws.le_trans a b c trivial trivial trivial,
   KeyRepr.cmp_laws.lt_trans trivial trivial trivial⟩

/-- **C15 (key `==` is an equivalence).** -/
theorem C15_key_eq_equivalence (a b c : KeyRepr) :
    KeyRepr.eq a a = true ∧ (KeyRepr.eq a b = true → KeyRepr.eq b a = true) ∧
    (KeyRepr.eq a b = true → KeyRepr.eq b c = true → KeyRepr.eq a c = true) :=
  ⟨KeyRepr.eq_refl a, KeyRepr.eq_symm, KeyRepr.eq_trans⟩

/-- What a key denotes: a boolean, an integer or a text. -/
inductive KeyDen where
  | bool (b : Bool) | int (n : Int) | text (s : List Char)
  deriving DecidableEq

def denote : KeyRepr → KeyDen
  | .bool b => .bool b
  | .u64 n => .int (n : Int)
  | .i64 n => .int n
  | .u128 n => .int (n : Int)
  | .i128 n => .int n
  | .string s => .text s
  | .str s => .text s

/-- **C15 (representation independence of keys).** Two keys are `==` exactly when they denote the
same boolean, the same integer (whatever the two widths) or the same text (owned or borrowed). -/
theorem C15_key_eq_iff_same_denotation (a b : KeyRepr) :
    KeyRepr.eq a b = true ↔ denote a = denote b := by
  cases a <;> cases b <;>
    simp only [KeyRepr.eq, KeyRepr.asStr, KeyRepr.asNumber, beq_iff_eq, KeyNumber.eq_val,
      KeyNumber.val, denote, KeyDen.bool.injEq, KeyDen.int.injEq, KeyDen.text.injEq, reduceCtorEq,
      Bool.false_eq_true]

/-! ## Map lookup -/

/-- **C15 (the hash never changes the answer).** For every hasher, `HashMap::get` returns the
entry whose key is `==` to the probe: Eq/Hash coherence is exactly what makes the reference
`HashMap` lawful. -/
theorem C15_hash_lookup_is_eq_lookup (H : List HashTok → Nat) (q : KeyRepr) (m : List (Key × Value)) :
    Map.hashGet H q m = Map.get q m :=
  Map.hashGet_eq_get H q m

/-- **C15 (scan and hash branches of `get_attr` agree).** Whatever the size of the map (below,
at or above the generated `ATTR_SCAN_CUTOFF`), whatever order the map iterates in and whatever
the hasher, `m.attr` is the entry stored under a string key with that text, as found by
`get(&Key::Str(attr))`. -/
theorem C15_scan_eq_hash_lookup (H : List HashTok → Nat) (m m' : List (Key × Value)) (attr : List Char)
    (nd : NoDupKeys m) (p : m.Perm m') :
    Value.getAttrH H (.map m') attr = Map.get (.str attr) m := by
  simp only [Value.getAttrH, Map.scanAttr_eq_get, Map.hashGet_eq_get, ite_self]
  exact Map.get_perm nd p _

/-- **C15 (all lookup routes read the same entry).** `m[k]`, `k in m`, `m is containing(k)` and
`m | get(key=s)` are all `Map.get` of the key the probe value converts to; a value that is not a
valid key kind is an error for `m[k]` and "absent" for the membership tests. -/
theorem C15_lookup_routes (H : List HashTok → Nat) (m : List (Key × Value)) (v : Value) (s : List Char)
    (d : Option Value) :
    (∀ k, v.asKeyK = some k →
      Value.getItemMap H m v = .ok ((Map.get k.toRepr m).getD .undef) ∧
      Value.containsH H (.map m) v = some (Map.get k.toRepr m).isSome ∧
      Value.isContaining H (.map m) v = .ok (Map.get k.toRepr m).isSome) ∧
    (v.asKeyK = Option.none →
      Value.getItemMap H m v = .badKey ∧ Value.containsH H (.map m) v = some false ∧
      Value.isContaining H (.map m) v = .ok false) ∧
    Value.getFilter H m s d = (match Map.get (.str s) m with | some x => some x | Option.none => d) := by
  refine ⟨?_, ?_, ?_⟩
  · intro k hk
    simp [Value.getItemMap, Value.containsH, Value.isContaining, hk, Map.hashGet_eq_get]
  · intro hk
    simp [Value.getItemMap, Value.containsH, Value.isContaining, hk]
  · simp only [Value.getFilter, Map.hashGet_eq_get]; cases Map.get (.str s) m <;> rfl

/-- **C15 (found exactly when an equal key was inserted).** For a map built by any sequence of
`insert`s, a probe finds the value of the *last* insert whose key is `==` to it, and nothing if
no such insert happened; the map always satisfies the `HashMap` invariant. -/
theorem C15_lookup_iff_inserted (ins : List (Key × Value)) (q : KeyRepr) :
    Map.get q (Map.ofInserts ins) = lastInserted q ins ∧
    ((Map.get q (Map.ofInserts ins)).isSome = true ↔ ∃ e ∈ ins, KeyRepr.eq e.1.toRepr q = true) ∧
    NoDupKeys (Map.ofInserts ins) := by
  refine ⟨Map.get_ofInserts q ins, ?_, Map.ofInserts_noDup ins⟩
  rw [Map.get_ofInserts]; exact lastInserted_isSome q ins

/-- **C15 (whatever the width / ownership of the probe).** Equal probe keys — the same integer in
another width, the same text owned or borrowed — find the same entry; and two probe *values* that
are valid keys find the same entry whenever they are `==` as values. -/
theorem C15_lookup_representation_independent (m : List (Key × Value)) :
    (∀ q q', KeyRepr.eq q q' = true → Map.get q m = Map.get q' m) ∧
    (∀ v v' k k', v.WF → v'.WF → v.asKeyK = some k → v'.asKeyK = some k' → eqV v v' = true →
      Map.get k.toRepr m = Map.get k'.toRepr m) := by
  refine ⟨fun q q' h => Map.get_congr h m, ?_⟩
  intro v v' k k' wv wv' hk hk' he
  exact Map.get_congr ((Value.asKey_eq_iff wv wv' hk hk').1 he) m

/-! Non-vacuity and spot checks (kernel-evaluated on the model). -/
example : KeyRepr.eq (.u64 5) (.i128 5) = true ∧ KeyRepr.eq (.string ['a']) (.str ['a']) = true ∧
    KeyRepr.eq (.bool true) (.u64 1) = false ∧ KeyRepr.eq (.i64 (-1)) (.u128 (2^128 - 1)) = false := by
  decide
/-- the two F7 witnesses: unequal maps, and arrays with incomparable members, are now ordered -/
example : Value.cmp (.map [(.str ['a'], .u64 1)]) (.map [(.str ['a'], .u64 2)]) = .lt := by decide
example : Value.cmp (.arr [.u64 1, .str false ['x']]) (.arr [.u64 1, .u64 2]) = .gt ∧
    Value.cmp (.arr [.u64 1, .u64 2]) (.arr [.u64 1, .u64 3]) = .lt := by decide
example : Map.get (.i128 7) (Map.ofInserts [(.u64 7, Value.str false ['x']), (.i64 7, .none)]) = some .none := by
  rfl
example : Value.getAttrH (fun _ => 0) (.map [(.str ['a'], .u64 1), (.u64 2, .none)]) ['a'] = some (.u64 1) := by
  rfl
example : Value.WF (.map [(.i64 (-3), .arr [.u64 1, .f64 .nan]), (.str ['k'], .none)]) := by
  refine .map _ ?_ ?_ ?_
  · intro e he; simp at he; rcases he with rfl | rfl <;> simp [Key.WF, Key.toRepr, KeyRepr.WF, inI64, I64_MIN, I64_MAX]
  · intro e he; simp at he; rcases he with rfl | rfl
    · refine .arr _ ?_; intro x hx; simp at hx; rcases hx with rfl | rfl
      · exact .u64 _ (by simp [U64_MAX])
      · exact .f64 _
    · exact .none
  · simp [NoDupKeys]; decide

end Tera.C15
