/-
C04 on the REAL VM model — inheritance: blocks resolve to the most-derived override, `super()`
walks up, `render_block`.

Props/C04.lean proves what lineage `finalize_templates` STORES (the definers of a block along the
chain, most-derived first, cut after the first that does not call `super()`; any registration
order).  Here is what the value-level VM of Model/Vm.lean DOES with a stored lineage — `render`
(`VirtualMachine::render_to`, tera/src/vm/interpreter.rs:1005-1031), the `RenderBlock` turn
(559-592), `CallFunction("super")` (472-506) — for EVERY listing, environment, state and fuel
(`cvm` ties Model/Vm.lean to the engine by executing the real stored listings, lineages included).

Property theorems only; helper lemmas: Lemmas/VmBlocks.lean (one lemma per arm of `step`).

The lineage of the VM model is a list of CHUNKS; that of Props/C04.lean a list of template NAMES.
`vm_render_block_most_derived_named` composes the two through the correspondence "the stored
chunks are the named templates' block chunks" (what `vm_env_wire` dumps; a hypothesis here).
Not carried by the VM model: that the text a block writes is the same in a full render and in
`render_block` (the sinks are write-only except for `EndCapture`; harness c04).
-/
import TeraModel.Lemmas.VmBlocks
import TeraModel.Lemmas.VmEscapeSink
import TeraModel.Props.C07Vm
import TeraModel.Props.C04
namespace Tera.C04Vm
open Tera Tera.Vm

/-! ## (1) `render` runs the root ancestor's chunk with the template's own lineage -/

/-- **`vm_render_runs_root`.**  `render` / `render_block` of a registered template whose block is
known: the chunk that runs is the template's own main chunk when it has no parents, else the main
chunk of its ROOT ancestor (`parents.first()`; a missing root is "template not found") — in a VM
that belongs to the TEMPLATE ASKED FOR (`template := tpl`: the `RenderBlock` turns consult `tpl`'s
own block lineage, `vm_render_block_turn`), no autoescape override, depth 0, on the entry state
(empty stacks, the two contexts, `capture_block = block`).  What comes back is the output, or the
block buffer for `render_block`. -/
theorem vm_render_runs_root (fuel : Fuel) (env : Env) (name : String) (block : Option String)
    (ctx globalCtx : Ctx) (tpl : TemplateInfo) (htpl : env.template name = some tpl)
    (hb : lineageMissing tpl block = false) :
    render fuel env name block ctx globalCtx =
      match tpl.parents.head? with
      | none =>
        outcomeOf block (run fuel env { template := tpl, autoescapeOverride := none, depth := 0 }
          tpl.chunk (entryState block ctx globalCtx))
      | some root =>
        match env.template root with
        | none => .err .templateNotFound
        | some rt =>
          outcomeOf block (run fuel env { template := tpl, autoescapeOverride := none, depth := 0 }
            rt.chunk (entryState block ctx globalCtx)) := by
  unfold render entryChunk
  simp only [htpl, hb, Bool.false_eq_true, ↓reduceIte]
  cases tpl.parents.head? with
  | none => rfl
  | some root =>
    simp only
    cases env.template root <;> rfl

/-! ## (2) `RenderBlock` runs the most-derived definition -/

/-- **`vm_render_block_turn`.**  A `RenderBlock(name)` turn of the REAL `step` that continues ran
`interpret` on `lineage[0]` of the VM's template for that name — the most-derived definition as
`finalize_templates` stored it — on the caller's state with `(name, lineage, 0)` pushed on the
block stack and `name` as the current block; afterwards the current block is the caller's again
and the top entry is popped (`leaveBlock`). -/
theorem vm_render_block_turn (rec : VmCtx → Chunk → State → RunRes) (env : Env) (vm : VmCtx)
    (c : Chunk) (n : String) (spans : List Span) (pc pc' : Nat) (st st' : State)
    (h : step rec env vm c (.renderBlock n, spans) pc st = .next pc' st') :
    ∃ first more st2, assoc n vm.template.blockLineage = some (first :: more) ∧
      rec vm first (enterBlock st n (first :: more)) = .done st2 ∧
      st' = leaveBlock st st2 n ∧
      (enterBlock st n (first :: more)).blocks = (n, first :: more, 0) :: st.blocks ∧
      (enterBlock st n (first :: more)).currentBlockName = some n ∧
      (enterBlock st n (first :: more)).stack = st.stack ∧
      (enterBlock st n (first :: more)).scope = st.scope ∧
      st'.currentBlockName = st.currentBlockName ∧ st'.blocks = st2.blocks.tail := by
  obtain ⟨first, more, st2, hl, hr, rfl⟩ := sink_rule (.renderBlock n, spans) h
  refine ⟨first, more, st2, hl, hr, rfl, ?_, ?_, ?_, ?_, ?_, ?_⟩
  all_goals first
    | (unfold enterBlock; simp only; split <;> rfl)
    | (unfold leaveBlock; simp only; split <;> rfl)

/-- **A block the template has no lineage for**: the turn is the error "Block .. has no block
lineage in template .." (class `noLineage`) without consulting `interpret`. -/
theorem vm_render_block_unknown (rec : VmCtx → Chunk → State → RunRes) (env : Env) (vm : VmCtx)
    (c : Chunk) (n : String) (spans : List Span) (pc : Nat) (st : State)
    (h : assoc n vm.template.blockLineage = none ∨ assoc n vm.template.blockLineage = some []) :
    step rec env vm c (.renderBlock n, spans) pc st = .err .noLineage := by
  rcases h with h | h <;> simp only [step, stepRenderBlock, h]

/-- **Composition with Props/C04.lean.**  When the template `T` the VM belongs to defines block
`b` itself (`definesBlock S T b = some _`), and the stored chunks are the block chunks of the
templates Props/C04.lean's specification names (`lineageSpec`, = what `finalize_templates` stores:
`C04_lineage_eq_spec`), a `RenderBlock(b)` turn runs `T`'s OWN definition of `b`
(`C04_most_derived_first`), whatever the ancestors define. -/
theorem vm_render_block_most_derived_named (rec : VmCtx → Chunk → State → RunRes) (env : Env)
    (vm : VmCtx) (c : Chunk) (b : String) (spans : List Span) (pc pc' : Nat) (st st' : State)
    (S : List Reg.Tpl) (T : String) (parents : List String) (s : Bool)
    (chunkOf : String → Option Chunk)
    (hd : Reg.definesBlock S T b = some s)
    (hl : assoc b vm.template.blockLineage
      = (Reg.lineageSpec S (Reg.chainOf T parents) b).bind (fun l => l.mapM chunkOf))
    (h : step rec env vm c (.renderBlock b, spans) pc st = .next pc' st') :
    ∃ own more st2, chunkOf T = some own ∧
      rec vm own (enterBlock st b (own :: more)) = .done st2 ∧ st' = leaveBlock st st2 b := by
  obtain ⟨first, more, st2, hlin, hr, hst, _⟩ := vm_render_block_turn rec env vm c b spans pc pc' st st' h
  obtain ⟨rest, hspec⟩ := C04.C04_most_derived_first S T parents b s hd
  rw [hspec, hlin] at hl
  simp only [Option.bind_some, List.mapM_cons] at hl
  cases hT : chunkOf T with
  | none => rw [hT] at hl; simp at hl
  | some own =>
    rw [hT] at hl
    cases hrest : rest.mapM chunkOf with
    | none => rw [hrest] at hl; simp at hl
    | some tl =>
      rw [hrest] at hl
      simp only [Option.bind_eq_bind, Option.bind_some, Option.pure_def, Option.some.injEq,
        List.cons.injEq] at hl
      obtain ⟨rfl, rfl⟩ := hl
      exact ⟨first, more, st2, rfl, hr, hst⟩

/-- **The block stack is a stack.**  Every successful `interpret` — every listing, state and
fuel; blocks nested in blocks, `super()` chains, includes, components — leaves the block stack
(names, lineages AND levels), the current block and the capture-block request exactly as it found
them: `RenderBlock` pops what it pushed, `super()` restores the level it raised. -/
theorem vm_blocks_restored (fuel : Fuel) (env : Env) (vm : VmCtx) (c : Chunk) (st st' : State)
    (h : run fuel env vm c st = .done st') :
    st'.blocks = st.blocks ∧ st'.currentBlockName = st.currentBlockName ∧
    st'.captureBlock = st.captureBlock :=
  interp_blocks env fuel.steps fuel.depth vm c st st' h

/-- … and so does every turn of the loop in between: at every point a chunk's loop passes through,
the block stack is the one the chunk was entered with. -/
theorem vm_blocks_at_every_point (env : Env) (steps depth : Nat) (vm : VmCtx) (c : Chunk)
    (a b : Nat × State) (hreach : Reach (interp env steps depth) env vm c a b) :
    b.2.blocks = a.2.blocks ∧ b.2.currentBlockName = a.2.currentBlockName ∧
    b.2.captureBlock = a.2.captureBlock := by
  induction hreach with
  | refl a => exact ⟨rfl, rfl, rfl⟩
  | step e _ hs _ ih =>
    exact (step_blocks (interp_blocks env steps depth) e hs).trans ih

/-! ## (3) `super()` walks up -/

/-- the state `super()` works on once the kwargs are popped -/
def afterKwargs (st : State) (rest : List Slot) : State := { st with stack := rest }

/-- `stepSuper` on a state whose current block's entry is on top of the block stack -/
theorem super_shape (rec : VmCtx → Chunk → State → RunRes) (env : Env) (vm : VmCtx) (c : Chunk)
    (pc pc' : Nat) (s st' : State) (cur : String) (lineage : List Chunk) (k : Nat)
    (bs : List (String × List Chunk × Nat))
    (hcur : s.currentBlockName = some cur) (hblocks : s.blocks = (cur, lineage, k) :: bs)
    (h : stepSuper rec env vm c pc s = .next pc' st') :
    ∃ parentChunk st2, lineage[k + 1]? = some parentChunk ∧
      rec vm parentChunk (enterSuper s ((cur, lineage, k + 1) :: bs)) = .done st2 ∧
      st'.stack = (.str true st2.out, (pc, pc)) :: st2.stack ∧
      st'.captures = s.captures ∧ st'.out = s.out ∧ pc' = pc + 1 ∧
      (st2.blocks = (cur, lineage, k + 1) :: bs → st'.blocks = s.blocks) := by
  have hpos : blockPos ((cur, lineage, k) :: bs) cur = some bs.length := by
    simp [blockPos, List.findIdx?_cons]
  have hset : ∀ l, setLevel ((cur, lineage, k) :: bs) bs.length l = some ((cur, lineage, l) :: bs) := by
    intro l; simp [setLevel]
  have hset' : ∀ l, setLevel ((cur, lineage, k + 1) :: bs) bs.length l = some ((cur, lineage, l) :: bs) := by
    intro l; simp [setLevel]
  simp only [stepSuper, hcur, hblocks, hpos, List.length_cons, Nat.add_sub_cancel, Nat.sub_self,
    List.getElem?_cons_zero, hset] at h
  cases hp : lineage[k + 1]? with
  | none => rw [hp] at h; simp at h
  | some parentChunk =>
    rw [hp] at h
    simp only at h
    cases hr : rec vm parentChunk (enterSuper s ((cur, lineage, k + 1) :: bs)) with
    | done st2 =>
      rw [hr] at h
      simp only at h
      cases hb3 : setLevel st2.blocks bs.length k with
      | none => rw [hb3] at h; simp at h
      | some blocks3 =>
        rw [hb3] at h
        simp only [StepRes.next.injEq] at h
        obtain ⟨h1, rfl⟩ := h
        refine ⟨parentChunk, st2, rfl, hr, rfl, rfl, rfl, h1.symm, ?_⟩
        intro h2
        rw [h2, hset'] at hb3
        simp only [Option.some.injEq] at hb3
        simp only [leaveSuper, hblocks, ← hb3]
    | err e => rw [hr] at h; simp at h
    | panic s => rw [hr] at h; simp at h
    | unmodelled w => rw [hr] at h; simp at h
    | outOfFuel => rw [hr] at h; simp at h

/-- **`vm_super_walks_up`.**  `CallFunction("super")` in the block `cur` whose entry — on top of
the block stack, where `RenderBlock` / the enclosing `super()` put it — is at level `k`: a turn
that continues ran `interpret` on `lineage[k + 1]` (the same block in the nearest ancestor that
defines it: `C04_lineage_super_links`) with the entry at level `k + 1` and the capture buffers and
output set aside; it pushes what that chunk wrote, minted Safe, leaves the caller's capture buffers
and output as they were, and — when the nested `interpret` keeps the block stack
(`vm_blocks_restored`) — the entry is back at level `k`. -/
theorem vm_super_walks_up (rec : VmCtx → Chunk → State → RunRes) (env : Env) (vm : VmCtx) (c : Chunk)
    (spans : List Span) (pc pc' : Nat) (st st' : State) (kw : Value) (ks : SpanRange)
    (rest : List Slot) (cur : String) (lineage : List Chunk) (k : Nat)
    (bs : List (String × List Chunk × Nat))
    (hs : st.stack = (kw, ks) :: rest) (hcur : st.currentBlockName = some cur)
    (hblocks : st.blocks = (cur, lineage, k) :: bs)
    (h : step rec env vm c (.callFunction "super", spans) pc st = .next pc' st') :
    ∃ parentChunk st2, lineage[k + 1]? = some parentChunk ∧
      rec vm parentChunk (enterSuper (afterKwargs st rest) ((cur, lineage, k + 1) :: bs)) = .done st2 ∧
      (enterSuper (afterKwargs st rest) ((cur, lineage, k + 1) :: bs)).captures = [] ∧
      (enterSuper (afterKwargs st rest) ((cur, lineage, k + 1) :: bs)).out = [] ∧
      (enterSuper (afterKwargs st rest) ((cur, lineage, k + 1) :: bs)).currentBlockName = some cur ∧
      (enterSuper (afterKwargs st rest) ((cur, lineage, k + 1) :: bs)).blocks = (cur, lineage, k + 1) :: bs ∧
      st'.stack = (.str true st2.out, (pc, pc)) :: st2.stack ∧
      st'.captures = st.captures ∧ st'.out = st.out ∧ pc' = pc + 1 ∧
      (st2.blocks = (cur, lineage, k + 1) :: bs → st'.blocks = st.blocks) := by
  have h' : stepSuper rec env vm c pc (afterKwargs st rest) = .next pc' st' := by
    simp only [step, stepCallFunction, hs, ↓reduceIte] at h
    exact h
  obtain ⟨p, st2, h1, h2, h3, h4, h5, h6, h7⟩ :=
    super_shape rec env vm c pc pc' (afterKwargs st rest) st' cur lineage k bs hcur hblocks h'
  exact ⟨p, st2, h1, h2, rfl, rfl, hcur, rfl, h3, h4, h5, h6, h7⟩

/-- **`super()` at the top of the lineage** (no ancestor left that defines the block: the last
definer of a stored lineage does not call `super()`, `C04_lineage_super_links` — so this is reached
only by a listing that calls it anyway): the rendering error "Tried to use super() in the top
level block" (class `superTopLevel`), without consulting `interpret`. -/
theorem vm_super_at_top (rec : VmCtx → Chunk → State → RunRes) (env : Env) (vm : VmCtx) (c : Chunk)
    (spans : List Span) (pc : Nat) (st : State) (kw : Value) (ks : SpanRange)
    (rest : List Slot) (cur : String) (lineage : List Chunk) (k : Nat)
    (bs : List (String × List Chunk × Nat))
    (hs : st.stack = (kw, ks) :: rest) (hcur : st.currentBlockName = some cur)
    (hblocks : st.blocks = (cur, lineage, k) :: bs) (htop : lineage[k + 1]? = none) :
    step rec env vm c (.callFunction "super", spans) pc st
      = renderingError env vm c (pc, pc) .superTopLevel := by
  have hpos : blockPos ((cur, lineage, k) :: bs) cur = some bs.length := by
    simp [blockPos, List.findIdx?_cons]
  have hc' : (afterKwargs st rest).currentBlockName = some cur := hcur
  have hb' : (afterKwargs st rest).blocks = (cur, lineage, k) :: bs := hblocks
  have : stepSuper rec env vm c pc (afterKwargs st rest)
      = renderingError env vm c (pc, pc) .superTopLevel := by
    simp only [stepSuper, hc', hb', hpos, List.length_cons, Nat.add_sub_cancel, Nat.sub_self,
      List.getElem?_cons_zero, htop]
  simp only [step, stepCallFunction, hs, ↓reduceIte]
  exact this

/-- **`super()` outside any block**: the rendering error "super() called outside of a block". -/
theorem vm_super_outside_block (rec : VmCtx → Chunk → State → RunRes) (env : Env) (vm : VmCtx)
    (c : Chunk) (spans : List Span) (pc : Nat) (st : State) (kw : Value) (ks : SpanRange)
    (rest : List Slot) (hs : st.stack = (kw, ks) :: rest) (hcur : st.currentBlockName = none) :
    step rec env vm c (.callFunction "super", spans) pc st
      = renderingError env vm c (pc, pc) .superOutsideBlock := by
  have hc' : (afterKwargs st rest).currentBlockName = none := hcur
  have : stepSuper rec env vm c pc (afterKwargs st rest)
      = renderingError env vm c (pc, pc) .superOutsideBlock := by
    simp only [stepSuper, hc']
  simp only [step, stepCallFunction, hs, ↓reduceIte]
  exact this

/-- **The chain is walked in order, one level per `super()`.**  The chunk `RenderBlock` enters
(`lineage[0]`) starts with the entry on top of the block stack at level 0; the chunk a `super()`
at level `k` enters (`lineage[k + 1]`) starts with it at level `k + 1`; and at every point the
loop of either chunk passes through, the block stack and the current block are still those it
started with (`vm_blocks_at_every_point`) — so the `super()` turns of `lineage[j]` are at level
`j`, and nested `super()` calls visit `lineage[0], lineage[1], …` in order, each level entered
only from the one below it. -/
theorem vm_super_chain_levels (env : Env) (steps depth : Nat) (vm : VmCtx) (c : Chunk)
    (st0 : State) (cur : String) (lineage : List Chunk) (j : Nat) (bs : List (String × List Chunk × Nat))
    (h0 : st0.blocks = (cur, lineage, j) :: bs) (hc0 : st0.currentBlockName = some cur)
    (pc : Nat) (st : State) (hreach : Reach (interp env steps depth) env vm c (0, st0) (pc, st)) :
    st.blocks = (cur, lineage, j) :: bs ∧ st.currentBlockName = some cur := by
  obtain ⟨hb, hc, _⟩ := vm_blocks_at_every_point env steps depth vm c _ _ hreach
  exact ⟨hb.trans h0, hc.trans hc0⟩

/-! ## (4) `render_block` -/

/-- **`render_block` of a block the template has no lineage for** is "Block .. not found in
template ..", before anything runs. -/
theorem vm_render_block_api_unknown (fuel : Fuel) (env : Env) (name b : String) (ctx globalCtx : Ctx)
    (tpl : TemplateInfo) (htpl : env.template name = some tpl)
    (hb : assoc b tpl.blockLineage = none) :
    render fuel env name (some b) ctx globalCtx = .err .blockNotFound := by
  unfold render
  simp [htpl, lineageMissing, hb]

/-- **`vm_render_block_api`: the capture.**  The whole template is interpreted with
`capture_block = b`; the `RenderBlock(b)` turn runs the template's OWN lineage for `b`
(`vm_render_block_turn`, in the VM of the template asked for: `vm_render_runs_root`) with the
caller's capture buffers and output SET ASIDE (both empty for the nested `interpret` — the block's
text does not depend on whether the block sits inside a `{% set %}` / filter section of the main
chunk), stores exactly what that `interpret` wrote as the block buffer, and puts the caller's
capture buffers and output back untouched; `render_block` returns the block buffer of the final
state (`vm_render_runs_root`).  Any other block writes into the caller's sinks as usual. -/
theorem vm_render_block_api (rec : VmCtx → Chunk → State → RunRes) (env : Env) (vm : VmCtx)
    (c : Chunk) (n : String) (spans : List Span) (pc pc' : Nat) (st st' : State)
    (h : step rec env vm c (.renderBlock n, spans) pc st = .next pc' st') :
    ∃ first more st2, assoc n vm.template.blockLineage = some (first :: more) ∧
      rec vm first (enterBlock st n (first :: more)) = .done st2 ∧
      (st.captureBlock = some n →
        (enterBlock st n (first :: more)).captures = [] ∧ (enterBlock st n (first :: more)).out = [] ∧
        st'.blockBuffer = st2.out ∧ st'.captures = st.captures ∧ st'.out = st.out) ∧
      (st.captureBlock ≠ some n →
        (enterBlock st n (first :: more)).captures = st.captures ∧
        (enterBlock st n (first :: more)).out = st.out ∧
        st'.blockBuffer = st2.blockBuffer ∧ st'.captures = st2.captures ∧ st'.out = st2.out) := by
  obtain ⟨first, more, st2, hl, hr, rfl⟩ := sink_rule (.renderBlock n, spans) h
  refine ⟨first, more, st2, hl, hr, ?_, ?_⟩
  · intro hc
    have : (st.captureBlock == some n) = true := by simp [hc]
    simp [enterBlock, leaveBlock, this]
  · intro hc
    have : (st.captureBlock == some n) = false := by simpa using hc
    simp [enterBlock, leaveBlock, this]

/-- the entry state of `render_block`: the request is recorded, the block buffer is empty -/
theorem vm_render_block_entry (b : String) (ctx globalCtx : Ctx) :
    (entryState (some b) ctx globalCtx).captureBlock = some b ∧
    (entryState (some b) ctx globalCtx).blockBuffer = [] ∧
    (entryState (some b) ctx globalCtx).blocks = [] ∧
    (entryState (some b) ctx globalCtx).currentBlockName = none :=
  ⟨rfl, rfl, rfl, rfl⟩

/-! ## (5) The caller's stacks are untouched -/

/-- **Blocks nested in blocks, inside `for` loops, inside captures.**  On checked listings
(`C07Vm.vm_stacks_restored`: `EnvOK`, `Good` for the block's chunk on the entered state) a
`RenderBlock` turn whose nested `interpret` returns leaves the caller's value stack identical, the
loop stack with the same `end_ip`s, as many capture buffers as before, and (unconditionally:
`vm_blocks_restored`) the block stack and current block exactly as they were. -/
theorem vm_block_stacks_untouched (env : Env) (hE : EnvOK env) (fuel : Fuel) (vm : VmCtx)
    (n : String) (first : Chunk) (more : List Chunk) (st st2 : State)
    (hg : Good env vm first (enterBlock st n (first :: more)))
    (hr : run fuel env vm first (enterBlock st n (first :: more)) = .done st2) :
    (leaveBlock st st2 n).stack = st.stack ∧
    (leaveBlock st st2 n).scope.forLoops.map (·.endIp) = st.scope.forLoops.map (·.endIp) ∧
    (leaveBlock st st2 n).captures.length = st.captures.length ∧
    (leaveBlock st st2 n).blocks = st.blocks ∧
    (leaveBlock st st2 n).currentBlockName = st.currentBlockName := by
  obtain ⟨h1, h2, h3, _, _⟩ := C07Vm.vm_stacks_restored env hE fuel vm first _ st2 hg hr
  obtain ⟨hb, _, _⟩ := vm_blocks_restored fuel env vm first _ st2 hr
  by_cases hc : (st.captureBlock == some n) = true
  · simp only [enterBlock, hc, ↓reduceIte] at h1 h2 h3 hb
    simp only [leaveBlock, hc, ↓reduceIte]
    refine ⟨h1, h2, ?_, ?_, ?_⟩ <;> first | trivial | rfl | (rw [hb]; rfl)
  · have hc' : (st.captureBlock == some n) = false := by simpa using hc
    simp only [enterBlock, hc', Bool.false_eq_true, ↓reduceIte] at h1 h2 h3 hb
    simp only [leaveBlock, hc', Bool.false_eq_true, ↓reduceIte]
    refine ⟨h1, h2, h3, ?_, ?_⟩ <;> first | trivial | rfl | (rw [hb]; rfl)

/-! ## The statements bite (kernel-evaluated on Model/Vm.lean) -/

def exOps : FloatOps :=
  { add := fun a _ => a, sub := fun a _ => a, mul := fun a _ => a, div := fun a _ => a,
    remEuclid := fun a _ => a, divEuclid := fun a _ => a, powf := fun a _ => a, neg := fun a => a }

/-- base: `[{% block x %}B{% endblock %}]` -/
def exBaseMain : Chunk :=
  { name := "base", code := [(.writeText "[".toList, []), (.renderBlock "x", ["s"]), (.writeText "]".toList, [])] }
def exBaseX : Chunk := { name := "base", code := [(.writeText "B".toList, [])] }
/-- mid: `{% block x %}M({{ super() }}){% endblock %}` -/
def exMidX : Chunk :=
  { name := "mid", code := [(.writeText "M(".toList, []), (.buildMap 0, []), (.callFunction "super", ["s"]),
                             (.writeTop, []), (.writeText ")".toList, [])] }
/-- leaf: `{% block x %}L({{ super() }}){% endblock %}` -/
def exLeafX : Chunk :=
  { name := "leaf", code := [(.writeText "L(".toList, []), (.buildMap 0, []), (.callFunction "super", ["s"]),
                              (.writeTop, []), (.writeText ")".toList, [])] }

def exTpl (name : String) (main : Chunk) (parents : List String) (lin : List Chunk) : TemplateInfo :=
  { name := name, chunk := main, autoescape := true, parents := parents,
    blockLineage := [("x", lin)], components := [] }

def exEnv : Env :=
  { templates := [("base", exTpl "base" exBaseMain [] [exBaseX]),
                  ("mid", exTpl "mid" { name := "mid", code := [] } ["base"] [exMidX, exBaseX]),
                  ("leaf", exTpl "leaf" { name := "leaf", code := [] } ["base", "mid"] [exLeafX, exMidX, exBaseX]),
                  -- a lineage whose last definer calls `super()` anyway
                  ("bad", exTpl "bad" { name := "bad", code := [] } ["base"] [exMidX])],
    components := [],
    hasFilter := fun _ => false, hasTest := fun _ => false, hasFunction := fun _ => false,
    callFilter := fun _ _ _ => .err, filterIsSafe := fun _ => false,
    callTest := fun _ _ _ => .err, callFunction := fun _ _ => .err, functionIsSafe := fun _ => false,
    F := exOps, fmtF64 := fun _ => [] }

/-- the leaf renders the ROOT's body with the most-derived `x`, `super()` walking mid then base -/
example : (match render ⟨6, 100⟩ exEnv "leaf" none [] [] with
    | .ok text => text == "[L(M(B))]".toList
    | _ => false) = true := by decide +kernel

/-- each template of the chain sees its own lineage -/
example : (match render ⟨6, 100⟩ exEnv "mid" none [] [], render ⟨6, 100⟩ exEnv "base" none [] [] with
    | .ok a, .ok b => a == "[M(B)]".toList && b == "[B]".toList
    | _, _ => false) = true := by decide +kernel

/-- `render_block` returns exactly the block's text, without the root's brackets -/
example : (match render ⟨6, 100⟩ exEnv "leaf" (some "x") [] [] with
    | .ok text => text == "L(M(B))".toList
    | _ => false) = true := by decide +kernel

/-- an unknown block is "not found"; `super()` past the top of the lineage is the rendering error -/
example : (match render ⟨6, 100⟩ exEnv "leaf" (some "y") [] [], render ⟨6, 100⟩ exEnv "bad" none [] [] with
    | .err .blockNotFound, .err .superTopLevel => true
    | _, _ => false) = true := by decide +kernel

end Tera.C04Vm
