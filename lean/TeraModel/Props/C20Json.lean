/-
C20 (JSON clause) — `json_encode` is lossless: reading the text that the compact serde_json writer
produces for a `tera::Value` gives back the canonical JSON image of the value.

Writer: `jsonWrite` (Model/Contrib.lean, tied to tera-contrib/src/json.rs by the correspondence
run of harness/src/bin/c20.rs). Reader: `jsonRead` (Model/ContribJsonRead.lean), a plain
recursive-descent RFC 8259 reader written for this statement. The float printer `fmtF` and the
float reader `parseF` are parameters; what is assumed of the pair is `FloatText` (the printed text
of a finite float is a non-empty token over `-+0123456789.eE` containing `.`, `e` or `E`, and the
reader maps it back to the same float). Non-finite floats are written as `null` and `canon` maps
them to `Json.null`, so nothing is assumed about them.
-/
import TeraModel.Model.ContribJsonRead
import TeraModel.Lemmas.ContribJson
namespace Tera.Props.C20Json
open Tera Tera.Contrib

/-- **Round trip.** For every value (all 12 kinds, arbitrary nesting, strings with every escape,
integers of every width and sign, bytes, arrays, maps with bool / integer / string keys): reading
the written text consumes it entirely and yields the canonical JSON image. -/
theorem json_roundtrip (fmtF : F64 → List Char) (parseF : List Char → Option F64)
    (h : FloatText fmtF parseF) (v : Value) :
    jsonRead parseF (jsonWrite fmtF v) = some (canon v) := by
  have := (good_value h v).2 ((jsonWrite fmtF v).length + 1) [] (by omega) trivial
  simp only [List.append_nil] at this
  simp [jsonRead, this]

/-- The same in context, and independent of the recursion fuel: in front of any continuation
`rest` that does not start with a number character, with any fuel of at least the length of the
written text, the reader returns the canonical image and leaves exactly `rest`. -/
theorem json_roundtrip_prefix (fmtF : F64 → List Char) (parseF : List Char → Option F64)
    (h : FloatText fmtF parseF) (v : Value) (rest : List Char) (fuel : Nat)
    (hrest : ∀ c r, rest = c :: r → isNumChar c = false)
    (hfuel : (jsonWrite fmtF v).length ≤ fuel) :
    readValue parseF fuel (jsonWrite fmtF v ++ rest) = some (canon v, rest) := by
  refine (good_value h v).2 fuel rest hfuel ?_
  cases rest with
  | nil => trivial
  | cons c r => exact hrest c r rfl

/-- Consequence: the writer loses nothing but what `canon` forgets (values with the same text
have the same canonical image). -/
theorem json_write_injective (fmtF : F64 → List Char) (parseF : List Char → Option F64)
    (h : FloatText fmtF parseF) (v w : Value) (e : jsonWrite fmtF v = jsonWrite fmtF w) :
    canon v = canon w := by
  have hv := json_roundtrip fmtF parseF h v
  rw [e, json_roundtrip fmtF parseF h w] at hv
  exact (Option.some.inj hv).symm

/-- The reader is a total function of the text alone: the recursion fuel that `jsonRead` picks is
never the reason for a rejection. A text is accepted exactly when the descent accepts it, consuming
all of it, with some fuel. -/
theorem jsonRead_fuel_adequate (parseF : List Char → Option F64) (text : List Char) (j : Json) :
    jsonRead parseF text = some j ↔ ∃ fuel, readValue parseF fuel text = some (j, []) :=
  ⟨fun h => ⟨_, readValue_of_jsonRead h⟩, fun ⟨_, h⟩ => jsonRead_of_readValue h⟩

/-! ## the assumptions on the float texts are satisfiable -/

/-- a toy printer (`sign mantissa e exponent`, binary exponent) with its reader meets `FloatText` -/
example : ∃ fmtF parseF, FloatText fmtF parseF := ⟨toyFmtF, toyParseF, toy_floatText⟩

/-- so the round trip holds unconditionally for that pair, floats included -/
example (v : Value) : jsonRead toyParseF (jsonWrite toyFmtF v) = some (canon v) :=
  json_roundtrip toyFmtF toyParseF toy_floatText v

/-! ## spot checks (the reader is not vacuous) -/

/-- `{"a":[1,-2,"x\n"],"1":null}` -/
example : jsonRead (fun _ => none)
    ['{', '"', 'a', '"', ':', '[', '1', ',', '-', '2', ',', '"', 'x', '\\', 'n', '"', ']', ',',
     '"', '1', '"', ':', 'n', 'u', 'l', 'l', '}']
    = some (.obj [(['a'], .arr [.int 1, .int (-2), .str ['x', '\n']]), (['1'], .null)]) := by rfl

/-- `[[],{},[{}],"éA\/",true,false]` -/
example : jsonRead (fun _ => none)
    ['[', '[', ']', ',', '{', '}', ',', '[', '{', '}', ']', ',',
     '"', '\\', 'u', '0', '0', 'e', '9', '\\', 'u', '0', '0', '4', '1', '\\', '/', '"', ',',
     't', 'r', 'u', 'e', ',', 'f', 'a', 'l', 's', 'e', ']']
    = some (.arr [.arr [], .obj [], .arr [.obj []], .str ['é', 'A', '/'], .bool true,
        .bool false]) := by rfl

/-- a float token goes to `parseF`: `[1.5,-0]` -/
example : jsonRead (fun t => if t = ['1', '.', '5'] then some (.fin false 3 (-1)) else none)
    ['[', '1', '.', '5', ',', '-', '0', ']']
    = some (.arr [.float (.fin false 3 (-1)), .int 0]) := by rfl

/-- malformed texts are rejected: trailing comma, trailing text, lone surrogate, raw control
character, unknown escape, missing colon -/
example : jsonRead (fun _ => none) ['[', '1', ',', ']'] = none := by rfl
example : jsonRead (fun _ => none) ['1', ' '] = none := by rfl
example : jsonRead (fun _ => none) ['"', '\\', 'u', 'd', '8', '0', '0', '"'] = none := by rfl
example : jsonRead (fun _ => none) ['"', '\n', '"'] = none := by rfl
example : jsonRead (fun _ => none) ['"', '\\', 'x', '"'] = none := by rfl
example : jsonRead (fun _ => none) ['{', '"', 'a', '"', '1', '}'] = none := by rfl

/-- one concrete write-then-read, computed: a map with an integer and a bool key, a float, a string
with a quote, a newline and a C0 control (written as `\u0001`), and bytes -/
example :
    let fmtF : F64 → List Char := fun _ => ['1', '.', '5']
    let parseF : List Char → Option F64 := fun _ => some (.fin false 3 (-1))
    let v : Value := .map [(.i64 (-3), .arr [.f64 (.fin false 3 (-1)),
      .str false ['a', '\n', '"', Char.ofNat 1]]), (.bool true, .bytes [1, 255])]
    jsonRead parseF (jsonWrite fmtF v)
      = some (.obj [(['-', '3'], .arr [.float (.fin false 3 (-1)),
          .str ['a', '\n', '"', Char.ofNat 1]]),
        (['t', 'r', 'u', 'e'], .arr [.int 1, .int 255])]) := by rfl

end Tera.Props.C20Json
