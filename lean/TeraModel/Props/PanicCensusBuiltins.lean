/-
C07 (with C13 / C14 / C16 / C17 / C19) — the audit of the SYNTACTIC panic sites of the rest of the
crate: values and built-ins, i.e. tera/src/value/{mod,key,number,ser,de,utils}.rs, args.rs,
filters.rs, functions.rs, tests.rs, globbing.rs, lib.rs  (key.rs, de.rs, utils.rs, args.rs,
functions.rs, lib.rs have no site).

In the whole-engine theorem (`Tera.Pipeline.engine_never_panics_T`) the built-ins are a PARAMETER
(`BuiltinsNoPanic`), discharged for the Lean-side instance; what ties that instance to this code
are the models of C13 / C14 / C16 / C17 with their own explicit panic outcomes.  This file is the
same bookkeeping as Props/PanicCensusAdd.lean / PanicCensusRender.lean for that code:
`Generated.panicCensusBuiltins` is extracted from /repo's current source on every check run,
`accountBuiltins` is the hand-made account, `census_builtins_accounted` proves every key
(file, kind, text) — `unwrap` / `expect` being one kind keyed by the receiver — is counted by the
census, over the whole file, at most as often as the account has rows for it (`coversF`).

With the three lists every `.rs` file of tera/src except `verif_hooks.rs` and `snapshot_tests/` is
read by the extractor (a source file that is in none of its lists — a file added later — is read
with THIS list, so its panic sites show up here as unaccounted entries).  tera-contrib is NOT read.
-/
import TeraModel.Generated.PanicCensus
import TeraModel.Model.PanicAccount
namespace Tera.PanicCensus

def T_BUILTINS : String :=
  "Tera.C17.builtins_never_panic (hypothesis `v.scalarWF`: the payload is in the range of its kind, which \
   the Rust types guarantee)"

/-- `match val.kind()` arms: the accessor is `Some` on exactly that variant -/
def WHY_KIND (arm accessor : String) : String :=
  "inside the arm `ValueKind::" ++ arm ++ "` of `match val.kind()`; `Value::kind` (value/mod.rs:428) and `"
  ++ accessor ++ "` both `match &self.inner`, and `" ++ accessor ++ "` is `Some` on that variant"

def accountBuiltins : List Row := [
  /- ───────────── filters.rs ───────────── -/
  -- filters.rs:406
  (("filters.rs", "abs", "unwrap", "val.as_f64()", 1), .guarded (WHY_KIND "F64" "as_f64")),
  -- filters.rs:410, 417
  (("filters.rs", "abs", "unwrap", "val.as_i128()", 2),
   .modelled "Model/Builtins.lean `fAbs`: \"filters.rs:410\", \"filters.rs:417\"" T_BUILTINS),
  -- filters.rs:118.  Not a panic site: undefined behaviour if wrong.
  (("filters.rs", "escape", "unsafe_block", "{ String::from_utf8_unchecked(buf) }", 1),
   .modelled "Model/Escape.lean `escapeHtml` over the byte table the translator extracts from utils.rs \
     (Generated/EscapeTable.lean); `val: &str` is valid UTF-8"
     "Tera.C01.escape_html_preserves_utf8 (default build; with the `fast_escape` feature the bytes come from \
      the dependency pulldown-cmark-escape: trusted)"),
  -- filters.rs:116
  (("filters.rs", "escape", "unwrap", "escape_html(val,&mutbuf)", 1),
   .guarded "`escape_html` (utils.rs:108-130) returns only errors of the writer it is given (`?` on `write_all`), \
     and the writer is a `Vec<u8>`, whose `io::Write` never fails"),
  -- filters.rs:357
  (("filters.rs", "float", "unwrap", "val.as_str()", 1), .guarded (WHY_KIND "String" "as_str")),
  -- filters.rs:344
  (("filters.rs", "int", "unwrap", "val.as_f64()", 1), .guarded (WHY_KIND "F64" "as_f64")),
  -- filters.rs:331, 335, 339
  (("filters.rs", "int", "unwrap", "val.as_i128()", 3),
   .modelled "Model/Builtins.lean `fInt`: \"filters.rs:331\", \"filters.rs:335\", \"filters.rs:339\"" T_BUILTINS),
  -- filters.rs:305
  (("filters.rs", "int", "unwrap", "val.as_str()", 1), .guarded (WHY_KIND "String" "as_str")),
  -- filters.rs:217, 214
  (("filters.rs", "title", "unwrap", "write!(res,\"{}\",c.to_lowercase())", 1),
   .guarded "`res` is a `String`: `fmt::Write for String` never fails, and `Display for ToLowercase` only \
     forwards the writer's result"),
  (("filters.rs", "title", "unwrap", "write!(res,\"{}\",c.to_uppercase())", 1),
   .guarded "`res` is a `String`: `fmt::Write for String` never fails, and `Display for ToUppercase` only \
     forwards the writer's result"),
  -- filters.rs:235 (`unicode` feature only)
  (("filters.rs", "truncate", "index", "graphemes[length]", 1),
   .guarded "`unicode` feature only; the `if length >= graphemes.len() { return .. }` three lines above"),
  -- filters.rs:241 (build without `unicode`: the default)
  (("filters.rs", "truncate", "index", "val[..byte_idx]", 1),
   .modelled "Model/Index.lean `truncateBytes` through `strTo`: \"str slice ..idx not on a char boundary\""
     "Tera.C14.truncate_boundary"),
  -- filters.rs:235 (`unicode` feature only)
  (("filters.rs", "truncate", "index", "val[..graphemes[length].0]", 1),
   .guarded "NON-LOCAL: `unicode` feature only (off by default, not built by the harness); the offset is one \
     `val.grapheme_indices(true)` produced for the same `val`: a char boundary within range by the contract \
     of the dependency `unicode-segmentation` (trusted, not verified)"),

  /- ───────────── globbing.rs (feature `glob_fs`, `Tera::load_from_glob`) ───────────── -/
  (("globbing.rs", "load_from_glob", "index", "glob[..first_star]", 1),
   .notOnPath "file-system loader behind the cargo feature `glob_fs` (`Tera::load_from_glob` / `full_reload`), \
     never called by `add_raw_template(s)` / `render*`; also guarded: `first_star` is `glob.find('*')`"),
  (("globbing.rs", "load_from_glob", "method", "split_at(split_at)", 1),
   .notOnPath "`glob_fs` loader only; also guarded: 0 or one past the byte offset `rfind(is_separator)` \
     returned for an ASCII separator inside `glob[..first_star]`"),
  (("globbing.rs", "load_from_glob", "unwrap", "path.strip_prefix(\"./\")", 1),
   .notOnPath "`glob_fs` loader only; also guarded by the `if path.starts_with(\"./\")` on the line above"),

  /- ───────────── tests.rs (`is_containing`) ───────────── -/
  -- tests.rs:164, 166, 162
  (("tests.rs", "is_containing", "unwrap", "val.as_array()", 1), .guarded (WHY_KIND "Array" "as_array")),
  (("tests.rs", "is_containing", "unwrap", "val.as_map()", 1), .guarded (WHY_KIND "Map" "as_map")),
  (("tests.rs", "is_containing", "unwrap", "val.as_str()", 1), .guarded (WHY_KIND "String" "as_str")),

  /- ───────────── value/mod.rs ───────────── -/
  -- value/mod.rs:135 (`SmartString::as_str`)
  (("value/mod.rs", "as_str", "index", "data[..*len as usize]", 1),
   .guarded "NON-LOCAL: `SmartString::Small` is built in two places only (grep `Small {`): `SmartString::new` \
     (value/mod.rs:119-127, under `if s.len() <= 21`, `len: s.len() as u8`) and `mark_safe` (value/mod.rs:158, \
     copying `len` and `data`); so `len <= 21 = data.len()`"),
  -- value/mod.rs:135.  Not a panic site: undefined behaviour if wrong.
  (("value/mod.rs", "as_str", "unsafe_block", "{ std::str::from_utf8_unchecked(&data[..*len as usize]) }", 1),
   .guarded "NON-LOCAL: by the same two constructors `data[..len]` is `s.as_bytes()` of the `&str` given to \
     `SmartString::new` (`copy_from_slice`, value/mod.rs:121), never modified afterwards (no `&mut` access to \
     `data`); the models hold strings as `List Char`, so this is not a theorem"),
  -- value/mod.rs:223 `.expect("valid utf-8 in display")` (`Display for Value`; on the path: `StrConcat` of non-strings, error messages)
  (("value/mod.rs", "fmt", "unwrap", "std::str::from_utf8(&out)", 1),
   .guarded "NON-LOCAL: `out` was filled by `self.format(&mut out)` four lines above, and every arm of \
     `Value::format` / `format_map` (value/mod.rs:495-560, 39-62) writes whole `str`s (ASCII byte-string literals, \
     `as_str().as_bytes()`, `String::from_utf8_lossy(..).as_bytes()`, `write!` of std `Display` / `Debug` impls); \
     Model/Format.lean produces `List Char`, so this is not a theorem"),
  -- value/mod.rs:565
  (("value/mod.rs", "from_serializable", "unwrap", "Self::try_from_serializable(value)", 1),
   .notOnPath "documented panicking convenience for HOST data (`Context::insert`, context.rs:62: \"This can panic if \
     the value cannot be serialised\"); not called while registering or rendering a template; the failing inputs \
     (maps with non-scalar keys, a failing `Serialize` impl) are C19's subject"),
  -- value/mod.rs:948 (model line 943)
  (("value/mod.rs", "get_item", "index", "arr[i]", 1),
   .modelled "Model/Index.lean `getItem`: \"value/mod.rs:943 arr[i]\""
     "Tera.C14.index_spec_array (integer subscripts) with Tera.C14.index_non_integer_error (all others)"),
  -- value/mod.rs:959 (model line 954)
  (("value/mod.rs", "get_item", "index", "chars[i]", 1),
   .modelled "Model/Index.lean `getItem`: \"value/mod.rs:954 chars[i]\""
     "Tera.C14.index_spec_string (integer subscripts) with Tera.C14.index_non_integer_error (all others)"),
  -- value/mod.rs:121 (`SmartString::new`)
  (("value/mod.rs", "new", "index", "data[..s.len()]", 1),
   .guarded "the `if s.len() <= 21` on the line before, `data` being `[0; 21]`"),
  (("value/mod.rs", "new", "method", "copy_from_slice(s.as_bytes())", 1),
   .guarded "`copy_from_slice` panics only on a length mismatch; the destination is `data[..s.len()]`, the source \
     `s.as_bytes()`: both `s.len()` long"),
  -- value/mod.rs:1014 (model line 1009)
  (("value/mod.rs", "slice_items", "index", "items[i as usize]", 1),
   .modelled "Model/Index.lean `sliceLoop`: \"value/mod.rs:1009 items[i as usize]\"" "Tera.C14.slice_no_panic"),

  /- ───────────── value/number.rs ───────────── -/
  -- number.rs:210, 130 (macro `math`: add / sub / mul), 251, 167
  (("value/number.rs", "floor_div", "macro", "unreachable!()", 1),
   .guarded "`if left.is_float() || right.is_float()` a few lines above turns BOTH operands into floats, so the pair \
     is `(Integer, Integer)` or `(Float, Float)`: the two arms before this one (Model/Number.lean `mathOp`: \
     `if a.isFloat || b.isFloat then` float op `else` integer op)"),
  (("value/number.rs", "math", "macro", "unreachable!()", 1),
   .guarded "`if left.is_float() || right.is_float()` a few lines above turns BOTH operands into floats, so the pair \
     is `(Integer, Integer)` or `(Float, Float)`: the two arms before this one"),
  (("value/number.rs", "pow", "macro", "unreachable!()", 1),
   .guarded "`if left.is_float() || right.is_float()` earlier in the function turns BOTH operands into floats, so the \
     pair is `(Integer, Integer)` or `(Float, Float)`: the two arms before this one"),
  (("value/number.rs", "rem", "macro", "unreachable!()", 1),
   .guarded "`if left.is_float() || right.is_float()` a few lines above turns BOTH operands into floats, so the pair \
     is `(Integer, Integer)` or `(Float, Float)`: the two arms before this one"),

  /- ───────────── value/ser.rs ───────────── -/
  -- ser.rs:480 `self.key.take().expect("missing key")`
  (("value/ser.rs", "serialize_value", "unwrap", "self.key.take()", 1),
   .notOnPath "serde's `SerializeMap` protocol (`serialize_key` before `serialize_value`): fires only for a \
     hand-written `Serialize` impl of HOST data that breaks the protocol (serde_json panics the same way); \
     derived impls and `serialize_entry` honour it; not reached by template input")
]

/-- **`census_builtins_accounted`.**  Every syntactic panic site of the value / built-in code that
the extractor finds in /repo's current source has rows in `accountBuiltins`. -/
theorem census_builtins_accounted :
    coversF Generated.panicCensusBuiltins accountBuiltins = true := by decide

/-- the tie bites: a new `.unwrap()` in a filter is not covered; removing sites is harmless -/
example : coversF (("filters.rs", "upper", "unwrap", "val.as_str()", 1) :: Generated.panicCensusBuiltins)
    accountBuiltins = false
    ∧ coversF (Generated.panicCensusBuiltins.drop 2) accountBuiltins = true := by decide

end Tera.PanicCensus
