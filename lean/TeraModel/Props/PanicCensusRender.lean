/-
C07 — the audit of the SYNTACTIC panic sites of the render-time code:
tera/src/vm/{interpreter,state,stack,for_loop,mod}.rs, context.rs, components.rs, reporting.rs,
errors.rs, utils.rs  (state.rs, mod.rs, context.rs, components.rs, errors.rs, utils.rs have no
site: the extractor reads them on every run, so a site added there shows up).

Same construction as Props/PanicCensusAdd.lean: `Generated.panicCensusRender` is extracted from
/repo's current source on every check run, `accountRender` is the hand-made account (written after
reading the Rust at each site and the model), `census_render_accounted` proves that every census
key (file, kind, text) — `unwrap` / `expect` being one kind keyed by the receiver — is counted by
the census, over the whole file, at most as often as the account has rows for it (`coversF`).

The VM model (Model/Vm.lean, VmState.lean) makes every `pop` / `peek` / `expect` / `unwrap` / `[]` /
`unreachable!` of `interpret` an explicit `.panic "<file>:<line> …"` outcome;
`Tera.Pipeline.render_never_panics_T` proves none is reached on any environment the add-time
pipeline returns (`Tera.C07Vm.vm_render_no_panic_T` on any environment whose chunks have a
`Vm.verify` certificate).  What no model represents — `state.chunk` being an `Option` (seven
`expect("to have a chunk")`), the two `unsafe from_utf8_unchecked` — is argued by hand below
(`guarded "NON-LOCAL: …"`).

Not covered (see the `trusted` line of props.d/C07.json): arithmetic (`len - 1`, `*remaining -= 1`,
`len - index`: the models that mirror them carry their own outcomes, e.g. Model/Index.lean
"vm/for_loop.rs:64 *remaining -= 1"), `as` casts, allocation, stack depth (F5, F18), `sort_by` with
a non-total order, panics inside `write!` / `format!` of std types, inside dependencies
(`unicode-segmentation`, `pulldown-cmark-escape`, `itoa`, `ahash`, `indexmap`) and inside
user-supplied filters / functions / tests / escape functions / `Write` impls.
-/
import TeraModel.Generated.PanicCensus
import TeraModel.Model.PanicAccount
namespace Tera.PanicCensus

def T_VM : String :=
  "Tera.Pipeline.render_never_panics_T (every environment `addTemplatesT` returns; through \
   Tera.C07Vm.vm_render_no_panic_T for any environment with `EnvOKT`; whole engine: \
   Tera.Pipeline.engine_never_panics_T_concrete)"
def T_REPORT : String :=
  "Tera.C12.report_no_panic (hypothesis `Consistent src sp` discharged for every span the lexer \
   produces by Tera.C12.span_consistent, kept by Tera.C12.expand_consistent / eoi_consistent)"

/-- why `state.chunk` is `Some` whenever `interpret` runs -/
def WHY_CHUNK : String :=
  "NON-LOCAL: `interpret` is `pub(crate)` and each of its callers hands it a `State` made by \
   `State::new_with_chunk` (interpreter.rs:961, 984, 1026; tera.rs:1289), which sets `chunk = Some(..)`; \
   the only other writes are `state.chunk.replace(block_chunk)` (a `Some`) and the restoring \
   `state.chunk = old_chunk` of what `replace` returned (interpreter.rs:494/500, 573/588); built-ins get \
   `&State` only.  `State::new` (public, `chunk: None`) is for users' unit tests of filters; they cannot \
   call `interpret`.  (Model/Vm.lean passes the chunk as an argument: it has no `Option` to unwrap.)"

def accountRender : List Row := [
  /- ───────────── reporting.rs (`SourceLocation::new`) ───────────── -/
  -- reporting.rs:23, 25
  (("reporting.rs", "new", "index", "line_starts[start_line - 1]", 2),
   .modelled "Model/Report.lean `sourceLocation`: \"reporting.rs:23 start_line - 1 underflow / index out of range\", \
     \"reporting.rs:23 line_starts[start_line - 1]\", \"reporting.rs:25 line_starts[start_line - 1]\"" T_REPORT),
  -- reporting.rs:25
  (("reporting.rs", "new", "index", "line_starts[start_line]", 1),
   .modelled "Model/Report.lean `sourceLocation`: \"reporting.rs:25 line_starts[start_line]\" (also guarded: the \
     `else` branch of `if start_line == line_starts.len()`, given `start_line - 1` was in range)" T_REPORT),
  -- reporting.rs:23
  (("reporting.rs", "new", "index", "source[line_starts[start_line - 1]..]", 1),
   .modelled "Model/Report.lean `sourceLocation`: \"reporting.rs:23 &source[a..]\"" T_REPORT),
  -- reporting.rs:25
  (("reporting.rs", "new", "index", "source[line_starts[start_line - 1]..line_starts[start_line]]", 1),
   .modelled "Model/Report.lean `sourceLocation`: \"reporting.rs:25 &source[a..b]\"" T_REPORT),

  /- ───────────── vm/for_loop.rs ───────────── -/
  -- for_loop.rs:225 `.expect("Should only be called on iterable values")`
  (("vm/for_loop.rs", "new", "unwrap", "create_for_loop_iterator(&container)", 1),
   .modelled "Model/Vm.lean `stepStartIterate`: \"for_loop.rs:225 Should only be called on iterable values\"" T_VM),
  -- for_loop.rs:41
  (("vm/for_loop.rs", "next", "index", "arr[*index]", 1),
   .guarded "the `if *index < arr.len()` on the line above"),
  -- for_loop.rs:79
  (("vm/for_loop.rs", "next", "index", "bytes[*index]", 1),
   .guarded "the `if *index < bytes.len()` on the line above"),
  -- for_loop.rs:65 (build without the `unicode` feature: the default, and the harness's build)
  (("vm/for_loop.rs", "next", "index", "content[*current_pos..]", 1),
   .modelled "Model/Index.lean `strIterNext` through `strFrom`: \"str slice pos.. not on a char boundary\" \
     (range: the `if *current_pos >= content.len() { return None }` five lines above)"
     "Tera.C14.for_string_loop_by_chars (and Tera.C14.for_string_by_chars)"),
  -- for_loop.rs:98 (`unicode` feature only)
  (("vm/for_loop.rs", "next", "index", "content[start..end]", 1),
   .guarded "NON-LOCAL: `unicode` feature only (off by default, not built by the harness).  `ranges` is computed \
     once in `create_string_iterator` (for_loop.rs:129-132) as `(start, start + g.len())` over \
     `content.grapheme_indices(true)` of the SAME `content`: in range and on char boundaries by the contract \
     of the dependency `unicode-segmentation` (trusted, not verified)"),
  -- for_loop.rs:96
  (("vm/for_loop.rs", "next", "index", "ranges[*index]", 1),
   .guarded "the `if *index >= ranges.len() { return None; }` three lines above"),
  -- for_loop.rs:67
  (("vm/for_loop.rs", "next", "index", "rest[..char_end]", 1),
   .modelled "Model/Index.lean `strIterNext` through `strTo`: \"str slice ..idx not on a char boundary\" \
     (`char_end` is an offset `rest.char_indices()` just produced)"
     "Tera.C14.for_string_loop_by_chars"),

  /- ───────────── vm/interpreter.rs ───────────── -/
  -- `state.chunk.expect("To have a chunk")` interpreter.rs:189 (the loop head) and
  -- `state.chunk.expect("to have a chunk")` interpreter.rs:63 (`rendering_error!`, first arm),
  -- 176 (`component!`), 376, 774, 822
  (("vm/interpreter.rs", "interpret", "unwrap", "state.chunk", 6), .guarded WHY_CHUNK),
  -- interpreter.rs:73: `state.chunk.expect("to have a chunk")` in the second arm of
  -- `rendering_error!` (`span: $span`)
  (("vm/interpreter.rs", "interpret", "unwrap", "state.chunk", 1),
   .notOnPath "the `($msg:expr, span: $span:expr)` arm of the local macro `rendering_error!` (interpreter.rs:72-78) \
     is never invoked: no expansion contains it"),
  -- interpreter.rs:484 `.expect("no lineage found")`
  (("vm/interpreter.rs", "interpret", "unwrap", "state.blocks.iter().rposition(|entry|entry.0==current_block_name)", 1),
   .modelled "Model/Vm.lean (`super()` arm): \"interpreter.rs:484 no lineage found\"" T_VM),
  -- the eight `.expect("to have a span for error")`:
  -- interpreter.rs:66 (`rendering_error!`, first arm, expanded at every rendering error)
  (("vm/interpreter.rs", "interpret", "unwrap", "chunk.expand_span(&$span_range)", 1),
   .modelled "Model/Vm.lean `renderingError`: \"interpreter.rs:66 to have a span for error\" (SPAN_SITE)" T_VM),
  -- interpreter.rs:785 (`LoadPath`), 831 (`WritePath`)
  (("vm/interpreter.rs", "interpret", "unwrap", "chunk.get_span_at(current_ip,0)", 2),
   .modelled "Model/Vm.lean `errorAt`: \"interpreter.rs:785 to have a span for error\", \
     \"interpreter.rs:831 to have a span for error\"; Model/PathVm.lean \"interpreter.rs: to have a span for error\"" T_VM),
  -- interpreter.rs:794, 803 (`LoadPath`), 843 (`WritePath`)
  (("vm/interpreter.rs", "interpret", "unwrap", "chunk.get_span_at(current_ip,k+1)", 3),
   .modelled "Model/Vm.lean `errorAt` in `walkLoad` / `walkWrite`: \"interpreter.rs:794 to have a span for error\", \
     \"interpreter.rs:803 to have a span for error\", \"interpreter.rs:843 to have a span for error\"" T_VM),
  -- interpreter.rs:856 (`WritePath`)
  (("vm/interpreter.rs", "interpret", "unwrap", "chunk.get_span_at(current_ip,num_attrs)", 1),
   .modelled "Model/Vm.lean `errorAt` in `stepWritePath`: \"interpreter.rs:856 to have a span for error\"" T_VM),
  -- interpreter.rs:74: `$span.expect("to have a span for error")`, second arm of `rendering_error!`
  (("vm/interpreter.rs", "interpret", "unwrap", "$span", 1),
   .notOnPath "the `($msg:expr, span: $span:expr)` arm of `rendering_error!` is never invoked"),
  -- interpreter.rs:149 (`component!`) `kwargs.into_map().expect("to have kwargs")`
  (("vm/interpreter.rs", "interpret", "unwrap", "kwargs.into_map()", 1),
   .modelled "Model/Vm.lean (component arm): \"interpreter.rs:149 to have kwargs\"" T_VM),
  -- interpreter.rs:572
  (("vm/interpreter.rs", "interpret", "index", "block_lineage[0]", 1),
   .guarded "the `.filter(|bl| !bl.is_empty())` of the `let … else` that binds `block_lineage`, eight lines above \
     (Model/Vm.lean keeps the empty case as the `noLineage` error value)"),
  -- interpreter.rs:493
  (("vm/interpreter.rs", "interpret", "index", "lineage[level + 1]", 1),
   .guarded "the `if level + 1 >= lineage.len() { rendering_error!(..) }` six lines above returns"),
  -- interpreter.rs:775, 778, 786 (`LoadPath`), 823, 826, 832 (`WritePath`)
  (("vm/interpreter.rs", "interpret", "index", "path[0]", 6),
   .modelled "Model/Vm.lean `stepLoadPath`: \"interpreter.rs:778 path[0]\", `stepWritePath`: \"interpreter.rs:826 path[0]\" \
     (Model/PathVm.lean the same two) — the first unguarded use in each arm; 775 / 823 sit behind \
     `path.len() == 1 &&`, 786 / 832 come after a `path[0]` that succeeded" T_VM),
  -- interpreter.rs:790, 837
  (("vm/interpreter.rs", "interpret", "index", "path[1..]", 2),
   .guarded "`path[0]` was evaluated earlier in the same arm, so `path.len() >= 1` and `1..` is in range \
     (790 is also under `if num_attrs > 0`, 837 in the `if num_attrs > 0` branch)"),
  -- interpreter.rs:154 (`component!`)
  (("vm/interpreter.rs", "interpret", "index", "self.template.components[$name]", 1),
   .modelled "Model/Vm.lean (component arm): \"interpreter.rs:154 self.template.components[name]\"" T_VM),
  -- interpreter.rs:520
  (("vm/interpreter.rs", "interpret", "index", "self.tera.filters[name.as_str()]", 1),
   .modelled "Model/Vm.lean: \"interpreter.rs:520 tera.filters[name]\"" T_VM),
  -- interpreter.rs:508
  (("vm/interpreter.rs", "interpret", "index", "self.tera.functions[name.as_str()]", 1),
   .modelled "Model/Vm.lean: \"interpreter.rs:508 tera.functions[name]\"" T_VM),
  -- interpreter.rs:537
  (("vm/interpreter.rs", "interpret", "index", "self.tera.tests[name.as_str()]", 1),
   .modelled "Model/Vm.lean: \"interpreter.rs:537 tera.tests[name]\"" T_VM),
  -- interpreter.rs:485, 495, 501
  (("vm/interpreter.rs", "interpret", "index", "state.blocks[pos]", 3),
   .modelled "Model/Vm.lean (`super()` arm): \"interpreter.rs:485 state.blocks[pos]\", \"interpreter.rs:495 state.blocks[pos]\", \
     \"interpreter.rs:501 state.blocks[pos]\"" T_VM),
  -- interpreter.rs:369, 371 (`Include` inside a capture)
  (("vm/interpreter.rs", "interpret", "index", "state.capture_buffers[last]", 2),
   .guarded "`else` branch of `if state.capture_buffers.is_empty()` with `last = len - 1` one line above; between \
     the two uses `render_include` only gets `&State` (it renders into a fresh `State`), so the vector is unchanged"),
  -- interpreter.rs:693
  (("vm/interpreter.rs", "interpret", "macro", "unreachable!(\"AppendToList only works on arrays\")", 1),
   .modelled "Model/Vm.lean `stepAppendToList`: \"interpreter.rs:693 AppendToList only works on arrays\"" T_VM),
  -- interpreter.rs:348 (`WriteTop`), 876 (`WritePath`).  Not a panic site: undefined behaviour if wrong.
  (("vm/interpreter.rs", "interpret", "unsafe_block", "{ std::str::from_utf8_unchecked(&state.escape_buffer) }", 2),
   .guarded "NON-LOCAL: `state.escape_buffer` is `clear()`ed and filled by `Value::format` on the three lines above, \
     and every arm of `Value::format` / `format_map` (value/mod.rs:495-560, 39-62) writes whole `str`s: byte-string \
     literals that are ASCII, `as_str().as_bytes()`, `String::from_utf8_lossy(..).as_bytes()`, and `write!` of std \
     `Display` / `Debug` impls (which emit `str` pieces); the models have text as `List Char`, so this is NOT \
     a theorem — the harness checks the output bytes (Tera.C07Vm.vm_output_valid_utf8_T is about the model)"),
  -- interpreter.rs:509, 524, 541
  (("vm/interpreter.rs", "interpret", "unwrap", "kwargs.into_map_arc()", 3),
   .modelled "Model/Vm.lean: \"interpreter.rs:509 into_map_arc().unwrap()\", \"interpreter.rs:524 into_map_arc().unwrap()\", \
     \"interpreter.rs:541 into_map_arc().unwrap()\"" T_VM),
  -- interpreter.rs:626
  (("vm/interpreter.rs", "interpret", "unwrap", "state.capture_buffers.pop()", 1),
   .modelled "Model/Vm.lean `stepEndCapture`: \"interpreter.rs:626 capture_buffers.pop().unwrap()\" (also Model/Writer.lean)" T_VM),
  -- interpreter.rs:419
  (("vm/interpreter.rs", "interpret", "unwrap", "val.into_map()", 1),
   .guarded "the `if !val.is_map() { rendering_error!(..) }` just above returns, and `into_map` is `Some` exactly \
     on `ValueInner::Map`"),
  -- interpreter.rs:457
  (("vm/interpreter.rs", "interpret", "unwrap", "val.into_vec()", 1),
   .guarded "the `if !val.is_array() { rendering_error!(..) }` just above returns, and `into_vec` is `Some` exactly \
     on `ValueInner::Array`"),
  -- interpreter.rs:934
  (("vm/interpreter.rs", "report_target", "index", "self.tera.templates[&chunk.name]", 1),
   .modelled "Model/Vm.lean `raise`: \"interpreter.rs:934 tera.templates[chunk.name]\"" T_VM),

  /- ───────────── vm/stack.rs ───────────── -/
  -- stack.rs:38 `.expect("to peek a value")`
  (("vm/stack.rs", "peek", "unwrap", "self.values.last()", 1),
   .modelled "Model/Vm.lean PEEK_SITE \"stack.rs:38 to peek a value\" (also Model/ChunkVm.lean)" T_VM),
  -- stack.rs:49 `.expect("to peek a value")`
  (("vm/stack.rs", "peek_mut", "unwrap", "self.values.last_mut()", 1),
   .modelled "Model/Vm.lean PEEK_MUT_SITE \"stack.rs:49 to peek a value\"" T_VM),
  -- stack.rs:33 `.expect("to have a value")`
  (("vm/stack.rs", "pop", "unwrap", "self.values.pop()", 1),
   .modelled "Model/Vm.lean POP_SITE \"stack.rs:33 to have a value\" (also Model/ChunkVm.lean, Model/PathVm.lean; \
     the abstract stack discipline: Tera.C07Compile.compile_stack_discipline)" T_VM)
]

/-- **`census_render_accounted`.**  Every syntactic panic site of the render-time code that the
extractor finds in /repo's current source has rows in `accountRender`.  Re-proved against the
regenerated census on every run: a site added to the Rust (a new `.unwrap()` in `interpret`, one
more `state.stack.pop()`-like `expect`, a new index expression …) that the account does not know
breaks this `decide`. -/
theorem census_render_accounted : coversF Generated.panicCensusRender accountRender = true := by decide

/-! ## The tie bites, and only on additions (spot checks of `covers` itself) -/

/-- a new `.unwrap()` in `interpret` is not covered -/
example : coversF (("vm/interpreter.rs", "interpret", "unwrap", "Some(1)", 1) :: Generated.panicCensusRender)
    accountRender = false := by decide

/-- an eighth `state.chunk.expect(..)` / `.unwrap()` is not covered (the two rows add up to seven),
whatever its message and whichever of the two methods it uses: the key is the receiver -/
example : coversF [("vm/interpreter.rs", "interpret", "unwrap", "state.chunk", 8)] accountRender = false
    ∧ coversF [("vm/interpreter.rs", "report_target", "unwrap", "state.chunk", 7)] accountRender = true := by decide

/-- a site in a file that has none today (vm/state.rs) is not covered -/
example : covers [("vm/state.rs", "get_value", "index", "self.for_loops[0]", 1)] accountRender = false := by decide

/-- removing sites keeps the census covered -/
example : coversF (Generated.panicCensusRender.drop 3) accountRender = true := by decide

end Tera.PanicCensus
