/-
C11 — Cyclic or dangling template graphs are rejected; accepted graphs render finitely.

Property theorems only (helper lemmas: Lemmas/RegResolve.lean, Lemmas/FindParents.lean,
Lemmas/IncludeDfs.lean).  All statements are about the model in Model/Finalize.lean, which the
correspondence harness (harness/src/bin/c11.rs) ties to tera/src/template.rs and tera/src/tera.rs
on every run.  The graph vocabulary (`ExtEdge`, `IncEdge`, `Walk`, `CycleReachable`) is in
Spec/TplGraph.lean.
-/
import TeraModel.Lemmas.FindParents
import TeraModel.Lemmas.AcceptGraph
import TeraModel.Lemmas.F5Witness
namespace Tera.C11
open Tera.Reg

/-! ## Name resolution: exact name first, then the fallback prefixes in order -/

/-- An exact match wins, whatever the prefixes are. -/
theorem resolve_exact_first (ps : List String) (S : List Tpl) (n : String) (h : has S n = true) :
    resolve ps S n = some n := by
  simp [resolve, h]

/-- `resolve` answers `r` exactly when `r` is the name itself and is registered, or the name is not
registered and `r` is `p ++ name` for the *first* prefix `p` (in the configured order) for which
that is registered. -/
theorem resolve_spec (ps : List String) (S : List Tpl) (n r : String) :
    resolve ps S n = some r ↔
      (has S n = true ∧ r = n) ∨
      (has S n = false ∧ ∃ pre p post, ps = pre ++ p :: post ∧ r = p ++ n ∧ has S r = true ∧
        ∀ q ∈ pre, has S (q ++ n) = false) := by
  unfold resolve
  by_cases h : has S n = true
  · simp only [h, if_true]
    constructor
    · intro e; cases e; exact .inl ⟨trivial, rfl⟩
    · rintro (⟨_, rfl⟩ | ⟨hf, _⟩)
      · rfl
      · simp at hf
  · have hf : has S n = false := by simpa using h
    simp only [hf, Bool.false_eq_true, if_false, false_and, false_or, true_and]
    exact resolvePrefixes_some

/-- `resolve` finds nothing exactly when neither the name nor any prefixed name is registered. -/
theorem resolve_none_spec (ps : List String) (S : List Tpl) (n : String) :
    resolve ps S n = none ↔ has S n = false ∧ ∀ p ∈ ps, has S (p ++ n) = false := by
  unfold resolve
  by_cases h : has S n = true
  · simp [h]
  · have hf : has S n = false := by simpa using h
    simp only [hf, Bool.false_eq_true, if_false, true_and]
    exact resolvePrefixes_none

/-- What `resolve` returns is always a registered template (so `templates[resolved]` cannot panic). -/
theorem resolve_registered (ps : List String) (S : List Tpl) (n r : String)
    (h : resolve ps S n = some r) : has S r = true := resolve_has h

/-! ## `find_parents` -/

/-- Every outcome of `find_parents` is justified by the graph, for every set of templates and every
registered start template; in particular the fuel (number of templates + 1) never runs out and
the indexing `templates[resolved]` never panics. -/
theorem findParents_sound (ps : List String) (S : List Tpl) (t : Tpl) (hT : get S t.name = some t) :
    FPSpec ps S t.name (findParents ps S t) := findParents_fpspec ps S t hT

/-- **Ok.** `find_parents` returns `ps'` exactly when the resolved `extends` chain from the template
is finite (it ends in a template without `extends`) and free of repetitions, and `ps'` is that
chain, root first. -/
theorem findParents_ok_iff (ps : List String) (S : List Tpl) (t : Tpl) (hT : get S t.name = some t)
    (r : List String) :
    findParents ps S t = .ok r ↔
      ∃ cs x, Walk (ExtEdge ps S) t.name cs x ∧ IsRoot S x ∧ (t.name :: cs).Nodup ∧ r = cs.reverse := by
  constructor
  · intro e
    have := findParents_sound ps S t hT
    rw [e] at this
    exact this
  · rintro ⟨cs, x, hw, hroot, hnd, rfl⟩
    obtain ⟨h1, h2, h3, h4, h5⟩ := fp_unique hT hw hnd (.inl hroot)
    cases hres : findParents ps S t with
    | ok r' => rw [(h1 r' hres).2]
    | missingParent a p => exact absurd hroot (h2 a p hres).2.not_root
    | circular ch => obtain ⟨r', he, _⟩ := h3 ch hres; exact absurd he hroot.no_edge
    | outOfFuel => exact absurd hres h4
    | panic => exact absurd hres h5

/-- **MissingParent.** The error names template `a` and target `p` exactly when the chain from the
start reaches `a` without repetition and `a`'s `extends` target `p` resolves to nothing. -/
theorem findParents_missing_iff (ps : List String) (S : List Tpl) (t : Tpl) (hT : get S t.name = some t)
    (a p : String) :
    findParents ps S t = .missingParent a p ↔
      ∃ cs, Walk (ExtEdge ps S) t.name cs a ∧ (t.name :: cs).Nodup ∧ Dangling ps S a p := by
  constructor
  · intro e
    have := findParents_sound ps S t hT
    rw [e] at this
    exact this
  · rintro ⟨cs, hw, hnd, hd⟩
    obtain ⟨h1, h2, h3, h4, h5⟩ := fp_unique hT hw hnd (.inr (.inl ⟨p, hd⟩))
    cases hres : findParents ps S t with
    | ok r' => exact absurd (h1 r' hres).1 hd.not_root
    | missingParent a' p' =>
      obtain ⟨ea, hd'⟩ := h2 a' p' hres
      rw [ea, hd'.functional hd]
    | circular ch => obtain ⟨r', he, _⟩ := h3 ch hres; exact absurd he hd.no_edge
    | outOfFuel => exact absurd hres h4
    | panic => exact absurd hres h5

/-- **CircularExtend.** The error carries `chain` exactly when the chain from the start runs without
repetition through `cs` to `x`, and `x` extends a template `r` already on it (the start itself:
self-loops and cycles through the start; or a later one: cycles entered from a tail), with
`chain = cs ++ [r]`. -/
theorem findParents_circular_iff (ps : List String) (S : List Tpl) (t : Tpl) (hT : get S t.name = some t)
    (chain : List String) :
    findParents ps S t = .circular chain ↔
      ∃ cs x r, Walk (ExtEdge ps S) t.name cs x ∧ (t.name :: cs).Nodup ∧ ExtEdge ps S x r ∧
        r ∈ t.name :: cs ∧ chain = cs ++ [r] := by
  constructor
  · intro e
    have := findParents_sound ps S t hT
    rw [e] at this
    exact this
  · rintro ⟨cs, x, r, hw, hnd, he, hr, rfl⟩
    obtain ⟨h1, h2, h3, h4, h5⟩ := fp_unique hT hw hnd (.inr (.inr ⟨r, he, hr⟩))
    cases hres : findParents ps S t with
    | ok r' => exact absurd he (h1 r' hres).1.no_edge
    | missingParent a' p' => exact absurd he (h2 a' p' hres).2.no_edge
    | circular ch =>
      obtain ⟨r', he', _, e⟩ := h3 ch hres
      rw [e, he'.functional he]
    | outOfFuel => exact absurd hres h4
    | panic => exact absurd hres h5

/-- `find_parents` always ends in one of its three documented outcomes. -/
theorem findParents_total (ps : List String) (S : List Tpl) (t : Tpl) (hT : get S t.name = some t) :
    findParents ps S t ≠ .outOfFuel ∧ findParents ps S t ≠ .panic := by
  have h := findParents_sound ps S t hT
  constructor <;> intro e <;> rw [e] at h <;> exact h

/-! ## `check_include_cycles` -/

/-- **The include walk accepts exactly when no include cycle is reachable from the start**, for
every set of templates, every start template, every shape of cycle (self-includes, long cycles,
cycles entered from a tail; edges from includes at top level, inside blocks and inside component
bodies are all in `includeCalls`).  The `visited` shortcut is justified inside the proof by the
white / grey / black argument: visited nodes are closed under edges and lie on no cycle, and are
disjoint from the stack (Lemmas/IncludeDfs.lean, `WalkPre` / `WalkPost`). -/
theorem includeDFS_sound_complete (ps : List String) (S : List Tpl) (t : Tpl) (hT : get S t.name = some t) :
    (∃ v, checkIncludeCycles ps S t = .ok v) ↔ ¬ CycleReachable (IncEdge ps S) t.name :=
  checkIncludeCycles_ok_iff ps S t hT

/-- A reported include cycle is real. -/
theorem includeDFS_reject_sound (ps : List String) (S : List Tpl) (t : Tpl) (hT : get S t.name = some t)
    (chain : List String) (h : checkIncludeCycles ps S t = .cycle chain) :
    CycleReachable (IncEdge ps S) t.name :=
  checkIncludeCycles_cycle_sound ps S t hT chain h

/-- Fuel = number of templates suffices (the recursion depth is bounded by the stack, which holds
distinct registered names), and `templates[resolved]` never panics: the walk ends in `ok` or `cycle`. -/
theorem includeDFS_total (ps : List String) (S : List Tpl) (t : Tpl) (hT : get S t.name = some t) :
    checkIncludeCycles ps S t ≠ .outOfFuel ∧ checkIncludeCycles ps S t ≠ .panic :=
  checkIncludeCycles_total ps S t hT

/-! ## Acceptance and rejection by `finalize_templates` -/

/-- **Accepted ⇒ both graphs are sound.**  If `finalize_templates` accepts a set (any iteration
orders), then for every registered template: its `extends` chain resolves at every step, is free of
repetitions and ends in a template without `extends`; no include cycle can be reached from it; and
every include target it mentions (anywhere in its source) resolves to a registered template. -/
theorem C11_accepted_graphs (ps : List String) (S : List Tpl) (o2 o3 : List String) (d : Derived)
    (h : derive ps S o2 o3 = .ok d) (ho2 : ∀ k, has S k = true → k ∈ o2)
    (t : Tpl) (hT : get S t.name = some t) :
    (∃ cs x, Walk (ExtEdge ps S) t.name cs x ∧ IsRoot S x ∧ (t.name :: cs).Nodup) ∧
    ¬ CycleReachable (IncEdge ps S) t.name ∧
    ∀ n ∈ t.includeCalls, ∃ r, resolve ps S n = some r ∧ has S r = true := by
  have hhas : has S t.name = true := has_iff_get.mpr ⟨t, hT⟩
  have hmem : t.name ∈ sortDedup (keys S) := (mem_sortDedup _ _).mpr (has_mem_keys hhas)
  obtain ⟨l1, tb, tb', h1, h2, _⟩ := derive_parts h
  obtain ⟨t', p, v, hg, hf, hc⟩ := loop1_all_ok ps S _ _ _ h1 t.name hmem
  rw [hT] at hg; cases hg
  obtain ⟨cs, x, hw, hroot, hnd, _⟩ := findParents_ok_walk hT hf
  refine ⟨⟨cs, x, hw, hroot, hnd⟩, (checkIncludeCycles_ok_iff ps S t hT).mp ⟨v, hc⟩, ?_⟩
  have hlook : lookupParents l1.parents t.name = some p := by
    rw [loop1_lookup h1]; simp [hmem, parentsOf, hT, hf]
  intro n hn
  cases hr : resolve ps S n with
  | some r => exact ⟨r, rfl, resolve_has hr⟩
  | none =>
    exfalso
    have hbad : (hasRefErrors ps S l1.comps t || hasOrphanBlock S p t) = true := by
      have : t.includeCalls.any (fun n => (resolve ps S n).isNone) = true :=
        List.any_eq_true.mpr ⟨n, hn, by simp [hr]⟩
      simp [hasRefErrors, this]
    have := loop2_bad ps S l1 o2 tb false h2 t.name (ho2 _ hhas) t p hT hlook hbad
    cases this

/-- **Rejected with the corresponding error.**  Whatever the iteration orders:
`MissingParent { current, parent }` is only reported when the registered template `current` has an
`extends` target `parent` that resolves to nothing; `CircularExtend` only when the `extends` relation
has a cycle; `CircularInclude` only when the include relation has a cycle. -/
theorem C11_rejection_kinds (ps : List String) (S : List Tpl) (o2 o3 : List String) :
    (∀ a p, derive ps S o2 o3 = .error (.missingParent a p) → Dangling ps S a p) ∧
    (∀ T ch, derive ps S o2 o3 = .error (.circularExtend T ch) → ∃ c, OnCycle (ExtEdge ps S) c) ∧
    (∀ T ch, derive ps S o2 o3 = .error (.circularInclude T ch) → ∃ c, OnCycle (IncEdge ps S) c) := by
  have key : ∀ e, derive ps S o2 o3 = .error e → ¬ NonGraphErr e →
      ∃ n t, get S n = some t ∧ t.name = n ∧
        ((∃ a p, e = .missingParent a p ∧ findParents ps S t = .missingParent a p) ∨
         (∃ ch, e = .circularExtend t.name ch ∧ findParents ps S t = .circular ch) ∨
         (∃ ch, e = .circularInclude (ch.getLast?.getD "") ch ∧ checkIncludeCycles ps S t = .cycle ch)) := by
    intro e he hng
    rcases derive_error he with h1 | h1
    · obtain ⟨n, _, acc', hs⟩ := loop1_error ps S _ _ _ h1
      rcases loop1Step_error hs with ⟨t, hg, hcase⟩ | hp
      · refine ⟨n, t, hg, get_name hg, ?_⟩
        rcases hcase with h | h | h | h | h | h
        · exact .inl h
        · exact .inr (.inl h)
        · exact .inr (.inr h)
        · exact absurd (.inr (.inr h)) hng
        · rw [h] at hs
          -- the fuel never runs out
          exfalso
          unfold loop1Step at hs
          have ft := findParents_fpspec ps S t ((get_name hg) ▸ hg)
          have ct := checkIncludeCycles_total ps S t ((get_name hg) ▸ hg)
          simp only [hg] at hs
          cases hf : findParents ps S t with
          | outOfFuel => rw [hf] at ft; exact ft
          | panic => simp [hf] at hs
          | missingParent a b => simp [hf] at hs
          | circular ch => simp [hf] at hs
          | ok p =>
            simp only [hf] at hs
            cases hc : checkIncludeCycles ps S t with
            | outOfFuel => exact ct.1 hc
            | panic => simp [hc] at hs
            | cycle ch => simp [hc] at hs
            | ok v =>
              simp only [hc] at hs
              cases hl : compLoop t.name (priority ps t.name) acc'.comps (t.comps.map (·.name)) with
              | error e' =>
                simp only [hl] at hs
                have := compLoop_error _ _ _ hl
                rw [this] at hs; cases hs
              | ok comps =>
                simp only [hl] at hs
                cases hz : sumSrcLen S p with
                | none => simp [hz] at hs
                | some sz => simp [hz] at hs
        · exact absurd (.inr (.inl h)) hng
      · exact absurd (.inr (.inl hp)) hng
    · exact absurd h1 hng
  refine ⟨?_, ?_, ?_⟩
  · intro a p he
    obtain ⟨n, t, hg, hn, hcase⟩ := key _ he (by rintro (h | h | h) <;> cases h)
    rcases hcase with ⟨a', p', e1, hf⟩ | ⟨ch, e1, _⟩ | ⟨ch, e1, _⟩
    · cases e1
      obtain ⟨cs, _, _, hd⟩ := (findParents_missing_iff ps S t (hn ▸ hg) a p).mp hf
      exact hd
    · cases e1
    · cases e1
  · intro T ch he
    obtain ⟨n, t, hg, hn, hcase⟩ := key _ he (by rintro (h | h | h) <;> cases h)
    rcases hcase with ⟨a', p', e1, hf⟩ | ⟨ch', e1, hf⟩ | ⟨ch', e1, _⟩
    · cases e1
    · cases e1
      obtain ⟨cs, x, r, hw, hnd, hedge, hr, _⟩ := (findParents_circular_iff ps S t (hn ▸ hg) ch).mp hf
      exact ⟨x, r, hedge, walk_mem_reach hw hr⟩
    · cases e1
  · intro T ch he
    obtain ⟨n, t, hg, hn, hcase⟩ := key _ he (by rintro (h | h | h) <;> cases h)
    rcases hcase with ⟨a', p', e1, hf⟩ | ⟨ch', e1, hf⟩ | ⟨ch', e1, hc⟩
    · cases e1
    · cases e1
    · cases e1
      obtain ⟨c, _, hcyc⟩ := checkIncludeCycles_cycle_sound ps S t (hn ▸ hg) ch hc
      exact ⟨c, hcyc⟩

/-- **Rejected otherwise.**  A set in which some registered template has a dangling `extends`
target, or lies on an `extends` cycle, or lies on an include cycle, or mentions an include target
that does not resolve, is never accepted (whatever the iteration orders); by `C11_rejection_kinds`
the graph error it is rejected with is a true one. -/
theorem C11_bad_graphs_rejected (ps : List String) (S : List Tpl) (o2 o3 : List String)
    (ho2 : ∀ k, has S k = true → k ∈ o2)
    (hbad : (∃ a p, Dangling ps S a p) ∨
            (∃ c, OnCycle (ExtEdge ps S) c) ∨
            (∃ c, has S c = true ∧ OnCycle (IncEdge ps S) c) ∨
            (∃ t n, get S t.name = some t ∧ n ∈ t.includeCalls ∧ resolve ps S n = none)) :
    ∀ d, derive ps S o2 o3 ≠ .ok d := by
  intro d h
  rcases hbad with ⟨a, p, hd⟩ | ⟨c, dd, hcd, ⟨ds, wd⟩⟩ | ⟨c, hc, hcyc⟩ | ⟨t, n, ht, hn, hr⟩
  · have hd2 := hd
    obtain ⟨t, hg, _, _⟩ := hd2
    have hn := get_name hg
    obtain ⟨⟨cs, x, hw, hroot, _⟩, _, _⟩ := C11_accepted_graphs ps S o2 o3 d h ho2 t (hn ▸ hg)
    rw [hn] at hw
    cases hw with
    | nil => exact Dangling.not_root hd hroot
    | cons e _ => exact Dangling.no_edge hd e
  · obtain ⟨t, p, hg, _, _⟩ := hcd
    have hn := get_name hg
    obtain ⟨⟨cs, x, hw, hroot, hnd⟩, _, _⟩ := C11_accepted_graphs ps S o2 o3 d h ho2 t (hn ▸ hg)
    rw [hn] at hw hnd
    -- the cycle as a walk from `c` back to `c`
    have wc : Walk (ExtEdge ps S) c (dd :: ds) c := .cons ⟨t, p, hg, ‹_›, ‹_›⟩ wd
    have hcmem : c ∈ dd :: ds := walk_last_mem wc (by simp)
    rcases walk_comparable (E := ExtEdge ps S) (fun _ _ _ h h' => h.functional h') wc hw with
      ⟨rest, h1, _⟩ | ⟨rest, h1, h2⟩
    · -- the accepted walk passes through `c` again
      have : c ∈ cs := by rw [h1]; exact List.mem_append_left _ hcmem
      exact (List.nodup_cons.mp hnd).1 this
    · cases rest with
      | nil =>
        have : c ∈ cs := by
          have := h1 ▸ hcmem
          simpa using this
        exact (List.nodup_cons.mp hnd).1 this
      | cons r rest' =>
        cases h2 with
        | cons e _ => exact hroot.no_edge e
  · obtain ⟨t, ht⟩ := has_iff_get.mp hc
    have hn := get_name ht
    obtain ⟨_, hno, _⟩ := C11_accepted_graphs ps S o2 o3 d h ho2 t (hn ▸ ht)
    exact hno ⟨c, by rw [hn]; exact Reach.refl c, hcyc⟩
  · obtain ⟨_, _, hall⟩ := C11_accepted_graphs ps S o2 o3 d h ho2 t ht
    obtain ⟨r, hr', _⟩ := hall n hn
    rw [hr] at hr'
    cases hr'


/-! ## Rendering accepted sets: bounded nesting

`Model/RenderSkel.lean` models exactly the instructions that start a nested `interpret`
(`RenderBlock`, `super()`, `Include`, component calls); fuel bounds the nesting depth, i.e. the
Rust recursion depth. -/

/-- Full strength of the second sentence of C11: every accepted set renders with bounded nesting.
**False of the current engine** (known findings F5a, F5b): see `render_terminates_is_false`. -/
def render_terminates : Prop :=
  ∀ (ps : List String) (S : List Tpl) (o2 o3 : List String) (d : Derived), derive ps S o2 o3 = .ok d →
    ∀ (view : String) (parents : List String), lookupParents d.parents view = some parents →
      ∃ fuel, renderTpl (envOf ps S d) parents fuel view ≠ .error .outOfFuel

/-- **Partial version, with the missing hypothesis spelled out**: if the render-time call graph
(`Calls`: root body → blocks through the lineage, `super()` → next level, block → nested block,
any chunk → the included template's own body, any chunk → component body) is acyclic — it admits
a rank decreasing along every call — then rendering any template never nests deeper than the rank
of its start node: with fuel `rank + 1` the render ends in text or in an error of the engine, never
in exhaustion.  Acceptance only guarantees this for the `extends` and the `include` sub-graphs. -/
theorem render_terminates_partial (env : REnv) (rank : Node → Nat)
    (hrank : ∀ a b, Calls env a b → rank b < rank a)
    (view : String) (parents : List String) :
    renderTpl env parents (rank (.body view (parents.head?.getD view)) + 1) view ≠ .error .outOfFuel := by
  unfold renderTpl
  simp only
  cases hg : get env.S (parents.head?.getD view) with
  | none => simp
  | some root =>
    simp only
    apply run_ne_fuel env rank hrank _ (.body view (parents.head?.getD view))
    · simp [nodeItems, hg]
    · simp [CtxFor]
    · omega

/-- the same, from the hypothesis as a named predicate -/
theorem render_terminates_of_acyclic (env : REnv) (h : CallGraphAcyclic env)
    (view : String) (parents : List String) :
    ∃ fuel, renderTpl env parents fuel view ≠ .error .outOfFuel := by
  obtain ⟨rank, hrank⟩ := h
  exact ⟨_, render_terminates_partial env rank hrank view parents⟩

/-- **The full-strength statement fails at the two witness sets.**  F5a (`P: a{b{}}`,
`C extends P: b{a{super()}}`) and F5b (`B: x{include "A"}`, `A extends B: x{super()}`) are accepted
by `finalize_templates`, and their renders exhaust every fuel: block `a` → `super()` → parent's
`a` → nested `b` → child's `b` → nested `a` → …, respectively block `x` → `super()` → parent's `x` →
include `A` → `A`'s own `x` → ….  Replayed on the real engine by the harness in a child process
(stack overflow). -/
theorem render_terminates_is_false : ¬ render_terminates := by
  intro h
  obtain ⟨fuel, hf⟩ := h [] f5aSet ["C", "P"] ["C", "P"] f5aDerived f5a_accepted "C" ["P"] (by decide)
  exact hf (f5a_diverges fuel)

/-- the second witness -/
theorem render_diverges_F5b :
    derive [] f5bSet ["A", "B"] ["A", "B"] = .ok f5bDerived ∧
    ∀ fuel, renderTpl (envOf [] f5bSet f5bDerived) ["B"] fuel "A" = .error .outOfFuel :=
  ⟨f5b_accepted, f5b_diverges⟩

/-- …and neither witness has an acyclic call graph (so the partial theorem does not apply to them) -/
theorem F5_call_graphs_cyclic : ¬ CallGraphAcyclic f5aEnv ∧ ¬ CallGraphAcyclic f5bEnv := by
  constructor
  · intro h
    obtain ⟨fuel, hf⟩ := render_terminates_of_acyclic f5aEnv h "C" ["P"]
    exact hf (f5a_diverges fuel)
  · intro h
    obtain ⟨fuel, hf⟩ := render_terminates_of_acyclic f5bEnv h "A" ["B"]
    exact hf (f5b_diverges fuel)

/-- The hypothesis of the partial theorem is satisfiable (a single template with one block: body →
block, rank 2 bounds every call), and the skeleton then produces the text the harness generator
writes for that summary. -/
example : renderTpl { ps := [], S := [{ f5bB with blocks := [⟨"x", false, none, []⟩] }],
                      lineage := [("B", [("x", ["B"])])], comps := [] } [] 3 "B"
    = .ok "{B:[x@B:]}" := by rfl

end Tera.C11
