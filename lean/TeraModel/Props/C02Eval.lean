/-
C02, evaluation half — `and`/`or` evaluate left to right, stop at the deciding operand and yield
it; untaken ternary branches are not evaluated; exactly one level of undefined is tolerated;
`?.`/`?[` turn none/undefined bases into undefined; unsupported operand kinds are errors.

All statements are about the evaluator Model/Eval.lean, which harness/src/bin/c03.rs compares with
the real engine (on the real parser's AST) on every run, together with direct `throw()`-based
oracles for laziness and hand-written tables for the undefined and operand-kind rules.

Fuel: `evalExpr (fuel+1)` evaluates the operands of its expression with `fuel`; every statement
below holds for every fuel (running out of fuel is the explicit error `Err.fuel`).
-/
import TeraModel.Lemmas.EvalOps
import TeraModel.Lemmas.EvalFuel
namespace Tera.C02Eval
open Tera

/-! ## `and` / `or` -/

/-- `and_or_short_circuit`: the left operand is evaluated first; when it decides (`and`: falsy,
`or`: truthy) the result is that operand's VALUE (not a boolean) and the right operand is not
evaluated: replacing it by any expression `r'` — one that errors, a `throw()`, an undefined
lookup — does not change the result. -/
theorem and_or_short_circuit (fuel : Nat) (env : Env) (sc : Scope) (l r r' : Expr) (a : Value)
    (h : evalExpr fuel env sc l = .ok a) :
    (a.isTruthy = false →
      evalExpr (fuel + 1) env sc (.binary .And l r) = .ok a
      ∧ evalExpr (fuel + 1) env sc (.binary .And l r') = evalExpr (fuel + 1) env sc (.binary .And l r))
    ∧ (a.isTruthy = true →
      evalExpr (fuel + 1) env sc (.binary .Or l r) = .ok a
      ∧ evalExpr (fuel + 1) env sc (.binary .Or l r') = evalExpr (fuel + 1) env sc (.binary .Or l r)) := by
  constructor <;> intro ht <;> simp [evalExpr, h, ht]

/-- When the left operand does not decide, the result is the right operand's result — its value
whatever its kind, or its error. -/
theorem and_or_yield_right (fuel : Nat) (env : Env) (sc : Scope) (l r : Expr) (a : Value)
    (h : evalExpr fuel env sc l = .ok a) :
    (a.isTruthy = true → evalExpr (fuel + 1) env sc (.binary .And l r) = evalExpr fuel env sc r)
    ∧ (a.isTruthy = false → evalExpr (fuel + 1) env sc (.binary .Or l r) = evalExpr fuel env sc r) := by
  constructor <;> intro ht <;> simp [evalExpr, h, ht]

/-- Left to right: an error of the left operand is the result, whatever the right operand is. -/
theorem and_or_left_first (fuel : Nat) (env : Env) (sc : Scope) (l r : Expr) (e : Err)
    (h : evalExpr fuel env sc l = .error e) :
    evalExpr (fuel + 1) env sc (.binary .And l r) = .error e
    ∧ evalExpr (fuel + 1) env sc (.binary .Or l r) = .error e := by
  constructor <;> simp [evalExpr, h]

/-- `ternary_lazy`: only the chosen branch is evaluated: the other one can be replaced by any
expression without changing the result, and the result is the chosen branch's result. -/
theorem ternary_lazy (fuel : Nat) (env : Env) (sc : Scope) (c t f x : Expr) (v : Value)
    (h : evalExpr fuel env sc c = .ok v) :
    (v.isTruthy = true →
      evalExpr (fuel + 1) env sc (.ternary c t f) = evalExpr fuel env sc t
      ∧ evalExpr (fuel + 1) env sc (.ternary c t x) = evalExpr (fuel + 1) env sc (.ternary c t f))
    ∧ (v.isTruthy = false →
      evalExpr (fuel + 1) env sc (.ternary c t f) = evalExpr fuel env sc f
      ∧ evalExpr (fuel + 1) env sc (.ternary c x f) = evalExpr (fuel + 1) env sc (.ternary c t f)) := by
  constructor <;> intro ht <;> simp [evalExpr, h, ht]

/-! ### the hypotheses are satisfiable: `throw()` in the dead position does not fire, in the live
position it does -/

def F0 : FloatOps :=
  { add := fun a _ => a, sub := fun a _ => a, mul := fun a _ => a, div := fun a _ => a,
    remEuclid := fun a _ => a, divEuclid := fun a _ => a, powf := fun a _ => a, neg := fun a => a }
def env0 : Env := { templates := [], F := F0, fmtF64 := fun _ => [] }
def bomb : Expr := .functionCall "throw" [("message", .const (.str false ['x']))]
def sc0 : Scope := Scope.root [("z", .u64 0), ("s", .str false ['a'])] []

example : evalExpr 9 env0 sc0 (.binary .And (.var "z") bomb) = .ok (.u64 0) := by
  simp [evalExpr, sc0, Scope.root, Scope.getValue, Scope.resolve, Scope.loopsGet, Ctx.get,
    ForLoop.lookupCtx, Value.isTruthy, Value.isUndef]
example : evalExpr 9 env0 sc0 (.binary .Or (.var "s") bomb) = .ok (.str false ['a']) := by
  simp [evalExpr, sc0, Scope.root, Scope.getValue, Scope.resolve, Scope.loopsGet, Ctx.get,
    ForLoop.lookupCtx, Value.isTruthy, Value.isUndef]
example : evalExpr 9 env0 sc0 (.binary .And (.var "s") bomb) = .error .thrown := by
  simp [evalExpr, sc0, bomb, Scope.root, Scope.getValue, Scope.resolve, Scope.loopsGet, Ctx.get,
    ForLoop.lookupCtx, Value.isTruthy, Value.isUndef, applyFunction, kwGet, evalKwargs, Except.map]
example : evalExpr 9 env0 sc0 (.ternary (.var "z") bomb (.const (.u64 1))) = .ok (.u64 1) := by
  simp [evalExpr, sc0, Scope.root, Scope.getValue, Scope.resolve, Scope.loopsGet, Ctx.get,
    ForLoop.lookupCtx, Value.isTruthy, Value.isUndef]

/-! ### fuel is only a recursion bound -/

/-- `eval_fuel_irrelevant`: once an evaluation does not end in the explicit out-of-fuel outcome,
every larger fuel gives the same result; so the statements of this file, made at the smallest
fuel that evaluates the operands, hold for every larger fuel as well. -/
theorem eval_fuel_irrelevant (env : Env) (n m : Nat) (hnm : n ≤ m) (sc : Scope) (e : Expr)
    (r : Except Err Value) (h : evalExpr n env sc e = r) (hr : r ≠ .error .fuel) :
    evalExpr m env sc e = r := by
  have : m = n + (m - n) := by omega
  rw [this]
  exact (fuelLe_add env n (m - n)).expr sc e r h hr

/-- `and_or_short_circuit` with the fuel quantified away: if the left operand of `and` evaluates
(with some fuel) to a falsy value `a`, then with ANY larger fuel `l and r` is `a`, for EVERY right
operand `r`; dually for `or`. -/
theorem and_or_short_circuit_any_fuel (env : Env) (n m : Nat) (hm : n < m) (sc : Scope)
    (l r : Expr) (a : Value) (h : evalExpr n env sc l = .ok a) :
    (a.isTruthy = false → evalExpr m env sc (.binary .And l r) = .ok a)
    ∧ (a.isTruthy = true → evalExpr m env sc (.binary .Or l r) = .ok a) := by
  obtain ⟨h1, h2⟩ := and_or_short_circuit n env sc l r r a h
  constructor
  · intro ht
    exact eval_fuel_irrelevant env (n + 1) m (by omega) sc _ _ (h1 ht).1 (by simp)
  · intro ht
    exact eval_fuel_irrelevant env (n + 1) m (by omega) sc _ _ (h2 ht).1 (by simp)

/-! ## One level of undefined -/

/-- Printing undefined is an error (`{{ e }}` where `e` evaluates to undefined). -/
theorem print_undefined_errors (fuel : Nat) (env : Env) (ae : Bool) (st : St) (e : Expr)
    (h : evalExpr fuel env st.scope e = .ok .undef) :
    execNode (fuel + 1) env ae st (.expression e) = .error .undefined := by
  simp [execNode, h, writeValue, Value.isUndef, Except.map]

/-- Math on undefined is an error, on either side and whatever the other operand is, for every
arithmetic operator; so is negating it. -/
theorem math_on_undefined_errors (env : Env) (op : BinaryOperator) (v : Value)
    (hop : op = .Mul ∨ op = .Div ∨ op = .FloorDiv ∨ op = .Mod ∨ op = .Plus ∨ op = .Minus ∨ op = .Power) :
    binop env op .undef v = .error (.num .notNumber)
    ∧ (∃ e, binop env op v .undef = .error e)
    ∧ liftNum (negate env.F .undef) = .error (.num .notNumber) := by
  refine ⟨?_, ?_, ?_⟩
  · rcases hop with h | h | h | h | h | h | h <;> subst h <;>
      simp [binop, mathBinop, Value.isNumber]
  · rcases hop with h | h | h | h | h | h | h <;> subst h <;>
      simp [binop, mathBinop, Value.isNumber] <;> (cases hv : v.isNumber <;> simp)
  · simp [negate, Value.asNumber, Value.asI128, Value.intVal, Value.isNumber, liftNum]

/-- … and as an expression: `l OP r` with an undefined operand is an error. -/
theorem math_expr_on_undefined_errors (fuel : Nat) (env : Env) (sc : Scope) (op : BinaryOperator)
    (l r : Expr) (v : Value)
    (hop : op = .Mul ∨ op = .Div ∨ op = .FloorDiv ∨ op = .Mod ∨ op = .Plus ∨ op = .Minus ∨ op = .Power)
    (hl : evalExpr fuel env sc l = .ok .undef) (hr : evalExpr fuel env sc r = .ok v) :
    evalExpr (fuel + 1) env sc (.binary op l r) = .error (.num .notNumber) := by
  have := (math_on_undefined_errors env op v hop).1
  rcases hop with h | h | h | h | h | h | h <;> subst h <;> simp [evalExpr, hl, hr, this]

/-- Looking up a field, an index or a slice on undefined is an error (without `?`). -/
theorem access_on_undefined_errors (fuel : Nat) (env : Env) (sc : Scope) (e sub : Expr)
    (name : String) (s : Value) (start stop step : Option Expr)
    (h : evalExpr fuel env sc e = .ok .undef) (hs : evalExpr fuel env sc sub = .ok s)
    (h1 : ∃ v, evalOpt fuel env sc start .none = .ok v) (h2 : ∃ v, evalOpt fuel env sc stop .none = .ok v)
    (h3 : ∃ v, evalOpt fuel env sc step (.u64 1) = .ok v) :
    evalExpr (fuel + 1) env sc (.getAttr e name false) = .error .undefined
    ∧ evalExpr (fuel + 1) env sc (.getItem e sub false) = .error .undefined
    ∧ evalExpr (fuel + 1) env sc (.slice e start stop step false) = .error .undefined := by
  obtain ⟨v1, h1⟩ := h1
  obtain ⟨v2, h2⟩ := h2
  obtain ⟨v3, h3⟩ := h3
  refine ⟨?_, ?_, ?_⟩ <;> simp [evalExpr, h, hs, h1, h2, h3, Value.isUndef]

/-- An undefined index is an error too. -/
theorem undefined_index_errors (fuel : Nat) (env : Env) (sc : Scope) (e sub : Expr) (a : Value)
    (h : evalExpr fuel env sc e = .ok a) (ha : a.isUndef = false) (hn : a.isNone = false)
    (hs : evalExpr fuel env sc sub = .ok .undef) (opt : Bool) :
    evalExpr (fuel + 1) env sc (.getItem e sub opt) = .error .undefined := by
  have hu : Value.isUndef .undef = true := rfl
  simp [evalExpr, h, hs, ha, hn, hu]

/-- A missing variable and a missing LAST field are undefined, not errors … -/
theorem missing_is_undefined (fuel : Nat) (env : Env) (sc : Scope) (x : String) (e : Expr)
    (name : String) (es : Entries) (hx : x ≠ "__tera_context")
    (h : evalExpr fuel env sc e = .ok (.map es)) (hmiss : mapGet es (.str name.toList) = none) :
    evalExpr (fuel + 1) env sc (.var x) = .ok (sc.getValue x)
    ∧ evalExpr (fuel + 1) env sc (.getAttr e name false) = .ok .undef := by
  constructor
  · simp [evalExpr, hx]
  · simp [evalExpr, h, Value.isUndef, Value.getAttr, hmiss]

/-- … that can be tested (`is defined` / `is undefined`), defaulted, or-ed, and-ed, negated, used
as a condition: none of these is an error. -/
theorem undefined_tolerated (fuel : Nat) (env : Env) (sc : Scope) (e d r : Expr) (dv : Value)
    (h : evalExpr fuel env sc e = .ok .undef)
    (hd : evalKwargs fuel env sc [("value", d)] = .ok [("value", dv)])
    (hk : evalKwargs fuel env sc [] = .ok []) :
    evalExpr (fuel + 1) env sc (.test e "defined" []) = .ok (.bool false)
    ∧ evalExpr (fuel + 1) env sc (.test e "undefined" []) = .ok (.bool true)
    ∧ evalExpr (fuel + 1) env sc (.filter e "default" [("value", d)]) = .ok dv
    ∧ evalExpr (fuel + 1) env sc (.binary .Or e r) = evalExpr fuel env sc r
    ∧ evalExpr (fuel + 1) env sc (.binary .And e r) = .ok .undef
    ∧ evalExpr (fuel + 1) env sc (.unary .Not e) = .ok (.bool true)
    ∧ evalExpr (fuel + 1) env sc (.ternary e r d) = evalExpr fuel env sc d := by
  refine ⟨?_, ?_, ?_, ?_, ?_, ?_, ?_⟩
  · simp [evalExpr, h, hk, applyTest, Value.isUndef, Except.map]
  · simp [evalExpr, h, hk, applyTest, Value.isUndef, Except.map]
  · simp [evalExpr, h, hd, applyFilter, kwGet, Value.isUndef]
  · simp [evalExpr, h, Value.isTruthy]
  · simp [evalExpr, h, Value.isTruthy]
  · simp [evalExpr, h, Value.isTruthy]
  · simp [evalExpr, h, Value.isTruthy]

/-- The keyword-argument hypotheses of `undefined_tolerated` are what evaluating the arguments
gives: no arguments evaluate to no arguments, one argument to its value. -/
theorem kwargs_eval (fuel : Nat) (env : Env) (sc : Scope) (d : Expr) (dv : Value)
    (hd : evalExpr fuel env sc d = .ok dv) :
    evalKwargs (fuel + 1) env sc [] = .ok []
    ∧ evalKwargs (fuel + 1) env sc [("value", d)] = .ok [("value", dv)] := by
  constructor
  · simp [evalKwargs]
  · cases fuel with
    | zero => simp [evalExpr] at hd
    | succ f => simp [evalKwargs, hd, Except.map]

/-- `optional_chaining`: `?.`, `?[` and `?[a:b]` turn a none or undefined base into undefined
instead of an error … -/
theorem optional_chaining (fuel : Nat) (env : Env) (sc : Scope) (e sub : Expr) (name : String)
    (a s : Value) (start stop step : Option Expr)
    (h : evalExpr fuel env sc e = .ok a) (ha : a.isUndef = true ∨ a.isNone = true)
    (hs : evalExpr fuel env sc sub = .ok s)
    (h1 : ∃ v, evalOpt fuel env sc start .none = .ok v) (h2 : ∃ v, evalOpt fuel env sc stop .none = .ok v)
    (h3 : ∃ v, evalOpt fuel env sc step (.u64 1) = .ok v) :
    evalExpr (fuel + 1) env sc (.getAttr e name true) = .ok .undef
    ∧ evalExpr (fuel + 1) env sc (.getItem e sub true) = .ok .undef
    ∧ evalExpr (fuel + 1) env sc (.slice e start stop step true) = .ok .undef := by
  obtain ⟨v1, h1⟩ := h1
  obtain ⟨v2, h2⟩ := h2
  obtain ⟨v3, h3⟩ := h3
  rcases ha with ha | ha <;> refine ⟨?_, ?_, ?_⟩ <;> simp [evalExpr, h, hs, h1, h2, h3, ha]

/-- … and change nothing for any other base: the optional form then behaves exactly like the
plain one (so errors on a base that is there are not hidden). -/
theorem optional_is_plain_on_defined (fuel : Nat) (env : Env) (sc : Scope) (e sub : Expr)
    (name : String) (a : Value) (start stop step : Option Expr)
    (h : evalExpr fuel env sc e = .ok a) (ha : a.isUndef = false) (hn : a.isNone = false) :
    evalExpr (fuel + 1) env sc (.getAttr e name true) = evalExpr (fuel + 1) env sc (.getAttr e name false)
    ∧ evalExpr (fuel + 1) env sc (.getItem e sub true) = evalExpr (fuel + 1) env sc (.getItem e sub false)
    ∧ evalExpr (fuel + 1) env sc (.slice e start stop step true)
        = evalExpr (fuel + 1) env sc (.slice e start stop step false) := by
  refine ⟨?_, ?_, ?_⟩ <;> simp [evalExpr, h, ha, hn]

/-- Exactly ONE level: the undefined that a missing field (or an optional access) produced cannot
be dereferenced again — `a.missing.x`, `a.missing[0]` are errors even under `is defined` or
`default`, because the argument of a test or filter is evaluated first. -/
theorem second_level_errors (fuel : Nat) (env : Env) (sc : Scope) (e : Expr) (n1 n2 : String)
    (es : Entries) (kw : List (String × Expr))
    (h : evalExpr fuel env sc e = .ok (.map es)) (hmiss : mapGet es (.str n1.toList) = none) :
    evalExpr (fuel + 2) env sc (.getAttr (.getAttr e n1 false) n2 false) = .error .undefined
    ∧ evalExpr (fuel + 3) env sc (.test (.getAttr (.getAttr e n1 false) n2 false) "defined" kw) = .error .undefined
    ∧ evalExpr (fuel + 3) env sc (.filter (.getAttr (.getAttr e n1 false) n2 false) "default" kw) = .error .undefined := by
  have h1 : evalExpr (fuel + 1) env sc (.getAttr e n1 false) = .ok .undef := by
    simp [evalExpr, h, Value.isUndef, Value.getAttr, hmiss]
  have h2 : evalExpr (fuel + 2) env sc (.getAttr (.getAttr e n1 false) n2 false) = .error .undefined := by
    rw [evalExpr]; simp [h1, Value.isUndef]
  refine ⟨h2, ?_, ?_⟩
  · rw [evalExpr]; simp [h2]
  · rw [evalExpr]; simp [h2]

/-! ## Operand kinds (`type_errors`) -/

/-- The kinds the operators distinguish: the four integer encodings and floats are one kind. -/
inductive Kind where
  | undef | none | bool | num | str | arr | map | bytes
  deriving DecidableEq, Repr

def kindOf : Value → Kind
  | .undef => .undef | .none => .none | .bool _ => .bool
  | .u64 _ | .i64 _ | .u128 _ | .i128 _ | .f64 _ => .num
  | .str .. => .str | .arr _ => .arr | .map _ => .map | .bytes _ => .bytes

theorem isNumber_iff_kind (v : Value) : v.isNumber = true ↔ kindOf v = .num := by
  cases v <;> simp [Value.isNumber, kindOf]

def isMathOp (op : BinaryOperator) : Prop :=
  op = .Mul ∨ op = .Div ∨ op = .FloorDiv ∨ op = .Mod ∨ op = .Plus ∨ op = .Minus ∨ op = .Power

/-- `type_errors`, arithmetic (`* / // % + - **`): the operation is rejected as "not a number"
exactly when an operand is not of a numeric kind — there is no coercion of strings, bools, none,
undefined, arrays, maps or bytes; when both operands are numbers the only possible errors are
arithmetic ones (overflow, division by zero, range: C13). -/
theorem type_errors_math (env : Env) (op : BinaryOperator) (hop : isMathOp op) (a b : Value) :
    binop env op a b = .error (.num .notNumber) ↔ ¬ (kindOf a = .num ∧ kindOf b = .num) := by
  rw [← isNumber_iff_kind, ← isNumber_iff_kind]
  have lift : ∀ r : Except NumErr Value, r ≠ .error .notNumber → liftNum r ≠ .error (.num .notNumber) := by
    intro r hr
    cases r with
    | ok v => simp [liftNum]
    | error e => simp [liftNum]; intro h; exact hr (by rw [h])
  cases ha : a.isNumber <;> cases hb : b.isNumber
  · rcases hop with h | h | h | h | h | h | h <;> subst h <;> simp [binop, mathBinop, ha, hb]
  · rcases hop with h | h | h | h | h | h | h <;> subst h <;> simp [binop, mathBinop, ha, hb]
  · rcases hop with h | h | h | h | h | h | h <;> subst h <;> simp [binop, mathBinop, ha, hb]
  · simp only [true_and, not_true_eq_false, iff_false, and_self]
    rcases hop with h | h | h | h | h | h | h <;> subst h <;>
      simp only [binop, mathBinop, ha, hb, Bool.and_self, Bool.not_true, Bool.false_eq_true, ↓reduceIte]
    · exact lift _ (mathOp_ne_notNumber _ _ a b ha hb)
    · exact lift _ (div_ne_notNumber _ a b ha hb)
    · exact lift _ (floorDiv_ne_notNumber _ a b ha hb)
    · exact lift _ (rem_ne_notNumber _ a b ha hb)
    · exact lift _ (mathOp_ne_notNumber _ _ a b ha hb)
    · exact lift _ (mathOp_ne_notNumber _ _ a b ha hb)
    · exact lift _ (pow_ne_notNumber _ a b ha hb)

/-- In particular an arithmetic operation can only succeed on two numbers. -/
theorem math_ok_only_on_numbers (env : Env) (op : BinaryOperator) (hop : isMathOp op) (a b v : Value)
    (h : binop env op a b = .ok v) : kindOf a = .num ∧ kindOf b = .num := by
  by_cases hn : kindOf a = .num ∧ kindOf b = .num
  · exact hn
  · have := (type_errors_math env op hop a b).mpr hn
    rw [h] at this
    cases this

/-- Unary minus: rejected as "not a number" exactly on non-numbers; `not` never fails. -/
theorem type_errors_unary (fuel : Nat) (env : Env) (sc : Scope) (e : Expr) (v : Value)
    (h : evalExpr fuel env sc e = .ok v) :
    (evalExpr (fuel + 1) env sc (.unary .Minus e) = .error (.num .notNumber) ↔ kindOf v ≠ .num)
    ∧ evalExpr (fuel + 1) env sc (.unary .Not e) = .ok (.bool (!v.isTruthy)) := by
  constructor
  · have hn := negate_notNumber_iff env.F v
    have hk := isNumber_iff_kind v
    simp only [evalExpr, h]
    cases hr : negate env.F v with
    | ok x =>
      simp only [liftNum]
      constructor
      · intro h'; cases h'
      · intro h'
        have : v.isNumber = false := by
          cases hv : v.isNumber
          · rfl
          · exact absurd (hk.mp hv) h'
        rw [hn.mpr this] at hr
        cases hr
    | error er =>
      simp only [liftNum]
      constructor
      · intro h'
        have : er = .notNumber := by injection h' with h'; injection h'
        subst this
        have := hn.mp hr
        intro hk'
        rw [hk.mpr hk'] at this
        cases this
      · intro h'
        have : v.isNumber = false := by
          cases hv : v.isNumber
          · rfl
          · exact absurd (hk.mp hv) h'
        rw [hn.mpr this] at hr
        injection hr with hr
        rw [hr]
  · simp [evalExpr, h]

def isOrderOp (op : BinaryOperator) : Prop :=
  op = .LessThan ∨ op = .GreaterThan ∨ op = .LessThanOrEqual ∨ op = .GreaterThanOrEqual

/-- `type_errors`, ordering (`< > <= >=`): the only possible error is "cannot compare", raised
exactly when the two values have no order (`partial_cmp` is `None`); otherwise the result is a
bool. -/
theorem type_errors_ordering (env : Env) (op : BinaryOperator) (hop : isOrderOp op) (a b : Value) :
    (partialCmp a b = none → binop env op a b = .error .notComparable)
    ∧ (∀ o, partialCmp a b = some o → ∃ r, binop env op a b = .ok (.bool r)) := by
  constructor
  · intro h
    rcases hop with h' | h' | h' | h' <;> subst h' <;> simp [binop, orderingBinop, h]
  · intro o h
    rcases hop with h' | h' | h' | h' <;> subst h' <;> simp [binop, orderingBinop, h]

/-- The kind table of the order: values of different kinds never compare (so `1 < "2"`,
`none < 0`, `undefined < 1`, `"a" < ["a"]`, `true < 1` are errors), two maps never compare, and
two values of the same scalar kind always do (numbers across all encodings: C13). -/
theorem cmp_kind_table (a b : Value) :
    (kindOf a ≠ kindOf b → partialCmp a b = none)
    ∧ (kindOf a = .map → partialCmp a b = none)
    ∧ (kindOf a = kindOf b → (kindOf a = .undef ∨ kindOf a = .none ∨ kindOf a = .bool ∨ kindOf a = .str
          ∨ kindOf a = .bytes) → (partialCmp a b).isSome = true) := by
  refine ⟨?_, ?_, ?_⟩
  · intro h
    cases a <;> cases b <;>
      first
      | (exfalso; exact h rfl)
      | rfl
      | simp [partialCmp, numPartialCmp, cmpF64ToNumber, Value.asI128, Value.asU128, Value.intVal,
          Value.isInteger]
  · intro h
    cases a <;> simp [kindOf] at h
    cases b <;> rfl
  · intro hk hs
    cases a <;> cases b <;> simp [kindOf] at hk hs <;> simp [partialCmp]

/-- Numbers always compare (well-formed payloads: what the Rust integer types guarantee). -/
theorem numbers_compare (a b : Value) (ha : kindOf a = .num) (hb : kindOf b = .num)
    (wa : a.scalarWF) (wb : b.scalarWF) : (partialCmp a b).isSome = true := by
  have key : ∀ v : Value, v.isInteger = true → v.scalarWF → v.asU128 = none → v.asI128 ≠ none := by
    intro v hv hw hu
    cases v <;> simp [Value.isInteger] at hv
    all_goals
      simp only [Value.asU128, Value.asI128, Value.intVal] at hu ⊢
      split at hu
      · cases hu
      · rename_i hnu
        split
        · simp
        · rename_i hni
          exfalso
          simp only [Value.scalarWF, inU128, inI128, inI64, I128_MIN, I128_MAX, U128_MAX, U64_MAX,
            I64_MIN, I64_MAX] at hw hnu hni
          omega
  have intCase : ∀ x y : Value, x.isInteger = true → y.isInteger = true → x.scalarWF → y.scalarWF →
      (intPartialCmp x y).isSome = true := by
    intro x y hx hy wx wy
    unfold intPartialCmp
    cases hxu : x.asU128 <;> cases hyu : y.asU128 <;> simp
    have h1 := key x hx wx hxu
    have h2 := key y hy wy hyu
    cases hxi : x.asI128 with
    | none => exact absurd hxi h1
    | some _ =>
      cases hyi : y.asI128 with
      | none => exact absurd hyi h2
      | some _ => simp
  have fCase : ∀ (x : F64) (y : Value), y.isInteger = true → y.scalarWF →
      (cmpF64ToNumber x y).isSome = true := by
    intro x y hy wy
    unfold cmpF64ToNumber
    cases hyi : y.asI128 with
    | some _ => simp
    | none =>
      cases hyu : y.asU128 with
      | some _ => simp
      | none => exact absurd hyi (key y hy wy hyu)
  cases a <;> simp [kindOf] at ha <;> cases b <;> simp [kindOf] at hb
  all_goals simp only [partialCmp, numPartialCmp]
  all_goals first
    | (have := intCase _ _ rfl rfl wa wb; simpa [Value.isInteger] using this)
    | exact fCase _ _ rfl wb
    | (rw [Option.isSome_map]; exact fCase _ _ rfl wa)
    | simp

/-- `type_errors`, the operators that accept every pair of kinds: `==` and `!=` (values of
different kinds are simply unequal) and `~` (both operands are converted to text). -/
theorem type_errors_total_ops (env : Env) (a b : Value) :
    binop env .Equal a b = .ok (.bool (valueEq a b))
    ∧ binop env .NotEqual a b = .ok (.bool (!valueEq a b))
    ∧ (∃ s, binop env .StrConcat a b = .ok (.str false s)) := by
  refine ⟨rfl, rfl, ?_⟩
  cases a <;> cases b <;> simp [binop]

/-- `type_errors`, membership: `x in c` is an error exactly when `c` is not an array, a string or
a map (whatever `x` is); `x not in c` is `not (x in c)` in the AST. -/
theorem type_errors_in (env : Env) (x c : Value) :
    (binop env .In x c = .error .inContainer ↔ ¬ (kindOf c = .arr ∨ kindOf c = .str ∨ kindOf c = .map))
    ∧ ((kindOf c = .arr ∨ kindOf c = .str ∨ kindOf c = .map) → ∃ r, binop env .In x c = .ok (.bool r)) := by
  constructor
  · cases c <;> simp [binop, Value.contains, kindOf] <;>
      first
      | (cases x <;> simp [Value.asKey])
      | skip
  · intro h
    cases c <;> simp [kindOf] at h
    all_goals first
      | exact ⟨_, rfl⟩
      | (cases x <;> exact ⟨_, rfl⟩)

end Tera.C02Eval
