/-
C09WF — acceptance by the bytecode checker is preserved by the optimisation pass (the bridge
between the compiler model, whose chunks pass `WellFormed.verify`, and the VM model, which runs the
OPTIMISED chunks).

Property theorems only; helper lemmas in Lemmas/OptimizeWF.lean (which builds on the group / PcRel
machinery of Lemmas/Optimize.lean and Lemmas/OptimizeSim.lean).
-/
import TeraModel.Lemmas.OptimizeWF
import TeraModel.Props.C09
import TeraModel.Props.C07
namespace Tera.C09WF
open Tera Tera.Optimize Tera.WellFormed Tera.OptimizeWF

/-- `optimize_preserves_verify`: for every chunk whose jump operands are in range (what
`C09.optimize_no_panic` needs; `C07Compile.compile_meets_optimize_hypotheses` gives it for every
compiled chunk) and every table the checker `WellFormed.verify` accepts for it, the pass returns
a chunk, and `newTable` — the old table read at the first instruction of every group, with the
loop ends stored in the abstract states mapped through `index_map` (entries whose stored loop ends
are not jump operands of the chunk, which nothing checked can lead to, are left out) — is a table
the checker accepts for the optimised chunk.  A fused `LoadPath` nets +1 on the stack like
`LoadName; LoadAttr*`, a fused `WritePath` nets 0 like `…; WriteTop`; every jump operand and every
loop end is a group start, so its table entry survives.  `NoFused` / `PathSpans` are not needed. -/
theorem optimize_preserves_verify (c : List Entry) (table : List (Option St))
    (hT : C09.TargetsInRange c) (hv : verify c table = true) :
    ∃ c', optimize c = .ok c' ∧ verify c' (newTable c table) = true :=
  ⟨ChunkVm.optCode c, C09.optimize_no_panic c hT, verify_optCode c table hT hv⟩

/-- The same with the table left existential, under the three hypotheses of
`C09.optimize_preserves` (as asked for by the pipeline; two of them are not used). -/
theorem optimize_preserves_verify' (c : List Entry) (table : List (Option St))
    (hT : C09.TargetsInRange c) (_hN : C09.NoFused c) (_hS : PathVm.PathSpans c)
    (hv : verify c table = true) :
    ∃ c' table', optimize c = .ok c' ∧ verify c' table' = true := by
  obtain ⟨c', h1, h2⟩ := optimize_preserves_verify c table hT hv
  exact ⟨c', _, h1, h2⟩

/-- For the checker that infers its own table. -/
theorem optimize_preserves_wellFormed (c : List Entry) (hT : C09.TargetsInRange c)
    (hw : wellFormed c = true) : ∃ c' table', optimize c = .ok c' ∧ verify c' table' = true := by
  unfold wellFormed at hw
  cases hi : infer c with
  | none => rw [hi] at hw; cases hw
  | some table =>
    rw [hi] at hw
    obtain ⟨c', h1, h2⟩ := optimize_preserves_verify c table hT hw
    exact ⟨c', _, h1, h2⟩

/-- Consequence, through `C07.verify_sound`: the OPTIMISED chunk of a checked chunk never pops or
peeks an empty stack, never pops an empty capture stack, never appends to a non-list, never uses a
loop that is not there, only jumps within the chunk, and ends with the three stacks empty — on the
abstract machine of Model/WellFormed.lean, whichever way the value-dependent choices fall. -/
theorem optimized_chunk_sound (c : List Entry) (table : List (Option St))
    (hT : C09.TargetsInRange c) (hv : verify c table = true) :
    ∃ c', optimize c = .ok c' ∧
      (∀ pc s, C07.Reach c' pc s → ¬ C07.Panics c' pc s) ∧
      (∀ pc s, C07.Reach c' pc s → pc ≤ c'.length) ∧
      (∀ pc s, C07.Reach c' pc s → c'.length ≤ pc → s = St.empty) := by
  obtain ⟨c', h1, h2⟩ := optimize_preserves_verify c table hT hv
  exact ⟨c', h1, C07.verify_sound c' _ h2⟩

/-! The statement of the same preservation for p2_vm's value-level checker (`Vm.verify`, per-slot
flags) is the named Prop `C09WF.optimize_preserves_vverify_full` in Props/C09WFVm.lean (not
proved; that file says what a proof needs). -/

/-! ## The hypotheses are satisfiable; a spot check -/

/-- `{{ false and user.name }}` with a `for` around it: the checker accepts the compiled chunk and
the optimised one (the table is the constructed one). -/
def exC : List Entry :=
  [(.loadName "xs", ["s"]), (.other "StartIterate" "f", []), (.other "StoreLocal" "78", []),
   (.iterate 13, []), (.loadName "x", ["s"]), (.jumpIfFalseOrPop 8, []), (.loadName "user", ["s"]),
   (.loadAttr "name", ["s"]), (.writeTop, []), (.loadName "x", ["s"]), (.loadAttr "b", ["s"]),
   (.writeTop, []), (.jump 3, []), (.other "PopLoop" "", [])]

example : wellFormed exC = true := by decide

example : C09.TargetsInRange exC := by
  intro e he t ht
  simp only [exC, List.mem_cons, List.not_mem_nil, or_false] at he
  rcases he with rfl | rfl | rfl | rfl | rfl | rfl | rfl | rfl | rfl | rfl | rfl | rfl | rfl | rfl <;>
    simp [Instr.target?] at ht <;> (subst ht; decide)

/-- the optimised chunk (10 instructions: two paths fused, the `WriteTop` that is a jump target
kept) with the constructed table -/
example : (match infer exC with
    | some table => verify exC table && verify (ChunkVm.optCode exC) (newTable exC table)
    | none => false) = true := by decide

end Tera.C09WF
