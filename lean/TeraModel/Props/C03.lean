/-
C03 — Control flow, variable scoping, captures and includes behave as documented.

Property theorems only.  Part 1 is about the scoping model (Model/Scope.lean, mirror of
vm/state.rs) and the loop model (Model/ForLoopModel.lean, mirror of vm/for_loop.rs); part 2 is
about the big-step evaluator (Model/Eval.lean).  The models are tied to the engine by
harness/src/bin/c03.rs on every run (render results of generated programs, plus direct oracles).
-/
import TeraModel.Lemmas.EvalScope
import TeraModel.Lemmas.EvalRouting
import TeraModel.Lemmas.EvalFrame
import TeraModel.Lemmas.EvalFuel
namespace Tera.C03
open Tera

/-! ## Part 1a — name resolution (`State::get_value`) -/

/-- What each scope says about a name, in the documented order: every loop from the innermost
outwards, the assignments, the includer (its answer counts only when it is not undefined), the
render context, the global context.  `some v` = "this scope binds the name to `v`". -/
def scopeChain (s : Scope) (name : String) : List (Option Value) :=
  s.forLoops.map (fun l => l.get name)
    ++ [ s.setVariables.get name,
         (match s.includeParent with
          | some p => if (p.getValue name).isUndef then none else some (p.getValue name)
          | none => none),
         s.context.get name,
         (match s.globalContext with
          | some g => g.get name
          | none => none) ]

def firstSome : List (Option Value) → Option Value
  | [] => none
  | some v :: _ => some v
  | none :: rest => firstSome rest

/-- `lookup_order`: name lookup returns the binding of the first scope, in the documented order
(loops innermost first, assignments, includer, context, global context), that has one, and
undefined when none has. -/
theorem lookup_order (s : Scope) (name : String) :
    s.getValue name = (firstSome (scopeChain s name)).getD Value.undef := by
  obtain ⟨loops, setVars, parent, context, globalCtx⟩ := s
  rw [Scope.getValue_mk]
  unfold scopeChain Scope.resolve
  simp only [Scope.forLoops, Scope.setVariables, Scope.includeParent, Scope.context,
    Scope.globalContext]
  induction loops with
  | cons l rest ih =>
    simp only [Scope.loopsGet, List.map_cons, List.cons_append]
    cases hl : l.get name with
    | some v => simp [firstSome]
    | none => simpa [firstSome] using ih
  | nil =>
    simp only [Scope.loopsGet, List.map_nil, List.nil_append]
    cases hs : Ctx.get setVars name with
    | some v => simp [firstSome]
    | none =>
      cases parent with
      | none =>
        cases hc : Ctx.get context name with
        | some v => simp [firstSome, Value.isUndef, Scope.parentValue]
        | none =>
          cases globalCtx with
          | none => simp [firstSome, Value.isUndef, Scope.parentValue]
          | some g => cases hg : Ctx.get g name <;> simp [firstSome, Value.isUndef, Scope.parentValue, hg]
      | some p =>
        cases hp : (p.getValue name).isUndef with
        | false => simp [firstSome, Scope.parentValue, hp]
        | true =>
          cases hc : Ctx.get context name with
          | some v => simp [firstSome, Scope.parentValue, hp]
          | none =>
            cases globalCtx with
            | none => simp [firstSome, Scope.parentValue, hp]
            | some g => cases hg : Ctx.get g name <;> simp [firstSome, Scope.parentValue, hp, hg]

/-- An inner loop's binding shadows everything outside it. -/
theorem loop_binding_wins (l : ForLoop) (loops : List ForLoop) (sv : Ctx) (p : Option Scope)
    (c : Ctx) (g : Option Ctx) (name : String) (v : Value) (h : l.get name = some v) :
    (Scope.mk (l :: loops) sv p c g).getValue name = v := by
  simp [Scope.getValue_mk, Scope.resolve, Scope.loopsGet, h]

/-- Without a loop binding an assignment shadows the includer, the context and the global
context. -/
theorem assignment_shadows_context (loops : List ForLoop) (sv : Ctx) (p : Option Scope)
    (c : Ctx) (g : Option Ctx) (name : String) (v : Value)
    (hl : Scope.loopsGet loops name = none) (h : sv.get name = some v) :
    (Scope.mk loops sv p c g).getValue name = v := by
  simp [Scope.getValue_mk, Scope.resolve, hl, h]

/-- The render context shadows the global context (top-level template). -/
theorem context_shadows_global (c g : Ctx) (name : String) (v : Value) (h : c.get name = some v) :
    (Scope.root c g).getValue name = v := by
  have h0 : Ctx.get [] name = none := rfl
  simp [Scope.root, Scope.getValue_mk, Scope.resolve, Scope.loopsGet, Scope.parentValue, h, h0,
    Value.isUndef]

/-- The global context is consulted last. -/
theorem global_is_last (c g : Ctx) (name : String) (h : c.get name = none) :
    (Scope.root c g).getValue name = (g.get name).getD Value.undef := by
  have h0 : Ctx.get [] name = none := rfl
  simp [Scope.root, Scope.getValue_mk, Scope.resolve, Scope.loopsGet, Scope.parentValue, h, h0,
    Value.isUndef]

/-! ## Part 1b — assignments -/

/-- `set_in_loop_is_iteration_local` (1): inside a loop `{% set %}` writes into the innermost
loop's per-iteration assignments only: the render-wide assignments, the outer loops, the includer
link and the contexts are untouched. -/
theorem set_in_loop_writes_innermost_only (l : ForLoop) (loops : List ForLoop) (sv : Ctx)
    (p : Option Scope) (c : Ctx) (g : Option Ctx) (name : String) (v : Value) :
    (Scope.mk (l :: loops) sv p c g).storeLocal name v = Scope.mk (l.store name v :: loops) sv p c g := by
  rfl

/-- (2): the assigned value is what the name resolves to for the rest of the iteration (for every
name the template can assign: the five `__tera_loop_*` names are not expressible as `set`
targets the loop would look at). -/
theorem set_in_loop_visible (l : ForLoop) (loops : List ForLoop) (sv : Ctx) (p : Option Scope)
    (c : Ctx) (g : Option Ctx) (name : String) (v : Value) (hm : ForLoop.isMagic name = false) :
    ((Scope.mk (l :: loops) sv p c g).storeLocal name v).getValue name = v := by
  have : (l.store name v).get name = some v := by
    rw [ForLoop.get_of_not_magic _ _ hm]
    simp [ForLoop.store, ForLoop.lookupCtx]
  simp [Scope.storeLocal, Scope.getValue_mk, Scope.resolve, Scope.loopsGet, this]

/-- (3) `set_in_loop_is_iteration_local`: the assignment disappears when the iteration ends.
From the second `Iterate` on (`end_ip` has been set to the non-zero jump target by the first
one) the next iteration starts from exactly the loop state it would have had without the
assignment; … -/
theorem set_in_loop_is_iteration_local (l : ForLoop) (name : String) (v : Value) (endIp : Nat)
    (h : l.endIp ≠ 0) : (l.store name v).iterate endIp = l.iterate endIp := by
  unfold ForLoop.iterate ForLoop.isOver ForLoop.advance ForLoop.store
  cases hr : l.remaining with
  | nil => simp
  | cons item rest => simp [h]

/-- … and when the loop is left (`PopLoop`) nothing of it remains either. -/
theorem set_in_loop_gone_after_loop (l : ForLoop) (loops : List ForLoop) (sv : Ctx)
    (p : Option Scope) (c : Ctx) (g : Option Ctx) (name : String) (v : Value) :
    ((Scope.mk (l :: loops) sv p c g).storeLocal name v).popLoop
      = (Scope.mk (l :: loops) sv p c g).popLoop := by
  rfl

/-- `set_global_persists` (1): `set_global` (and `set` outside every loop, which is the same
operation) writes the render-wide assignments whatever loops are active … -/
theorem set_global_writes_assignments (loops : List ForLoop) (sv : Ctx) (p : Option Scope)
    (c : Ctx) (g : Option Ctx) (name : String) (v : Value) :
    (Scope.mk loops sv p c g).storeGlobal name v = Scope.mk loops (sv.insert name v) p c g
    ∧ (Scope.mk [] sv p c g).storeLocal name v = (Scope.mk [] sv p c g).storeGlobal name v := by
  exact ⟨rfl, rfl⟩

/-- (2) … none of the loop operations (entering, iterating, assigning inside, leaving a loop)
touches them … -/
theorem loop_ops_keep_assignments (s : Scope) (l : ForLoop) (name : String) (v : Value) :
    (s.pushLoop l).setVariables = s.setVariables
    ∧ s.popLoop.setVariables = s.setVariables
    ∧ (s.setTopLoop l).setVariables = s.setVariables
    ∧ (s.forLoops ≠ [] → (s.storeLocal name v).setVariables = s.setVariables) := by
  obtain ⟨loops, sv, p, c, g⟩ := s
  refine ⟨rfl, rfl, ?_, ?_⟩
  · cases loops <;> rfl
  · intro h
    cases loops with
    | nil => exact absurd rfl h
    | cons a b => rfl

/-- (3) `set_global_persists`: … so the value stays visible for the rest of the render: after the
assignment, in any state that has the same assignments, the name resolves to it unless a loop
scope binds the same name. -/
theorem set_global_persists (s s' : Scope) (name : String) (v : Value)
    (hsame : s'.setVariables = (s.storeGlobal name v).setVariables)
    (hl : Scope.loopsGet s'.forLoops name = none) :
    s'.getValue name = v := by
  obtain ⟨loops, sv, p, c, g⟩ := s
  obtain ⟨loops', sv', p', c', g'⟩ := s'
  simp only [Scope.setVariables, Scope.storeGlobal] at hsame
  simp only [Scope.forLoops] at hl
  subst hsame
  simp [Scope.getValue_mk, Scope.resolve, hl, Ctx.get, Ctx.insert, ForLoop.lookupCtx]

/-- A later assignment to a different name does not disturb it. -/
theorem set_other_name_keeps (sv : Ctx) (n m : String) (v : Value) (h : m ≠ n) :
    (sv.insert n v).get m = sv.get m := by
  exact ForLoop.lookupCtx_insert_other sv n m v h

/-! ## Part 1c — includes -/

/-- `include_reads_not_writes` (1): whatever the included template assigns (locally, globally,
inside its own loops), its link to the includer is the includer's state, unchanged: there is no
operation that writes through it. -/
theorem include_reads_not_writes (p : Scope) (s : Scope) (l : ForLoop) (name : String) (v : Value)
    (h : s.includeParent = some p) :
    (s.storeLocal name v).includeParent = some p
    ∧ (s.storeGlobal name v).includeParent = some p
    ∧ (s.pushLoop l).includeParent = some p
    ∧ s.popLoop.includeParent = some p
    ∧ (s.setTopLoop l).includeParent = some p := by
  obtain ⟨loops, sv, p', c, g⟩ := s
  simp only [Scope.includeParent] at h
  subst h
  refine ⟨?_, rfl, rfl, rfl, ?_⟩ <;> cases loops <;> rfl

/-- (2) `include_against_includer_scope`, name resolution half: a freshly included template
resolves every name the includer can see (loop variables, `loop.*` excepted below, assignments,
context, global context) to the includer's value. -/
theorem include_sees_includer (p : Scope) (name : String) (h : (p.getValue name).isUndef = false) :
    (Scope.included p).getValue name = p.getValue name := by
  simp [Scope.included, Scope.getValue_mk, Scope.resolve, Scope.parentValue, Scope.loopsGet, Ctx.get,
    ForLoop.lookupCtx, h]

/-- (3) … and a name the includer resolves to undefined resolves in the included template to the
render context's binding if there is one (this is the case where an explicit undefined in a
nearer scope of the includer hides a context variable there but not in the include), otherwise
to undefined. -/
theorem include_undefined_falls_to_context (p : Scope) (name : String)
    (h : (p.getValue name).isUndef = true) :
    (Scope.included p).getValue name = (p.context.get name).getD Value.undef := by
  simp only [Scope.included, Scope.getValue_mk, Scope.resolve, Scope.parentValue, Scope.loopsGet,
    Ctx.get, ForLoop.lookupCtx, h]
  cases ForLoop.lookupCtx p.context name <;> simp

/-! ## Part 1d — loop bookkeeping (`ForLoop`) -/

/-- The loop state at the start of the `k`-th execution of the body (`k = 0`: before the first
`Iterate`).  Between two `Iterate`s the body may have replaced the per-iteration assignments by
anything (`ctxs k`); the `k`-th `Iterate` carries the jump target `ends k`. `none` = the loop is
over. -/
def atIter (l0 : ForLoop) (ends : Nat → Nat) (ctxs : Nat → List (String × Value)) : Nat → Option ForLoop
  | 0 => some l0
  | k + 1 =>
    match atIter l0 ends ctxs k with
    | none => none
    | some l => (if k = 0 then l else { l with context := ctxs k }).iterate (ends k)

/-- The loop as `StartIterate` + `StoreLocal`s leave it. -/
def startLoop (items : List LoopItem) (isC : Bool) (valueName : String) (keyName : Option String) : ForLoop :=
  match keyName with
  | none => (ForLoop.new items isC).storeLocalName valueName
  | some k => ((ForLoop.new items isC).storeLocalName valueName).storeLocalName k

theorem startLoop_fields (items : List LoopItem) (isC : Bool) (vn : String) (kn : Option String) :
    (startLoop items isC vn kn).remaining = items ∧ (startLoop items isC vn kn).index0 = 0
      ∧ (startLoop items isC vn kn).first = true
      ∧ (startLoop items isC vn kn).last = (items.length == 1)
      ∧ (startLoop items isC vn kn).length = items.length ∧ (startLoop items isC vn kn).endIp = 0
      ∧ (startLoop items isC vn kn).context = [] ∧ (startLoop items isC vn kn).iterated = false := by
  cases kn with
  | none =>
    obtain ⟨a1, a2, a3, a4, a5, a6, a7, a8⟩ := ForLoop.storeLocalName_fields (ForLoop.new items isC) vn
    simp only [startLoop, a1, a2, a3, a4, a5, a6, a7, a8]
    simp [ForLoop.new]
  | some k =>
    obtain ⟨a1, a2, a3, a4, a5, a6, a7, a8⟩ := ForLoop.storeLocalName_fields (ForLoop.new items isC) vn
    obtain ⟨b1, b2, b3, b4, b5, b6, b7, b8⟩ :=
      ForLoop.storeLocalName_fields ((ForLoop.new items isC).storeLocalName vn) k
    simp only [startLoop, a1, a2, a3, a4, a5, a6, a7, a8, b1, b2, b3, b4, b5, b6, b7, b8]
    simp [ForLoop.new]

/-- The first `Iterate` of a loop (the only one that runs with `end_ip = 0`) starts from empty
per-iteration assignments as well, so the hypothesis `endIp ≠ 0` of
`set_in_loop_is_iteration_local` loses nothing. -/
theorem first_iterate_clean (items : List LoopItem) (isC : Bool) (vn : String) (kn : Option String)
    (endIp : Nat) (l' : ForLoop) (h : (startLoop items isC vn kn).iterate endIp = some l') :
    l'.context = [] ∧ l'.endIp = endIp := by
  obtain ⟨h1, _, _, _, _, h6, h7, _⟩ := startLoop_fields items isC vn kn
  simp only [ForLoop.iterate, ForLoop.isOver, ForLoop.advance, h1, h6] at h
  cases items with
  | nil => simp at h
  | cons it rest =>
    simp at h
    subst h
    simp [h7]

/-- `forloop_bookkeeping`: whatever the body assigns and whatever (non-zero) jump targets the
`Iterate` instructions carry, at the `k`-th execution of the body (`1 ≤ k ≤ len`):
`index0 = k-1`, `index = k`, `first = (k = 1)`, `last = (k = len)`, `length = len`, the current
item is the `k`-th item, the per-iteration assignments are empty, and the items not yet visited
are exactly the ones after the `k`-th. -/
theorem forloop_bookkeeping (items : List LoopItem) (isC : Bool) (vn : String) (kn : Option String)
    (ends : Nat → Nat) (hends : ∀ i, ends i ≠ 0) (ctxs : Nat → List (String × Value))
    (k : Nat) (hk1 : 1 ≤ k) (hk2 : k ≤ items.length) :
    ∃ l, atIter (startLoop items isC vn kn) ends ctxs k = some l
      ∧ l.index0 = k - 1 ∧ l.index = k ∧ l.first = (k == 1) ∧ l.last = (k == items.length)
      ∧ l.length = items.length ∧ some l.current = items[k - 1]? ∧ l.context = []
      ∧ l.remaining = items.drop k ∧ l.iterated = true ∧ l.endIp ≠ 0 := by
  obtain ⟨h1, h2, h3, h4, h5, h6, h7, _⟩ := startLoop_fields items isC vn kn
  generalize startLoop items isC vn kn = l0 at *
  induction k with
  | zero => omega
  | succ k ih =>
    by_cases hk0 : k = 0
    · subst hk0
      obtain ⟨it, rest, hi⟩ : ∃ it rest, items = it :: rest := by
        cases items with
        | nil => simp at hk2
        | cons it rest => exact ⟨it, rest, rfl⟩
      have hr : l0.remaining = it :: rest := by rw [h1, hi]
      obtain ⟨l', hl', f1, f2, f3, f4, f5, f6, f7, f8, f9, _⟩ :=
        ForLoop.iterate_first l0 (ends 0) it rest h6 hr
      refine ⟨l', by simp [atIter, hl'], ?_, ?_, ?_, ?_, ?_, ?_, ?_, ?_, ?_, ?_⟩
      · rw [f1, h2]
      · simp [ForLoop.index, f1, h2]
      · rw [f2, h3]; rfl
      · rw [f3, h4, Bool.eq_iff_iff]; simp; omega
      · rw [f4, h5]
      · simp [f5, hi]
      · rw [f6, h7]
      · simp [f7, hi]
      · exact f8
      · rw [f9]; exact hends 0
    · obtain ⟨l, hl, i0, _, _, _, ilen, _, _, irem, _, iend⟩ := ih (by omega) (by omega)
      have hdrop : items.drop k = items[k] :: items.drop (k + 1) := by
        rw [List.drop_eq_getElem_cons (by omega)]
      obtain ⟨l', hl', f1, f2, f3, f4, f5, f6, f7, f8, f9⟩ :=
        ForLoop.iterate_next_ctx l (ctxs k) (ends k) _ _ iend (irem.trans hdrop)
      refine ⟨l', by simp [atIter, hl, hk0, hl'], ?_, ?_, ?_, ?_, ?_, ?_, ?_, ?_, ?_, ?_⟩
      · rw [f1, i0]; omega
      · simp only [ForLoop.index, f1, i0]; omega
      · rw [f2, eq_comm]; simp; omega
      · rw [f3, i0, ilen, Bool.eq_iff_iff]; simp; omega
      · rw [f4, ilen]
      · simp [f5, List.getElem?_eq_getElem (show k < items.length by omega)]
      · exact f6
      · exact f7
      · exact f8
      · rw [f9]; exact hends k

/-- `iteration_visits_each_once`: the body runs exactly `len` times — the `(len+1)`-th `Iterate`
finds the loop over — and by `forloop_bookkeeping` the `k`-th run sees the `k`-th item: every
element of an array, every character of a string, every byte, every entry of a map (see
`map_iteration_exactly_once`) is visited exactly once, in order. -/
theorem iteration_visits_each_once (items : List LoopItem) (isC : Bool) (vn : String)
    (kn : Option String) (ends : Nat → Nat) (hends : ∀ i, ends i ≠ 0)
    (ctxs : Nat → List (String × Value)) :
    atIter (startLoop items isC vn kn) ends ctxs (items.length + 1) = none := by
  by_cases h0 : items.length = 0
  · have : items = [] := List.length_eq_zero_iff.mp h0
    subst this
    obtain ⟨h1, _⟩ := startLoop_fields [] isC vn kn
    simp [atIter, ForLoop.iterate_over _ _ h1]
  · obtain ⟨l, hl, _, _, _, _, _, _, _, irem, _, _⟩ :=
      forloop_bookkeeping items isC vn kn ends hends ctxs items.length (by omega) (by omega)
    simp only [atIter, hl, h0, if_false]
    exact ForLoop.iterate_over _ _ (by simp [irem])

/-- The `end_ip != 0` convention matters: were the first `Iterate`'s target 0, the second
iteration would still claim to be the first (`loop.index = 1`, `loop.first = true`). -/
example :
    (atIter (startLoop [(none, .u64 7), (none, .u64 8)] false "x" none) (fun _ => 0) (fun _ => []) 2).map
      (fun l => (l.index, l.first)) = some (1, true) := by decide

/-- `for_else` bookkeeping: `iterated` (what `StoreDidNotIterate` negates) is false exactly when
there was nothing to iterate. -/
theorem iterated_iff_nonempty (items : List LoopItem) (isC : Bool) (vn : String) (kn : Option String)
    (endIp : Nat) :
    (match (startLoop items isC vn kn).iterate endIp with
      | some l => l.iterated
      | none => (startLoop items isC vn kn).iterated) = !items.isEmpty := by
  obtain ⟨h1, _, _, _, _, h6, _, h8⟩ := startLoop_fields items isC vn kn
  cases items with
  | nil => simp [ForLoop.iterate_over _ _ h1, h8]
  | cons it rest =>
    obtain ⟨l', hl', _, _, _, _, _, _, _, f8, _⟩ := ForLoop.iterate_first _ endIp it rest h6 h1
    simp [hl', f8]

/-! ### what a container yields -/

/-- `map_iteration_exactly_once`: a `for` over a map visits each entry exactly once: the visited
`(key, value)` pairs are a permutation of the map's entries (whatever order the entries are
stored in; the visiting order is by key). -/
theorem map_iteration_exactly_once (es : Entries) :
    ∃ visited : List (Key × Value),
      iterItems (.map es) = some (visited.map fun kv => (some (keyToValue kv.1), kv.2))
      ∧ visited.Perm es := by
  exact ⟨sortEntries es, rfl, sortByKey_perm es⟩

/-- Arrays yield their elements in order, strings one value per character in order, bytes one
number per byte in order. -/
theorem array_string_bytes_in_order (xs : List Value) (safe : Bool) (s : List Char) (bs : List Nat) :
    (iterItems (.arr xs)).map (·.map Prod.snd) = some xs
    ∧ (iterItems (.str safe s)).map (·.map Prod.snd) = some (s.map fun c => Value.str false [c])
    ∧ (iterItems (.bytes bs)).map (·.map Prod.snd) = some (bs.map Value.u64) := by
  simp [iterItems, Function.comp_def]

/-- Nothing else can be iterated (the VM raises "Iteration not possible"). -/
theorem not_iterable (v : Value) : iterItems v = none ↔ v.canBeIteratedOn = false := by
  cases v <;> simp [iterItems, Value.canBeIteratedOn]


/-! ## Part 2 — the evaluator (Model/Eval.lean) -/

/-- `if_first_truthy`: an `if` whose condition evaluates to `v` runs exactly its body when `v` is
truthy and exactly its false body (the `else` body, or the nested `if` an `elif` is parsed into)
otherwise — nothing of the other branch is executed. -/
theorem if_first_truthy (fuel : Nat) (env : Env) (ae : Bool) (st : St) (c : Expr)
    (body fb : List Node) (v : Value) (h : evalExpr fuel env st.scope c = .ok v) :
    execNode (fuel + 1) env ae st (.if c body fb)
      = if v.isTruthy then execNodes fuel env ae st body else execNodes fuel env ae st fb := by
  simp [execNode, h]

/-- The first truthy branch wins: once a condition is truthy the later `elif` conditions and
bodies play no role (they can be replaced by anything, e.g. a `throw()`). -/
theorem if_later_branches_ignored (fuel : Nat) (env : Env) (ae : Bool) (st : St) (c : Expr)
    (body fb fb' : List Node) (v : Value) (h : evalExpr fuel env st.scope c = .ok v)
    (ht : v.isTruthy = true) :
    execNode (fuel + 1) env ae st (.if c body fb) = execNode (fuel + 1) env ae st (.if c body fb') := by
  simp [execNode, h, ht]

/-- `elif`: `{% if c1 %}b1{% elif c2 %}b2{% else %}e{% endif %}` is the AST `if c1 b1 [if c2 b2 e]`;
with `c1` falsy it behaves as `if c2 b2 e` (and so on down the chain, by the same theorem). -/
theorem elif_is_nested_if (fuel : Nat) (env : Env) (ae : Bool) (st : St) (c1 c2 : Expr)
    (b1 b2 e : List Node) (v1 : Value) (h1 : evalExpr (fuel + 2) env st.scope c1 = .ok v1)
    (hf : v1.isTruthy = false) :
    execNode (fuel + 3) env ae st (.if c1 b1 [.if c2 b2 e])
      = match execNode (fuel + 1) env ae st (.if c2 b2 e) with
        | .error err => .error err
        | .ok (st', .normal) => .ok (st', .normal)
        | .ok (st', sig) => .ok (st', sig) := by
  rw [execNode]
  simp only [h1, hf]
  rw [execNodes]
  cases hx : execNode (fuel + 1) env ae st (.if c2 b2 e) with
  | error err => simp
  | ok p =>
    obtain ⟨st', sig⟩ := p
    cases sig <;> simp [execNodes]

/-- `include_state_discarded`: whatever the included template does — assignments, `set_global`,
loops, its own includes — the includer continues with exactly the scope it had: the only effect of
an `include` is text appended to the includer's current output sink. -/
theorem include_state_discarded (fuel : Nat) (env : Env) (ae : Bool) (st st1 : St) (name : String)
    (sig : Sig) (h : execNode fuel env ae st (.include name) = .ok (st1, sig)) :
    st1.scope = st.scope ∧ sig = .normal ∧ ∃ w, st1 = st.write w := by
  cases fuel with
  | zero => simp [execNode] at h
  | succ f =>
    simp only [execNode] at h
    split at h
    · cases h
    · split at h
      · cases h
      · injection h with h
        injection h with h1 h2
        subst h1 h2
        refine ⟨?_, rfl, _, rfl⟩
        unfold St.write
        split <;> rfl
      · cases h

/-- `include_against_includer_scope`: the included template is executed in the scope
`Scope.included st.scope` — empty loops and assignments of its own, chained for reads to the
includer's CURRENT scope (loop variables, assignments, context, global context: theorems
`include_sees_includer` / `include_undefined_falls_to_context`) — with its own autoescape flag, and
what it writes goes to the includer's current sink (innermost capture, else the output). -/
theorem include_against_includer_scope (fuel : Nat) (env : Env) (ae : Bool) (st : St) (name : String)
    (t : TemplateDef) (ht : env.template name = some t) (st' : St)
    (h : execNodes fuel env t.autoescape { scope := Scope.included st.scope, out := [], captures := [] } t.nodes
          = .ok (st', .normal)) :
    execNode (fuel + 1) env ae st (.include name) = .ok (st.write st'.out, .normal) := by
  simp [execNode, ht, h]

/-- `for_else_iff_empty`, one half: when there is nothing to iterate (empty array, string, map or
bytes) the body is not run at all and the `else` body is, in the scope the loop started from. -/
theorem for_else_when_empty (fuel : Nat) (env : Env) (ae : Bool) (st : St) (key : Option String)
    (value : String) (target : Expr) (body elseBody : List Node) (tv : Value)
    (h : evalExpr (fuel + 1) env st.scope target = .ok tv) (hit : iterItems tv = some [])
    (hk : key.isSome = true → tv.isMap = true) :
    execNode (fuel + 2) env ae st (.forLoop key value target body elseBody)
      = if elseBody.isEmpty then .ok (st, .normal) else execNodes (fuel + 1) env ae st elseBody := by
  obtain ⟨sc, out, caps⟩ := st
  obtain ⟨loops, sv, p, c, g⟩ := sc
  rw [execNode]
  simp only [h, hit]
  have hk' : (key.isSome && !tv.isMap) = false := by
    cases hks : key.isSome
    · rfl
    · simp [hk hks]
  simp only [hk', Bool.false_eq_true, if_false]
  have fin : ∀ L : ForLoop, L.remaining = [] → L.iterated = false →
      (match execFor (fuel + 1) env ae
          { scope := (Scope.mk loops sv p c g).pushLoop L, out := out, captures := caps } body with
        | .error e => (.error e : Except Err (St × Sig))
        | .ok st1 =>
          let didNotIterate := match st1.scope.forLoops with
            | l :: _ => !l.iterated
            | [] => false
          let st2 : St := { st1 with scope := st1.scope.popLoop }
          if !elseBody.isEmpty && didNotIterate then execNodes (fuel + 1) env ae st2 elseBody
          else .ok (st2, .normal))
      = if elseBody.isEmpty then .ok (⟨Scope.mk loops sv p c g, out, caps⟩, .normal)
        else execNodes (fuel + 1) env ae ⟨Scope.mk loops sv p c g, out, caps⟩ elseBody := by
    intro L hr hi
    simp only [execFor, Scope.pushLoop, Scope.forLoops, ForLoop.iterate_over _ _ hr, hi, Scope.popLoop,
      List.tail_cons, Bool.not_false, Bool.and_true]
    cases elseBody.isEmpty <;> simp
  cases key with
  | none =>
    obtain ⟨h1, _, _, _, _, _, _, h8⟩ := startLoop_fields [] false value none
    exact fin _ h1 h8
  | some k =>
    obtain ⟨h1, _, _, _, _, _, _, h8⟩ := startLoop_fields [] false value (some k)
    exact fin _ h1 h8

/-- Anything that is not an array, string, map or bytes cannot be iterated, and the key/value form
needs a map: errors, not empty loops. -/
theorem for_not_iterable (fuel : Nat) (env : Env) (ae : Bool) (st : St) (key : Option String)
    (value : String) (target : Expr) (body elseBody : List Node) (tv : Value)
    (h : evalExpr fuel env st.scope target = .ok tv)
    (hbad : tv.canBeIteratedOn = false ∨ (key.isSome = true ∧ tv.isMap = false)) :
    execNode (fuel + 1) env ae st (.forLoop key value target body elseBody) = .error .iteration := by
  rw [execNode]
  simp only [h]
  rcases hbad with hb | ⟨hk, hm⟩
  · rw [(not_iterable tv).mpr hb]
  · cases hi : iterItems tv with
    | none => rfl
    | some items => simp [hk, hm]


/-! ### captures -/

/-- `capture_exact` (1): what a statement list does is independent of where its output goes:
running it in any state gives the scope, signal or error of running it from the same scope on an
empty sink, and appends the text `st'.out` that run produced to the current sink (the innermost
capture buffer if there is one, else the output).  Bodies may contain includes, nested captures,
loops, filter sections. -/
theorem output_routing (fuel : Nat) (env : Env) (ae : Bool) (st : St) (body : List Node) :
    execNodes fuel env ae st body
      = match execNodes fuel env ae ⟨st.scope, [], []⟩ body with
        | .error e => .error e
        | .ok (st', sig) => .ok (⟨st'.scope, wOut st.out st.captures st'.out, wCaps st.captures st'.out⟩, sig) := by
  have := ((routing env fuel).2.1 ae st body).1
  rw [this]
  rfl

/-- `capture_exact` (2): a `{% set x | f | g %}BODY{% endset %}` block writes nothing and binds `x`
to `g(f(T))` where `T` — marked safe — is exactly the text BODY writes when run from the same
scope (`st'.out` of the run on the empty sink, the same `st'.out` that, by `output_routing`, BODY
would have appended to the output had it been rendered in place); the assignments BODY made
persist exactly as they would have inline (`st'.scope`). -/
theorem capture_exact (fuel : Nat) (env : Env) (ae : Bool) (st : St) (name : String)
    (filters : List Expr) (body : List Node) (global : Bool) :
    execNode (fuel + 1) env ae st (.blockSet name filters body global)
      = match execNodes fuel env ae ⟨st.scope, [], []⟩ body with
        | .error e => .error e
        | .ok (st', .normal) =>
          (match applyFilters fuel env st'.scope filters (.str true st'.out) with
           | .error e => .error e
           | .ok v => .ok ((⟨st'.scope, st.out, st.captures⟩ : St).store name v global, .normal))
        | .ok (_, _) => .error (.unsupported "break/continue across a capture") := by
  obtain ⟨sc, out, caps⟩ := st
  simp only [execNode]
  rw [((routing env fuel).2.1 ae ⟨sc, out, [] :: caps⟩ body).1]
  dsimp only
  cases execNodes fuel env ae ⟨sc, [], []⟩ body with
  | error e => rfl
  | ok p =>
    obtain ⟨st', sig⟩ := p
    cases sig with
    | normal =>
      simp only [reroute, wOut, wCaps, List.nil_append]
      cases applyFilters fuel env st'.scope filters (.str true st'.out) <;> rfl
    | brk => rfl
    | cont => rfl

/-- `capture_exact` (3): a filter section `{% filter f(args) %}BODY{% endfilter %}` prints `f(T)`
for the same `T` (marked safe before filtering; the result is printed like any other value). -/
theorem filter_section_exact (fuel : Nat) (env : Env) (ae : Bool) (st : St) (name : String)
    (kwargs : List (String × Expr)) (body : List Node) :
    execNode (fuel + 1) env ae st (.filterSection name kwargs body)
      = match execNodes fuel env ae ⟨st.scope, [], []⟩ body with
        | .error e => .error e
        | .ok (st', .normal) =>
          (match evalKwargs fuel env st'.scope kwargs with
           | .error e => .error e
           | .ok kw =>
             match applyFilter env name (.str true st'.out) kw with
             | .error e => .error e
             | .ok v => (writeValue env ae ⟨st'.scope, st.out, st.captures⟩ v).map (·, Sig.normal))
        | .ok (_, _) => .error (.unsupported "break/continue across a capture") := by
  obtain ⟨sc, out, caps⟩ := st
  simp only [execNode]
  rw [((routing env fuel).2.1 ae ⟨sc, out, [] :: caps⟩ body).1]
  dsimp only
  cases execNodes fuel env ae ⟨sc, [], []⟩ body with
  | error e => rfl
  | ok p =>
    obtain ⟨st', sig⟩ := p
    cases sig with
    | normal =>
      simp only [reroute, wOut, wCaps, List.nil_append]
      cases evalKwargs fuel env st'.scope kwargs with
      | error e => rfl
      | ok kw => cases applyFilter env name (.str true st'.out) kw <;> rfl
    | brk => rfl
    | cont => rfl

/-- `nothing_survives_render`: a render starts from `Scope.root ctx global` — no loops, no
assignments, no includer — and returns text only, so its result is a function of the templates,
the context and the global context alone; two renders with the same inputs give the same result
whatever was rendered in between.  (Immediate in the model, where `render` is a function; on the
engine it is checked directly by the repeat-render oracle of the harness.) -/
theorem nothing_survives_render (fuel : Nat) (env : Env) (name : String) (ctx g : Ctx)
    (t : TemplateDef) (ht : env.template name = some t) :
    render fuel env name ctx g
      = match execNodes fuel env t.autoescape ⟨Scope.mk [] [] none ctx (some g), [], []⟩ t.nodes with
        | .error e => .error e
        | .ok (st, .normal) => .ok st.out
        | .ok (_, _) => .error (.unsupported "break/continue leaving a template") := by
  simp only [render, ht, Scope.root]
  cases execNodes fuel env t.autoescape ⟨Scope.mk [] [] none ctx (some g), [], []⟩ t.nodes with
  | error e => rfl
  | ok p =>
    obtain ⟨st, sig⟩ := p
    cases sig <;> rfl


/-! ### loops in the evaluator -/

/-- `loop_stack_preserved`: no statement — assignments, captures, includes, nested loops with
their breaks and continues — changes the loops it runs inside: afterwards the loop stack consists
of the same loops, in the same order, each with the same remaining items, counters, variable
names and current item; only their per-iteration assignments may differ.  Nor does it change the
includer link, the context or the global context. -/
theorem loop_stack_preserved (fuel : Nat) (env : Env) (ae : Bool) (st st' : St) (ns : List Node)
    (sig : Sig) (h : execNodes fuel env ae st ns = .ok (st', sig)) :
    st'.scope.forLoops.map ForLoop.strip = st.scope.forLoops.map ForLoop.strip
    ∧ st'.scope.includeParent = st.scope.includeParent ∧ st'.scope.context = st.scope.context
    ∧ st'.scope.globalContext = st.scope.globalContext := by
  have := (frame env fuel).2.1 ae st ns st' sig h
  simp only [Scope.frame, Prod.mk.injEq] at this
  exact this

/-- `for_else_iff_empty`, other half: when there is something to iterate the `else` body plays no
role at all (it can be replaced by nothing) — also when the body `break`s in its first
iteration. Together with `for_else_when_empty`: the `else` body runs iff nothing was iterated. -/
theorem for_else_ignored_when_nonempty (fuel : Nat) (env : Env) (ae : Bool) (st : St)
    (key : Option String) (value : String) (target : Expr) (body elseBody : List Node) (tv : Value)
    (items : List LoopItem) (h : evalExpr fuel env st.scope target = .ok tv)
    (hit : iterItems tv = some items) (hne : items ≠ []) :
    execNode (fuel + 1) env ae st (.forLoop key value target body elseBody)
      = execNode (fuel + 1) env ae st (.forLoop key value target body []) := by
  simp only [execNode, h, hit]
  split
  · rfl
  · have hL : (match key with
        | none => (ForLoop.new items).storeLocalName value
        | some k => ((ForLoop.new items).storeLocalName value).storeLocalName k)
        = startLoop items false value key := by cases key <;> rfl
    have hrem : (startLoop items false value key).remaining = items := (startLoop_fields items false value key).1
    cases key with
    | none =>
      dsimp only at hL ⊢
      rw [hL]
      cases hR : execFor fuel env ae { st with scope := st.scope.pushLoop (startLoop items false value none) } body with
      | error e => rfl
      | ok s1 =>
        dsimp only
        obtain ⟨l', rest', a1, _, _, _, _, a6⟩ :=
          (frame env fuel).2.2 ae _ body s1 hR _ _ (Scope.forLoops_pushLoop st.scope _)
        have : l'.iterated = true := a6 (Or.inl (by rw [hrem]; exact hne))
        simp [a1, this]
    | some k =>
      dsimp only at hL ⊢
      rw [hL]
      cases hR : execFor fuel env ae { st with scope := st.scope.pushLoop (startLoop items false value (some k)) } body with
      | error e => rfl
      | ok s1 =>
        dsimp only
        obtain ⟨l', rest', a1, _, _, _, _, a6⟩ :=
          (frame env fuel).2.2 ae _ body s1 hR _ _ (Scope.forLoops_pushLoop st.scope _)
        have : l'.iterated = true := a6 (Or.inl (by rw [hrem]; exact hne))
        simp [a1, this]

/-- `break_continue_innermost` (1): a `for` absorbs the `break` / `continue` of its body: the
statement after the loop always runs, and an enclosing loop never sees the signal (a signal can
only leave a `for` statement from its `else` body, which is outside the loop). -/
theorem for_absorbs_signals (fuel : Nat) (env : Env) (ae : Bool) (st st' : St) (key : Option String)
    (value : String) (target : Expr) (body : List Node) (sig : Sig)
    (h : execNode fuel env ae st (.forLoop key value target body []) = .ok (st', sig)) :
    sig = .normal := by
  cases fuel with
  | zero => simp [execNode] at h
  | succ f =>
    simp only [execNode] at h
    repeat' split at h
    all_goals first
      | (cases h; done)
      | (cases h; rfl)
      | (rename_i hx; simp at hx; done)

/-- (2) A signal ends the statement list it occurs in, up to the enclosing loop: the statements
after the one that signalled are not executed (they can be replaced by anything), and an `if`
passes the signal of its branch on unchanged (`if_first_truthy`). -/
theorem signal_skips_rest (fuel : Nat) (env : Env) (ae : Bool) (st st1 : St) (n : Node)
    (rest rest' : List Node) (sig : Sig) (h : execNode fuel env ae st n = .ok (st1, sig))
    (hs : sig ≠ .normal) :
    execNodes (fuel + 1) env ae st (n :: rest) = .ok (st1, sig)
    ∧ execNodes (fuel + 1) env ae st (n :: rest') = execNodes (fuel + 1) env ae st (n :: rest) := by
  cases sig with
  | normal => exact absurd rfl hs
  | brk => simp [execNodes, h]
  | cont => simp [execNodes, h]

/-- (3) In the loop: `break` ends THIS loop, in the state the body left; `continue` (like a body
that ran to its end) goes on with the next item of THIS loop. -/
theorem break_ends_continue_next (fuel : Nat) (env : Env) (ae : Bool) (st st1 : St) (l l' : ForLoop)
    (rest : List ForLoop) (body : List Node) (sig : Sig) (hl : st.scope.forLoops = l :: rest)
    (hi : l.iterate ITERATE_END_IP = some l')
    (h : execNodes fuel env ae { st with scope := st.scope.setTopLoop l' } body = .ok (st1, sig)) :
    execFor (fuel + 1) env ae st body
      = if sig = .brk then .ok st1 else execFor fuel env ae st1 body := by
  simp only [execFor, hl, hi, h]
  cases sig <;> simp

/-- Every iteration of a loop run by the evaluator starts with empty per-iteration assignments: the
loop starts with none (`startLoop_fields`), the first `Iterate` keeps that and sets a non-zero
`end_ip`, every later `Iterate` clears them — so what `{% set %}` stored during one iteration is
never visible in the next one (`set_in_loop_is_iteration_local` at the level of whole loops). -/
theorem iteration_starts_clean (l l' : ForLoop) (h : l.iterate ITERATE_END_IP = some l')
    (hinv : l.endIp ≠ 0 ∨ l.context = []) : l'.context = [] ∧ l'.endIp ≠ 0 := by
  have hne : l.remaining ≠ [] := by
    intro hr
    rw [ForLoop.iterate_over l _ hr] at h
    cases h
  obtain ⟨it, rest, hr⟩ : ∃ it rest, l.remaining = it :: rest := by
    cases hl : l.remaining with
    | nil => exact absurd hl hne
    | cons it rest => exact ⟨it, rest, rfl⟩
  by_cases h0 : l.endIp = 0
  · obtain ⟨l2, h2, _, _, _, _, _, f6, _, _, f9, _⟩ := ForLoop.iterate_first l ITERATE_END_IP it rest h0 hr
    rw [h] at h2
    injection h2 with h2
    subst h2
    rcases hinv with hi | hi
    · exact absurd h0 hi
    · exact ⟨f6.trans hi, by rw [f9]; decide⟩
  · obtain ⟨l2, h2, _, _, _, _, _, f6, _, _, f9, _⟩ := ForLoop.iterate_next l ITERATE_END_IP it rest h0 hr
    rw [h] at h2
    injection h2 with h2
    subst h2
    exact ⟨f6, by rw [f9]; decide⟩

/-! ### fuel -/

/-- `fuel_is_only_a_bound`: the fuel argument bounds the recursion and nothing else: a render
that does not end in the explicit out-of-fuel outcome has the same result with every larger fuel.
(The theorems above are stated at the fuel at which the engine-visible sub-steps run; they hold
at every larger fuel too, by this one.) -/
theorem fuel_is_only_a_bound (env : Env) (n m : Nat) (hnm : n ≤ m) (name : String) (ctx g : Ctx)
    (r : Except Err (List Char)) (h : render n env name ctx g = r) (hr : r ≠ .error .fuel) :
    render m env name ctx g = r := by
  have hm : m = n + (m - n) := by omega
  have H := fuelLe_add env n (m - n)
  rw [← hm] at H
  unfold render at h ⊢
  cases ht : env.template name with
  | none => simpa [ht] using h
  | some t =>
    simp only [ht] at h ⊢
    cases hx : execNodes n env t.autoescape ⟨Scope.root ctx g, [], []⟩ t.nodes with
    | error e =>
      rw [hx] at h
      have he : (Except.error e : Except Err (St × Sig)) ≠ .error .fuel := by
        intro c
        injection c with c
        subst c
        exact hr h.symm
      rw [H.nodes _ _ _ _ hx he]
      exact h
    | ok p =>
      rw [hx] at h
      rw [H.nodes _ _ _ _ hx (NFu_ok _)]
      exact h

/-- The same for statement lists (used with the theorems of this file). -/
theorem exec_fuel_irrelevant (env : Env) (n m : Nat) (hnm : n ≤ m) (ae : Bool) (st : St)
    (ns : List Node) (r : Except Err (St × Sig)) (h : execNodes n env ae st ns = r)
    (hr : r ≠ .error .fuel) : execNodes m env ae st ns = r := by
  have hm : m = n + (m - n) := by omega
  rw [hm]
  exact (fuelLe_add env n (m - n)).nodes ae st ns r h hr

end Tera.C03
