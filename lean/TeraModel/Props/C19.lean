/-
C19 — data put in a context through serde is represented faithfully.

Theorems about Model/Serde.lean (`ser` mirrors tera/src/value/ser.rs, `de` mirrors
tera/src/value/de.rs composed with serde's own and derived visitors, `fmtValue` mirrors
`Value::format`/`format_map`, `ctx*` mirror context.rs), tied to the real code by
harness/src/bin/c19.rs.
-/
import TeraModel.Model.Serde
import TeraModel.Lemmas.SerdeRoundtrip
import TeraModel.Lemmas.SerdeBasics
import TeraModel.Lemmas.SerdePrint
import TeraModel.Lemmas.SerdeReser
namespace Tera.Props.C19
open Tera Tera.Serde

/-! ## the round trip -/

/-- `v` is a value of the Rust type `t` (see `HasTy`). -/
abbrev WellTyped (fc : FloatCasts) (t : STy) (v : SVal) : Prop := HasTy fc t v

/-- The type is in the family the property quantifies over. What is excluded, and why:
* a payload that can itself serialise to `Value::None` — an `Option`, `()`, a unit struct, or a
  newtype struct around one of those — DIRECTLY inside an `Option`: `Some(None)`, `Some(())` and
  `None` are all `Value::None` (see `excluded_shapes_do_not_round_trip`);
* map keys other than bool / integer / char / String (refused by `ser`, see `bad_key_refused`;
  newtype-struct and unit-variant keys do work in the code but are outside the stated family);
everything else — all integer widths, f32/f64, bool, char, String, unit, unit structs, `CString`
(the `serialize_bytes` path), `Option`, `Vec`, tuples and tuple structs, maps, structs, newtype
structs, enums with unit / newtype / tuple / struct variants, nested to any depth — is in. -/
abbrev NoOptionInOption (t : STy) : Prop := InFamily t

/-- Converting a value into a template value and reading it back at the same type returns the
original: serialisation succeeds and deserialisation of its result is exactly the value.
(`de` is the one function all three entry points — `Value`, `&Value`, `ValueDeserializer` — run.) -/
theorem roundtrip (fc : FloatCasts) (t : STy) (v : SVal)
    (hty : WellTyped fc t v) (hfam : NoOptionInOption t) :
    ∃ x, ser v = .ok x ∧ de fc t x = .ok v :=
  roundtrip_main fc t v hfam hty

/-- the hypotheses are satisfiable at a type using every constructor -/
example (fc : FloatCasts) :
    let t : STy := .struct [("a".toList, .option (.seq (.int .u64))),
      ("e".toList, .enum [("U".toList, .unit, .unit), ("N".toList, .newtype, .newtype (.int .i8)),
        ("T".toList, .tuple, .tuple [.char, .string]), ("S".toList, .struct, .struct [("x".toList, .bool)])]),
      ("m".toList, .map (.int .i128) (.tuple [.unit, .unitStruct]))]
    NoOptionInOption t ∧
    WellTyped fc t (.struct [("a".toList, .some (.seq [.int .u64 (2^64 - 1)])),
      ("e".toList, .variant "T".toList .tuple (.tuple [.char 'x', .str "y".toList])),
      ("m".toList, .map [(.int .i128 (-(2:Int)^127), .tuple [.unit, .unitStruct])])]) := by
  simp [InFamily, InFamilyFields, InFamilyVariants, InFamilyList, noneLike, goodKeyTy, HasTy, HasFields,
    HasVariant, HasTys, IntTy.inRange, IntTy.min, IntTy.max]


/-- the two F11 regression values (newtype structs) in the model of the repaired code:
`W(5)` and `WV(vec![vec![], vec![1]])` come back unchanged -/
example (fc : FloatCasts) :
    (∃ x, ser (.newtype (.int .i64 5)) = .ok x ∧ de fc (.newtype (.int .i64)) x = .ok (.newtype (.int .i64 5))) ∧
    (∃ x, ser (.newtype (.seq [.seq [], .seq [.int .i64 1]])) = .ok x ∧
      de fc (.newtype (.seq (.seq (.int .i64)))) x = .ok (.newtype (.seq [.seq [], .seq [.int .i64 1]]))) :=
  ⟨roundtrip fc _ _ (by simp [HasTy, IntTy.inRange, IntTy.min, IntTy.max]) (by simp [InFamily]),
   roundtrip fc _ _ (by simp [HasTy, IntTy.inRange, IntTy.min, IntTy.max]) (by simp [InFamily])⟩

/-- Why the excluded shapes are excluded: on them the round trip really fails (for the code as
it is), it is not a gap of the proof. `Some(None) : Option<Option<i64>>` and `Some(()) : Option<()>`
both come back as `None`. -/
theorem excluded_shapes_do_not_round_trip (fc : FloatCasts) :
    (∃ x, ser (.some .none) = .ok x ∧ de fc (.option (.option (.int .i64))) x = .ok .none) ∧
    (∃ x, ser (.some .unit) = .ok x ∧ de fc (.option .unit) x = .ok .none) ∧
    (∃ x, ser (.some .unitStruct) = .ok x ∧ de fc (.option .unitStruct) x = .ok .none) ∧
    (∃ x, ser (.some (.newtype .none)) = .ok x ∧ de fc (.option (.newtype (.option .bool))) x = .ok .none) := by
  refine ⟨⟨.none, ?_, ?_⟩, ⟨.none, ?_, ?_⟩, ⟨.none, ?_, ?_⟩, ⟨.none, ?_, ?_⟩⟩ <;> simp [ser, de]

/-- u64 values above i64::MAX, and 128-bit values, keep their exact value and their width:
nothing is squeezed through i64 or f64. -/
theorem wide_integers_exact (n : Int) :
    (IntTy.u64.inRange n → ser (.int .u64 n) = .ok (.u64 n.toNat) ∧ ((n.toNat : Nat) : Int) = n) ∧
    (IntTy.u128.inRange n → ser (.int .u128 n) = .ok (.u128 n.toNat) ∧ ((n.toNat : Nat) : Int) = n) ∧
    (ser (.int .i128 n) = .ok (.i128 n)) := by
  refine ⟨fun h => ⟨by simp [ser, serInt], ?_⟩, fun h => ⟨by simp [ser, serInt], ?_⟩, by simp [ser, serInt]⟩
  · have := h.1; simp only [IntTy.min] at this; omega
  · have := h.1; simp only [IntTy.min] at this; omega

/-! ## keys that cannot be represented are refused, never altered -/

/-- the key kinds `MapKeySerializer` refuses (after looking through `Some` and newtype structs):
floats, unit, `None`, bytes, sequences, tuples, maps, structs, unit structs and enum variants
that carry data -/
def BadKey : SVal → Prop
  | .f32 _ | .f64 _ | .unit | .none | .cstring _ | .seq _ | .tuple _ | .map _ | .struct _ | .unitStruct => True
  | .variant _ k _ => k ≠ .unit
  | .some v => BadKey v
  | .newtype v => BadKey v
  | _ => False

theorem serKey_bad : ∀ k, BadKey k → serKey k = .error .badKey
  | .f32 _, _ | .f64 _, _ | .unit, _ | .none, _ | .cstring _, _ | .seq _, _ | .tuple _, _
  | .map _, _ | .struct _, _ | .unitStruct, _ => by simp [serKey]
  | .variant _ k _, h => by cases k <;> simp_all [serKey, BadKey]
  | .some v, h => by rw [serKey]; exact serKey_bad v (by simpa [BadKey] using h)
  | .newtype v, h => by rw [serKey]; exact serKey_bad v (by simpa [BadKey] using h)
  | .bool _, h | .int _ _, h | .char _, h | .str _, h => by simp [BadKey] at h

/-- and the good ones are all accepted: bool, every integer width, char, string -/
theorem good_keys_accepted (k : SVal) :
    (∀ b, k = .bool b → serKey k = .ok (.bool b)) ∧
    (∀ t n, k = .int t n → serKey k = .ok (serKeyInt t n)) ∧
    (∀ c, k = .char c → serKey k = .ok (.str [c])) ∧
    (∀ s, k = .str s → serKey k = .ok (.str s)) := by
  refine ⟨?_, ?_, ?_, ?_⟩ <;> intros <;> subst_vars <;> simp [serKey]

/-- A map holding a key that is not a string, integer, char or bool (anywhere among its entries,
whatever the other entries are) is refused with the "map key must be …" error: the conversion
yields no value at all, so nothing is altered; `Context::insert` and `Context::from_serialize`
have nothing to insert. -/
theorem bad_key_refused (es : List (SVal × SVal)) (h : ∃ e ∈ es, BadKey e.1) :
    ser (.map es) = .error .badKey ∧
    (∀ name c, ctxInsertSer name (.map es) c = none) ∧
    ctxFromSerialize (.map es) = none := by
  have hs : ser (.map es) = .error .badKey := by
    rw [ser, serEntries_bad es [] (by obtain ⟨e, he, hb⟩ := h; exact ⟨e, he, serKey_bad _ hb⟩)]
  refine ⟨hs, fun name c => by simp [ctxInsertSer, hs], by simp [ctxFromSerialize, hs]⟩

/-- … also when the map sits deeper: inside a struct field, a sequence, an `Option`, a newtype -/
theorem bad_key_refused_nested (es : List (SVal × SVal)) (h : ∃ e ∈ es, BadKey e.1)
    (n : Name) (post : List SVal) :
    ser (.some (.map es)) = .error .badKey ∧ ser (.newtype (.map es)) = .error .badKey ∧
    ser (.struct [(n, .map es)]) = .error .badKey ∧
    ser (.seq (.map es :: post)) = .error .badKey := by
  have hs := (bad_key_refused es h).1
  refine ⟨by rw [ser, hs], by rw [ser, hs], by rw [ser, serFields, hs], by rw [ser, serList, hs]⟩

/-! ## what a template prints is determined by the data -/

/-- Integers print exactly: an integer of any of the ten widths prints as its decimal numeral
(no float formatting, no truncation), and distinct integers print differently. -/
theorem integers_print_exactly (P : FmtParams) (t : IntTy) (n : Int) (h : t.inRange n) :
    fmtValue P (serInt t n) = Contrib.intDigits n ∧
    (∀ m, Contrib.intDigits m = Contrib.intDigits n → m = n) := by
  refine ⟨?_, fun m hm => intDigits_injective hm⟩
  have h0 := h.1
  cases t <;> simp only [serInt, fmtValue, IntTy.min] at h0 ⊢
  all_goals first
    | rfl
    | (rw [← intDigits_ofNat]; congr 1; omega)

/-- Maps print in sorted key order, so the text does not depend on the (hash) order the entries
happen to be stored in: any two arrangements of the same entries — keys pairwise different, as in
any map — print identically, and the entries appear in the order of `impl Ord for Key`
(bools, then integers by value, then strings; `keyLe` is a total preorder whose symmetric part is
key equality: `keyLe_total`, `keyLe_trans`, `keyLe_antisymm`). -/
theorem maps_print_sorted (P : FmtParams) (es es' : List (Key × Value)) (hp : es.Perm es')
    (hd : es.Pairwise (fun a b => keyEq a.1 b.1 = false)) :
    fmtValue P (.map es) = fmtValue P (.map es') ∧
    List.Pairwise (fun a b => keyLe a.1 b.1 = true) (sortEntries (fmtEntries P es)) :=
  ⟨maps_print_sorted_main P es es' hp hd, fmt_map_sorted P es⟩

/-- the printed text of a map is `{` entries joined by `, ` `}` with the entries in key order -/
example (P : FmtParams) :
    fmtValue P (.map [(.u64 10, .bool true), (.i64 (-1), .u64 7), (.u64 9, .none)]) =
      "{-1: 7, 9: , 10: true}".toList := by
  simp [fmtValue, fmtEntries, sortEntries, insertEntry, keyLe, keyNum, fmtKey, joinWith,
    Contrib.intDigits, Contrib.natDigits]
  decide

/-! ## the three ways of filling a context -/

/-- `context.insert(k, &x)` and `context.insert_value(k, Value::from_serializable(&x))` store the
same value (by definition of `insert`), and `Context::from_serialize(&s)` for a struct `s` binds
each field name to the value `insert(name, &field)` would store — for any struct whose field
names are distinct. -/
theorem context_insert_agree (k : List Char) (x : SVal) (v : Value) (c : Ctx) (h : ser x = .ok v) :
    ctxInsertSer k x c = some (ctxInsert k v c) := by
  simp [ctxInsertSer, h]


/-- A `Value` handed to serde a second time (`Context::insert(k, &value)`,
`Value::from_serializable(&value)`: `impl Serialize for Value / Key` composed with
`ValueSerializer`) comes back as the same value — same kinds, same widths, same key kinds (a bool
key stays a bool key, a u64 key a u64 key), bytes stay bytes — up to the two things the serde data
model cannot carry: undefined becomes none and a safe string a normal string (`plainOf`). -/
theorem reser_identity (v : Value) (h : KeysDistinct v) :
    ser (valueSer v) = .ok (plainOf v) ∧ (plainOf v = v → ser (valueSer v) = .ok v) :=
  ⟨reser_main v h, fun hp => Serde.reser_identity v h hp⟩

/-- In particular for every CONVERTED value (anything `ser` produces has no undefined, no safe
string and distinct keys): converting it again is the identity, so `context.insert(k, &value)`
stores exactly what `context.insert_value(k, value)` stores — the two are interchangeable. -/
theorem insert_of_converted_value_agrees (x : SVal) (v : Value) (h : ser x = .ok v) (k : List Char) (c : Ctx) :
    ser (valueSer v) = .ok v ∧ ctxInsertSer k (valueSer v) c = some (ctxInsert k v c) := by
  have hr := reser_of_converted x v h
  exact ⟨hr, by simp [ctxInsertSer, hr]⟩

/-- `Context::from_serialize(&s)` for a struct `s` is interchangeable with inserting its fields
one by one with `insert` (which is `insert_value` of the converted value): same bindings, same
refusal (`none`) when a field cannot be converted. -/
theorem context_paths_agree (xs : List (Name × SVal)) (hn : (xs.map (·.1)).Nodup) :
    ctxFromSerialize (.struct xs) = insertAll xs [] := by
  have h := serFields_ctx xs [] hn (by simp)
  simp only [ctxOfEntries, List.foldl_nil] at h
  rw [← h, ctxFromSerialize, ser]
  cases serFields xs [] <;> simp [ctxOfEntries]

/-! ## the typed readers of args.rs -/

/-- Reading a converted number back through `T::try_from(value)` / `ArgFromValue` /
`Kwargs::get::<T>` returns the original: every integer of every width, every f32 (±inf, NaN,
±0.0, subnormals, MAX included — a non-finite input is never "out of range"), every f64, bool. -/
theorem arg_readers_roundtrip (fc : FloatCasts) :
    (∀ t n, IntTy.inRange t n → argInt t (serInt t n) = .ok (.int t n)) ∧
    (∀ x, fc.f64to32 x = x → argF32 fc (.f64 x) = .ok (.f32 x)) ∧
    (∀ x, argF64 (.f64 x) = .ok (.f64 x)) ∧
    (∀ b, argBool (.bool b) = .ok (.bool b)) := by
  refine ⟨?_, ?_, fun x => by simp [argF64, Value.intVal], fun b => by simp [argBool]⟩
  · intro t n h
    have h0 := h.1
    cases t <;> simp only [serInt, argInt, Value.intVal, IntTy.min] at h0 ⊢
    all_goals first
      | (rw [Int.toNat_of_nonneg h0]; simp [h])
      | simp [h]
  · intro x hx
    simp only [argF32, Value.intVal, hx]
    cases hf : x.isFinite <;> simp

/-- `insert` / `insert_value` replace: whatever the context held before (the same key included),
after `insert(k, &x)` the key is bound to the conversion of `x` — the last write wins on both paths,
so histories of writes under one key stay interchangeable at every step. -/
theorem context_last_write_wins (k : List Char) (x : SVal) (v : Value) (c : Ctx) (h : ser x = .ok v) :
    (ctxInsertSer k x c).bind (fun c' => ctxGet k c') = some v ∧ ctxGet k (ctxInsert k v c) = some v := by
  have hg : ∀ c : Ctx, ctxGet k (ctxInsert k v c) = some v := by
    intro c
    induction c with
    | nil => simp [ctxInsert, ctxGet]
    | cons e rest ih =>
      obtain ⟨k', v'⟩ := e
      by_cases hk : k' = k
      · simp [ctxInsert, ctxGet, hk]
      · simp [ctxInsert, ctxGet, hk, ih]
  exact ⟨by simp [ctxInsertSer, h, hg], hg c⟩

end Tera.Props.C19
