/-
C11, second clause, at the level of the AST SEMANTICS: "every accepted set can be rendered without
unbounded recursion: rendering terminates with text or an error".

Props/C11.lean has it on the graph skeleton of rendering (Model/RenderSkel.lean: which chunk calls
which).  Here it is proved of the evaluator Model/Eval.lean itself — values, scopes, loops,
filters, everything the evaluator models — and carried to the whole-engine model.

The evaluator recurses on a fuel and answers the explicit `Err.fuel` when it runs out;
"terminates" = for every large enough fuel the answer is the same and is not `Err.fuel`.

* `expr_terminates`: EVERY expression terminates, in every scope (structural recursion; the hidden
  loop of a comprehension visits the finitely many items of a value).
* `exec_terminates` / `eval_terminates`: when the include relation of the environment is ACYCLIC
  (`IncludeRank env rk`: a rank on template names decreasing along every `include` of an existing
  template), EVERY statement list / every template renders to text or an error, from every state,
  in every context: `for` loops visit the finitely many items of a value (the body cannot touch
  the loop stack: Lemmas/EvalFrame.lean), `include` goes down in rank, everything else is
  structural.  No restriction to the checked domain is needed: outside it the evaluator answers
  `unsupported` (an error, not exhaustion).  No bound as a function of sizes is claimed: the number
  of loop turns depends on computed values (`range(end=n)` …), so only existence.
* `acyclic_is_necessary`: a two-template include cycle runs out of every fuel, has no rank, and
  `addTemplatesT` refuses its sources (kernel-evaluated).
* `render_terminates_e2e`: through `RefineE2E.source_to_output_includes'`: a batch of sources
  without `extends`, in the checked domain, accepted by `addTemplatesT`, with an acyclic include
  relation: the WHOLE-ENGINE model `Pipeline.renderSourcesT` (lexer … optimiser, registry, VM)
  answers text or a rendering error for every large enough step / nesting fuel — never
  exhaustion, never a panic.

Hypotheses of the last theorem that are not discharged here, stated as such:
* acyclicity of the include relation of the evaluator's table is an explicit hypothesis
  (`IncludeRank eenv rk`).  Acceptance by the registry implies it for the registry's own include
  graph (Props/C11.lean `includeDFS_sound_complete`, `C11_accepted_graphs`: no include cycle is
  reachable in an accepted set); the bridge from `Reg`'s `includeCalls` / prefix resolution to the
  names of the evaluator's table is not built.
* the evaluator's answer is not `unsupported` (a filter / test / function outside the evaluator's
  built-in subset, …): the refinement theorem says nothing about those runs.

The two known findings F5a / F5b (Props/C11.lean `render_terminates_is_false`: a block-call cycle
through `super()` / nested blocks, and an `extends` + `include` cycle) are OUTSIDE this domain —
they need `block`s, which the evaluator does not model (`unsupported`) — and are exactly where
termination fails on the real engine.
-/
import TeraModel.Lemmas.EvalTerminatesNode
import TeraModel.Props.RefineE2EParents
namespace Tera.C11Eval
open Tera Tera.Refine

/-- **`expr_terminates`**: every expression, in every scope: there is a fuel from which the
evaluator's answer no longer changes and is not "out of fuel". -/
theorem expr_terminates (env : Tera.Env) (sc : Scope) (e : Expr) :
    ∃ fuel r, r ≠ .error .fuel ∧ ∀ fuel', fuel ≤ fuel' → evalExpr fuel' env sc e = r := by
  obtain ⟨r, hr, f, hf⟩ := conv_expr env (expr_term env e sc)
  exact ⟨f, r, hr, hf⟩

/-- **`exec_terminates`**: with acyclic includes, every statement list — any AST — from every
state: text-so-far and a signal, or an error; not "out of fuel". -/
theorem exec_terminates (env : Tera.Env) (rk : String → Nat) (h : IncludeRank env rk)
    (name : String) (t : TemplateDef) (ht : env.template name = some t) (ae : Bool) (st : St) :
    ∃ fuel r, r ≠ .error .fuel ∧ ∀ fuel', fuel ≤ fuel' → execNodes fuel' env ae st t.nodes = r := by
  obtain ⟨r, hr, f, hf⟩ := conv_nodes env (good_of_rank env rk h (rk name) name (Nat.le_refl _) t ht ae st)
  exact ⟨f, r, hr, hf⟩

/-- **`eval_terminates`**: for every evaluator environment whose include relation is acyclic,
every template name, every context: `Tera.render` terminates with text or an error — there is a
fuel from which its answer no longer changes and is not "out of fuel". -/
theorem eval_terminates (env : Tera.Env) (rk : String → Nat) (h : IncludeRank env rk)
    (name : String) (ctx g : Ctx) :
    ∃ fuel r, r ≠ .error .fuel ∧ ∀ fuel', fuel ≤ fuel' → Tera.render fuel' env name ctx g = r := by
  cases ht : env.template name with
  | none =>
    refine ⟨0, .error .missingTemplate, by simp, fun fuel' _ => ?_⟩
    simp only [Tera.render, ht]
  | some t =>
    obtain ⟨f, r, hr, hf⟩ := exec_terminates env rk h name t ht t.autoescape
      { scope := Scope.root ctx g, out := [], captures := [] }
    cases r with
    | error e =>
      refine ⟨f, .error e, fun c => hr (by injection c with c; rw [c]), fun fuel' hle => ?_⟩
      simp only [Tera.render, ht, hf fuel' hle]
    | ok p =>
      obtain ⟨s1, g1⟩ := p
      cases g1
      · exact ⟨f, .ok s1.out, by simp, fun fuel' hle => by simp only [Tera.render, ht, hf fuel' hle]⟩
      · exact ⟨f, .error (.unsupported "break/continue leaving a template"), by simp,
          fun fuel' hle => by simp only [Tera.render, ht, hf fuel' hle]⟩
      · exact ⟨f, .error (.unsupported "break/continue leaving a template"), by simp,
          fun fuel' hle => by simp only [Tera.render, ht, hf fuel' hle]⟩

/-- the plain form: some fuel is enough -/
theorem eval_terminates' (env : Tera.Env) (rk : String → Nat) (h : IncludeRank env rk)
    (name : String) (ctx g : Ctx) : ∃ fuel, Tera.render fuel env name ctx g ≠ .error .fuel := by
  obtain ⟨f, r, hr, hf⟩ := eval_terminates env rk h name ctx g
  exact ⟨f, by rw [hf f (Nat.le_refl _)]; exact hr⟩

/-! ## Acyclicity is necessary (in the model) -/

/-- **`acyclic_is_necessary`**: on a two-template include cycle (`a`: `{% include "b" %}`,
`b`: `{% include "a" %}`, in any environment) the evaluator runs out of EVERY fuel, and
(consistently) the environment has no rank. -/
theorem acyclic_is_necessary (env : Tera.Env) (a b : String) (ta tb : TemplateDef)
    (hA : env.template a = some ta) (hB : env.template b = some tb)
    (hta : ta.nodes = [.include b]) (htb : tb.nodes = [.include a]) :
    (∀ fuel ctx g, Tera.render fuel env a ctx g = .error .fuel) ∧
    ¬ ∃ rk, IncludeRank env rk := by
  constructor
  · intro fuel ctx g
    simp only [Tera.render, hA, hta, (cyc_runs_out env a b ta tb hA hB hta htb fuel _ _).2]
  · rintro ⟨rk, h⟩
    have h1 := h a _ hA b (by simp [hta, nodesIncludes, nodeIncludes]) (by rw [hB]; rfl)
    have h2 := h b _ hB a (by simp [htb, nodesIncludes, nodeIncludes]) (by rw [hA]; rfl)
    omega

/-- kernel-evaluated instance: fuel 10, 100, 1000 all run out -/
example : [10, 100, 1000].all (fun fuel =>
    match Tera.render fuel
      { exEenv with templates := [("a", ⟨[.include "b"], true⟩), ("b", ⟨[.include "a"], true⟩)] }
      "a" [] [] with
    | .error .fuel => true
    | _ => false) = true := by decide +kernel

/-- … and the engine model never gets there: `addTemplatesT` refuses the sources of such a cycle
(`check_include_cycles`, C11) -/
example : (match Pipeline.addTemplatesT RefineE2E.exCfg
      [("a.html", srcOf "{% include 'b.html' %}"), ("b.html", srcOf "{% include 'a.html' %}")] with
    | .error _ => true
    | .ok _ => false) = true := by decide +kernel

/-- an acyclic pair is accepted, and renders (whole pipeline) -/
example : (match Pipeline.renderSourcesT RefineE2E.exCfg
      [("a.html", srcOf "x{% include 'b.html' %}"), ("b.html", srcOf "y")] ⟨2, 100⟩ "a.html" [] with
    | .ok (.ok text) => text == ['x', 'y']
    | _ => false) = true := by decide +kernel

/-! ## The whole-engine model terminates -/

/-- **`render_terminates_e2e`**: a batch of sources without `extends`, accepted by
`addTemplatesT`, whose templates `incs` (the rendered one among them) are in the checked domain and
related to the evaluator's table as `RefineE2E.SourcesRel` says, with an ACYCLIC include relation
(explicit hypothesis, see the header): unless the evaluator answers `unsupported`, there are a
step fuel `N` and a nesting fuel `D` from which the whole-engine model answers TEXT or a RENDERING
ERROR — `.ok (.ok text)` or `.ok (.err re)`: not fuel exhaustion, not a panic, not `unmodelled`,
not an add-time error. -/
theorem render_terminates_e2e (cfg : Pipeline.Config) (sources : List (String × Tera.Bytes))
    (env : Pipeline.Env) (hadd : Pipeline.addTemplatesT cfg sources = .ok env)
    (hnoext : ∀ p ∈ sources, ∀ t, Pipeline.front cfg.delims p.2 = .ok t → t.parent = none)
    (eenv : Tera.Env) (hE : EnvRel env eenv) (hB : BuiltinsRel env eenv) (incs : List String)
    (hS : RefineE2E.SourcesRel cfg sources env eenv incs) (name : String) (hname : name ∈ incs)
    (et : TemplateDef) (he : eenv.template name = some et)
    (rk : String → Nat) (hrk : IncludeRank eenv rk) (ctx : Ctx)
    (hsup : ∀ fuel w, Tera.render fuel eenv name ctx [] ≠ .error (.unsupported w)) :
    ∃ N D, ∀ steps depth, N ≤ steps → D ≤ depth →
      (∃ text, Pipeline.renderSourcesT cfg sources ⟨depth + 1, steps⟩ name ctx = .ok (.ok text))
      ∨ (∃ re, Pipeline.renderSourcesT cfg sources ⟨depth + 1, steps⟩ name ctx = .ok (.err re)) := by
  obtain ⟨fuel, r, hr, hf⟩ := eval_terminates eenv rk hrk name ctx []
  have hS' := RefineE2E.source_to_output_includes' cfg sources env hadd hnoext eenv hE hB incs hS name
    hname et he ctx fuel
  have hfr := hf fuel (Nat.le_refl _)
  cases r with
  | ok text =>
    obtain ⟨N, D, h⟩ := hS'.1 text hfr
    exact ⟨N, D, fun steps depth hs hd => Or.inl ⟨text, h steps depth hs hd⟩⟩
  | error err =>
    have hrep : reportable err = true := by
      cases err <;> first | rfl | exact absurd rfl hr | exact absurd hfr (hsup fuel _)
    obtain ⟨N, D, h⟩ := hS'.2 err hfr hrep
    refine ⟨N, D, fun steps depth hs hd => Or.inr ?_⟩
    obtain ⟨re, _, hre⟩ := h steps depth hs hd
    exact ⟨re, hre⟩

end Tera.C11Eval
