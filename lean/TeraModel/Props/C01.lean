/-
C01 — Autoescaping: data never reaches an autoescaped output unescaped.

Theorems are about
  * `Escape.escapeHtml`, which runs over the byte table the translator extracts from
    `tera/src/utils.rs` on every check run (so the table lemmas are re-proved against the source
    as it is now), and
  * the SafeFlow machine (`Model/SafeFlow.lean`), the instrumented model of the two sinks, the
    mint points and the mark-keeping operations of the VM; the correspondence harness
    (`harness/src/bin/c01.rs`) compares it with the real engine on every routing chain it
    generates.
-/
import TeraModel.Lemmas.C01Aux
namespace Tera.C01
open Tera.Escape Tera.SafeFlow

/-! ## The default escaper (generated table) -/

/-- No `<`, `>`, `"`, `'` in the output of `escape_html`, for every byte string. -/
theorem escape_html_clean (bs : List Nat) : ∀ b ∈ escapeHtml bs, isSpecial b = false :=
  escapeWith_clean goodTable_generated bs

/-- `&` occurs in the output of `escape_html` only as the first byte of one of the five entities
`&amp; &lt; &gt; &quot; &#39;`. -/
theorem escape_html_amp_entities (bs : List Nat) : ampOk (escapeHtml bs) = true :=
  escapeWith_ampOk goodTable_generated bs

/-- `escape_html` maps valid UTF-8 to valid UTF-8 (what the `from_utf8_unchecked` after it in
`filters::escape` relies on). -/
theorem escape_html_preserves_utf8 (bs : List Nat) (h : utf8Valid bs = true) :
    utf8Valid (escapeHtml bs) = true :=
  escapeWith_utf8 goodTable_generated bs h

/-- Text of a bool or an integer (`Value::format`) is drawn from `[0-9A-Za-z.+-]`.  (For floats
the same is checked on the implementation by the harness: `{:?}` of an f64.) -/
theorem format_scalar_alphabet (b : Bool) (n : Int) :
    scalarText (fmtBool b) = true ∧ scalarText (fmtInt n) = true :=
  ⟨fmtBool_scalar b, fmtInt_scalar n⟩

/-- Escaping text drawn from the scalar alphabet is the identity: the sinks' fast path for
bool / number / none / undefined (`Value::is_safe` answers `true` for them) cannot be observed
with the default escaper. -/
theorem escape_id_on_scalars (f : List Nat) (h : scalarText f = true) : escapeHtml f = f :=
  escapeWith_scalar goodTable_generated f h

/-- … hence, at a sink, writing a scalar by the fast path produces exactly the bytes the escaper
would have produced. -/
theorem C01_scalar_fast_path_unobservable (ov : Option Bool) (ae : Bool) (f : List Nat)
    (h : scalarText f = true) :
    erase (sinkBytes { escape := escapeHtml, override := ov } ae (.scalar f)) =
      (if ae then escapeHtml (fmt (.scalar f)) else fmt (.scalar f)) := by
  cases ae <;> simp [sinkBytes, isSafe, fmtT, fmt, erase_tagAll, escape_id_on_scalars f h]

/-- The model's `isSafe` is `Value::is_safe` as the source has it now: a string answers its
kind; for every other kind the answer is read off the generated list of the kinds for which the
Rust `match` answers `false` (re-checked on every run: if `is_safe` changes for some kind, this
stops checking). -/
theorem isSafe_matches_source (v : TVal) :
    isSafe v = (match v with
      | .str s _ => s
      | v => (kindNames v).all (fun k => !Generated.unsafeKinds.contains k)) := by
  cases v <;> first | rfl | decide +kernel

/-! ## The invariant of the machine -/

/-- **Safe strings are clean.**  Start the machine, with autoescape on, in any state in which
every Safe string (value stack, loop / set variables, include parents' scopes, context) carries
only `lit | esc | scalar` tags and so do the capture buffers and the output; run any program that
never uses `safe` (or a filter / function registered `is_safe`) and whose includes are all
autoescaped: the same holds of the state it ends in — whatever the escape function.  Since
every prefix of a program is a program, this is the invariant of every state the machine passes
through at top level; the proof (`run_preserves`) goes through every instruction and every
nested run (loop bodies, component bodies / arguments / definitions, includes, `super()`,
blocks). -/
theorem safe_invariant (env : Env) (p : Prog) (st st' : St)
    (hclean : p.clean env.override = true) (h0 : SafeInv st)
    (hrun : run env true p st = .ok st') : SafeInv st' :=
  run_preserves (hyp_notRaw env) p true st st' (Or.inr ⟨rfl, rfl, hclean⟩) (litsOk_any p) h0 hrun

/-- **… at every point of a run.**  Split a clean program anywhere at top level: the state the
machine is in at the split point exists and satisfies the invariant too (and nested runs — loop
bodies, component bodies and definitions, includes, `super()` — are themselves runs of clean
programs from invariant states, which is how `safe_invariant` is proved). -/
theorem safe_invariant_every_prefix (env : Env) (p q : Prog) (st st' : St)
    (hclean : (p.append q).clean env.override = true) (h0 : SafeInv st)
    (hrun : run env true (p.append q) st = .ok st') :
    ∃ mid, run env true p st = .ok mid ∧ SafeInv mid ∧ run env true q mid = .ok st' ∧ SafeInv st' := by
  rw [clean_append, Bool.and_eq_true] at hclean
  rw [run_append] at hrun
  cases hp : run env true p st with
  | error e => rw [hp] at hrun; cases hrun
  | ok mid =>
    rw [hp] at hrun
    have hmid := safe_invariant env p st mid hclean.1 h0 hp
    exact ⟨mid, rfl, hmid, hrun, safe_invariant env q mid st' hclean.2 hmid hrun⟩

/-- **No raw byte reaches an autoescaped output.**  Autoescape on for the rendered template and
for every template reachable by include (by flag or by override), no `safe`, a context without
pre-marked safe strings: no byte of the output is tagged `raw` — every byte is literal template
text, came out of the escape function, or is the text of a bool / number.  For all programs,
contexts and escape functions. -/
theorem C01_no_raw_byte (env : Env) (rootAe : Bool) (p : Prog) (ctx : List (String × TVal))
    (out : TStr) (hroot : env.override.getD rootAe = true) (hclean : p.clean env.override = true)
    (hctx : ctxClean ctx = true) (h : render env rootAe p ctx = .ok out) :
    ∀ tb ∈ out, tb.2 ≠ Tag.raw := by
  unfold render at h
  rw [hroot] at h
  split at h
  · rename_i st hrun
    cases h
    have := safe_invariant env p _ st hclean (ctxClean_safeInv ctx hctx) hrun
    have hout := ((St.all_iff st).1 this).2.2.2.2
    intro tb htb
    have := hout tb htb
    simpa [notRaw] using this
  · cases h

/-- With the default escaper, a byte that claims to be escaper output or scalar text is never one
of `< > " '` — in any state the machine reaches, with autoescape on or off, with or without
`safe`. -/
theorem esc_bytes_clean (ov : Option Bool) (ae : Bool) (p : Prog) (st st' : St)
    (hl : p.litsOk scalarText = true)
    (h0 : St.all everyString escClean scalarText st = true)
    (hrun : run { escape := escapeHtml, override := ov } ae p st = .ok st') :
    St.all everyString escClean scalarText st' = true :=
  run_preserves (hyp_escClean ov) p ae st st' (Or.inl ⟨fun _ => rfl, rfl⟩) hl h0 hrun

/-- **The property's second sentence.**  Default escaper, autoescape on everywhere, no `safe`:
every `<`, `>`, `"`, `'` of the output is literal template text — whatever the data and however
it is routed. -/
theorem C01_no_special_chars (ov : Option Bool) (rootAe : Bool) (p : Prog)
    (ctx : List (String × TVal)) (out : TStr) (hroot : ov.getD rootAe = true)
    (hclean : p.clean ov = true) (hl : p.litsOk scalarText = true) (hctx : ctxClean ctx = true)
    (h : render { escape := escapeHtml, override := ov } rootAe p ctx = .ok out) :
    ∀ tb ∈ out, isSpecial tb.1 = true → tb.2 = Tag.lit := by
  have hnr := C01_no_raw_byte { escape := escapeHtml, override := ov } rootAe p ctx out hroot hclean hctx h
  unfold render at h
  split at h
  · rename_i st hrun
    cases h
    have h0 : St.all everyString escClean scalarText { parent := ctx } = true := by
      apply all_freshParent
      intro e he
      simp only [ctxClean, List.all_eq_true, Bool.and_eq_true] at hctx
      refine all_mono (fun tb h => ?_) (fun _ h => h) e.2 (hctx e he).2
      simp only [beq_iff_eq] at h
      simp [escClean, h]
    have := esc_bytes_clean ov _ p _ st hl h0 hrun
    have hout := ((St.all_iff st).1 this).2.2.2.2
    intro tb htb hsp
    have h1 := hout tb htb
    have h2 := hnr tb htb
    simp only [escClean, hsp, Bool.not_true, Bool.or_false, Bool.and_eq_true, bne_iff_ne] at h1
    cases ht : tb.2 with
    | lit => rfl
    | esc => exact absurd ht h1.1
    | scalar => exact absurd ht h1.2
    | raw => exact absurd ht h2
  · cases h

/-- **The scalar fast path cannot be observed with the default escaper, for whole renders.**
Whatever the program (with or without `safe`, autoescape on or off), every byte the sinks wrote by
the fast path for bool / number values is a fixed point of `escape_html`; so sending those bytes
through the escaper as well — what the property's first sentence literally asks for — would
produce exactly the same output. -/
theorem C01_default_escaper_full (ov : Option Bool) (rootAe : Bool) (p : Prog)
    (ctx : List (String × TVal)) (out : TStr) (hl : p.litsOk scalarText = true)
    (hctx : ctxClean ctx = true)
    (h : render { escape := escapeHtml, override := ov } rootAe p ctx = .ok out) :
    escapeScalarBytes out = erase out := by
  unfold render at h
  split at h
  · rename_i st hrun
    cases h
    have h0 : St.all everyString scalarTagOk scalarText { parent := ctx } = true := by
      apply all_freshParent
      intro e he
      simp only [ctxClean, List.all_eq_true, Bool.and_eq_true] at hctx
      refine all_mono (fun tb h => ?_) (fun _ h => h) e.2 (hctx e he).2
      simp only [beq_iff_eq] at h
      simp [scalarTagOk, h]
    have := run_preserves (hyp_scalarTagOk _) p _ _ st (Or.inl ⟨fun _ => rfl, rfl⟩) hl h0 hrun
    have hout := ((St.all_iff st).1 this).2.2.2.2
    exact escapeScalarBytes_eq st.out hout
  · cases h

/-! ## Bypasses, and no double escaping -/

/-- A value marked safe (`| safe`) is written as `Value::format` gives it, without passing
through the escape function, whatever the autoescape mode. -/
theorem C01_safe_bypasses (env : Env) (ae : Bool) (st : St) (v : TVal) (s : List TVal)
    (hs : st.stack = v :: s) :
    ∃ w, run env ae (.op .markSafe (.op .write .done)) st = .ok (emit { st with stack := s } w) ∧
      erase w = fmt v := by
  refine ⟨fmtT v, ?_, erase_fmtT v⟩
  simp [run, step, hs, sinkBytes, isSafe, fmtT]

/-- With autoescape off for the executing template every (defined) value is written as
`Value::format` gives it. -/
theorem C01_off_bypasses (env : Env) (st : St) (v : TVal) (s : List TVal)
    (hs : st.stack = v :: s) (hv : v ≠ .undef) :
    ∃ w, step env false .write st = .ok (emit { st with stack := s } w) ∧ erase w = fmt v := by
  refine ⟨fmtT v, ?_, erase_fmtT v⟩
  cases v <;> simp_all [step, sinkBytes]

/-- The sinks write a Safe string — what `EndCapture`, a component call and `super()` push —
byte for byte as it is, in every mode and for every escape function. -/
theorem C01_safe_string_written_as_is (env : Env) (ae : Bool) (bs : TStr) :
    sinkBytes env ae (.str true bs) = bs := by
  simp [sinkBytes, isSafe, fmtT]

/-- **No double escaping.**  Closing a capture and printing the captured value as is appends
exactly the captured bytes (escaped once, when they were written into the buffer) to the
enclosing sink. -/
theorem C01_no_double_escape (env : Env) (ae : Bool) (st : St) (c : TStr) (cs : List TStr)
    (hc : st.caps = c :: cs) :
    run env ae (.op .endCapture (.op .write .done)) st = .ok (emit { st with caps := cs } c) := by
  simp [run, step, hc, sinkBytes, isSafe, fmtT]

/-! ## A configured escape function (finding F10) -/

/-- The full-strength statement for an arbitrary configured escape function: autoescape on
everywhere, no `safe`, clean context ⇒ every byte of the output is literal text or came out of
the escape function. -/
def C01_custom_escaper_full : Prop :=
  ∀ (env : Env) (rootAe : Bool) (p : Prog) (ctx : List (String × TVal)) (out : TStr),
    env.override.getD rootAe = true → p.clean env.override = true → ctxClean ctx = true →
    render env rootAe p ctx = .ok out → ∀ tb ∈ out, tb.2 = Tag.lit ∨ tb.2 = Tag.esc

/-- The documentation's example escaper: `a ↦ ?`. -/
def questionEscaper (bs : List Nat) : List Nat := bs.flatMap (fun b => if b == 97 then [63] else [b])

/-- `{{ v }}` with `v = false`: the model writes `false` (tagged `scalar`), not `f?lse`. -/
theorem F10_witness :
    render { escape := questionEscaper, override := Option.none } true
      (.op (.load "v") (.op .write .done)) [("v", .scalar (fmtBool false))]
      = .ok (tagAll .scalar [102, 97, 108, 115, 101]) := by
  rfl

/-- … whereas the same bool inside an array goes through the escaper: `[f?lse]`. -/
theorem F10_contrast :
    (render { escape := questionEscaper, override := Option.none } true
      (.op (.load "v") (.op .write .done)) [("v", .arr [.scalar (fmtBool false)])]).toOption.map erase
      = some [91, 102, 63, 108, 115, 101, 93] := by
  decide

/-- The full statement is false of the code as it is (F10): bool / number values bypass a
configured escape function. -/
theorem C01_custom_escaper_full_false : ¬ C01_custom_escaper_full := by
  intro h
  have := h { escape := questionEscaper, override := Option.none } true
    (.op (.load "v") (.op .write .done)) [("v", .scalar (fmtBool false))]
    (tagAll .scalar [102, 97, 108, 115, 101]) rfl (by decide) (by decide) F10_witness
    (102, Tag.scalar) (by decide)
  cases this with
  | inl h => cases h
  | inr h => cases h

/-- **What does hold for every escape function**: if no bool / number is involved (the context
holds strings, arrays, maps, bytes, none; the program has no bool / number literal), then under
the hypotheses of the full statement every byte of the output is literal text or came out of the
configured escape function. -/
theorem C01_custom_escaper_partial (env : Env) (rootAe : Bool) (p : Prog)
    (ctx : List (String × TVal)) (out : TStr)
    (hroot : env.override.getD rootAe = true) (hclean : p.clean env.override = true)
    (hctx : ctxClean ctx = true)
    (hnoscalar : ctxNoScalar ctx = true) (hlit : p.litsOk (fun _ => false) = true)
    (h : render env rootAe p ctx = .ok out) : ∀ tb ∈ out, tb.2 = Tag.lit ∨ tb.2 = Tag.esc := by
  have hnr := C01_no_raw_byte env rootAe p ctx out hroot hclean hctx h
  unfold render at h
  split at h
  · rename_i st hrun
    cases h
    have h0 : St.all everyString (fun tb => tb.2 != Tag.scalar) (fun _ => false) { parent := ctx } = true := by
      apply all_freshParent
      intro e he
      simp only [ctxNoScalar, List.all_eq_true] at hnoscalar
      refine all_mono (fun tb h => ?_) (fun _ h => h) e.2 (hnoscalar e he)
      simp only [beq_iff_eq] at h
      simp [h]
    have := run_preserves (hyp_noScalar env) p _ _ st (Or.inl ⟨fun _ => rfl, rfl⟩) hlit h0 hrun
    have hout := ((St.all_iff st).1 this).2.2.2.2
    intro tb htb
    have h1 := hout tb htb
    have h2 := hnr tb htb
    simp only [bne_iff_ne] at h1
    cases ht : tb.2 with
    | lit => exact Or.inl rfl
    | esc => exact Or.inr rfl
    | scalar => exact absurd ht h1
    | raw => exact absurd ht h2
  · cases h

/-! ## The hypotheses are satisfiable, and spot checks -/

/-- a clean program with an include, a capture and a component; a clean context -/
example : (Prog.op (.load "x") (.op .write (.incl true (.op .capture (.op (.load "x") (.op .write
    (.op .endCapture (.op .write .done))))) .done))).clean Option.none = true := by decide
example : ctxClean [("x", .str false (tagAll .raw [60, 62])), ("n", .scalar (fmtInt (-7)))] = true := by decide

/-- `{{ x }}` with x = `<>` renders `&lt;&gt;`, all tagged `esc` -/
example : (render { escape := escapeHtml, override := Option.none } true
    (.op (.load "x") (.op .write .done)) [("x", .str false (tagAll .raw [60, 62]))]).toOption.map erase
    = some [38, 108, 116, 59, 38, 103, 116, 59] := by decide

/-- capture then print: escaped once -/
example : (render { escape := escapeHtml, override := Option.none } true
    (.op .capture (.op (.load "x") (.op .write (.op .endCapture (.op .write .done)))))
    [("x", .str false (tagAll .raw [38]))]).toOption.map erase
    = some [38, 97, 109, 112, 59] := by decide

/-- the hypothesis `no safe` matters: with `| safe` a raw byte reaches the output -/
example : render { escape := escapeHtml, override := Option.none } true
    (.op (.load "x") (.op .markSafe (.op .write .done))) [("x", .str false (tagAll .raw [60]))]
    = .ok [(60, Tag.raw)] := by rfl

/-- … and so does "autoescape on in every included template" -/
example : render { escape := escapeHtml, override := Option.none } true
    (.incl false (.op (.load "x") (.op .write .done)) .done) [("x", .str false (tagAll .raw [60]))]
    = .ok [(60, Tag.raw)] := by rfl

end Tera.C01
