/-
C20 — tera-contrib codecs are lossless and emit only their target alphabet.

Theorems about the reference models of Model/Contrib.lean (tied to the real filters by the
correspondence run of harness/src/bin/c20.rs) and about the encode sets extracted from
tera-contrib/src/urlencode.rs on every run (Generated/ContribSets.lean).
-/
import TeraModel.Model.Contrib
import TeraModel.Generated.ContribSets
import TeraModel.Lemmas.ContribB64
import TeraModel.Lemmas.ContribCodecs
import TeraModel.Lemmas.ContribUtf8
namespace Tera.Props.C20
open Tera Tera.Contrib

/-! ## base64 -/

/-- `b64_decode(b64_encode(s))` returns the bytes of `s`, for each of the four combinations of
`url_safe` and `padded` (the decoder is only told `url_safe`; padding is optional for it). -/
theorem b64_roundtrip (urlSafe padded : Bool) (bs : List Nat) (h : Bytes bs) :
    b64DecodeBytes urlSafe (b64Encode urlSafe padded bs) = .ok bs :=
  b64_roundtrip_bytes urlSafe padded bs h

/-- The encoded text is symbols of the selected alphabet followed by the padding: exactly
`(3 - n % 3) % 3` characters `=` when `padded`, none otherwise; `⌈4n/3⌉` symbols. -/
theorem b64_alphabet (urlSafe padded : Bool) : ∀ (bs : List Nat), Bytes bs →
    ∃ body, b64Encode urlSafe padded bs =
        body ++ List.replicate (if padded then (3 - bs.length % 3) % 3 else 0) PAD
      ∧ (∀ c ∈ body, c ∈ alphabet urlSafe) ∧ body.length = (4 * bs.length + 2) / 3
  | [], _ => ⟨[], by cases padded <;> simp [b64Encode], by simp, by simp⟩
  | [a], h => by
    have ha := (Bytes.cons h).1
    refine ⟨[encSym urlSafe (a / 4), encSym urlSafe (a % 4 * 16)], ?_, ?_, by simp⟩
    · cases padded <;> simp [b64Encode, List.replicate]
    · intro c hc
      simp only [List.mem_cons, List.not_mem_nil, or_false] at hc
      rcases hc with rfl | rfl <;> exact encSym_mem _ _ (by omega)
  | [a, b], h => by
    have ha := (Bytes.cons h).1
    have hb := (Bytes.cons (Bytes.cons h).2).1
    refine ⟨[encSym urlSafe (a / 4), encSym urlSafe (a % 4 * 16 + b / 16), encSym urlSafe (b % 16 * 4)],
      ?_, ?_, by simp⟩
    · cases padded <;> simp [b64Encode, List.replicate]
    · intro c hc
      simp only [List.mem_cons, List.not_mem_nil, or_false] at hc
      rcases hc with rfl | rfl | rfl <;> exact encSym_mem _ _ (by omega)
  | a :: b :: c :: rest, h => by
    have ha := (Bytes.cons h).1
    have hb := (Bytes.cons (Bytes.cons h).2).1
    have hc := (Bytes.cons (Bytes.cons (Bytes.cons h).2).2).1
    have hr := (Bytes.cons (Bytes.cons (Bytes.cons h).2).2).2
    obtain ⟨body, e, hmem, hlen⟩ := b64_alphabet urlSafe padded rest hr
    refine ⟨encSym urlSafe (a / 4) :: encSym urlSafe (a % 4 * 16 + b / 16)
      :: encSym urlSafe (b % 16 * 4 + c / 64) :: encSym urlSafe (c % 64) :: body, ?_, ?_, ?_⟩
    · rw [b64Encode, e]
      have : (rest.length + 1 + 1 + 1) % 3 = rest.length % 3 := by omega
      simp [this]
    · intro x hx
      simp only [List.mem_cons] at hx
      rcases hx with rfl | rfl | rfl | rfl | hx
      · exact encSym_mem _ _ (by omega)
      · exact encSym_mem _ _ (by omega)
      · exact encSym_mem _ _ (by omega)
      · exact encSym_mem _ _ (by omega)
      · exact hmem x hx
    · simp only [List.length_cons, hlen]; omega

/-- the two alphabets are the 64 characters RFC 4648 lists (no `=` in either) -/
theorem b64_alphabets_are_rfc4648 :
    (∀ c, c ∈ alphabet false ↔ (isAlnum c = true ∨ c = 43 ∨ c = 47) ∧ c < 128) ∧
    (∀ c, c ∈ alphabet true ↔ (isAlnum c = true ∨ c = 45 ∨ c = 95) ∧ c < 128) := by
  constructor <;> intro c
  all_goals
    by_cases h : c < 128
    · revert c; decide
    · simp only [h, and_false, iff_false]
      intro hm
      simp [alphabet, stdAlphabet, urlAlphabet] at hm
      omega

/-- Invalid input to the decoder is an error, in the strongest form: the ONLY inputs that decode
are the canonical unpadded encoding of the result followed by at most two `=`. -/
theorem b64_decode_invalid_is_error (urlSafe : Bool) (inp : List Nat) (hb : Bytes inp)
    (hinvalid : ¬ ∃ bs k, Bytes bs ∧ k ≤ 2 ∧ inp = b64Encode urlSafe false bs ++ List.replicate k PAD) :
    ∃ e, b64DecodeBytes urlSafe inp = .error e := by
  cases h : b64DecodeBytes urlSafe inp with
  | error e => exact ⟨e, rfl⟩
  | ok bs =>
    obtain ⟨k, hk, e, hbs⟩ := b64_decode_sound urlSafe inp bs hb h
    exact absurd ⟨bs, k, hbs, hk, e⟩ hinvalid

/-- in particular: a character that is neither in the selected alphabet nor `=` is an error
(e.g. `+` under `url_safe=true`, `-` under `url_safe=false`, blanks, newlines, non-ASCII) -/
theorem b64_decode_foreign_symbol_is_error (urlSafe : Bool) (inp : List Nat) (hb : Bytes inp)
    (c : Nat) (hc : c ∈ inp) (hpad : c ≠ PAD) (hforeign : c ∉ alphabet urlSafe) :
    ∃ e, b64DecodeBytes urlSafe inp = .error e := by
  apply b64_decode_invalid_is_error urlSafe inp hb
  rintro ⟨bs, k, hbs, _, e⟩
  subst e
  rcases List.mem_append.1 hc with h | h
  · obtain ⟨body, e, hmem, _⟩ := b64_alphabet urlSafe false bs hbs
    simp only [Bool.false_eq_true, if_false, List.replicate_zero, List.append_nil] at e
    exact hforeign (hmem c (e ▸ h))
  · exact hpad (List.eq_of_mem_replicate h)

/-! ## urlencode / urlencode_strict -/

/-- Table theorem (re-proved against the sets extracted from urlencode.rs on every run):
the ASCII bytes `urlencode` leaves unescaped are exactly the RFC 3986 unreserved characters and
`/`; `urlencode_strict` leaves exactly the ASCII letters and digits; both escape `%`. -/
theorem urlencode_table :
    (∀ b, b < 128 → (Generated.urlencodeSet.getD b true = false ↔ (isUnreserved b = true ∨ b = 47))) ∧
    (∀ b, b < 128 → (Generated.urlencodeStrictSet.getD b true = false ↔ isAlnum b = true)) ∧
    Generated.urlencodeSet.getD 37 true = true ∧ Generated.urlencodeStrictSet.getD 37 true = true ∧
    Generated.urlencodeSet.length = 128 ∧ Generated.urlencodeStrictSet.length = 128 := by
  refine ⟨?_, ?_, ?_, ?_, ?_, ?_⟩ <;> decide +kernel

/-- every byte (ASCII or not): left alone by `urlencode` iff unreserved or `/` -/
theorem urlencode_unescaped_iff (b : Nat) :
    shouldEncode Generated.urlencodeSet b = false ↔ (isUnreserved b = true ∨ b = 47) := by
  by_cases h : b < 128
  · have := urlencode_table.1 b h
    simp only [shouldEncode, Bool.or_eq_false_iff, decide_eq_false_iff_not]
    rw [this]; constructor
    · exact fun x => x.2
    · exact fun x => ⟨by omega, x⟩
  · have := not_unreserved_of_ge (Nat.le_of_not_lt h)
    simp only [shouldEncode, Bool.or_eq_false_iff, decide_eq_false_iff_not]
    constructor
    · intro x; omega
    · rintro (x | x)
      · simp [this.1] at x
      · omega

theorem urlencode_strict_unescaped_iff (b : Nat) :
    shouldEncode Generated.urlencodeStrictSet b = false ↔ isAlnum b = true := by
  by_cases h : b < 128
  · have := urlencode_table.2.1 b h
    simp only [shouldEncode, Bool.or_eq_false_iff, decide_eq_false_iff_not]
    rw [this]; constructor
    · exact fun x => x.2
    · exact fun x => ⟨by omega, x⟩
  · have := not_unreserved_of_ge (Nat.le_of_not_lt h)
    simp only [shouldEncode, Bool.or_eq_false_iff, decide_eq_false_iff_not]
    constructor
    · intro x; omega
    · intro x; simp [this.2.1] at x

/-- `urlencode` emits only unreserved characters, `/`, and `%XX` escapes (upper-case hex) -/
theorem urlencode_alphabet (bs : List Nat) (h : Bytes bs) :
    EscapedText (fun b => isUnreserved b || b == 47) (percentEncode Generated.urlencodeSet bs) :=
  percentEncode_escaped _ _ (fun b hb => by
    rcases (urlencode_unescaped_iff b).1 hb with x | x <;> simp [x]) bs h

/-- `urlencode_strict` emits only ASCII letters, digits (a subset of the unreserved characters)
and `%XX` escapes -/
theorem urlencode_strict_alphabet (bs : List Nat) (h : Bytes bs) :
    EscapedText isAlnum (percentEncode Generated.urlencodeStrictSet bs) :=
  percentEncode_escaped _ _ (fun b hb => (urlencode_strict_unescaped_iff b).1 hb) bs h

/-- and nothing that could stay is escaped: an unreserved byte (or `/`) is copied as it is -/
theorem urlencode_keeps_unreserved (b : Nat) (h : isUnreserved b = true ∨ b = 47) (rest : List Nat) :
    percentEncode Generated.urlencodeSet (b :: rest) = b :: percentEncode Generated.urlencodeSet rest := by
  rw [percentEncode, (urlencode_unescaped_iff b).2 h]; simp

/-- percent-decoding the output of `urlencode` / `urlencode_strict` returns the input -/
theorem percent_roundtrip (bs : List Nat) (h : Bytes bs) :
    percentDecode (percentEncode Generated.urlencodeSet bs) = bs ∧
    percentDecode (percentEncode Generated.urlencodeStrictSet bs) = bs :=
  ⟨percent_roundtrip_of _ (by unfold shouldEncode; rw [urlencode_table.2.2.1]; decide) bs h,
   percent_roundtrip_of _ (by unfold shouldEncode; rw [urlencode_table.2.2.2.1]; decide) bs h⟩

/-! ## slug -/

/-- For EVERY transliteration function (deunicode is a parameter): the slug consists of
`[a-z0-9-]` only, does not begin or end with a hyphen and has no two hyphens in a row. -/
theorem slug_alphabet (translit : Char → Option (List Nat)) (s : List Char) :
    (∀ c ∈ slugify translit s, isSlugChar c = true) ∧ (slugify translit s).head? ≠ some 45 ∧
    (slugify translit s).getLast? ≠ some 45 ∧ NoDoubleDash (slugify translit s) := by
  have inv := slugFold_inv (s.flatMap (slugCharBytes translit)) ([], true) slugInv_init
  exact slug_shape_of_inv _ _ inv _ rfl



/-! ## the filters on strings (UTF-8 in, `String::from_utf8` out) -/

/-- The statement of the property for the filters themselves: for EVERY string `s`,
`b64_decode(b64_encode(s, url_safe, padded), url_safe)` is `Ok(s)` — the bytes round-trip
(`b64_roundtrip`) and are the UTF-8 form of `s`, which `String::from_utf8` accepts and maps back. -/
theorem b64_filter_roundtrip (urlSafe padded : Bool) (s : List Char) :
    b64DecodeFilter urlSafe (b64EncodeFilter urlSafe padded s) = .ok s := by
  unfold b64DecodeFilter b64EncodeFilter
  rw [b64_roundtrip_bytes urlSafe padded _ (utf8Encode_bytes s)]
  simp [utf8Decode_encode]

/-- percent-decoding the output of `urlencode(s)` / `urlencode_strict(s)` and reading it as UTF-8
returns `s`, for every string -/
theorem urlencode_filter_roundtrip (s : List Char) :
    utf8Decode (percentDecode (percentEncode Generated.urlencodeSet (utf8Encode s))) = some s ∧
    utf8Decode (percentDecode (percentEncode Generated.urlencodeStrictSet (utf8Encode s))) = some s := by
  have h := percent_roundtrip (utf8Encode s) (utf8Encode_bytes s)
  rw [h.1, h.2]
  exact ⟨utf8Decode_encode s, utf8Decode_encode s⟩

/-- and the alphabet clauses for the filters on strings -/
theorem filters_alphabet (urlSafe padded : Bool) (s : List Char) :
    (∃ body, b64EncodeFilter urlSafe padded s =
        body ++ List.replicate (if padded then (3 - (utf8Encode s).length % 3) % 3 else 0) PAD
      ∧ ∀ c ∈ body, c ∈ alphabet urlSafe) ∧
    EscapedText (fun b => isUnreserved b || b == 47) (percentEncode Generated.urlencodeSet (utf8Encode s)) ∧
    EscapedText isAlnum (percentEncode Generated.urlencodeStrictSet (utf8Encode s)) := by
  obtain ⟨body, e, hm, _⟩ := b64_alphabet urlSafe padded (utf8Encode s) (utf8Encode_bytes s)
  exact ⟨⟨body, e, hm⟩, urlencode_alphabet _ (utf8Encode_bytes s), urlencode_strict_alphabet _ (utf8Encode_bytes s)⟩

/-! ## spot checks (the hypotheses are satisfiable; the models compute what the crates compute) -/

example : Bytes [0, 104, 255] := by intro b hb; simp at hb; omega
-- "hello" ↦ "aGVsbG8=" / "aGVsbG8"
example : b64Encode false true [104, 101, 108, 108, 111] = [97, 71, 86, 115, 98, 71, 56, 61] := by decide
example : b64Encode true false [104, 101, 108, 108, 111] = [97, 71, 86, 115, 98, 71, 56] := by decide
-- "<<??>>" ↦ "PDw_Pz4-" (url-safe) and "PDw/Pz4+" (standard)
example : b64Encode true true [60, 60, 63, 63, 62, 62] = [80, 68, 119, 95, 80, 122, 52, 45] := by decide
example : b64Encode false true [60, 60, 63, 63, 62, 62] = [80, 68, 119, 47, 80, 122, 52, 43] := by decide
-- "QQ==", "QQ=", "QQ" all decode to "A"; "QR" (trailing bits), "Q" (length), "Q=Q=" are errors
example : b64DecodeBytes false [81, 81, 61, 61] = .ok [65] ∧ b64DecodeBytes false [81, 81, 61] = .ok [65]
    ∧ b64DecodeBytes false [81, 81] = .ok [65] := ⟨rfl, rfl, rfl⟩
example : b64DecodeBytes false [81, 82] = .error .invalidLastSymbol ∧ b64DecodeBytes false [81] = .error .invalidLength
    ∧ b64DecodeBytes false [81, 61, 81, 61] = .error .invalidByte
    ∧ b64DecodeBytes true [80, 68, 119, 47] = .error .invalidByte := ⟨rfl, rfl, rfl, rfl⟩
-- "a/b c?" ↦ "a/b%20c%3F", strict "a%2Fb%20c%3F"
example : percentEncode Generated.urlencodeSet [97, 47, 98, 32, 99, 63] = [97, 47, 98, 37, 50, 48, 99, 37, 51, 70] := by decide
example : percentEncode Generated.urlencodeStrictSet [97, 47, 98] = [97, 37, 50, 70, 98] := by decide
-- a lone `%` and `%zz` stand for themselves when decoding
example : percentDecode [37, 52, 49, 37, 37, 122, 122] = [65, 37, 37, 122, 122] := by decide
-- "  --test_-_cool" ↦ "test-cool"
example : slugify (fun _ => none) [' ', ' ', '-', '-', 't', 'e', 's', 't', '_', '-', '_', 'c', 'o', 'o', 'l'] =
    [116, 101, 115, 116, 45, 99, 111, 111, 108] := by decide

end Tera.Props.C20
