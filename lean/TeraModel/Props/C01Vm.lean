/-
C01 on the REAL VM model — autoescaping: data never reaches an autoescaped output unescaped.

Props/C01.lean proves the property on the abstract SafeFlow machine (tagged bytes), tied to the
engine by black-box correspondence.  Here its core statements are re-proved on the value-level VM
of Model/Vm.lean, i.e. for EVERY bytecode listing, environment, context and fuel (`cvm` ties
Model/Vm.lean to the engine by executing the real stored listings).

The provenance instrumentation is a RELATION on the real model, not a rewritten VM:
* `safeOk P v` / `StateOk P st` (Lemmas/VmEscapeClean, VmEscapeScope, VmEscapeInv): every string
  carrying the Safe mark anywhere in the value / state — at any depth — and every sink text is made
  of characters of the set `P`.  Quantifying over ALL sets `P` that contain the escaper's output, the
  text of scalars and the literal template text is the tag-free form of "every byte is
  `lit | esc | scalar`": a character that came from data unescaped would have to be in every such
  `P`.  It is closed under the two operations that keep the mark (index, slice), which a
  chunk-level description is not.
* the ghost trace `traceRun` (Lemmas/VmWriterTrace.lean): a thin wrapper around the REAL `step`
  that lists the chunks a run appends to its output with their origin (`lit` = a `WriteText`,
  `sink` = the tail of `WriteTop` / `WritePath`); `C18Vm.vm_trace_faithful`: erasing the trace
  gives the run.

E1 `vm_sink_rule`, E2 `vm_safe_mint_points`, E3 `vm_capture_is_sink_output`, E4
`C01Vm_invariant` / `C01Vm_no_unescaped_data` / `C01Vm_render_no_special` (guarded) /
`C01Vm_render_no_special_unguarded` (about `render` itself, environments without component
bodies), E5 `C01Vm_off_bypasses` / `C01Vm_safe_bypasses` / `C01Vm_no_double_escape`.

One side condition is dynamic: `bodyGuard`.  `RenderBodyComponent` does `body.mark_safe()` on
whatever value the listing left in the body slot; the compiler always leaves the result of
`Capture … EndCapture` there (already Safe), but a hand-written listing can leave a Normal string
(`body_mark_is_a_mint_point`).  The guarded run stops at such a turn; `guarded_run_is_run`: a
guarded run that succeeds is the run of Model/Vm.lean.  Discharging the guard statically for
compiler output needs one more flag in the bytecode checker of Model/VmCheck.lean ("this slot is
not a Normal string": set by `EndCapture`, `super()` and component results, demanded of the body
slot of `RenderBodyComponent`); it is not done here.

Parameters, not verified here: the built-in filters / tests / functions (`EnvHyp.filters` …: the
ones the listings USE pass Safe strings through but mint none and are not registered `is_safe` —
`safe` itself is registered in every instance; "no use of `safe`" is about the listings,
`FilterUsed` / `FunctionUsed`), `fmtF64` (`FmtOk`: `{:?}` of an f64 is in `[0-9A-Za-z.+-]`), a
configured `escape_fn` (the VM model has the default escaper).
-/
import TeraModel.Lemmas.VmEscapeSink
import TeraModel.Lemmas.VmEscapeBuiltins
import TeraModel.Lemmas.VmBodyCheck
import TeraModel.Lemmas.VmStaticCheck
namespace Tera.C01Vm
open Tera Tera.Vm

/-! ## E1 — the sink rule -/

/-- **E1 `vm_sink_rule`.**  An exhaustive characterisation, by cases on the REAL `step`, of what
one turn can do to the capture buffers and the output (`SinkRule`):
`WriteText t` appends the literal `t` to the innermost capture buffer, else to the output;
`WriteTop` / `WritePath` append `emitValue` of a defined value `v` there;
`Include` appends what the nested `interpret` wrote; `RenderBlock` is the nested `interpret` on
the same sinks; `Capture` pushes an empty buffer; `EndCapture` pops one and pushes it as a Safe
string; EVERY other instruction — `super()`, components, filters, `StrConcat`, … — leaves the
capture buffers and the output exactly as they were. -/
theorem vm_sink_rule (rec : VmCtx → Chunk → State → RunRes) (env : Env) (vm : VmCtx) (c : Chunk)
    (e : VEntry) (pc pc' : Nat) (st st' : State) (h : step rec env vm c e pc st = .next pc' st') :
    SinkRule rec env vm e.1 pc st st' :=
  sink_rule e h

/-- E1, the bytes: with autoescape on, what `emitValue` appends for `v` is `sinkText env v`, which
is: the characters of `v` as they are when `v` is a string marked Safe; `format v` when `v` is a
scalar (bool / number / none), and then escaping it would have changed nothing
(`escape_id_on_scalars`); `escapeHtml (format v)` in every other case.  (As bytes:
`C07Vm.vm_write_bytes`.) -/
theorem vm_sink_bytes (env : Env) (vm : VmCtx) (hf : FmtOk env.fmtF64) (hon : vm.autoescape = true)
    (v : Value) (st : State) :
    emitValue env vm v st = st.write (sinkText env v) ∧
    ((∃ s, v = .str true s ∧ sinkText env v = s) ∨
     (isScalar v = true ∧ sinkText env v = v.format env.fmtF64 ∧
        escapeHtml (v.format env.fmtF64) = v.format env.fmtF64) ∨
     (v.isSafe = false ∧ sinkText env v = escapeHtml (v.format env.fmtF64))) :=
  ⟨emitValue_sinkText hon v st, sinkText_cases hf v⟩

/-- The character-level escaper of the VM model writes no `<`, `>`, `"`, `'` — from the byte table
the translator extracts from the source (`escape_html_clean`) through `escape_bytes_agree`. -/
theorem vm_escape_clean (s : List Char) : ∀ c ∈ escapeHtml s, isSpecialChar c = false :=
  escapeHtml_no_special s

/-- `format_scalar_alphabet` on the VM model's `Value::format`: every scalar prints in
`[0-9A-Za-z.+-]` (floats: by `FmtOk`). -/
theorem vm_format_scalar_alphabet (fmtF64 : F64 → List Char) (hf : FmtOk fmtF64) (v : Value)
    (hv : isScalar v = true) : ∀ c ∈ v.format fmtF64, scalarChar c = true :=
  format_scalar hf hv

/-! ## E2 — where Safe strings can come from -/

/-- **E2 `vm_safe_mint_points`.**  For every set `P` of characters: if before the turn every Safe
string in the state (value stack, set variables, loop items and locals, includers' scopes,
contexts — at any depth inside arrays and maps) and every sink text is made of `P` characters, and
the only sources a turn can mint from are in `P` (`EnvClean P`: the chunk's literal text and
constants, escaper output and scalar text, what built-ins return given `P`-clean arguments — none
registered safe), then the same holds after the turn.  The proof is one lemma per arm of `step`
(Lemmas/VmEscapeInv.lean); the arms that put a NEW Safe string somewhere are exactly `EndCapture`
(the popped buffer), `super()` and component calls (the nested output) and — flagged by
`bodyGuard` — the body of `RenderBodyComponent`; index and slice keep the mark on characters of
the string they read; every other arm moves or copies values, or builds a Normal string
(`StrConcat`, `format`, keys of iterated maps, characters of iterated strings). -/
theorem vm_safe_mint_points (P : Char → Prop) (K : Policy) (rec : VmCtx → Chunk → State → RunRes)
    (env : Env) (vm : VmCtx) (c : Chunk) (e : VEntry) (pc pc' : Nat) (st st' : State)
    (hE : EnvClean P K env) (hrec : RecOk P K rec) (hvm : VmOk P K vm) (hc : ChunkClean P K c)
    (he : e ∈ c.code) (hg : bodyGuard e.1 st = false ∨ ¬ K.body) (hst : StateOk P K st)
    (h : step rec env vm c e pc st = .next pc' st') : StateOk P K st' :=
  step_ok hE hrec hvm hc e he hg hst h

/-- `StrConcat` yields a Normal string, whatever marks its operands carry. -/
theorem vm_strConcat_normal (env : Env) (pc pc' : Nat) (st st' : State)
    (h : stepStrConcat env pc st = .next pc' st') :
    ∃ s r, st'.stack.head? = some (.str false s, r) := by
  unfold stepStrConcat at h
  split at h
  · simp at h
  · simp at h
  · simp only [StepRes.next.injEq] at h
    rw [← h.2]
    exact ⟨_, _, rfl⟩

/-- **The built-ins of Model/Builtins.lean mint nothing** — the assumption `EnvHyp.filters /
tests / functions`, discharged for the modelled built-ins (what the `cvm` / `cpipe` drivers put
behind `Env.callFilter`, `callTest`, `callFunction`, except the collection filters whose bodies
live in the drivers).  Every filter other than `safe` returns a Normal string, a number, or one of
its arguments unchanged (`default`, `get`): whatever carries the Safe mark in a result carried it
in the receiver or in an argument; every test answers a bool; `range` returns integers, `throw`
nothing.  For every character set `P`, hence in the sense of `EnvHyp`. -/
theorem C01Vm_builtin_model_mints_nothing (P : Char → Prop) (Pm : Builtins.Params) (maxLen : Nat) :
    (∀ nb ∈ Builtins.filterTable Pm, nb.1 ≠ "safe" → ∀ v kw r, nb.2.apply v kw = .ok r →
      safeOk P v → kwOk P kw → safeOk P r) ∧
    (∀ nb ∈ Builtins.testTable, ∀ v kw r, nb.2.apply v kw = .ok r → safeOk P r) ∧
    (∀ nb ∈ Builtins.functionTable maxLen, ∀ v kw r, nb.2.apply v kw = .ok r → safeOk P r) :=
  ⟨fun nb hnb hne v kw r h hv hk =>
      noMint_apply (filterTable_mints_nothing Pm nb hnb hne v kw hv hk) r h,
   fun nb hnb v kw r h => noMint_apply (testTable_mints_nothing nb hnb v kw) r h,
   fun nb hnb v kw r h => noMint_apply (functionTable_mints_nothing maxLen nb hnb v kw) r h⟩

/-- … and `safe` is the one that does: on a Normal string it returns the same characters marked
Safe — the mint point C01 excludes by "no use of `safe`". -/
theorem C01Vm_safe_filter_mints (Pm : Builtins.Params) (s : List Char) (kw : Args.Kwargs) :
    ∃ b, Builtins.lookup (Builtins.filterTable Pm) "safe" = some b ∧
      b.body (.str false s) kw = .ok (.str true s) :=
  ⟨_, rfl, rfl⟩

/-! ## E3 — a capture is what the sink rule let in -/

/-- **E3 `vm_capture_is_sink_output`.**  `EndCapture` mints exactly the innermost buffer: the new
Safe string IS the text the sink rule (E1) let into that buffer since its `Capture` — nothing is
added, dropped or re-escaped — and the output is untouched. -/
theorem vm_capture_is_sink_output (rec : VmCtx → Chunk → State → RunRes) (env : Env) (vm : VmCtx)
    (c : Chunk) (spans : List Span) (pc pc' : Nat) (st st' : State)
    (h : step rec env vm c (.endCapture, spans) pc st = .next pc' st') :
    ∃ buf rest, st.captures = buf :: rest ∧ st'.captures = rest ∧
      st'.stack = (.str true buf, (pc, pc)) :: st.stack ∧ st'.out = st.out := by
  obtain ⟨buf, rest, hc, rfl⟩ := sink_rule (.endCapture, spans) h
  exact ⟨buf, rest, hc, rfl, rfl, rfl⟩

/-! ## E4 — along a run -/

/-- A guarded run that ends normally is the run of Model/Vm.lean: the guard only ever stops a
run, it changes nothing else. -/
theorem guarded_run_is_run (guard : Guard) (fuel : Fuel) (env : Env) (vm : VmCtx) (c : Chunk)
    (st st' : State) (h : (traceRun guard fuel env vm c st).1 = .done st') :
    run fuel env vm c st = .done st' :=
  tInterp_guard_done guard env fuel.steps fuel.depth vm c st st' h

/-- **E4 `C01Vm_invariant`** (any character set, any sufficient guard).  Autoescape on for the VM
and every template, no built-in registered safe, sources in `P` (`EnvClean P`), a start state whose
Safe strings and sink texts are in `P`: then EVERY chunk the run appends to its output — also on a
run that ends in an error — is made of `P` characters, and a run that ends normally ends in a state
with the same property whose output is the initial output followed by the chunks of the trace.
Induction on both fuels through nested `interpret` calls (include, block, `super()`, component).
`LoopInv K g env`: the guard is `bodyGuard` (`LoopInv.ofGuard`), or there is no guard and no
chunk contains a `RenderBodyComponent` (`K.body = False`), or there is no guard and every chunk
that runs passed the bytecode checker `bodyCheck` (`LoopInv.checked`).  `K` (`Policy`) also names
the filters and functions the listings use: only those are constrained — the `safe` filter is
always registered, the hypothesis of C01 is that no template uses it. -/
theorem C01Vm_invariant (P : Char → Prop) (K : Policy) (g : Guard) (env : Env)
    (hg : LoopInv K g env) (fuel : Fuel) (vm : VmCtx) (c : Chunk) (st : State) (hE : EnvClean P K env) (hvm : VmOk P K vm)
    (hc : ChunkClean P K c) (hst : StateOk P K st) :
    (∀ ch ∈ (traceRun g fuel env vm c st).2, AllP P ch.2) ∧
    ∀ st', (traceRun g fuel env vm c st).1 = .done st' →
      run fuel env vm c st = .done st' ∧ StateOk P K st' ∧
      st'.out = st.out ++ (traceRun g fuel env vm c st).2.text := by
  obtain ⟨h1, h2⟩ := tInterp_ok hg hE fuel.steps fuel.depth
  refine ⟨h2 vm c st hvm hc hst, ?_⟩
  intro st' h
  exact ⟨guarded_run_is_run g fuel env vm c st st' h, h1 vm c st st' hvm hc hst h,
    tInterp_out g env fuel.steps fuel.depth vm c st st' h⟩

/-- **E4 `C01Vm_no_unescaped_data`** (default escaper, no tags).  Environment as C01 demands
(`EnvHyp`: autoescape on for every template, nothing registered safe, built-ins mint nothing,
constants and defaults unmarked), a VM for one of its templates with autoescape in force, one of
its chunks, a start state holding no pre-marked Safe string.  Then every `<`, `>`, `"`, `'` in
every chunk the run appends to its output — whatever the data, however it is routed through
variables, loops, captures, includes, blocks, components — occurs in the text of a `WriteText` of
the environment's chunks; the same for the final output and the block buffer.  Every other byte
written is literal text, escaper output, scalar text, or a Safe string made of those. -/
theorem C01Vm_no_unescaped_data (body : Prop) (ck : Chunk → Prop) (g : Guard) (env : Env)
    (hg : LoopInv (policyOf env body ck) g env)
    (fuel : Fuel) (vm : VmCtx) (c : Chunk) (st : State) (hE : EnvHyp env)
    (hB : BodyComps env body) (hck : ∀ ch, EnvChunk env ch → ck ch) (hon : vm.autoescape = true)
    (hvt : ∃ n, (n, vm.template) ∈ env.templates) (hc : EnvChunk env c)
    (hst : StateOk (Allowed env) (policyOf env body ck) st) :
    (∀ ch ∈ (traceRun g fuel env vm c st).2, ∀ x ∈ ch.2, isSpecialChar x = true → LitChar env x) ∧
    ∀ st', (traceRun g fuel env vm c st).1 = .done st' →
      run fuel env vm c st = .done st' ∧
      (∀ x ∈ st'.out, isSpecialChar x = true → LitChar env x) ∧
      (∀ x ∈ st'.blockBuffer, isSpecialChar x = true → LitChar env x) := by
  have hclean := envClean_allowed hE hB hck
  obtain ⟨n, hn⟩ := hvt
  have hvm : VmOk (Allowed env) (policyOf env body ck) vm := ⟨hon, (hclean.tpls _ hn).1⟩
  have hcc := chunkClean_allowed hE hB hck c hc
  obtain ⟨h1, h2⟩ := C01Vm_invariant (Allowed env) (policyOf env body ck) g env hg fuel vm c st hclean
    hvm hcc hst
  refine ⟨fun ch hch x hx hs => allowed_special (h1 ch hch x hx) hs, ?_⟩
  intro st' h
  obtain ⟨hr, hok, _⟩ := h2 st' h
  exact ⟨hr, fun x hx hs => allowed_special (hok.out x hx) hs,
    fun x hx hs => allowed_special (hok.bbuf x hx) hs⟩

/-- E4 at the entry points, any sufficient guard (`renderWith g` = `render` along the traced run
with guard `g`). -/
theorem C01Vm_render_with (body : Prop) (ck : Chunk → Prop) (g : Guard) (fuel : Fuel) (env : Env)
    (hgd : LoopInv (policyOf env body ck) g env)
    (name : String) (block : Option String) (ctx globalCtx : Ctx) (hE : EnvHyp env)
    (hB : BodyComps env body) (hck : ∀ ch, EnvChunk env ch → ck ch) (hctx : ∀ kv ∈ ctx, NoSafe kv.2) (hg : ∀ kv ∈ globalCtx, NoSafe kv.2)
    (text : List Char) (h : renderWith g fuel env name block ctx globalCtx = .ok text) :
    render fuel env name block ctx globalCtx = .ok text ∧
    ∀ x ∈ text, isSpecialChar x = true → LitChar env x := by
  unfold renderWith at h
  unfold render
  cases htpl : env.template name with
  | none => rw [htpl] at h; cases h
  | some tpl =>
    rw [htpl] at h
    simp only at h ⊢
    split
    · rename_i hl; rw [if_pos hl] at h; cases h
    · rename_i hl
      rw [if_neg hl] at h
      cases hc : entryChunk env tpl with
      | none => rw [hc] at h; cases h
      | some chunk =>
        rw [hc] at h
        simp only at h ⊢
        have htm : (name, tpl) ∈ env.templates := assoc_mem htpl
        have hchunk : EnvChunk env chunk := by
          unfold entryChunk at hc
          split at hc
          · rename_i base _
            cases hb : env.template base with
            | none => rw [hb] at hc; cases hc
            | some btpl =>
              rw [hb] at hc; simp only [Option.map_some, Option.some.injEq] at hc; subst hc
              exact Or.inl ⟨_, assoc_mem hb, Or.inl rfl⟩
          · simp only [Option.some.injEq] at hc; subst hc
            exact Or.inl ⟨_, htm, Or.inl rfl⟩
        have hon : ({ template := tpl, autoescapeOverride := none, depth := 0 } : VmCtx).autoescape = true := by
          simp only [VmCtx.autoescape, Option.getD_none]
          exact hE.autoescape _ htm
        have hst : StateOk (Allowed env) (policyOf env body ck) (entryState block ctx globalCtx) :=
          ⟨stackOk_nil, scopeOk_root (fun kv hkv => hctx kv hkv _) (fun kv hkv => hg kv hkv _),
            fun _ hb => (nomatch hb), AllP.nil, AllP.nil, fun _ he => (nomatch he)⟩
        obtain ⟨_, h2⟩ := C01Vm_no_unescaped_data body ck g env hgd fuel
          { template := tpl, autoescapeOverride := none, depth := 0 } chunk
          (entryState block ctx globalCtx) hE hB hck hon ⟨name, htm⟩ hchunk hst
        cases hr : (traceRun g fuel env { template := tpl, autoescapeOverride := none, depth := 0 }
            chunk (entryState block ctx globalCtx)).1 with
        | done st' =>
          rw [hr] at h
          obtain ⟨hrun, hout, hbb⟩ := h2 st' hr
          rw [hrun]
          refine ⟨h, ?_⟩
          simp only [outcomeOf, Outcome.ok.injEq] at h
          subst h
          split
          · exact hbb
          · exact hout
        | err e => rw [hr] at h; cases h
        | panic s => rw [hr] at h; cases h
        | unmodelled w => rw [hr] at h; cases h
        | outOfFuel => rw [hr] at h; cases h

/-- `Tera::render` / `render_block` with the guard. -/
abbrev renderGuarded := renderWith bodyGuard

/-- **E4 at the entry points `C01Vm_render_no_special`.**  For every environment as C01 demands,
every template and block name, every context and global context that hold no pre-marked Safe
string, every fuel: when the guarded render succeeds it is the render of Model/Vm.lean, and every
`<`, `>`, `"`, `'` of the text it returns occurs in literal template text. -/
theorem C01Vm_render_no_special (fuel : Fuel) (env : Env) (name : String) (block : Option String)
    (ctx globalCtx : Ctx) (hE : EnvHyp env) (hctx : ∀ kv ∈ ctx, NoSafe kv.2)
    (hg : ∀ kv ∈ globalCtx, NoSafe kv.2) (text : List Char)
    (h : renderGuarded fuel env name block ctx globalCtx = .ok text) :
    render fuel env name block ctx globalCtx = .ok text ∧
    ∀ x ∈ text, isSpecialChar x = true → LitChar env x :=
  C01Vm_render_with True (fun _ => True) bodyGuard fuel env (LoopInv.ofGuard env (guardFor_body _))
    name block ctx globalCtx hE (fun _ _ _ _ _ _ => trivial) (fun _ _ => trivial) hctx hg text h

/-- **… and with NO guard** when no chunk of the environment contains a `RenderBodyComponent`
(no `<Comp>…</Comp>` call with a body anywhere): the statement is about `render` itself. -/
theorem C01Vm_render_no_special_unguarded (fuel : Fuel) (env : Env) (name : String)
    (block : Option String) (ctx globalCtx : Ctx) (hE : EnvHyp env)
    (hnb : ∀ ch, EnvChunk env ch → ∀ e ∈ ch.code, ∀ n, e.1 ≠ .renderComponent n true)
    (hctx : ∀ kv ∈ ctx, NoSafe kv.2) (hg : ∀ kv ∈ globalCtx, NoSafe kv.2) (text : List Char)
    (h : render fuel env name block ctx globalCtx = .ok text) :
    ∀ x ∈ text, isSpecialChar x = true → LitChar env x :=
  (C01Vm_render_with False (fun _ => True) noGuard fuel env
    (LoopInv.ofGuard env (guardFor_none (K := policyOf env False) id)) name block
    ctx globalCtx hE (fun ch hch e he n hn => hnb ch hch e he n hn) (fun _ _ => trivial) hctx hg text
    (by rw [renderWith_noGuard]; exact h)).2

/-- **… and with NO guard for CHECKED listings** (`bodyCheck`, Lemmas/VmBodyCheck.lean: a small
bytecode checker — per stack slot one flag "not a Normal string", set for the results of
`EndCapture`, `super()`, component calls — that accepts a chunk only if at every
`RenderBodyComponent` the body slot carries the flag; sound against the REAL `step`).  When every
chunk of the environment passes it, the statement is about `render` itself, component bodies
included: the compiler's `Capture … EndCapture; <kwargs>; BuildMap; RenderBodyComponent` passes. -/
theorem C01Vm_render_no_special_checked (fuel : Fuel) (env : Env) (name : String)
    (block : Option String) (ctx globalCtx : Ctx) (hE : EnvHyp env)
    (hck : ∀ ch, EnvChunk env ch → bodyCheck ch = true)
    (hctx : ∀ kv ∈ ctx, NoSafe kv.2) (hg : ∀ kv ∈ globalCtx, NoSafe kv.2) (text : List Char)
    (h : render fuel env name block ctx globalCtx = .ok text) :
    ∀ x ∈ text, isSpecialChar x = true → LitChar env x :=
  (C01Vm_render_with True (fun c => bodyCheck c = true) noGuard fuel env
    (LoopInv.checked env (K := policyOf env True (fun c => bodyCheck c = true)) (fun _ hc => hc))
    name block ctx globalCtx hE (fun _ _ _ _ _ _ => trivial) hck hctx hg text
    (by rw [renderWith_noGuard]; exact h)).2

/-- **C01 on the real VM model, with every hypothesis on the listings computable.**
`c01StaticCheck env` (Model/VmBodyCheck.lean) evaluates on an environment's listings: autoescape on
for every template; no constant and no parameter default marked Safe; no filter / function a
listing applies registered `is_safe` ("no use of `safe`"); every chunk passes `bodyCheck`.  With
the two parameter assumptions `ParamHyp` (the built-ins the listings use mint no Safe string —
`C01Vm_builtin_model_mints_nothing` for the modelled ones; `{:?}` of an f64 is in
`[0-9A-Za-z.+-]`) and a context holding no pre-marked Safe string: every `<`, `>`, `"`, `'` of the
text `render` / `render_block` return occurs in literal template text — every listing, block,
context, fuel. -/
theorem C01Vm_static_check (fuel : Fuel) (env : Env) (name : String) (block : Option String)
    (ctx globalCtx : Ctx) (hs : c01StaticCheck env = true) (hp : ParamHyp env)
    (hctx : ∀ kv ∈ ctx, NoSafe kv.2) (hg : ∀ kv ∈ globalCtx, NoSafe kv.2) (text : List Char)
    (h : render fuel env name block ctx globalCtx = .ok text) :
    ∀ x ∈ text, isSpecialChar x = true → LitChar env x :=
  C01Vm_render_no_special_checked fuel env name block ctx globalCtx (static_check_sound hs hp).1
    (static_check_sound hs hp).2 hctx hg text h

/-- The checker is sound against the REAL `step`: along any run on a chunk it accepts, whatever
the state it is entered with, `bodyGuard` never fires — the guarded run IS the run. -/
theorem bodyCheck_sound (rec : VmCtx → Chunk → State → RunRes) (env : Env) (vm : VmCtx) (c : Chunk)
    (hc : bodyCheck c = true) (st0 : State) (pc : Nat) (st : State)
    (hreach : Reach rec env vm c (0, st0) (pc, st)) (e : VEntry) (hcode : c.code[pc]? = some e) :
    bodyGuard e.1 st = false := by
  have key : ∀ a b, Reach rec env vm c a b → CheckedInv c a.1 a.2 → CheckedInv c b.1 b.2 := by
    intro a b hr
    induction hr with
    | refl a => exact id
    | step e he hs _ ih => exact fun h0 => ih (checkedInv_step he h0 hs)
  exact checkedInv_guard hcode (key _ _ hreach (checkedInv_entry hc st0))

/-! ## E5 — the bypasses -/

/-- **`C01Vm_off_bypasses`.**  With autoescape off for the executing VM (template flag or per-call
override), `WriteTop` and `WritePath` write `format v` exactly, whatever the value. -/
theorem C01Vm_off_bypasses (env : Env) (vm : VmCtx) (hoff : vm.autoescape = false) (v : Value)
    (st : State) : emitValue env vm v st = st.write (v.format env.fmtF64) :=
  emitValue_off hoff v st

/-- **`C01Vm_safe_bypasses`.**  A value `Value::is_safe` answers `true` for is written as
`format v` exactly, whatever the autoescape setting. -/
theorem C01Vm_safe_bypasses (env : Env) (vm : VmCtx) (v : Value) (hs : v.isSafe = true) (st : State) :
    emitValue env vm v st = st.write (v.format env.fmtF64) :=
  emitValue_safe hs st

/-- **`C01Vm_no_double_escape`.**  Printing a captured / component / `super()` string as is
writes its characters unchanged: it is not escaped a second time. -/
theorem C01Vm_no_double_escape (env : Env) (vm : VmCtx) (s : List Char) (st : State) :
    emitValue env vm (.str true s) st = st.write s :=
  emitValue_safe (v := .str true s) rfl st

/-- … and both bypasses as statements about the REAL `step` on `WriteTop`: the turn pops a defined
value `v` and appends `emitValue` of it (E1), which is `format v` in the two cases. -/
theorem C01Vm_writeTop_bypass (rec : VmCtx → Chunk → State → RunRes) (env : Env) (vm : VmCtx)
    (c : Chunk) (spans : List Span) (pc pc' : Nat) (st st' : State)
    (h : step rec env vm c (.writeTop, spans) pc st = .next pc' st') :
    ∃ v r rest, st.stack = (v, r) :: rest ∧
      ((vm.autoescape = false ∨ v.isSafe = true) →
        st' = State.write { st with stack := rest } (v.format env.fmtF64)) := by
  obtain ⟨v, r, rest, hs, _, rfl⟩ := sink_rule (.writeTop, spans) h
  refine ⟨v, r, rest, hs, ?_⟩
  rintro (hoff | hsafe)
  · exact emitValue_off hoff v _
  · exact emitValue_safe hsafe _

/-! ## The hypotheses are satisfiable, the statements bite (kernel-evaluated) -/

def exOps : FloatOps :=
  { add := fun a _ => a, sub := fun a _ => a, mul := fun a _ => a, div := fun a _ => a,
    remEuclid := fun a _ => a, divEuclid := fun a _ => a, powf := fun a _ => a, neg := fun a => a }

/-- `<p>{% set y %}{{ x }}{% endset %}{{ y }}{{ y[0:2] ~ x }}</p>`: a capture with an escaped write,
printed as is, then a slice of it concatenated with the raw data (a Normal string: escaped) -/
def exMain : Chunk :=
  { name := "t",
    code := [(.writeText "<p>".toList, []), (.capture, []), (.writePath ["x"], ["s"]), (.endCapture, []),
             (.set "y" false, []), (.loadName "y", ["s"]), (.writeTop, []),
             (.loadName "y", ["s"]), (.loadConst (.u64 0), []), (.loadConst (.u64 2), []),
             (.loadConst .none, []), (.slice false, ["s"]), (.loadName "x", ["s"]), (.strConcat, []),
             (.writeTop, []), (.writeText "</p>".toList, [])] }

def exTpl : TemplateInfo :=
  { name := "t", chunk := exMain, autoescape := true, parents := [], blockLineage := [], components := [] }

/-- the `safe` filter is registered, and registered `is_safe`, as in every real instance; no
listing of this environment applies it -/
def exEnv : Env :=
  { templates := [("t", exTpl)], components := [],
    hasFilter := fun n => n == "safe", hasTest := fun _ => false, hasFunction := fun _ => false,
    callFilter := fun n v _ => if n == "safe" then .ok v else .err, filterIsSafe := fun n => n == "safe",
    callTest := fun _ _ _ => .err, callFunction := fun _ _ => .err, functionIsSafe := fun _ => false,
    F := exOps, fmtF64 := fun _ => [] }

def exCtx : Ctx := [("x", .str false "<'a".toList)]

/-- the capture is escaped once (`&lt;&#39;a`), printed as is; its slice `&l` keeps the mark but the
concatenation with the data is Normal and goes through the escaper again -/
example : (match renderGuarded ⟨3, 100⟩ exEnv "t" none exCtx [] with
    | .ok text => text == "<p>&lt;&#39;a&amp;l&lt;&#39;a</p>".toList
    | _ => false) = true := by decide +kernel

/-- the ghost trace of that run: two literal chunks, two sink chunks with text -/
example : ((traceRun bodyGuard ⟨3, 100⟩ exEnv { template := exTpl, autoescapeOverride := none, depth := 0 }
      exMain (entryState none exCtx [])).2.filter (fun ch => !ch.2.isEmpty))
    = [(.lit, "<p>".toList), (.sink, "&lt;&#39;a".toList), (.sink, "&amp;l&lt;&#39;a".toList),
       (.lit, "</p>".toList)] := by decide +kernel

/-- the instructions of the environment's chunks -/
theorem exEnv_code : ∀ ch, EnvChunk exEnv ch → ch = exMain := by
  intro ch h
  rcases h with ⟨x, hx, h⟩ | ⟨y, hy, _⟩
  · simp only [exEnv, List.mem_cons, List.not_mem_nil, or_false] at hx
    subst hx
    rcases h with h | ⟨y, hy, _⟩ | ⟨y, hy, _⟩
    · exact h
    · simp [exTpl] at hy
    · simp [exTpl] at hy
  · simp [exEnv] at hy

/-- `EnvHyp` has instances — with `safe` registered -/
theorem exEnv_hyp : EnvHyp exEnv := by
  have hinstr : ∀ ch, EnvChunk exEnv ch → ∀ e ∈ ch.code, (∀ n, e.1 ≠ .applyFilter n) ∧
      (∀ n, e.1 ≠ .callFunction n) ∧ (∀ v, e.1 = .loadConst v → NoSafe v) := by
    intro ch hch e he
    rw [exEnv_code ch hch] at he
    simp only [exMain, List.mem_cons, List.not_mem_nil, or_false] at he
    rcases he with rfl | rfl | rfl | rfl | rfl | rfl | rfl | rfl | rfl | rfl | rfl | rfl | rfl | rfl | rfl | rfl <;>
      refine ⟨fun n hn => (by cases hn), fun n hn => (by cases hn), fun v hv P => ?_⟩ <;>
      simp only [reduceCtorEq, VInstr.loadConst.injEq] at hv <;> subst hv <;> simp
  have hnf : ∀ n, ¬ FilterUsed exEnv n := fun n ⟨ch, hch, e, he, hn⟩ => (hinstr ch hch e he).1 n hn
  have hnfn : ∀ n, ¬ FunctionUsed exEnv n := fun n ⟨_, ch, hch, e, he, hn⟩ => (hinstr ch hch e he).2.1 n hn
  refine ⟨?_, fun n h => absurd h (hnf n), fun n h => absurd h (hnfn n), ?_, ?_, ?_, ?_, ?_, ?_⟩
  · intro x hx
    simp only [exEnv, List.mem_cons, List.not_mem_nil, or_false] at hx
    subst hx; rfl
  · intro P n v kw r h; exact absurd h (hnf n)
  · intro P n v kw r h; simp [exEnv] at h
  · intro P n kw r h; exact absurd h (hnfn n)
  · intro ch hch e he v hv; exact (hinstr ch hch e he).2.2 v hv
  · intro d hd
    rcases hd with ⟨x, hx, y, hy, _⟩ | ⟨y, hy, _⟩
    · simp only [exEnv, List.mem_cons, List.not_mem_nil, or_false] at hx
      subst hx; simp [exTpl] at hy
    · simp [exEnv] at hy
  · intro x c hc; simp [exEnv] at hc

/-- … so the theorem applies to the example: every special character of its output is literal -/
example : ∀ text, renderGuarded ⟨3, 100⟩ exEnv "t" none exCtx [] = .ok text →
    ∀ x ∈ text, isSpecialChar x = true → LitChar exEnv x :=
  fun text h => (C01Vm_render_no_special ⟨3, 100⟩ exEnv "t" none exCtx [] exEnv_hyp
    (by intro kv hkv P; simp only [exCtx, List.mem_cons, List.not_mem_nil, or_false] at hkv; subst hkv; simp)
    (by intro kv hkv; cases hkv) text h).2

/-- the example has no `RenderBodyComponent`: the unguarded theorem speaks of `render` itself -/
example : ∀ text, render ⟨3, 100⟩ exEnv "t" none exCtx [] = .ok text →
    ∀ x ∈ text, isSpecialChar x = true → LitChar exEnv x :=
  fun text h => C01Vm_render_no_special_unguarded ⟨3, 100⟩ exEnv "t" none exCtx [] exEnv_hyp
    (by
      intro ch hch e he n hn
      rw [exEnv_code ch hch] at he
      simp only [exMain, List.mem_cons, List.not_mem_nil, or_false] at he
      rcases he with rfl | rfl | rfl | rfl | rfl | rfl | rfl | rfl | rfl | rfl | rfl | rfl | rfl | rfl | rfl | rfl <;>
        cases hn)
    (by intro kv hkv P; simp only [exCtx, List.mem_cons, List.not_mem_nil, or_false] at hkv; subst hkv; simp)
    (by intro kv hkv; cases hkv) text h

/-- the statement bites: with autoescape off the same listing writes the data raw -/
example : (match render ⟨3, 100⟩
      { exEnv with templates := [("t", { exTpl with autoescape := false })] } "t" none exCtx [] with
    | .ok text => text == "<p><'a<'<'a</p>".toList
    | _ => false) = true := by decide +kernel

/-- … and so does the `safe` filter once a listing uses it (`{{ x | safe }}`): `EnvHyp` constrains
exactly the names the listings use -/
example : (match render ⟨3, 100⟩
      { exEnv with templates := [("t", { exTpl with chunk :=
          { name := "t", code := [(.loadName "x", ["s"]), (.buildMap 0, []), (.applyFilter "safe", ["s"]),
                                   (.writeTop, [])] } })] } "t" none exCtx [] with
    | .ok text => text == "<'a".toList
    | _ => false) = true := by decide +kernel

/-- `body_mark_is_a_mint_point`: why the guard is there.  A hand-written listing that leaves a
Normal string in the body slot of `RenderBodyComponent` gets it marked Safe (`body.mark_safe()`),
and the component prints it unescaped; the guarded run refuses that turn.  (The compiler always
emits `Capture … EndCapture` for the body.) -/
def exBodyComp : Chunk := { name := "t", code := [(.writePath ["body"], ["s"])] }

def exBodyMain : Chunk :=
  { name := "t", code := [(.loadName "x", ["s"]), (.buildMap 0, []), (.renderComponent "c" true, ["s"]),
                           (.writeTop, [])] }

def exBodyEnv : Env :=
  { exEnv with
    templates := [("t", { exTpl with chunk := exBodyMain })],
    components := [("c", ({ params := [], rest := none }, exBodyComp))] }

theorem body_mark_is_a_mint_point :
    (match render ⟨3, 100⟩ exBodyEnv "t" none exCtx [] with
      | .ok text => text == "<'a".toList
      | _ => false) = true ∧
    (match renderGuarded ⟨3, 100⟩ exBodyEnv "t" none exCtx [] with
      | .unmodelled w => w == GUARD
      | _ => false) = true := by
  constructor <;> decide +kernel

/-- the shape the compiler emits for `<c title={a or "x"}>{{ x }}</c>` followed by printing the
result: `Capture … EndCapture; <kwargs, with a short-circuit jump>; BuildMap; RenderBodyComponent` -/
def exCompiled : Chunk :=
  { name := "t",
    code := [(.capture, []), (.writePath ["x"], ["s"]), (.endCapture, ["s"]),
             (.loadConst (.str false "title".toList), []), (.loadName "a", ["s"]),
             (.jumpIfTrueOrPop 7, []), (.loadConst (.str false "x".toList), []),
             (.buildMap 1, []), (.renderComponent "c" true, ["s"]), (.writeTop, [])] }

/-- the checker accepts it … -/
example : bodyCheck exCompiled = true := by decide +kernel

/-- … refuses the hand-written listing that leaves data in the body slot … -/
example : bodyCheck exBodyMain = false := by decide +kernel

/-- … and one where a jump could reach the call with something else in the body slot -/
example : bodyCheck { name := "t", code := [(.loadName "x", ["s"]), (.popJumpIfFalse 4, []),
    (.capture, []), (.endCapture, ["s"]), (.loadName "y", ["s"]), (.buildMap 0, []),
    (.renderComponent "c" true, ["s"])] } = false := by decide +kernel

/-- a `{% break %}` in a loop of the same chunk does not disturb it: the checker knows where the
`Break` continues (the `end_ip` the loop's `Iterate` recorded) -/
example : bodyCheck { name := "t", code := [(.loadName "items", ["s"]), (.startIterate false false, []),
    (.storeLocal "i", []), (.iterate 8, []), (.loadName "i", ["s"]), (.popJumpIfFalse 7, []),
    (.break_, []), (.jump 3, []), (.popLoop, []),
    (.capture, []), (.writeText "b".toList, []), (.endCapture, ["s"]), (.buildMap 0, []),
    (.renderComponent "c" true, ["s"]), (.writeTop, [])] } = true := by decide +kernel

/-- … also when the loop is inside the captured body -/
example : bodyCheck { name := "t", code := [(.capture, []),
    (.loadName "items", ["s"]), (.startIterate false false, []),
    (.storeLocal "i", []), (.iterate 9, []), (.loadName "i", ["s"]), (.popJumpIfFalse 8, []),
    (.break_, []), (.jump 4, []), (.popLoop, []),
    (.endCapture, ["s"]), (.buildMap 0, []),
    (.renderComponent "c" true, ["s"]), (.writeTop, [])] } = true := by decide +kernel

/-- the whole static check, evaluated: the example environment passes (with `safe` registered and
unused) … -/
example : c01StaticCheck exEnv = true := by decide +kernel

/-- … `ParamHyp` has instances, so `C01Vm_static_check` applies to it in full: no guard, no
hypothesis left but the context's -/
example : ∀ text, render ⟨3, 100⟩ exEnv "t" none exCtx [] = .ok text →
    ∀ x ∈ text, isSpecialChar x = true → LitChar exEnv x :=
  fun text h => C01Vm_static_check ⟨3, 100⟩ exEnv "t" none exCtx [] (by decide +kernel)
    ⟨exEnv_hyp.filters, exEnv_hyp.tests, exEnv_hyp.functions, exEnv_hyp.fmt⟩
    (by intro kv hkv P; simp only [exCtx, List.mem_cons, List.not_mem_nil, or_false] at hkv; subst hkv; simp)
    (by intro kv hkv; cases hkv) text h

/-- … one whose listing applies `safe` does not … -/
example : c01StaticCheck { exEnv with templates := [("t", { exTpl with chunk :=
    { name := "t", code := [(.loadName "x", ["s"]), (.buildMap 0, []), (.applyFilter "safe", ["s"]),
                             (.writeTop, [])] } })] } = false := by decide +kernel

/-- … nor one with autoescape off, a constant marked Safe, or the hand-written body call -/
example : c01StaticCheck { exEnv with templates := [("t", { exTpl with autoescape := false })] } = false := by
  decide +kernel
example : c01StaticCheck { exEnv with templates := [("t", { exTpl with chunk :=
    { name := "t", code := [(.loadConst (.arr [.str true "<".toList]), []), (.writeTop, [])] } })] } = false := by
  decide +kernel
example : c01StaticCheck exBodyEnv = false := by decide +kernel

/-- the accepted listing renders: the body is escaped once, inside the capture -/
example : (match render ⟨3, 100⟩
      { exBodyEnv with templates := [("t", { exTpl with chunk := exCompiled })],
                       components := [("c", ({ params := [], rest := some "r" }, exBodyComp))] }
      "t" none exCtx [] with
    | .ok text => text == "&lt;&#39;a".toList
    | _ => false) = true := by decide +kernel

end Tera.C01Vm
