/-
C16 — Collection filters keep their contracts.

Property theorems only, about the model in Model/CollFilters.lean (tera/src/filters.rs `sort`,
`unique`, `group_by`, `first`, `last`, `nth`, `length`, `reverse`, `keys`, `values`, `pairs`,
`join`, `split`; value/mod.rs `get_from_path`, `len`, `reverse`), which harness/src/bin/c16.rs ties
to the code on every run.  `slice::sort_by`, `BTreeSet` and `HashMap` are reference models that
are lawful for a total order / lawful Eq+Hash — which is what C15 proves about `Value::cmp` and
`Key` (Lemmas/ValueOrder.lean, MapEq.lean, KeyOrder.lean).  Helper lemmas: Lemmas/SortLemmas.lean,
Lemmas/CollLemmas.lean, Lemmas/SortRefusal.lean.
-/
import TeraModel.Lemmas.SortRefusal
namespace Tera.C16
open Tera Tera.Value Tera.Coll

/-- The elements whose key compares `Equal` to `k`, in order (`key` extracts the sort key). -/
def classOf {α : Type} (key : α → Value) (k : Value) (l : List α) : List α :=
  l.filter (fun x => Value.cmp (key x) k == .eq)

/-! ## sort -/

/-- **C16 (the comparison handed to `sort_by` and `BTreeSet` is a total order).** `sort_by` may
panic, and `BTreeSet` may lose elements, when given an inconsistent comparison; on well-formed
values `Value::cmp` is consistent (reversing, transitive) — no such panic is reachable. -/
theorem C16_sort_by_precondition : OrdLaws Value.WF Value.cmp := Value.cmp_laws

/-- **C16 (`sort` without attribute).** If `sort` answers `Ok(out)`, then `out` is a permutation
of the input, is non-decreasing under `cmp`, keeps the input order of elements that compare equal
(for every `k`, the elements equal to `k` appear in `out` exactly as they do in the input), and,
apart from none, holds values of a single kind. -/
theorem C16_sort_contract (H : List HashTok → Nat) (val out : List Value) (w : ∀ x ∈ val, x.WF)
    (h : sort H val none = .ok out) :
    out.Perm val ∧ Sorted Value.cmp out ∧
    (∀ k, k.WF → classOf id k out = classOf id k val) ∧
    (∀ a ∈ out, ∀ b ∈ out, a ≠ .none → b ≠ .none → a.typeOrder = b.typeOrder) := by
  unfold sort at h
  cases hv : val.isEmpty with
  | true =>
    simp only [hv, if_true, SortRes.ok.injEq] at h
    have : val = [] := by cases val <;> simp_all
    subst this; subst h
    simp [Sorted, classOf]
  | false =>
    simp only [hv, Bool.false_eq_true, if_false] at h
    split at h
    · rename_i hc
      cases h
      refine ⟨sortBy_perm _ _, sortBy_sorted Value.cmp_laws val w, ?_, ensureComparable_same_kind _ hc⟩
      intro k wk
      apply sortBy_stable Value.cmp_laws _ val w
      intro x hx y hy px py
      simp only [id, beq_iff_eq] at px py
      exact Value.cmp_laws.eq_trans (w x hx) wk (w y hy) px (Value.cmp_laws.eq_symm (w y hy) wk py)
    · cases h

/-- **C16 (`sort(attribute=…)`).** If `sort` answers `Ok(out)`: every element has the attribute;
`out` is a permutation of the input, non-decreasing by the attribute under `cmp`, and elements
whose attributes compare equal keep their input order.  Stated on the decorated list
`(attribute value, element)` the code builds. -/
theorem C16_sort_attribute_contract (H : List HashTok → Nat) (val out : List Value) (attr : List Char)
    (w : ∀ x ∈ val, x.WF) (h : sort H val (some attr) = .ok out) (hne : val ≠ []) :
    ∃ dec sorted : List (Value × Value),
      dec.map (·.2) = val ∧ (∀ p ∈ dec, getFromPath H p.2 attr = some p.1) ∧
      sorted.Perm dec ∧ out = sorted.map (·.2) ∧ out.Perm val ∧
      Sorted (fun a b => Value.cmp a.1 b.1) sorted ∧
      (∀ k, k.WF → classOf (·.1) k sorted = classOf (·.1) k dec) := by
  unfold sort at h
  have hv : val.isEmpty = false := by cases val <;> simp_all
  simp only [hv, Bool.false_eq_true, if_false] at h
  split at h
  · cases h
  · rename_i dec hd
    split at h
    · cases h
      obtain ⟨d1, d2⟩ := decorateAttr_spec H attr val dec hd
      have wk : ∀ p ∈ dec, p.1.WF := by
        intro p hp
        have hm : p.2 ∈ val := by rw [← d1]; exact List.mem_map_of_mem hp
        exact getFromPath_wf H p.2 p.1 attr (w p.2 hm) (d2 p hp)
      have L : OrdLaws (fun p : Value × Value => p.1.WF) (fun a b => Value.cmp a.1 b.1) :=
        Value.cmp_laws.comap (fun p : Value × Value => p.1)
      refine ⟨dec, sortBy (fun a b => Value.cmp a.1 b.1) dec, d1, d2, sortBy_perm _ _, rfl, ?_,
        sortBy_sorted L dec wk, ?_⟩
      · rw [← d1]; exact (sortBy_perm _ dec).map _
      · intro k wkk
        apply sortBy_stable L _ dec wk
        intro x hx y hy px py
        simp only [beq_iff_eq] at px py
        exact Value.cmp_laws.eq_trans (wk x hx) wkk (wk y hy) px
          (Value.cmp_laws.eq_symm (wk y hy) wkk py)
    · cases h

/-- **C16 (`sort` refuses keys that are not mutually comparable — full strength).** For any
elements, nested arrays and maps included: if two elements at different positions of the input
(`[a, b] <+~ val`: `a` and `b` occur in `val` at two distinct places, in either order) are not none
and `partial_cmp` cannot compare them, `sort` answers the "not comparable" error.  The check only
looks at neighbours of the sorted sequence; that this suffices is because comparability is
transitive along the `cmp` order (Lemmas/SortRefusal.lean). -/
theorem C16_sort_refuses_incomparable (H : List HashTok → Nat) (val : List Value)
    (w : ∀ x ∈ val, x.WF) (a b : Value) (na : a ≠ .none) (nb : b ≠ .none)
    (hab : Value.partialCmp a b = Option.none) (two : List.Subperm [a, b] val) :
    sort H val Option.none = .notComparable := by
  have hv : val.isEmpty = false := by
    cases val with
    | nil => simp at two
    | cons x xs => rfl
  have hs : ensureComparable (sortBy Value.cmp val) = false :=
    ensureComparable_refuses _ (fun x hx => w x ((mem_sortBy' _ x val).1 hx))
      (sortBy_sorted Value.cmp_laws val w) a b na nb hab
      ((sortBy_perm Value.cmp val).subperm_left.2 two)
  simp [sort, hv, hs]

/-- **C16 (the same for `sort(attribute=…)`).** Two elements at different positions whose attribute
values are not none and not comparable make `sort` answer the "not comparable" error. -/
theorem C16_sort_attribute_refuses_incomparable (H : List HashTok → Nat) (val : List Value)
    (attr : List Char) (w : ∀ x ∈ val, x.WF) (dec : List (Value × Value))
    (hd : decorateAttr H attr val = some dec) (a b : Value) (na : a ≠ .none) (nb : b ≠ .none)
    (hab : Value.partialCmp a b = Option.none) (two : List.Subperm [a, b] (dec.map (·.1))) :
    sort H val (some attr) = .notComparable := by
  obtain ⟨d1, d2⟩ := decorateAttr_spec H attr val dec hd
  have hv : val.isEmpty = false := by
    cases val with
    | nil =>
      simp only [decorateAttr, Option.some.injEq] at hd; subst hd; simp at two
    | cons x xs => rfl
  have wk : ∀ p ∈ dec, p.1.WF := by
    intro p hp
    have hm : p.2 ∈ val := by rw [← d1]; exact List.mem_map_of_mem hp
    exact getFromPath_wf H p.2 p.1 attr (w p.2 hm) (d2 p hp)
  have L : OrdLaws (fun p : Value × Value => p.1.WF) (fun a b => Value.cmp a.1 b.1) :=
    Value.cmp_laws.comap (fun p : Value × Value => p.1)
  have srt : Sorted Value.cmp ((sortBy (fun a b => Value.cmp a.1 b.1) dec).map (·.1)) := by
    have := sortBy_sorted L dec wk
    unfold Sorted at this ⊢
    rw [List.pairwise_map]; exact this
  have hs : ensureComparable ((sortBy (fun a b => Value.cmp a.1 b.1) dec).map (·.1)) = false := by
    apply ensureComparable_refuses _ ?_ srt a b na nb hab
    · exact (((sortBy_perm _ dec).map (·.1)).subperm_left).2 two
    · intro x hx
      obtain ⟨p, hp, rfl⟩ := List.mem_map.1 hx
      exact wk p ((mem_sortBy' _ p dec).1 hp)
  simp [sort, hv, hd, hs]

/-- **C16 (`sort` refuses incomparable keys, accepts comparable ones).** With the none keys set
aside: if every two elements are `partial_cmp`-comparable, `sort` answers `Ok`; if the elements
are scalars (no arrays / maps) and some two of them are not comparable, `sort` answers the
"not comparable" error. -/
theorem C16_sort_comparability (H : List HashTok → Nat) (val : List Value) (w : ∀ x ∈ val, x.WF) :
    ((∀ a ∈ val, ∀ b ∈ val, a ≠ .none → b ≠ .none → Value.partialCmp a b ≠ Option.none) →
      ∃ out, sort H val none = .ok out) ∧
    ((∀ x ∈ val, isScalar x = true) →
      (∃ a ∈ val, ∃ b ∈ val, a ≠ .none ∧ b ≠ .none ∧ Value.partialCmp a b = Option.none) →
      sort H val none = .notComparable) := by
  have mem : ∀ x, x ∈ sortBy Value.cmp val ↔ x ∈ val := fun x => mem_sortBy' _ x val
  constructor
  · intro hc
    unfold sort
    cases hv : val.isEmpty with
    | true => exact ⟨[], by simp⟩
    | false =>
      simp only [Bool.false_eq_true, if_false]
      have : ensureComparable (sortBy Value.cmp val) = true := by
        rw [ensureComparable_iff]
        apply chain_of_pairwise
        intro a ha b hb
        simp only [nonNone, List.mem_filter, Bool.not_eq_eq_eq_not, Bool.not_true] at ha hb
        have na : a ≠ .none := fun e => by rw [(isNoneV_iff a).2 e] at ha; exact absurd ha.2 (by decide)
        have nb : b ≠ .none := fun e => by rw [(isNoneV_iff b).2 e] at hb; exact absurd hb.2 (by decide)
        exact hc a ((mem a).1 ha.1) b ((mem b).1 hb.1) na nb
      exact ⟨sortBy Value.cmp val, by simp [this]⟩
  · intro hs ⟨a, ha, b, hb, na, nb, hab⟩
    unfold sort
    have hv : val.isEmpty = false := by cases val <;> simp_all
    simp only [hv, Bool.false_eq_true, if_false]
    have : ensureComparable (sortBy Value.cmp val) = false := by
      cases hc : ensureComparable (sortBy Value.cmp val) with
      | false => rfl
      | true =>
        exfalso
        have hk := ensureComparable_same_kind _ hc a ((mem a).2 ha) b ((mem b).2 hb) na nb
        exact partialCmp_scalar_same a b (w a ha) (w b hb) (hs a ha) hk hab
    simp [this]

/-- **C16 (`sort(attribute=…)` refuses incomparable keys, accepts comparable ones).** The same for
the attribute values: a missing attribute is the "no attribute" error; otherwise, none keys set
aside, mutually comparable keys are accepted and two incomparable scalar keys are refused. -/
theorem C16_sort_attribute_comparability (H : List HashTok → Nat) (val : List Value) (attr : List Char)
    (w : ∀ x ∈ val, x.WF) (hne : val ≠ []) :
    (decorateAttr H attr val = Option.none → sort H val (some attr) = .missingAttr) ∧
    (∀ dec, decorateAttr H attr val = some dec →
      ((∀ a ∈ dec, ∀ b ∈ dec, a.1 ≠ .none → b.1 ≠ .none → Value.partialCmp a.1 b.1 ≠ Option.none) →
        ∃ out, sort H val (some attr) = .ok out) ∧
      ((∀ p ∈ dec, isScalar p.1 = true) →
        (∃ a ∈ dec, ∃ b ∈ dec, a.1 ≠ .none ∧ b.1 ≠ .none ∧ Value.partialCmp a.1 b.1 = Option.none) →
        sort H val (some attr) = .notComparable)) := by
  have hv : val.isEmpty = false := by cases val <;> simp_all
  constructor
  · intro hd; simp [sort, hv, hd]
  · intro dec hd
    obtain ⟨d1, d2⟩ := decorateAttr_spec H attr val dec hd
    have wk : ∀ p ∈ dec, p.1.WF := by
      intro p hp
      have hm : p.2 ∈ val := by rw [← d1]; exact List.mem_map_of_mem hp
      exact getFromPath_wf H p.2 p.1 attr (w p.2 hm) (d2 p hp)
    have mem : ∀ k, k ∈ (sortBy (fun a b => Value.cmp a.1 b.1) dec).map (·.1) ↔ ∃ p ∈ dec, p.1 = k := by
      intro k
      simp only [List.mem_map, mem_sortBy']
    constructor
    · intro hc
      have : ensureComparable ((sortBy (fun a b => Value.cmp a.1 b.1) dec).map (·.1)) = true := by
        rw [ensureComparable_iff]
        apply chain_of_pairwise
        intro a ha b hb
        simp only [nonNone, List.mem_filter, Bool.not_eq_eq_eq_not, Bool.not_true] at ha hb
        have na : a ≠ .none := fun e => by rw [(isNoneV_iff a).2 e] at ha; exact absurd ha.2 (by decide)
        have nb : b ≠ .none := fun e => by rw [(isNoneV_iff b).2 e] at hb; exact absurd hb.2 (by decide)
        obtain ⟨pa, hpa, rfl⟩ := (mem a).1 ha.1
        obtain ⟨pb, hpb, rfl⟩ := (mem b).1 hb.1
        exact hc pa hpa pb hpb na nb
      exact ⟨(sortBy (fun a b => Value.cmp a.1 b.1) dec).map (·.2), by simp [sort, hv, hd, this]⟩
    · intro hs ⟨a, ha, b, hb, na, nb, hab⟩
      have : ensureComparable ((sortBy (fun a b => Value.cmp a.1 b.1) dec).map (·.1)) = false := by
        cases hc : ensureComparable ((sortBy (fun a b => Value.cmp a.1 b.1) dec).map (·.1)) with
        | false => rfl
        | true =>
          exfalso
          have hk := ensureComparable_same_kind _ hc a.1 ((mem a.1).2 ⟨a, ha, rfl⟩) b.1
            ((mem b.1).2 ⟨b, hb, rfl⟩) na nb
          exact partialCmp_scalar_same a.1 b.1 (wk a ha) (wk b hb) (hs a ha) hk hab
      simp [sort, hv, hd, this]

/-! ## unique -/

/-- **C16 (`unique`).** The result is the list of first occurrences: an element is kept exactly
when no earlier element of the input is `==` to it.  Hence it is a subsequence of the input (input
order), every input element is `==` to some kept element, and no two kept elements are `==`:
exactly one representative per class of equal elements. -/
theorem C16_unique_contract (val : List Value) (w : ∀ x ∈ val, x.WF) :
    unique val = firstOcc val ∧
    (unique val).Sublist val ∧
    (∀ x ∈ val, ∃ y ∈ unique val, eqV x y = true) ∧
    (unique val).Pairwise (fun a b => eqV a b = false) := by
  have e := unique_eq_firstOcc val w
  rw [e]
  refine ⟨rfl, firstOccGo_sublist val [], ?_, ?_⟩
  · intro x hx
    rcases firstOccGo_covers val [] w (by simp) x hx with h | ⟨p, hp, _⟩
    · exact h
    · cases hp
  · have sub := firstOccGo_sublist val []
    have wf : ∀ y ∈ firstOcc val, y.WF := fun y hy => w y (sub.subset hy)
    have pw := firstOccGo_pairwise val []
    refine (List.Pairwise.and_mem.1 pw).imp ?_
    intro a b ⟨ha, hb, hba⟩
    cases hab : eqV a b with
    | false => rfl
    | true => rw [eqV_symm (wf a ha) (wf b hb) hab] at hba; exact absurd hba (by decide)

/-! ## group_by -/

/-- **C16 (`group_by` partitions).** If `group_by` answers `Ok(groups)`: every element has the
attribute, and it is none or a valid key kind; looking any key up in `groups` gives exactly the
elements whose attribute converts to an `==` key, in input order — so each such element is in
exactly one group, elements whose attribute is none are in no group; no group is empty and no two
groups have `==` keys. -/
theorem C16_group_by_partition (H : List HashTok → Nat) (val : List Value) (attr : List Char)
    (g : List (Key × List Value)) (h : groupBy H val attr = .ok g) :
    (∀ q, (Map.get q g).getD [] = val.filter (inGroup H attr q)) ∧
    NoDupKeys g ∧ (∀ e ∈ g, e.2 ≠ []) ∧
    (∀ v ∈ val, ∃ x, getFromPath H v attr = some x ∧ (x = .none ∨ x.asKeyK.isSome = true)) := by
  unfold groupBy at h
  cases hv : val.isEmpty with
  | true =>
    have : val = [] := by cases val <;> simp_all
    subst this
    simp only [List.isEmpty_nil, if_true, GroupRes.ok.injEq] at h
    subst h
    simp [Map.get, NoDupKeys]
  | false =>
    simp only [hv, Bool.false_eq_true, if_false] at h
    obtain ⟨h1, h2, h3, h4⟩ := groupGo_spec H attr val [] g h
    exact ⟨fun q => by simpa [Map.get] using h1 q, h2 (by simp [NoDupKeys]), h3 (by simp), h4⟩

/-! ## reverse, first / last / nth / length -/

/-- **C16 (reverse twice).** Reversing an array twice gives the array back; reversing a string
twice gives its text back (as a normal string); reversing keeps the length. -/
theorem C16_reverse_involutive (xs : List Value) (safe : Bool) (s : List Char) :
    (reverse (.arr xs)).bind reverse = some (.arr xs) ∧
    (reverse (.str safe s)).bind reverse = some (.str false s) ∧
    (reverse (.arr xs)).bind len = len (.arr xs) ∧
    (reverse (.str safe s)).bind len = len (.str safe s) := by
  simp [reverse, len]

/-- **C16 (`first`, `last`, `nth`, `length` agree).** -/
theorem C16_first_last_nth_length (xs : List Value) (n : Nat) :
    first xs = nth xs 0 ∧ last xs = nth xs (xs.length - 1) ∧
    (xs.length ≤ n → nth xs n = .none) ∧ (∀ h : n < xs.length, nth xs n = xs[n]) ∧
    len (.arr xs) = some xs.length ∧ first xs.reverse = last xs ∧ last xs.reverse = first xs ∧
    (xs = [] → first xs = .none ∧ last xs = .none) := by
  refine ⟨?_, ?_, ?_, ?_, rfl, ?_, ?_, ?_⟩
  · cases xs <;> simp [first, nth]
  · simp only [last, nth, List.getLast?_eq_getElem?]
  · intro h; simp [nth, List.getElem?_eq_none h]
  · intro h; simp [nth, List.getElem?_eq_getElem h]
  · simp [first, last]
  · simp [first, last]
  · intro h; subst h; simp [first, last]

/-! ## keys / values / pairs -/

/-- **C16 (`keys`, `values`, `pairs` agree).** They list the same entries in the same (key)
order: `pairs[i] = [keys[i], values[i]]`, all three have the size of the map, the entries are a
permutation of the map's, and the keys are strictly increasing under `Key::cmp`. -/
theorem C16_keys_values_pairs (m : List (Key × Value)) (nd : NoDupKeys m) :
    pairs m = List.zipWith (fun k v => Value.arr [k, v]) (keys m) (values m) ∧
    (keys m).length = m.length ∧ (values m).length = m.length ∧ (pairs m).length = m.length ∧
    (mapEntries m).Perm m ∧ KeySorted (mapEntries m) ∧
    keys m = (mapEntries m).map (fun e => e.1.asValue) ∧ values m = (mapEntries m).map (·.2) := by
  refine ⟨?_, ?_, ?_, ?_, sortBy_perm _ m, sortEntries_keySorted m nd, rfl, rfl⟩
  · simp only [pairs, keys, values]; rw [zipWith_map_map]
  · simp [keys, mapEntries, sortEntriesK, length_sortBy]
  · simp [values, mapEntries, sortEntriesK, length_sortBy]
  · simp [pairs, mapEntries, sortEntriesK, length_sortBy]

/-! ## split / join -/

/-- **C16 (split then join).** Splitting a text on a separator and joining the pieces with the same
separator gives the text back — for every non-empty separator (overlapping occurrences,
leading / trailing separators included) and for the empty one; at the level of the filters, for
any `Display` that prints a string value as its text. -/
theorem C16_split_join_inverse (s pat : List Char) (fmt : Value → List Char)
    (hf : ∀ k x, fmt (.str k x) = x) :
    joinStrs pat (splitStr s pat) = s ∧ join fmt (split s pat) pat = s := by
  have h1 : joinStrs pat (splitStr s pat) = s := by
    by_cases hp : pat = []
    · subst hp; exact join_split_empty s
    · exact join_split s pat hp
  refine ⟨h1, ?_⟩
  simp only [join, split, List.map_map]
  have : (fmt ∘ fun p => Value.str false p) = id := by funext p; simp [hf]
  rw [this, List.map_id, h1]

/-! Non-vacuity and spot checks (kernel-evaluated on the model). -/
example : splitStr "ababa".toList "aba".toList = ["".toList, "ba".toList] := by decide
example : splitStr "a,b,".toList ",".toList = ["a".toList, "b".toList, []] := by decide
example : (match sort (fun _ => 0) [.u64 3, .none, .i64 1, .f64 (F64.ofBits 0x4000000000000000)] none with
    | .ok [.i64 1, .f64 _, .u64 3, .none] => true | _ => false) = true := by decide
example : (match sort (fun _ => 0) [.u64 1, .none, .undef] none with
    | .notComparable => true | _ => false) = true := by decide
/-- nested keys: `[1, "x"]` and `[1, 3]` are incomparable and not neighbours in the input -/
example : List.Subperm [Value.arr [.u64 1, .str false ['x']], Value.arr [.u64 1, .u64 3]]
    [Value.arr [.u64 1, .u64 3], Value.arr [.u64 0], Value.arr [.u64 1, .str false ['x']]] :=
  ⟨[Value.arr [.u64 1, .u64 3], Value.arr [.u64 1, .str false ['x']]], List.Perm.swap _ _ _,
    (List.Sublist.cons_cons _ (List.Sublist.cons _ (List.Sublist.cons_cons _ List.Sublist.slnil)))⟩
example : (match sort (fun _ => 0) [.arr [.u64 1, .u64 3], .arr [.u64 0], .arr [.u64 1, .str false ['x']]] Option.none with
    | .notComparable => true | _ => false) = true := by decide
example : (unique [.map [(.str ['a'], .u64 1)], .map [(.str ['a'], .u64 2)], .u64 1, .i64 1]).length = 3 := by
  decide

end Tera.C16
