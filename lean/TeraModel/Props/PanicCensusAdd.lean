/-
C06 (and the add-time half of C07) — the audit of the SYNTACTIC panic sites of the add-time code:
tera/src/parsing/{lexer,parser,compiler,instructions,ast,mod}.rs, template.rs, tera.rs,
delimiters.rs.

`Generated.panicCensusAdd` is extracted from /repo's current source on every check run
(translator/tables/panic_census.py): every `.unwrap()` / `.expect(..)` (one kind, keyed by the
receiver expression, not by the message), `unreachable!` / `panic!` /
`assert!` …, index / slice expression, call of a panicking std method (`windows`, `split_at`, …)
and `unsafe` block outside tests, as (file, enclosing fn, kind, normalised text, count).

`accountAdd` is the hand-made account: one row (or several rows whose counts add up) per census
entry, written after reading the Rust at the site and the model:
* `modelled site excludedBy` — the executable model has that explicit outcome and the named theorem
  proves it unreachable;
* `guarded why` — a guard in the Rust makes the site unreachable; "NON-LOCAL: " when the guard is not
  in the enclosing function (these are the sites NO model represents: argued by hand here, each
  tried on the real engine);
* `notOnPath why` — not reachable from `add_raw_template(s)` / `render*` on template input.

`census_add_accounted` ties the two (`coversF`, Model/PanicAccount.lean): for every key
(file, kind, text) the census counts, over the whole file, at most as many occurrences as the account
has rows for (the fn field of a row is informative only).  A panic site ADDED to the Rust (a new `.unwrap()`
in `parse_expr_bp`, one more `unreachable!()` in `compile_expr`, a new index expression …) makes
the theorem false and the build fail; removing sites, moving code, unwrap ↔ expect
or rewording an `expect` message does not.

What this does NOT cover is in the `trusted` line of props.d/C06.json: arithmetic overflow,
`as` casts, `RefCell` / locks, allocation, stack depth (F1, F14), std methods whose name also exists
on maps (`remove`, `insert`, `truncate`), `sort` with a non-total order, panics inside dependencies
and inside user-supplied `AsRef<str>` / callbacks.
-/
import TeraModel.Generated.PanicCensus
import TeraModel.Model.PanicAccount
namespace Tera.PanicCensus

/-- Theorems cited below, in one place (fully qualified; all exist in Props/ or Lemmas/). -/
def T_LEXER : String := "Tera.C06.lexer_no_panic"
def T_PARSER : String :=
  "Tera.C06Parser.parser_total_no_panic (hypothesis `shaped` discharged by \
   Tera.C06Parser.parser_total_on_lexer_output)"
def T_COMPILER : String :=
  "Tera.C07Compile.compile_imperative_agrees (hypothesis `nodesScoped` discharged by \
   Tera.C06Parser.parsed_ast_scoped)"
def T_OPTIMIZE : String :=
  "Tera.C09.optimize_no_panic (hypothesis `TargetsInRange` discharged for every compiled chunk by \
   Tera.C07Compile.compile_meets_optimize_hypotheses)"
def T_FINALIZE : String :=
  "Tera.Pipeline.add_outcomes_excluded (clauses `≠ .error (.panic site)` and \
   `≠ .error (.registry .panic)`; for every registration history: Tera.Reg.finalize_value, \
   Lemmas/PipelineReg.lean)"

def accountAdd : List Row := [
  /- ───────────── parsing/ast.rs ───────────── -/
  -- ast.rs:778.  `build_context` runs at RENDER time (component call / `render_component`).  The
  -- arm is reached when `get_value(key)` is `None` for a `key` taken from `provided_keys`.
  -- Two callers: interpreter.rs:163 (`kwargs.keys().filter_map(|k| k.as_str())` against
  -- `kwargs.get(&Key::Str(key))`) and tera.rs:1279 (`context.data.keys()` against `context.get(key)`).
  -- Model/Component.lean `buildContext` has no outcome for it (it reads the entries themselves).
  -- Tried on the real engine: spread of a map with Str / String / I64 / Bool keys into a `...rest`
  -- component — renders, no panic.
  (("parsing/ast.rs", "build_context", "macro",
    "unreachable!(\"that shouldn't be possible to get a kwarg without a value\")", 1),
   .guarded "NON-LOCAL: both callers pass as `provided_keys` the string keys of the very map that \
     `get_value` looks up (interpreter.rs:164-165: `Key::as_str` is `Some` exactly for the two string \
     variants and `Key`'s `Eq` / `Hash` / `Ord` compare those by content, value/key.rs:84-140, so \
     `kwargs.get(&Key::Str(key))` finds the entry `key` came from; tera.rs:1281-1282: a `BTreeMap` \
     looked up with its own keys)"),
  -- ast.rs:818, in the `if !arg_def.type_matches(&value)` branch
  (("parsing/ast.rs", "build_context", "unwrap", "arg_def.typ", 1),
   .guarded "only evaluated when `arg_def.type_matches(&value)` is false, and `type_matches` \
     (ast.rs:733, same file) is `self.typ.map(..).unwrap_or(true)`: false only when `typ` is `Some` \
     (Model/Component.lean `Param.typeMatches` mirrors it: `none => true`)"),
  -- ast.rs:232, 236, 274-479 (six `self.kwargs[*k]` in `Display for Filter / Test / FunctionCall`),
  -- ast.rs:183 (`Debug for Expression`).  Checked: no `format!` / `write!` / `to_string()` of
  -- parser.rs, compiler.rs, template.rs, tera.rs formats an `Expression` or a `Node` (all format
  -- `Token`s, `&str`s or `Error`s); `Expression` is named only in ast.rs, parser.rs, compiler.rs,
  -- verif_hooks.rs and snapshot_tests/parser.rs; `Tera`'s own `Debug` prints counts only.
  -- ast.rs:232 `.expect("failed to write map to vec")`
  (("parsing/ast.rs", "fmt", "unwrap", "format_map(s,&mutbuf)", 1),
   .notOnPath "`Display for Expression` (s-expression printer): used by the crate's parser snapshot \
     tests and the verif hooks only; also `format_map` into a `Vec<u8>` cannot fail"),
  -- ast.rs:236 `.expect("valid utf-8 in display")`
  (("parsing/ast.rs", "fmt", "unwrap", "std::str::from_utf8(&buf)", 1),
   .notOnPath "`Display for Expression`: snapshot tests and verif hooks only"),
  (("parsing/ast.rs", "fmt", "index", "self.kwargs[*k]", 6),
   .notOnPath "`Display for Filter / Test / FunctionCall` (two each): snapshot tests and verif hooks \
     only; also `k` ranges over `self.kwargs.keys()` collected two lines above"),
  (("parsing/ast.rs", "fmt", "macro", "unreachable!(\"{self} is not implemented\")", 1),
   .notOnPath "`Debug for Expression`: reached only through `{:?}` of an AST (derived `Debug` of \
     `Template` / `ComponentDefinition`), which no add / render path formats"),

  /- ───────────── parsing/compiler.rs ───────────── -/
  -- compiler.rs:289, 297, 386, 403, 409
  (("parsing/compiler.rs", "compile_expr", "macro", "unreachable!()", 5),
   .modelled "Model/CompilerImp.lean `compileExpr`: \"compiler.rs:289\", \"compiler.rs:297\", \
     \"compiler.rs:386\", \"compiler.rs:403\", \"compiler.rs:409\"" T_COMPILER),
  -- compiler.rs:569, 572
  (("parsing/compiler.rs", "compile_node", "macro", "unreachable!()", 2),
   .modelled "Model/CompilerImp.lean `compileNode`: \"compiler.rs:569\", \"compiler.rs:572\"" T_COMPILER),
  -- compiler.rs:479, 512: `temp_variables.first_mut()` / `.last_mut()` then `.unwrap()`.
  -- Model/CompilerImp.lean says in its header that `temp_variables` is NOT modelled.
  (("parsing/compiler.rs", "compile_node", "unwrap", "scope", 2),
   .guarded "NON-LOCAL: `temp_variables` is `vec![HashSet::new()]` in `Compiler::new` (compiler.rs:56, \
     the only constructor: the struct is built nowhere else), and its only `pop()`s (compiler.rs:301, \
     576) each close a `push` of the same match arm (273, 543) with no `return` / `?` between them \
     (`compile_expr` / `compile_node` return `()`), so the vector never has fewer than one element \
     and `first_mut()` / `last_mut()` are `Some`"),
  -- compiler.rs:591 (`Node::Continue`)
  (("parsing/compiler.rs", "compile_node", "unwrap", "self.get_current_loop()", 1),
   .modelled "Model/CompilerImp.lean `compileNode` (.continue_): \"compiler.rs:591\" \
     (also Model/Compiler.lean \"compiler.rs:591\")" T_COMPILER),
  -- compiler.rs:452
  (("parsing/compiler.rs", "end_branch", "macro", "unreachable!()", 1),
   .modelled "Model/CompilerImp.lean `endBranch`: \"compiler.rs:452\"" T_COMPILER),

  /- ───────────── parsing/instructions.rs (`Chunk::optimize`) ───────────── -/
  -- instructions.rs:332, the fix-up pass
  (("parsing/instructions.rs", "optimize", "index", "index_map[*target]", 1),
   .modelled "Model/Optimize.lean `remap`: \"instructions.rs:329 index_map[*target]: index out of bounds\"" T_OPTIMIZE),
  (("parsing/instructions.rs", "optimize", "index", "index_map[i]", 1),
   .guarded "inside `while i < old_instructions.len()` and `index_map` is `vec![0; old_instructions.len() + 1]` \
     (instructions.rs:221; `old_instructions` is only `mem::replace`d element-wise, its length is fixed)"),
  (("parsing/instructions.rs", "optimize", "index", "index_map[j]", 2),
   .guarded "line 271 is inside `while j < old_instructions.len()`, line 296 under `has_write`, whose \
     first conjunct is `j < old_instructions.len()`; `index_map` has one more element than that"),
  (("parsing/instructions.rs", "optimize", "index", "index_map[old_instructions.len()]", 1),
   .guarded "`index_map` was created with `old_instructions.len() + 1` elements (instructions.rs:221)"),
  (("parsing/instructions.rs", "optimize", "index", "is_jump_target[*t]", 1),
   .guarded "the `if let … && *t < is_jump_target.len()` on the line above"),
  (("parsing/instructions.rs", "optimize", "index", "is_jump_target[j]", 2),
   .guarded "line 266 is inside `while j < old_instructions.len()`, line 291 follows \
     `j < old_instructions.len() &&`; `is_jump_target` has `old_instructions.len()` elements"),
  (("parsing/instructions.rs", "optimize", "index", "old_instructions[i]", 3),
   .guarded "all three inside `while i < old_instructions.len()` with `i` unchanged since the test"),
  (("parsing/instructions.rs", "optimize", "index", "old_instructions[j]", 3),
   .guarded "lines 269, 274 inside `while j < old_instructions.len()`, line 292 after \
     `j < old_instructions.len() &&`"),
  (("parsing/instructions.rs", "optimize", "macro", "unreachable!()", 2),
   .guarded "each re-matches the instruction that the `matches!(…, LoadName(..))` / `matches!(…, LoadAttr(_))` \
     a few lines above just tested, taken out with `mem::replace` in between (Model/Optimize.lean `loop` / \
     `collectAttrs` match once)"),
  (("parsing/instructions.rs", "optimize", "unwrap", "path.pop()", 1),
   .guarded "`path` is `vec![name]` (line 259) and is only pushed to before this line"),

  /- ───────────── parsing/lexer.rs ───────────── -/
  -- lexer.rs:427
  (("parsing/lexer.rs", "basic_tokenize", "index", "rest.as_bytes()[offset..]", 1),
   .modelled "Model/Lexer.lean `rawLoop`: \"lexer.rs:427 slice start out of range\"" T_LEXER),
  -- lexer.rs:438
  (("parsing/lexer.rs", "basic_tokenize", "index", "rest[body_start_offset..body_end_offset]", 1),
   .modelled "Model/Lexer.lean `rawLoop`: \"lexer.rs:438 &rest[body_start_offset..body_end_offset]\"" T_LEXER),
  -- lexer.rs:436
  (("parsing/lexer.rs", "basic_tokenize", "index", "rest[offset..]", 1),
   .modelled "Model/Lexer.lean `rawLoop`: \"lexer.rs:436 &rest[offset..]\"" T_LEXER),
  -- lexer.rs:366 (`lex_string!`)
  (("parsing/lexer.rs", "basic_tokenize", "index", "s[1..s.len() - 1]", 1),
   .modelled "Model/Lexer.lean `lexString`: \"lexer.rs:366 &s[1..s.len() - 1]\"" T_LEXER),
  -- lexer.rs:640
  (("parsing/lexer.rs", "basic_tokenize", "macro", "unreachable!(\"Lexer should never be in that state\")", 1),
   .modelled "Model/Lexer.lean `step`: \"lexer.rs:637 unreachable: Lexer should never be in that state\"" T_LEXER),
  -- lexer.rs:549
  (("parsing/lexer.rs", "basic_tokenize", "macro", "unreachable!()", 1),
   .modelled "Model/Lexer.lean `stepInTag`: \"lexer.rs:546 unreachable\"" T_LEXER),
  -- lexer.rs:266 (`advance!`, used 18 times in `basic_tokenize`)
  (("parsing/lexer.rs", "basic_tokenize", "method", "split_at($num_bytes)", 1),
   .modelled "Model/Lexer.lean `advance`: \"lexer.rs:266 split_at\"" T_LEXER),
  -- lexer.rs:515
  (("parsing/lexer.rs", "basic_tokenize", "unwrap", "stack.last()", 1),
   .guarded "inside the arm `Some(State::Variable) | Some(State::Tag)` of `match stack.last()` \
     (lexer.rs:408, 496) with `stack` untouched in between (Model/Lexer.lean `step` matches the stack once)"),
  -- lexer.rs:49
  (("parsing/lexer.rs", "find_start_marker", "method", "windows(2)", 1),
   .guarded "`windows` panics only for size 0; the size is the literal 2"),
  -- lexer.rs:11
  (("parsing/lexer.rs", "memstr", "method", "windows(needle.len())", 1),
   .modelled "Model/Lexer.lean `memstr`: \"lexer.rs:11 windows(0)\"" T_LEXER),

  /- ───────────── parsing/parser.rs ───────────── -/
  -- parser.rs:1376
  (("parsing/parser.rs", "parse_component_definition", "unwrap", "map.as_map()", 1),
   .modelled "Model/TemplateParser.lean: \"parser.rs:1376 as_map().unwrap()\"" T_PARSER),
  -- parser.rs:716
  (("parsing/parser.rs", "parse_expr_bp", "macro", "unreachable!()", 1),
   .guarded "inner `match token` of the arm `Token::Minus | Token::Ident(\"not\")` of the outer \
     `match token` two lines above: both patterns are listed again"),
  -- parser.rs:278 `start.expect("to have an expr")`
  (("parsing/parser.rs", "parse_subscript", "unwrap", "start", 1),
   .modelled "Model/ExprParser.lean: \"parser.rs:277 expect(to have an expr)\"" T_PARSER),
  -- parser.rs:1700
  (("parsing/parser.rs", "parse_until_inner", "macro", "unreachable!(\"Unexpected token when parsing: {:?}\", t)", 1),
   .modelled "Model/TemplateParser.lean: \"parser.rs:1700 unreachable!(Unexpected token when parsing)\" \
     (and Model/WsFilter.lean \"parser.rs:1699 unreachable\")" T_PARSER),

  /- ───────────── template.rs ───────────── -/
  -- template.rs:198
  (("template.rs", "find_parents", "index", "tera.templates[resolved]", 1),
   .modelled "Model/Finalize.lean `findParentsAux`: `get S r = none => .panic` (FPRes.panic)"
     "Tera.C11.findParents_total"),
  -- template.rs:61.  No model has an outcome for it (the parser model answers `.err` without a kind).
  (("template.rs", "new", "macro", "unreachable!(\"Parser got something other than a SyntaxError: {e}\")", 1),
   .guarded "NON-LOCAL: every `Err` the parser can return is a `SyntaxError`: parser.rs builds errors only \
     with `Error::syntax_error` (incl. `syntax_error_with_note`, `different_name_end_tag`, `expect_token!`, \
     the `map_err` at parser.rs:1290), `Error::new(ErrorKind::SyntaxError(..))` (`eoi`, parser.rs:173) and \
     `Error { kind: e.kind.clone(), .. }` of an error item of the lexer (parser.rs:475, 924, 1159, 1303, \
     1350, 1678), and lexer.rs has one error constructor, `Error::syntax_error` (lexer.rs:241); no `?` in \
     parser.rs propagates an error of any other origin"),
  -- template.rs:173
  (("template.rs", "walk", "index", "tera.templates[resolved]", 1),
   .modelled "Model/Finalize.lean `walkNames`: `get S r = none => .panic` (DfsRes.panic)"
     "Tera.C11.includeDFS_total"),

  /- ───────────── tera.rs ───────────── -/
  -- tera.rs:611
  (("tera.rs", "finalize_templates", "index", "names[0]", 1),
   .guarded "`names` is the two-element array `[existing_name, tpl.name.as_str()]` built four lines above"),
  (("tera.rs", "finalize_templates", "index", "names[1]", 1),
   .guarded "`names` is the two-element array `[existing_name, tpl.name.as_str()]` built four lines above"),
  -- tera.rs:635 — the one site of this list that can be made to fire on the real engine, though not
  -- by template input: `add_raw_templates` calls `name.as_ref()` twice (tera.rs:774, 779), once for
  -- `Template::new` and once for the map key; with an `AsRef<str>` impl that answers a different
  -- string each time the template is stored under a key that is not its `name`, and registering
  -- `{% component K() %}k{% endcomponent K %}` under it panics here ("no entry found for key").
  -- With `&str` / `String` names (every caller in the crate, the harnesses, the docs) key = name.
  (("tera.rs", "finalize_templates", "index", "self.templates[*tpl_name]", 1),
   .modelled "Model/Pipeline.lean `globalComponents`: `lookupLast owner tds = none => none`, surfacing as \
     AddErr.internal \"derived data names a chunk that does not exist\" (the model keys templates by their \
     name: key = `Template.name` is its standing assumption, true for `&str` / `String` names, see above)"
     "Tera.Pipeline.add_outcomes_excluded (clause `∀ w, ≠ .error (.internal w)`); for every history: \
      Tera.C07Refs.refs_valid_after_any_history"),
  -- tera.rs:592
  (("tera.rs", "finalize_templates", "index", "self.templates[name]", 1),
   .modelled "Model/Finalize.lean `loop1Step`: `get S name = none => .error .panic` (also guarded: `name` \
     ranges over `self.templates.keys()` collected three lines above)" T_FINALIZE),
  -- tera.rs:624
  (("tera.rs", "finalize_templates", "index", "self.templates[parent]", 1),
   .modelled "Model/Finalize.lean `sumSrcLen` / `loop1Step`: `none => .error .panic`" T_FINALIZE),
  -- tera.rs:636
  (("tera.rs", "finalize_templates", "index", "tpl.components[*component_name]", 1),
   .modelled "Model/Pipeline.lean `globalComponents`: `lookupLast c td.components = none => none` \
     (AddErr.internal); `component_name` was recorded at tera.rs:602 / 616 from `tpl.components.keys()` of \
     the template whose name is recorded with it"
     "Tera.Pipeline.add_outcomes_excluded (clause `∀ w, ≠ .error (.internal w)`)"),
  -- tera.rs:657, 682
  (("tera.rs", "finalize_templates", "index", "tpl_parents[name]", 2),
   .modelled "Model/Finalize.lean `loop2`: `lookupParents l1.parents name = none => .error .panic`" T_FINALIZE),
  -- tera.rs:701
  (("tera.rs", "finalize_templates", "unwrap", "tpl_blocks.get_mut(name)", 1),
   .modelled "Model/Finalize.lean `inheritFrom`: `tbLookup tb name = none => .error .panic`" T_FINALIZE),
  -- tera.rs:720, 719, 718: the third loop
  (("tera.rs", "finalize_templates", "unwrap", "tpl_blocks.remove(name.as_str())", 1),
   .modelled "Model/Registry.lean `commitEntry`: `| _, _, _ => .error .panic`" T_FINALIZE),
  (("tera.rs", "finalize_templates", "unwrap", "tpl_parents.remove(name.as_str())", 1),
   .modelled "Model/Registry.lean `commitEntry`: `| _, _, _ => .error .panic`" T_FINALIZE),
  (("tera.rs", "finalize_templates", "unwrap", "tpl_size_hint.remove(name.as_str())", 1),
   .modelled "Model/Registry.lean `commitEntry`: `| _, _, _ => .error .panic`" T_FINALIZE),
  -- tera.rs:963
  (("tera.rs", "get_template", "index", "self.templates[resolved]", 1),
   .guarded "`resolved` is what `resolve_template_name` (the function just above, tera.rs:947-960) returned \
     on the same `&self`, and that function only returns keys it got from `self.templates.get_key_value` \
     (Model/Finalize.lean `walkUp` keeps the case as `.error .panic`, excluded by Tera.Reg.finalize_value)"),
  -- tera.rs:1276 `.expect("Component source template must exist")` (`render_component` /
  -- `render_component_to`, render time).  No model has the public
  -- `render_component` entry point.  Tried on the real engine: 4000 random histories of 6 batches
  -- (components defined, redefined, shadowed by fallback prefixes, dropped by replacing their
  -- template; failing batches in between), `render_component` of every name after every batch: no panic.
  (("tera.rs", "render_component_to", "unwrap", "self.templates.get(&chunk.name)", 1),
   .guarded "NON-LOCAL: `self.components` is only assigned at the end of a successful `finalize_templates` \
     (tera.rs:723), from `self.templates[*tpl_name]` of that moment (tera.rs:635), and `chunk.name` is the \
     name `Template::new` compiled that template under = its key; afterwards `self.templates` only changes \
     through `add_raw_templates` / `add_template_file(s)` / `load_from_glob`, which either succeed (the table \
     is rebuilt from the new map) or restore the map exactly (undo log, Tera.C10.undo_restores; for the \
     components a stored template CALLS this is Tera.C07Refs.no_stale_component)")
]

/-- **`census_add_accounted`.**  Every syntactic panic site of the add-time code that the extractor
finds in /repo's current source — file, enclosing function, kind, text, and number of occurrences
— has rows in `accountAdd`.  Re-proved against the regenerated census on every run: a site added
to the Rust that the account does not know breaks this `decide`. -/
theorem census_add_accounted : coversF Generated.panicCensusAdd accountAdd = true := by decide

/-! ## The tie bites, and only on additions (spot checks of `covers` itself) -/

/-- a new `.unwrap()` in `parse_expr_bp` is not covered -/
example : coversF (("parsing/parser.rs", "parse_expr_bp", "unwrap", "Some(1)", 1) :: Generated.panicCensusAdd)
    accountAdd = false := by decide

/-- one more occurrence of a known site in the same function is not covered -/
example : covers [("parsing/compiler.rs", "compile_expr", "macro", "unreachable!()", 6)] accountAdd = false := by
  decide

/-- a known text in ANOTHER function is not covered -/
example : covers [("parsing/compiler.rs", "compile_kwargs", "macro", "unreachable!()", 1)] accountAdd = false := by
  decide

/-- fewer occurrences, or a site removed altogether, stay covered -/
example : covers [("parsing/compiler.rs", "compile_expr", "macro", "unreachable!()", 4)] accountAdd = true
    ∧ coversF (Generated.panicCensusAdd.drop 1) accountAdd = true := by decide

end Tera.PanicCensus

/-! ## File-level form: moving a site into another function of the same file keeps the theorem -/
namespace Tera.PanicCensus
example : coversF [("parsing/compiler.rs", "compile_assignment", "unwrap", "scope", 2)] accountAdd = true := by decide
example : coversF [("parsing/compiler.rs", "compile_assignment", "unwrap", "scope", 3)] accountAdd = false := by decide
example : coversF (("parsing/parser.rs", "parse_expr_bp", "unwrap", "Some(1)", 1) :: Generated.panicCensusAdd) accountAdd = false := by decide
end Tera.PanicCensus
