/-
C12 — Errors identify the right template and source position and always display.

Property theorems (span-consistency and display-safety part; which template an error names and
which token it covers are decided on the implementation by the planted-fault oracle of
harness/src/bin/c12.rs).  They are about the byte-level model of `basic_tokenize`'s position
bookkeeping (Model/Lexer.lean: `advance!`, `make_span!`), `Span::expand` (Model/Token.lean) and
`SourceLocation::new` (Model/Report.lean); the harness compares token spans and quoted lines of
the model with the implementation on every run.
-/
import TeraModel.Lemmas.SpanConsistent
namespace Tera.C12
open Tera Utf8 Lexer WsFilter Report

/-- **span_consistent** (tokenizer).  For every source (any bytes) and every delimiter set, the
span of every token of `basic_tokenize`, and the span of its syntax error if it ends in one, is
consistent with the source. -/
theorem span_consistent (d : Delims) (src : Bytes) :
    (∀ it ∈ (basicTokenize d src).tokens, Consistent src it.2) ∧
    (∀ e sp, (basicTokenize d src).ending = .error e sp → Consistent src sp) := by
  have := lexLoop_spans d src (src.length + 1) (startPos src) [.template] 0 (Inv.start src)
  exact ⟨fun it hit => consistent_of_spanOk (this.1 it hit),
         fun e sp h => consistent_of_spanOk (this.2 e sp h)⟩

/-- **span_consistent** (after the whitespace filter, i.e. what the parser sees): the filter
never touches a span, so `tokenize` hands out consistent spans too. -/
theorem span_consistent_filtered (d : Delims) (src : Bytes) :
    ∀ it ∈ (tokenize d src).tokens, Consistent src it.2 := by
  intro it hit
  have hm : it.2 ∈ ((tokenize d src).tokens).map (·.2) := List.mem_map_of_mem hit
  simp only [tokenize, whitespaceFilter, filterGo_spans] at hm
  obtain ⟨it', hit', heq⟩ := List.mem_map.mp hm
  rw [← heq]
  exact (span_consistent d src).1 it' hit'

/-- **expand_consistent.**  `Span::expand` (how the parser builds the span of an expression from
its first and last token) preserves consistency whenever the second span does not end before the
first one starts. -/
theorem expand_consistent {src : Bytes} {a b : Span} (ha : Consistent src a) (hb : Consistent src b)
    (hord : a.rangeStart ≤ b.rangeEnd) : Consistent src (a.expand b) :=
  ⟨hord, hb.within, ha.startBoundary, hb.endBoundary, ha.startLine, ha.startCol, hb.endLine, hb.endCol⟩

/-- **eoi_consistent** (finding F13, fixed).  The span the parser attaches to "unexpected end of
input" — `current_span` moved to its own end — is consistent whenever `current_span` is: line,
column and byte range all designate the end of the last token.  (Before the fix the byte range
was left behind; this theorem is re-proved against the assignments found in parser.rs `eoi()` on
every run.) -/
theorem eoi_consistent {src : Bytes} {cur : Span} (h : Consistent src cur) : Consistent src (eoiSpan cur) := by
  have h1 : Generated.eoiMovesLine = true := by decide
  have h2 : Generated.eoiMovesCol = true := by decide
  have h3 : Generated.eoiCollapsesRange = true := by decide
  unfold eoiSpan
  simp only [h1, h2, h3, if_true]
  exact ⟨Nat.le_refl _, h.within, h.endBoundary, h.endBoundary, h.endLine, h.endCol, h.endLine, h.endCol⟩

/-- without the ordering hypothesis `expand` can produce a reversed range: the hypothesis is needed -/
example : ¬ (Span.expand ⟨1, 2, 1, 3, 2, 3⟩ ⟨1, 0, 1, 1, 0, 1⟩).rangeStart ≤
    (Span.expand ⟨1, 2, 1, 3, 2, 3⟩ ⟨1, 0, 1, 1, 0, 1⟩).rangeEnd := by decide

/-- **report_no_panic.**  On a valid UTF-8 source, for every span consistent with that source,
the line-quoting code of reporting.rs (`SourceLocation::new`) performs no out-of-range index, no
`start_line - 1` underflow and no off-boundary slice: it returns a line and an underline. -/
theorem report_no_panic {src : Bytes} (hv : valid src = true) {sp : Span} (hc : Consistent src sp) :
    ∃ line ul, sourceLocation src sp = .ok (line, ul) :=
  sourceLocation_ok hv sp sp.rangeStart hc.startLine

/-- **report_quotes_start_line.**  The line it quotes is the line the span starts on: it is the
source from a line start `s ≤ range.start` (0 or just after a `'\n'`) up to the next line start
`e > range.start` (just after the next `'\n'`), or up to the end of the source on the last line,
with the trailing newline removed. -/
theorem report_quotes_start_line {src : Bytes} {sp : Span} (hc : Consistent src sp) {line ul : Bytes}
    (h : sourceLocation src sp = .ok (line, ul)) :
    ∃ s e, s ≤ sp.rangeStart ∧ (sp.rangeStart < e ∨ e = src.length) ∧
      (s = 0 ∨ src[s - 1]? = some 0x0A) ∧ (e = src.length ∨ src[e - 1]? = some 0x0A) ∧
      line = trimEndNewlines ((src.drop s).take (e - s)) := by
  obtain ⟨s, e, h1, h2, h3, h4, h5⟩ := sourceLocation_line sp sp.rangeStart hc.startLine h
  refine ⟨s, e, h1, h2, getLineStarts_mem h3, ?_, h5⟩
  rcases h4 with h4 | h4
  · rcases getLineStarts_mem h4 with h0 | h0
    · subst h0
      rcases h2 with h2 | h2
      · omega
      · exact Or.inl h2
    · exact Or.inr h0
  · exact Or.inl h4

/-- the consistency hypothesis is needed: the default span (line 0) makes the display code panic -/
example : sourceLocation [0x61] ⟨0, 0, 0, 0, 0, 0⟩ = .panic "reporting.rs:23 start_line - 1 underflow / index out of range" := by
  decide

/-- a span from a *different*, longer source makes it panic too (line past the end) -/
example : sourceLocation [0x61] ⟨3, 0, 3, 1, 4, 5⟩ = .panic "reporting.rs:25 line_starts[start_line - 1]" := by
  decide

/-- spot check with a non-ASCII line and a tab: `ab\ncdé\tf\ng`, span of `f` (line 2, col 4) -/
example : sourceLocation [0x61, 0x62, 0x0A, 0x63, 0x64, 0xC3, 0xA9, 0x09, 0x66, 0x0A, 0x67] ⟨2, 4, 2, 5, 8, 9⟩
    = .ok ([0x63, 0x64, 0xC3, 0xA9, 0x09, 0x66], [0x20, 0x20, 0x20, 0x09, 0x5E]) := by decide

/-- `Consistent` is satisfiable: the span of `é` in `a\né` -/
example : Consistent [0x61, 0x0A, 0xC3, 0xA9] ⟨2, 0, 2, 1, 2, 4⟩ := by
  constructor <;> decide

end Tera.C12
