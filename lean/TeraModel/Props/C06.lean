/-
C06 — Registering any source text ends in Ok or Err: no panic, hang or stack overflow.

Property theorems for the lexer part: termination / progress of `basic_tokenize`, absence of the
panics it could raise (`split_at` / slicing off a char boundary, `windows(0)`, the two
`unreachable!`s), which token kinds each lexer state can emit (what the parser's `unreachable!` at
parser.rs:1699 relies on), and `Delimiters::validate`.  Parser recursion depth is decided on the
implementation by the depth probes of harness/src/bin/c06.rs (known finding F1 lives there).
The models are tied to tera/src/parsing/lexer.rs and delimiters.rs by the token-stage and
`validate` correspondence runs of the harness.
-/
import TeraModel.Lemmas.LexNoPanic
import TeraModel.Lemmas.WsFilterLemmas
import TeraModel.Lemmas.NodeLevel
namespace Tera.C06
open Tera Utf8 Lexer WsFilter

/-! ## Termination -/

/-- **lexer_progress.**  For every valid UTF-8 source and every accepted delimiter set, every pass
through the tokenizer loop consumes at least one byte (in particular `find_start_marker` cannot
answer `Some(0)` after the three `rest.get(..2)` tests failed, so no endless stream of empty
`Content` tokens), the raw-block search terminates, and therefore the loop ends within
`|src| + 1` passes: the model's `outOfFuel` outcome is unreachable. -/
theorem lexer_progress (d : Delims) (src : Bytes) (hd : d.accepted = true) (hv : valid src = true) :
    (basicTokenize d src).ending ≠ .outOfFuel :=
  lexLoop_no_outOfFuel hd (src.length + 1) (startPos src) [.template] (Or.inl rfl) hv (by simp [startPos])

/-- one pass: anything emitted or skipped moves `current_byte` strictly forward -/
theorem step_strictly_advances (d : Delims) (p : Pos) (stack : List State) (hd : d.accepted = true)
    (hst : StackOk stack) (hv : valid p.rest = true) (hne : p.rest ≠ []) :
    (∀ tok sp p' st', step d p stack = .emit tok sp p' st' → p.byte < p'.byte ∧ p'.rest.length < p.rest.length) ∧
    (∀ p', step d p stack = .skip p' → p.byte < p'.byte ∧ p'.rest.length < p.rest.length) := by
  have hs := step_adv d p stack
  constructor
  · intro tok sp p' st' heq
    rw [heq] at hs
    obtain ⟨n, hadv, _, _, hn⟩ := hs
    have hpos : 0 < n := by
      rcases hn with hn | hn
      · exact hn
      · exfalso
        subst hn
        have hk := step_kind d p stack hst.ne_nil
        rw [heq] at hk
        simp only [StepKind, templateLevel] at hk
        rcases hst with rfl | rfl | rfl
        · simp only [step] at heq
          exact stepTemplate_no_empty_content hv (accepted_facts hd).1 hne _ heq
        · simp [inTemplate] at hk
        · simp [inTemplate] at hk
    have := hadv.byte
    have := hadv.le
    rw [hadv.2.1]; simp; omega
  · intro p' heq
    rw [heq] at hs
    obtain ⟨n, hadv, hn, _⟩ := hs
    have := hadv.byte
    have := hadv.le
    rw [hadv.2.1]; simp; omega

/-! ## No panic -/

/-- **lexer_no_panic.**  For every valid UTF-8 source and every accepted delimiter set the
tokenizer never reaches one of its panic sites: every `advance!` / `split_at`, `&rest[offset..]`,
`&rest[body_start..body_end]` and `&s[1..s.len()-1]` happens on char boundaries within range
(matches of a validated two-byte delimiter start and end on a boundary; everything else that is
skipped is ASCII), `windows` is never called with size 0, and neither `unreachable!` (lexer.rs:546,
637) can be reached. -/
theorem lexer_no_panic (d : Delims) (src : Bytes) (hd : d.accepted = true) (hv : valid src = true) :
    ∀ site, (basicTokenize d src).ending ≠ .panic site :=
  lexLoop_no_panic hd (src.length + 1) (startPos src) [.template] (Or.inl rfl) hv

/-- hence tokenizing ends with the end of input or with a syntax error value -/
theorem lexer_ends_ok_or_err (d : Delims) (src : Bytes) (hd : d.accepted = true) (hv : valid src = true) :
    (basicTokenize d src).ending = .eof ∨ ∃ e sp, (basicTokenize d src).ending = .error e sp := by
  have h1 := lexer_progress d src hd hv
  have h2 := lexer_no_panic d src hd hv
  cases h : (basicTokenize d src).ending with
  | eof => exact Or.inl rfl
  | error e sp => exact Or.inr ⟨e, sp, rfl⟩
  | panic s => exact absurd h (h2 s)
  | outOfFuel => exact absurd h h1

/-- the UTF-8 hypothesis is needed: on a byte string that is not UTF-8 (which a Rust `&str` can
never be) the model does reach `split_at` off a boundary — `{{` followed by a lone continuation
byte after the `-` -/
example : (basicTokenize Generated.defaultDelims [0x7B, 0x7B, 0x2D, 0x80]).ending
    = .panic "lexer.rs:266 split_at" := by decide

/-- the delimiter hypothesis is needed: with an empty `comment_end` (rejected by `validate`)
`memstr` would call `windows(0)` -/
example : (basicTokenize { Generated.defaultDelims with commentEnd := [] } [0x7B, 0x23, 0x20]).ending
    = .panic "lexer.rs:11 windows(0)" := by decide

/-! ## Token kinds per state -/

/-- **template_state_tokens.**  In `Template` state the tokenizer emits only Content / RawContent /
VariableStart / TagStart / Comment and never `continue`s; inside `{{ }}` / `{% %}` it emits none
of these.  The state stack always is `[Template]` or one of `Variable` / `Tag` on top of it, so
`stack.last()` is never `None` (lexer.rs:637). -/
theorem template_state_tokens (d : Delims) (p : Pos) (stack : List State) (hst : StackOk stack) :
    (∀ tok sp p' st', step d p stack = .emit tok sp p' st' →
        templateLevel tok = inTemplate stack ∧ StackOk st') ∧
    (∀ p', step d p stack = .skip p' → inTemplate stack = false) := by
  have hk := step_kind d p stack hst.ne_nil
  constructor
  · intro tok sp p' st' heq
    rw [heq] at hk
    exact ⟨hk, step_stack d p stack hst heq⟩
  · intro p' heq
    rw [heq] at hk
    exact hk

/-- RawContent and Comment never reach the parser: the whitespace filter turns both into Content
(lexer.rs:66-68, 74-75 "never exposed to the parser"). -/
theorem filter_removes_raw_and_comment (ts : List Item) : ∀ (flag : Bool), ∀ it ∈ filterGo flag ts,
    (∀ a s b, it.1 ≠ .rawContent a s b) ∧ (∀ a b, it.1 ≠ .comment a b) := by
  induction ts with
  | nil => intro _ it h; simp [filterGo] at h
  | cons hd tl ih =>
    intro flag it h
    obtain ⟨tok, sp⟩ := hd
    cases tok <;> simp only [filterGo, handleContent, List.mem_cons] at h
    all_goals first
      | (rcases h with rfl | h
         · simp
         · exact ih _ it h)
      | (rename_i w; cases w <;> simp only [filterGo, List.mem_cons] at h <;>
         (rcases h with rfl | h
          · simp
          · exact ih _ it h))

/-- **node_level_tokens** (parser.rs:1699).  For every source and delimiter set: feeding the
filtered token stream to the skeleton of `parse_until_inner` (groups run from a start marker to
the matching end marker, as the real parser consumes them or fails) never meets a token other
than Content / VariableStart / TagStart at node level, i.e. the `unreachable!("Unexpected token
when parsing")` is not reached; the only non-`ok` outcome is the end of input inside a group. -/
theorem node_level_tokens (d : Delims) (src : Bytes) :
    (skeleton (tokenize d src).tokens).isPanic = false :=
  lexLoop_node_level d (src.length + 1) (startPos src) [.template] false (Or.inl rfl)

/-! ## Delimiter validation -/

/-- **delims_validated.**  `validate` accepts exactly six 2-byte delimiters whose three start
delimiters are pairwise different. -/
theorem delims_validated (d : Delims) :
    d.validate = true ↔
      (d.blockStart.length = 2 ∧ d.blockEnd.length = 2 ∧ d.variableStart.length = 2 ∧
       d.variableEnd.length = 2 ∧ d.commentStart.length = 2 ∧ d.commentEnd.length = 2 ∧
       d.blockStart ≠ d.variableStart ∧ d.blockStart ≠ d.commentStart ∧ d.variableStart ≠ d.commentStart) := by
  unfold Delims.validate
  constructor
  · intro h
    repeat' split at h
    all_goals first
      | (refine ⟨?_, ?_, ?_, ?_, ?_, ?_, ?_, ?_, ?_⟩ <;> first | omega | assumption)
      | cases h
  · rintro ⟨h1, h2, h3, h4, h5, h6, h7, h8, h9⟩
    simp [h1, h2, h3, h4, h5, h6, h7, h8, h9]

/-- an accepted delimiter is two ASCII bytes or one two-byte scalar: every match of it in a valid
string starts and ends on a char boundary (what `find_2byte_boundary` needs) -/
theorem accepted_delimiter_shape (d : Delims) (hd : d.accepted = true) :
    ∀ x ∈ [d.blockStart, d.blockEnd, d.variableStart, d.variableEnd, d.commentStart, d.commentEnd],
      ∃ a b, x = [a, b] ∧ ((a < 0x80 ∧ b < 0x80) ∨ (0xC2 ≤ a ∧ a < 0xE0 ∧ isCont b = true)) := by
  obtain ⟨hw, h1, h2, h3, h4, h5, h6⟩ := accepted_facts hd
  simp only [Delims.wellFormed, Bool.and_eq_true] at hw
  obtain ⟨⟨⟨⟨⟨v1, v2⟩, v3⟩, v4⟩, v5⟩, v6⟩ := hw
  have two : ∀ x : Bytes, x.length = 2 → valid x = true →
      ∃ a b, x = [a, b] ∧ ((a < 0x80 ∧ b < 0x80) ∨ (0xC2 ≤ a ∧ a < 0xE0 ∧ isCont b = true)) := by
    intro x hl hv
    match x, hl with
    | [a, b], _ => exact ⟨a, b, rfl, valid_two hv⟩
  intro x hx
  simp only [List.mem_cons, List.not_mem_nil, or_false] at hx
  rcases hx with rfl | rfl | rfl | rfl | rfl | rfl
  · exact two _ h1 v1
  · exact two _ h2 v2
  · exact two _ h3 v3
  · exact two _ h4 v4
  · exact two _ h5 v5
  · exact two _ h6 v6

/-! ## Non-vacuity and spot checks -/

example : Generated.defaultDelims.accepted = true := by decide
/-- a 3-byte scalar as delimiter is rejected (`日`) -/
example : ({ Generated.defaultDelims with blockStart := [0xE6, 0x97, 0xA5] } : Delims).accepted = false := by decide
/-- `«` `»` (two-byte scalars) are accepted -/
example : ({ Generated.defaultDelims with variableStart := [0xC2, 0xAB], variableEnd := [0xC2, 0xBB] } : Delims).accepted = true := by
  decide
/-- `{日` : the byte window `{` + first byte of `日` is not mistaken for a delimiter, no panic -/
example : (basicTokenize Generated.defaultDelims [0x7B, 0xE6, 0x97, 0xA5]).ending = .eof := by decide

end Tera.C06
