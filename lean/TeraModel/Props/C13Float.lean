/-
C13 (phase 2) — the float arithmetic of number.rs inside the model.

`Tera.SoftFloat` (Model/SoftFloat.lean) defines IEEE-754 binary64 `+ - * /`, `fmod` and Rust std's
`rem_euclid` / `div_euclid` on the exact dyadic type `F64`; the harness `c13f` compares it bit for
bit with the real engine and with the hardware on every run.  The theorems here say that this
model *is* IEEE arithmetic:
* T1 `roundDyadic_nearest`, `roundDyadic_overflow_iff`, `roundDyadic_bits_roundtrip`,
  `roundDyadic_well_defined`, `roundDyadic_neg`: the one rounding function is round-to-nearest,
  ties-to-even, to 53 bits with gradual underflow, overflowing exactly from `MAX + ulp/2`;
* T2 `add/sub/mul/div_correctly_rounded`, `special_cases`, `results_canonical`: each operation
  returns the exact result of the operands' exact values rounded once, with the IEEE sign and
  special-operand tables;
* T3 `fmod_exact` (+ `ofBits_isF64`, `ofIntRNE_representable`, `units_value`): `%` of C is exact;
  `rem_euclid_rounded`, `trunc_exact`, `div_euclid_steps`: the two Euclidean operations of std;
* T4 `float_contagion_soft/_exact`, `div_exact`, `rem_contagion_exact`, `floordiv_contagion_soft`,
  `add_comm`, `mul_comm`, `sub_self`: the float paths of `Tera.add/sub/mul/div/rem/floorDiv`
  (Model/Number.lean) instantiated with `softOps` inherit all this.

Conventions.  The exact value of a finite `x : F64` is the rational `x.num / x.den` (Model/F64).
Distances are cross-multiplied to integers in units of `2^-1074`:
`err N m D = |N - m * D|`, so `err (num * 2^1074) m (den * 2^k)` is
`|num/den - m * 2^(k-1074)| * den * 2^1074`, and `den * 2^k` is one unit in the last place of a
float of exponent `k - 1074` on the same scale.
-/
import TeraModel.Lemmas.SoftFloatOps
import TeraModel.Lemmas.SoftFloatBits
import TeraModel.Lemmas.SoftFloatRange
import TeraModel.Lemmas.SoftFloatEuclid
import TeraModel.Props.C13
namespace Tera.C13Float
open Tera Tera.SoftFloat

/-! ## T1 — `roundDyadic` is round-to-nearest-even to binary64 -/

/-- **T1.** For every rational `num/den ≥ 0` (`den > 0`, no bound on the size) there are a
significand `m` and an exponent `k - 1074` such that
* `roundDyadic` returns `± m * 2^(k-1074)`, or `± inf` exactly when `k > 2045`, i.e. exactly when
  the rounded magnitude reaches `2^1024` (last clause);
* the result is normalised: `2^52 ≤ m < 2^53` (normal) or `k = 0`, `m < 2^52` (subnormal, zero);
* it is within half a unit in the last place of `num/den`, and exactly half a unit away only when
  `m` is even;
* no 53-bit float of any exponent `≥ -1074` is nearer to `num/den`, and when a different one is
  equally near then `m` is even (ties to even);
* when `num/den` is itself such a float the result is exact. -/
theorem roundDyadic_nearest (neg : Bool) (num den : Nat) (hd : 0 < den) :
    ∃ m k : Nat,
      roundDyadic neg num den = (if k ≤ 2045 then .fin neg m ((k : Int) - 1074) else .inf neg) ∧
      m < 2 ^ 53 ∧ (2 ^ 52 ≤ m ∨ k = 0) ∧
      2 * err (num * 2 ^ 1074) m (den * 2 ^ k) ≤ den * 2 ^ k ∧
      (2 * err (num * 2 ^ 1074) m (den * 2 ^ k) = den * 2 ^ k → m % 2 = 0) ∧
      (∀ m' k', m' < 2 ^ 53 →
        err (num * 2 ^ 1074) m (den * 2 ^ k) ≤ err (num * 2 ^ 1074) m' (den * 2 ^ k')) ∧
      (∀ m' k', m' < 2 ^ 53 → m' * 2 ^ k' ≠ m * 2 ^ k →
        err (num * 2 ^ 1074) m (den * 2 ^ k) = err (num * 2 ^ 1074) m' (den * 2 ^ k') → m % 2 = 0) ∧
      (∀ m' k', m' < 2 ^ 53 → num * 2 ^ 1074 = m' * 2 ^ k' * den → m * 2 ^ k = m' * 2 ^ k') ∧
      (2045 < k ↔ 2 ^ 2098 ≤ m * 2 ^ k) := by
  obtain ⟨m, k, hR, heq⟩ := roundDyadic_spec neg num den hd
  exact ⟨m, k, heq, hR.lt, hR.normal_or_sub, hR.half_ulp, hR.tie_even, hR.nearest,
    hR.nearest_tie_even, hR.exact hd, hR.overflow_iff⟩

/-- **T1 (overflow threshold).** `roundDyadic` returns infinity exactly when
`num/den ≥ (2^54 - 1) * 2^970`, the midpoint between `f64::MAX = (2^53 - 1) * 2^971` and `2^1024`
(the midpoint itself is a tie between MAX's odd significand and the even `2^1024`: it goes up). -/
theorem roundDyadic_overflow_iff (neg : Bool) (num den : Nat) (hd : 0 < den) :
    roundDyadic neg num den = .inf neg ↔ (2 ^ 54 - 1) * 2 ^ 970 * den ≤ num :=
  SoftFloat.roundDyadic_overflow_iff neg num den hd

/-- **T1 (bit patterns).** What `roundDyadic` returns is in the canonical form of the bit
decoding: encoding it (`F64.toBits`, what the driver prints and the harness compares) and decoding
again gives the same value, so nothing is hidden by the encoder's own normalisation. -/
theorem roundDyadic_bits_roundtrip (neg : Bool) (num den : Nat) (hd : 0 < den) :
    F64.ofBits (F64.toBits (roundDyadic neg num den)) = roundDyadic neg num den :=
  ofBits_toBits_roundDyadic neg num den hd

/-- The same for the four arithmetic operations, for *all* operands (finite, infinite, NaN). -/
theorem results_canonical (a b : F64) :
    F64.ofBits (F64.toBits (SoftFloat.add a b)) = SoftFloat.add a b ∧
    F64.ofBits (F64.toBits (SoftFloat.sub a b)) = SoftFloat.sub a b ∧
    F64.ofBits (F64.toBits (SoftFloat.mul a b)) = SoftFloat.mul a b ∧
    F64.ofBits (F64.toBits (SoftFloat.div a b)) = SoftFloat.div a b :=
  ⟨canonical_add a b, canonical_sub a b, canonical_mul a b, canonical_div a b⟩

/-- `roundDyadic` is a function of the rational: equal fractions round to the same float. -/
theorem roundDyadic_well_defined (neg : Bool) (n1 d1 n2 d2 : Nat) (h1 : 0 < d1) (h2 : 0 < d2)
    (h : n1 * d2 = n2 * d1) : roundDyadic neg n1 d1 = roundDyadic neg n2 d2 :=
  roundDyadic_congr neg n1 d1 n2 d2 h1 h2 h

/-- The sign is carried through unchanged, also to zero and infinity (sign symmetry of RNE). -/
theorem roundDyadic_neg (s : Bool) (num den : Nat) :
    SoftFloat.neg (roundDyadic s num den) = roundDyadic (!s) num den := by
  unfold roundDyadic
  by_cases hd : den = 0
  · simp [hd, SoftFloat.neg]
  · simp only [hd, if_false]
    split <;> split <;> rfl

/-! ## T2 — `+ - * /` are the exact result rounded once -/

/-- **T2 (`+`).** For finite operands the sum is the exact sum of the operands' exact values,
`sumNum a b / (a.den * b.den)` with `sumNum a b = a.num * b.den + b.num * a.den`, rounded once by
`roundDyadic`.  An exactly zero sum is `+0` unless both operands are negative
(`x + (-x) = +0`, `(-0) + (-0) = -0`). -/
theorem add_correctly_rounded (a b : F64) (ha : a.isFinite = true) (hb : b.isFinite = true) :
    SoftFloat.add a b =
      if sumNum a b = 0 then zero (signBit a && signBit b)
      else roundDyadic (decide (sumNum a b < 0)) (sumNum a b).natAbs (a.den * b.den) := by
  cases a <;> cases b <;> simp only [F64.isFinite, Bool.false_eq_true] at ha hb
  exact add_fin _ _ _ _ _ _

/-- **T2 (`-`).** The exact difference `diffNum a b / (a.den * b.den)`,
`diffNum a b = a.num * b.den - b.num * a.den`, rounded once; an exactly zero difference is `+0`
unless `a` is negative and `b` positive (zeros). -/
theorem sub_correctly_rounded (a b : F64) (ha : a.isFinite = true) (hb : b.isFinite = true) :
    SoftFloat.sub a b =
      if diffNum a b = 0 then zero (signBit a && !signBit b)
      else roundDyadic (decide (diffNum a b < 0)) (diffNum a b).natAbs (a.den * b.den) := by
  cases a <;> cases b <;> simp only [F64.isFinite, Bool.false_eq_true] at ha hb
  exact sub_fin _ _ _ _ _ _

/-- **T2 (`*`).** The exact product `(a.num * b.num) / (a.den * b.den)` rounded once; the sign is
the exclusive or of the operands' signs, also when the product is zero (`0 * (-x) = -0`) or
underflows to zero. -/
theorem mul_correctly_rounded (a b : F64) (ha : a.isFinite = true) (hb : b.isFinite = true) :
    SoftFloat.mul a b =
      roundDyadic (signBit a != signBit b) (a.num * b.num).natAbs (a.den * b.den) := by
  cases a <;> cases b <;> simp only [F64.isFinite, Bool.false_eq_true] at ha hb
  exact mul_fin _ _ _ _ _ _

/-- **T2 (`/`).** For a non-zero finite divisor the exact quotient
`(|a.num| * b.den) / (|b.num| * a.den)` rounded once, sign = exclusive or. -/
theorem div_correctly_rounded (a b : F64) (ha : a.isFinite = true) (hb : b.isFinite = true)
    (hz : b.isZero = false) :
    SoftFloat.div a b =
      roundDyadic (signBit a != signBit b) (a.num.natAbs * b.den) (b.num.natAbs * a.den) := by
  cases a <;> cases b <;> simp only [F64.isFinite, Bool.false_eq_true] at ha hb
  rename_i sa ma ea sb mb eb
  have : mb ≠ 0 := by simpa [F64.isZero] using hz
  exact div_fin _ _ _ _ _ _ this

/-- **T2 (special operands).** The IEEE table outside the finite × finite case: NaN propagates;
`inf - inf`, `inf * 0`, `0 / 0`, `inf / inf` are NaN; `x / ±0 = ±inf` for `x ≠ 0`; infinities
absorb finite operands with the sign rules of the operation. -/
theorem special_cases (x : F64) (s t : Bool) (m : Nat) (e : Int) :
    SoftFloat.add .nan x = .nan ∧ SoftFloat.add x .nan = .nan ∧
    SoftFloat.mul .nan x = .nan ∧ SoftFloat.mul x .nan = .nan ∧
    SoftFloat.div .nan x = .nan ∧ SoftFloat.div x .nan = .nan ∧
    SoftFloat.sub .nan x = .nan ∧ SoftFloat.sub x .nan = .nan ∧
    SoftFloat.add (.inf s) (.inf s) = .inf s ∧ SoftFloat.add (.inf s) (.inf (!s)) = .nan ∧
    SoftFloat.sub (.inf s) (.inf s) = .nan ∧
    SoftFloat.add (.inf s) (.fin t m e) = .inf s ∧ SoftFloat.add (.fin t m e) (.inf s) = .inf s ∧
    SoftFloat.sub (.fin t m e) (.inf s) = .inf (!s) ∧
    SoftFloat.mul (.inf s) (.inf t) = .inf (s != t) ∧
    SoftFloat.mul (.inf s) (.fin t 0 e) = .nan ∧ SoftFloat.mul (.fin t 0 e) (.inf s) = .nan ∧
    (m ≠ 0 → SoftFloat.mul (.inf s) (.fin t m e) = .inf (s != t) ∧
             SoftFloat.mul (.fin t m e) (.inf s) = .inf (t != s)) ∧
    SoftFloat.div (.inf s) (.inf t) = .nan ∧
    SoftFloat.div (.inf s) (.fin t m e) = .inf (s != t) ∧
    SoftFloat.div (.fin t m e) (.inf s) = zero (t != s) ∧
    SoftFloat.div (.fin s 0 e) (.fin t 0 e) = .nan ∧
    (m ≠ 0 → SoftFloat.div (.fin s m e) (.fin t 0 e) = .inf (s != t)) := by
  refine ⟨by cases x <;> rfl, by cases x <;> rfl, by cases x <;> rfl, by cases x <;> rfl,
    by cases x <;> rfl, by cases x <;> rfl, by cases x <;> rfl, by cases x <;> rfl,
    by simp [SoftFloat.add], by cases s <;> simp [SoftFloat.add],
    by cases s <;> simp [SoftFloat.sub, SoftFloat.neg, SoftFloat.add], rfl, rfl, rfl, rfl,
    by simp [SoftFloat.mul], by simp [SoftFloat.mul], ?_, rfl, rfl, rfl, by simp [SoftFloat.div], ?_⟩
  · intro hm; simp [SoftFloat.mul, hm]
  · intro hm; simp [SoftFloat.div, hm]

/-! ## T3 — `fmod` (Rust `%` on f64) is exact -/

/-- **T3.** For representable finite operands (`IsF64`: significand of at most 53 bits, exponent
within `-1074 .. 971`: every finite bit pattern, `ofBits_isF64`, and every converted 128-bit
integer, `ofIntRNE_isF64`) and `b ≠ 0`, in units of `2^-1074`
(`units x` is the integer `x * 2^1074`, `units_value`):
`units (fmod a b) = Int.tmod (units a) (units b)` — the truncated-division remainder, with no
rounding.  Hence `a = q * b + r` with the integer `q = trunc (a / b)`, `|r| < |b|`; the result is
again representable, normalised, and carries the sign of `a` (also when it is zero). -/
theorem fmod_exact (a b : F64) (ha : IsF64 a) (hb : IsF64 b) (hz : b.isZero = false) :
    IsF64 (fmod a b) ∧ signBit (fmod a b) = signBit a ∧
    units (fmod a b) = Int.tmod (units a) (units b) ∧
    units a = Int.tdiv (units a) (units b) * units b + units (fmod a b) ∧
    (units (fmod a b)).natAbs < (units b).natAbs := by
  cases a <;> cases b <;> simp only [IsF64] at ha hb
  rename_i sa ma ea sb mb eb
  have hmb : mb ≠ 0 := by simpa [F64.isZero] using hz
  obtain ⟨m, k, h1, h2, h3, h4, h5⟩ := fmod_fin_units sa sb ma mb ea eb ha hb hmb
  rw [h1]
  have hub : units (.fin sb mb eb) ≠ 0 := by
    rw [units_fin]
    have : (2 : Int) ^ (eb + 1074).toNat ≠ 0 := by positivity
    have h' : (mb : Int) ≠ 0 := by exact_mod_cast hmb
    exact mul_ne_zero (mul_ne_zero (sgn_ne_zero sb) h') this
  refine ⟨⟨Or.inl h2, by omega, by omega⟩, rfl, h5, ?_, ?_⟩
  · rw [h5]
    have := Int.mul_tdiv_add_tmod (units (.fin sa ma ea)) (units (.fin sb mb eb))
    linarith
  · rw [h5, Int.natAbs_tmod]
    exact Nat.mod_lt _ (Int.natAbs_pos.mpr hub)

/-- **`rem_euclid` (the `%` of number.rs on floats).** For representable operands and `b ≠ 0`, with
the operands as integers in units of `2^-1074`: the result is the *Euclidean* remainder
`units a % units b` (`Int.emod`, `0 ≤ r < |b|`) rounded once to nearest-even — hence exactly the
Euclidean remainder whenever that is representable (always when `a ≥ 0` or `b` divides `a`; for
`a < 0` it is `fmod a b + |b|`, which may round, even up to `|b|` itself); a zero remainder keeps
the sign of `a` like the hardware (`(-6.0).rem_euclid(3.0) = -0.0`). -/
theorem rem_euclid_rounded (a b : F64) (ha : IsF64 a) (hb : IsF64 b) (hz : b.isZero = false) :
    remEuclid a b =
      if units a % units b = 0 then zero (signBit a)
      else roundDyadic false (units a % units b).toNat (2 ^ 1074) := by
  cases a <;> cases b <;> simp only [IsF64] at ha hb
  rename_i sa ma ea sb mb eb
  have hmb : mb ≠ 0 := by simpa [F64.isZero] using hz
  exact remEuclid_rounded sa sb ma mb ea eb ha hb hmb

/-- **`trunc`.** For a representable operand `f64::trunc` is exact: the canonical float whose value
is the integer part `|x.num| / x.den` (natural-number division), with the sign of `x` (also for a
zero result: `trunc(-0.5) = -0.0`). -/
theorem trunc_exact (x : F64) (hx : IsF64 x) :
    ∃ m k : Nat, trunc x = .fin (signBit x) m ((k : Int) - 1074) ∧
      m * 2 ^ k = (x.num.natAbs / x.den) * 2 ^ 1074 ∧
      m < 2 ^ 53 ∧ (2 ^ 52 ≤ m ∨ k = 0) ∧ k ≤ 2045 := by
  cases x <;> simp only [IsF64] at hx
  rename_i s m e
  exact trunc_fin_exact s m e hx

/-- **`div_euclid` (the `//` of number.rs on floats).** For representable operands and `b ≠ 0` the
std algorithm reads, with the comparisons against `0.0` decided on the exact integer values:
`q = trunc (a / b)` — the correctly rounded quotient (T2) truncated exactly (`trunc_exact`) — and,
when the exact C remainder `tmod (units a) (units b)` is negative, `q - 1` for `b > 0` and `q + 1`
for `b < 0`, each a correctly rounded `sub` / `add` (T2). -/
theorem div_euclid_steps (a b : F64) (ha : IsF64 a) (hb : IsF64 b) (hz : b.isZero = false) :
    divEuclid a b =
      if Int.tmod (units a) (units b) < 0 then
        (if 0 < units b then SoftFloat.sub (trunc (SoftFloat.div a b)) one
         else SoftFloat.add (trunc (SoftFloat.div a b)) one)
      else trunc (SoftFloat.div a b) := by
  obtain ⟨hf, _, hu, _, _⟩ := fmod_exact a b ha hb hz
  have fin_of : ∀ x : F64, IsF64 x → x.isFinite = true := by
    intro x hx; cases x <;> first | exact hx.elim | rfl
  have hfin : (fmod a b).isFinite = true := fin_of _ hf
  have hbfin : b.isFinite = true := fin_of _ hb
  obtain ⟨l1, _⟩ := lt_gt_zero_units (fmod a b) hfin
  obtain ⟨_, g2⟩ := lt_gt_zero_units b hbfin
  rw [hu] at l1
  unfold divEuclid
  simp only []
  by_cases c1 : Int.tmod (units a) (units b) < 0
  · have : F64.lt (fmod a b) ZERO_F = true := l1.mpr c1
    simp only [this, c1, if_true]
    by_cases c2 : 0 < units b
    · have : F64.gt b ZERO_F = true := g2.mpr c2
      simp only [this, c2, if_true]
    · have : ¬ (F64.gt b ZERO_F = true) := fun h => c2 (g2.mp h)
      simp only [this, c2, if_false]
      simp
  · have : ¬ (F64.lt (fmod a b) ZERO_F = true) := fun h => c1 (l1.mp h)
    simp only [this, c1, if_false]
    simp

/-- `units x` is the exact value of `x` (`x.num / x.den`) times `2^1074`. -/
theorem units_value (s : Bool) (m : Nat) (e : Int) (he : -1074 ≤ e) :
    units (.fin s m e) * ((F64.fin s m e).den : Int) = (F64.fin s m e).num * 2 ^ 1074 :=
  units_spec s m e he

/-- Every finite bit pattern decodes to a representable value (so T3 covers all float operands
the engine can hold). -/
theorem ofBits_isF64 (b : Nat) (hf : (F64.ofBits b).isFinite = true) :
    IsF64 (F64.ofBits b) := by
  unfold F64.ofBits at hf ⊢
  simp only []
  by_cases h1 : (b / 2 ^ 52 % 2048 == 2047) = true
  · simp only [h1, if_true] at hf
    split at hf <;> simp [F64.isFinite] at hf
  · simp only [h1, Bool.false_eq_true, if_false]
    have h1' : b / 2 ^ 52 % 2048 ≠ 2047 := by simpa using h1
    by_cases h2 : (b / 2 ^ 52 % 2048 == 0) = true
    · simp only [h2, if_true, IsF64]
      omega
    · simp only [h2, Bool.false_eq_true, if_false, IsF64]
      have h2' : b / 2 ^ 52 % 2048 ≠ 0 := by simpa using h2
      omega

/-- Every integer operand of number.rs (i128) converts to a representable, and if non-zero to a
non-zero, float: T3 and `rem_euclid_rounded` cover the mixed float / integer operands too. -/
theorem ofIntRNE_representable (n : Int) (hn : inI128 n) :
    IsF64 (F64.ofIntRNE n) ∧ (n ≠ 0 → (F64.ofIntRNE n).isZero = false) := by
  refine ⟨ofIntRNE_isF64 n ?_, ofIntRNE_isZero n⟩
  simp only [inI128, I128_MIN, I128_MAX] at hn
  omega

/-! ## T4 — corollaries for the arithmetic of number.rs -/

/-- **T4 (float contagion).** When a float meets an integer operand (any encoding, value in i128)
under `+ - *`, the engine model with `softOps` computes the soft-float operation on the float
operand and the integer converted by round-to-nearest-even (`F64.ofIntRNE`,
`C13_int_to_float_nearest`), for every float operand (also infinities and NaN), both orders. -/
theorem float_contagion_soft (p : F64 → F64 → F64) (x : F64) {v : Value} {n : Int}
    (hv : C13.IntVal v n) (hn : inI128 n) :
    Tera.add (softOps p) (.f64 x) v = .ok (.f64 (SoftFloat.add x (F64.ofIntRNE n))) ∧
    Tera.add (softOps p) v (.f64 x) = .ok (.f64 (SoftFloat.add (F64.ofIntRNE n) x)) ∧
    Tera.sub (softOps p) (.f64 x) v = .ok (.f64 (SoftFloat.sub x (F64.ofIntRNE n))) ∧
    Tera.sub (softOps p) v (.f64 x) = .ok (.f64 (SoftFloat.sub (F64.ofIntRNE n) x)) ∧
    Tera.mul (softOps p) (.f64 x) v = .ok (.f64 (SoftFloat.mul x (F64.ofIntRNE n))) ∧
    Tera.mul (softOps p) v (.f64 x) = .ok (.f64 (SoftFloat.mul (F64.ofIntRNE n) x)) := by
  have hx : (Value.f64 x).asNumber = some (.float x) := rfl
  have hi := hv.asNumber hn
  obtain ⟨a1, a2, a3⟩ := C13.C13_float_contagion (softOps p) (.f64 x) v (.float x) (.int n) hx hi (Or.inl rfl)
  obtain ⟨b1, b2, b3⟩ := C13.C13_float_contagion (softOps p) v (.f64 x) (.int n) (.float x) hi hx (Or.inr rfl)
  exact ⟨a1, b1, a2, b2, a3, b3⟩

/-- **T4 (float contagion, exact).** For a finite float operand `x` and an integer operand of
value `n` (any encoding, in i128), with `y = F64.ofIntRNE n` the integer rounded to nearest-even:
`x + n`, `x - n`, `n - x`, `x * n` in the engine model are the exact sum / difference / product of
the exact values of `x` and `y`, rounded once (T1), with the IEEE sign for exact zero results. -/
theorem float_contagion_exact (p : F64 → F64 → F64) (x : F64) (hx : x.isFinite = true)
    {v : Value} {n : Int} (hv : C13.IntVal v n) (hn : inI128 n) :
    Tera.add (softOps p) (.f64 x) v = .ok (.f64
      (if sumNum x (F64.ofIntRNE n) = 0 then zero (signBit x && signBit (F64.ofIntRNE n))
       else roundDyadic (decide (sumNum x (F64.ofIntRNE n) < 0)) (sumNum x (F64.ofIntRNE n)).natAbs
         (x.den * (F64.ofIntRNE n).den))) ∧
    Tera.sub (softOps p) (.f64 x) v = .ok (.f64
      (if diffNum x (F64.ofIntRNE n) = 0 then zero (signBit x && !signBit (F64.ofIntRNE n))
       else roundDyadic (decide (diffNum x (F64.ofIntRNE n) < 0)) (diffNum x (F64.ofIntRNE n)).natAbs
         (x.den * (F64.ofIntRNE n).den))) ∧
    Tera.sub (softOps p) v (.f64 x) = .ok (.f64
      (if diffNum (F64.ofIntRNE n) x = 0 then zero (signBit (F64.ofIntRNE n) && !signBit x)
       else roundDyadic (decide (diffNum (F64.ofIntRNE n) x < 0)) (diffNum (F64.ofIntRNE n) x).natAbs
         ((F64.ofIntRNE n).den * x.den))) ∧
    Tera.mul (softOps p) (.f64 x) v = .ok (.f64
      (roundDyadic (signBit x != signBit (F64.ofIntRNE n)) (x.num * (F64.ofIntRNE n).num).natAbs
        (x.den * (F64.ofIntRNE n).den))) := by
  obtain ⟨a1, _, a3, a4, a5, _⟩ := float_contagion_soft p x hv hn
  have hy : (F64.ofIntRNE n).isFinite = true := rfl
  rw [a1, a3, a4, a5, add_correctly_rounded x _ hx hy, sub_correctly_rounded x _ hx hy,
    sub_correctly_rounded _ x hy hx, mul_correctly_rounded x _ hx hy]
  exact ⟨rfl, rfl, rfl, rfl⟩

/-- **T4 (`/` with an integer operand).** With a non-zero divisor, `/` on a float and an integer
(either order), or on two integers, is the soft-float quotient of the converted operands. -/
theorem div_exact (p : F64 → F64 → F64) (a b : Value) (na nb : Number)
    (ha : a.asNumber = some na) (hb : b.asNumber = some nb) (hz : nb.isZero = false) :
    Tera.div (softOps p) a b = .ok (.f64 (SoftFloat.div na.toFloat nb.toFloat)) :=
  C13.C13_div_is_float (softOps p) a b na nb ha hb hz

/-- **T4 (`%` with a float operand).** `x % n` and `n % x` for a representable float `x` and an
integer `n` in i128 (non-zero divisor): the engine model returns the Euclidean remainder of the
exact values of `x` and of the integer converted to f64 (`y`), rounded once; see
`rem_euclid_rounded`. -/
theorem rem_contagion_exact (p : F64 → F64 → F64) (x : F64) (hx : IsF64 x)
    {v : Value} {n : Int} (hv : C13.IntVal v n) (hn : inI128 n) :
    (n ≠ 0 → Tera.rem (softOps p) (.f64 x) v = .ok (.f64
      (if units x % units (F64.ofIntRNE n) = 0 then zero (signBit x)
       else roundDyadic false (units x % units (F64.ofIntRNE n)).toNat (2 ^ 1074)))) ∧
    (x.isZero = false → Tera.rem (softOps p) v (.f64 x) = .ok (.f64
      (if units (F64.ofIntRNE n) % units x = 0 then zero (signBit (F64.ofIntRNE n))
       else roundDyadic false (units (F64.ofIntRNE n) % units x).toNat (2 ^ 1074)))) := by
  have hxn : (Value.f64 x).asNumber = some (.float x) := rfl
  have hi := hv.asNumber hn
  obtain ⟨hy, hy0⟩ := ofIntRNE_representable n hn
  constructor
  · intro hn0
    rw [← rem_euclid_rounded x _ hx hy (hy0 hn0)]
    have hz : (Number.int n).isZero = false := by simp [Number.isZero, hn0]
    simp [Tera.rem, hxn, hi, hz, Number.isFloat, Number.toFloat, softOps]
  · intro hx0
    rw [← rem_euclid_rounded _ x hy hx hx0]
    have hz : (Number.float x).isZero = false := by simp [Number.isZero, hx0]
    simp [Tera.rem, hxn, hi, hz, Number.isFloat, Number.toFloat, softOps]

/-- **T4 (`//` with a float operand).** `x // n` and `n // x` (non-zero divisor) are std's
`div_euclid` on `x` and the converted integer, as described by `div_euclid_steps`. -/
theorem floordiv_contagion_soft (p : F64 → F64 → F64) (x : F64)
    {v : Value} {n : Int} (hv : C13.IntVal v n) (hn : inI128 n) :
    (n ≠ 0 → Tera.floorDiv (softOps p) (.f64 x) v = .ok (.f64 (divEuclid x (F64.ofIntRNE n)))) ∧
    ((x.isFinite && x.isZero) = false →
      Tera.floorDiv (softOps p) v (.f64 x) = .ok (.f64 (divEuclid (F64.ofIntRNE n) x))) := by
  have hxn : (Value.f64 x).asNumber = some (.float x) := rfl
  have hi := hv.asNumber hn
  constructor
  · intro hn0
    have hz : (Number.int n).isZero = false := by simp [Number.isZero, hn0]
    simp [Tera.floorDiv, hxn, hi, hz, Number.isFloat, Number.toFloat, softOps]
  · intro hx0
    have hz : (Number.float x).isZero = false := by simpa [Number.isZero] using hx0
    simp [Tera.floorDiv, hxn, hi, hz, Number.isFloat, Number.toFloat, softOps]

/-- **T4.** Float addition and multiplication are commutative (bit for bit, all operands). -/
theorem add_comm (a b : F64) : SoftFloat.add a b = SoftFloat.add b a := by
  cases a <;> cases b <;> try rfl
  · rename_i s t; cases s <;> cases t <;> rfl
  · rename_i sa ma ea sb mb eb
    simp only [SoftFloat.add]
    rw [Int.min_comm eb ea, Int.add_comm, Bool.and_comm]

theorem mul_comm (a b : F64) : SoftFloat.mul a b = SoftFloat.mul b a := by
  cases a <;> cases b <;> try rfl
  · rename_i s t; cases s <;> cases t <;> rfl
  · rename_i s t m e; simp only [SoftFloat.mul]; cases s <;> cases t <;> rfl
  · rename_i s m e t; simp only [SoftFloat.mul]; cases s <;> cases t <;> rfl
  · rename_i sa ma ea sb mb eb
    simp only [SoftFloat.mul]
    rw [Nat.mul_comm mb ma, Int.add_comm eb ea]
    cases sa <;> cases sb <;> rfl

/-- **T4.** `x - x = +0` for every finite `x` (round-to-nearest sign rule). -/
theorem sub_self (x : F64) (hx : x.isFinite = true) : SoftFloat.sub x x = zero false := by
  cases x <;> simp only [F64.isFinite, Bool.false_eq_true] at hx
  rename_i s m e
  simp only [SoftFloat.sub, SoftFloat.neg, SoftFloat.add, sgn_not]
  have : sgn s * ((m * 2 ^ (e - min e e).toNat : Nat) : Int)
      + -sgn s * ((m * 2 ^ (e - min e e).toNat : Nat) : Int) = 0 := by ring
  rw [this]
  cases s <;> rfl

end Tera.C13Float

/-! ## Spot checks against known hardware results (kernel-evaluated on the model)

Operands and expected results are IEEE bit patterns as produced by x86-64 hardware. -/
namespace Tera.C13Float
open Tera Tera.SoftFloat

/-- apply a binary soft-float operation to two bit patterns, return the result's bit pattern -/
def onBits (f : F64 → F64 → F64) (a b : Nat) : Nat := (f (F64.ofBits a) (F64.ofBits b)).toBits

-- 0.1 + 0.2 = 0.30000000000000004
example : onBits SoftFloat.add 0x3fb999999999999a 0x3fc999999999999a = 0x3fd3333333333334 := by decide +kernel
-- 0.3 - 0.1 = 0.19999999999999998
example : onBits SoftFloat.sub 0x3fd3333333333333 0x3fb999999999999a = 0x3fc9999999999999 := by decide +kernel
-- 1.1 * 1.1 = 1.2100000000000002
example : onBits SoftFloat.mul 0x3ff199999999999a 0x3ff199999999999a = 0x3ff35c28f5c28f5d := by decide +kernel
-- 1 / 3, 1 / 10
example : onBits SoftFloat.div 0x3ff0000000000000 0x4008000000000000 = 0x3fd5555555555555 := by decide +kernel
example : onBits SoftFloat.div 0x3ff0000000000000 0x4024000000000000 = 0x3fb999999999999a := by decide +kernel
-- gradual underflow: 2^-1074 / 2 = 0 (tie to even), 3 * 2^-1074 / 2 = 2 * 2^-1074 (tie to even)
example : onBits SoftFloat.div 1 0x4000000000000000 = 0 := by decide +kernel
example : onBits SoftFloat.div 3 0x4000000000000000 = 2 := by decide +kernel
example : onBits SoftFloat.mul 3 0x3fe0000000000000 = 2 := by decide +kernel
-- MIN_POSITIVE * 0.5 = 2^-1023 (subnormal), 1e-200 * 1e-200 = 0
example : onBits SoftFloat.mul 0x0010000000000000 0x3fe0000000000000 = 0x0008000000000000 := by decide +kernel
example : onBits SoftFloat.mul 0x16687e92154ef7ac 0x16687e92154ef7ac = 0 := by decide +kernel
-- overflow: MAX + MAX = inf, 1e300 * 1e10 = inf; MAX + 2^970 is the tie between MAX (odd) and
-- 2^1024 (even): infinity; one ulp less stays MAX
example : onBits SoftFloat.add 0x7fefffffffffffff 0x7fefffffffffffff = 0x7ff0000000000000 := by decide +kernel
example : onBits SoftFloat.mul 0x7e37e43c8800759c 0x4202a05f20000000 = 0x7ff0000000000000 := by decide +kernel
example : onBits SoftFloat.add 0x7fefffffffffffff 0x7c90000000000000 = 0x7ff0000000000000 := by decide +kernel
example : onBits SoftFloat.add 0x7fefffffffffffff 0x7c8fffffffffffff = 0x7fefffffffffffff := by decide +kernel
-- halfway cases: 2^53 + 1 = 2^53 (even), (2^53 + 2) + 1 = 2^53 + 4 (even)
example : onBits SoftFloat.add 0x4340000000000000 0x3ff0000000000000 = 0x4340000000000000 := by decide +kernel
example : onBits SoftFloat.add 0x4340000000000001 0x3ff0000000000000 = 0x4340000000000002 := by decide +kernel
-- signed zeros: x - x = +0, (-0) + (-0) = -0, 0 * (-1) = -0, 1 / (-0) = -inf
example : onBits SoftFloat.sub 0x3ff0000000000000 0x3ff0000000000000 = 0 := by decide +kernel
example : onBits SoftFloat.add 0x8000000000000000 0x8000000000000000 = 0x8000000000000000 := by decide +kernel
example : onBits SoftFloat.mul 0 0xbff0000000000000 = 0x8000000000000000 := by decide +kernel
example : onBits SoftFloat.div 0x3ff0000000000000 0x8000000000000000 = 0xfff0000000000000 := by decide +kernel
-- NaN: 0/0, inf - inf, inf * 0
example : onBits SoftFloat.div 0 0 = 0x7ff8000000000000 := by decide +kernel
example : onBits SoftFloat.sub 0x7ff0000000000000 0x7ff0000000000000 = 0x7ff8000000000000 := by decide +kernel
example : onBits SoftFloat.mul 0x7ff0000000000000 0 = 0x7ff8000000000000 := by decide +kernel
-- fmod(5.5, 2) = 1.5, fmod(-6, 3) = -0, fmod(-1e300, 7) = -1
example : onBits fmod 0x4016000000000000 0x4000000000000000 = 0x3ff8000000000000 := by decide +kernel
example : onBits fmod 0xc018000000000000 0x4008000000000000 = 0x8000000000000000 := by decide +kernel
example : onBits fmod 0xfe37e43c8800759c 0x401c000000000000 = 0xbff0000000000000 := by decide +kernel
-- (-7.0).rem_euclid(3.0) = 2.0, (-7.0).div_euclid(3.0) = -3.0, 7.0.div_euclid(-3.0) = -2.0
example : onBits remEuclid 0xc01c000000000000 0x4008000000000000 = 0x4000000000000000 := by decide +kernel
example : onBits divEuclid 0xc01c000000000000 0x4008000000000000 = 0xc008000000000000 := by decide +kernel
example : onBits divEuclid 0x401c000000000000 0xc008000000000000 = 0xc000000000000000 := by decide +kernel
-- the documented rounding artefact of rem_euclid: (-1e-20).rem_euclid(3.0) = 3.0
example : onBits remEuclid 0xbbc79ca10c924223 0x4008000000000000 = 0x4008000000000000 := by decide +kernel
-- overflow threshold (T1): MAX + 2^970 is exactly (2^54 - 1) * 2^970
example : (2 ^ 53 - 1) * 2 ^ 971 + 2 ^ 970 = (2 ^ 54 - 1) * 2 ^ 970 := by decide +kernel
-- rem_euclid as the rounded Euclidean remainder: -7 and 3 in units of 2^-1074
example : (-7 * 2 ^ 1074 : Int) % (3 * 2 ^ 1074) = 2 * 2 ^ 1074 := by decide +kernel
-- results are in the canonical form of `ofBits`
example : SoftFloat.add (F64.ofBits 0x3fb999999999999a) (F64.ofBits 0x3fc999999999999a)
    = F64.ofBits 0x3fd3333333333334 := by decide +kernel

/-! Non-vacuity of the hypotheses: T1 at 1/3 (an inexact case: the chosen pair is
`m = 0x15555555555555`, `k = 1020`, i.e. exponent -54), T3's `IsF64` on decoded operands, T4's
integer operand. -/
example : roundDyadic false 1 3 = .fin false 0x15555555555555 ((1020 : Nat) - 1074) := by decide +kernel
example : IsF64 (F64.ofBits 0xc01c000000000000) ∧ (F64.ofBits 0x4008000000000000).isZero = false :=
  ⟨ofBits_isF64 _ (by decide +kernel), by decide +kernel⟩
example : C13.IntVal (.i64 3) 3 ∧ inI128 3 :=
  ⟨⟨rfl, by simp only [Value.scalarWF, inI64, I64_MIN, I64_MAX]; omega⟩,
   by simp only [inI128, I128_MIN, I128_MAX]; omega⟩

end Tera.C13Float
