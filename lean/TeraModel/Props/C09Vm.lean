/-
C09Vm: the FIRST clause of C09 ("the optimised chunk renders what the original renders") on the
FULL value-level VM model (Model/Vm.lean: every instruction, real values, spans, loops, captures,
blocks, nested `interpret` calls), for ONE chunk.  Helper lemmas:
Lemmas/OptimizeSimVm{,Arms,Arms2,Arms3,Group,Run}.lean.

Setting.  `c` is a listing, `code` its decoding by an ARBITRARY decoder `dec` that is the identity on
the ten structural instructions (`DecOK`) and sends no opaque instruction of the listing to a
jump-carrying one (`OtherNoTarget`); `optimize c = .ok c'`; `code'` is the decoding of `c'`.  The two
chunks `C = ⟨name, code⟩`, `C' = ⟨name, code'⟩` are run by `Vm.runLoop` / `Vm.run` with the same
environment, the same `VmCtx`, and related states:

* the optimised run starts from `renameState c st` (`= st` when the stack and the loop stack are
  empty, which is every state `render`, `include` and a component call start a chunk with): the
  instruction indices a state holds — the two ends of the span range of every stack slot
  (stack.rs `SpanRange`) and `ForLoop::end_ip` — are mapped through `index_map`; nothing else changes;
* `GoodState`: every stack slot's span ends are instructions of `C` that have a span in `C` exactly
  when their image has one in `C'`, and every loop's `end_ip` is the first instruction of a group
  (or 0, "not set").  Preserved by every turn.

Outcome relation `SameOutcome` (= `OptimizeSimVm.RunRel`): both `Ok` and the final state of the
optimised run is the renamed final state of the original run (so the SAME output text, capture
buffers, block buffer, scope values, loop positions); or both a rendering error; or both a panic;
or both outside the model.  NOT claimed: the same error CLASS in `RErr` (a missing root raises
`undefinedVariable` from `LoadPath`/`WritePath` but `undefinedField`/`undefinedRender` from the
sequence — the Rust messages differ the same way) nor the same panic site.  Claimed about error
spans: an error raised at a span range taken from the stack is raised on both sides at the
renamed range, and whether a span exists there (error vs `expect` panic) agrees (`Good`).

Fuel.  A fused instruction takes one turn where the sequence takes `1 + #attrs (+1)`, so the
optimised run needs at most as many turns: `optimize_preserves_runLoop` is stated for the same
number of turns on both sides with the hypothesis that the ORIGINAL run does not run out of fuel;
`optimize_reflects_runLoop` is the converse (`∃` turns for the original).

Nested `interpret` calls (`Include`, `RenderBlock`, `super()`, components) go through the
parameters `rec` / `rec'`; the assumption about them is `OptimizeSimVm.RecOK` (spelled out below as
`NestedOK`).  It holds trivially at depth 1 (`optimize_preserves_run_depth1`, no assumption at all).
The env-wide lift (every chunk of the environment optimised at once, `Vm.render`) is stated as the
named proposition `optimize_preserves_render`, not proved here.
-/
import TeraModel.Props.C09WFVm
import TeraModel.Lemmas.OptimizeSimVmRun
namespace Tera.C09Vm
open Tera Tera.Optimize Tera.OptimizeVWF Tera.OptimizeWF Tera.OptimizeSimVm Tera.ChunkVm

/-- the renaming of the instruction indices a state holds (slot span ends, loop `end_ip`) through
`index_map` of the listing `c` -/
abbrev renameState (c : List Entry) (st : Vm.State) : Vm.State := mapState (imapFn c) st

/-- the invariant on states (see the header) for the chunks `C`, `C'` of the listing `c` -/
abbrev GoodState (c : List Entry) (C C' : Vm.Chunk) (st : Vm.State) : Prop :=
  OptimizeSimVm.GoodState C C' (imapFn c) (PcRel c) st

/-- the relation between the results of the two runs (see the header) -/
abbrev SameOutcome (c : List Entry) (C C' : Vm.Chunk) : Vm.RunRes → Vm.RunRes → Prop :=
  RunRel C C' (imapFn c) (PcRel c)

/-- the assumption on the nested interpreters: started on a state and on its renaming they end
related; an included template (fresh state chained to the includer for reads) writes the same text -/
abbrev NestedOK (c : List Entry) (C C' : Vm.Chunk) (rec rec' : Vm.VmCtx → Vm.Chunk → Vm.State → Vm.RunRes) :
    Prop :=
  RecOK rec rec' C C' (imapFn c) (PcRel c)

/-- a state with an empty stack and no open loop is its own renaming and satisfies the invariant -/
theorem renameState_entry (c : List Entry) (C C' : Vm.Chunk) (st : Vm.State)
    (h1 : st.stack = []) (h2 : st.scope.forLoops = []) :
    renameState c st = st ∧ GoodState c C C' st := by
  obtain ⟨stack, scope, caps, out, bb, cb, blocks, cur⟩ := st
  cases scope with
  | mk loops sv p ctx g =>
    simp only [Scope.forLoops] at h1 h2
    subst h1 h2
    exact ⟨rfl, (⟨fun s hs => (by cases hs), fun l hl => (by cases hl)⟩ :
      OptimizeSimVm.GoodState _ _ _ _ _)⟩

/-- same final text (and everything else a state holds other than instruction indices) -/
theorem sameOutcome_done (c : List Entry) (C C' : Vm.Chunk) (a b : Vm.State)
    (h : SameOutcome c C C' (.done a) (.done b)) :
    b.out = a.out ∧ b.captures = a.captures ∧ b.blockBuffer = a.blockBuffer ∧
      b.blocks = a.blocks ∧ b.stack.map (·.1) = a.stack.map (·.1) ∧
      (∀ n, b.scope.getValue n = a.scope.getValue n) := by
  obtain ⟨rfl, _⟩ := h
  refine ⟨rfl, rfl, rfl, rfl, ?_, fun n => by rw [← mapStateP_id]; simp⟩
  simp [mapState, mapSlot, List.map_map, Function.comp_def]

section chunk
variable (dec : Instr → Option Vm.VInstr) (hD : DecOK dec) (c c' : List Entry)
  (code code' : List Vm.VEntry) (name : String)
  (hT : C09.TargetsInRange c) (hS : PathVm.PathSpans c) (hO : OtherNoTarget dec c)
  (hdec : c.mapM (fun e => (dec e.1).map (·, e.2)) = some code)
  (hopt : optimize c = .ok c')
  (hdec' : c'.mapM (fun e => (dec e.1).map (·, e.2)) = some code')
include hD hT hS hO hdec hopt hdec'

/-- `optimize_preserves_runLoop`: the interpreter loop, same number of turns on both sides.  If the
original chunk's loop, started at instruction 0 on `st`, returns anything but "out of fuel", the
optimised chunk's loop started at 0 on the renamed state returns the related result. -/
theorem optimize_preserves_runLoop (rec rec' : Vm.VmCtx → Vm.Chunk → Vm.State → Vm.RunRes)
    (hrec : NestedOK c ⟨name, code⟩ ⟨name, code'⟩ rec rec')
    (env : Vm.Env) (vm : Vm.VmCtx) (st : Vm.State) (hst : GoodState c ⟨name, code⟩ ⟨name, code'⟩ st)
    (n : Nat) (hne : Vm.runLoop rec env vm ⟨name, code⟩ n 0 st ≠ .outOfFuel) :
    SameOutcome c ⟨name, code⟩ ⟨name, code'⟩ (Vm.runLoop rec env vm ⟨name, code⟩ n 0 st)
      (Vm.runLoop rec' env vm ⟨name, code'⟩ n 0 (renameState c st)) := by
  have hc' : c' = optCode c := C09.optimize_ok c c' hopt
  subst hc'
  have hd := decoded_of_mapM dec c code hdec
  have hd' := decoded_of_mapM dec _ code' hdec'
  obtain ⟨m, hm, hrr⟩ := sim_forward dec hD c hT hS hO ⟨name, code⟩ ⟨name, code'⟩ rfl hd hd' env vm hrec
    n 0 0 st (PcRel_zero c) hst hne
  have hne' : Vm.runLoop rec' env vm ⟨name, code'⟩ m 0 (renameState c st) ≠ .outOfFuel := by
    intro h
    rw [h] at hrr
    revert hrr hne
    cases Vm.runLoop rec env vm ⟨name, code⟩ n 0 st <;> intro hne hrr <;>
      first | exact hrr.elim | exact hne rfl
  rw [runLoop_mono rec' env vm ⟨name, code'⟩ m 0 _ hne' n hm]
  exact hrr

/-- `optimize_reflects_runLoop`: the converse.  If the optimised chunk's loop returns anything but
"out of fuel" within `m` turns, the original chunk's loop returns the related result given enough
turns. -/
theorem optimize_reflects_runLoop (rec rec' : Vm.VmCtx → Vm.Chunk → Vm.State → Vm.RunRes)
    (hrec : NestedOK c ⟨name, code⟩ ⟨name, code'⟩ rec rec')
    (env : Vm.Env) (vm : Vm.VmCtx) (st : Vm.State) (hst : GoodState c ⟨name, code⟩ ⟨name, code'⟩ st)
    (m : Nat) (hne : Vm.runLoop rec' env vm ⟨name, code'⟩ m 0 (renameState c st) ≠ .outOfFuel) :
    ∃ n, SameOutcome c ⟨name, code⟩ ⟨name, code'⟩ (Vm.runLoop rec env vm ⟨name, code⟩ n 0 st)
      (Vm.runLoop rec' env vm ⟨name, code'⟩ m 0 (renameState c st)) := by
  have hc' : c' = optCode c := C09.optimize_ok c c' hopt
  subst hc'
  have hd := decoded_of_mapM dec c code hdec
  have hd' := decoded_of_mapM dec _ code' hdec'
  exact sim_backward dec hD c hT hS hO ⟨name, code⟩ ⟨name, code'⟩ rfl hd hd' env vm hrec
    m 0 0 st (PcRel_zero c) hst hne

/-- `optimize_preserves_run`: one `interpret` call (`Vm.run`, any fuel).  The nested interpreter of
a run with fuel `⟨d + 1, steps⟩` is `Vm.interp env steps d` on both sides; the assumption about it
is `NestedOK`. -/
theorem optimize_preserves_run (fuel : Vm.Fuel) (env : Vm.Env) (vm : Vm.VmCtx) (st : Vm.State)
    (hst : GoodState c ⟨name, code⟩ ⟨name, code'⟩ st)
    (hrec : ∀ d, fuel.depth = d + 1 →
      NestedOK c ⟨name, code⟩ ⟨name, code'⟩ (Vm.interp env fuel.steps d) (Vm.interp env fuel.steps d))
    (hne : Vm.run fuel env vm ⟨name, code⟩ st ≠ .outOfFuel) :
    SameOutcome c ⟨name, code⟩ ⟨name, code'⟩ (Vm.run fuel env vm ⟨name, code⟩ st)
      (Vm.run fuel env vm ⟨name, code'⟩ (renameState c st)) := by
  obtain ⟨depth, steps⟩ := fuel
  cases depth with
  | zero => exact absurd rfl hne
  | succ d =>
    simp only [Vm.run, Vm.interp] at hne ⊢
    exact optimize_preserves_runLoop dec hD c c' code code' name hT hS hO hdec hopt hdec'
      _ _ (hrec d rfl) env vm st hst steps hne

/-- With depth 1 every nested call is "out of fuel" on both sides, so no assumption is left: for
every environment, VM context, related start state and number of turns, the two chunks give the
same outcome. -/
theorem optimize_preserves_run_depth1 (steps : Nat) (env : Vm.Env) (vm : Vm.VmCtx) (st : Vm.State)
    (hst : GoodState c ⟨name, code⟩ ⟨name, code'⟩ st)
    (hne : Vm.run ⟨1, steps⟩ env vm ⟨name, code⟩ st ≠ .outOfFuel) :
    SameOutcome c ⟨name, code⟩ ⟨name, code'⟩ (Vm.run ⟨1, steps⟩ env vm ⟨name, code⟩ st)
      (Vm.run ⟨1, steps⟩ env vm ⟨name, code'⟩ (renameState c st)) := by
  apply optimize_preserves_run dec hD c c' code code' name hT hS hO hdec hopt hdec' ⟨1, steps⟩ env vm st hst
    _ hne
  intro d hd
  have : d = 0 := by simp at hd; omega
  subst this
  exact ⟨fun _ _ _ _ => True.intro, fun _ _ _ _ => True.intro⟩

/-- The form for the states a chunk is actually entered with by `render`, `include` and a
component call (empty stack, no open loop): the SAME start state on both sides; same output text
(and capture buffers, block buffer, block stack), or both fail the same way. -/
theorem optimize_preserves_output (fuel : Vm.Fuel) (env : Vm.Env) (vm : Vm.VmCtx) (st : Vm.State)
    (h1 : st.stack = []) (h2 : st.scope.forLoops = [])
    (hrec : ∀ d, fuel.depth = d + 1 →
      NestedOK c ⟨name, code⟩ ⟨name, code'⟩ (Vm.interp env fuel.steps d) (Vm.interp env fuel.steps d))
    (hne : Vm.run fuel env vm ⟨name, code⟩ st ≠ .outOfFuel) :
    match Vm.run fuel env vm ⟨name, code⟩ st, Vm.run fuel env vm ⟨name, code'⟩ st with
    | .done a, .done b => b.out = a.out ∧ b.captures = a.captures ∧ b.blockBuffer = a.blockBuffer ∧
        b.blocks = a.blocks
    | .err _, .err _ => True
    | .panic _, .panic _ => True
    | .unmodelled _, .unmodelled _ => True
    | _, _ => False := by
  obtain ⟨he, hg⟩ := renameState_entry c ⟨name, code⟩ ⟨name, code'⟩ st h1 h2
  have h := optimize_preserves_run dec hD c c' code code' name hT hS hO hdec hopt hdec' fuel env vm st hg
    hrec hne
  rw [he] at h
  revert h hne
  cases Vm.run fuel env vm ⟨name, code⟩ st <;> cases Vm.run fuel env vm ⟨name, code'⟩ st <;>
    intro hne h <;> first | exact h.elim | exact True.intro | exact absurd rfl hne | skip
  rename_i a b
  obtain ⟨h1, h2, h3, h4, _, _⟩ := sameOutcome_done c _ _ a b h
  exact ⟨h1, h2, h3, h4⟩

end chunk

/-! ## One turn (the local statement the run theorems are built from) -/

/-- `optimize_preserves_step`: an instruction the optimiser keeps (operand renamed), run at the
renamed index on the renamed state, does what the original does, renamed — for all 41
instructions of `Vm.step`, in every state satisfying the invariant. -/
theorem optimize_preserves_step {C C' : Vm.Chunk} {f : Nat → Nat} {P : Nat → Nat → Prop}
    (hR : Ren C C' f) {rec rec' : Vm.VmCtx → Vm.Chunk → Vm.State → Vm.RunRes}
    (hrec : RecOK rec rec' C C' f P) (hf0 : f 0 = 0) (hP0 : P 0 0) {pc k : Nat}
    (hpc : Good C C' f pc) (hk : f pc = k) (hnext : P (pc + 1) (k + 1))
    (hsp : ∀ j, C'.hasSpanAt k j = C.hasSpanAt pc j)
    (env : Vm.Env) (vm : Vm.VmCtx) {st : Vm.State} (hst : OptimizeSimVm.GoodState C C' f P st)
    (e : Vm.VEntry) (ht : ∀ t, vtarget e.1 = some t → P t (f t) ∧ (t = 0 ↔ f t = 0)) :
    StepRel C C' f P (Vm.step rec env vm C e pc st)
      (Vm.step rec' env vm C' (vmapTarget f e.1, e.2) k (mapState f st)) :=
  step_kept hR hrec hf0 hP0 hpc hk hnext hsp env vm hst e ht

/-! ## The env-wide lift (named, not proved) -/

/-- `C'` is `C` optimised (same name; some listing decodes to `C.code`, satisfies the three
compiler facts, and its optimised form decodes to `C'.code`) -/
def OptOf (dec : Instr → Option Vm.VInstr) (C C' : Vm.Chunk) : Prop :=
  C'.name = C.name ∧ ∃ c c' : List Entry,
    C09.TargetsInRange c ∧ PathVm.PathSpans c ∧ OtherNoTarget dec c ∧
    c.mapM (fun e => (dec e.1).map (·, e.2)) = some C.code ∧ optimize c = .ok c' ∧
    c'.mapM (fun e => (dec e.1).map (·, e.2)) = some C'.code

/-- the two lists have the same length and are related position by position -/
def All2 {α : Type} (R : α → α → Prop) (a b : List α) : Prop :=
  a.length = b.length ∧ ∀ p ∈ a.zip b, R p.1 p.2

def OptComponents (dec : Instr → Option Vm.VInstr)
    (a b : List (String × (Component.Def × Vm.Chunk))) : Prop :=
  All2 (fun x y => y.1 = x.1 ∧ y.2.1 = x.2.1 ∧ OptOf dec x.2.2 y.2.2) a b

def OptTemplate (dec : Instr → Option Vm.VInstr) (t t' : Vm.TemplateInfo) : Prop :=
  t'.name = t.name ∧ OptOf dec t.chunk t'.chunk ∧ t'.autoescape = t.autoescape ∧
  t'.parents = t.parents ∧
  All2 (fun x y => y.1 = x.1 ∧ All2 (OptOf dec) x.2 y.2) t.blockLineage t'.blockLineage ∧
  OptComponents dec t.components t'.components

/-- `env'` is `env` with every chunk optimised and nothing else changed -/
def OptEnv (dec : Instr → Option Vm.VInstr) (env env' : Vm.Env) : Prop :=
  All2 (fun x y => y.1 = x.1 ∧ OptTemplate dec x.2 y.2) env.templates env'.templates ∧
  OptComponents dec env.components env'.components ∧
  env'.hasFilter = env.hasFilter ∧ env'.hasTest = env.hasTest ∧ env'.hasFunction = env.hasFunction ∧
  env'.callFilter = env.callFilter ∧ env'.filterIsSafe = env.filterIsSafe ∧
  env'.callTest = env.callTest ∧ env'.callFunction = env.callFunction ∧
  env'.functionIsSafe = env.functionIsSafe ∧ env'.F = env.F ∧ env'.fmtF64 = env.fmtF64

/-- every chunk of the environment (main chunks, block chunks, component chunks) -/
def envChunks (env : Vm.Env) : List Vm.Chunk :=
  env.templates.flatMap (fun t =>
    t.2.chunk :: (t.2.blockLineage.flatMap (·.2) ++ t.2.components.map (·.2.2))) ++
  env.components.map (·.2.2)

def SameRender : Vm.Outcome → Vm.Outcome → Prop
  | .ok a, .ok b => b = a
  | .err _, .err _ => True
  | .panic _, .panic _ => True
  | .unmodelled _, .unmodelled _ => True
  | _, _ => False

/-- `optimize_preserves_render` (NOT proved here): optimising every chunk of an environment does
not change what `Vm.render` returns, whenever the original render does not run out of fuel.

Side condition, and why it costs nothing for compiled code.  A chunk entered by `RenderBlock` /
`super()` runs with the caller's loop stack, so a `Break` outside the chunk's OWN loops would jump to
the caller's `end_ip`, which the pass renumbers; the statement therefore assumes that every chunk
of the environment has a table `Vm.verify` accepts (its `Break` arm demands an open loop of the
chunk itself with a set end).  For compiled code this is a theorem, not an assumption: every parsed
template is scoped — `break` / `continue` only directly inside a `for` body, no block inside a
`for` (`Compiler.templateScoped`, proved for every parsed template by `Pipeline.parsed_ast_scoped`;
the parser rejects the other shapes at parser.rs:1516 and 1604) —, `C07Compile.compile_stack_discipline`
(T1) gives "Break only occurs with a set loop end" per chunk, and `C07CompileV.compile_vverify`
gives the `Vm.verify` table for every chunk of every scoped template; `C09WF.optimize_preserves_vverify`
carries it to the optimised chunk.

What a proof needs beyond the single-chunk theorems (an induction on `fuel.depth` with
`optimize_preserves_runLoop` at each level does NOT go through as it stands):
1. two environments: with `env' = env` with every chunk mapped by a function `o`, every arm that does
   not call `interpret` satisfies `step … env' vm' c = step … env vm c` (everything it reads of the
   environment is a field the mapping leaves alone, except `reportTargetOk`, which only needs the
   same template names); the nested arms then call `rec' (o-mapped vm) (o ch)`;
2. a state holds chunks (`State.blocks`, the lineages `RenderBlock` pushes), so the state relation
   has to map them through `o` as well;
3. `RecOK.same` is too strong for a callee that is a different chunk: the state relation has to
   become a RELATION by frames — the slots and loops a block chunk inherits from its caller
   (`RenderBlock`, `super()`) are renamed by the CALLER's `index_map`, its own by the CALLEE's, and
   the loops in the include parent chain (only read for values) are unconstrained — where it is now
   the FUNCTION `mapState f` (used as an equation in every arm);
4. that a callee never inspects an inherited slot's span or an inherited loop's `end_ip` is the
   framed soundness of `Vm.verify` (Lemmas/VmSim `Rel c base a st`), to be carried through the
   simulation as an additional invariant (hence the `Vm.verify` hypothesis above). -/
def optimize_preserves_render : Prop :=
  ∀ (dec : Instr → Option Vm.VInstr), DecOK dec →
  ∀ (env env' : Vm.Env), OptEnv dec env env' →
    (∀ C ∈ envChunks env, ∃ table, Vm.verify C.code table = true) →
  ∀ (fuel : Vm.Fuel) (name : String) (block : Option String) (ctx globalCtx : Ctx),
    Vm.render fuel env name block ctx globalCtx ≠ .outOfFuel →
    SameRender (Vm.render fuel env name block ctx globalCtx)
      (Vm.render fuel env' name block ctx globalCtx)

/-! ## The hypotheses are satisfiable -/

theorem exC_targets : C09.TargetsInRange C09WF.exC := by
  intro e he t ht
  simp only [C09WF.exC, List.mem_cons, List.not_mem_nil, or_false] at he
  rcases he with rfl | rfl | rfl | rfl | rfl | rfl | rfl | rfl | rfl | rfl | rfl | rfl | rfl | rfl <;>
    simp [Instr.target?] at ht <;> (subst ht; decide)

theorem exC_spans : PathVm.PathSpans C09WF.exC := by
  intro e he _
  simp only [C09WF.exC, List.mem_cons, List.not_mem_nil, or_false] at he
  rcases he with rfl | rfl | rfl | rfl | rfl | rfl | rfl | rfl | rfl | rfl | rfl | rfl | rfl | rfl <;>
    simp_all

/-- `Vm.decodeWith p` is a decoder of the required kind, and the `for` chunk of Props/C09WF.lean
(a loop whose body holds two fused paths, with `Iterate` / `Jump` / `JumpIfFalseOrPop` operands to
renumber) satisfies every hypothesis of `optimize_preserves_run_depth1`: the theorem applies to it
for every environment, VM context and start state. -/
example : ∃ code code' : List Vm.VEntry, code'.length < code.length ∧
    ∀ (steps : Nat) (env : Vm.Env) (vm : Vm.VmCtx) (st : Vm.State),
      GoodState C09WF.exC ⟨"t", code⟩ ⟨"t", code'⟩ st →
      Vm.run ⟨1, steps⟩ env vm ⟨"t", code⟩ st ≠ .outOfFuel →
      SameOutcome C09WF.exC ⟨"t", code⟩ ⟨"t", code'⟩ (Vm.run ⟨1, steps⟩ env vm ⟨"t", code⟩ st)
        (Vm.run ⟨1, steps⟩ env vm ⟨"t", code'⟩ (renameState C09WF.exC st)) := by
  have hdec : ∃ code, C09WF.exC.mapM (fun e => ((Vm.decodeWith (fun _ => none)) e.1).map (·, e.2)) = some code ∧
      code.length = 14 := by
    cases h : C09WF.exC.mapM (fun e => ((Vm.decodeWith (fun _ => none)) e.1).map (·, e.2)) with
    | none => revert h; decide
    | some code => exact ⟨code, rfl, by
        have := (decoded_of_mapM (Vm.decodeWith fun _ => none) _ code h).len; simpa [C09WF.exC] using this⟩
  have hdec' : ∃ code', (optCode C09WF.exC).mapM (fun e => ((Vm.decodeWith (fun _ => none)) e.1).map (·, e.2))
      = some code' ∧ code'.length < 14 := by
    cases h : (optCode C09WF.exC).mapM (fun e => ((Vm.decodeWith (fun _ => none)) e.1).map (·, e.2)) with
    | none => revert h; decide
    | some code' => exact ⟨code', rfl, by
        have := (decoded_of_mapM (Vm.decodeWith fun _ => none) _ code' h).len
        rw [this]; decide⟩
  obtain ⟨code, hc, hl⟩ := hdec
  obtain ⟨code', hc', hl'⟩ := hdec'
  refine ⟨code, code', by omega, ?_⟩
  intro steps env vm st hst hne
  exact optimize_preserves_run_depth1 (Vm.decodeWith fun _ => none) (C09WF.decodeWith_decOK _)
    C09WF.exC (optCode C09WF.exC) code code' "t" exC_targets exC_spans
    (C09WF.decodeWith_otherNoTarget _ _) hc (C09.optimize_no_panic _ exC_targets) hc' steps env vm st hst hne

end Tera.C09Vm
