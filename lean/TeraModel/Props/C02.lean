/-
C02 (syntax half) — grouping follows the documented precedence table and associativity.

Property theorems only.  The model is Model/ExprParser.lean (mirror of the Pratt parser of
tera/src/parsing/parser.rs over the token stream), tied to the code on every run by
harness/src/bin/c02.rs (exact AST equality on real token streams) and by the translator
(binding powers, limits, token map: Generated/BindingPowers.lean; documented table:
Generated/DocPrecedence.lean).  The evaluation half of C02 is in Props/C02Eval.lean.
-/
import TeraModel.Spec.Precedence
import TeraModel.Lemmas.ParseDoc
import TeraModel.Lemmas.Canon
import TeraModel.Lemmas.ParseTotal
namespace Tera.C02
open Tera Tera.Parser Tera.Spec

/-! ## The binding powers of parser.rs are the documented table -/

/-- Every operator of the language is listed in the documented table (so no level below is the
"not listed" default). -/
theorem doc_table_complete : rowsComplete Gen.docPrecedenceRows = true := by decide +kernel

/-- The binding powers extracted from parser.rs induce exactly the documented grouping
(`TableOK`, `orderMatches`): the order of the left powers is the order of the rows; an operator continues inside
the right operand of another exactly when it is on a higher row, or on the same row and that row
is `**` (the only right-associative one); a binary operator continues inside the operand of `not`
/ unary `-` exactly when it is on a higher row; the ternary is below everything; `not in` and
`is not` are on the rows of `in` and `is`; postfix forms are on the highest row. -/
theorem bp_table_matches_doc :
    TableOK docLevels genTable ∧ orderMatches docLevels genTable = true := by
  unfold TableOK; decide +kernel

/-- `**` is the only right-associative entry of the code's table (its right power is below its
left power), every other operator is left-associative (right power above left power). -/
theorem power_only_right_assoc (op : BinaryOperator) :
    (genTable.binary op).2 < (genTable.binary op).1 ↔ op = .Power := by
  cases op <;> decide

/-- `|` sits strictly between `**` and unary minus. -/
theorem pipe_between_power_and_unary_minus :
    (genTable.binary .Power).1 < (genTable.binary .Pipe).1
    ∧ (genTable.binary .Pipe).1 < genTable.unary .Minus
    ∧ docLevels.bin .Power < docLevels.bin .Pipe
    ∧ docLevels.bin .Pipe < docLevels.unary .Minus := by decide +kernel

/-- `not` binds below `in` / `is` and above `and`. -/
theorem not_between_and_and_in :
    (genTable.binary .And).1 < genTable.unary .Not
    ∧ genTable.unary .Not ≤ (genTable.binary .In).1
    ∧ genTable.unary .Not ≤ (genTable.binary .Is).1
    ∧ docLevels.bin .And < docLevels.unary .Not
    ∧ docLevels.unary .Not < docLevels.bin .In
    ∧ docLevels.unary .Not < docLevels.bin .Is := by decide +kernel

/-- `TableOK` does not depend on the particular numbers: doubling every power keeps it. -/
example : TableOK docLevels
    ⟨fun op => (2 * (genTable.binary op).1, 2 * (genTable.binary op).2),
     fun u => 2 * genTable.unary u, 0⟩ := by
  unfold TableOK; decide +kernel

/-- A renumbering that does not change any grouping keeps `TableOK` even when it leaves the row
order of the left powers: `|` at (15, 16) — its right power is never used, its left power only
has to stay above every right power that admits it — parses exactly as (17, 18) does; only the
separate `orderMatches` clause of `bp_table_matches_doc` notices it. -/
example : TableOK docLevels
      ⟨fun op => match op with | .Pipe => (15, 16) | o => genTable.binary o,
       genTable.unary, genTable.ternary⟩
    ∧ orderMatches docLevels
      ⟨fun op => match op with | .Pipe => (15, 16) | o => genTable.binary o,
       genTable.unary, genTable.ternary⟩ = false := by
  unfold TableOK; decide +kernel

/-- ... and it is not vacuous: swapping the rows of `+` and `*` breaks it. -/
example : ¬ TableOK docLevels
    ⟨fun op => match op with
        | .Plus => (13, 14) | .Mul => (11, 12) | o => genTable.binary o,
     genTable.unary, genTable.ternary⟩ := by
  unfold TableOK; decide +kernel


/-! ## The model is total

The model has two outcomes the Rust does not have as results: `fuel` (a loop of the model ran out
of its iteration budget) and `panic` (the `expect("to have an expr")` of `parse_subscript`).
Neither can come out, on ANY token list, for any binding-power table, limits and depth: every
successful sub-parse leaves no more tokens than it was given and every loop consumes at least one
token per iteration (so the budget `tokens + 1` suffices), and a subscript without a start
expression is always a slice.  So the model answers `ok ast` or `err`, exactly the two results
`Parser::parse` has. -/

/-- **Totality / no panic**: for every configuration and every token list (well-formed or not),
the expression parser model returns `ok` or `err`. -/
theorem C02_model_total (C : Cfg) (maxDepth depth : Nat) (toks : List Tok) :
    (∃ e s, parseExpression C maxDepth depth toks = .ok e s)
      ∨ parseExpression C maxDepth depth toks = .err := by
  have h := parseExpression_total C maxDepth depth toks
  cases hr : parseExpression C maxDepth depth toks with
  | ok e s => exact Or.inl ⟨e, s, rfl⟩
  | err => exact Or.inr rfl
  | panic m => exact absurd hr (h.2 m)
  | fuel => exact absurd hr h.1

/-! ## parse ∘ print

`S` (Spec/Precedence.lean) is the surface syntax of the expression core WITH explicit
parentheses: literals, variables, `( e )`, the 17 operand-taking infix operators, `not in`,
`is [not] test`, `| filter` (both without arguments or with an argument list
`name(k1=v1, k2=v2, …)` of any length, names pairwise distinct), unary `not` / `-`, the ternary,
`e[i]` on a literal / parenthesised / subscripted / call base, identifier chains `a.b?.c[i]?[j]`,
function calls `f(k1=v1, …)`, and array literals `[x, ...y, …]` of any length (no trailing
comma) up to the dimension limit, denoting the CONSTANT array when every entry is a constant (the
parser's folding, `S.foldArray`) and an `Array` node otherwise, map literals `{k: v, ...m, …}`
with string / integer / boolean keys (constant folding `S.foldMap`: an all-constant map is one
constant in which a later duplicate key overrides an earlier one), and list comprehensions
`[e for [k,] v in target [if cond]]` (target and condition are not bare ternaries; the loop
variables are not reserved words), and slices `e[a:b:c]` / `e?[a:b:c]` with every combination of
omitted parts.  Argument lists denote their arguments SORTED BY NAME
(`Expr.sortKwargs`), which is the canonical form of the `HashMap` the parser builds.  `S.toks` spells it as tokens, `S.erase` is the
AST the documentation assigns to it.  `S.DocWP L s` says that `s` has at least the parentheses
the documented levels `L` require (any number of redundant ones anywhere).  The theorems say that
the parser returns exactly `s.erase`: grouping follows the documented table and associativity
for every operator combination, for every choice of redundant parentheses, within the nesting
limits, for EVERY binding-power table with `TableOK`, hence (by `bp_table_matches_doc`) for the
powers parser.rs has now.

Argument lists, array literals and map literals may end in a trailing comma (`argEnd`, `itemEnd`,
`entryEnd`) when they are not empty.

Not covered by these theorems (correspondence run only): the REJECTION of malformed input (e.g. a
repeated argument name), `loop.*` inside a loop, component calls, and the byte-level lexer
(whitespace; `}}` inside nested map literals needs a space, observation O8). -/

/-- a token that can only end an expression: the loop does not know it and it does not continue
an identifier chain or open an argument list -/
def Closer (t : Tok) : Prop :=
  classify t = .other ∧ ¬ chainTok (some t) ∧ t ≠ .leftParen

/-- **parse ∘ print, generalised**: for every table with `TableOK`, every surface expression of
the core with (at least) the documented parentheses, at every parser depth that leaves room for
its nesting, followed by nothing or by any closing token: the parser consumes exactly the
expression and returns the AST it denotes, and leaves its counters as they were. -/
theorem C02_parse_print_any_table (L : DocLevels) (C : Cfg) (hT : TableOK L C.bp) (s : S)
    (hwp : s.DocWP L) (maxDepth depth : Nat) (hd : depth + s.need ≤ maxDepth)
    (hb : s.bneed ≤ C.maxBrackets) (ha : s.adneed ≤ C.maxArray) (rest : List Tok)
    (hrest : ∀ t, rest.head? = some t → Closer t) :
    parseExpression C maxDepth depth (s.toks ++ rest) = .ok s.erase ⟨rest, 0, 0⟩ := by
  unfold parseExpression
  have hfol : follow C s rest.head? := by
    cases h : rest.head? with
    | none => exact follow_none s
    | some t =>
      obtain ⟨h1, h2, h3⟩ := hrest t h
      exact follow_closer t h1 h2 h3 s
  have hstop : stopsTok C 0 rest.head? := by
    cases h : rest.head? with
    | none => trivial
    | some t =>
      obtain ⟨h1, _, _⟩ := hrest t h
      simp [stopsTok, h1]
  exact complete (parse_loop C s (maxDepth - depth) 0 rest 0 0 (wp_of_doc hT s hwp)
    (fitsLeft_zero C s) hfol (by omega) ⟨by omega, by omega⟩) hstop

/-- **parse ∘ print for the code as it is**: a template that consists of one variable block
`{{ s }}`, `s` any surface expression of the core carrying at least the parentheses the
DOCUMENTED table requires, nested at most as deep as the parser's limits allow, parses to the AST
`s` denotes — inside and outside a `for` loop. -/
theorem C02_parse_print_partial (s : S) (hwp : s.DocWP docLevels)
    (hd : 1 + s.need ≤ Gen.MAX_RECURSION_DEPTH) (hb : s.bneed ≤ Gen.MAX_NUM_LEFT_BRACKETS)
    (ha : s.adneed ≤ Gen.MAX_DIMENSION_ARRAY) (inLoop w1 w2 : Bool) :
    parseVariableTemplate (genCfg inLoop) Gen.MAX_RECURSION_DEPTH
        (.variableStart w1 :: (s.toks ++ [.variableEnd w2]))
      = some (.ok s.erase ⟨[], 0, 0⟩) := by
  have h := C02_parse_print_any_table docLevels (genCfg inLoop) bp_table_matches_doc.1 s hwp
    Gen.MAX_RECURSION_DEPTH 1 hd hb ha [.variableEnd w2]
    (by
      intro t ht
      simp only [List.head?_cons, Option.some.injEq] at ht
      subst ht
      exact ⟨classify_variableEnd w2, by simp [chainTok], by simp⟩)
  simp [parseVariableTemplate, h]

/-- **The reference printer parses back**: for EVERY valid surface expression `s` of the core
(`S.Valid`: conditions on the AST only), with whatever redundant parentheses it carries,
`S.render` — which adds exactly the parentheses the documented table requires — yields a token
sequence that the parser maps to the AST of `s`, provided the rendering fits the nesting limits.
So every AST of the core has a documented spelling, and that spelling means that AST. -/
theorem C02_render_parses (s : S) (hv : s.Valid)
    (hd : 1 + (S.canon docLevels s).need ≤ Gen.MAX_RECURSION_DEPTH)
    (hb : (S.canon docLevels s).bneed ≤ Gen.MAX_NUM_LEFT_BRACKETS)
    (ha : (S.canon docLevels s).adneed ≤ Gen.MAX_DIMENSION_ARRAY) (inLoop w1 w2 : Bool) :
    parseVariableTemplate (genCfg inLoop) Gen.MAX_RECURSION_DEPTH
        (.variableStart w1 :: (S.render docLevels s ++ [.variableEnd w2]))
      = some (.ok s.erase ⟨[], 0, 0⟩) := by
  have h := C02_parse_print_partial (S.canon docLevels s)
    (S.canon_docwp docLevels (S.LevelsOK.of_tableOK bp_table_matches_doc.1) s hv) hd hb ha
    inLoop w1 w2
  rw [S.canon_erase] at h
  exact h

/-- The full statement this file does not reach: the same for the WHOLE expression language.
`Spelling L e ts` would have to extend `S` / `S.DocWP` to arguments of filters, tests and
functions, slices, array and map literals with spreads (modulo the parser's constant folding),
list comprehensions and component calls; it is left abstract here.  What is proved above is this
statement for the spellings `S` describes. -/
def C02_parse_print_full
    (Spelling : DocLevels → Expr → List Tok → Prop) : Prop :=
  ∀ (e : Expr) (ts : List Tok) (inLoop w1 w2 : Bool), Spelling docLevels e ts →
    parseVariableTemplate (genCfg inLoop) Gen.MAX_RECURSION_DEPTH
        (.variableStart w1 :: (ts ++ [.variableEnd w2]))
      = some (.ok e ⟨[], 0, 0⟩)

/-- the proved part, in the shape of the full statement -/
theorem C02_parse_print_full_core :
    C02_parse_print_full (fun L e ts => ∃ s : S, s.DocWP L ∧ e = s.erase ∧ ts = s.toks
      ∧ 1 + s.need ≤ Gen.MAX_RECURSION_DEPTH ∧ s.bneed ≤ Gen.MAX_NUM_LEFT_BRACKETS
      ∧ s.adneed ≤ Gen.MAX_DIMENSION_ARRAY) := by
  intro e ts inLoop w1 w2 ⟨s, hwp, he, hts, hd, hb, ha⟩
  subst he hts
  exact C02_parse_print_partial s hwp hd hb ha inLoop w1 w2

/-! ### The classics, as instances (spot checks; the hypotheses are satisfiable) -/

/-- `2 ** 3 ** 2` is `2 ** (3 ** 2)` -/
example : parseExpression (genCfg false) 40 1
    [.integer 2, .power, .integer 3, .power, .integer 2, .variableEnd false]
    = .ok (.binary .Power (.const (.i64 2)) (.binary .Power (.const (.i64 3)) (.const (.i64 2))))
        ⟨[.variableEnd false], 0, 0⟩ :=
  C02_parse_print_any_table docLevels (genCfg false) bp_table_matches_doc.1
    (.binary .Power (.int 2) (.binary .Power (.int 3) (.int 2)))
    (by decide +kernel) 40 1 (by decide) (by decide) (by decide) [.variableEnd false]
    (by intro t ht; simp at ht; subst ht; exact ⟨by decide, by simp [chainTok], by simp⟩)

/-- `1 - 2 - 3` is `(1 - 2) - 3`; `not a in b` is `not (a in b)`; `-2 | abs` is `(-2) | abs`;
`a ~ b | upper` is `a ~ (b | upper)`; `1 + 2 if c else 3` is `(1 + 2) if c else 3`: all are
surface expressions without any parentheses that satisfy `DocWP`. -/
example :
    (S.binary .Minus (.binary .Minus (.int 1) (.int 2)) (.int 3)).DocWP docLevels
    ∧ (S.unary .Not (.binary .In (.var "a") (.var "b"))).DocWP docLevels
    ∧ (S.filter (.unary .Minus (.int 2)) "abs").DocWP docLevels
    ∧ (S.binary .StrConcat (.var "a") (.filter (.var "b") "upper")).DocWP docLevels
    ∧ (S.ternary (.var "c") (.binary .Plus (.int 1) (.int 2)) (.int 3)).DocWP docLevels
    ∧ (S.unary .Minus (.sub (.attr (.attr (.var "a") "b" false) "c" true) (.int 0) true)).DocWP
        docLevels
    ∧ (S.binary .Plus (.int 1) (.filterA (.call "f" (.argCons "x" (.ternary (.var "c") (.int 1)
          (.int 2)) .argNil)) "replace" (.argCons "to" (.str "b") (.argCons "from" (.var "a")
          .argNil)))).DocWP docLevels := by
  refine ⟨?_, ?_, ?_, ?_, ?_, ?_, ?_⟩ <;> decide +kernel

/-- `[1, [2]]` is one constant, `[1, ...xs, a + 1][0]` is a subscripted `Array` node -/
example :
    (S.arr (.itemCons false (.int 1) (.itemCons false (.arr (.itemCons false (.int 2) .itemNil))
      .itemNil))).erase = .const (.arr [.i64 1, .arr [.i64 2]])
    ∧ (S.index (.arr (.itemCons false (.int 1) (.itemCons true (.var "xs") (.itemCons false
        (.binary .Plus (.var "a") (.int 1)) .itemNil)))) (.int 0)).DocWP docLevels := by
  refine ⟨by simp [S.erase, S.eraseItems, S.foldArray, arrayAsConst], by decide +kernel⟩

/-- `{"a": 1, ...m}["a"]` is a subscripted `Map` node with its entries in source order -/
example : (S.index (.mapLit (.entryKV (.str "a") (.int 1) (.entrySpread (.var "m") .entryNil)))
      (.str "a")).DocWP docLevels
    ∧ (S.mapLit (.entryKV (.str "a") (.int 1) (.entrySpread (.var "m") .entryNil))).erase
      = .map [.keyValue (.str ['a']) (.const (.i64 1)), .spread (.var "m")] := by
  refine ⟨by decide +kernel, by simp [S.erase, S.eraseEntries, S.foldMap, S.mapLitOf, S.entryLit,
    SKey.key, Expr.isLiteral]⟩

/-- the documentation's `[x if x > 1 else 0 for x in numbers]` and `[v for k, v in data]` -/
example :
    (S.comp (.ternary (.binary .GreaterThan (.var "x") (.int 1)) (.var "x") (.int 0)) none "x"
      (.var "numbers") .absent).DocWP docLevels
    ∧ (S.filter (.comp (.var "v") (some "k") "v" (.var "data") (.test (.var "v") "odd" false))
        "safe").DocWP docLevels := by
  refine ⟨by decide +kernel, by decide +kernel⟩

/-- `xs[::-1]`, `name?[1:]` and `"abc"[a:b:c]` -/
example :
    (S.subSlice (.var "xs") .absent .absent (.unary .Minus (.int 1)) false).DocWP docLevels
    ∧ (S.subSlice (.var "name") (.int 1) .absent .absent true).DocWP docLevels
    ∧ (S.slice (.str "abc") (.var "a") (.var "b") (.var "c")).DocWP docLevels
    ∧ (S.subSlice (.var "xs") .absent .absent (.unary .Minus (.int 1)) false).erase
      = .slice (.var "xs") none none (some (.unary .Minus (.const (.i64 1)))) false := by
  refine ⟨by decide +kernel, by decide +kernel, by decide +kernel, by simp [S.erase, S.isAbsent]⟩

/-- trailing commas: `[1, a,]`, `f(x=1,)`, `{"k": 1,}` -/
example :
    (S.arr (.itemCons false (.int 1) (.itemCons false (.var "a") .itemEnd))).DocWP docLevels
    ∧ (S.call "f" (.argCons "x" (.int 1) .argEnd)).DocWP docLevels
    ∧ (S.mapLit (.entryKV (.str "k") (.int 1) .entryEnd)).DocWP docLevels
    ∧ ¬ (S.arr .itemEnd).DocWP docLevels := by
  refine ⟨by decide +kernel, by decide +kernel, by decide +kernel, by decide +kernel⟩

/-- arguments come out sorted by name whatever their order in the source -/
example : (S.call "f" (.argCons "to" (.int 1) (.argCons "from" (.int 2) .argNil))).erase
    = .functionCall "f" [("from", .const (.i64 2)), ("to", .const (.i64 1))] := by
  have h1 : ("from" : String) < "to" := by decide
  have h2 : ¬ ("to" : String) < "from" := by decide
  simp [S.erase, S.eraseArgs, Expr.sortKwargs, Expr.insertKwarg, h1]

/-- ... whereas the other grouping needs its parentheses: `1 - (2 - 3)` without them is not
`DocWP` (so the theorem does not claim it parses to that tree). -/
example : ¬ (S.binary .Minus (.int 1) (.binary .Minus (.int 2) (.int 3))).DocWP docLevels := by
  decide +kernel

end Tera.C02
