/-
C06 (parser side) — registering any source text ends in Ok or Err: the PARSER never panics, never
loops, and its recursion is bounded except along the chains named below.

Property theorems only.  The model is Model/TemplateParser.lean (statement level) on top of
Model/ExprParser.lean (expression level), tied to tera/src/parsing/parser.rs on every run by
harness/src/bin/c06p.rs (exact equality of parent / nodes / component definitions on real token
streams, both reject the same inputs).  The lexer side of C06 is Props/C06.lean.
-/
import TeraModel.Lemmas.TemplateParserTotal
namespace Tera.C06Parser
open Tera Tera.Parser Tera.TParser

/-! ## T1 — total, no panic, no fuel exhaustion -/

/-- **parser_total_no_panic.**  For EVERY token list the filtered lexer can emit (`shaped .tpl`:
Content / VariableStart / TagStart only at template level, the matching end token leads back to
template level, a lexer error ends the stream — what `C06.template_state_tokens`,
`C06.filter_removes_raw_and_comment` and `C06.node_level_tokens` establish on the lexer side; the
harness checks `shaped` on every real token stream) and every depth limit, the parser model
returns `ok` or a syntax error: never `panic` (the `unreachable!` of `parse_until_inner` at
parser.rs:1700, the `as_map().unwrap()` at :1376 and the `expect` of `parse_subscript` at :278
are unreachable), never out of iteration budget — every loop of the model runs on the budget
`remaining tokens + 1`, which always suffices because every iteration consumes a token. -/
theorem parser_total_no_panic (maxDepth : Nat) (toks : List Tok) (h : shaped .tpl toks = true) :
    (∃ t s, parse maxDepth toks = .ok t s) ∨ parse maxDepth toks = .err :=
  parse_total maxDepth toks h

/-- the hypothesis is needed: a token the lexer cannot emit at template level does reach the
`unreachable!` -/
example : ∃ site, parse 40 [.ident "x"] = .panic site := ⟨_, rfl⟩

/-- ... and it is satisfiable: `{% if a %}x{% endif %}{{ 1 }}` -/
example : shaped .tpl [.tagStart false, .ident "if", .ident "a", .tagEnd false, .content "x",
    .tagStart false, .ident "endif", .tagEnd false, .variableStart false, .integer 1,
    .variableEnd false] = true := by decide

/-- the expression parser alone is total on arbitrary token lists (no shape needed) -/
theorem expression_parser_total (C : Cfg) (maxDepth depth : Nat) (toks : List Tok) :
    parseExpression C maxDepth depth toks ≠ .fuel
      ∧ ∀ site, parseExpression C maxDepth depth toks ≠ .panic site :=
  parseExpression_total C maxDepth depth toks

end Tera.C06Parser
