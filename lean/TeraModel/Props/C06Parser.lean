/-
C06 (parser side) — registering any source text ends in Ok or Err: the PARSER never panics, never
loops, and its recursion is bounded except along the chains named below.

Property theorems only.  The model is Model/TemplateParser.lean (statement level) on top of
Model/ExprParser.lean (expression level), tied to tera/src/parsing/parser.rs on every run by
harness/src/bin/c06p.rs (exact equality of parent / nodes / component definitions on real token
streams, both reject the same inputs).  The lexer side of C06 is Props/C06.lean.

  T1  parser_total_no_panic, parser_total_on_lexer_output, expression_parser_total
  T2  counted_depth_bounded, expression_counted_depth_bounded, elif_chain_not_counted
  T3  ast_height_bound, ast_height_unbounded (F1 as a theorem: two witness families)
  T4  break_continue_legal, break_rule, continue_rule, parsed_ast_scoped
  T5  blocks_recorded_once, extends_rule, extends_not_first_accepted (a finding: the documented
      "first tag / not nested" rule does not hold inside a `for … else` body)

The hypothesis `shaped` of T1 is discharged for the lexer model in `parser_total_on_lexer_output`
(kind-for-kind correspondence of the two token types; the VALUES carried by in-tag tokens play no
role in the shape).  That the real token stream has the same kinds as both models is what the
harness runs compare (c06: lexer model vs real tokens; c06p: driver op `shape` on every real
token stream).  The Rust frame counts per counted level quoted under T2 are read off the code,
not modelled.
-/
import TeraModel.Lemmas.TemplateParserTotal
import TeraModel.Lemmas.TemplateParserHeight
import TeraModel.Lemmas.TemplateParserLegal
import TeraModel.Lemmas.TemplateParserCounted
import TeraModel.Lemmas.AstFree
import TeraModel.Lemmas.LexerShape
import TeraModel.Lemmas.TemplateParserScoped
namespace Tera.C06Parser
open Tera Tera.Parser Tera.TParser

/-- verdict of a run, for the concrete examples below (decided by kernel evaluation) -/
def verdict : TRes Template → Option (Option String)
  | .ok t _ => some t.parent
  | _ => none

theorem err_of_verdict {r : TRes Template} (h1 : verdict r = none)
    (h2 : (match r with | .err => true | _ => false) = true) : r = .err := by
  cases r <;> simp_all

theorem ok_of_verdict {r : TRes Template} {p : Option String} (h : verdict r = some p) :
    ∃ t st, r = .ok t st ∧ t.parent = p := by
  cases r <;> simp_all [verdict]

/-! ## T1 — total, no panic, no fuel exhaustion -/

/-- **parser_total_no_panic.**  For EVERY token list the filtered lexer can emit (`shaped .tpl`:
Content / VariableStart / TagStart only at template level, the matching end token leads back to
template level, a lexer error ends the stream — what `C06.template_state_tokens`,
`C06.filter_removes_raw_and_comment` and `C06.node_level_tokens` establish on the lexer side; the
harness checks `shaped` on every real token stream) and every depth limit, the parser model
returns `ok` or a syntax error: never `panic` (the `unreachable!` of `parse_until_inner` at
parser.rs:1700, the `as_map().unwrap()` at :1376 and the `expect` of `parse_subscript` at :278
are unreachable), never out of iteration budget — every loop of the model runs on the budget
`remaining tokens + 1`, which always suffices because every iteration consumes a token. -/
theorem parser_total_no_panic (maxDepth : Nat) (toks : List Tok) (h : shaped .tpl toks = true) :
    (∃ t s, parse maxDepth toks = .ok t s) ∨ parse maxDepth toks = .err :=
  parse_total maxDepth toks h

/-- **parser_total_on_lexer_output.**  The hypothesis of T1 is discharged by the lexer model of
Props/C06.lean: for EVERY delimiter set and EVERY source, a parser token list that is
kind-for-kind (`LexedAs`: content / `{{` / `}}` / `{%` / `%}` / error item / anything else) the
filtered token stream `Lexer.tokenize d src`, followed by the error item when the lexer stopped
on a syntax error, is parsed to `ok` or a syntax error.  (`tokenize_shaped`, Lemmas/LexerShape.lean,
reuses the per-pass shape lemmas behind `C06.node_level_tokens`.) -/
theorem parser_total_on_lexer_output (d : Delims) (src : Bytes) (maxDepth : Nat) (toks : List Tok)
    (h : LexedAs d src toks) :
    (∃ t s, parse maxDepth toks = .ok t s) ∨ parse maxDepth toks = .err :=
  parse_total maxDepth toks h.shaped

/-- the hypothesis is needed: a token the lexer cannot emit at template level does reach the
`unreachable!` -/
example : ∃ site, parse 40 [.ident "x"] = .panic site := ⟨_, rfl⟩

/-- ... and it is satisfiable: `{% if a %}x{% endif %}{{ 1 }}` -/
example : shaped .tpl [.tagStart false, .ident "if", .ident "a", .tagEnd false, .content "x",
    .tagStart false, .ident "endif", .tagEnd false, .variableStart false, .integer 1,
    .variableEnd false] = true := by decide

/-- the expression parser alone is total on arbitrary token lists (no shape needed) -/
theorem expression_parser_total (C : Cfg) (maxDepth depth : Nat) (toks : List Tok) :
    parseExpression C maxDepth depth toks ≠ .fuel
      ∧ ∀ site, parseExpression C maxDepth depth toks ≠ .panic site :=
  parseExpression_total C maxDepth depth toks

/-! ## T2 / T3 — what the depth counter bounds, and what it does not (finding F1 as a theorem)

`Node.cd` / `Expr.cd` (Lemmas/AstCounted.lean) is the COUNTED depth of a tree: its height, except
that these steps are free — the left spine of a binary-operator / filter / test / attribute /
subscript / ternary chain, the `not` of `not in` / `is not`, and an `elif`.  They are exactly the
steps the parser takes in a loop (`while let` of `parse_expr_bp`, `loop` of `parse_ident`) or by
`parse_if` calling itself, i.e. without passing through `recursion_depth`. -/

/-- **parser_depth_bounded (counted form).**  Every accepted template has counted depth ≤ the
depth limit, component definition bodies one less.  So the number of nested COUNTED levels of the
parser's own recursion (`parse_until` → `parse_until_inner` → `parse_tag` → `parse_*` →
`parse_until`: 4 Rust frames per level; `inner_parse_expression` → `parse_expr_bp` →
`parse_array | parse_map | parse_ident → parse_subscript | parse_filter → parse_kwargs | …` →
`parse_expression`: ≤ 5 frames per level) is ≤ `maxDepth`; the only recursion on top of that is
`parse_if` → `parse_if`, one frame per `elif` (`elif_chain_not_counted`).  Hence
  parser recursion depth ≤ 5 · MAX_RECURSION_DEPTH + 4 + (longest elif chain)
— the frame counts per level are read off parser.rs, they are not part of the model; the
machine-checked parts are this theorem, `elif_chain_not_counted`, `ast_height_bound` and
`ast_height_unbounded`. -/
theorem counted_depth_bounded (maxDepth : Nat) (toks : List Tok) (t : Template) (s : TState)
    (h : parse maxDepth toks = .ok t s) :
    Node.cdList t.nodes ≤ maxDepth
    ∧ ∀ d ∈ t.componentDefinitions, Node.cdList d.body + 1 ≤ maxDepth :=
  parse_counted maxDepth toks t s h

/-- the same for one expression: at budget `maxDepth - depth` the counted depth of the result is
at most that budget -/
theorem expression_counted_depth_bounded (C : Cfg) (maxDepth depth : Nat) (toks : List Tok)
    (e : Expr) (s : PState) (h : parseExpression C maxDepth depth toks = .ok e s) :
    e.cd ≤ maxDepth - depth :=
  (CD.innerParseExpression C (maxDepth - depth) 0).elim h

/-- **ast_height_bound.**  The height of an accepted tree is at most the depth limit PLUS the
number of free steps on its worst path (`Node.free`, Lemmas/AstFree.lean: one per link of the
left spine of an operator / filter / test / attribute / subscript / ternary chain, per `not`
wrapper, per `elif`, plus the uncounted constant-size wrappers — the `{{ }}` node, the attribute
list of a component call, the filter list of a `set` block).  `Node.heightList_le` is the
tree-only inequality `height ≤ counted depth + free steps`; the parser contributes
`counted depth ≤ maxDepth`. -/
theorem ast_height_bound (maxDepth : Nat) (toks : List Tok) (t : Template) (s : TState)
    (h : parse maxDepth toks = .ok t s) :
    Node.heightList t.nodes ≤ maxDepth + Node.freeList t.nodes
    ∧ ∀ d ∈ t.componentDefinitions, Node.heightList d.body + 1 ≤ maxDepth + Node.freeList d.body := by
  obtain ⟨h1, h2⟩ := parse_counted maxDepth toks t s h
  refine ⟨?_, fun d hd => ?_⟩
  · have := Node.heightList_le t.nodes
    omega
  · have := Node.heightList_le d.body
    have := h2 d hd
    omega

/-- **ast_height_unbounded.**  At the shipped limit (`MAX_RECURSION_DEPTH = 40`) there is NO bound
on the height of an accepted tree, hence none on the recursion depth of anything that walks it
(and none on the parser's own recursion along `elif`).  For every `n`:
* `{{ 1 + 1 + … + 1 }}` with `n` additions — `2n + 3` tokens, lexer-shaped, ACCEPTED,
  height ≥ `n + 2`, counted depth ≤ 2;
* `{% if a %}{% elif a %}ⁿ{% endif %}` — `4n + 7` tokens, lexer-shaped, ACCEPTED,
  height ≥ `n + 1`, counted depth ≤ 2.
Any correct bound on tree height therefore needs the chain terms. -/
theorem ast_height_unbounded (n : Nat) :
    (∃ toks t st, toks.length = 2 * n + 3 ∧ shaped .tpl toks = true
      ∧ parse Gen.MAX_RECURSION_DEPTH toks = .ok t st ∧ n + 2 ≤ Node.heightList t.nodes
      ∧ Node.cdList t.nodes ≤ 2)
    ∧ (∃ toks t st, toks.length = 4 * n + 7 ∧ shaped .tpl toks = true
      ∧ parse Gen.MAX_RECURSION_DEPTH toks = .ok t st ∧ n + 1 ≤ Node.heightList t.nodes
      ∧ Node.cdList t.nodes ≤ 2) :=
  ⟨plus_chain_accepted n, elif_chain_accepted n⟩

/-- the elif chain is parsed by `parse_if` re-entering ITSELF `n` times below a single
`parse_until` level: the shared depth counter is not touched — two levels suffice for any `n` -/
theorem elif_chain_not_counted (r n : Nat) :
    ∃ t st, parse (r + 2) (elifToks n) = .ok t st ∧ n + 1 ≤ Node.heightList t.nodes := by
  refine ⟨_, _, elif_chain_parse r n, ?_⟩
  have := elifNest_height n
  simp only [Node.heightList, Node.height, Expr.height]
  omega

/-! ## T4 — `break` / `continue` legality -/

/-- **break_continue_legal.**  In an ACCEPTED template every `Break` / `Continue` node sits in the
body of a `for` with no capturing construct (filter section, `set` block, body of a component
call) between it and that body — `Node.legal` walks the tree with exactly the rule of `parse_tag`
(`if` and `block` transparent; the `else` body of a `for` counts as outside that loop); and no
component definition body contains one outside a loop of its own. -/
theorem break_continue_legal (maxDepth : Nat) (toks : List Tok) (t : Template) (s : TState)
    (h : parse maxDepth toks = .ok t s) :
    Node.legalList false t.nodes
    ∧ ∀ d ∈ t.componentDefinitions, Node.legalList false d.body :=
  let ⟨h1, _, _, h4⟩ := parse_post maxDepth toks t s h
  ⟨h1, fun d hd => (h4 d hd).1⟩

/-- the rule is exact: `{% break %}` is accepted iff the walk over the context stack finds a loop
before any capture (and symmetrically for `continue`) -/
theorem break_rule (C : Bool → Cfg) (recU : EndCheck → T (List Node)) (ex : Bool → Nat → P Expr)
    (f : Bool) (s : TState) (rest : List Tok) (hs : s.p.toks = .ident "break" :: rest) :
    parseTag C recU ex f s =
      if walk s.bodyContexts then .ok (some .break) { s with p := { s.p with toks := rest } }
      else .err :=
  parseTag_break C recU ex f s rest hs

theorem continue_rule (C : Bool → Cfg) (recU : EndCheck → T (List Node)) (ex : Bool → Nat → P Expr)
    (f : Bool) (s : TState) (rest : List Tok) (hs : s.p.toks = .ident "continue" :: rest) :
    parseTag C recU ex f s =
      if walk s.bodyContexts then .ok (some .continue) { s with p := { s.p with toks := rest } }
      else .err :=
  parseTag_continue C recU ex f s rest hs

/-- `{% for x in y %}{% filter f %}{% if a %}{% break %}{% endif %}{% endfilter %}{% endfor %}`
is REJECTED (the shape the seeded mutant C07-1 lets through) -/
example : parse 40 [.tagStart false, .ident "for", .ident "x", .ident "in", .ident "y", .tagEnd false,
    .tagStart false, .ident "filter", .ident "f", .tagEnd false,
    .tagStart false, .ident "if", .ident "a", .tagEnd false,
    .tagStart false, .ident "break", .tagEnd false,
    .tagStart false, .ident "endif", .tagEnd false,
    .tagStart false, .ident "endfilter", .tagEnd false,
    .tagStart false, .ident "endfor", .tagEnd false] = .err :=
  err_of_verdict (by decide +kernel) (by decide +kernel)

/-- **parsed_ast_scoped** (feeds C07 / C12): every accepted template satisfies the tree part of
`Compiler.templateScoped`, the only hypothesis of the compiler theorems about the AST — no `Is` /
`Pipe` binary node, no component call with a body inside an expression, `break` / `continue`
only where the compiler has a loop to jump out of. -/
theorem parsed_ast_scoped (maxDepth : Nat) (toks : List Tok) (t : Template) (s : TState)
    (h : parse maxDepth toks = .ok t s) :
    Compiler.nodesScoped false t.nodes = true
    ∧ ∀ d ∈ t.componentDefinitions, Compiler.nodesScoped false d.body = true :=
  parse_scoped maxDepth toks t s h

/-! ## T5 — blocks, `extends` -/

/-- **blocks_recorded_once.**  In an accepted template the parser has recorded exactly the
`{% block %}`s of the tree — nested ones included, in source order — no block name occurs twice,
and no component definition body contains a block. -/
theorem blocks_recorded_once (maxDepth : Nat) (toks : List Tok) (t : Template) (s : TState)
    (h : parse maxDepth toks = .ok t s) :
    s.blocksSeen = (Node.blockNamesList t.nodes).reverse
    ∧ (Node.blockNamesList t.nodes).Nodup
    ∧ ∀ d ∈ t.componentDefinitions, Node.blockNamesList d.body = [] :=
  let ⟨_, h2, h3, h4⟩ := parse_post maxDepth toks t s h
  ⟨h2, h3, fun d hd => (h4 d hd).2⟩

/-- `{% block a %}{% block a %}{% endblock %}{% endblock %}` is rejected -/
example : parse 40 [.tagStart false, .ident "block", .ident "a", .tagEnd false,
    .tagStart false, .ident "block", .ident "a", .tagEnd false,
    .tagStart false, .ident "endblock", .tagEnd false,
    .tagStart false, .ident "endblock", .tagEnd false] = .err := rfl

/-- **extends_rule.**  The rule `parse_tag` implements, exactly: `{% extends "p" %}` is accepted
iff no parent is set yet, only whitespace content precedes it in the node list OF THE CURRENT
`parse_until` LEVEL, and the body-context stack is empty. -/
theorem extends_rule (C : Bool → Cfg) (recU : EndCheck → T (List Node)) (ex : Bool → Nat → P Expr)
    (f : Bool) (s : TState) (name : String) (rest : List Tok)
    (hs : s.p.toks = .ident "extends" :: .str name :: rest) :
    parseTag C recU ex f s =
      if s.parent = none ∧ f = true ∧ s.bodyContexts = [] then
        .ok none { s with p := { s.p with toks := rest }, parent := some name }
      else .err :=
  parseTag_extends C recU ex f s name rest hs

/-- **The documented rule ("`extends` needs to be the first tag", "cannot be nested in other
tags") does NOT follow** — `parse_for_loop` pops its `ForLoop` context before parsing the `else`
body (parser.rs:1111 / :1116), so inside `{% for %}…{% else %}HERE{% endfor %}` at top level the
context stack is empty and the node list is fresh:
`hello{% for x in y %}{% else %}{% extends "p" %}{% endfor %}` is ACCEPTED with parent `p`.
(The real engine agrees: harness c06p, stream `malformed-known`/`wellformed-known`.) -/
theorem extends_not_first_accepted :
    ∃ t st, parse 40 [.content "hello",
      .tagStart false, .ident "for", .ident "x", .ident "in", .ident "y", .tagEnd false,
      .tagStart false, .ident "else", .tagEnd false,
      .tagStart false, .ident "extends", .str "p", .tagEnd false,
      .tagStart false, .ident "endfor", .tagEnd false] = .ok t st ∧ t.parent = some "p" :=
  ok_of_verdict (by decide +kernel)

/-- same hole for blocks: rejected in the `for` body, accepted in its `else` body -/
example : parse 40 [.tagStart false, .ident "for", .ident "x", .ident "in", .ident "y", .tagEnd false,
    .tagStart false, .ident "block", .ident "b", .tagEnd false,
    .tagStart false, .ident "endblock", .tagEnd false,
    .tagStart false, .ident "endfor", .tagEnd false] = .err :=
  err_of_verdict (by decide +kernel) (by decide +kernel)
example : ∃ t st, parse 40 [.tagStart false, .ident "for", .ident "x", .ident "in", .ident "y", .tagEnd false,
    .tagStart false, .ident "else", .tagEnd false,
    .tagStart false, .ident "block", .ident "b", .tagEnd false,
    .tagStart false, .ident "endblock", .tagEnd false,
    .tagStart false, .ident "endfor", .tagEnd false] = .ok t st ∧ t.parent = none :=
  ok_of_verdict (by decide +kernel)

end Tera.C06Parser
