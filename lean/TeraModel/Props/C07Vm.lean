/-
C07, value level — theorems about the value-level model of the stack VM (Model/VmState.lean,
Model/Vm.lean), which the harness `cvm` runs on the REAL stored listings of every chunk and
compares with the real `render` / `render_block`.

Property theorems only (helper lemmas: Lemmas/Vm*.lean).
-/
import TeraModel.Lemmas.VmTotal
namespace Tera.C07Vm
open Tera Tera.Vm

/-- T1 `vm_step_total`: one turn of the interpreter loop never ends in a panic — no
`Stack::pop/peek` on an empty stack, no `expect("to have a span for error")`, no
`into_map().expect/unwrap` on the kwargs, no `unreachable!` in `AppendToList`, no
`capture_buffers.pop().unwrap()`, no index into `tera.filters/tests/functions/templates`,
`template.components`, `state.blocks`, `path[0]`, no `expect("no lineage found")`, no
`expect("Should only be called on iterable values")` — from any state that satisfies `StepPre`:
the operands are on the stack (arity, by instruction), `EndCapture` has a buffer, the slot under
`AppendToList`'s operand is an array, the kwargs slot of a call is a map, the names the arm indexes
with are registered, spans are present for the operands an error would be reported on (`SpanOK`),
the chunk's template is registered, `current_block_name` names an entry of the block stack, and
neither the built-ins nor the nested `interpret` panic.  Whatever the kinds of the operand
values: every other mismatch is an error class, by cases on the instruction and the values. -/
theorem vm_step_total (rec : VmCtx → Chunk → State → RunRes) (env : Env) (vm : VmCtx) (c : Chunk)
    (e : VEntry) (pc : Nat) (st : State) (h : StepPre rec env vm c e.1 pc st) :
    ∀ site, step rec env vm c e pc st ≠ .panic site := by
  suffices hs : (step rec env vm c e pc st).isPanic = false by
    intro site heq; rw [heq] at hs; simp [StepRes.isPanic] at hs
  obtain ⟨i, spans⟩ := e
  obtain ⟨harity, hcaps, happend, hkw, hnames, ⟨hsp, hown, hpath⟩, ht, hbl, hb, hr⟩ := h
  simp only at harity hcaps happend hkw hnames hsp hown hpath
  unfold step
  cases i <;> simp only [stackNeed, needsKwargs, usesOwnSpan, NamesOK] at *
  case loadConst v => rfl
  case loadName n => rfl
  case loadAttr attr opt => exact stepLoadAttr_noPanic attr opt ht harity hsp
  case binarySubscript opt => exact stepSubscript_noPanic opt ht harity hsp
  case slice opt => exact stepSlice_noPanic opt ht harity hsp
  case writeText t => rfl
  case writeTop => exact stepWriteTop_noPanic ht harity hsp
  case set n g => exact stepSet_noPanic n g harity
  case include_ n => exact stepInclude_noPanic n (fun _ _ => hr.1 _ _ _)
  case buildMap n => exact stepBuildMap_noPanic n harity
  case buildList n => exact stepBuildList_noPanic n harity
  case buildMapWithSpreads flags => exact stepBuildMapWithSpreads_noPanic flags ht harity hsp
  case buildListWithSpreads flags => exact stepBuildListWithSpreads_noPanic flags ht harity hsp
  case callFunction n =>
    exact stepCallFunction_noPanic n ht hnames harity (hown trivial)
      (fun hne => hkw (by simpa using hne)) hbl hb
      (fun _ _ _ _ _ _ _ _ _ _ _ _ _ _ _ => ⟨hr.1 _ _ _, fun _ h => hr.2 _ _ _ _ h⟩)
  case renderComponent n hasBody =>
    exact stepComponent_noPanic n hasBody ht hnames harity (hown trivial) (hkw trivial)
      (fun _ _ _ _ => hr.1 _ _ _)
  case applyFilter n =>
    exact stepFilterOrTest_noPanic false n ht (by simpa using hnames) harity hsp (hown trivial) (hkw trivial) hb
  case runTest n =>
    exact stepFilterOrTest_noPanic true n ht (by simpa using hnames) harity hsp (hown trivial) (hkw trivial) hb
  case renderBlock n => exact stepRenderBlock_noPanic n (fun _ _ _ => hr.1 _ _ _)
  case jump t => rfl
  case popJumpIfFalse t =>
    unfold stepPopJumpIfFalse
    rcases hs : st.stack with _ | ⟨⟨a, sa⟩, rest⟩
    · simp [hs] at harity
    · simp only; split <;> rfl
  case jumpIfFalseOrPop t =>
    unfold stepJumpOrPop
    rcases hs : st.stack with _ | ⟨⟨a, sa⟩, rest⟩
    · simp [hs] at harity
    · simp only; split <;> (try split) <;> rfl
  case jumpIfTrueOrPop t =>
    unfold stepJumpOrPop
    rcases hs : st.stack with _ | ⟨⟨a, sa⟩, rest⟩
    · simp [hs] at harity
    · simp only; split <;> (try split) <;> rfl
  case capture => rfl
  case endCapture => exact stepEndCapture_noPanic (hcaps trivial)
  case startIterate kv compr => exact stepStartIterate_noPanic kv compr ht harity hsp
  case iterate t => exact stepIterate_noPanic t
  case storeLocal n => exact stepStoreLocal_noPanic n
  case storeDidNotIterate => exact stepStoreDidNotIterate_noPanic
  case break_ => exact stepBreak_noPanic
  case popLoop => rfl
  case appendToList => exact stepAppendToList_noPanic harity (happend trivial)
  case math op => exact stepMath_noPanic op ht harity hsp
  case plus => exact stepPlus_noPanic ht harity hsp
  case cmp op => exact stepCmp_noPanic op ht harity hsp
  case equal neg => exact stepEqual_noPanic neg harity
  case strConcat => exact stepStrConcat_noPanic harity
  case in_ => exact stepIn_noPanic ht harity hsp
  case not_ => exact stepNot_noPanic harity
  case negative => exact stepNegative_noPanic ht harity hsp
  case loadPath p => exact stepLoadPath_noPanic p ht hnames (hpath p (Or.inl rfl))
  case writePath p => exact stepWritePath_noPanic p ht hnames (hpath p (Or.inr rfl))

end Tera.C07Vm
