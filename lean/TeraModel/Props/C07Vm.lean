/-
C07, value level — theorems about the value-level model of the stack VM (Model/VmState.lean,
Model/Vm.lean), which the harness `cvm` runs on the REAL stored listings of every chunk and
compares with the real `render` / `render_block`.

Property theorems only (helper lemmas: Lemmas/Vm*.lean).
-/
import TeraModel.Lemmas.VmTotal
import TeraModel.Lemmas.VmSim
import TeraModel.Lemmas.VmRefine
import TeraModel.Lemmas.VmUtf8
import TeraModel.Lemmas.VmWellFormed
import TeraModel.Props.C07
namespace Tera.C07Vm
open Tera Tera.Vm

/-- T1 `vm_step_total`: one turn of the interpreter loop never ends in a panic — no
`Stack::pop/peek` on an empty stack, no `expect("to have a span for error")`, no
`into_map().expect/unwrap` on the kwargs, no `unreachable!` in `AppendToList`, no
`capture_buffers.pop().unwrap()`, no index into `tera.filters/tests/functions/templates`,
`template.components`, `state.blocks`, `path[0]`, no `expect("no lineage found")`, no
`expect("Should only be called on iterable values")` — from any state that satisfies `StepPre`:
the operands are on the stack (arity, by instruction), `EndCapture` has a buffer, the slot under
`AppendToList`'s operand is an array, the kwargs slot of a call is a map, the names the arm indexes
with are registered, spans are present for the operands an error would be reported on (`SpanOK`),
the chunk's template is registered, `current_block_name` names an entry of the block stack, and
neither the built-ins nor the nested `interpret` panic.  Whatever the kinds of the operand
values: every other mismatch is an error class, by cases on the instruction and the values. -/
theorem vm_step_total (rec : VmCtx → Chunk → State → RunRes) (env : Env) (vm : VmCtx) (c : Chunk)
    (e : VEntry) (pc : Nat) (st : State) (h : StepPre rec env vm c e.1 pc st) :
    ∀ site, step rec env vm c e pc st ≠ .panic site := by
  suffices hs : (step rec env vm c e pc st).isPanic = false by
    intro site heq; rw [heq] at hs; simp [StepRes.isPanic] at hs
  obtain ⟨i, spans⟩ := e
  obtain ⟨harity, hcaps, happend, hkw, hnames, ⟨hsp, hown, hpath⟩, ht, hbl, hb, hr⟩ := h
  simp only at harity hcaps happend hkw hnames hsp hown hpath
  unfold step
  cases i <;> simp only [stackNeed, needsKwargs, usesOwnSpan, NamesOK] at *
  case loadConst v => rfl
  case loadName n => rfl
  case loadAttr attr opt => exact stepLoadAttr_noPanic attr opt ht harity hsp
  case binarySubscript opt => exact stepSubscript_noPanic opt ht harity hsp
  case slice opt => exact stepSlice_noPanic opt ht harity hsp
  case writeText t => rfl
  case writeTop => exact stepWriteTop_noPanic ht harity hsp
  case set n g => exact stepSet_noPanic n g harity
  case include_ n => exact stepInclude_noPanic n (fun _ _ => hr.1 _ _ _)
  case buildMap n => exact stepBuildMap_noPanic n harity
  case buildList n => exact stepBuildList_noPanic n harity
  case buildMapWithSpreads flags => exact stepBuildMapWithSpreads_noPanic flags ht harity hsp
  case buildListWithSpreads flags => exact stepBuildListWithSpreads_noPanic flags ht harity hsp
  case callFunction n =>
    exact stepCallFunction_noPanic n ht hnames harity (hown trivial)
      (fun hne => hkw (by simpa using hne)) hbl hb
      (fun _ _ _ _ _ _ _ _ _ _ _ _ _ _ _ => ⟨hr.1 _ _ _, fun _ h => hr.2 _ _ _ _ h⟩)
  case renderComponent n hasBody =>
    exact stepComponent_noPanic n hasBody ht hnames harity (hown trivial) (hkw trivial)
      (fun _ _ _ _ => hr.1 _ _ _)
  case applyFilter n =>
    exact stepFilterOrTest_noPanic false n ht (by simpa using hnames) harity hsp (hown trivial) (hkw trivial) hb
  case runTest n =>
    exact stepFilterOrTest_noPanic true n ht (by simpa using hnames) harity hsp (hown trivial) (hkw trivial) hb
  case renderBlock n => exact stepRenderBlock_noPanic n (fun _ _ _ => hr.1 _ _ _)
  case jump t => rfl
  case popJumpIfFalse t =>
    unfold stepPopJumpIfFalse
    rcases hs : st.stack with _ | ⟨⟨a, sa⟩, rest⟩
    · simp [hs] at harity
    · simp only; split <;> rfl
  case jumpIfFalseOrPop t =>
    unfold stepJumpOrPop
    rcases hs : st.stack with _ | ⟨⟨a, sa⟩, rest⟩
    · simp [hs] at harity
    · simp only; split <;> (try split) <;> rfl
  case jumpIfTrueOrPop t =>
    unfold stepJumpOrPop
    rcases hs : st.stack with _ | ⟨⟨a, sa⟩, rest⟩
    · simp [hs] at harity
    · simp only; split <;> (try split) <;> rfl
  case capture => rfl
  case endCapture => exact stepEndCapture_noPanic (hcaps trivial)
  case startIterate kv compr => exact stepStartIterate_noPanic kv compr ht harity hsp
  case iterate t => exact stepIterate_noPanic t
  case storeLocal n => exact stepStoreLocal_noPanic n
  case storeDidNotIterate => exact stepStoreDidNotIterate_noPanic
  case break_ => exact stepBreak_noPanic
  case popLoop => rfl
  case appendToList => exact stepAppendToList_noPanic harity (happend trivial)
  case math op => exact stepMath_noPanic op ht harity hsp
  case plus => exact stepPlus_noPanic ht harity hsp
  case cmp op => exact stepCmp_noPanic op ht harity hsp
  case equal neg => exact stepEqual_noPanic neg harity
  case strConcat => exact stepStrConcat_noPanic harity
  case in_ => exact stepIn_noPanic ht harity hsp
  case not_ => exact stepNot_noPanic harity
  case negative => exact stepNegative_noPanic ht harity hsp
  case loadPath p => exact stepLoadPath_noPanic p ht hnames (hpath p (Or.inl rfl))
  case writePath p => exact stepWritePath_noPanic p ht hnames (hpath p (Or.inr rfl))

/-- `vm_no_panic_wellformed`: in an environment whose chunks all passed the bytecode checker
(`EnvOK`: `checkChunk` — Model/VmCheck.lean, the checker of Model/WellFormed.lean extended with
the per-slot facts its soundness at value level needs: "is a map" for kwargs, "has a span" for the
operands an error is reported on; run by the harness on every real listing), with built-ins that
do not panic, `interpret` on a checked chunk from any state with a consistent block stack — any
values on the stacks underneath, any context, any fuel — ends in `done`, an error class,
`unmodelled` (a built-in outside the model) or out-of-fuel: never in a panic. -/
theorem vm_no_panic_wellformed (env : Env) (hE : EnvOK env) (fuel : Fuel) (vm : VmCtx) (c : Chunk)
    (st : State) (hg : Good env vm c st) : ∀ site, run fuel env vm c st ≠ .panic site := by
  intro site heq
  have := (interp_sound hE fuel.steps fuel.depth vm c st hg).1
  unfold run at heq
  rw [heq] at this
  simp [RunRes.isPanic] at this

/-- The same for the two entry points `Tera::render` / `Tera::render_block`: every template,
every block name, every context and global context, every fuel. -/
theorem vm_render_no_panic (env : Env) (hE : EnvOK env) (fuel : Fuel) (name : String)
    (block : Option String) (ctx globalCtx : Ctx) :
    ∀ site, render fuel env name block ctx globalCtx ≠ .panic site := by
  intro site
  unfold render
  cases htpl : env.template name with
  | none => simp
  | some tpl =>
    simp only
    cases hlm : lineageMissing tpl block with
    | true => simp
    | false =>
      simp only [Bool.false_eq_true, ↓reduceIte]
      have hT := hE.1 name tpl htpl
      cases hc : entryChunk env tpl with
      | none => simp
      | some chunk =>
        simp only
        have hck : checkChunk env chunk = true := by
          unfold entryChunk at hc
          split at hc
          · rename_i parent _
            cases hb : env.template parent with
            | none => rw [hb] at hc; cases hc
            | some btpl =>
              rw [hb] at hc; simp only [Option.map_some, Option.some.injEq] at hc
              subst hc; exact (hE.1 parent btpl hb).1
          · simp only [Option.some.injEq] at hc; subst hc; exact hT.1
        have hg : Good env { template := tpl, autoescapeOverride := none, depth := 0 } chunk
            (entryState block ctx globalCtx) :=
          ⟨hck, hT, by intro cur h; simp [entryState, State.fresh] at h,
           by intro e he; simp [entryState, State.fresh, blocksSig] at he⟩
        have := vm_no_panic_wellformed env hE fuel _ _ _ hg
        intro heq
        cases hr : run fuel env { template := tpl, autoescapeOverride := none, depth := 0 } chunk
            (entryState block ctx globalCtx) with
        | panic s => exact this s hr
        | _ => rw [hr] at heq; simp [outcomeOf] at heq

/-- T3 `vm_stacks_restored`: when a nested `interpret` (`RenderBlock`, `super()`, `Include`, a
component) on a checked chunk returns normally, it leaves the caller's state as it found it, as
far as the VM's stack discipline goes: the value stack is identical (values and span ranges), the
loop stack has the same height with the same `end_ip`s, the capture stack the same height, the
current block and the names and lineages on the block stack are the same.  (A block chunk may
write into the caller's innermost capture buffer and `{% set %}` into the caller's innermost
loop: contents of those two are not preserved, by design.) -/
theorem vm_stacks_restored (env : Env) (hE : EnvOK env) (fuel : Fuel) (vm : VmCtx) (c : Chunk)
    (st st2 : State) (hg : Good env vm c st) (h : run fuel env vm c st = .done st2) :
    st2.stack = st.stack ∧
    st2.scope.forLoops.map (·.endIp) = st.scope.forLoops.map (·.endIp) ∧
    st2.captures.length = st.captures.length ∧
    st2.currentBlockName = st.currentBlockName ∧
    st2.blocks.map (fun e => (e.1, e.2.1)) = st.blocks.map (fun e => (e.1, e.2.1)) := by
  have hf := (interp_sound hE fuel.steps fuel.depth vm c st hg).2 st2 h
  exact ⟨hf.stack, hf.loops, hf.caps, hf.cur, hf.blocks⟩

/-- Corollary at top level (what `take_final_stacks() == (0,0,0)` observes on the real VM): a
render that succeeds ends with the three stacks empty. -/
theorem vm_stacks_empty_at_end (env : Env) (hE : EnvOK env) (fuel : Fuel) (vm : VmCtx) (c : Chunk)
    (scope : Scope) (hs : scope.forLoops = []) (st2 : State)
    (hg : Good env vm c (State.fresh scope)) (h : run fuel env vm c (State.fresh scope) = .done st2) :
    st2.stack = [] ∧ st2.scope.forLoops = [] ∧ st2.captures = [] := by
  obtain ⟨h1, h2, h3, _, _⟩ := vm_stacks_restored env hE fuel vm c _ st2 hg h
  refine ⟨h1, ?_, ?_⟩
  · simpa [State.fresh, hs] using h2
  · simpa [State.fresh] using h3

/-- `vm_checked_chunk_wellformed`: the value-level checker refines the checker of
Model/WellFormed.lean.  If `c` is a listing (Model/InstrWire.lean) that decodes to the typed chunk
`code`, and `table` is a certificate the value-level checker verified for `code`, then `table`
with the extra flags forgotten is a certificate WellFormed's `verify` accepts for `c` — hence
everything `verify_sound` (Props/C07.lean) says about the abstract stack machine holds for it:
no underflow of the three stacks on any path, jumps stay inside the chunk, all three stacks empty
at the end.  (`vm_no_panic_wellformed` is the value-level strengthening of that.) -/
theorem vm_checked_chunk_wellformed (parseConst : String → Option Value) (c : List Entry)
    (code : List VEntry) (hdec : decodeCode parseConst c = some code) (table : List (Option ASt))
    (h : verify code table = true) :
    WellFormed.verify c (projTable table) = true ∧
    (∀ pc s, C07.Reach c pc s → ¬ C07.Panics c pc s) ∧
    (∀ pc s, C07.Reach c pc s → pc ≤ c.length) ∧
    (∀ pc s, C07.Reach c pc s → c.length ≤ pc → s = WellFormed.St.empty) := by
  have hv := verify_projects parseConst c code hdec table h
  exact ⟨hv, C07.verify_sound c (projTable table) hv⟩

/-! ### T2: the output is valid UTF-8 -/

/-- T2 `vm_output_valid_utf8`: the bytes of whatever `render` / `render_block` return — the UTF-8
encoding of the model's text — are valid UTF-8 (`std::str::from_utf8(..).is_ok()`, the predicate
of Model/Escape.lean), and the strict decoder `String::from_utf8` (Model/Contrib.lean) gives the
text back: the `String::from_utf8(output)?` at the end of `render` cannot fail. -/
theorem vm_output_valid_utf8 (fuel : Fuel) (env : Env) (name : String) (block : Option String)
    (ctx globalCtx : Ctx) (text : List Char)
    (_h : render fuel env name block ctx globalCtx = .ok text) :
    Escape.utf8Valid (Wire.utf8Encode text) = true ∧
    Contrib.utf8Decode (Wire.utf8Encode text) = some text :=
  ⟨utf8Valid_encode text, Contrib.utf8Decode_encode text⟩

/-- T2 `vm_write_bytes`: what one `WriteTop` / `WritePath` appends (the tail 335-354 / 864-882),
as bytes: the UTF-8 of `Value::format`, passed through the byte-level `escape_html` of the source
(the table the translator extracts) exactly when autoescape is on and the value is not safe; and
those bytes are valid UTF-8 — the two `from_utf8_unchecked` of the scratch buffer are sound, and
escaping preserves validity. -/
theorem vm_write_bytes (env : Env) (vm : VmCtx) (v : Value) :
    let text := v.format env.fmtF64
    let written := if !vm.autoescape || v.isSafe then text else escapeHtml text
    Wire.utf8Encode written
      = (if !vm.autoescape || v.isSafe then Wire.utf8Encode text
         else Escape.escapeHtml (Wire.utf8Encode text)) ∧
    Escape.utf8Valid (Wire.utf8Encode text) = true ∧
    Escape.utf8Valid (Wire.utf8Encode written) = true := by
  refine ⟨?_, utf8Valid_encode _, utf8Valid_encode _⟩
  by_cases h : (!vm.autoescape || v.isSafe) = true
  · rw [if_pos h, if_pos h]
  · rw [if_neg h, if_neg h]; exact (escape_bytes_agree _).symm

/-! ### T4: the fragment of C09's optimiser proof -/

/-- the five variable-path instructions, as `Instr` of Model/Instr.lean -/
def pathFragment : VInstr → Option Instr
  | .loadName n => some (.loadName n)
  | .loadAttr a false => some (.loadAttr a)
  | .writeTop => some .writeTop
  | .loadPath p => some (.loadPath p)
  | .writePath p => some (.writePath p)
  | _ => none

/-- the control-flow instructions ChunkVm models exactly -/
def flowFragment : VInstr → Option Instr
  | .jump t => some (.jump t)
  | .popJumpIfFalse t => some (.popJumpIfFalse t)
  | .jumpIfFalseOrPop t => some (.jumpIfFalseOrPop t)
  | .jumpIfTrueOrPop t => some (.jumpIfTrueOrPop t)
  | .iterate t => some (.iterate t)
  | .break_ => some (.other "Break" "")
  | _ => none

/-- T4a `vm_refines_pathvm`: on the five path instructions, one turn of the value-level VM is the
corresponding arm of Model/PathVm.lean instantiated with the value-level primitives (`pathEnv`),
seen through `absStack` (a slot's span range ↦ "`expand_span` finds a span"): same new stack and
state, error for error, panic for panic. -/
theorem vm_refines_pathvm (rec : VmCtx → Chunk → State → RunRes) (env : Env) (vm : VmCtx) (c : Chunk)
    (vi : VInstr) (i : Instr) (spans : List Span) (pc : Nat) (st : State)
    (hi : pathFragment vi = some i) (hcode : c.code[pc]? = some (vi, spans))
    (ht : reportTargetOk env vm c = true) :
    ∃ r, PathVm.step? (pathEnv env vm) (i, spans) (absStack c st.stack) { st with stack := [] } = some r ∧
      ResAgree c pc (step rec env vm c (vi, spans) pc st) r := by
  cases vi <;> simp only [pathFragment, Option.some.injEq] at hi <;> try cases hi
  case loadName n => exact ⟨_, rfl, loadName_refines n hcode⟩
  case loadAttr a opt =>
    cases opt
    · simp only [Option.some.injEq] at hi; subst hi
      exact ⟨_, rfl, loadAttr_refines a ht hcode⟩
    · cases hi
  case writeTop => exact ⟨_, rfl, writeTop_refines ht⟩
  case loadPath p => exact ⟨_, rfl, loadPath_refines p ht hcode⟩
  case writePath p => exact ⟨_, rfl, writePath_refines p ht hcode⟩

/-- T4b `vm_refines_chunkvm_control`: on the four jumps, `Iterate` and `Break`, one turn of the
value-level VM is `ChunkVm.step` of Model/ChunkVm.lean instantiated with the value-level
primitives (`vmSem`; whatever `other` is), seen through `cfgOf` (the `end_ip`s of the loop stack
are ChunkVm's `ends`, the rest of the state its `σ`). -/
theorem vm_refines_chunkvm_control (rec : VmCtx → Chunk → State → RunRes) (env : Env) (vm : VmCtx)
    (c : Chunk) (other : String → String → List (Value × Bool) → State → PathVm.Res Value State)
    (vi : VInstr) (i : Instr) (spans : List Span) (pc : Nat) (st : State)
    (hi : flowFragment vi = some i) :
    StepAgree c (step rec env vm c (vi, spans) pc st)
      (ChunkVm.step (vmSem env vm other) (i, spans) pc (cfgOf c st)) := by
  cases vi <;> simp only [flowFragment, Option.some.injEq] at hi <;> try cases hi
  case jump t => exact jump_refines t
  case popJumpIfFalse t => exact popJumpIfFalse_refines t
  case jumpIfFalseOrPop t => exact jumpIfFalseOrPop_refines t
  case jumpIfTrueOrPop t => exact jumpIfTrueOrPop_refines t
  case iterate t => exact iterate_refines t
  case break_ => exact break_refines

/-- The two hypotheses C09's `optimize_preserves` makes about the value parameters hold for the
value-level instance: `undefined` is undefined, and an undefined value has no attributes. -/
theorem vm_instance_meets_optimize_hypotheses (env : Env) (vm : VmCtx) :
    (pathEnv env vm).isUndef (pathEnv env vm).undef = true ∧
    ∀ v a, (pathEnv env vm).isUndef v = true → (pathEnv env vm).getAttr v a = none :=
  ⟨pathEnv_undef env vm, pathEnv_undef_attr env vm⟩

/-! ### the hypotheses are satisfiable, and the model computes (spot checks; the harness runs the
checker and the model on every real listing) -/

/-- `{{ x }}{{ 1 | f }}{% for v in x %}{{ v }}{% endfor %}` with the spans the compiler gives -/
def exChunk : Chunk :=
  { name := "t",
    code := [(.writePath ["x"], ["s"]), (.loadConst (.u64 1), ["s"]), (.buildMap 0, []),
             (.applyFilter "f", ["s"]), (.writeTop, []),
             (.loadName "x", ["s"]), (.startIterate false false, []), (.storeLocal "v", []),
             (.iterate 11, []), (.writePath ["v"], ["s"]), (.jump 8, []), (.popLoop, [])] }

def exOps : FloatOps :=
  { add := fun a _ => a, sub := fun a _ => a, mul := fun a _ => a, div := fun a _ => a,
    remEuclid := fun a _ => a, divEuclid := fun a _ => a, powf := fun a _ => a, neg := fun a => a }

def exEnv : Env :=
  { templates := [("t", { name := "t", chunk := exChunk, autoescape := true, parents := [],
                          blockLineage := [], components := [] })],
    components := [],
    hasFilter := fun n => n == "f", hasTest := fun _ => false, hasFunction := fun _ => false,
    callFilter := fun _ v _ => .ok v, filterIsSafe := fun _ => false,
    callTest := fun _ _ _ => .err, callFunction := fun _ _ => .err, functionIsSafe := fun _ => false,
    F := exOps, fmtF64 := fun _ => [] }

example : checkChunk exEnv exChunk = true := by decide +kernel

/-- `EnvOK` has instances -/
example : EnvOK exEnv := by
  refine ⟨?_, ?_, ⟨fun _ _ _ => rfl, fun _ _ _ => rfl, fun _ _ => rfl⟩⟩
  · intro n tpl h
    simp only [Env.template, exEnv, assoc] at h
    split at h
    · simp only [Option.some.injEq] at h; subst h
      exact ⟨by decide +kernel, by intro b lin h; simp [assoc] at h⟩
    · cases h
  · intro n d ch h; simp [exEnv, assoc] at h

/-- the model renders (autoescape on: the string is escaped, the loop runs over its characters) -/
example : (match render ⟨3, 100⟩ exEnv "t" none [("x", .str false ['<', 'a'])] [] with
    | .ok text => text == "&lt;a1&lt;a".toList
    | _ => false) = true := by decide +kernel

/-- an operand of an unexpected kind is an error class, not a panic -/
example : (match render ⟨3, 100⟩ exEnv "t" none [("x", .u64 7)] [] with
    | .err .iteration => true
    | _ => false) = true := by decide +kernel

/-- a chunk whose `ApplyFilter` would find no kwargs map is refused by the checker -/
example : checkChunk exEnv { name := "t", code := [(.loadName "x", ["s"]), (.loadName "y", ["s"]),
    (.applyFilter "f", ["s"]), (.writeTop, [])] } = false := by decide

/-- … and so is one that could report an error on an operand without a span -/
example : checkChunk exEnv { name := "t", code := [(.loadName "x", []), (.writeTop, [])] } = false := by
  decide

end Tera.C07Vm
