/-
The composed theorems of the WHOLE-ENGINE model (Model/Pipeline.lean): source bytes + context in,
rendered text or error class out, every stage being the stage model of its builder
(lexer / whitespace filter: bB_lexer; parser: bG1_parser; compiler: p2_compiler; optimiser:
bC_opt; registry: bD_registry; VM: p2_vm) — C06 ∧ C07 stated for the whole engine.

Property theorems only; the bridging lemmas are in Lemmas/Pipeline*.lean.  The model is tied to the
real `Tera::add_raw_templates` / `render` / `render_block` on every run by harness/src/bin/cpipe.rs
(source texts in: same add-time outcome, same environment instruction by instruction, same render
outcome; the first differing stage is named).

Where the known findings enter: F1 (AST height) and F14 (finalize recursion) are about the Rust
call stack, which the models do not have: the parser model's recursion is on the depth budget
`MAX_RECURSION_DEPTH` and its loop budgets (P4: they never run out), `find_parents` /
`check_include_cycles` run on the fuels `|templates| + 1` / `|templates|` (P4: they never run
out).  F5a / F5b (render recursion through inherited blocks / includes) and F18 are the `fuel`
argument of `render` (P5): `depth` bounds the nesting of `interpret` calls, `steps` the turns of one
interpreter loop; P5 holds for EVERY fuel and says nothing about how much is enough —
`C11.render_terminates_is_false` shows no finite `depth` suffices for the F5 witnesses.
-/
import TeraModel.Lemmas.PipelineLex
import TeraModel.Lemmas.PipelineEnv
import TeraModel.Lemmas.PipelineBuild
import TeraModel.Props.C07Vm
namespace Tera.Pipeline
open Tera Utf8

/-! ## P1 — lexer ↔ parser -/

/-- **P1 `lexed_tokens_shaped`.**  For EVERY source and EVERY delimiter set (validity of the UTF-8
and of the delimiters is not even needed for this one), the image under the adapter
`tokOf : Token → Tok` of what the filtered lexer emits — followed by the parser's `error` item when
the lexer ended in a syntax error — has the shape `TParser.shaped .tpl` that the parser's
totality theorem `C06Parser.parser_total_no_panic` assumes.  Closes the lexer ↔ parser gap: the
`unreachable!` of `parse_until_inner` (parser.rs:1700) is unreachable on every real token stream. -/
theorem lexed_tokens_shaped (d : Delims) (src : Bytes) (errored : Bool) :
    TParser.shaped .tpl (toksOf (WsFilter.tokenize d src).tokens errored) = true :=
  tokenize_shaped d src errored

/-- hence the front end (lexer, filter, adapter, parser) answers a template or a syntax error for
every valid UTF-8 source and validated delimiters: no panic, no fuel exhausted -/
theorem front_never_panics (d : Delims) (src : Bytes) (hd : d.accepted = true) (hv : valid src = true) :
    (∃ t, front d src = .ok t) ∨ front d src = .syntax := by
  rcases front_total d src hd hv with ⟨t, s, h, _⟩ | h
  · exact Or.inl ⟨t, h⟩
  · exact Or.inr h

/-! ## P2 — parser ↔ compiler -/

/-- The full statement: every AST the parser model returns satisfies p2_compiler's
`templateScoped`. -/
def parsed_ast_scoped_full : Prop :=
  ∀ (maxDepth : Nat) (toks : List Tok) (t : Template) (s : TParser.TState),
    TParser.parse maxDepth toks = .ok t s → Compiler.templateScoped t = true

/-- **P2 `parsed_ast_scoped`** (partial: two of the three conjuncts of `templateScoped`).  Every AST
the parser model returns has scoped node lists — `break` / `continue` only inside a `for` body with
no capture or block in between, no binary `Is` / `Pipe` node — in the main body and in every
component definition (`TParser.parse_scoped`, bG1_parser), and therefore the compiler model does
not reach either of its two panic sites on it (compiler.rs:591 `get_current_loop().unwrap()`,
compiler.rs:409 `unreachable!()`).  These two conjuncts are ALL that the compiler theorems use
(`C07Compile.compile_stack_discipline` reads only `.1` of the component part).  The third conjunct,
"the compiler of a component definition records no block", is not proved here: it follows from
`C06Parser.blocks_recorded_once` (`blockNamesList d.body = []`) only together with "no component
call with a body INSIDE an expression", which `exprScoped` does not express. -/
theorem parsed_ast_scoped_partial (maxDepth : Nat) (toks : List Tok) (t : Template) (s : TParser.TState)
    (h : TParser.parse maxDepth toks = .ok t s) :
    Compiler.nodesScoped false t.nodes = true ∧
    (∀ d ∈ t.componentDefinitions, Compiler.nodesScoped false d.body = true) ∧
    ∃ c, Compiler.compileTemplate t = .ok c := by
  obtain ⟨h1, h2⟩ := TParser.parse_scoped maxDepth toks t s h
  exact ⟨h1, h2, compile_ok_of_scoped t h1 h2⟩

/-! ## P3 — compiler ↔ optimiser ↔ VM -/

/-- The full statement: in any environment in which the template is registered and the names
its chunks refer to are registered, every chunk `optimize (compile …)` of a scoped AST passes
p2_vm's `checkChunk`. -/
def compiled_optimized_checked_full : Prop :=
  ∀ (t : Template) (name : String) (c : Compiler.Compiled) (env : Vm.Env),
    Compiler.templateScoped t = true → Compiler.compileTemplate t = .ok c →
    (env.template name).isSome = true →
    ∀ code ∈ c.chunks, ∀ ch, storeChunk name code = .ok ch →
      (ch.code.all fun e => Vm.namesOk env e.1) = true → Vm.checkChunk env ch = true

/-- **P3 `compiled_optimized_checked`** (partial: the optimiser half).  For EVERY template the
compiler model accepts and every chunk of it (main, blocks, component bodies), the composed
`storeChunk` — encode, `Optimize.optimize`, decode — answers a chunk: the pass does not hit its
`index_map[target]` panic (instructions.rs:329; `C09.optimize_no_panic` on
`targets_nodes`) and every instruction of the optimised chunk is one the VM model has
(`C09.optimize_merges_only_paths`: only variable paths are fused).  What is NOT proved is that the
abstract interpretation of Model/VmCheck.lean (`infer` + `verify`) accepts the result: `infer` is
a bounded forward pass that p2_vm does not prove complete.  Instead `addTemplates` RUNS
`checkChunk` on every chunk it stores (translation validation, outcome `unchecked`), so P5 below
needs no assumption; cpipe measures that `unchecked` never occurs on the generated and repo
templates. -/
theorem compiled_optimized_stored_partial (t : Template) (name : String) (c : Compiler.Compiled)
    (hc : Compiler.compileTemplate t = .ok c) :
    ∀ code ∈ c.chunks, ∃ ch, storeChunk name code = .ok ch := by
  obtain ⟨hmain, hblocks, hcomps⟩ := chunks_are_nodes t c hc
  intro code hcode
  simp only [Compiler.Compiled.chunks, List.mem_cons, List.mem_append, List.mem_map] at hcode
  rcases hcode with rfl | ⟨p, hp, rfl⟩ | ⟨p, hp, rfl⟩
  · rw [hmain]; exact storeChunk_nodes name _
  · obtain ⟨body, hb⟩ := hblocks p hp
    rw [hb]; exact storeChunk_nodes name _
  · obtain ⟨body, hb⟩ := hcomps p hp
    rw [hb]; exact storeChunk_nodes name _

/-! ## P4 — registering never panics -/

/-- **P4 `add_never_panics`.**  For every configuration with validated delimiters
(`Delimiters::validate`, strings) and EVERY list of (name, valid UTF-8 source) — any sizes, any
nesting, duplicate names, dangling or cyclic `extends` / `include`, unknown filters — the composed
`addTemplates` (lex, filter, parse, compile main / blocks / components, optimise every chunk, derive
parents / lineage / component table / flags, validate references, build and check the VM
environment) returns
* an environment, or
* `Err(SyntaxError)` of the first template that does not parse, or
* an error VALUE of `finalize_templates` (missing parent, circular extend, circular include,
  message, template not found — never the model's `panic` / `outOfFuel`), or
* `unchecked` (a stored chunk refused by `Vm.checkChunk`; see P3),
never a panic outcome (no panic site of lexer.rs, parser.rs, compiler.rs, instructions.rs,
template.rs, tera.rs is reached), never `outOfFuel` — every fuel of the stage models is the stated
function of the input that the model itself computes: lexer `|src| + 1` passes, raw search
`|rest| + 1`, parser loops `remaining tokens + 1`, parser depth `MAX_RECURSION_DEPTH`,
optimiser `|chunk|`, `find_parents` `|templates| + 1`, include walk `|templates|` — and never
`internal` (the adapters find every chunk the derived data names). -/
theorem add_never_panics (cfg : Config) (hd : cfg.delims.accepted = true)
    (sources : List (String × Bytes)) (hv : ∀ p ∈ sources, valid p.2 = true) :
    (∃ env, addTemplates cfg sources = .ok env) ∨
    ∃ e, addTemplates cfg sources = .error e ∧ e.benign :=
  addTemplates_benign_of_build cfg hd sources hv
    (fun tds st hn hr => buildEnv_some cfg sources tds st hn hr)

/-- the same, spelled out per excluded outcome -/
theorem add_outcomes_excluded (cfg : Config) (hd : cfg.delims.accepted = true)
    (sources : List (String × Bytes)) (hv : ∀ p ∈ sources, valid p.2 = true) :
    (∀ site, addTemplates cfg sources ≠ .error (.panic site)) ∧
    addTemplates cfg sources ≠ .error .outOfFuel ∧
    (∀ w, addTemplates cfg sources ≠ .error (.internal w)) ∧
    addTemplates cfg sources ≠ .error (.registry .panic) ∧
    addTemplates cfg sources ≠ .error (.registry .outOfFuel) := by
  rcases add_never_panics cfg hd sources hv with ⟨env, h⟩ | ⟨e, h, hb⟩
  · rw [h]; simp
  · rw [h]
    refine ⟨?_, ?_, ?_, ?_, ?_⟩
    · intro site heq; cases heq; exact hb
    · intro heq; cases heq; exact hb
    · intro w heq; cases heq; exact hb
    · intro heq; cases heq; exact hb.1 rfl
    · intro heq; cases heq; exact hb.2 rfl

/-- the UTF-8 hypothesis is needed: a Rust `&str` cannot hold these bytes, the model's lexer does
reach `split_at` off a char boundary on them -/
example : (match front Generated.defaultDelims [0x7B, 0x7B, 0x2D, 0x80] with
    | .panic site => site == "lexer.rs:266 split_at"
    | _ => false) = true := by decide +kernel

/-! ## P5 — rendering never panics -/

/-- **P5 `render_never_panics`.**  For every environment `addTemplates` returns — whatever the
configuration and the sources were —, every template name and block name (registered or not),
every context and global context, EVERY fuel, `render` / `render_block` return text, an error
class, `unmodelled` (a built-in outside the model) or out-of-fuel: never a panic (no `Stack::pop` /
`peek` on an empty stack, no `expect("to have a span for error")`, no `into_map().expect`, no
`unreachable!`, no failing index into `tera.templates` / `filters` / `tests` / `functions` /
`template.components` / `state.blocks`).  Hypothesis: the built-in parameters of the configuration
do not panic (`BuiltinsNoPanic`; the models of C16 / C17 are proved total there).
The model-level statement of C07 for the whole engine: `EnvOK` is ESTABLISHED by `addTemplates`
(P4 gives the environment, its last stage checks every chunk), then `C07Vm.vm_render_no_panic`. -/
theorem render_never_panics (cfg : Config) (hb : BuiltinsNoPanic cfg.builtins)
    (sources : List (String × Bytes)) (env : Env) (h : addTemplates cfg sources = .ok env)
    (fuel : Fuel) (name : String) (block : Option String) (ctx globalCtx : Ctx) :
    ∀ site, Vm.render fuel env name block ctx globalCtx ≠ .panic site :=
  C07Vm.vm_render_no_panic env (addTemplates_envOK cfg hb sources env h) fuel name block ctx globalCtx

/-- source text in, outcome out: the whole engine never panics (P4 ∧ P5) -/
theorem engine_never_panics (cfg : Config) (hd : cfg.delims.accepted = true)
    (hb : BuiltinsNoPanic cfg.builtins) (sources : List (String × Bytes))
    (hv : ∀ p ∈ sources, valid p.2 = true) (fuel : Fuel) (name : String) (ctx : Ctx) :
    (∃ o, renderSources cfg sources fuel name ctx = .ok o ∧ ∀ site, o ≠ .panic site) ∨
    ∃ e, renderSources cfg sources fuel name ctx = .error e ∧ e.benign := by
  unfold renderSources
  rcases add_never_panics cfg hd sources hv with ⟨env, h⟩ | ⟨e, h, hbn⟩
  · rw [h]
    exact Or.inl ⟨_, rfl, render_never_panics cfg hb sources env h fuel name none ctx []⟩
  · rw [h]; exact Or.inr ⟨e, rfl, hbn⟩

/-- a nested `interpret` on an environment `addTemplates` returned leaves the caller's stacks as it
found them (`C07Vm.vm_stacks_restored` transported) -/
theorem render_stacks_restored (cfg : Config) (hb : BuiltinsNoPanic cfg.builtins)
    (sources : List (String × Bytes)) (env : Env) (h : addTemplates cfg sources = .ok env)
    (fuel : Fuel) (vm : Vm.VmCtx) (c : Vm.Chunk) (st st2 : Vm.State) (hg : Vm.Good env vm c st)
    (hrun : Vm.run fuel env vm c st = .done st2) :
    st2.stack = st.stack ∧ st2.captures.length = st.captures.length :=
  let r := C07Vm.vm_stacks_restored env (addTemplates_envOK cfg hb sources env h) fuel vm c st st2 hg hrun
  ⟨r.1, r.2.2.1⟩

/-! ## P6 — the output is valid UTF-8 -/

/-- **P6 `render_output_utf8`.**  Whatever `render` / `render_block` return for an environment of
the composed model is text whose UTF-8 encoding is valid and decodes back to it: the
`String::from_utf8(output)?` at the end of `Tera::render` cannot fail. -/
theorem render_output_utf8 (fuel : Fuel) (env : Env) (name : String) (block : Option String)
    (ctx globalCtx : Ctx) (text : List Char)
    (h : Vm.render fuel env name block ctx globalCtx = .ok text) :
    Escape.utf8Valid (Wire.utf8Encode text) = true ∧
    Contrib.utf8Decode (Wire.utf8Encode text) = some text :=
  C07Vm.vm_output_valid_utf8 fuel env name block ctx globalCtx text h

/-! ## the hypotheses are satisfiable, and the model computes (spot checks; cpipe runs the model
on every generated and repo template) -/

example : Generated.defaultDelims.accepted = true := by decide
/-- `a{{ 1 }}` from source bytes to the stored chunk `WriteText "a"; LoadConst 1; WriteTop` -/
example : (match newTemplate Generated.defaultDelims "t" [0x61, 0x7B, 0x7B, 0x20, 0x31, 0x20, 0x7D, 0x7D] with
    | .ok td => td.main.code.length == 3 && td.blocks.isEmpty
    | _ => false) = true := by decide +kernel

end Tera.Pipeline
