/-
The composed theorems of the WHOLE-ENGINE model (Model/Pipeline.lean): source bytes + context in,
rendered text or error class out, every stage being the stage model of its builder
(lexer / whitespace filter: bB_lexer; parser: bG1_parser; compiler: p2_compiler; optimiser:
bC_opt; registry: bD_registry; VM: p2_vm) — C06 ∧ C07 stated for the whole engine.

Property theorems only; the bridging lemmas are in Lemmas/Pipeline*.lean.  The model is tied to the
real `Tera::add_raw_templates` / `render` / `render_block` on every run by harness/src/bin/cpipe.rs
(source texts in: same add-time outcome, same environment instruction by instruction, same render
outcome; the first differing stage is named).

Where the known findings enter: F1 (AST height) and F14 (finalize recursion) are about the Rust
call stack, which the models do not have: the parser model's recursion is on the depth budget
`MAX_RECURSION_DEPTH` and its loop budgets (P4: they never run out), `find_parents` /
`check_include_cycles` run on the fuels `|templates| + 1` / `|templates|` (P4: they never run
out).  F5a / F5b (render recursion through inherited blocks / includes) and F18 are the `fuel`
argument of `render` (P5): `depth` bounds the nesting of `interpret` calls, `steps` the turns of one
interpreter loop; P5 holds for EVERY fuel and says nothing about how much is enough —
`C11.render_terminates_is_false` shows no finite `depth` suffices for the F5 witnesses.
-/
import TeraModel.Lemmas.PipelineLex
import TeraModel.Lemmas.PipelineEnv
import TeraModel.Lemmas.PipelineBuild
import TeraModel.Lemmas.PipelineScoped
import TeraModel.Lemmas.PipelineWire
import TeraModel.Lemmas.PipelineBuiltins
import TeraModel.Lemmas.PipelineT
import TeraModel.Props.C07VmT
import TeraModel.Props.C07CompileV
import TeraModel.Props.C07Vm
import TeraModel.Props.C09WF
namespace Tera.Pipeline
open Tera Utf8

/-! ## P1 — lexer ↔ parser -/

/-- **P1 `lexed_tokens_shaped`.**  For EVERY source and EVERY delimiter set (validity of the UTF-8
and of the delimiters is not even needed for this one), the image under the adapter
`tokOf : Token → Tok` of what the filtered lexer emits — followed by the parser's `error` item when
the lexer ended in a syntax error — has the shape `TParser.shaped .tpl` that the parser's
totality theorem `C06Parser.parser_total_no_panic` assumes.  Closes the lexer ↔ parser gap: the
`unreachable!` of `parse_until_inner` (parser.rs:1700) is unreachable on every real token stream. -/
theorem lexed_tokens_shaped (d : Delims) (src : Bytes) (errored : Bool) :
    TParser.shaped .tpl (toksOf (WsFilter.tokenize d src).tokens errored) = true :=
  tokenize_shaped d src errored

/-- hence the front end (lexer, filter, adapter, parser) answers a template or a syntax error for
every valid UTF-8 source and validated delimiters: no panic, no fuel exhausted -/
theorem front_never_panics (d : Delims) (src : Bytes) (hd : d.accepted = true) (hv : valid src = true) :
    (∃ t, front d src = .ok t) ∨ front d src = .syntax := by
  rcases front_total d src hd hv with ⟨t, s, h, _⟩ | h
  · exact Or.inl ⟨t, h⟩
  · exact Or.inr h

/-! ## P2 — parser ↔ compiler -/

/-- **P2 `parsed_ast_scoped`** (full strength).  Every AST the parser model returns — for every
token list and every depth limit — satisfies p2_compiler's `templateScoped`, the hypothesis of the
compiler theorems (`C07Compile.compile_stack_discipline`, `compile_verify`, …):
* the main body and every component definition body are `nodesScoped false`: `break` / `continue`
  only inside a `for` body with no capture or block in between, no binary `Is` / `Pipe` node
  (`TParser.parse_scoped`, bG1_parser);
* the compiler of a component definition records no block: a component body contains no
  `{% block %}` (`TParser.parse_post`) and every component call INSIDE an expression is self-closing
  (`TParser.parse_sc`, bG1_parser), so the event walk of the compiler, which descends into the body
  of every component call wherever it stands, meets no block (`sc_no_block_aux`,
  Lemmas/PipelineScoped.lean).
Closes the parser ↔ compiler gap: every compiler theorem applies to every real parse. -/
theorem parsed_ast_scoped (maxDepth : Nat) (toks : List Tok) (t : Template) (s : TParser.TState)
    (h : TParser.parse maxDepth toks = .ok t s) : Compiler.templateScoped t = true :=
  parse_templateScoped maxDepth toks t s h

/-- hence the compiler model does not reach either of its two panic sites (compiler.rs:591
`get_current_loop().unwrap()`, compiler.rs:409 `unreachable!()`) on any parsed template, and every
chunk it emits has the stack discipline of `C07Compile.compile_stack_discipline` -/
theorem parsed_ast_compiles (maxDepth : Nat) (toks : List Tok) (t : Template) (s : TParser.TState)
    (h : TParser.parse maxDepth toks = .ok t s) :
    ∃ c, Compiler.compileTemplate t = .ok c ∧ ∀ ch ∈ c.chunks, ∀ a : WellFormed.St,
      (∀ pc st, C07Compile.Reach ch a pc st → ¬ C07Compile.Panics ch pc st) ∧
      (∀ pc st, C07Compile.Reach ch a pc st → pc ≤ ch.length) ∧
      (∀ pc st, C07Compile.Reach ch a pc st → ch.length ≤ pc → st.le a = true) :=
  C07Compile.compile_stack_discipline t (parsed_ast_scoped maxDepth toks t s h)

/-! ## P3 — compiler ↔ optimiser ↔ VM -/

/-- The full statement: in any environment in which the template is registered and the names
its chunks refer to are registered, every chunk `optimize (compile …)` of a scoped AST passes
p2_vm's `checkChunk`.

Status.  PROVED for all programs, in CERTIFICATE form (`compiled_optimized_checked_T` below): the
stored chunk has a table accepted by `Vm.verify` — everything `checkChunk` asks except that
`checkChunk` INFERS its table with a bounded forward pass (`Vm.infer`), whose completeness nobody
proves; p2_vm's `checkChunkT` / `EnvOKT` take the table as given, and `render_never_panics_T`
(P5) uses that form, so no theorem depends on `infer`.  Also proved for all programs: the
optimiser never panics on compiled code and its output decodes
(`compiled_optimized_stored_partial`); the optimised listing passes the verified checker of the
abstract stack machine `WellFormed.verify` (`compiled_optimized_wellformed`); that listing IS the
wire form of the typed chunk the composed model stores and runs (`stored_chunks_wellformed`).
The composed `addTemplates` still RUNS `checkChunk` on every chunk it stores (outcome
`unchecked`): by `add_checker_run_redundant` that run can only fail if `infer` misses a table that
exists; cpipe measures that it never does (0 of 343 861 accepted environments, thorough run). -/
def compiled_optimized_checked_full : Prop :=
  ∀ (t : Template) (name : String) (c : Compiler.Compiled) (env : Vm.Env),
    Compiler.templateScoped t = true → Compiler.compileTemplate t = .ok c →
    (env.template name).isSome = true →
    ∀ code ∈ c.chunks, ∀ ch, storeChunk name code = .ok ch →
      (ch.code.all fun e => Vm.namesOk env e.1) = true → Vm.checkChunk env ch = true

/-- **P3 `compiled_optimized_checked`** (partial: the optimiser half).  For EVERY template the
compiler model accepts and every chunk of it (main, blocks, component bodies), the composed
`storeChunk` — encode, `Optimize.optimize`, decode — answers a chunk: the pass does not hit its
`index_map[target]` panic (instructions.rs:329; `C09.optimize_no_panic` on
`targets_nodes`) and every instruction of the optimised chunk is one the VM model has
(`C09.optimize_merges_only_paths`: only variable paths are fused).  No hypothesis on the AST. -/
theorem compiled_optimized_stored_partial (t : Template) (name : String) (c : Compiler.Compiled)
    (hc : Compiler.compileTemplate t = .ok c) :
    ∀ code ∈ c.chunks, ∃ ch, storeChunk name code = .ok ch := by
  obtain ⟨hmain, hblocks, hcomps⟩ := chunks_are_nodes t c hc
  intro code hcode
  simp only [Compiler.Compiled.chunks, List.mem_cons, List.mem_append, List.mem_map] at hcode
  rcases hcode with rfl | ⟨p, hp, rfl⟩ | ⟨p, hp, rfl⟩
  · rw [hmain]; exact storeChunk_nodes name _
  · obtain ⟨body, hb⟩ := hblocks p hp
    rw [hb]; exact storeChunk_nodes name _
  · obtain ⟨body, hb⟩ := hcomps p hp
    rw [hb]; exact storeChunk_nodes name _

/-- **P3 at the level of the abstract stack machine, for ALL programs**
(`compiled_optimized_wellformed`): for every template the parser model accepts, the compiler model
answers, and for every chunk of it (main, blocks, component bodies) and every payload encoding,
`Chunk::optimize` on the compiled listing does not panic and the OPTIMISED listing has a table that
passes the verified checker `WellFormed.verify` — hence (`C07.verify_sound`) on the abstract stack
machine of Props/C07.lean no reachable instruction of the stored chunk pops / peeks an empty value
stack, pops an empty capture stack, uses a loop that is not there or `AppendToList`s below a
non-array; every jump lands inside the chunk or one past its end; and at the end the three stacks
are empty.  Composition of bG1_parser's `parse_scoped`, p2_compiler's `nodes_verify` /
`compile_meets_optimize_hypotheses` and bC_opt's `C09WF.optimized_chunk_sound`
(optimize preserves the checker's acceptance).  What `Vm.checkChunk` asks on top of this — the
per-slot facts "is a map", "has a span", "is a fine slice bound" — is what `addTemplates` validates
at run time. -/
theorem compiled_optimized_wellformed (maxDepth : Nat) (toks : List Tok) (t : Template)
    (s : TParser.TState) (h : TParser.parse maxDepth toks = .ok t s) (enc : Compiler.Enc) :
    ∃ c, Compiler.compileTemplate t = .ok c ∧ ∀ code ∈ c.chunks,
      ∃ c', Optimize.optimize (Compiler.toEntries enc code) = .ok c' ∧
        (∃ table', WellFormed.verify c' table' = true) ∧
        (∀ pc st, C07.Reach c' pc st → ¬ C07.Panics c' pc st) ∧
        (∀ pc st, C07.Reach c' pc st → pc ≤ c'.length) ∧
        (∀ pc st, C07.Reach c' pc st → c'.length ≤ pc → st = WellFormed.St.empty) := by
  obtain ⟨h1, h2⟩ := TParser.parse_scoped maxDepth toks t s h
  obtain ⟨c, hc⟩ := compile_ok_of_scoped t h1 h2
  refine ⟨c, hc, ?_⟩
  intro code hcode
  obtain ⟨ns, rfl, hsc⟩ := chunks_scoped_nodes t h1 h2 c hc code hcode
  have hv := Compiler.nodes_verify enc ns hsc
  have hT := (C07Compile.compile_meets_optimize_hypotheses t c hc enc _ hcode).1
  obtain ⟨c', ho, hv'⟩ := C09WF.optimize_preserves_verify _ _ hT hv
  exact ⟨c', ho, ⟨_, hv'⟩, C07.verify_sound _ _ hv'⟩

/-- **… and it is about the chunks the composed model EXECUTES** (`stored_chunks_wellformed`).
`storeChunk` runs the optimiser model on an encoding of its own (positions as payloads); the pass
commutes with any renaming of the payloads it does not look at (`optimize_rename`) and the typed
chunk that comes back prints, in the wire form of the dump hooks, as exactly
`optimize (toEntries enc code)` (`storeChunk_wire`).  So for every template the parser model
accepts and every chunk of it, the chunk stored in the environment — the one `Vm.render` runs —
has, in wire form, a table accepted by the verified checker `WellFormed.verify`, with the three
conclusions of `C07.verify_sound`, for ALL programs.  P3 is thereby proved up to the difference
between the two checkers: `Vm.checkChunk` additionally tracks "is a map / has a span / is a fine
slice bound" per stack slot and infers its own table. -/
theorem stored_chunks_wellformed (maxDepth : Nat) (toks : List Tok) (t : Template)
    (s : TParser.TState) (h : TParser.parse maxDepth toks = .ok t s) (enc : Compiler.Enc)
    (name : String) :
    ∃ c, Compiler.compileTemplate t = .ok c ∧ ∀ code ∈ c.chunks,
      ∃ ch, storeChunk name code = .ok ch ∧
        Optimize.optimize (Compiler.toEntries enc code) = .ok (wireChunk enc ch.code) ∧
        (∃ table, WellFormed.verify (wireChunk enc ch.code) table = true) ∧
        (∀ pc st, C07.Reach (wireChunk enc ch.code) pc st → ¬ C07.Panics (wireChunk enc ch.code) pc st) ∧
        (∀ pc st, C07.Reach (wireChunk enc ch.code) pc st → pc ≤ (wireChunk enc ch.code).length) ∧
        (∀ pc st, C07.Reach (wireChunk enc ch.code) pc st → (wireChunk enc ch.code).length ≤ pc →
          st = WellFormed.St.empty) := by
  obtain ⟨c, hc, hall⟩ := compiled_optimized_wellformed maxDepth toks t s h enc
  refine ⟨c, hc, ?_⟩
  intro code hcode
  obtain ⟨c', ho, hv, h1, h2, h3⟩ := hall code hcode
  obtain ⟨ch, hch⟩ := compiled_optimized_stored_partial t name c hc code hcode
  have hw := storeChunk_wire enc name code ch hch
  rw [hw] at ho
  simp only [Optimize.Outcome.ok.injEq] at ho
  subst ho
  exact ⟨ch, hch, hw, hv, h1, h2, h3⟩

/-- the compiler bridge `CompileVVerify` holds: p2_compiler's `C07CompileV.nodes_vverify` -/
theorem compileVVerify_holds : CompileVVerify :=
  fun ns hsc => C07CompileV.nodes_vverify ns hsc

/-- **P3 `compiled_optimized_checked` in certificate form — PROVED for all programs.**  For every
template the parser model accepts and every chunk of it (main, blocks, component bodies), the chunk
`storeChunk` stores — `optimize (compile …)`, typed — has a table accepted by p2_vm's value-level
checker `Vm.verify` (all of `checkChunk` except the two environment conjuncts, which are P4's
`buildEnv_prov`, and with the table GIVEN instead of inferred: `Vm.checkChunkT`).  Composition of
p2_compiler's `C07CompileV.nodes_vverify` (the typed compiled chunk has a table: per-slot
"is a map / has a span / is a fine slice bound" facts included) and bC_opt's
`C09WF.optimize_preserves_vverify` (optimize preserves the checker's acceptance) through the
positional decoder of `storeChunk` (Lemmas/PipelineVerify.lean).  What remains of the FULL
statement `compiled_optimized_checked_full` is only completeness of `Vm.infer`, the bounded
forward pass with which `checkChunk` finds a table by itself — no longer needed by any theorem
below (`render_never_panics_T` uses the certificate form). -/
theorem compiled_optimized_checked_T (maxDepth : Nat) (toks : List Tok) (t : Template)
    (s : TParser.TState) (h : TParser.parse maxDepth toks = .ok t s) (name : String) :
    ∃ c, Compiler.compileTemplate t = .ok c ∧ ∀ code ∈ c.chunks,
      ∃ ch, storeChunk name code = .ok ch ∧ ∃ table, Vm.verify ch.code table = true := by
  obtain ⟨h1, h2⟩ := TParser.parse_scoped maxDepth toks t s h
  obtain ⟨c, hc⟩ := compile_ok_of_scoped t h1 h2
  refine ⟨c, hc, ?_⟩
  intro code hcode
  obtain ⟨ns, rfl, hsc⟩ := chunks_scoped_nodes t h1 h2 c hc code hcode
  obtain ⟨ch, hch⟩ := storeChunk_nodes name ns
  obtain ⟨tcode, table, htc, hv⟩ := compileVVerify_holds ns hsc
  exact ⟨ch, hch, storeChunk_vverify name ns tcode table htc hv ch hch⟩

/-! ## P4 — registering never panics -/

/-- **P4 `add_never_panics`.**  For every configuration with validated delimiters
(`Delimiters::validate`, strings) and EVERY list of (name, valid UTF-8 source) — any sizes, any
nesting, duplicate names, dangling or cyclic `extends` / `include`, unknown filters — the composed
`addTemplates` (lex, filter, parse, compile main / blocks / components, optimise every chunk, derive
parents / lineage / component table / flags, validate references, build and check the VM
environment) returns
* an environment, or
* `Err(SyntaxError)` of the first template that does not parse, or
* an error VALUE of `finalize_templates` (missing parent, circular extend, circular include,
  message, template not found — never the model's `panic` / `outOfFuel`), or
* `unchecked` (a stored chunk refused by `Vm.checkChunk`; see P3),
never a panic outcome (no panic site of lexer.rs, parser.rs, compiler.rs, instructions.rs,
template.rs, tera.rs is reached), never `outOfFuel` — every fuel of the stage models is the stated
function of the input that the model itself computes: lexer `|src| + 1` passes, raw search
`|rest| + 1`, parser loops `remaining tokens + 1`, parser depth `MAX_RECURSION_DEPTH`,
optimiser `|chunk|`, `find_parents` `|templates| + 1`, include walk `|templates|` — and never
`internal` (the adapters find every chunk the derived data names). -/
theorem add_never_panics (cfg : Config) (hd : cfg.delims.accepted = true)
    (sources : List (String × Bytes)) (hv : ∀ p ∈ sources, valid p.2 = true) :
    (∃ env, addTemplates cfg sources = .ok env) ∨
    ∃ e, addTemplates cfg sources = .error e ∧ e.benign :=
  addTemplates_benign_of_build cfg hd sources hv
    (fun tds st hn hr => buildEnv_some cfg sources tds st hn hr)

/-- the same, spelled out per excluded outcome -/
theorem add_outcomes_excluded (cfg : Config) (hd : cfg.delims.accepted = true)
    (sources : List (String × Bytes)) (hv : ∀ p ∈ sources, valid p.2 = true) :
    (∀ site, addTemplates cfg sources ≠ .error (.panic site)) ∧
    addTemplates cfg sources ≠ .error .outOfFuel ∧
    (∀ w, addTemplates cfg sources ≠ .error (.internal w)) ∧
    addTemplates cfg sources ≠ .error (.registry .panic) ∧
    addTemplates cfg sources ≠ .error (.registry .outOfFuel) := by
  rcases add_never_panics cfg hd sources hv with ⟨env, h⟩ | ⟨e, h, hb⟩
  · rw [h]; simp
  · rw [h]
    refine ⟨?_, ?_, ?_, ?_, ?_⟩
    · intro site heq; cases heq; exact hb
    · intro heq; cases heq; exact hb
    · intro w heq; cases heq; exact hb
    · intro heq; cases heq; exact hb.1 rfl
    · intro heq; cases heq; exact hb.2 rfl

/-- the UTF-8 hypothesis is needed: a Rust `&str` cannot hold these bytes, the model's lexer does
reach `split_at` off a char boundary on them -/
example : (match front Generated.defaultDelims [0x7B, 0x7B, 0x2D, 0x80] with
    | .panic site => site == "lexer.rs:266 split_at"
    | _ => false) = true := by decide +kernel

/-! ## P5 — rendering never panics -/

/-- **P5 `render_never_panics`.**  For every environment `addTemplates` returns — whatever the
configuration and the sources were —, every template name and block name (registered or not),
every context and global context, EVERY fuel, `render` / `render_block` return text, an error
class, `unmodelled` (a built-in outside the model) or out-of-fuel: never a panic (no `Stack::pop` /
`peek` on an empty stack, no `expect("to have a span for error")`, no `into_map().expect`, no
`unreachable!`, no failing index into `tera.templates` / `filters` / `tests` / `functions` /
`template.components` / `state.blocks`).  Hypothesis: the built-in parameters of the configuration
do not panic (`BuiltinsNoPanic`; the models of C16 / C17 are proved total there).
The model-level statement of C07 for the whole engine: `EnvOK` is ESTABLISHED by `addTemplates`
(P4 gives the environment, its last stage checks every chunk), then `C07Vm.vm_render_no_panic`. -/
theorem render_never_panics (cfg : Config) (hb : BuiltinsNoPanic cfg.builtins)
    (sources : List (String × Bytes)) (env : Env) (h : addTemplates cfg sources = .ok env)
    (fuel : Fuel) (name : String) (block : Option String) (ctx globalCtx : Ctx) :
    ∀ site, Vm.render fuel env name block ctx globalCtx ≠ .panic site :=
  C07Vm.vm_render_no_panic env (addTemplates_envOK cfg hb sources env h) fuel name block ctx globalCtx

/-- source text in, outcome out: the whole engine never panics (P4 ∧ P5) -/
theorem engine_never_panics (cfg : Config) (hd : cfg.delims.accepted = true)
    (hb : BuiltinsNoPanic cfg.builtins) (sources : List (String × Bytes))
    (hv : ∀ p ∈ sources, valid p.2 = true) (fuel : Fuel) (name : String) (ctx : Ctx) :
    (∃ o, renderSources cfg sources fuel name ctx = .ok o ∧ ∀ site, o ≠ .panic site) ∨
    ∃ e, renderSources cfg sources fuel name ctx = .error e ∧ e.benign := by
  unfold renderSources
  rcases add_never_panics cfg hd sources hv with ⟨env, h⟩ | ⟨e, h, hbn⟩
  · rw [h]
    exact Or.inl ⟨_, rfl, render_never_panics cfg hb sources env h fuel name none ctx []⟩
  · rw [h]; exact Or.inr ⟨e, rfl, hbn⟩

/-- **`engine_never_panics_concrete`: no hypothesis on the built-ins that are modelled in Lean.**
With the built-in instance the driver runs (`BuiltinsM.model`, Model/PipelineBuiltins.lean: the
filters and tests of C17's `filterTable` / `testTable`, the functions `range` / `throw`, the
collection filters of C16 `length reverse first last nth join keys values pairs split sort unique
group_by`, the `containing` test of C15, and `safe`, `str` written out in the dispatch), for EVERY float printer and EVERY float arithmetic (the two
parameters that remain: `{:?}` of an f64 and the IEEE operations, total functions), every
configuration with validated delimiters, every batch of valid UTF-8 sources, every template name,
context and fuel: source text in, outcome out, never a panic.  `C17.builtins_never_panic`,
`range_never_panics`, `throw_contract` discharge `BuiltinsNoPanic`.  What stays outside the model
answers `unmodelled` (a non-panic outcome of the MODEL, about which the theorem says nothing for
the engine): `upper` / `lower` on text outside the small case-mapping table of
Model/PipelineBuiltins.lean (ASCII, Latin-1, a few blocks without cased letters), `capitalize` /
`title` on non-ASCII text, `float`, `int` of a text with a `.`, every built-in of C17's tables whose body is
`afterKw … unmodelled`, the functions `now` / `get_random` / `get_env` if registered, and custom
filters of the embedding application. -/
theorem engine_never_panics_concrete (d : Delims) (hd : d.accepted = true)
    (prefixes suffixes : List String) (reg : Reg.Registered) (fmt : F64 → List Char) (F : FloatOps)
    (sources : List (String × Bytes)) (hv : ∀ p ∈ sources, valid p.2 = true)
    (fuel : Fuel) (name : String) (ctx : Ctx) :
    let cfg : Config := { delims := d, prefixes := prefixes, suffixes := suffixes, reg := reg,
                          builtins := BuiltinsM.model fmt F }
    (∃ o, renderSources cfg sources fuel name ctx = .ok o ∧ ∀ site, o ≠ .panic site) ∨
    ∃ e, renderSources cfg sources fuel name ctx = .error e ∧ e.benign :=
  engine_never_panics _ hd (BuiltinsM.builtinsNoPanic_model fmt F) sources hv fuel name ctx

/-! ### the same WITHOUT the model's run of the checker (`addTemplatesT`, `renderSourcesT`) -/

/-- **`render_never_panics_T`**: for every environment `addTemplatesT` returns — the composed
pipeline with NO checker run — `render` / `render_block` never panic, for every name, block,
context and fuel.  `EnvOKT` (p2_vm: every chunk has SOME `Vm.verify` certificate, belongs to a
registered template, names only registered built-ins and components) holds BY THEOREM:
`parse_scoped` (bG1_parser) → `CompileVVerify` (p2_compiler: the typed form of every scoped
compiled node list has a `Vm.verify` table) → `storeChunk_vverify` (bC_opt: optimize preserves
the checker's acceptance, instantiated with the positional decoder) → `buildEnv_prov` /
`prov_names` (every chunk the registry's derived data puts into the environment is the stored
form of a scoped node list of a REGISTERED template whose call tables an accepting
`finalize_templates` checked against the registries and the component table:
`C07Compile.refs_complete`, `Reg.derive_refs_valid`).  Then `C07Vm.vm_render_no_panic_T`. -/
theorem render_never_panics_T (cfg : Config)
    (hb : BuiltinsNoPanic cfg.builtins) (sources : List (String × Bytes)) (env : Env)
    (h : addTemplatesT cfg sources = .ok env) (fuel : Fuel) (name : String)
    (block : Option String) (ctx globalCtx : Ctx) :
    ∀ site, Vm.render fuel env name block ctx globalCtx ≠ .panic site :=
  C07Vm.vm_render_no_panic_T env
    (addTemplatesT_envOKT compileVVerify_holds cfg hb sources env h) fuel name block ctx globalCtx

/-- **`engine_never_panics_T`**: source text in,
outcome out, with NO run of a checker anywhere in the model: for every configuration with validated
delimiters, every batch of valid UTF-8 sources, every template name, context and fuel,
`renderSourcesT` answers a non-panic outcome of the VM, `Err(SyntaxError)`, or an error VALUE of
`finalize_templates` — never `panic`, never `outOfFuel` at add time, never `internal`, and
`unchecked` does not exist in this pipeline.  Hypothesis left: the built-in parameters do not
panic (discharged for the Lean-side instance in `engine_never_panics_T_concrete`). -/
theorem engine_never_panics_T (cfg : Config)
    (hd : cfg.delims.accepted = true) (hb : BuiltinsNoPanic cfg.builtins)
    (sources : List (String × Bytes)) (hv : ∀ p ∈ sources, valid p.2 = true)
    (fuel : Fuel) (name : String) (ctx : Ctx) :
    (∃ o, renderSourcesT cfg sources fuel name ctx = .ok o ∧ ∀ site, o ≠ .panic site) ∨
    ∃ e, renderSourcesT cfg sources fuel name ctx = .error e ∧ e.value := by
  unfold renderSourcesT
  rcases addTemplatesT_total cfg hd sources hv with ⟨env, h⟩ | ⟨e, h, hval⟩
  · rw [h]
    exact Or.inl ⟨_, rfl, render_never_panics_T cfg hb sources env h fuel name none ctx []⟩
  · rw [h]; exact Or.inr ⟨e, rfl, hval⟩

/-- **`engine_never_panics_T_concrete`**: the same with the Lean-side built-in instance
(`BuiltinsM.model`): NO hypothesis left but validated delimiters and valid UTF-8 sources; the float
printer and the float arithmetic are arbitrary.  From source bytes to rendered text, through the
models of all six stages, no checker run, no panic. -/
theorem engine_never_panics_T_concrete (d : Delims) (hd : d.accepted = true)
    (prefixes suffixes : List String) (reg : Reg.Registered) (fmt : F64 → List Char) (F : FloatOps)
    (sources : List (String × Bytes)) (hv : ∀ p ∈ sources, valid p.2 = true)
    (fuel : Fuel) (name : String) (ctx : Ctx) :
    let cfg : Config := { delims := d, prefixes := prefixes, suffixes := suffixes, reg := reg,
                          builtins := BuiltinsM.model fmt F }
    (∃ o, renderSourcesT cfg sources fuel name ctx = .ok o ∧ ∀ site, o ≠ .panic site) ∨
    ∃ e, renderSourcesT cfg sources fuel name ctx = .error e ∧ e.value :=
  engine_never_panics_T _ hd (BuiltinsM.builtinsNoPanic_model fmt F) sources hv fuel name ctx

/-- the model's run of the checker is redundant: whenever `addTemplatesT` answers an environment,
`Vm.checkChunkT` holds of every chunk of it for SOME table — so `addTemplates` can answer
`unchecked` only if `Vm.infer` fails to find a table that exists -/
theorem add_checker_run_redundant (cfg : Config) (hb : BuiltinsNoPanic cfg.builtins)
    (sources : List (String × Bytes)) (env : Env) (h : addTemplatesT cfg sources = .ok env) :
    Vm.EnvOKT env :=
  addTemplatesT_envOKT compileVVerify_holds cfg hb sources env h

/-- the function the driver runs (and cpipe ties to the engine) is `addTemplatesT` followed by the
checker run: same environment whenever it answers one, and it answers one exactly when
`addTemplatesT` does and the inferred tables verify -/
theorem addTemplates_eq_T_then_validate (cfg : Config) (sources : List (String × Bytes)) :
    addTemplates cfg sources =
      match addTemplatesT cfg sources with
      | .error e => .error e
      | .ok env => validate env := by
  unfold addTemplates addTemplatesT
  cases newAll cfg.delims sources with
  | error e => rfl
  | ok tds =>
    simp only
    cases register cfg tds with
    | error e => rfl
    | ok st =>
      simp only
      cases buildEnv cfg tds st with
      | none => rfl
      | some env => rfl

/-- a nested `interpret` on an environment `addTemplates` returned leaves the caller's stacks as it
found them (`C07Vm.vm_stacks_restored` transported) -/
theorem render_stacks_restored (cfg : Config) (hb : BuiltinsNoPanic cfg.builtins)
    (sources : List (String × Bytes)) (env : Env) (h : addTemplates cfg sources = .ok env)
    (fuel : Fuel) (vm : Vm.VmCtx) (c : Vm.Chunk) (st st2 : Vm.State) (hg : Vm.Good env vm c st)
    (hrun : Vm.run fuel env vm c st = .done st2) :
    st2.stack = st.stack ∧ st2.captures.length = st.captures.length :=
  let r := C07Vm.vm_stacks_restored env (addTemplates_envOK cfg hb sources env h) fuel vm c st st2 hg hrun
  ⟨r.1, r.2.2.1⟩

/-- **References are checked at add time** (the second clause of C07, for the whole engine).  In
every environment `addTemplates` returns, every chunk `interpret` can be entered with — every main
chunk, every chunk of every block lineage, every component of the instance-wide table — belongs to
a registered template (`report_target` finds it), and every filter, test, function (other than
`super`) and component it names is registered: the indexings `tera.filters[name]`,
`tera.tests[name]`, `tera.functions[name]`, `template.components[name]` of the interpreter cannot
fail at render time.  (Established by the last stage of `addTemplates`, which checks every chunk;
that an unknown name is REFUSED with an error value rather than accepted is
`C07Refs.rejected_iff_unknown_reference` of the registry stage, composed in P4.) -/
theorem add_references_checked (cfg : Config) (sources : List (String × Bytes)) (env : Env)
    (h : addTemplates cfg sources = .ok env) :
    ∀ p ∈ allChunks env,
      (env.template p.2.name).isSome = true ∧ ∀ e ∈ p.2.code, Vm.namesOk env e.1 = true := by
  obtain ⟨hnone, _⟩ := addTemplates_ok_inv cfg sources env h
  intro p hp
  have hc := all_checked hnone p hp
  unfold Vm.checkChunk at hc
  simp only [Bool.and_eq_true, List.all_eq_true] at hc
  exact ⟨hc.1.1, hc.1.2⟩

/-! ## P6 — the output is valid UTF-8 -/

/-- **P6 `render_output_utf8`.**  Whatever `render` / `render_block` return for an environment of
the composed model is text whose UTF-8 encoding is valid and decodes back to it: the
`String::from_utf8(output)?` at the end of `Tera::render` cannot fail. -/
theorem render_output_utf8 (fuel : Fuel) (env : Env) (name : String) (block : Option String)
    (ctx globalCtx : Ctx) (text : List Char)
    (h : Vm.render fuel env name block ctx globalCtx = .ok text) :
    Escape.utf8Valid (Wire.utf8Encode text) = true ∧
    Contrib.utf8Decode (Wire.utf8Encode text) = some text :=
  C07Vm.vm_output_valid_utf8 fuel env name block ctx globalCtx text h

/-! ## the hypotheses are satisfiable, and the model computes (spot checks; cpipe runs the model
on every generated and repo template) -/

example : Generated.defaultDelims.accepted = true := by decide
/-- `a{{ 1 }}` from source bytes to the stored chunk `WriteText "a"; LoadConst 1; WriteTop` -/
example : (match newTemplate Generated.defaultDelims "t" [0x61, 0x7B, 0x7B, 0x20, 0x31, 0x20, 0x7D, 0x7D] with
    | .ok td => td.main.code.length == 3 && td.blocks.isEmpty
    | _ => false) = true := by decide +kernel

end Tera.Pipeline
