/-
`RefineE2E.single_source_no_parents` PROVED, and the two source-level theorems of
Props/RefineE2E.lean without their `parents = []` hypothesis.

A source without `{% extends %}` is filed without parents: `summaryOf` passes the parsed `parent`
to the registry, `Reg.derive`'s `find_parents` of a template without parent is the empty list
(Lemmas/Lineage.lean `loop1_parents` via `RegCongr.loop1_lookup`), `commitAll` stores that list and
the adapter `buildEnv` copies it into the VM's table, include aliases included
(Lemmas/PipelineParents.lean).  For a batch: when NO source of the batch has `extends`.
-/
import TeraModel.Props.RefineE2E
import TeraModel.Lemmas.PipelineParents
namespace Tera.RefineE2E
open Tera Tera.Vm Tera.Compiler Tera.Refine

/-- **`single_source_no_parents` holds.** -/
theorem single_source_no_parents_holds : single_source_no_parents := by
  intro cfg name src t env hf hpar hadd tpl htpl
  exact Pipeline.single_source_parents_nil cfg name src t env hf hpar hadd name tpl htpl

/-- a batch in which no source has `{% extends %}`: every template the VM can look up (include
aliases too) has `parents = []` -/
theorem batch_without_extends_no_parents (cfg : Pipeline.Config) (sources : List (String × Tera.Bytes))
    (env : Pipeline.Env) (hadd : Pipeline.addTemplatesT cfg sources = .ok env)
    (hp : ∀ p ∈ sources, ∀ t, Pipeline.front cfg.delims p.2 = .ok t → t.parent = none) :
    ∀ n tpl, env.template n = some tpl → tpl.parents = [] :=
  Pipeline.batch_parents_nil cfg sources env hadd hp

/-- **`source_to_output_semantics` from the source alone**: the hypothesis `tpl.parents = []` of
`source_to_output_semantics` replaced by `t.parent = none` — a fact about the parsed source (no
`{% extends %}`), which the domain of the evaluator requires anyway. -/
theorem source_to_output_semantics' (cfg : Pipeline.Config) (name : String) (src : Tera.Bytes)
    (t : Template) (env : Pipeline.Env) (hf : Pipeline.front cfg.delims src = .ok t)
    (hadd : Pipeline.addTemplatesT cfg [(name, src)] = .ok env)
    (hcheck : nodesInCore [] false t.nodes = true) (hnoext : t.parent = none) (tpl : TemplateInfo)
    (htpl : env.template name = some tpl)
    (eenv : Tera.Env) (hE : EnvRel env eenv) (hB : BuiltinsRel env eenv)
    (he : eenv.template name = some ⟨t.nodes, tpl.autoescape⟩) (ctx : Ctx) (fuel : Nat) :
    (∀ text, Tera.render fuel eenv name ctx [] = .ok text →
      ∃ N, ∀ steps depth, N ≤ steps →
        Pipeline.renderSourcesT cfg [(name, src)] ⟨depth + 1, steps⟩ name ctx = .ok (.ok text))
    ∧ (∀ err, Tera.render fuel eenv name ctx [] = .error err → reportable err = true →
      ∃ N, ∀ steps depth, N ≤ steps → ∃ re, errMatch err re = true ∧
        Pipeline.renderSourcesT cfg [(name, src)] ⟨depth + 1, steps⟩ name ctx = .ok (.err re)) :=
  source_to_output_semantics cfg name src t env hf hadd hcheck tpl htpl
    (single_source_no_parents_holds cfg name src t env hf hnoext hadd tpl htpl)
    eenv hE hB he ctx fuel

/-- **`source_to_output_includes` for a batch without `extends`**: the hypothesis on the filed
parents replaced by "no source of the batch has `{% extends %}`". -/
theorem source_to_output_includes' (cfg : Pipeline.Config) (sources : List (String × Tera.Bytes))
    (env : Pipeline.Env) (hadd : Pipeline.addTemplatesT cfg sources = .ok env)
    (hnoext : ∀ p ∈ sources, ∀ t, Pipeline.front cfg.delims p.2 = .ok t → t.parent = none)
    (eenv : Tera.Env) (hE : EnvRel env eenv) (hB : BuiltinsRel env eenv) (incs : List String)
    (hS : SourcesRel cfg sources env eenv incs) (name : String) (hname : name ∈ incs)
    (et : TemplateDef) (he : eenv.template name = some et) (ctx : Ctx) (fuel : Nat) :
    (∀ text, Tera.render fuel eenv name ctx [] = .ok text →
      ∃ N D, ∀ steps depth, N ≤ steps → D ≤ depth →
        Pipeline.renderSourcesT cfg sources ⟨depth + 1, steps⟩ name ctx = .ok (.ok text))
    ∧ (∀ err, Tera.render fuel eenv name ctx [] = .error err → reportable err = true →
      ∃ N D, ∀ steps depth, N ≤ steps → D ≤ depth → ∃ re, errMatch err re = true ∧
        Pipeline.renderSourcesT cfg sources ⟨depth + 1, steps⟩ name ctx = .ok (.err re)) :=
  source_to_output_includes cfg sources env hadd eenv hE hB incs hS name hname et he
    (fun tpl htpl => batch_without_extends_no_parents cfg sources env hadd hnoext name tpl htpl)
    ctx fuel

end Tera.RefineE2E
