/-
C04 on the evaluator — inheritance as resolved by Model/EvalInherit.lean (extends / blocks /
super() / render_block), run by the evaluator of Model/Eval.lean.  Tied to the engine by
harness/src/bin/c04e.rs (render and render_block of generated template families against the real
engine, plus a reference renderer written from the documentation).
-/
import TeraModel.Model.EvalInherit
import TeraModel.Props.C03
namespace Tera.C04Eval
open Tera

/-! ## lineage: the most derived definition first, `super()` walks up -/

/-- The nearest template of the chain that defines the block provides the block's content … -/
theorem lineage_most_derived_first (S : RawSet) (n : String) (rest : List String) (b : String)
    (body : List Node) (h : (S.get n).bind (fun t => Node.findBlockIn b t.nodes) = some body) :
    (lineage S (n :: rest) b).head? = some body := by
  unfold lineage
  rw [definers, h]
  cases hs : Node.anyCallsSuper body <;> simp [hs, cutAfterNoSuper]

/-- … templates of the chain that do not define it are skipped … -/
theorem lineage_skips_non_definers (S : RawSet) (n : String) (rest : List String) (b : String)
    (h : (S.get n).bind (fun t => Node.findBlockIn b t.nodes) = none) :
    lineage S (n :: rest) b = lineage S rest b := by
  unfold lineage
  rw [definers, h]

/-- … a definition that does not call `super()` ends the lineage (nothing above it is reachable) … -/
theorem lineage_stops_without_super (S : RawSet) (n : String) (rest : List String) (b : String)
    (body : List Node) (h : (S.get n).bind (fun t => Node.findBlockIn b t.nodes) = some body)
    (hs : Node.anyCallsSuper body = false) :
    lineage S (n :: rest) b = [body] := by
  unfold lineage
  rw [definers, h]
  simp [hs, cutAfterNoSuper]

/-- … and one that does is followed by the lineage of the rest of the chain. -/
theorem lineage_continues_with_super (S : RawSet) (n : String) (rest : List String) (b : String)
    (body : List Node) (h : (S.get n).bind (fun t => Node.findBlockIn b t.nodes) = some body)
    (hs : Node.anyCallsSuper body = true) :
    lineage S (n :: rest) b = body :: lineage S rest b := by
  unfold lineage
  rw [definers, h]
  simp [hs, cutAfterNoSuper]

/-- `super_walks_up`: inside block `b` at level `k` of its lineage, `{{ super() }}` is resolved to
the statements of level `k + 1` (themselves resolved at level `k + 1`, so a `super()` in there
reaches level `k + 2`), and `{% set x = super() %}` to the set block of those statements; when
there is no level `k + 1`, or outside any block, it is a render error. -/
theorem super_walks_up (lin : String → List (List Node)) (target : Option String) (fuel : Nat)
    (b : String) (k : Nat) (x : String) (g : Bool) :
    (∀ body, (lin b)[k + 1]? = some body →
      flattenNode lin target (fuel + 1) (some (b, k)) (.expression (.functionCall "super" []))
        = flattenNodes lin target fuel (some (b, k + 1)) body
      ∧ flattenNode lin target (fuel + 1) (some (b, k)) (.set x (.functionCall "super" []) g)
        = [.blockSet x [] (flattenNodes lin target fuel (some (b, k + 1)) body) g])
    ∧ ((lin b)[k + 1]? = none →
      flattenNode lin target (fuel + 1) (some (b, k)) (.expression (.functionCall "super" []))
        = [superErrorNode])
    ∧ flattenNode lin target (fuel + 1) none (.expression (.functionCall "super" [])) = [superErrorNode] := by
  refine ⟨?_, ?_, ?_⟩
  · intro body h
    constructor <;> simp [flattenNode, h]
  · intro h
    simp [flattenNode, h]
  · simp [flattenNode]

/-- A block statement is replaced by the most derived definition of the block (level 0 of its
lineage), whatever body the statement itself carries. -/
theorem block_renders_lineage_head (lin : String → List (List Node)) (fuel : Nat)
    (cur : Option (String × Nat)) (name : String) (body top : List Node) (rest : List (List Node))
    (h : lin name = top :: rest) :
    flattenNode lin none (fuel + 1) cur (.block name body)
      = flattenNodes lin none fuel (some (name, 0)) top := by
  simp [flattenNode, h]

/-! ## render_block -/

/-- `render_block_exact`: for `render_block(T, b)` the block is run through
`{% set __tera_block_buffer %}…{% endset %}`; that statement writes nothing and binds the buffer to
exactly the text `st'.out` the block's statements write when run from the same scope — the very
text that, by `C03.output_routing`, they append to the output in the full render — and leaves the
scope the block's statements produce.  (`renderBlock` returns that variable.) -/
theorem render_block_exact (fuel : Nat) (env : Env) (ae : Bool) (st : St) (inner : List Node) :
    execNode (fuel + 2) env ae st (.blockSet BLOCK_BUFFER [] inner false)
      = match execNodes (fuel + 1) env ae ⟨st.scope, [], []⟩ inner with
        | .error e => .error e
        | .ok (st', .normal) =>
          .ok ((⟨st'.scope, st.out, st.captures⟩ : St).store BLOCK_BUFFER (.str true st'.out) false, .normal)
        | .ok (_, _) => .error (.unsupported "break/continue across a capture") := by
  rw [C03.capture_exact]
  cases execNodes (fuel + 1) env ae ⟨st.scope, [], []⟩ inner with
  | error e => rfl
  | ok p =>
    obtain ⟨st', sig⟩ := p
    cases sig <;> simp [applyFilters]

/-- … and the wrapper is what the pre-pass puts around the requested block, and only around it. -/
theorem render_block_wraps_target (lin : String → List (List Node)) (fuel : Nat)
    (cur : Option (String × Nat)) (name other : String) (body top : List Node)
    (rest : List (List Node)) (h : lin name = top :: rest) (hne : other ≠ name) :
    flattenNode lin (some name) (fuel + 1) cur (.block name body)
      = [.blockSet BLOCK_BUFFER [] (flattenNodes lin (some name) fuel (some (name, 0)) top) false]
    ∧ flattenNode lin (some other) (fuel + 1) cur (.block name body)
      = flattenNodes lin (some other) fuel (some (name, 0)) top := by
  constructor
  · simp [flattenNode, h]
  · have : ((some other : Option String) == some name) = false := by simpa using hne
    simp [flattenNode, h, this]

end Tera.C04Eval
