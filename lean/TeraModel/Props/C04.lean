/-
C04 — Inheritance: blocks resolve to the most-derived override and super() walks up.

Property theorems only (helper lemmas: Lemmas/Lineage.lean, Lemmas/Lineage2.lean,
Lemmas/RegCongr.lean).  Statements are about the model of `finalize_templates`
(Model/Finalize.lean: `derive`, with the `HashMap` iteration orders `o2`, `o3` as parameters) and
the specification in Spec/Inherit.lean (`chainOf`, `definers`, `lineageSpec`).  The correspondence
harness (harness/src/bin/c04.rs) ties both to tera/src/tera.rs and to real renders on every run.
-/
import TeraModel.Lemmas.RegCongr
namespace Tera.C04
open Tera.Reg

/-- **Lineage = specification, for every iteration order.**  If `finalize_templates` accepts a set,
then for every registered template `T` (chains of any length) and every block name `b` (nested
blocks and blocks a child introduces inside an overridden block included) the lineage it stores is:
nothing when no template of `T`'s chain defines `b`, otherwise the definers of `b` along the chain
`T, parent, grand-parent, …` cut after the first whose definition does not call `super()` —
whatever the iteration orders `o2`, `o3` of the two `HashMap` loops were.  `parents` is what
`find_parents` returned for `T` (characterised by the C11 theorems). -/
theorem C04_lineage_eq_spec (ps : List String) (S : List Tpl) (o2 o3 : List String) (d : Derived)
    (h : derive ps S o2 o3 = .ok d)
    (ho2 : ∀ k, has S k = true → k ∈ o2) (ho3 : ∀ k, has S k = true → k ∈ o3)
    (T : String) (hT : has S T = true) (b : String) :
    ∃ t parents, get S T = some t ∧ findParents ps S t = .ok parents ∧
      lookupParents d.parents T = some parents ∧
      LB d.lineage T b = lineageSpec S (chainOf T parents) b := by
  obtain ⟨hPO, hl⟩ := derive_lineage ps S o2 o3 d h ho2 ho3 T hT b
  obtain ⟨t, p, hg, hp, hf⟩ := hPO T hT
  refine ⟨t, p, hg, hf, hp, ?_⟩
  rw [hl]
  simp [SpecL, hp]

/-- **Registration order does not matter.**  Two lists holding the same templates (the same map
from names to templates, e.g. the same batch in another order), finalized with any iteration
orders, store the same lineage for every block of every template. -/
theorem C04_registration_order_independent (ps : List String) (S S' : List Tpl) (hsame : SameMap S S')
    (o2 o3 o2' o3' : List String) (d d' : Derived)
    (h : derive ps S o2 o3 = .ok d) (h' : derive ps S' o2' o3' = .ok d')
    (ho2 : ∀ k, has S k = true → k ∈ o2) (ho3 : ∀ k, has S k = true → k ∈ o3)
    (ho2' : ∀ k, has S' k = true → k ∈ o2') (ho3' : ∀ k, has S' k = true → k ∈ o3')
    (T : String) (hT : has S T = true) (b : String) :
    LB d.lineage T b = LB d'.lineage T b ∧ lookupParents d.parents T = lookupParents d'.parents T :=
  lineage_order_independent ps S S' hsame o2 o3 o2' o3' d d' h h' ho2 ho3 ho2' ho3' T hT b

/-- **Most-derived override.**  When `T` itself defines `b`, the lineage starts with `T`. -/
theorem C04_most_derived_first (S : List Tpl) (T : String) (parents : List String) (b : String)
    (s : Bool) (hd : definesBlock S T b = some s) :
    ∃ rest, lineageSpec S (chainOf T parents) b = some (T :: rest) := by
  unfold chainOf
  rw [lineageSpec_cons_def _ hd]
  cases s <;> simp [cutAfterNoSuper]

/-- **Inherited blocks.**  When `T` does not define `b`, its lineage is that of its chain without
`T` (the nearest ancestor that defines it decides; ancestors that do not define it are skipped). -/
theorem C04_inherits_from_nearest (S : List Tpl) (T : String) (parents : List String) (b : String)
    (hd : definesBlock S T b = none) :
    lineageSpec S (chainOf T parents) b = lineageSpec S parents.reverse b := by
  unfold chainOf
  exact lineageSpec_cons_nodef _ hd

/-- **`super()` walks up and stops.**  Each template in a lineage except the last calls `super()`
in its definition of the block, so `super()` at level `i` has a level `i + 1` to run (the next
definer up the chain, skipping templates that do not define the block); and every template after
the first in the lineage is reached only through such a call. -/
theorem C04_lineage_super_links (l : List (String × Bool)) :
    ∀ i, i + 1 < (cutAfterNoSuper l).length →
      ∃ n, l[i]? = some (n, true) ∧ (cutAfterNoSuper l)[i]? = some n := by
  induction l with
  | nil => intro i h; simp [cutAfterNoSuper] at h
  | cons e l ih =>
    obtain ⟨n, s⟩ := e
    cases s with
    | false => intro i h; simp [cutAfterNoSuper] at h
    | true =>
      intro i h
      simp only [cutAfterNoSuper, List.length_cons] at h
      cases i with
      | zero => exact ⟨n, by simp, by simp [cutAfterNoSuper]⟩
      | succ j =>
        obtain ⟨m, h1, h2⟩ := ih j (by omega)
        exact ⟨m, by simpa using h1, by simpa [cutAfterNoSuper] using h2⟩

/-- **Orphan blocks are rejected.**  If a template with at least one parent defines a top-level
block that none of its ancestors defines (at any nesting depth), `finalize_templates` fails for
every iteration order. -/
theorem C04_orphan_block_rejected (ps : List String) (S : List Tpl) (o2 o3 : List String)
    (ho2 : ∀ k, has S k = true → k ∈ o2)
    (t : Tpl) (ht : get S t.name = some t) (parents : List String)
    (hp : findParents ps S t = .ok parents) (hne : parents ≠ [])
    (blk : BlockDef) (hblk : blk ∈ t.blocks) (htop : blk.nestedIn = none)
    (horph : ∀ p ∈ parents, ∀ pt, get S p = some pt → pt.hasBlock blk.name = false) :
    ∀ d, derive ps S o2 o3 ≠ .ok d := by
  intro d h
  have hT : has S t.name = true := has_iff_get.mpr ⟨t, ht⟩
  obtain ⟨l1, tb, tb', h1, h2, _, _⟩ := derive_parts h
  have hlook : lookupParents l1.parents t.name = some parents := by
    rw [loop1_lookup h1]
    have : t.name ∈ sortDedup (keys S) := (mem_sortDedup _ _).mpr (has_mem_keys hT)
    simp [this, parentsOf, ht, hp]
  have := loop2_bad ps S l1 o2 tb false h2 t.name (ho2 _ hT) t parents ht hlook
    (by rw [hasOrphanBlock_true hne hblk htop horph]; simp)
  cases this

/-! ## The hypotheses are satisfiable: a three-level chain -/

/-- base defines `x` containing `y`; mid overrides `y` calling `super()`; leaf overrides `x`
(calling `super()`) and introduces `z` inside it. -/
def demo : List Tpl :=
  [ { name := "base", parent := none, srcLen := 10, badRefs := false, topIncludes := [], comps := [], compCalls := [],
      blocks := [⟨"x", false, none, []⟩, ⟨"y", false, some "x", []⟩] },
    { name := "mid", parent := some "base", srcLen := 10, badRefs := false, topIncludes := [], comps := [], compCalls := [],
      blocks := [⟨"y", true, none, []⟩] },
    { name := "leaf", parent := some "mid", srcLen := 10, badRefs := false, topIncludes := [], comps := [], compCalls := [],
      blocks := [⟨"x", true, none, []⟩, ⟨"z", false, some "x", []⟩] } ]

example : (derive [] demo ["base", "mid", "leaf"] ["leaf", "base", "mid"]).toOption.map (fun d => LB d.lineage "leaf" "x")
    = some (some ["leaf", "base"]) := by decide
example : (derive [] demo ["leaf", "mid", "base"] ["mid", "leaf", "base"]).toOption.map (fun d => LB d.lineage "leaf" "y")
    = some (some ["mid", "base"]) := by decide
example : lineageSpec demo (chainOf "leaf" ["base", "mid"]) "z" = some ["leaf"] := by decide

end Tera.C04
