/-
C05 on the REAL VM model — components: arguments checked and bound, scope isolated, recursion
bounded.

Props/C05.lean proves the binding rules on `Component.buildContext`, isolation on the abstract
SafeFlow machine and the recursion bound on an abstract node tree.  Here the same clauses are
proved of the value-level VM of Model/Vm.lean (`step` on `RenderInlineComponent` /
`RenderBodyComponent` = the `component!` macro and `render_component` of
tera/src/vm/interpreter.rs), i.e. for EVERY bytecode listing, environment, caller state and fuel
(`cvm` ties Model/Vm.lean to the engine by executing the real stored listings).

Property theorems only; helper lemmas: Lemmas/VmComponent.lean.

What the VM model cannot carry, and stays with Props/C05.lean + harness/src/bin/c05.rs: type
declaration / inference at parse time, the priority table of `finalize_templates`, the API entry
point `Tera::render_component`.
-/
import TeraModel.Lemmas.VmComponent
import TeraModel.Lemmas.VmEscapeSink
import TeraModel.Props.C05
namespace Tera.C05Vm
open Tera Tera.Vm

/-! ## The call, end to end -/

/-- **`vm_component_call`.**  A component call of the REAL `step` that continues went through, in
this order: the kwargs slot holds a map; the component is found (instance-wide table, else the
template's own); the body slot is popped when the call has a body (and marked Safe);
`build_context` accepted the arguments; the depth was within the limit; `interpret` ran the
component's chunk, one level deeper, on a FRESH state holding only the bound context
(`componentState`); and the caller's state is what it was except that the operands are popped and
the nested output, minted Safe, is pushed. -/
theorem vm_component_call (rec : VmCtx → Chunk → State → RunRes) (env : Env) (vm : VmCtx) (c : Chunk)
    (n : String) (hasBody : Bool) (spans : List Span) (pc pc' : Nat) (st st' : State)
    (h : step rec env vm c (.renderComponent n hasBody, spans) pc st = .next pc' st') :
    ∃ (es : Entries) (ks : SpanRange) (rest rest' : List Slot) (cdef : Component.Def) (cchunk : Chunk)
      (body : Option Value) (bound : List (String × Value)) (stn : State),
      st.stack = (.map es, ks) :: rest ∧
      findComponent env vm n = some (cdef, cchunk) ∧
      popBody hasBody rest = some (body, rest') ∧
      Component.buildContext cdef es body = .ok bound ∧
      vm.depth + 1 ≤ MAX_COMPONENT_RECURSION_DEPTH ∧
      rec { vm with depth := vm.depth + 1 } cchunk (componentState bound) = .done stn ∧
      pc' = pc + 1 ∧
      st' = { st with stack := (.str true stn.out, (pc, pc)) :: rest' } ∧
      rest' = st.stack.drop (compPops hasBody) :=
  component_shape n hasBody h

/-! ## (1) Scope isolated -/

/-- **`vm_component_isolated`, inwards.**  What a component call does depends on the caller only
through its operand slots: two caller states — any scopes, loop variables, set variables,
contexts, capture buffers, outputs, block stacks, any values deeper on the stack — whose kwargs
slot (and body slot, for a call with a body) hold the same values get the same outcome from the
REAL `step`: the same result value pushed (`SameOutcome`), or the same error class, or the same
panic site.  Nothing else of the caller can influence the component. -/
theorem vm_component_isolated (rec : VmCtx → Chunk → State → RunRes) (env : Env) (vm : VmCtx)
    (c : Chunk) (n : String) (hasBody : Bool) (spans : List Span) (pc : Nat) (st1 st2 : State)
    (hops : compOperands hasBody st1.stack = compOperands hasBody st2.stack) :
    SameOutcome hasBody st1 st2 (step rec env vm c (.renderComponent n hasBody, spans) pc st1)
      (step rec env vm c (.renderComponent n hasBody, spans) pc st2) :=
  stepComponent_isolated n hasBody st1 st2 hops

/-- **`vm_component_isolated`, outwards: nothing leaks out.**  After the call the caller's scope —
loops, set variables (a `{% set %}` inside the component is not visible afterwards), includer
chain, context, global context — its capture buffers, output, block buffer and block stack are
exactly what they were; the stack lost the operands and gained the result. -/
theorem vm_component_no_leak (rec : VmCtx → Chunk → State → RunRes) (env : Env) (vm : VmCtx)
    (c : Chunk) (n : String) (hasBody : Bool) (spans : List Span) (pc pc' : Nat) (st st' : State)
    (h : step rec env vm c (.renderComponent n hasBody, spans) pc st = .next pc' st') :
    st'.scope = st.scope ∧ st'.captures = st.captures ∧ st'.out = st.out ∧
    st'.blockBuffer = st.blockBuffer ∧ st'.blocks = st.blocks ∧
    st'.captureBlock = st.captureBlock ∧ st'.currentBlockName = st.currentBlockName ∧
    ∃ text sp, st'.stack = (.str true text, sp) :: st.stack.drop (compPops hasBody) := by
  obtain ⟨es, ks, rest, rest', cdef, cchunk, body, bound, stn, _, _, _, _, _, _, _, rfl, hr⟩ :=
    component_shape n hasBody h
  exact ⟨rfl, rfl, rfl, rfl, rfl, rfl, rfl, stn.out, (pc, pc), by rw [hr]⟩

/-- **`vm_component_sees_only_bound`.**  In the state the component's chunk is entered with, a
name resolves to the bound context and to NOTHING else: the state has no loops, no set
variables, no includer and no global context ("neither the caller's variables nor the global
context"), an empty stack, no capture buffer, an empty output. -/
theorem vm_component_sees_only_bound (bound : List (String × Value)) (n : String) :
    (componentState bound).scope.getValue n = ((ctxOfList bound).get n).getD .undef ∧
    (componentState bound).stack = [] ∧ (componentState bound).captures = [] ∧
    (componentState bound).out = [] ∧ (componentState bound).blocks = [] ∧
    (componentState bound).scope.forLoops = [] ∧ (componentState bound).scope.setVariables = [] ∧
    (componentState bound).scope.includeParent = none ∧
    (componentState bound).scope.globalContext = none :=
  ⟨component_scope_lookup bound n, component_state_fresh bound⟩

/-! ## (3) Arguments checked and bound -/

/-- **`vm_component_args_checked`.**  Composition with the binding theorem of Props/C05.lean
(`C05_binding`): a call of the REAL `step` that runs the component's body at all has passed
`build_context`, so none of the three error conditions holds of the call's kwargs map (no
undeclared argument without a rest parameter, no missing required argument, no value mismatching
its declared / inferred type), and the context the body starts with is EXACTLY the prescribed
one — each declared parameter bound to the supplied value, else its default; the rest map; `body`
for a call with a body; nothing else — which is all the body can see
(`vm_component_sees_only_bound`). -/
theorem vm_component_args_checked (rec : VmCtx → Chunk → State → RunRes) (env : Env) (vm : VmCtx)
    (c : Chunk) (n : String) (hasBody : Bool) (spans : List Span) (pc pc' : Nat) (st st' : State)
    (h : step rec env vm c (.renderComponent n hasBody, spans) pc st = .next pc' st') :
    ∃ (es : Entries) (cdef : Component.Def) (cchunk : Chunk) (body : Option Value) (stn : State),
      (∃ ks rest, st.stack = (.map es, ks) :: rest) ∧
      findComponent env vm n = some (cdef, cchunk) ∧
      (¬ Component.HasUnknown cdef es ∧ ¬ Component.HasMissing cdef es ∧
        ¬ Component.HasMismatch cdef es) ∧
      rec { vm with depth := vm.depth + 1 } cchunk
        (componentState (Component.prescribed cdef es body)) = .done stn ∧
      (∀ x, (componentState (Component.prescribed cdef es body)).scope.getValue x
        = ((ctxOfList (Component.prescribed cdef es body)).get x).getD .undef) ∧
      (hasBody = false → body = none) ∧
      (hasBody = true → ∃ b sp rest2, st.stack.drop 1 = (b, sp) :: rest2 ∧ body = some b.markSafe) := by
  obtain ⟨es, ks, rest, rest', cdef, cchunk, body, bound, stn, hs, hfc, hpb, hbc, _, hr, _, _, _⟩ :=
    component_shape n hasBody h
  obtain ⟨hok, hbound⟩ := (C05.C05_binding cdef es body bound).1 hbc
  subst hbound
  refine ⟨es, cdef, cchunk, body, stn, ⟨ks, rest, hs⟩, hfc, hok, hr,
    fun x => component_scope_lookup _ x, ?_, ?_⟩
  · intro hb
    subst hb
    simp only [popBody, Bool.false_eq_true, ↓reduceIte, Option.some.injEq, Prod.mk.injEq] at hpb
    exact hpb.1.symm
  · intro hb
    subst hb
    simp only [popBody, ↓reduceIte] at hpb
    split at hpb
    · cases hpb
    · rename_i b sp rest2
      simp only [Option.some.injEq, Prod.mk.injEq] at hpb
      exact ⟨b, sp, rest2, by rw [hs]; rfl, hpb.1.symm⟩

/-- **Bad arguments are rejected before the body runs.**  When `build_context` refuses the
arguments — exactly when one of the three conditions holds (`C05_binding_errors`) — the REAL
`step` reports the rendering error (class `componentBinding`; or the span panic of
`rendering_error!` on a listing without a span, which the bytecode checker excludes) WITHOUT
consulting `interpret`: the result is the same whatever `rec` is. -/
theorem vm_component_bad_args_rejected (rec1 rec2 : VmCtx → Chunk → State → RunRes) (env : Env)
    (vm : VmCtx) (c : Chunk) (n : String) (hasBody : Bool) (spans : List Span) (pc : Nat) (st : State)
    (es : Entries) (ks : SpanRange) (rest rest' : List Slot) (cdef : Component.Def) (cchunk : Chunk)
    (body : Option Value) (hs : st.stack = (.map es, ks) :: rest)
    (hfc : findComponent env vm n = some (cdef, cchunk)) (hpb : popBody hasBody rest = some (body, rest'))
    (hbad : Component.HasUnknown cdef es ∨ Component.HasMissing cdef es ∨ Component.HasMismatch cdef es) :
    step rec1 env vm c (.renderComponent n hasBody, spans) pc st
      = renderingError env vm c (pc, pc) .componentBinding ∧
    step rec2 env vm c (.renderComponent n hasBody, spans) pc st
      = renderingError env vm c (pc, pc) .componentBinding := by
  obtain ⟨e, he⟩ := ((C05.C05_binding_errors cdef es body).1).2 hbad
  constructor <;> simp only [step, stepComponent, hs, hfc, hpb, he]

/-! ## (2) Recursion bounded -/

/-- **`vm_component_recursion_error`.**  At the limit a component call — valid operands, component
found, arguments accepted — returns the error "Maximum render recursion depth for components
exceeded" without consulting `interpret`: the same result whatever `rec` is.  The limit is the
constant the translator extracts from the source (`Generated.MAX_COMPONENT_RECURSION_DEPTH`). -/
theorem vm_component_recursion_error (rec : VmCtx → Chunk → State → RunRes) (env : Env)
    (vm : VmCtx) (c : Chunk) (n : String) (hasBody : Bool) (spans : List Span) (pc : Nat) (st : State)
    (es : Entries) (ks : SpanRange) (rest rest' : List Slot) (cdef : Component.Def) (cchunk : Chunk)
    (body : Option Value) (bound : List (String × Value)) (hs : st.stack = (.map es, ks) :: rest)
    (hfc : findComponent env vm n = some (cdef, cchunk)) (hpb : popBody hasBody rest = some (body, rest'))
    (hbc : Component.buildContext cdef es body = .ok bound)
    (hd : vm.depth + 1 > Generated.MAX_COMPONENT_RECURSION_DEPTH) :
    step rec env vm c (.renderComponent n hasBody, spans) pc st = .err .recursionLimit := by
  have hd' : vm.depth + 1 > MAX_COMPONENT_RECURSION_DEPTH := hd
  simp only [step, stepComponent, hs, hfc, hpb, hbc, hd', ↓reduceIte]

/-- **`vm_component_depth_bounded`, one turn.**  Every `interpret` a turn of the REAL `step` makes
runs at the caller's depth (`Include` carries the counter; blocks and `super()` stay in the same
VM) or one level deeper (a component call, and only when that is within the limit): at depth ≤
limit the turn never consults `interpret` above the limit — it computes the same result for any
two `rec` that agree up to the limit. -/
theorem vm_component_depth_bounded_step (rec1 rec2 : VmCtx → Chunk → State → RunRes) (env : Env)
    (vm : VmCtx) (c : Chunk) (e : VEntry) (pc : Nat) (st : State)
    (h12 : ∀ vm' c' st', vm'.depth ≤ Generated.MAX_COMPONENT_RECURSION_DEPTH →
      rec1 vm' c' st' = rec2 vm' c' st')
    (hd : vm.depth ≤ Generated.MAX_COMPONENT_RECURSION_DEPTH) :
    step rec1 env vm c e pc st = step rec2 env vm c e pc st :=
  step_depth_congr h12 hd e

/-- **`vm_component_depth_bounded`, a whole run.**  A run of `interpret` from a depth ≤ limit —
every listing, state and fuel; nested components, includes, blocks and `super()` included — IS
the run of `interpCapped`, the interpreter that refuses outright any call at a depth above the
limit: the nesting depth of component calls never exceeds
`Generated.MAX_COMPONENT_RECURSION_DEPTH`; self- or mutually-recursive components end in the
error of `vm_component_recursion_error` instead of going deeper. -/
theorem vm_component_depth_bounded (fuel : Fuel) (env : Env) (vm : VmCtx) (c : Chunk) (st : State)
    (hd : vm.depth ≤ Generated.MAX_COMPONENT_RECURSION_DEPTH) :
    run fuel env vm c st = interpCapped env fuel.steps fuel.depth vm c st :=
  interp_capped env fuel.steps fuel.depth vm c st hd

/-- `Include` carries the counter: the included template's chunk runs in a VM with the same
`component_recursion_depth` (and the same autoescape override). -/
theorem vm_include_carries_depth (rec : VmCtx → Chunk → State → RunRes) (env : Env) (vm : VmCtx)
    (c : Chunk) (n : String) (spans : List Span) (pc pc' : Nat) (st st' : State)
    (h : step rec env vm c (.include_ n, spans) pc st = .next pc' st') :
    ∃ tpl stn, env.template n = some tpl ∧
      rec { template := tpl, autoescapeOverride := vm.autoescapeOverride, depth := vm.depth }
        tpl.chunk (includeState st) = .done stn ∧ st' = st.write stn.out :=
  sink_rule (.include_ n, spans) h

/-! ## The result is not escaped again -/

/-- The call's result is the component's output minted Safe, and a sink writes a Safe string as it
is: "inserted in the caller's output without being escaped again". -/
theorem vm_component_result_not_reescaped (env : Env) (vm : VmCtx) (text : List Char) (st : State) :
    emitValue env vm (.str true text) st = st.write text :=
  emitValue_safe (v := .str true text) rfl st

/-! ## The statements bite (kernel-evaluated on Model/Vm.lean) -/

def exOps : FloatOps :=
  { add := fun a _ => a, sub := fun a _ => a, mul := fun a _ => a, div := fun a _ => a,
    remEuclid := fun a _ => a, divEuclid := fun a _ => a, powf := fun a _ => a, neg := fun a => a }

/-- `{% component show(a, b = "d") %}{{ a }}{{ b }}{% set leak = 1 %}{{ y | default… }}` — the
body prints its two parameters, assigns `leak`, and looks at the caller's `y` -/
def exComp : Chunk :=
  { name := "t",
    code := [(.writePath ["a"], ["s"]), (.writePath ["b"], ["s"]), (.loadConst (.u64 1), []),
             (.set "leak" true, []), (.loadName "y", ["s"]), (.loadConst .undef, []), (.equal false, []),
             (.writeTop, [])] }

/-- `{% set y = 7 %}{{ <show a={y}/> }}` then `{{ leak is undefined }}`-like probe of `leak` -/
def exMain : Chunk :=
  { name := "t",
    code := [(.loadConst (.u64 7), []), (.set "y" false, []),
             (.loadConst (.str false "a".toList), []), (.loadName "y", ["s"]), (.buildMap 1, []),
             (.renderComponent "show" false, ["s"]), (.writeTop, []),
             (.loadName "leak", ["s"]), (.loadConst .undef, []), (.equal false, []), (.writeTop, [])] }

def exDef : Component.Def :=
  { params := [{ name := "a", declared := none, dflt := none },
               { name := "b", declared := none, dflt := some (.str false "d".toList) }],
    rest := none }

def exEnv (main : Chunk) : Env :=
  { templates := [("t", { name := "t", chunk := main, autoescape := true, parents := [],
                          blockLineage := [], components := [] })],
    components := [("show", (exDef, exComp))],
    hasFilter := fun _ => false, hasTest := fun _ => false, hasFunction := fun _ => false,
    callFilter := fun _ _ _ => .err, filterIsSafe := fun _ => false,
    callTest := fun _ _ _ => .err, callFunction := fun _ _ => .err, functionIsSafe := fun _ => false,
    F := exOps, fmtF64 := fun _ => [] }

/-- the component sees `a` = the passed value and `b` = its default; the caller's `y` is undefined
inside (`true`); the component's `set_global leak` is undefined outside (`true`) -/
example : (match render ⟨4, 100⟩ (exEnv exMain) "t" none [] [] with
    | .ok text => text == "7dtruetrue".toList
    | _ => false) = true := by decide +kernel

/-- a missing required argument is the rendering error, before the body runs -/
example : (match render ⟨4, 100⟩ (exEnv { exMain with code :=
      [(.buildMap 0, []), (.renderComponent "show" false, ["s"]), (.writeTop, [])] }) "t" none [] [] with
    | .err .componentBinding => true
    | _ => false) = true := by decide +kernel

/-- `{% component loop() %}{{ <loop/> }}{% endcomponent %}`: a self-recursive component stops with
the recursion error at the generated limit instead of exhausting the nesting fuel -/
def exRec : Chunk :=
  { name := "t", code := [(.buildMap 0, []), (.renderComponent "loop" false, ["s"]), (.writeTop, [])] }

example : (match render ⟨40, 100⟩
      { exEnv exRec with components := [("loop", ({ params := [], rest := none }, exRec))] }
      "t" none [] [] with
    | .err .recursionLimit => true
    | _ => false) = true := by decide +kernel

end Tera.C05Vm
