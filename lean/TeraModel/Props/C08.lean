/-
C08 — Template text is reproduced verbatim except whitespace next to `-` markers.

Property theorems only.  They are about the byte-level models of `basic_tokenize`
(Model/Lexer.lean), `whitespace_filter` and the parser's literal-text handling
(Model/WsFilter.lean); the correspondence harness (harness/src/bin/c08.rs) ties the models to
tera/src/parsing/lexer.rs token by token (before and after the filter) and output byte by output
byte on every run.  Helper lemmas: Lemmas/{LexInv,LexLoop,NoStart,WsFilterLemmas}.lean.
-/
import TeraModel.Lemmas.C08Lemmas
import TeraModel.Lemmas.Forward
import TeraModel.Lemmas.Respell
import TeraModel.Model.SetDelims
import TeraModel.Lemmas.RawLemmas
import TeraModel.Lemmas.TrimLemmas
import TeraModel.Lemmas.LexProgress
namespace Tera.C08
open Tera Utf8 Lexer WsFilter WsSpec

/-! ## The token ranges tile the source; literal text is the source slice -/

/-- **tokens_partition_source.**  For every source (any bytes) and every delimiter set, the byte
ranges of the tokens of `basic_tokenize` are ordered and contiguous up to ASCII whitespace, which
can only occur in front of tokens lexed inside `{{ }}` / `{% %}` (never in front of literal text,
raw blocks, comments or start markers); text-carrying tokens (`Content`, identifiers, float
lexemes) hold exactly the bytes of their range; and when the tokenizer reaches the end of the
input without a syntax error the tiling covers the source up to its last byte. -/
theorem tokens_partition_source (d : Delims) (src : Bytes) :
    ∃ k', Tiles src 0 (basicTokenize d src).tokens k' ∧ k' ≤ src.length ∧
      ((basicTokenize d src).ending = .eof → k' = src.length) := by
  have := lexLoop_tiles d src (src.length + 1) (startPos src) [.template] 0 0
    (Or.inl rfl) (Inv.start src) (wsRun.refl _ _) (by omega)
  simpa [basicTokenize] using this

/-- Every `Content` token of the tokenizer is, byte for byte, the slice of the source its span
designates (nothing is altered before the whitespace filter). -/
theorem content_is_source_slice (d : Delims) (src : Bytes) (s : Bytes) (sp : Span)
    (h : (.content s, sp) ∈ (basicTokenize d src).tokens) :
    s = (src.drop sp.rangeStart).take (sp.rangeEnd - sp.rangeStart) ∧
      sp.rangeStart ≤ sp.rangeEnd ∧ sp.rangeEnd ≤ src.length := by
  obtain ⟨k', ht, -, -⟩ := tokens_partition_source d src
  generalize (basicTokenize d src).tokens = ts at h ht
  generalize (0 : Nat) = k at ht
  induction ht with
  | nil _ => simp at h
  | cons _ _ hle hlen htext _ ih =>
    simp only [List.mem_cons] at h
    rcases h with h | h
    · simp only [Prod.mk.injEq] at h
      obtain ⟨rfl, rfl⟩ := h
      exact ⟨htext, hle, hlen⟩
    · exact ih h

/-! ## A source without start delimiter renders to itself -/

/-- **no_start_delim_identity.**  If none of the three start delimiters occurs in `src` (end
delimiters, lone braces, partial delimiters, any Unicode are all allowed) then the tokenizer
produces exactly one `Content` token holding `src` (none for the empty source), the whitespace
filter leaves it alone, and the parser's text handling writes `src` itself.  No hypothesis on the
delimiters or on the bytes. -/
theorem no_start_delim_identity (d : Delims) (src : Bytes) (h : NoStart d src) :
    (src ≠ [] → ∃ sp, basicTokenize d src = ⟨[(.content src, sp)], .eof⟩) ∧
    (tokenize d src).ending = .eof ∧
    skeleton (tokenize d src).tokens = .ok src :=
  ⟨fun hne => basicTokenize_noStart h hne, skeleton_noStart h⟩

/-! ## The whitespace filter -/

/-- **ws_filter_spec.**  For every token list, the output of `whitespace_filter` is the input
with: each literal text (`Content`, or the body of a raw block, which becomes `Content`) trimmed
at its start iff the *directly preceding* token ends with a `-` marker (`-}}`, `-%}`, a comment
ending in `-`, a raw block whose `endraw` tag ends in `-`), trimmed at its end iff the *directly
following* token starts with a `-` marker (`{{-`, `{%-`, `{#-`, a raw block opened with `{%-`);
every comment replaced by an empty text; every other token unchanged.  (`specFilter` has no
carried state and looks at the two neighbours only.) -/
theorem ws_filter_spec (ts : List Item) : filterGo false ts = specFilter none ts :=
  filterGo_eq_spec ts false none rfl

/-- **ws_filter_spec, pointwise.**  The filter keeps the number and order of tokens, and output
token `i` depends only on input tokens `i-1`, `i`, `i+1` as `specItem` says: nothing further away
(not even across an empty text or a comment) has any influence. -/
theorem ws_filter_pointwise (ts : List Item) :
    (filterGo false ts).length = ts.length ∧
    ∀ (i : Nat) (h : i < ts.length), (filterGo false ts)[i]? =
      some (specItem (if i = 0 then none else (ts[i - 1]?).map (·.1)) ts[i] ((ts[i + 1]?).map (·.1))) := by
  rw [ws_filter_spec]
  refine ⟨specFilter_length ts none, fun i h => ?_⟩
  rw [List.getElem?_eq_getElem (by rw [specFilter_length]; exact h), specFilter_getElem ts none i h]

/-- A text whose two direct neighbours carry no facing `-` is passed through untouched. -/
theorem untrimmed_text_verbatim (prev next : Option Token) (s : Bytes) (sp : Span)
    (hp : (prev.map trimsAfter).getD false = false) (hn : (next.map trimsBefore).getD false = false) :
    specItem prev (.content s, sp) next = (.content s, sp) := by
  simp [specItem, trimBy, hp, hn]

/-! ## Comments and empty texts -/

/-- **comments_produce_nothing.**  Wherever a comment stands in the token list, the filter puts an
empty text in its place (its body never reaches the output; its `-` markers only act on the two
neighbouring texts through `ws_filter_spec`). -/
theorem comments_produce_nothing (ts : List Item) (i : Nat) (h : i < ts.length) (a b : Bool) (sp : Span)
    (hc : ts[i] = (.comment a b, sp)) : (filterGo false ts)[i]? = some (.content [], sp) := by
  rw [(ws_filter_pointwise ts).2 i h, hc]
  simp [specItem]

/-- **empty_text_dropped** (parser.rs:1661-1666): an empty text contributes nothing to the output. -/
theorem empty_text_dropped (sp : Span) (rest : List Item) :
    skeletonGo .text ((.content [], sp) :: rest) = skeletonGo .text rest := by
  simp only [skeletonGo]
  cases skeletonGo .text rest <;> simp [Skel.map]

/-- literal text is written verbatim and in order by the parser's text handling -/
theorem text_written_verbatim (s : Bytes) (sp : Span) (rest : List Item) :
    skeletonGo .text ((.content s, sp) :: rest) = (skeletonGo .text rest).map (s ++ ·) := by
  simp only [skeletonGo]
  cases skeletonGo .text rest <;> cases s <;> simp [Skel.map]

/-! ## Forward direction: what a given spelling lexes to -/

/-- **text_forward.**  In `Template` state, a non-empty literal text `s` none of whose bytes is a
delimiter byte, followed by the end of the source or by a start marker, is emitted as exactly one
`Content` token holding `s`, and the tokenizer continues right after it (accepted delimiters). -/
theorem text_forward (d : Delims) (hd : d.accepted = true) (p0 : Pos) (st : List State) (s R : Bytes)
    (hrest : p0.rest = s ++ R) (hne : s ≠ []) (hs : ∀ b ∈ s, b ∉ delimBytes d)
    (hR : StartsWithMarker d R) :
    ∃ p, step d p0 (.template :: st) = .emit (.content s) (mkSpan p0 p) p (.template :: st) ∧
      p.rest = R ∧ p.byte = p0.byte + s.length :=
  text_forward_lemma d hd p0 st s R hrest hne hs hR

/-- **comment_forward.**  In `Template` state a comment `comment_start [-] ␠ body ␠ [-] comment_end`
whose body contains no delimiter byte (and where neither the space nor `-` is a delimiter byte) is
consumed as exactly one `Comment(l, r)` token, whatever else the body contains, and the tokenizer
continues right after `comment_end`; by `comments_produce_nothing` it then yields an empty text. -/
theorem comment_forward (d : Delims) (hd : d.accepted = true) (p0 : Pos) (st : List State)
    (l r : Bool) (body R : Bytes)
    (hrest : p0.rest = d.commentStart ++ dash l ++ [0x20] ++ body ++ [0x20] ++ dash r ++ d.commentEnd ++ R)
    (hv : valid p0.rest = true) (hbody : ∀ b ∈ body, b ∉ delimBytes d)
    (hsp : 0x20 ∉ delimBytes d) (hdash : 0x2D ∉ delimBytes d) :
    ∃ p, step d p0 (.template :: st) = .emit (.comment l r) (mkSpan p0 p) p (.template :: st) ∧ p.rest = R :=
  comment_forward_lemma d hd p0 st l r body R hrest hv hbody hsp hdash

/-! ## Raw blocks -/

/-- **raw_verbatim.**  For every source and delimiter set: whenever the tokenizer (in `Template`
state, at position `p0`) emits a `RawContent(ws, body, wsEnd)`, then `p0.rest` reads
`block_start [-] <raw tag: ws* raw ws* [-] block_end> BODY block_start <endraw tag> …` where the
raw tag ends at `bodyStart`, `BODY` runs up to a `block_start` at `bodyEnd` that is followed by a
well-formed `endraw` tag (`skip_tag`), and `body` is the source slice `[bodyStart, bodyEnd)` —
byte for byte, whatever delimiters, comments or tags it contains; nothing inside it is tokenized
— trimmed at its start iff the raw tag ends in `-` and at its end iff `-` follows that
`block_start`; the tokenizer resumes right after the `endraw` tag. -/
theorem raw_verbatim (d : Delims) (p0 : Pos) (st st' : List State) (ws wsEnd : Bool) (body : Bytes)
    (sp : Span) (p' : Pos)
    (h : step d p0 (.template :: st) = .emit (.rawContent ws body wsEnd) sp p' st') :
    ∃ (p : Pos) (bodyStart bodyEnd endraw : Nat) (ews : Bool),
      checkWsStart p0 = .ok (ws, p) ∧
      skipTag p.rest Generated.rawName d.blockEnd = some (bodyStart, ews) ∧
      bodyStart ≤ bodyEnd ∧
      d.blockStart.isPrefixOf (p.rest.drop bodyEnd) = true ∧
      skipTag (p.rest.drop (bodyEnd + 2)) Generated.endrawName d.blockEnd = some (endraw, wsEnd) ∧
      p'.rest = p.rest.drop (bodyEnd + 2 + endraw) ∧
      body =
        (let b := (p.rest.drop bodyStart).take (bodyEnd - bodyStart)
         let b := if ews then trimStart b else b
         if p.rest[bodyEnd + 2]? = some 0x2D then trimEnd b else b) :=
  stepTemplate_raw (by simpa [step] using h)

/-- `{% raw %}{{ x }}{# c #}{% if %}{% endraw %}`: one token, the body untouched -/
example :
    (basicTokenize Generated.defaultDelims
      ([0x7B, 0x25, 0x20, 0x72, 0x61, 0x77, 0x20, 0x25, 0x7D] ++
       [0x7B, 0x7B, 0x20, 0x78, 0x20, 0x7D, 0x7D, 0x7B, 0x23, 0x20, 0x63, 0x20, 0x23, 0x7D, 0x7B, 0x25, 0x20, 0x69, 0x66, 0x20, 0x25, 0x7D] ++
       [0x7B, 0x25, 0x20, 0x65, 0x6E, 0x64, 0x72, 0x61, 0x77, 0x20, 0x25, 0x7D])).tokens.map (·.1)
      = [.rawContent false [0x7B, 0x7B, 0x20, 0x78, 0x20, 0x7D, 0x7D, 0x7B, 0x23, 0x20, 0x63, 0x20, 0x23, 0x7D, 0x7B, 0x25, 0x20, 0x69, 0x66, 0x20, 0x25, 0x7D] false] := by
  decide

/-! ## Trimming only removes at the two ends -/

/-- `trim_start` yields a suffix and `trim_end` a prefix of the text: trimming never alters or
reorders bytes, it only drops some at the facing end.  (Which bytes count as whitespace is the
table `isWhiteSpace`; that Rust's `trim_*` agrees with it is trusted and exercised by the
correspondence run with all 25 code points.) -/
theorem trim_only_removes_at_ends (s : Bytes) :
    (∃ k, trimStart s = s.drop k) ∧ (∃ k, trimEnd s = s.take k) :=
  ⟨trimStartFuel_suffix _ s, ⟨_, rfl⟩⟩

/-- **trim_start_exact.**  Trimming a text at its start removes exactly its leading whitespace: the
removed prefix is a sequence of White_Space scalars (`WsOnly`) and what is left does not begin with
one.  Any bytes. -/
theorem trim_start_exact (s : Bytes) :
    ∃ pre, s = pre ++ trimStart s ∧ WsOnly pre ∧
      ∀ c n, decodeHead (trimStart s) = some (c, n) → isWhiteSpace c = false :=
  trimStart_spec s

/-- **trim_end_exact.**  Trimming a (valid UTF-8) text at its end removes exactly its trailing
whitespace: the removed suffix is a sequence of White_Space scalars and what is left is empty or
ends with a scalar that is not one. -/
theorem trim_end_exact (s : Bytes) (hv : valid s = true) :
    ∃ suf, s = trimEnd s ++ suf ∧ WsOnly suf ∧
      (trimEnd s = [] ∨ ∃ j c n, j + n = (trimEnd s).length ∧
        decodeHead (s.drop j) = some (c, n) ∧ isWhiteSpace c = false) :=
  trimEnd_spec hv

/-- the whitespace table is exactly the 25 code points with the Unicode `White_Space` property -/
theorem white_space_table (c : Nat) :
    isWhiteSpace c = true ↔
      c ∈ [0x09, 0x0A, 0x0B, 0x0C, 0x0D, 0x20, 0x85, 0xA0, 0x1680, 0x2000, 0x2001, 0x2002, 0x2003, 0x2004,
           0x2005, 0x2006, 0x2007, 0x2008, 0x2009, 0x200A, 0x2028, 0x2029, 0x202F, 0x205F, 0x3000] := by
  simp [isWhiteSpace]
  omega

/-! ## Re-spelling with other delimiters -/

/-- **respell_invariant, full statement**: the same template (a list of literal texts,
`{{ expr }}` groups, `{% body %}` tags and comments, each with any `-` placement) spelled under two
accepted delimiter sets that are both clean for it (`Clean`: no payload byte is a delimiter byte;
space, `-`, ASCII whitespace and the letters of `raw` are not delimiter bytes; expressions and tag
bodies hold no string quote, tag bodies do not mention `raw`) lexes to the same tokens, spans
aside. -/
def respell_invariant_full : Prop :=
  ∀ (d1 d2 : Delims) (segs : List Seg), d1.accepted = true → d2.accepted = true →
    Clean d1 segs → Clean d2 segs → valid (spell d1 segs) = true → valid (spell d2 segs) = true →
    (tokenize d1 (spell d1 segs)).tokens.map (·.1) = (tokenize d2 (spell d2 segs)).tokens.map (·.1)

/-- **respell_invariant.**  The full statement holds: re-spelling a template with other delimiters
does not change the tokens the parser sees — before the whitespace filter, after it, and hence
the literal-text output (`skeleton`).  Proof: a simulation of the two tokenizer runs segment by
segment (Lemmas/{Forward,ExprLocal,LexCanon,RespellInTag,Respell}.lean); inside `{{ }}` / `{% %}`
the expression lexer does not depend on the delimiters, is local (never looks past the next
space) and position-independent. -/
theorem respell_invariant : respell_invariant_full := by
  intro d1 d2 segs hd1 hd2 hc1 hc2 hv1 hv2
  have h := respell_tokens hd1 hd2 segs hc1 hc2 hv1 hv2
  simp only [tokenize, whitespaceFilter]
  exact filterGo_tokens_congr _ _ false h

/-- hence both spellings produce the same literal-text output -/
theorem respell_same_output (d1 d2 : Delims) (segs : List Seg) (hd1 : d1.accepted = true)
    (hd2 : d2.accepted = true) (hc1 : Clean d1 segs) (hc2 : Clean d2 segs)
    (hv1 : valid (spell d1 segs) = true) (hv2 : valid (spell d2 segs) = true) :
    skeleton (tokenize d1 (spell d1 segs)).tokens = skeleton (tokenize d2 (spell d2 segs)).tokens :=
  skeleton_tokens_congr _ _ (respell_invariant d1 d2 segs hd1 hd2 hc1 hc2 hv1 hv2)

/-- `Clean` is satisfiable for two quite different delimiter sets at once:
`a {{- x | f -}} b{# c #}{% if y %}` under `{{ }} {% %} {# #}` and under `<< >> <% %> <# #>` -/
example : ∃ segs : List Seg,
    Clean Generated.defaultDelims segs ∧
    Clean { blockStart := [0x3C, 0x25], blockEnd := [0x25, 0x3E], variableStart := [0x3C, 0x3C],
            variableEnd := [0x3E, 0x3E], commentStart := [0x3C, 0x23], commentEnd := [0x23, 0x3E] } segs ∧
    segs.length = 5 := by
  refine ⟨[.text [0x61, 0x20], .var true true [0x78, 0x20, 0x7C, 0x20, 0x66], .text [0x20, 0x62],
           .comment false false [0x63], .tag false false [0x69, 0x66, 0x20, 0x79]], ?_, ?_, rfl⟩
  · refine ⟨by decide, by decide, by decide, by decide, by decide, ?_⟩
    intro s hs
    simp only [List.mem_cons, List.not_mem_nil, or_false] at hs
    rcases hs with rfl | rfl | rfl | rfl | rfl
    · trivial
    · decide
    · trivial
    · trivial
    · refine ⟨by decide, ?_⟩
      rintro ⟨pre, post, h⟩
      have hl := congrArg List.length h
      simp [Generated.rawName] at hl
      match pre with
      | [] => simp [Generated.rawName] at h
      | [_] => simp [Generated.rawName] at h
      | _ :: _ :: _ => simp at hl; omega
  · refine ⟨by decide, by decide, by decide, by decide, by decide, ?_⟩
    intro s hs
    simp only [List.mem_cons, List.not_mem_nil, or_false] at hs
    rcases hs with rfl | rfl | rfl | rfl | rfl
    · trivial
    · decide
    · trivial
    · trivial
    · refine ⟨by decide, ?_⟩
      rintro ⟨pre, post, h⟩
      have hl := congrArg List.length h
      simp [Generated.rawName] at hl
      match pre with
      | [] => simp [Generated.rawName] at h
      | [_] => simp [Generated.rawName] at h
      | _ :: _ :: _ => simp at hl; omega

/-! ## A rejected delimiter set has no effect -/

/-- **rejected_delimiters_have_no_effect.**  `set_delimiters` answers `Err` exactly when it leaves
the installed set untouched: a rejected set (wrong byte length, colliding start delimiters, or any
set once templates exist) is never stored, an accepted one is.  Re-proved on every run against the
statement order the translator reads from tera.rs (`validate()?` before the assignment). -/
theorem rejected_delimiters_have_no_effect (hasTemplates : Bool) (cur new : Delims) :
    ((setDelimiters hasTemplates cur new).1 = false → (setDelimiters hasTemplates cur new).2 = cur) ∧
    ((setDelimiters hasTemplates cur new).1 = true →
      (setDelimiters hasTemplates cur new).2 = new ∧ new.validate = true ∧ hasTemplates = false) := by
  have h1 : Generated.setDelimsValidatesFirst = true := by decide
  have h2 : Generated.setDelimsRefusesAfterAdd = true := by decide
  unfold setDelimiters
  cases hasTemplates <;> cases hv : new.validate <;> simp [h1, h2, hv]

/-- hence the set in force after any history of calls on a fresh instance is the last accepted one
(or the default): every installed set passed `validate` -/
theorem installed_delimiters_validated (calls : List Delims) :
    (delimsAfter calls).validate = true := by
  unfold delimsAfter
  have key : ∀ (cs : List Delims) (cur : Delims), cur.validate = true →
      (cs.foldl (fun cur new => (setDelimiters false cur new).2) cur).validate = true := by
    intro cs
    induction cs with
    | nil => intro cur h; exact h
    | cons c tl ih =>
      intro cur h
      simp only [List.foldl_cons]
      apply ih
      have := rejected_delimiters_have_no_effect false cur c
      cases hr : (setDelimiters false cur c).1 with
      | false => rw [this.1 hr]; exact h
      | true => rw [(this.2 hr).1]; exact (this.2 hr).2.1
  exact key calls _ (by decide)

/-! ## Non-vacuity and spot checks -/

/-- the default delimiters are accepted -/
example : Generated.defaultDelims.accepted = true := by decide

/-- `a {{- x -}} é {#- c -#}  t` : texts trimmed exactly next to the dashes, comment gone -/
example :
    skeleton (tokenize Generated.defaultDelims
      [0x61, 0x20, 0x7B, 0x7B, 0x2D, 0x20, 0x78, 0x20, 0x2D, 0x7D, 0x7D, 0x20, 0xC3, 0xA9, 0x20,
       0x7B, 0x23, 0x2D, 0x20, 0x63, 0x20, 0x2D, 0x23, 0x7D, 0x20, 0x20, 0x74]).tokens
      = .ok [0x61, 0x01, 0xC3, 0xA9, 0x74] := by decide

/-- the F2 shape `{{ 1 -}}{# c #}  t`: the `-}}` does not trim through the comment -/
example :
    skeleton (tokenize Generated.defaultDelims
      [0x7B, 0x7B, 0x20, 0x31, 0x20, 0x2D, 0x7D, 0x7D, 0x7B, 0x23, 0x20, 0x63, 0x20, 0x23, 0x7D,
       0x20, 0x20, 0x74]).tokens = .ok [0x01, 0x20, 0x20, 0x74] := by decide

/-- `NoStart` is satisfiable by texts full of partial and end delimiters: `{ %} }} #}` -/
example : NoStart Generated.defaultDelims [0x7B, 0x20, 0x25, 0x7D, 0x20, 0x7D, 0x7D, 0x20, 0x23, 0x7D] := by
  refine ⟨?_, ?_, ?_⟩ <;>
  · rintro ⟨pre, post, h⟩
    have hl := congrArg List.length h
    simp [Generated.defaultDelims] at hl
    have hp : pre.length ≤ 8 := by omega
    match pre, hp with
    | [], _ => simp [Generated.defaultDelims] at h
    | [_], _ => simp [Generated.defaultDelims] at h
    | [_, _], _ => simp [Generated.defaultDelims] at h
    | [_, _, _], _ => simp [Generated.defaultDelims] at h
    | [_, _, _, _], _ => simp [Generated.defaultDelims] at h
    | [_, _, _, _, _], _ => simp [Generated.defaultDelims] at h
    | [_, _, _, _, _, _], _ => simp [Generated.defaultDelims] at h
    | [_, _, _, _, _, _, _], _ => simp [Generated.defaultDelims] at h
    | [_, _, _, _, _, _, _, _], _ => simp [Generated.defaultDelims] at h
    | _ :: _ :: _ :: _ :: _ :: _ :: _ :: _ :: _ :: _, hp => simp at hp <;> omega

end Tera.C08
