/-
C07, value level, with GIVEN certificates: the theorems of Props/C07Vm.lean restated for
`EnvOKT` / `GoodT` (Lemmas/VmSimT.lean) — every stored chunk (main chunks, every chunk of every
block lineage, instance-wide components) has SOME table with `checkChunkT` (Model/VmCheckT.lean:
template registered, names registered, `verify code table = true`) — so that a proof that the
compiler and the optimiser always produce chunks with a verifying table makes them unconditional.
`EnvOK → EnvOKT` (`EnvOK.toT`): the theorems of C07Vm.lean are the special case of the inferred table.
-/
import TeraModel.Lemmas.VmSimT
import TeraModel.Lemmas.VmUtf8
namespace Tera.C07Vm
open Tera Tera.Vm

/-- `vm_no_panic_wellformed` with given certificates: `interpret` on a chunk that has a verifying
table, in an environment whose chunks all have one and whose built-ins do not panic, from any state
with a consistent block stack, any context, any fuel: never a panic. -/
theorem vm_no_panic_wellformed_T (env : Env) (hE : EnvOKT env) (fuel : Fuel) (vm : VmCtx) (c : Chunk)
    (st : State) (hg : GoodT env vm c st) : ∀ site, run fuel env vm c st ≠ .panic site := by
  intro site heq
  have := (interp_soundT hE fuel.steps fuel.depth vm c st hg).1
  unfold run at heq
  rw [heq] at this
  simp [RunRes.isPanic] at this

/-- `vm_render_no_panic` with given certificates: `Tera::render` / `Tera::render_block` of every
template, block name, context, global context and fuel never end in a panic. -/
theorem vm_render_no_panic_T (env : Env) (hE : EnvOKT env) (fuel : Fuel) (name : String)
    (block : Option String) (ctx globalCtx : Ctx) :
    ∀ site, render fuel env name block ctx globalCtx ≠ .panic site := by
  intro site
  unfold render
  cases htpl : env.template name with
  | none => simp
  | some tpl =>
    simp only
    cases hlm : lineageMissing tpl block with
    | true => simp
    | false =>
      simp only [Bool.false_eq_true, ↓reduceIte]
      have hT := hE.1 name tpl htpl
      cases hc : entryChunk env tpl with
      | none => simp
      | some chunk =>
        simp only
        have hck : ChunkOKT env chunk := by
          unfold entryChunk at hc
          split at hc
          · rename_i parent _
            cases hb : env.template parent with
            | none => rw [hb] at hc; cases hc
            | some btpl =>
              rw [hb] at hc; simp only [Option.map_some, Option.some.injEq] at hc
              subst hc; exact (hE.1 parent btpl hb).1
          · simp only [Option.some.injEq] at hc; subst hc; exact hT.1
        have hg : GoodT env { template := tpl, autoescapeOverride := none, depth := 0 } chunk
            (entryState block ctx globalCtx) :=
          ⟨hck, hT, by intro cur h; simp [entryState, State.fresh] at h,
           by intro e he; simp [entryState, State.fresh, blocksSig] at he⟩
        have := vm_no_panic_wellformed_T env hE fuel _ _ _ hg
        intro heq
        cases hr : run fuel env { template := tpl, autoescapeOverride := none, depth := 0 } chunk
            (entryState block ctx globalCtx) with
        | panic s => exact this s hr
        | _ => rw [hr] at heq; simp [outcomeOf] at heq

/-- `vm_stacks_restored` with given certificates: a nested `interpret` that returns normally leaves
the value stack identical, the loop stack with the same height and `end_ip`s, the capture stack
with the same height, the current block and the names and lineages of the block stack the same. -/
theorem vm_stacks_restored_T (env : Env) (hE : EnvOKT env) (fuel : Fuel) (vm : VmCtx) (c : Chunk)
    (st st2 : State) (hg : GoodT env vm c st) (h : run fuel env vm c st = .done st2) :
    st2.stack = st.stack ∧
    st2.scope.forLoops.map (·.endIp) = st.scope.forLoops.map (·.endIp) ∧
    st2.captures.length = st.captures.length ∧
    st2.currentBlockName = st.currentBlockName ∧
    st2.blocks.map (fun e => (e.1, e.2.1)) = st.blocks.map (fun e => (e.1, e.2.1)) := by
  have hf := (interp_soundT hE fuel.steps fuel.depth vm c st hg).2 st2 h
  exact ⟨hf.stack, hf.loops, hf.caps, hf.cur, hf.blocks⟩

/-- `vm_stacks_empty_at_end` with given certificates. -/
theorem vm_stacks_empty_at_end_T (env : Env) (hE : EnvOKT env) (fuel : Fuel) (vm : VmCtx) (c : Chunk)
    (scope : Scope) (hs : scope.forLoops = []) (st2 : State)
    (hg : GoodT env vm c (State.fresh scope)) (h : run fuel env vm c (State.fresh scope) = .done st2) :
    st2.stack = [] ∧ st2.scope.forLoops = [] ∧ st2.captures = [] := by
  obtain ⟨h1, h2, h3, _, _⟩ := vm_stacks_restored_T env hE fuel vm c _ st2 hg h
  refine ⟨h1, ?_, ?_⟩
  · simpa [State.fresh, hs] using h2
  · simpa [State.fresh] using h3

/-- `vm_output_valid_utf8` with given certificates: in an environment whose chunks all have a
verifying table, `render` / `render_block` end in text whose bytes are valid UTF-8 and decode back
to it, in an error class, `unmodelled` or out-of-fuel — and never in a panic. -/
theorem vm_output_valid_utf8_T (env : Env) (hE : EnvOKT env) (fuel : Fuel) (name : String)
    (block : Option String) (ctx globalCtx : Ctx) :
    (∀ site, render fuel env name block ctx globalCtx ≠ .panic site) ∧
    ∀ text, render fuel env name block ctx globalCtx = .ok text →
      Escape.utf8Valid (Wire.utf8Encode text) = true ∧
      Contrib.utf8Decode (Wire.utf8Encode text) = some text :=
  ⟨vm_render_no_panic_T env hE fuel name block ctx globalCtx,
   fun text _ => ⟨utf8Valid_encode text, Contrib.utf8Decode_encode text⟩⟩

/-- The theorems of Props/C07Vm.lean are instances: an environment whose chunks pass `checkChunk`
(the inferred table verifies) is one whose chunks all have a verifying table. -/
theorem envOK_implies_envOKT (env : Env) (h : EnvOK env) : EnvOKT env := h.toT

end Tera.C07Vm
