/-
C12 — second theorem module: what `Consistent` buys the user of an error report.

`Props/C12.lean` proves that every span the tokenizer hands out is `Consistent` with its source.
This module states the consequences the property text relies on, for *every* source and span:

* `consistent_ext`      — line and column are a FUNCTION of the byte range: two spans consistent
                          with the same source and covering the same bytes are equal (this is the
                          rule the harness oracle uses when it recomputes a reported span from the
                          named source: any other line/column for that range is a violation);
* `expand_chain_consistent` — any span the parser builds by a chain of `Span::expand` calls that
                          starts at a consistent span and goes through consistent spans not ending
                          before the first one starts (tokens in source order) is consistent;
* `start_line_monotone`, `line_le_newlines` — a span further into the source never reports an
                          earlier line, and no consistent span reports a line past the last one.
-/
import TeraModel.Lemmas.SpanConsistent
namespace Tera.C12
open Tera Utf8 Lexer WsFilter Report

/-- **consistent_ext.**  Line/column are determined by the byte range. -/
theorem consistent_ext {src : Bytes} {a b : Span} (ha : Consistent src a) (hb : Consistent src b)
    (hs : a.rangeStart = b.rangeStart) (he : a.rangeEnd = b.rangeEnd) : a = b := by
  obtain ⟨a1, a2, a3, a4, a5, a6⟩ := a
  obtain ⟨b1, b2, b3, b4, b5, b6⟩ := b
  have h1 := ha.startLine; have h2 := ha.startCol; have h3 := ha.endLine; have h4 := ha.endCol
  have g1 := hb.startLine; have g2 := hb.startCol; have g3 := hb.endLine; have g4 := hb.endCol
  simp only at hs he h1 h2 h3 h4 g1 g2 g3 g4
  subst hs he
  simp only [Span.mk.injEq, and_true]
  exact ⟨h1.trans g1.symm, h2.trans g2.symm, h3.trans g3.symm, h4.trans g4.symm⟩

theorem expand_rangeStart (a b : Span) : (a.expand b).rangeStart = a.rangeStart := rfl

/-- **expand_chain_consistent.**  A left fold of `Span::expand` (how parser.rs grows the span of
an expression, a tag or a body token by token) over consistent spans, none of which ends before
the first span starts, is consistent. -/
theorem expand_chain_consistent {src : Bytes} (bs : List Span) : ∀ (a : Span), Consistent src a →
    (∀ b ∈ bs, Consistent src b ∧ a.rangeStart ≤ b.rangeEnd) →
    Consistent src (bs.foldl Span.expand a) := by
  induction bs with
  | nil => intro a ha _; exact ha
  | cons b tl ih =>
    intro a ha h
    have hb := h b (List.mem_cons_self ..)
    have hab : Consistent src (a.expand b) :=
      ⟨hb.2, hb.1.within, ha.startBoundary, hb.1.endBoundary, ha.startLine, ha.startCol, hb.1.endLine, hb.1.endCol⟩
    exact ih (a.expand b) hab (fun c hc => ⟨(h c (List.mem_cons_of_mem _ hc)).1,
      by rw [expand_rangeStart]; exact (h c (List.mem_cons_of_mem _ hc)).2⟩)

/-- the chain keeps the first span's start and takes the last span's end -/
theorem expand_chain_ends (a : Span) (bs : List Span) :
    (bs.foldl Span.expand a).rangeStart = a.rangeStart ∧
    (bs.foldl Span.expand a).rangeEnd = (bs.getLast?.getD a).rangeEnd := by
  induction bs generalizing a with
  | nil => exact ⟨rfl, rfl⟩
  | cons b tl ih =>
    obtain ⟨h1, h2⟩ := ih (a.expand b)
    refine ⟨by rw [List.foldl_cons, h1]; rfl, ?_⟩
    rw [List.foldl_cons, h2]
    cases tl with
    | nil => rfl
    | cons c tl' =>
      have hne : (c :: tl') ≠ [] := by simp
      simp only [List.getLast?_cons_cons, List.getLast?_eq_some_getLast hne, Option.getD_some]

/-- **start_line_monotone.**  A span that starts further into the source never reports an
earlier start line. -/
theorem start_line_monotone {src : Bytes} {a b : Span} (ha : Consistent src a) (hb : Consistent src b)
    (h : a.rangeStart ≤ b.rangeStart) : a.startLine ≤ b.startLine := by
  rw [ha.startLine, hb.startLine]
  have : (src.take a.rangeStart).Sublist (src.take b.rangeStart) := by
    have : src.take a.rangeStart = (src.take b.rangeStart).take a.rangeStart := by
      rw [List.take_take]; congr 1; omega
    rw [this]; exact List.take_sublist _ _
  have := this.count_le 0x0A
  omega

/-- **line_le_newlines.**  No consistent span reports a line past the last line of the source:
lines lie in `1 ..= 1 + number of '\n'` (so `line_starts[start_line - 1]` exists). -/
theorem line_le_newlines {src : Bytes} {a : Span} (ha : Consistent src a) :
    1 ≤ a.startLine ∧ a.startLine ≤ a.endLine ∧ a.endLine ≤ 1 + src.count 0x0A := by
  have h1 := ha.startLine; have h2 := ha.endLine
  have s1 : (src.take a.rangeStart).Sublist (src.take a.rangeEnd) := by
    have : src.take a.rangeStart = (src.take a.rangeEnd).take a.rangeStart := by
      rw [List.take_take]; congr 1; have := ha.ordered; omega
    rw [this]; exact List.take_sublist _ _
  have c1 := s1.count_le 0x0A
  have c2 := (List.take_sublist a.rangeEnd src).count_le 0x0A
  omega

/-- non-vacuity: two consistent spans of `a\né`, and the chain over them -/
example : Consistent [0x61, 0x0A, 0xC3, 0xA9]
    ([⟨2, 0, 2, 1, 2, 4⟩].foldl Span.expand ⟨1, 0, 1, 1, 0, 1⟩) :=
  expand_chain_consistent _ _ (by constructor <;> decide)
    (fun b hb => by simp at hb; subst hb; exact ⟨by constructor <;> decide, by decide⟩)

end Tera.C12

namespace Tera.C12
open Tera Utf8 Lexer WsFilter Report

/-- the pad consists of tabs and spaces only, one per char taken -/
theorem underlinePad_spec : ∀ (n : Nat) (line : Bytes),
    (∀ b ∈ underlinePad n line, b = 0x09 ∨ b = 0x20) ∧
    (underlinePad n line).length = min n (charCount line) := by
  intro n line
  induction line generalizing n with
  | nil => cases n <;> simp [underlinePad, charCount]
  | cons b t ih =>
    cases n with
    | zero => simp [underlinePad]
    | succ n =>
      unfold underlinePad
      by_cases hb : isCont b = true
      · simp only [hb, if_true]
        refine ⟨(ih (n + 1)).1, ?_⟩
        rw [(ih (n + 1)).2]; simp [charCount, hb]
      · simp only [hb, Bool.false_eq_true, if_false]
        refine ⟨?_, ?_⟩
        · intro x hx
          rcases List.mem_cons.mp hx with h | h
          · subst h; by_cases h9 : b = 0x09 <;> simp [h9]
          · exact (ih n).1 x h
        · rw [List.length_cons, (ih n).2]
          simp [charCount, hb]

/-- **report_underline_shape.**  Whenever the display code returns, the underline it prints is a
pad of tabs / spaces — one per character of the quoted line up to the span's start column, never
more than `start_col` of them — followed by exactly `max 1 (end_col - start_col)` carets: the
caret run starts under the character the span starts on and is never empty. -/
theorem report_underline_shape {src : Bytes} {sp : Span} {line ul : Bytes}
    (h : sourceLocation src sp = .ok (line, ul)) :
    ∃ pad, ul = pad ++ List.replicate (if sp.endCol > sp.startCol then sp.endCol - sp.startCol else 1) 0x5E ∧
      (∀ b ∈ pad, b = 0x09 ∨ b = 0x20) ∧ pad.length = min sp.startCol (charCount line) := by
  unfold sourceLocation at h
  simp only at h
  split at h
  · cases h
  · split at h
    · cases h
    · rename_i l hl
      simp only [Res.ok.injEq, Prod.mk.injEq] at h
      obtain ⟨h1, h2⟩ := h
      subst h1
      exact ⟨_, h2.symm, (underlinePad_spec _ _).1, (underlinePad_spec _ _).2⟩

/-- **expand_is_the_code.**  The model's `Span.expand` IS the function the translator produces from
the statements of `Span::expand` in utils.rs on this run (`Generated.spanExpand`, one record update
per Rust assignment, in order).  A change to which end or which field `expand` copies changes the
generated function and this theorem stops checking. -/
theorem expand_is_the_code (a b : Span) : a.expand b = Generated.spanExpand a b := rfl

/-- hence `expand_chain_consistent` speaks about the translated code itself -/
theorem generated_expand_chain_consistent {src : Bytes} (bs : List Span) (a : Span) (ha : Consistent src a)
    (h : ∀ b ∈ bs, Consistent src b ∧ a.rangeStart ≤ b.rangeEnd) :
    Consistent src (bs.foldl Generated.spanExpand a) := by
  have : (fun x y => Generated.spanExpand x y) = Span.expand := by
    funext x y; exact (expand_is_the_code x y).symm
  have h2 : bs.foldl Generated.spanExpand a = bs.foldl Span.expand a := by
    show bs.foldl (fun x y => Generated.spanExpand x y) a = _
    rw [this]
  rw [h2]; exact expand_chain_consistent bs a ha h

/-- **eoi_at_end** (finding F13, fixed).  With the assignments found in parser.rs `eoi()` on this run,
the "unexpected end of input" span is the zero-width point at the END of the last token: byte range,
line and column all sit there (before the fix the byte range stayed on the token while line/column
moved). -/
theorem eoi_at_end (cur : Span) :
    (eoiSpan cur).rangeStart = cur.rangeEnd ∧ (eoiSpan cur).rangeEnd = cur.rangeEnd ∧
    (eoiSpan cur).startLine = cur.endLine ∧ (eoiSpan cur).startCol = cur.endCol ∧
    (eoiSpan cur).endLine = cur.endLine ∧ (eoiSpan cur).endCol = cur.endCol := by
  have h1 : Generated.eoiMovesLine = true := by decide
  have h2 : Generated.eoiMovesCol = true := by decide
  have h3 : Generated.eoiCollapsesRange = true := by decide
  unfold eoiSpan
  simp [h1, h2, h3]

end Tera.C12
