/-
C08 (parser link) — "Template text is reproduced verbatim …": between the Content tokens of the
filtered lexer (Props/C08.lean) and the texts of the AST that the compiler turns into `WriteText`
instructions (Props/C08Pipeline.lean) stands the parser.  This file proves, for EVERY token list:

  the literal texts of an accepted template, in source order, are exactly the non-empty Content
  tokens of its token list, in order — none dropped, merged, reordered or altered.

What the parser does with text, by design (parser.rs:1659-1668, model `untilLoop`):
* a Content token with a non-empty payload becomes one `Node.content` with the same payload, in
  the node list of the innermost enclosing body;
* a Content token with an EMPTY payload is dropped — that is what the lexer's whitespace filter
  emits for a comment and for text trimmed away entirely next to `-` markers;
* raw blocks reach the parser as Content tokens (Props/C06.lean `filter_removes_raw_and_comment`);
* nothing else consumes a Content token: a successful expression / tag parse never steps over one
  (`Parser.KT.innerParseExpression`, Lemmas/TemplateParserTexts.lean).
`Node.allTextsList` flattens the tree in source order: content node → its text; `if`: body ++
false body (an `elif` is an `If` in the false body); `for`: body ++ else body; block, set-block
and filter-section bodies; the body of a `{% <name ..> %}` component call; expressions carry no
text.  Block bodies are walked WHEREVER the block sits.

Component definitions: `{% component %}` moves its body out of the node list into
`t.componentDefinitions` (text inside a definition goes to THAT definition's body) and the AST does
not record where the definition stood.  So the general statement (`content_tokens_merge_ast_texts`)
is: the non-empty Content payloads are an ORDER-PRESERVING MERGE (`Merge`) of the texts of the node
tree and the texts of the definition bodies, definition after definition in definition order
(`defsTexts`; the texts of one definition are contiguous in it, because no definition is recorded
while another one is being parsed).  Without definitions the merge is an equality
(`content_tokens_are_ast_texts`).  No hypothesis on the token list (not even lexer shape).

`C08Pipeline.content_tokens_are_ast_texts_full` as stated there is FALSE
(`not_content_tokens_are_ast_texts_full`): its `deepTexts` does not descend into a block nested in
a filter section / set block / component-call body / top-level for-else, which the parser accepts.
-/
import TeraModel.Lemmas.TemplateParserTextsT
import TeraModel.Lemmas.TemplateParserTextsG
import TeraModel.Props.C08Pipeline
namespace Tera.C08Parser
open Tera Tera.Parser Tera.TParser

theorem toksTexts_eq_contentPayloads : ∀ toks : List Tok,
    toksTexts toks = C08Pipeline.contentPayloads toks := by
  intro toks
  induction toks with
  | nil => rfl
  | cons t rest ih => cases t <;> simp [toksTexts, C08Pipeline.contentPayloads, ih]

/-- **content_tokens_are_ast_texts.**  For every token list, depth limit and accepted template
without component definitions: all literal texts of the tree, in source order, are exactly the
non-empty Content payloads of the token list, in order. -/
theorem content_tokens_are_ast_texts (maxDepth : Nat) (toks : List Tok) (t : Template) (s : TState)
    (h : parse maxDepth toks = .ok t s) (hd : t.componentDefinitions = []) :
    Node.allTextsList t.nodes = C08Pipeline.contentPayloads toks := by
  rw [← toksTexts_eq_contentPayloads]
  exact parse_texts maxDepth toks t s h hd

/-- **content_tokens_merge_ast_texts.**  For EVERY accepted template: the non-empty Content
payloads of the token list, in order, are an order-preserving merge of all literal texts of the
node tree (source order) and the literal texts of the component definition bodies (definition
after definition).  Every text occurs exactly once, unaltered; nothing else is a text. -/
theorem content_tokens_merge_ast_texts (maxDepth : Nat) (toks : List Tok) (t : Template)
    (s : TState) (h : parse maxDepth toks = .ok t s) :
    Merge (Node.allTextsList t.nodes) (defsTexts t.componentDefinitions)
      (C08Pipeline.contentPayloads toks) := by
  rw [← toksTexts_eq_contentPayloads]
  exact parse_texts_merge maxDepth toks t s h

/-- a successful expression parse never consumes a Content token -/
theorem expression_parse_keeps_texts (C : Cfg) (budget minBp : Nat) (p : PState) (e : Expr)
    (p' : PState) (h : innerParseExpression C budget minBp p = .ok e p') :
    C08Pipeline.contentPayloads p.toks = C08Pipeline.contentPayloads p'.toks := by
  have := PT.of_eq h (KT.innerParseExpression C budget minBp p)
  simpa [← toksTexts_eq_contentPayloads] using this

/-! ### the statement left open in Props/C08Pipeline.lean is false -/

/-- `{% filter upper %}{% block a %}text{% endblock %}{% endfilter %}` -/
def cxToks : List Tok := [.tagStart false, .ident "filter", .ident "upper", .tagEnd false,
  .tagStart false, .ident "block", .ident "a", .tagEnd false, .content "text",
  .tagStart false, .ident "endblock", .tagEnd false, .tagStart false, .ident "endfilter", .tagEnd false]

/-- the counterexample, as a computation: accepted, no component definition, and the shallow
`deepTexts` misses the text of the nested block -/
def cxBad : Bool :=
  shaped .tpl cxToks &&
  match parse 40 cxToks with
  | .ok t _ => t.componentDefinitions.isEmpty
      && (C08Pipeline.deepTexts t.nodes != C08Pipeline.contentPayloads cxToks)
  | _ => false

theorem cxBad_true : cxBad = true := by decide +kernel

/-- **`C08Pipeline.content_tokens_are_ast_texts_full` does not hold**: a block inside a filter
section (likewise a set block, a component-call body, a top-level for-else) is accepted, and
`deepTexts` — which descends into a block only where it is an element of the list it walks —
misses its text.  The true statement is `content_tokens_are_ast_texts` with the fully deep walk. -/
theorem not_content_tokens_are_ast_texts_full : ¬ C08Pipeline.content_tokens_are_ast_texts_full := by
  intro H
  have hb := cxBad_true
  unfold cxBad at hb
  simp only [Bool.and_eq_true] at hb
  obtain ⟨hsh, hm⟩ := hb
  cases hp : parse 40 cxToks with
  | ok t s =>
    rw [hp] at hm
    simp only [Bool.and_eq_true, List.isEmpty_iff, bne_iff_ne, ne_eq] at hm
    exact hm.2 (H 40 cxToks t s hsh hp hm.1)
  | err => rw [hp] at hm; cases hm
  | panic m => rw [hp] at hm; cases hm
  | fuel => rw [hp] at hm; cases hm

end Tera.C08Parser
