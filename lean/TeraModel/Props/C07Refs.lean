/-
C07 (clause "all references are checked when templates are added") over the model of
`finalize_templates` (Model/Finalize.lean) with explicit call tables (Model/FinalizeRefs.lean).

Property theorems only; helper lemmas are in Lemmas/FinalizeRefs.lean, Lemmas/FinalizeRefs2.lean and
the C04 / C10 / C11 lemma files.  The correspondence harness harness/src/bin/c07r.rs ties the call
tables and the acceptance to tera/src/tera.rs (`validate_template_references`) and
tera/src/template.rs (`Template::new`) on every run.

The VM indexes without a check at: `self.tera.filters[name]`, `self.tera.tests[name]`,
`self.tera.functions[name]`, `components.get(name).unwrap_or_else(|| &self.template.components[name])`,
`must_get_template(name)?` (includes, root ancestor), `block_lineage.get(block_name)`.
-/
import TeraModel.Lemmas.FinalizeRefs2
import TeraModel.Lemmas.FinalizeRefs3
import TeraModel.Lemmas.RenderLookups
namespace Tera.C07Refs
open Tera.Reg

/-- **T1 — `finalize_validates`.**  If `finalize_templates` accepts a set (any `HashMap` iteration
orders), then for every template `t` of the set and every name in any of its call tables:
* every filter, test and function name is registered (`super` needs no registration);
* every called component is in the NEW component table, and the table entry names a template of
  the set that defines a component of that name (never a stale definition);
* every include target resolves (exact name first, then prefixes) to a template of the set;
* `t`'s parents are templates of the set, and every block defined by `t` or by any ancestor of
  `t` — i.e. every block a `RenderBlock` executed for `t` can name: the main chunk of the root
  ancestor, `t`'s own main chunk, and every lineage chunk — has a NON-EMPTY lineage stored for `t`,
  all of whose members are templates of `t`'s chain that define that block. -/
theorem finalize_validates (reg : Registered) (ps : List String) (S : List TplR) (o2 o3 : List String)
    (d : Derived) (h : deriveR reg ps S o2 o3 = .ok d)
    (ho2 : ∀ k, has (setOf reg S) k = true → k ∈ o2) (ho3 : ∀ k, has (setOf reg S) k = true → k ∈ o3)
    (t : TplR) (hT : getR S t.base.name = some t) :
    (∀ n ∈ t.filterCalls, n ∈ reg.filters) ∧
    (∀ n ∈ t.testCalls, n ∈ reg.tests) ∧
    (∀ n ∈ t.functionCalls, n = "super" ∨ n ∈ reg.functions) ∧
    (∀ c ∈ t.base.compCalls, ∃ owner u, compOwner d.comps c = some owner ∧ getR S owner = some u ∧
        c ∈ u.base.comps.map (·.name)) ∧
    (∀ n ∈ t.base.includeCalls, ∃ r u, resolve ps (setOf reg S) n = some r ∧ getR S r = some u) ∧
    (∃ parents, lookupParents d.parents t.base.name = some parents ∧
      (∀ p ∈ parents, ∃ u, getR S p = some u) ∧
      ∀ O ∈ chainOf t.base.name parents, ∀ u, getR S O = some u → ∀ bd ∈ u.base.blocks,
        ∃ o l, LB d.lineage t.base.name bd.name = some (o :: l) ∧
          ∀ x ∈ o :: l, x ∈ chainOf t.base.name parents ∧
            ∃ xu, getR S x = some xu ∧ xu.base.hasBlock bd.name = true) := by
  have hget : get (setOf reg S) (t.toTpl reg).name = some (t.toTpl reg) := by
    rw [toTpl_name, get_setOf, hT]; rfl
  obtain ⟨r1, r2, r3, parents, hp, hreg, hblk⟩ :=
    derive_refs_valid ps (setOf reg S) o2 o3 d h ho2 ho3 (t.toTpl reg) hget
  have hub : unknownBuiltin reg t = false := r1
  obtain ⟨f1, f2, f3⟩ := (unknownBuiltin_false_iff reg t).mp hub
  have conv : ∀ k (x : Tpl), get (setOf reg S) k = some x → ∃ u, getR S k = some u ∧ x = u.toTpl reg := by
    intro k x hx
    rw [get_setOf] at hx
    cases hu : getR S k with
    | none => simp [hu] at hx
    | some u => simp only [hu, Option.map_some, Option.some.injEq] at hx; exact ⟨u, rfl, hx.symm⟩
  refine ⟨f1, f2, f3, ?_, ?_, parents, hp, ?_, ?_⟩
  · intro c hc
    obtain ⟨owner, ot, h1, h2, h3⟩ := r2 c hc
    obtain ⟨u, hu, rfl⟩ := conv owner ot h2
    exact ⟨owner, u, h1, hu, h3⟩
  · intro n hn
    obtain ⟨r, hr, hh⟩ := r3 n hn
    obtain ⟨x, hx⟩ := has_iff_get.mp hh
    obtain ⟨u, hu, _⟩ := conv r x hx
    exact ⟨r, u, hr, hu⟩
  · intro p hpm
    obtain ⟨x, hx⟩ := has_iff_get.mp (hreg p hpm)
    obtain ⟨u, hu, _⟩ := conv p x hx
    exact ⟨u, hu⟩
  · intro O hO u hu bd hbd
    have hgO : get (setOf reg S) O = some (u.toTpl reg) := by rw [get_setOf, hu]; rfl
    obtain ⟨o, l, hl, hmem⟩ := hblk O hO (u.toTpl reg) hgO bd hbd
    refine ⟨o, l, hl, ?_⟩
    intro x hx
    obtain ⟨hx1, hx2⟩ := hmem x hx
    refine ⟨hx1, ?_⟩
    unfold definesBlock at hx2
    cases hgx : get (setOf reg S) x with
    | none => simp [hgx] at hx2
    | some xt =>
      obtain ⟨xu, hxu, rfl⟩ := conv x xt hgx
      refine ⟨xu, hxu, ?_⟩
      simp only [hgx] at hx2
      unfold Tpl.hasBlock
      cases hfb : (xu.toTpl reg).findBlock bd.name with
      | none => simp [hfb] at hx2
      | some bb =>
        have : xu.base.findBlock bd.name = some bb := hfb
        simp [this]

/-! ## From call tables to the VM's lookup sites -/

/-- the names one compiled chunk looks up at run time, per lookup site -/
structure ChunkRefs where
  /-- `ApplyFilter(name)`: `self.tera.filters[name]` -/
  filters : List String
  /-- `RunTest(name)`: `self.tera.tests[name]` -/
  tests : List String
  /-- `CallFunction(name)`: `self.tera.functions[name]` unless `name == "super"` -/
  functions : List String
  /-- `Render…Component(name)` -/
  components : List String
  /-- `Include(name)`: `must_get_template(name)?` -/
  includes : List String
  /-- `RenderBlock(name)`: `block_lineage.get(name)` -/
  blocks : List String

/-- What the compiler owes (proved for the real compiler as `refs_complete` by the pipeline model):
every name a chunk compiled from template `t` (main chunk, block chunks, component bodies) looks up
is in the corresponding call table of `t`, and every block it renders is a block of `t`. -/
def RefsComplete (t : TplR) (chunks : List ChunkRefs) : Prop :=
  ∀ ch ∈ chunks,
    (∀ n ∈ ch.filters, n ∈ t.filterCalls) ∧ (∀ n ∈ ch.tests, n ∈ t.testCalls) ∧
    (∀ n ∈ ch.functions, n ∈ t.functionCalls) ∧ (∀ n ∈ ch.components, n ∈ t.base.compCalls) ∧
    (∀ n ∈ ch.includes, n ∈ t.base.includeCalls) ∧
    (∀ b ∈ ch.blocks, ∃ bd ∈ t.base.blocks, bd.name = b)

/-- **None of the unchecked lookups can fail.**  In an accepted set, for every chunk compiled from a
template `t` of the set whose names are covered by the call tables: every filter / test / function
index hits a registered name, every component lookup hits the new table (with a current
definition), every include resolves, and — for every template `v` of the set that can execute the
chunk (`t` is `v` or one of its ancestors) — every `RenderBlock` finds a non-empty lineage in `v`. -/
theorem vm_lookups_succeed (reg : Registered) (ps : List String) (S : List TplR) (o2 o3 : List String)
    (d : Derived) (h : deriveR reg ps S o2 o3 = .ok d)
    (ho2 : ∀ k, has (setOf reg S) k = true → k ∈ o2) (ho3 : ∀ k, has (setOf reg S) k = true → k ∈ o3)
    (t : TplR) (hT : getR S t.base.name = some t) (chunks : List ChunkRefs) (hc : RefsComplete t chunks)
    (ch : ChunkRefs) (hch : ch ∈ chunks) :
    (∀ n ∈ ch.filters, n ∈ reg.filters) ∧ (∀ n ∈ ch.tests, n ∈ reg.tests) ∧
    (∀ n ∈ ch.functions, n = "super" ∨ n ∈ reg.functions) ∧
    (∀ c ∈ ch.components, ∃ owner u, compOwner d.comps c = some owner ∧ getR S owner = some u ∧
        c ∈ u.base.comps.map (·.name)) ∧
    (∀ n ∈ ch.includes, ∃ r u, resolve ps (setOf reg S) n = some r ∧ getR S r = some u) ∧
    (∀ v : TplR, getR S v.base.name = some v → ∀ parents, lookupParents d.parents v.base.name = some parents →
      t.base.name ∈ chainOf v.base.name parents →
      ∀ b ∈ ch.blocks, ∃ o l, LB d.lineage v.base.name b = some (o :: l)) := by
  obtain ⟨c1, c2, c3, c4, c5, c6⟩ := hc ch hch
  obtain ⟨f1, f2, f3, f4, f5, _⟩ := finalize_validates reg ps S o2 o3 d h ho2 ho3 t hT
  refine ⟨fun n hn => f1 n (c1 n hn), fun n hn => f2 n (c2 n hn), fun n hn => f3 n (c3 n hn),
    fun n hn => f4 n (c4 n hn), fun n hn => f5 n (c5 n hn), ?_⟩
  intro v hv parents hp hin b hb
  obtain ⟨bd, hbd, rfl⟩ := c6 b hb
  obtain ⟨_, _, _, _, _, parents', hp', _, hblk⟩ := finalize_validates reg ps S o2 o3 d h ho2 ho3 v hv
  rw [hp] at hp'
  cases hp'
  obtain ⟨o, l, hl, _⟩ := hblk t.base.name hin t hT bd hbd
  exact ⟨o, l, hl⟩

/-! ## T3 — rejected exactly when a reference is unknown -/

/-- what `validate_template_references` and the orphan-block check report for one template, given
the new component table `comps` -/
def HasUnknownReference (reg : Registered) (ps : List String) (S : List TplR) (comps : CompSources)
    (parents : List String) (t : TplR) : Prop :=
  (∃ n ∈ t.filterCalls, n ∉ reg.filters) ∨ (∃ n ∈ t.testCalls, n ∉ reg.tests) ∨
  (∃ n ∈ t.functionCalls, n ≠ "super" ∧ n ∉ reg.functions) ∨
  (∃ c ∈ t.base.compCalls, compLookup comps c = none) ∨
  (∃ n ∈ t.base.includeCalls, resolve ps (setOf reg S) n = none) ∨
  hasOrphanBlock (setOf reg S) parents (t.toTpl reg) = true

/-- **T3.**  Once the graph checks and the component table have gone through (first loop), the set
is accepted if and only if no template has an unknown filter, test, function, component or include
target (nor an orphan block); otherwise the call fails with the collected `Error::message` — for
every iteration order.  So an unknown reference anywhere in the set can never survive a
registration call, and nothing else makes this stage fail. -/
theorem rejected_iff_unknown_reference (reg : Registered) (ps : List String) (S : List TplR)
    (o2 o3 : List String) (l1 : Loop1)
    (h1 : loop1 ps (setOf reg S) {} (sortDedup (keys (setOf reg S))) = .ok l1)
    (ho2 : ∀ k, k ∈ o2 ↔ has (setOf reg S) k = true) (ho3 : ∀ k, k ∈ o3 → has (setOf reg S) k = true) :
    (deriveR reg ps S o2 o3 = .error .msg ↔
      ∃ t parents, getR S t.base.name = some t ∧ lookupParents l1.parents t.base.name = some parents ∧
        HasUnknownReference reg ps S l1.comps parents t) ∧
    ((∃ d, deriveR reg ps S o2 o3 = .ok d) ∨ deriveR reg ps S o2 o3 = .error .msg) := by
  obtain ⟨hcases, hiff⟩ := derive_after_loop1 ps (setOf reg S) o2 o3 l1 h1 ho2 ho3
  refine ⟨?_, hcases⟩
  have flag_iff : ∀ (t : TplR) (p : List String),
      (hasRefErrors ps (setOf reg S) l1.comps (t.toTpl reg) || hasOrphanBlock (setOf reg S) p (t.toTpl reg)) = true ↔
        HasUnknownReference reg ps S l1.comps p t := by
    intro t p
    rw [Bool.or_eq_true, hasRefErrors_true_iff]
    have hb : (t.toTpl reg).badRefs = true ↔
        (∃ n ∈ t.filterCalls, n ∉ reg.filters) ∨ (∃ n ∈ t.testCalls, n ∉ reg.tests) ∨
        (∃ n ∈ t.functionCalls, n ≠ "super" ∧ n ∉ reg.functions) := by
      show unknownBuiltin reg t = true ↔ _
      unfold unknownBuiltin
      simp only [Bool.or_eq_true, List.any_eq_true, Bool.not_eq_true', List.contains_eq_mem,
        decide_eq_false_iff_not, Bool.and_eq_true, bne_iff_ne, ne_eq, or_assoc]
    unfold HasUnknownReference
    rw [hb]
    constructor
    · rintro ((h | h | h) | h)
      · rcases h with h | h | h
        · exact .inl h
        · exact .inr (.inl h)
        · exact .inr (.inr (.inl h))
      · exact .inr (.inr (.inr (.inl h)))
      · exact .inr (.inr (.inr (.inr (.inl h))))
      · exact .inr (.inr (.inr (.inr (.inr h))))
    · rintro (h | h | h | h | h | h)
      · exact .inl (.inl (.inl h))
      · exact .inl (.inl (.inr (.inl h)))
      · exact .inl (.inl (.inr (.inr h)))
      · exact .inl (.inr (.inl h))
      · exact .inl (.inr (.inr h))
      · exact .inr h
  constructor
  · intro herr
    -- not accepted, so some template raises the flag
    have hno : ¬ ∃ d, derive ps (setOf reg S) o2 o3 = .ok d := by
      rintro ⟨d, hd⟩
      have : deriveR reg ps S o2 o3 = .ok d := hd
      rw [this] at herr
      cases herr
    rw [hiff] at hno
    simp only [not_forall] at hno
    obtain ⟨x, p, hx, hp, hflag⟩ := hno
    rw [get_setOf] at hx
    cases hu : getR S x.name with
    | none => simp [hu] at hx
    | some u =>
      simp only [hu, Option.map_some, Option.some.injEq] at hx
      have hn := getR_name hu
      subst hx
      have hflag' : (hasRefErrors ps (setOf reg S) l1.comps (u.toTpl reg) ||
          hasOrphanBlock (setOf reg S) p (u.toTpl reg)) = true := by
        cases hb : (hasRefErrors ps (setOf reg S) l1.comps (u.toTpl reg) ||
          hasOrphanBlock (setOf reg S) p (u.toTpl reg)) with
        | true => rfl
        | false => exact absurd hb hflag
      exact ⟨u, p, by rw [hn]; exact hu, hp, (flag_iff u p).mp hflag'⟩
  · rintro ⟨t, p, hT, hp, hunk⟩
    rcases hcases with ⟨d, hd⟩ | herr
    · exfalso
      have := (hiff.mp ⟨d, hd⟩) (t.toTpl reg) p (by rw [toTpl_name, get_setOf, hT]; rfl) hp
      rw [(flag_iff t p).mpr hunk] at this
      cases this
    · exact herr

/-! ## T2 — the invariant along every registration history -/

/-- **T2.**  After ANY sequence of `add_raw_templates` (single or batched, successful or failing for
whatever reason) and `autoescape_on` calls on a fresh instance, for every `HashMap` iteration
order, every stored template `e` satisfies, against what the instance STORES NOW:
its filter / test / function names are registered; every component it calls is in the stored
component table and that entry names a template stored now that defines it now (a stale definition
can never satisfy a reference: a success rebuilds the table from the validated set, a failure
restores the map and leaves the table alone); every include target resolves to a stored template;
its stored parents are stored templates; every block of its chain has a non-empty stored lineage
whose members are stored templates that define the block. -/
theorem refs_valid_after_any_history (reg : Registered) (prefixes : List String)
    (ord2 ord3 : List String → List String)
    (he2 : ∀ ks k, k ∈ ks → k ∈ ord2 ks) (he3 : ∀ ks k, k ∈ ks → k ∈ ord3 ks) (ops : List OpR) :
    StateRefsValid reg (runOps ord2 ord3 (State.init prefixes) (ops.map (OpR.toOp reg))) := by
  apply stateRefsValid_history reg ord2 ord3 he2 he3 ops
  intro k e he
  simp [State.init, eget] at he

/-- the component clause of T2 on its own (what seeded change C07-2 breaks): whatever the history,
a component a stored template calls is provided by a template that is stored now and defines it now -/
theorem no_stale_component (reg : Registered) (prefixes : List String)
    (ord2 ord3 : List String → List String)
    (he2 : ∀ ks k, k ∈ ks → k ∈ ord2 ks) (he3 : ∀ ks k, k ∈ ks → k ∈ ord3 ks) (ops : List OpR)
    (k : String) (e : Entry)
    (he : eget (runOps ord2 ord3 (State.init prefixes) (ops.map (OpR.toOp reg))).templates k = some e)
    (c : String) (hc : c ∈ e.tpl.compCalls) :
    ∃ owner oe, compOwner (runOps ord2 ord3 (State.init prefixes) (ops.map (OpR.toOp reg))).comps c = some owner ∧
      eget (runOps ord2 ord3 (State.init prefixes) (ops.map (OpR.toOp reg))).templates owner = some oe ∧
      c ∈ oe.tpl.comps.map (·.name) :=
  (refs_valid_after_any_history reg prefixes ord2 ord3 he2 he3 ops k e he).2.1 c hc

/-! ## The render skeleton never meets a failing lookup -/

/-- **No unchecked lookup fails at run time** (on the render skeleton of Model/RenderSkel.lean, whose
`.panic`, `.noLineage` and `.templateNotFound` outcomes are exactly the VM's unchecked lookups:
`templates[..]`, `components[..]` / `self.template.components[..]`, `block_lineage.get(..)`, the
lineage chunk of a block, `must_get_template` for includes and for the root ancestor).  For every
accepted set, every registered template and every fuel, rendering ends in text, in one of the
checked run-time errors (`super()` without a parent block, the component depth cap) or in fuel
exhaustion — never in a failed lookup. -/
theorem render_never_fails_a_lookup (ps : List String) (S : List Tpl) (o2 o3 : List String) (d : Derived)
    (h : derive ps S o2 o3 = .ok d)
    (ho2 : ∀ k, has S k = true → k ∈ o2) (ho3 : ∀ k, has S k = true → k ∈ o3)
    (view : String) (hview : has S view = true) (parents : List String)
    (hp : lookupParents d.parents view = some parents) (fuel : Nat) :
    ¬ LookupFailure (renderTpl (envOf ps S d) parents fuel view) := by
  have hv := envValid_of_derive ps S o2 o3 d h ho2 ho3
  have hroot : parents.head?.getD view ∈ chainOf view parents := by
    cases parents with
    | nil => simp [chainOf]
    | cons q qs => simp [chainOf]
  have hreg := hv.chainReg view parents hview hp _ hroot
  obtain ⟨root, hg⟩ := has_iff_get.mp hreg
  unfold renderTpl
  simp only
  have hg' : get (envOf ps S d).S (parents.head?.getD view) = some root := hg
  rw [hg']
  simp only
  apply run_no_lookup_failure (envOf ps S d) (lookupParents d.parents) hv fuel view
  · exact ⟨⟨rfl, hview, by intro e he; cases he⟩, by intro cb hcb; cases hcb⟩
  · exact goodItems_bodyOfTpl hv hp hroot hg

end Tera.C07Refs
