/-
`sort` refuses every input in which two elements at different positions (none aside) are not
`partial_cmp`-comparable — nested arrays and maps included.

`ensure_comparable` only looks at neighbours of the `cmp`-sorted sequence.  That this is enough
needs: (1) `partial_cmp` is symmetric in whether it answers; (2) along the `cmp` order
comparability is transitive: `a ≤ d ≤ b`, `a ~ d`, `d ~ b` ⇒ `a ~ b` (for arrays: the first
position where `a` and `b` differ is reached by `d` too).
-/
import TeraModel.Lemmas.CollLemmas
import Mathlib.Data.List.Perm.Subperm
set_option linter.unusedVariables false
namespace Tera
open Tera.Value
namespace Coll

/-- `partial_cmp` answers -/
def Cmpb (a b : Value) : Prop := Value.partialCmp a b ≠ Option.none
/-- `≤` under `cmp` -/
def Le (a b : Value) : Prop := Value.cmp a b ≠ .gt

theorem partialCmp_eq_some_cmp {a b : Value} (h : Cmpb a b) : Value.partialCmp a b = some (Value.cmp a b) := by
  cases hp : Value.partialCmp a b with
  | none => exact absurd hp h
  | some o => rw [cmp_of_partialCmp hp]

theorem scalar_of_same_rank {a b : Value} (sa : isScalar a = true) (hr : a.typeOrder = b.typeOrder) :
    isScalar b = true := by
  cases hb : b with
  | arr ys =>
    subst hb
    obtain ⟨xs, rfl⟩ := inv_arr (a := a) (by rw [hr]; rfl)
    simp [isScalar] at sa
  | map m =>
    subst hb
    obtain ⟨x, rfl⟩ := inv_map (a := a) (by rw [hr]; rfl)
    simp [isScalar] at sa
  | _ => rfl

/-! ### (1) swapping the operands of `partial_cmp` -/

theorem partialCmpList_swap (xs ys : List Value)
    (h : ∀ x ∈ xs, ∀ y ∈ ys, Value.partialCmp y x = (Value.partialCmp x y).map Ordering.swap) :
    partialCmpList ys xs = (partialCmpList xs ys).map Ordering.swap := by
  induction xs generalizing ys with
  | nil => cases ys <;> rfl
  | cons x xs ih =>
    cases ys with
    | nil => rfl
    | cons y ys =>
      have hxy := h x (by simp) y (by simp)
      have ih' := ih ys (fun a ha b hb => h a (by simp [ha]) b (by simp [hb]))
      simp only [partialCmpList, hxy]
      cases hp : Value.partialCmp x y with
      | none => rfl
      | some o => cases o <;> simp [Ordering.swap, ih']

theorem partialCmp_swap_n (n : Nat) : ∀ a b : Value, a.WF → b.WF → a.size < n →
    Value.partialCmp b a = (Value.partialCmp a b).map Ordering.swap := by
  induction n with
  | zero => intro a b _ _ h; exact absurd h (Nat.not_lt_zero _)
  | succ n ih =>
    intro a b wa wb hs
    by_cases hr : a.typeOrder = b.typeOrder
    · by_cases sa : isScalar a = true
      · have sb := scalar_of_same_rank sa hr
        have h1 := partialCmp_eq_some_cmp (partialCmp_scalar_same a b wa wb sa hr)
        have h2 := partialCmp_eq_some_cmp (partialCmp_scalar_same b a wb wa sb hr.symm)
        rw [h1, h2, cmp_laws.rev a b wa wb]; rfl
      · cases a with
        | arr xs =>
          obtain ⟨ys, rfl⟩ := inv_arr (a := b) (by rw [← hr]; rfl)
          simp only [partialCmp]
          apply partialCmpList_swap
          intro x hx y hy
          exact ih x y (wa.arr_mem x hx) (wb.arr_mem y hy) (by have := size_lt_of_mem hx; omega)
        | map m =>
          obtain ⟨m', rfl⟩ := inv_map (a := b) (by rw [← hr]; rfl)
          simp [partialCmp, numPartialCmp, isInteger]
        | _ => simp [isScalar] at sa
    · rw [partialCmp_cross a b hr, partialCmp_cross b a (Ne.symm hr)]; rfl

theorem Cmpb.symm {a b : Value} (wa : a.WF) (wb : b.WF) (h : Cmpb a b) : Cmpb b a := by
  unfold Cmpb at h ⊢
  rw [partialCmp_swap_n (a.size + 1) a b wa wb (by omega)]
  cases hp : Value.partialCmp a b with
  | none => exact absurd hp h
  | some o => simp

/-! ### (2) comparability is transitive along the order -/

theorem partialCmpList_trans (xs ds ys : List Value)
    (wx : ∀ x ∈ xs, x.WF) (wd : ∀ x ∈ ds, x.WF) (wy : ∀ x ∈ ys, x.WF)
    (hel : ∀ x ∈ xs, ∀ d ∈ ds, ∀ y ∈ ys, Le x d → Le d y → Cmpb x d → Cmpb d y → Cmpb x y)
    (l1 : lexCmp Value.cmp xs ds ≠ .gt) (l2 : lexCmp Value.cmp ds ys ≠ .gt)
    (c1 : partialCmpList xs ds ≠ Option.none) (c2 : partialCmpList ds ys ≠ Option.none) :
    partialCmpList xs ys ≠ Option.none := by
  induction xs generalizing ds ys with
  | nil => cases ys <;> simp [partialCmpList]
  | cons x xs ih =>
    cases ds with
    | nil => simp [lexCmp] at l1
    | cons d ds =>
      cases ys with
      | nil => simp [lexCmp] at l2
      | cons y ys =>
        have wxx := wx x (by simp)
        have wdd := wd d (by simp)
        have wyy := wy y (by simp)
        simp only [lexCmp] at l1 l2
        simp only [partialCmpList] at c1 c2 ⊢
        -- the heads
        have cxd : Cmpb x d := by
          intro hn; rw [hn] at c1; exact c1 rfl
        have cdy : Cmpb d y := by
          intro hn; rw [hn] at c2; exact c2 rfl
        have pxd := partialCmp_eq_some_cmp cxd
        have pdy := partialCmp_eq_some_cmp cdy
        have lxd : Le x d := by
          intro hg; rw [hg] at l1; exact l1 rfl
        have ldy : Le d y := by
          intro hg; rw [hg] at l2; exact l2 rfl
        have cxy : Cmpb x y := hel x (by simp) d (by simp) y (by simp) lxd ldy cxd cdy
        have pxy := partialCmp_eq_some_cmp cxy
        rw [pxd] at c1; rw [pdy] at c2; rw [pxy]
        have L := cmp_laws
        cases hxd : Value.cmp x d with
        | gt => exact absurd hxd lxd
        | lt =>
          cases hdy : Value.cmp d y with
          | gt => exact absurd hdy ldy
          | lt => rw [L.lt_trans wxx wdd wyy hxd hdy]; simp
          | eq => rw [← L.congr_right wxx wdd wyy hdy, hxd]; simp
        | eq =>
          rw [L.congr_left wxx wdd wyy hxd]
          cases hdy : Value.cmp d y with
          | gt => exact absurd hdy ldy
          | lt => simp
          | eq =>
            simp only [hxd, hdy] at c1 c2 l1 l2 ⊢
            exact ih ds ys (fun a ha => wx a (by simp [ha])) (fun a ha => wd a (by simp [ha]))
              (fun a ha => wy a (by simp [ha]))
              (fun a ha b hb c hc => hel a (by simp [ha]) b (by simp [hb]) c (by simp [hc])) l1 l2 c1 c2

theorem cmpb_trans_n (n : Nat) : ∀ a d b : Value, a.WF → d.WF → b.WF → a.size < n →
    Le a d → Le d b → Cmpb a d → Cmpb d b → Cmpb a b := by
  induction n with
  | zero => intro a d b _ _ _ h; exact absurd h (Nat.not_lt_zero _)
  | succ n ih =>
    intro a d b wa wd wb hs l1 l2 c1 c2
    have r1 : a.typeOrder = d.typeOrder := by
      by_contra hr; exact c1 (partialCmp_cross a d hr)
    have r2 : d.typeOrder = b.typeOrder := by
      by_contra hr; exact c2 (partialCmp_cross d b hr)
    by_cases sa : isScalar a = true
    · exact partialCmp_scalar_same a b wa wb sa (r1.trans r2)
    · cases a with
      | arr xs =>
        obtain ⟨ds, rfl⟩ := inv_arr (a := d) (by rw [← r1]; rfl)
        obtain ⟨ys, rfl⟩ := inv_arr (a := b) (by rw [← r2, ← r1]; rfl)
        unfold Le at l1 l2
        rw [cmp_arr] at l1 l2
        unfold Cmpb at c1 c2 ⊢
        simp only [partialCmp] at c1 c2 ⊢
        apply partialCmpList_trans xs ds ys wa.arr_mem wd.arr_mem wb.arr_mem ?_ l1 l2 c1 c2
        intro x hx d' hd y hy
        exact ih x d' y (wa.arr_mem x hx) (wd.arr_mem d' hd) (wb.arr_mem y hy)
          (by have := size_lt_of_mem hx; omega)
      | map m =>
        obtain ⟨m', rfl⟩ := inv_map (a := d) (by rw [← r1]; rfl)
        exfalso; apply c1; simp [partialCmp, numPartialCmp, isInteger]
      | _ => simp [isScalar] at sa

theorem cmpb_trans {a d b : Value} (wa : a.WF) (wd : d.WF) (wb : b.WF)
    (l1 : Le a d) (l2 : Le d b) (c1 : Cmpb a d) (c2 : Cmpb d b) : Cmpb a b :=
  cmpb_trans_n (a.size + 1) a d b wa wd wb (by omega) l1 l2 c1 c2

/-! ### a sorted chain of comparable neighbours is comparable all over -/

theorem chain_sorted_pairwise (l : List Value) (w : ∀ x ∈ l, x.WF) (s : Sorted Value.cmp l)
    (c : ChainComparable l) : l.Pairwise Cmpb := by
  induction l with
  | nil => exact List.Pairwise.nil
  | cons a rest ih =>
    unfold Sorted at s
    rw [List.pairwise_cons] at s
    have wr : ∀ x ∈ rest, x.WF := fun x hx => w x (by simp [hx])
    cases rest with
    | nil => simp
    | cons d rest' =>
      have ihp := ih wr s.2 c.2
      rw [List.pairwise_cons]
      refine ⟨?_, ihp⟩
      rw [List.pairwise_cons] at ihp
      have hs2 := s.2
      rw [List.pairwise_cons] at hs2
      intro b hb
      rcases List.mem_cons.1 hb with rfl | hb
      · exact c.1
      · exact cmpb_trans (w a (by simp)) (w d (by simp)) (wr b (by simp [hb]))
          (s.1 d (by simp)) (hs2.1 b hb) c.1 (ihp.1 b hb)

/-- `[a, b] <+~ l` (Batteries `List.Subperm`): `a` and `b` occur in `l` at two different
positions, in either order.  If two such elements are neither none nor comparable, a `cmp`-sorted
`l` is refused by `ensure_comparable`. -/
theorem ensureComparable_refuses (L : List Value) (w : ∀ x ∈ L, x.WF) (s : Sorted Value.cmp L)
    (a b : Value) (na : a ≠ .none) (nb : b ≠ .none)
    (hab : Value.partialCmp a b = Option.none) (sub : List.Subperm [a, b] L) :
    ensureComparable L = false := by
  cases hc : ensureComparable L with
  | false => rfl
  | true =>
    exfalso
    have ch := (ensureComparable_iff L).1 hc
    have wn : ∀ x ∈ nonNone L, x.WF := fun x hx => w x (List.mem_filter.1 hx).1
    have sn : Sorted Value.cmp (nonNone L) := List.Pairwise.filter _ s
    have pw := chain_sorted_pairwise (nonNone L) wn sn ch
    have fa : isNoneV a = false := by
      cases h : isNoneV a with
      | false => rfl
      | true => exact absurd ((isNoneV_iff a).1 h) na
    have fb : isNoneV b = false := by
      cases h : isNoneV b with
      | false => rfl
      | true => exact absurd ((isNoneV_iff b).1 h) nb
    have sub' : List.Subperm [a, b] (nonNone L) := by
      have := List.Subperm.filter (fun v => !isNoneV v) sub
      simpa [nonNone, List.filter_cons, fa, fb] using this
    obtain ⟨l', hperm, hsub⟩ := sub'
    have pw' : l'.Pairwise (fun x y => Cmpb x y ∨ Cmpb y x) :=
      (pw.sublist hsub).imp (fun h => Or.inl h)
    have pw2 : [a, b].Pairwise (fun x y => Cmpb x y ∨ Cmpb y x) :=
      (hperm.pairwise_iff (fun {x y} h => h.symm)).1 pw'
    have wa : a.WF := w a (sub.subset (by simp))
    have wb : b.WF := w b (sub.subset (by simp))
    rw [List.pairwise_cons] at pw2
    rcases pw2.1 b (by simp) with h | h
    · exact h hab
    · exact (Cmpb.symm wb wa h) hab

end Coll
end Tera
