/-
C18 on the value-level VM, part 1 (W1): what one turn of the interpreter loop does to the output
of the running `interpret` call (`State.out`): it only ever appends to it.

One lemma per instruction arm of Model/Vm.lean.  `OutGrows rec` is the same statement for the
nested `interpret` calls an arm makes through `rec` (closed by induction on the nesting fuel in
`interp_out_grows`).
-/
import TeraModel.Model.Vm
namespace Tera.Vm
open Tera

/-! ### error helpers never continue -/

@[simp] theorem raise_ne_next (env : Env) (vm : VmCtx) (c : Chunk) (e : RErr) (pc : Nat) (st : State) :
    (raise env vm c e = .next pc st) = False := by
  unfold raise; split <;> simp

@[simp] theorem renderingError_ne_next (env : Env) (vm : VmCtx) (c : Chunk) (r : SpanRange) (e : RErr)
    (pc : Nat) (st : State) : (renderingError env vm c r e = .next pc st) = False := by
  unfold renderingError; split <;> simp

@[simp] theorem errorAt_ne_next (env : Env) (vm : VmCtx) (c : Chunk) (pc k : Nat) (site : String)
    (e : RErr) (pc' : Nat) (st : State) : (errorAt env vm c pc k site e = .next pc' st) = False := by
  unfold errorAt; split <;> simp

/-! ### the two sinks -/

theorem write_out_prefix (st : State) (t : List Char) : st.out <+: (st.write t).out := by
  unfold State.write
  split
  · exact List.prefix_append _ _
  · exact List.prefix_refl _

theorem write_out_eq (st : State) (t : List Char) :
    (st.write t).out = st.out ++ (if st.captures.isEmpty then t else []) := by
  unfold State.write
  split <;> rename_i h <;> simp [h]

theorem emitValue_out_prefix (env : Env) (vm : VmCtx) (v : Value) (st : State) :
    st.out <+: (emitValue env vm v st).out := write_out_prefix _ _

/-- nested `interpret` calls only append to the output they are given -/
def OutGrows (rec : VmCtx → Chunk → State → RunRes) : Prop :=
  ∀ vm c st st', rec vm c st = .done st' → st.out <+: st'.out

variable {rec : VmCtx → Chunk → State → RunRes} {env : Env} {vm : VmCtx} {c : Chunk}
  {pc pc' : Nat} {st st' : State}

/-- closes the goals of an arm that leaves `out` alone -/
macro "out_same" h:ident : tactic => `(tactic| (
  repeat' split at $h:ident
  all_goals first
    | (exfalso; simp at $h:ident; done)
    | (simp only [StepRes.next.injEq] at $h:ident; rcases $h:ident with ⟨_, h2⟩; subst h2
       first | exact List.prefix_refl _ | exact write_out_prefix _ _)))

theorem out_loadAttr (attr : String) (opt : Bool) (h : stepLoadAttr env vm c attr opt pc st = .next pc' st') :
    st.out <+: st'.out := by
  unfold stepLoadAttr at h; out_same h

theorem out_subscript (opt : Bool) (h : stepSubscript env vm c opt pc st = .next pc' st') :
    st.out <+: st'.out := by
  unfold stepSubscript at h; out_same h

theorem out_slice (opt : Bool) (h : stepSlice env vm c opt pc st = .next pc' st') :
    st.out <+: st'.out := by
  unfold stepSlice at h; out_same h

theorem out_writeTop (h : stepWriteTop env vm c pc st = .next pc' st') : st.out <+: st'.out := by
  unfold stepWriteTop at h
  split at h
  · simp at h
  · rename_i top topSpan rest hs
    split at h
    · simp at h
    · simp only [StepRes.next.injEq] at h; rcases h with ⟨_, h2⟩; subst h2
      exact emitValue_out_prefix env vm top { st with stack := rest }

theorem out_set (n : String) (g : Bool) (h : stepSet n g pc st = .next pc' st') : st.out <+: st'.out := by
  unfold stepSet at h; out_same h

theorem out_buildMap (n : Nat) (h : stepBuildMap n pc st = .next pc' st') : st.out <+: st'.out := by
  unfold stepBuildMap State.push at h; out_same h

theorem out_buildList (n : Nat) (h : stepBuildList n pc st = .next pc' st') : st.out <+: st'.out := by
  unfold stepBuildList at h; out_same h

/-- the popping loops hand back an error or a panic, never a continuation -/
def StepRes.isNext : StepRes → Bool
  | .next .. => true
  | _ => false

@[simp] theorem isNext_raise (e : RErr) : (raise env vm c e).isNext = false := by
  unfold raise; split <;> rfl

@[simp] theorem isNext_renderingError (r : SpanRange) (e : RErr) :
    (renderingError env vm c r e).isNext = false := by
  unfold renderingError; split <;> simp [StepRes.isNext]

@[simp] theorem isNext_errorAt (k : Nat) (site : String) (e : RErr) :
    (errorAt env vm c pc k site e).isNext = false := by
  unfold errorAt; split <;> simp [StepRes.isNext]

theorem popSpreadMap_inl (flags : List Bool) (stk : List Slot) (acc : Entries) (r : StepRes)
    (h : popSpreadMap env vm c flags stk acc = .inl r) : r.isNext = false := by
  fun_induction popSpreadMap env vm c flags stk acc <;>
    first | (simp only [Sum.inl.injEq] at h; subst h; simp [StepRes.isNext]; done) | (simp_all; done)

theorem popSpreadList_inl (flags : List Bool) (stk : List Slot) (acc : List Value) (r : StepRes)
    (h : popSpreadList env vm c flags stk acc = .inl r) : r.isNext = false := by
  fun_induction popSpreadList env vm c flags stk acc <;>
    first | (simp only [Sum.inl.injEq] at h; subst h; simp [StepRes.isNext]; done) | (simp_all; done)

theorem out_buildMapWithSpreads (flags : List Bool)
    (h : stepBuildMapWithSpreads env vm c flags pc st = .next pc' st') : st.out <+: st'.out := by
  unfold stepBuildMapWithSpreads at h
  split at h
  · rename_i r hr
    have := popSpreadMap_inl _ _ _ _ hr
    rw [h] at this; simp [StepRes.isNext] at this
  · out_same h

theorem out_buildListWithSpreads (flags : List Bool)
    (h : stepBuildListWithSpreads env vm c flags pc st = .next pc' st') : st.out <+: st'.out := by
  unfold stepBuildListWithSpreads at h
  split at h
  · rename_i r hr
    have := popSpreadList_inl _ _ _ _ hr
    rw [h] at this; simp [StepRes.isNext] at this
  · out_same h

theorem out_filterOrTest (isTest : Bool) (name : String)
    (h : stepFilterOrTest env vm c isTest name pc st = .next pc' st') : st.out <+: st'.out := by
  unfold stepFilterOrTest at h; dsimp only at h; out_same h

theorem out_endCapture (h : stepEndCapture pc st = .next pc' st') : st.out <+: st'.out := by
  unfold stepEndCapture at h; out_same h

theorem out_startIterate (kv compr : Bool)
    (h : stepStartIterate env vm c kv compr pc st = .next pc' st') : st.out <+: st'.out := by
  unfold stepStartIterate at h; out_same h

theorem out_storeLocal (n : String) (h : stepStoreLocal n pc st = .next pc' st') : st.out <+: st'.out := by
  unfold stepStoreLocal at h; out_same h

theorem out_iterate (t : Nat) (h : stepIterate t pc st = .next pc' st') : st.out <+: st'.out := by
  unfold stepIterate at h; out_same h

theorem out_storeDidNotIterate (h : stepStoreDidNotIterate pc st = .next pc' st') :
    st.out <+: st'.out := by
  unfold stepStoreDidNotIterate State.push at h; out_same h

theorem out_break (h : stepBreak pc st = .next pc' st') : st.out <+: st'.out := by
  unfold stepBreak at h; out_same h

theorem out_appendToList (h : stepAppendToList pc st = .next pc' st') : st.out <+: st'.out := by
  unfold stepAppendToList at h; out_same h

theorem out_math (op : MathOp) (h : stepMath env vm c op pc st = .next pc' st') : st.out <+: st'.out := by
  unfold stepMath at h; out_same h

theorem out_plus (h : stepPlus env vm c pc st = .next pc' st') : st.out <+: st'.out := by
  unfold stepPlus at h; out_same h

theorem out_cmp (op : CmpOp) (h : stepCmp env vm c op pc st = .next pc' st') : st.out <+: st'.out := by
  unfold stepCmp at h; out_same h

theorem out_equal (neg : Bool) (h : stepEqual neg pc st = .next pc' st') : st.out <+: st'.out := by
  unfold stepEqual at h; out_same h

theorem out_strConcat (h : stepStrConcat env pc st = .next pc' st') : st.out <+: st'.out := by
  unfold stepStrConcat at h
  split at h
  · simp at h
  · simp at h
  · simp only [StepRes.next.injEq] at h; rcases h with ⟨_, h2⟩; subst h2; exact List.prefix_refl _

theorem out_in (h : stepIn env vm c pc st = .next pc' st') : st.out <+: st'.out := by
  unfold stepIn at h; out_same h

theorem out_not (h : stepNot pc st = .next pc' st') : st.out <+: st'.out := by
  unfold stepNot at h; out_same h

theorem out_negative (h : stepNegative env vm c pc st = .next pc' st') : st.out <+: st'.out := by
  unfold stepNegative at h; out_same h

theorem out_popJumpIfFalse (t : Nat) (h : stepPopJumpIfFalse t pc st = .next pc' st') :
    st.out <+: st'.out := by
  unfold stepPopJumpIfFalse at h; out_same h

theorem out_jumpOrPop (w : Bool) (t : Nat) (h : stepJumpOrPop w t pc st = .next pc' st') :
    st.out <+: st'.out := by
  unfold stepJumpOrPop at h; out_same h

theorem walkLoad_stop (cur : Value) (k : Nat) (attrs : List String) (r : StepRes)
    (h : walkLoad env vm c pc cur k attrs = .stop r) : r.isNext = false := by
  fun_induction walkLoad env vm c pc cur k attrs <;>
    first | (simp only [Walk.stop.injEq] at h; subst h; simp [StepRes.isNext]; done) | (simp_all; done)

theorem walkWrite_stop (cur : Value) (k : Nat) (attrs : List String) (r : StepRes)
    (h : walkWrite env vm c pc cur k attrs = .stop r) : r.isNext = false := by
  fun_induction walkWrite env vm c pc cur k attrs <;>
    first | (simp only [Walk.stop.injEq] at h; subst h; simp [StepRes.isNext]; done) | (simp_all; done)

/-- `LoadPath` once the root is looked up -/
def loadTail (env : Env) (vm : VmCtx) (c : Chunk) (attrs : List String) (pc : Nat) (st : State)
    (val : Value) : StepRes :=
  if attrs ≠ [] then
    if val.isUndef then errorAt env vm c pc 0 "interpreter.rs:785 to have a span for error" .undefinedVariable
    else match walkLoad env vm c pc val 0 attrs with
      | .val v => .next (pc + 1) (st.push v (pc, pc))
      | .stop r => r
  else .next (pc + 1) (st.push val (pc, pc))

/-- the root `LoadPath` / `WritePath` look up -/
def pathRoot (st : State) (n : String) (attrs : List String) : Value :=
  if attrs = [] then lookupName st.scope n else st.scope.getValue n

theorem stepLoadPath_cons (n : String) (attrs : List String) :
    stepLoadPath env vm c (n :: attrs) pc st = loadTail env vm c attrs pc st (pathRoot st n attrs) := rfl

/-- `WritePath` once the root is looked up -/
def writeTail (env : Env) (vm : VmCtx) (c : Chunk) (attrs : List String) (pc : Nat) (st : State)
    (root : Value) : StepRes :=
  if root.isUndef then errorAt env vm c pc 0 "interpreter.rs:831 to have a span for error" .undefinedVariable
  else match walkWrite env vm c pc root 0 attrs with
    | .stop r => r
    | .val v =>
      if v.isUndef then errorAt env vm c pc attrs.length "interpreter.rs:856 to have a span for error" .undefinedRender
      else .next (pc + 1) (emitValue env vm v st)

theorem stepWritePath_cons (n : String) (attrs : List String) :
    stepWritePath env vm c (n :: attrs) pc st = writeTail env vm c attrs pc st (pathRoot st n attrs) := rfl

/-- what `LoadPath` pushes -/
theorem loadTail_next (attrs : List String) (val : Value) (h : loadTail env vm c attrs pc st val = .next pc' st') :
    ∃ v, st' = st.push v (pc, pc) ∧ pc' = pc + 1 := by
  unfold loadTail at h
  repeat' split at h
  all_goals first
    | (exfalso; simp at h; done)
    | (have := walkLoad_stop _ _ _ _ (by assumption); rw [h] at this; simp [StepRes.isNext] at this; done)
    | (simp only [StepRes.next.injEq] at h; rcases h with ⟨h1, h2⟩; exact ⟨_, h2.symm, h1.symm⟩)

/-- what `WritePath` writes -/
theorem writeTail_next (attrs : List String) (root : Value)
    (h : writeTail env vm c attrs pc st root = .next pc' st') :
    ∃ v, v.isUndef = false ∧ st' = emitValue env vm v st ∧ pc' = pc + 1 := by
  unfold writeTail at h
  repeat' split at h
  all_goals first
    | (exfalso; simp at h; done)
    | (have := walkWrite_stop _ _ _ _ (by assumption); rw [h] at this; simp [StepRes.isNext] at this; done)
    | (simp only [StepRes.next.injEq] at h; rcases h with ⟨h1, h2⟩
       exact ⟨_, Bool.eq_false_iff.2 ‹¬ _›, h2.symm, h1.symm⟩)

theorem out_loadPath (p : List String) (h : stepLoadPath env vm c p pc st = .next pc' st') :
    st.out <+: st'.out := by
  cases p with
  | nil => simp [stepLoadPath] at h
  | cons n attrs =>
    rw [stepLoadPath_cons] at h
    obtain ⟨v, rfl, _⟩ := loadTail_next _ _ h
    exact List.prefix_refl _

theorem out_writePath (p : List String) (h : stepWritePath env vm c p pc st = .next pc' st') :
    st.out <+: st'.out := by
  cases p with
  | nil => simp [stepWritePath] at h
  | cons n attrs =>
    rw [stepWritePath_cons] at h
    obtain ⟨v, _, rfl, _⟩ := writeTail_next _ _ h
    exact emitValue_out_prefix env vm v st

/-! ### arms that call `interpret` again -/

theorem out_include (n : String) (h : stepInclude rec env vm n pc st = .next pc' st') :
    st.out <+: st'.out := by
  unfold stepInclude at h
  repeat' split at h
  all_goals first
    | (exfalso; simp at h; done)
    | (simp only [StepRes.next.injEq] at h; rcases h with ⟨_, h2⟩; subst h2; exact write_out_prefix _ _)

theorem enterBlock_out (st : State) (name : String) (lin : List Chunk) :
    (enterBlock st name lin).out = if st.captureBlock == some name then [] else st.out := by
  unfold enterBlock; split <;> rfl

theorem leaveBlock_out (st st2 : State) (name : String) :
    (leaveBlock st st2 name).out = if st.captureBlock == some name then st.out else st2.out := by
  unfold leaveBlock; split <;> rfl

theorem out_renderBlock (hrec : OutGrows rec) (n : String)
    (h : stepRenderBlock rec vm n pc st = .next pc' st') : st.out <+: st'.out := by
  unfold stepRenderBlock at h
  repeat' split at h
  all_goals first
    | (exfalso; simp at h; done)
    | skip
  rename_i first more _ st2 hr
  simp only [StepRes.next.injEq] at h; rcases h with ⟨_, h2⟩; subst h2
  have := hrec _ _ _ _ hr
  rw [leaveBlock_out]
  rw [enterBlock_out] at this
  split
  · exact List.prefix_refl _
  · rename_i hne; rw [if_neg hne] at this; exact this

theorem out_super (h : stepSuper rec env vm c pc st = .next pc' st') : st.out <+: st'.out := by
  unfold stepSuper at h
  repeat' split at h
  all_goals first
    | (exfalso; simp at h; done)
    | (simp only [StepRes.next.injEq] at h; rcases h with ⟨_, h2⟩; subst h2; exact List.prefix_refl _)

theorem out_callFunction (n : String) (h : stepCallFunction rec env vm c n pc st = .next pc' st') :
    st.out <+: st'.out := by
  unfold stepCallFunction at h
  split at h
  · simp at h
  · split at h
    · have := out_super h; exact this
    · out_same h

theorem out_component (n : String) (hasBody : Bool)
    (h : stepComponent rec env vm c n hasBody pc st = .next pc' st') : st.out <+: st'.out := by
  unfold stepComponent at h; out_same h

/-! ### W1 for one turn, for the loop, for `interpret` -/

/-- One turn of the interpreter loop only appends to the output of the running `interpret`. -/
theorem step_out_grows (hrec : OutGrows rec) (e : VEntry)
    (h : step rec env vm c e pc st = .next pc' st') : st.out <+: st'.out := by
  obtain ⟨i, spans⟩ := e
  unfold step at h
  cases i <;> simp only at h
  case loadConst v => simp only [StepRes.next.injEq] at h; rcases h with ⟨_, h2⟩; subst h2; exact List.prefix_refl _
  case loadName n => simp only [StepRes.next.injEq] at h; rcases h with ⟨_, h2⟩; subst h2; exact List.prefix_refl _
  case loadAttr a o => exact out_loadAttr a o h
  case binarySubscript o => exact out_subscript o h
  case slice o => exact out_slice o h
  case writeText t => simp only [StepRes.next.injEq] at h; rcases h with ⟨_, h2⟩; subst h2; exact write_out_prefix _ _
  case writeTop => exact out_writeTop h
  case set n g => exact out_set n g h
  case include_ n => exact out_include n h
  case buildMap n => exact out_buildMap n h
  case buildList n => exact out_buildList n h
  case buildMapWithSpreads f => exact out_buildMapWithSpreads f h
  case buildListWithSpreads f => exact out_buildListWithSpreads f h
  case callFunction n => exact out_callFunction n h
  case renderComponent n b => exact out_component n b h
  case applyFilter n => exact out_filterOrTest false n h
  case runTest n => exact out_filterOrTest true n h
  case renderBlock n => exact out_renderBlock hrec n h
  case jump t => simp only [StepRes.next.injEq] at h; rcases h with ⟨_, h2⟩; subst h2; exact List.prefix_refl _
  case popJumpIfFalse t => exact out_popJumpIfFalse t h
  case jumpIfFalseOrPop t => exact out_jumpOrPop false t h
  case jumpIfTrueOrPop t => exact out_jumpOrPop true t h
  case capture => simp only [StepRes.next.injEq] at h; rcases h with ⟨_, h2⟩; subst h2; exact List.prefix_refl _
  case endCapture => exact out_endCapture h
  case startIterate kv co => exact out_startIterate kv co h
  case iterate t => exact out_iterate t h
  case storeLocal n => exact out_storeLocal n h
  case storeDidNotIterate => exact out_storeDidNotIterate h
  case break_ => exact out_break h
  case popLoop => simp only [StepRes.next.injEq] at h; rcases h with ⟨_, h2⟩; subst h2; exact List.prefix_refl _
  case appendToList => exact out_appendToList h
  case math op => exact out_math op h
  case plus => exact out_plus h
  case cmp op => exact out_cmp op h
  case equal ng => exact out_equal ng h
  case strConcat => exact out_strConcat h
  case in_ => exact out_in h
  case not_ => exact out_not h
  case negative => exact out_negative h
  case loadPath p => exact out_loadPath p h
  case writePath p => exact out_writePath p h

theorem runLoop_out_grows (hrec : OutGrows rec) :
    ∀ (fuel pc : Nat) (st st' : State), runLoop rec env vm c fuel pc st = .done st' → st.out <+: st'.out := by
  intro fuel
  induction fuel with
  | zero =>
    intro pc st st' h
    unfold runLoop at h
    split at h
    · cases h; exact List.prefix_refl _
    · cases h
  | succ fuel ih =>
    intro pc st st' h
    unfold runLoop at h
    split at h
    · cases h; exact List.prefix_refl _
    · rename_i e he
      split at h
      · rename_i pc1 st1 hs
        exact (step_out_grows hrec e hs).trans (ih _ _ _ h)
      all_goals cases h

/-- W1 for `interpret`, nested calls included (induction on the nesting fuel). -/
theorem interp_out_grows (env : Env) (steps : Nat) : ∀ depth, OutGrows (interp env steps depth) := by
  intro depth
  induction depth with
  | zero => intro vm c st st' h; simp [interp] at h
  | succ d ih =>
    intro vm c st st' h
    unfold interp at h
    exact runLoop_out_grows ih _ _ _ _ h

/-! ### every intermediate point of a loop -/

/-- `(pc, st)` leads to `(pc1, st1)` by turns of the interpreter loop of chunk `c` -/
inductive Reach (rec : VmCtx → Chunk → State → RunRes) (env : Env) (vm : VmCtx) (c : Chunk) :
    Nat × State → Nat × State → Prop
  | refl (a : Nat × State) : Reach rec env vm c a a
  | step {pc : Nat} {st : State} {pc' : Nat} {st' : State} {b : Nat × State} (e : VEntry) :
      c.code[pc]? = some e → Vm.step rec env vm c e pc st = .next pc' st' →
      Reach rec env vm c (pc', st') b → Reach rec env vm c (pc, st) b

theorem reach_out_prefix (hrec : OutGrows rec) {a b : Nat × State} (hr : Reach rec env vm c a b) :
    ∀ (fuel : Nat) (stf : State), runLoop rec env vm c fuel a.1 a.2 = .done stf →
      a.2.out <+: b.2.out ∧ b.2.out <+: stf.out := by
  induction hr with
  | refl a => intro fuel stf h; exact ⟨List.prefix_refl _, runLoop_out_grows hrec _ _ _ _ h⟩
  | step e he hs _ ih =>
    intro fuel stf h
    cases fuel with
    | zero => simp only [runLoop, he] at h; cases h
    | succ fuel =>
      simp only [runLoop, he, hs] at h
      obtain ⟨h1, h2⟩ := ih fuel stf h
      exact ⟨(step_out_grows hrec e hs).trans h1, h2⟩

end Tera.Vm
