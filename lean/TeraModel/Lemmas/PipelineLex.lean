/-
Bridge lexer ↔ parser (P1 of Props/Pipeline.lean): the image under the adapter `Pipeline.tokOf` of
what the filtered lexer emits has the shape `TParser.shaped` that the parser's totality theorem
(`C06Parser.parser_total_no_panic`) assumes.

Built on the per-state shape lemmas of Lemmas/NodeLevel.lean (`stepTemplate_shape`,
`stepInTag_shape_var`, `stepInTag_shape_tag`) and `step_stack` (Lemmas/LexLoop.lean).
-/
import TeraModel.Lemmas.NodeLevel
import TeraModel.Model.Pipeline
namespace Tera.Pipeline
open Tera Utf8 Lexer WsFilter TParser

/-- the parser-side name of the lexer state on top of the state stack -/
def lexStOf : List State → LexSt
  | .variable :: _ => .var
  | .tag :: _ => .tag
  | _ => .tpl

/-- the items the parser sees, for a list of lexer items and a tail (`[]` or `[error]`) -/
def image (items : List Item) (tail : List Tok) : List Tok :=
  items.map (fun it => tokOf it.1) ++ tail

theorem image_cons (it : Item) (items : List Item) (tail : List Tok) :
    image (it :: items) tail = tokOf it.1 :: image items tail := rfl

theorem shaped_tail (st : LexSt) (tail : List Tok) (h : tail = [] ∨ tail = [Tok.error]) :
    shaped st (image [] tail) = true := by
  rcases h with rfl | rfl
  · cases st <;> rfl
  · cases st <;> rfl

theorem tokOfOp_expr (o : Op) (st : LexSt) (rest : List Tok) :
    shaped st (tokOfOp o :: rest) = (st != .tpl && shaped st rest) := by
  cases o <;> rfl

/-- an expression token keeps the in-tag state -/
theorem shaped_exprTok (tok : Token) (h : exprTok tok = true) (st : LexSt) (rest : List Tok) :
    shaped st (tokOf tok :: rest) = (st != .tpl && shaped st rest) := by
  cases tok <;> simp [exprTok] at h <;> first | rfl | exact tokOfOp_expr _ _ _

/-- **The shape invariant of the lexer loop seen through the filter and the adapter.** -/
theorem lexLoop_shaped (d : Delims) (tail : List Tok) (ht : tail = [] ∨ tail = [Tok.error]) :
    ∀ (fuel : Nat) (p : Pos) (stack : List State) (flag : Bool), StackOk stack →
      shaped (lexStOf stack) (image (filterGo flag (lexLoop d fuel p stack).tokens) tail) = true := by
  intro fuel
  induction fuel with
  | zero =>
    intro p stack flag _
    simp only [lexLoop, filterGo]
    exact shaped_tail _ _ ht
  | succ f ih =>
    intro p stack flag hst
    unfold lexLoop
    split
    · simp only [filterGo]; exact shaped_tail _ _ ht
    · split
      · rename_i tok span p' stack' heq
        have hst' := step_stack d p stack hst heq
        simp only
        rcases hst with rfl | rfl | rfl
        · -- Template state
          have hsh := stepTemplate_shape d p [.template]
          simp only [step] at heq
          rw [heq] at hsh
          simp only [TplShape] at hsh
          rcases hsh with ⟨w, rfl, rfl⟩ | ⟨w, rfl, rfl⟩ | ⟨hk, rfl⟩
          · simp only [filterGo, image_cons, tokOf, shaped, lexStOf]
            have := ih p' [.variable, .template] false hst'
            simpa [lexStOf] using this
          · simp only [filterGo, image_cons, tokOf, shaped, lexStOf]
            have := ih p' [.tag, .template] false hst'
            simpa [lexStOf] using this
          · rcases hk with ⟨c, rfl⟩ | ⟨a, c, b, rfl⟩ | ⟨a, b, rfl⟩
            · simp only [filterGo, handleContent, image_cons, tokOf, shaped, lexStOf]
              have := ih p' [.template] (if false = true then false else if flag = true then false else flag) hst'
              simpa [lexStOf] using this
            · simp only [filterGo, handleContent, image_cons, tokOf, shaped, lexStOf]
              have := ih p' [.template] (if b = true then b else if flag = true then false else flag) hst'
              simpa [lexStOf] using this
            · simp only [filterGo, image_cons, tokOf, shaped, lexStOf]
              have := ih p' [.template] b hst'
              simpa [lexStOf] using this
        · -- Variable state
          have hsh := stepInTag_shape_var d p [.template]
          simp only [step] at heq
          rw [heq] at hsh
          simp only [TagShape] at hsh
          rcases hsh with ⟨w, rfl, rfl⟩ | ⟨hk, rfl⟩
          · cases w
            · simp only [filterGo, image_cons, tokOf, shaped, lexStOf]
              have := ih p' [.template] false hst'
              simpa [lexStOf] using this
            · simp only [filterGo, image_cons, tokOf, shaped, lexStOf]
              have := ih p' [.template] true hst'
              simpa [lexStOf] using this
          · have hf : filterGo flag ((tok, span) :: (lexLoop d f p' [.variable, .template]).tokens)
                = (tok, span) :: filterGo false (lexLoop d f p' [.variable, .template]).tokens := by
              cases tok <;> simp [exprTok] at hk <;> rfl
            rw [hf, image_cons, shaped_exprTok tok hk]
            have := ih p' [.variable, .template] false hst'
            simpa [lexStOf] using this
        · -- Tag state
          have hsh := stepInTag_shape_tag d p [.template]
          simp only [step] at heq
          rw [heq] at hsh
          simp only [TagShape] at hsh
          rcases hsh with ⟨w, rfl, rfl⟩ | ⟨hk, rfl⟩
          · cases w
            · simp only [filterGo, image_cons, tokOf, shaped, lexStOf]
              have := ih p' [.template] false hst'
              simpa [lexStOf] using this
            · simp only [filterGo, image_cons, tokOf, shaped, lexStOf]
              have := ih p' [.template] true hst'
              simpa [lexStOf] using this
          · have hf : filterGo flag ((tok, span) :: (lexLoop d f p' [.tag, .template]).tokens)
                = (tok, span) :: filterGo false (lexLoop d f p' [.tag, .template]).tokens := by
              cases tok <;> simp [exprTok] at hk <;> rfl
            rw [hf, image_cons, shaped_exprTok tok hk]
            have := ih p' [.tag, .template] false hst'
            simpa [lexStOf] using this
      · exact ih _ _ _ hst
      · simp only [filterGo]; exact shaped_tail _ _ ht
      · simp only [filterGo]; exact shaped_tail _ _ ht
      · simp only [filterGo]; exact shaped_tail _ _ ht

/-- the token stream the composed model hands to the parser -/
theorem toksOf_eq_image (tokens : List Item) (errored : Bool) :
    toksOf tokens errored = image tokens (if errored then [Tok.error] else []) := rfl

/-- for EVERY source and delimiter set, with or without the final error item -/
theorem tokenize_shaped (d : Delims) (src : Bytes) (errored : Bool) :
    shaped .tpl (toksOf (tokenize d src).tokens errored) = true := by
  rw [toksOf_eq_image]
  have := lexLoop_shaped d (if errored then [Tok.error] else []) (by cases errored <;> simp)
    (src.length + 1) (startPos src) [.template] false (Or.inl rfl)
  simpa [tokenize, whitespaceFilter, basicTokenize, lexStOf] using this

end Tera.Pipeline
