/-
C05 on the value-level VM (Model/Vm.lean `stepComponent`, the `component!` macro and
`render_component` of tera/src/vm/interpreter.rs): what a component call reads of the caller, what
it hands to the component's chunk, what it leaves behind, and how deep calls can nest.

* `component_shape`: a call that continues went through `find component → pop body → build_context
  = Ok → depth check → interpret the component's chunk on a FRESH state holding only the bound
  context`, and leaves the caller's state as it was except for the operands popped and the result
  (the nested output, minted Safe) pushed.
* `stepComponent_isolated`: two callers whose operand slots hold the same kwargs (and body) get the
  same outcome — the same result value, the same error class, the same panic site.
* `component_scope_lookup`: in the state the component's chunk starts with, a name resolves to the
  bound context and to nothing else (no loops, no set variables, no includer, no global context).
* `step_depth_congr` / `interp_capped`: a turn at depth ≤ limit never calls `interpret` at a depth
  above the limit; hence a whole run from depth ≤ limit never does.
-/
import TeraModel.Lemmas.VmWriterOut
namespace Tera.Vm
open Tera
set_option linter.unusedSimpArgs false

variable {rec : VmCtx → Chunk → State → RunRes} {env : Env} {vm : VmCtx} {c : Chunk}
  {pc pc' : Nat} {st st' : State}

/-- number of operand slots a component call pops -/
def compPops (hasBody : Bool) : Nat := if hasBody then 2 else 1

/-- Everything a component call that continues went through. -/
theorem component_shape (n : String) (hasBody : Bool)
    (h : stepComponent rec env vm c n hasBody pc st = .next pc' st') :
    ∃ (es : Entries) (ks : SpanRange) (rest rest' : List Slot) (cdef : Component.Def) (cchunk : Chunk)
      (body : Option Value) (bound : List (String × Value)) (stn : State),
      st.stack = (.map es, ks) :: rest ∧
      findComponent env vm n = some (cdef, cchunk) ∧
      popBody hasBody rest = some (body, rest') ∧
      Component.buildContext cdef es body = .ok bound ∧
      vm.depth + 1 ≤ MAX_COMPONENT_RECURSION_DEPTH ∧
      rec { vm with depth := vm.depth + 1 } cchunk (componentState bound) = .done stn ∧
      pc' = pc + 1 ∧
      st' = { st with stack := (.str true stn.out, (pc, pc)) :: rest' } ∧
      rest' = st.stack.drop (compPops hasBody) := by
  unfold stepComponent at h
  repeat' split at h
  all_goals first
    | (exfalso; simp at h; done)
    | skip
  rename_i _ aSpan rest v es hs0 _ cdef cchunk hfc _ body rest' hpb _ bound hbc hdepth _ stn hr
  simp only [StepRes.next.injEq] at h
  refine ⟨es, aSpan, rest, rest', cdef, cchunk, body, bound, stn, hs0, hfc, hpb, hbc, by omega, hr,
    h.1.symm, h.2.symm, ?_⟩
  rw [hs0]
  unfold popBody at hpb
  cases hasBody with
  | false =>
    simp only [Bool.false_eq_true, ↓reduceIte, Option.some.injEq, Prod.mk.injEq] at hpb
    simp [compPops, hpb.2]
  | true =>
    simp only [↓reduceIte] at hpb
    split at hpb
    · cases hpb
    · simp only [Option.some.injEq, Prod.mk.injEq] at hpb
      simp [compPops, ← hpb.2]

/-- the operand slots of a component call, as values (span ranges of the caller left out): the
kwargs slot, and the body slot when the call has a body -/
def compOperands (hasBody : Bool) (stk : List Slot) : List (Option Value) :=
  (stk.head?.map (·.1)) :: (if hasBody then [(stk.drop 1).head?.map (·.1)] else [])

/-- two results of the same call made by two different callers -/
def SameOutcome (hasBody : Bool) (st1 st2 : State) : StepRes → StepRes → Prop
  | .next p1 t1, .next p2 t2 =>
    p1 = p2 ∧ ∃ v sp,
      t1 = { st1 with stack := (v, sp) :: st1.stack.drop (compPops hasBody) } ∧
      t2 = { st2 with stack := (v, sp) :: st2.stack.drop (compPops hasBody) }
  | .err e1, .err e2 => e1 = e2
  | .panic s1, .panic s2 => s1 = s2
  | .unmodelled w1, .unmodelled w2 => w1 = w2
  | .outOfFuel, .outOfFuel => True
  | _, _ => False

theorem sameOutcome_self (hasBody : Bool) (st1 st2 : State) (r : StepRes) (h : r.isNext = false) :
    SameOutcome hasBody st1 st2 r r := by
  cases r <;> simp_all [SameOutcome, StepRes.isNext]

/-- **Isolation, inwards and outwards.** -/
theorem stepComponent_isolated (n : String) (hasBody : Bool) (st1 st2 : State)
    (hops : compOperands hasBody st1.stack = compOperands hasBody st2.stack) :
    SameOutcome hasBody st1 st2 (stepComponent rec env vm c n hasBody pc st1)
      (stepComponent rec env vm c n hasBody pc st2) := by
  unfold compOperands at hops
  simp only [List.cons.injEq] at hops
  obtain ⟨hkw, hbody⟩ := hops
  unfold stepComponent
  -- the kwargs slot
  cases hs1 : st1.stack with
  | nil =>
    cases hs2 : st2.stack with
    | nil => simp [SameOutcome]
    | cons x xs => rw [hs1, hs2] at hkw; simp at hkw
  | cons x1 r1 =>
    cases hs2 : st2.stack with
    | nil => rw [hs1, hs2] at hkw; simp at hkw
    | cons x2 r2 =>
      obtain ⟨kw1, s1⟩ := x1
      obtain ⟨kw2, s2⟩ := x2
      rw [hs1, hs2] at hkw hbody
      simp only [List.head?_cons, Option.map_some, Option.some.injEq] at hkw
      subst hkw
      simp only
      cases kw1 <;> simp only [SameOutcome]
      rename_i es
      cases hfc : findComponent env vm n with
      | none => simp only [SameOutcome]
      | some dc =>
        obtain ⟨cdef, cchunk⟩ := dc
        simp only
        -- the body slot
        have hpb : (popBody hasBody r1).map (·.1) = (popBody hasBody r2).map (·.1) ∧
            ∀ b1 q1 b2 q2, popBody hasBody r1 = some (b1, q1) → popBody hasBody r2 = some (b2, q2) →
              q1 = (st1.stack).drop (compPops hasBody) ∧ q2 = (st2.stack).drop (compPops hasBody) := by
          unfold popBody
          cases hasBody with
          | false =>
            simp only [Bool.false_eq_true, ↓reduceIte, Option.map_some, true_and, Option.some.injEq,
              Prod.mk.injEq]
            intro b1 q1 b2 q2 h1 h2
            rw [hs1, hs2]; simp [compPops, h1.2, h2.2]
          | true =>
            simp only [↓reduceIte, List.drop_succ_cons, List.drop_zero, List.cons.injEq, and_true] at hbody ⊢
            cases r1 with
            | nil =>
              cases r2 with
              | nil => simp
              | cons y ys => simp at hbody
            | cons y1 q1 =>
              cases r2 with
              | nil => simp at hbody
              | cons y2 q2 =>
                obtain ⟨b1, t1⟩ := y1
                obtain ⟨b2, t2⟩ := y2
                simp only [List.head?_cons, Option.map_some, Option.some.injEq] at hbody
                subst hbody
                simp only [Option.map_some, true_and, Option.some.injEq, Prod.mk.injEq]
                intro _ _ _ _ h1 h2
                rw [hs1, hs2]; simp [compPops, h1.2, h2.2]
        cases hp1 : popBody hasBody r1 with
        | none =>
          cases hp2 : popBody hasBody r2 with
          | none => simp only [SameOutcome]
          | some z => rw [hp1, hp2] at hpb; simp at hpb
        | some z1 =>
          cases hp2 : popBody hasBody r2 with
          | none => rw [hp1, hp2] at hpb; simp at hpb
          | some z2 =>
            obtain ⟨b1, q1⟩ := z1
            obtain ⟨b2, q2⟩ := z2
            have hb : b1 = b2 := by
              have := hpb.1; rw [hp1, hp2] at this; simpa using this
            subst hb
            obtain ⟨hq1, hq2⟩ := hpb.2 _ _ _ _ hp1 hp2
            simp only
            cases hbc : Component.buildContext cdef es b1 with
            | error e =>
              simp only
              exact sameOutcome_self _ _ _ _ (isNext_renderingError _ _)
            | ok bound =>
              simp only
              by_cases hd : vm.depth + 1 > MAX_COMPONENT_RECURSION_DEPTH
              · simp only [hd, ↓reduceIte, SameOutcome]
              · simp only [hd, ↓reduceIte]
                cases hr : rec { vm with depth := vm.depth + 1 } cchunk (componentState bound) with
                | done stn =>
                  simp only [SameOutcome, true_and]
                  exact ⟨_, _, by rw [hq1], by rw [hq2]⟩
                | err e => simp only [SameOutcome]
                | panic s => simp only [SameOutcome]
                | unmodelled w => simp only [SameOutcome]
                | outOfFuel => simp only [SameOutcome]

/-! ### what the component's chunk can see -/

theorem loopsGet_nil (n : String) : Scope.loopsGet [] n = none := rfl

/-- In the state `render_component` builds, a name resolves to the bound context and to nothing
else: no loop variables, no set variables, no includer, no global context. -/
theorem component_scope_lookup (bound : List (String × Value)) (n : String) :
    (componentState bound).scope.getValue n = ((ctxOfList bound).get n).getD .undef := by
  unfold componentState State.fresh Scope.getValue Scope.resolve
  simp only [loopsGet_nil]
  have h0 : Ctx.get ([] : Ctx) n = none := rfl
  rw [h0]
  simp only [Value.isUndef, Bool.not_true, Bool.false_eq_true, ↓reduceIte]
  cases (ctxOfList bound).get n <;> rfl

theorem component_state_fresh (bound : List (String × Value)) :
    (componentState bound).stack = [] ∧ (componentState bound).captures = [] ∧
    (componentState bound).out = [] ∧ (componentState bound).blocks = [] ∧
    (componentState bound).scope.forLoops = [] ∧ (componentState bound).scope.setVariables = [] ∧
    (componentState bound).scope.includeParent = none ∧
    (componentState bound).scope.globalContext = none :=
  ⟨rfl, rfl, rfl, rfl, rfl, rfl, rfl, rfl⟩

/-! ### nesting depth -/

/-- One turn at depth ≤ limit consults `interpret` only at depths ≤ limit. -/
theorem step_depth_congr {rec1 rec2 : VmCtx → Chunk → State → RunRes}
    (h12 : ∀ vm' c' st', vm'.depth ≤ MAX_COMPONENT_RECURSION_DEPTH → rec1 vm' c' st' = rec2 vm' c' st')
    (hd : vm.depth ≤ MAX_COMPONENT_RECURSION_DEPTH) (e : VEntry) :
    step rec1 env vm c e pc st = step rec2 env vm c e pc st := by
  obtain ⟨i, spans⟩ := e
  unfold step
  cases i <;> simp only
  case include_ n =>
    unfold stepInclude
    cases env.template n with
    | none => rfl
    | some tpl => simp only; rw [h12 { vm with template := tpl } _ _ hd]
  case callFunction n =>
    unfold stepCallFunction
    split
    · rfl
    · split
      · unfold stepSuper
        repeat' split
        all_goals first
          | rfl
          | skip
        all_goals simp_all [h12 _ _ _ hd]
      · rfl
  case renderComponent n hasBody =>
    unfold stepComponent
    repeat' split
    all_goals first
      | rfl
      | skip
    all_goals (
      rename_i hdepth _ _
      have : vm.depth + 1 ≤ MAX_COMPONENT_RECURSION_DEPTH := by omega
      simp_all [h12 { vm with depth := vm.depth + 1 } _ _ this])
  case renderBlock n =>
    unfold stepRenderBlock
    repeat' split
    all_goals first
      | rfl
      | skip
    all_goals simp_all [h12 _ _ _ hd]

theorem runLoop_depth_congr {rec1 rec2 : VmCtx → Chunk → State → RunRes}
    (h12 : ∀ vm' c' st', vm'.depth ≤ MAX_COMPONENT_RECURSION_DEPTH → rec1 vm' c' st' = rec2 vm' c' st')
    (hd : vm.depth ≤ MAX_COMPONENT_RECURSION_DEPTH) :
    ∀ (fuel pc : Nat) (st : State), runLoop rec1 env vm c fuel pc st = runLoop rec2 env vm c fuel pc st := by
  intro fuel
  induction fuel with
  | zero => intro pc st; rfl
  | succ fuel ih =>
    intro pc st
    unfold runLoop
    cases c.code[pc]? with
    | none => rfl
    | some e =>
      simp only
      rw [step_depth_congr h12 hd e]
      cases step rec2 env vm c e pc st <;> simp only [ih]

/-- marker result of a call that the cap refuses -/
def DEPTH_CAP : String := "component_recursion_depth above the limit"

/-- `interpret`, except that a call at a depth above the limit is refused outright -/
def interpCapped (env : Env) (steps : Nat) : Nat → VmCtx → Chunk → State → RunRes
  | 0, _, _, _ => .outOfFuel
  | depth + 1, vm, c, st =>
    if vm.depth ≤ MAX_COMPONENT_RECURSION_DEPTH then
      runLoop (interpCapped env steps depth) env vm c steps 0 st
    else .panic DEPTH_CAP

/-- A run from a depth ≤ limit never needs a deeper `interpret`: it is the capped run. -/
theorem interp_capped (env : Env) (steps : Nat) :
    ∀ (depth : Nat) (vm : VmCtx) (c : Chunk) (st : State),
      vm.depth ≤ MAX_COMPONENT_RECURSION_DEPTH →
      interp env steps depth vm c st = interpCapped env steps depth vm c st := by
  intro depth
  induction depth with
  | zero => intro vm c st _; rfl
  | succ d ih =>
    intro vm c st hd
    unfold interp interpCapped
    rw [if_pos hd]
    exact runLoop_depth_congr (fun vm' c' st' h => ih vm' c' st' h) hd _ _ _

end Tera.Vm
