/-
C08, parser link: the literal texts of an accepted template, in source order, are exactly the
non-empty Content tokens of its token list.  Statement-level walk with the weakest-precondition
framework of Lemmas/TemplateParserLegal.lean; invariant: texts still in the token list before =
texts of the nodes built ++ texts still in the token list after.
-/
import TeraModel.Lemmas.TemplateParserTexts
import TeraModel.Lemmas.TemplateParserLegal
namespace Tera

mutual
/-- every literal text of a node, in source order: through `if` / `elif` / `else`, `for` / `else`,
block, set-block and filter-section bodies and the body of a `{% <name ..> %}` component call -/
def Node.allTexts : Node → List String
  | .content t => [t]
  | .expression (.componentCall _ _ body false) => Node.allTextsList body
  | .blockSet _ _ body _ => Node.allTextsList body
  | .block _ body => Node.allTextsList body
  | .forLoop _ _ _ body els => Node.allTextsList body ++ Node.allTextsList els
  | .if _ body els => Node.allTextsList body ++ Node.allTextsList els
  | .filterSection _ _ body => Node.allTextsList body
  | _ => []
def Node.allTextsList : List Node → List String
  | [] => []
  | n :: ns => Node.allTexts n ++ Node.allTextsList ns
end

theorem Node.allTextsList_append (a b : List Node) :
    Node.allTextsList (a ++ b) = Node.allTextsList a ++ Node.allTextsList b := by
  induction a with
  | nil => simp [Node.allTextsList]
  | cons x xs ih => simp [Node.allTextsList, ih]

theorem Node.allTexts_expression (e : Expr) (h : e.openBody = []) :
    Node.allTexts (.expression e) = [] := by
  unfold Node.allTexts
  split <;> simp_all [Expr.openBody, Node.allTextsList]

namespace TParser
open Tera.Parser

/-! ### token-aware rules for `lift` -/

theorem TW.liftPT {x : P α} {R : α → PState → Prop} {s : TState} {Q : α → TState → Prop}
    (hx : PT x s.p R) (h : ∀ a p', R a p' → Q a { s with p := p' }) : TW (TParser.lift x) s Q := by
  rw [TW_def]; unfold TParser.lift
  cases hr : x s.p with
  | ok a p' => exact h a p' (PT.of_eq hr hx)
  | err => trivial
  | panic m => trivial
  | fuel => trivial

theorem TW.liftK {x : P α} (hx : ∀ p, PT x p (Keeps p)) {s : TState} {Q : α → TState → Prop}
    (h : ∀ a p', toksTexts s.p.toks = toksTexts p'.toks → Q a { s with p := p' }) :
    TW (TParser.lift x) s Q := TW.liftPT (hx s.p) h

theorem TW.liftHeadIs (t : Tok) {s : TState} {Q : Bool → TState → Prop}
    (h : ∀ b, (b = true → s.p.toks.head? = some t) → Q b s) : TW (TParser.lift (headIs t)) s Q :=
  TW.liftPT (PT.headIs t (s := s.p) (Q := fun b p' => p' = s.p ∧ (b = true → s.p.toks.head? = some t))
    (fun b hb => ⟨rfl, hb⟩)) (fun b p' ⟨hp, hb⟩ => by subst hp; exact h b hb)

theorem TW.liftPeek {s : TState} {Q : Option Tok → TState → Prop}
    (h : ∀ o, (∀ tok, o = some tok → s.p.toks.head? = some tok) → Q o s) :
    TW (TParser.lift peekOk) s Q :=
  TW.liftPT (PT.peekOk (s := s.p)
    (Q := fun o p' => p' = s.p ∧ (∀ tok, o = some tok → s.p.toks.head? = some tok))
    (fun o ho => ⟨rfl, ho⟩)) (fun o p' ⟨hp, ho⟩ => by subst hp; exact h o ho)

theorem TW.liftFuel {s : TState} {Q : Nat → TState → Prop} (h : ∀ n, Q n s) :
    TW (TParser.lift loopFuel) s Q :=
  TW.liftPT (PT.loopFuel (s := s.p) (Q := fun _ p' => p' = s.p) (fun _ => rfl))
    (fun n p' hp => by subst hp; exact h n)

theorem TW.liftNext {s : TState} {Q : Tok → TState → Prop}
    (h : ∀ t rest, s.p.toks = t :: rest → Q t { s with p := { s.p with toks := rest } }) :
    TW (TParser.lift nextOrError) s Q :=
  TW.liftPT (PT.next (s := s.p)
    (Q := fun t p' => ∃ rest, s.p.toks = t :: rest ∧ p' = { s.p with toks := rest })
    (fun t rest ht => ⟨rest, ht, rfl⟩)) (fun t p' ⟨rest, ht, hp⟩ => by subst hp; exact h t rest ht)

theorem TW.exprK {ex : Bool → Nat → P Expr} (hcl : ∀ il m, PW (ex il m) Closed)
    (hk : ∀ il m p, PT (ex il m) p (Keeps p)) (m : Nat) {s : TState} {Q : Expr → TState → Prop}
    (h : ∀ e p', Closed e → toksTexts s.p.toks = toksTexts p'.toks → Q e { s with p := p' }) :
    TW (TParser.expr ex m) s Q := by
  rw [TW_def]; unfold TParser.expr TParser.lift
  cases hr : ex (isInLoop s) m s.p with
  | ok a p' => exact h a p' ((hcl _ _).elim hr) (PT.of_eq hr (hk _ _ _))
  | err => trivial
  | panic m => trivial
  | fuel => trivial

/-! ### the small expression-level pieces used by the statement level -/

/-- is this a Content token -/
def isContentTok : Tok → Bool
  | .content _ => true
  | _ => false

theorem KT.expect (t : Tok) (ht' : isContentTok t = false) : ∀ p, PT (expect t) p (Keeps p) := by
  have ht : ∀ c, t ≠ .content c := by intro c h; subst h; simp [isContentTok] at ht'
  intro p
  unfold Parser.expect
  pttac
  rename_i x rest hx heq
  subst heq
  cases x <;> first | (simp_all [Keeps, toksTexts]; done) | exact absurd rfl (ht _)

theorem KT.expectIdent : ∀ p, PT expectIdent p (Keeps p) := by
  intro p; unfold Parser.expectIdent; pttac; all_goals ptleaf

theorem KT.expectTagEnd : ∀ p, PT expectTagEnd p (Keeps p) := by
  intro p; unfold TParser.expectTagEnd; pttac; all_goals ptleaf

theorem KT.expectVariableEnd : ∀ p, PT expectVariableEnd p (Keeps p) := by
  intro p; unfold TParser.expectVariableEnd; pttac; all_goals ptleaf

theorem KT.setFilters {ex : Nat → P Expr} (hex : ∀ m p, PT (ex m) p (Keeps p)) :
    ∀ n acc p, PT (setFilters ex n acc) p (Keeps p) := by
  have hf := fun e p => PT.cps (Parser.KT.parseFilter hex e p)
  intro n
  induction n with
  | zero => intro _ p; exact PT.fuel
  | succ n ih =>
    intro acc p
    have ih' := fun acc p => PT.cps (ih acc p)
    unfold TParser.setFilters
    try unfold Parser.expect
    pttac
    all_goals ptleaf

theorem TW.triv (x : T α) (s : TState) : TW x s (fun _ _ => True) := by
  rw [TW_def]; cases x s <;> trivial

/-! ### the walk -/

/-- nothing was recorded as a component definition ⇒ the texts waiting before = texts of the nodes
++ texts waiting after -/
def PostT (s : TState) (nodes : List Node) (s' : TState) : Prop :=
  s'.componentDefinitions = [] →
    s.componentDefinitions = [] ∧
      toksTexts s.p.toks = Node.allTextsList nodes ++ toksTexts s'.p.toks

/-- the next token (if any) is not a Content token: where `parse_until` stops -/
def HeadNC (s : TState) : Prop :=
  ∀ t rest, s.p.toks = t :: rest → toksTexts (t :: rest) = toksTexts rest

macro "txtac" : tactic => `(tactic|
  repeat' (first
    | (show TW _ _ _; dsimp only)
    | with_reducible exact TW.err
    | with_reducible exact TW.fuel
    | with_reducible exact TW.panic
    | (with_reducible apply_assumption -exfalso; intro _ _ _)
    | with_reducible refine TW.bind ?_
    | with_reducible refine TW.pure ?_
    | with_reducible refine TW.pushCtx _ ?_
    | with_reducible refine TW.popCtx ?_
    | with_reducible refine TW.getState ?_
    | with_reducible refine TW.modify _ ?_
    | (with_reducible refine TW.exprK ?_ ?_ _ (fun _ _ _ _ => ?_)
       (focus (with_reducible assumption)); (focus (with_reducible assumption)))
    | with_reducible refine TW.liftHeadIs _ (fun _ _ => ?_)
    | with_reducible refine TW.liftPeek (fun _ _ => ?_)
    | with_reducible refine TW.liftFuel (fun _ => ?_)
    | with_reducible refine TW.liftNext (fun _ _ _ => ?_)
    | with_reducible refine TW.liftK KT.expectTagEnd (fun _ _ _ => ?_)
    | with_reducible refine TW.liftK KT.expectVariableEnd (fun _ _ _ => ?_)
    | with_reducible refine TW.liftK KT.expectIdent (fun _ _ _ => ?_)
    | with_reducible refine TW.liftK Parser.KT.dottedName (fun _ _ _ => ?_)
    | refine TW.liftK (KT.expect _ (by rfl)) (fun _ _ _ => ?_)
    | (with_reducible refine TW.liftK ?_ (fun _ _ _ => ?_); focus (with_reducible apply_assumption -exfalso))
    | with_reducible refine TW.ite (fun _ => ?_) (fun _ => ?_)
    | (show TW _ _ _; split)))

macro "txleaf" : tactic => `(tactic|
  (intro hd
   simp_all [PostT, HeadNC, Node.allTextsList, Node.allTexts, toksTexts, Option.toList]; done))

section level
variable {C : Bool → Cfg} {recU : EndCheck → T (List Node)} {ex : Bool → Nat → P Expr}
variable (Hcl : ∀ il m, PW (ex il m) Closed)
variable (Hk : ∀ il m p, PT (ex il m) p (Keeps p))
variable (HU : ∀ ec s, TW (recU ec) s (fun nodes s' => PostT s nodes s' ∧ HeadNC s'))
include Hcl Hk HU

theorem TX.parseIf : ∀ n s, TW (parseIf recU ex n) s
    (fun x s' => PostT s [.if x.1 x.2.1 x.2.2] s') := by
  intro n
  induction n with
  | zero => intro s; exact TW.fuel
  | succ n ih =>
    intro s
    have hrec := fun ec s => TW.cps (HU ec s)
    have ih' := fun s => TW.cps (ih s)
    unfold TParser.parseIf
    txtac
    all_goals
      try dsimp only at *
    all_goals first
      | txleaf
      | (rcases ‹Expr × List Node × List Node› with ⟨c, b, f⟩
         txleaf)

theorem TX.parseForLoop (s : TState) : TW (parseForLoop recU ex) s
    (fun nd s' => PostT s [nd] s') := by
  have hrec := fun ec s => TW.cps (HU ec s)
  unfold TParser.parseForLoop
  txtac
  all_goals
    try dsimp only at *
  all_goals txleaf

theorem TX.parseSet (g : Bool) (s : TState) : TW (parseSet recU ex g) s
    (fun nd s' => PostT s [nd] s') := by
  have hrec := fun ec s => TW.cps (HU ec s)
  have hsf : ∀ il n p, PT (setFilters (ex il) n []) p (Keeps p) :=
    fun il n p => KT.setFilters (Hk il) n [] p
  unfold TParser.parseSet
  txtac
  all_goals
    try dsimp only at *
  all_goals txleaf

omit Hcl in
theorem TX.parseComponentWithBody (s : TState) : TW (parseComponentWithBody recU ex) s
    (fun e s' => PostT s [.expression e] s') := by
  have hrec := fun ec s => TW.cps (HU ec s)
  have hca : ∀ il n p, PT (componentAttributes (ex il) n []) p (Keeps p) :=
    fun il n p => Parser.KT.componentAttributes (Hk il) n [] p
  unfold TParser.parseComponentWithBody
  txtac
  all_goals
    try dsimp only at *
  all_goals txleaf

theorem TX.parseTag (isFirst : Bool) (s : TState) :
    TW (parseTag C recU ex isFirst) s (fun on s' => PostT s on.toList s') := by
  have hrec := fun ec s => TW.cps (HU ec s)
  have h1 := fun g s => TW.cps (TX.parseSet Hcl Hk HU g s)
  have h2 := fun s => TW.cps (TX.parseForLoop Hcl Hk HU s)
  have h3 := fun n s => TW.cps (TX.parseIf Hcl Hk HU n s)
  have h4 := fun s => TW.cps (TW.triv (parseComponentDefinition C recU ex) s)
  have h5 := fun s => TW.cps (TX.parseComponentWithBody Hk HU s)
  have hkw : ∀ il p, PT (parseKwargs (ex il)) p (Keeps p) :=
    fun il p => Parser.KT.parseKwargs (Hk il) p
  unfold TParser.parseTag
  txtac
  all_goals
    try dsimp only at *
  all_goals first
    | (intro hd
       simp_all [PostT, toksTexts, Option.toList]; done)
    | txleaf
    | (rcases ‹Expr × List Node × List Node› with ⟨c, b, f⟩
       txleaf)

omit Hcl Hk HU in
/-- a token that ends a body is not a Content token -/
theorem EndCheck.test_keeps (ec : EndCheck) (t : Tok) (rest : List Tok) (h : ec.test t = true) :
    toksTexts (t :: rest) = toksTexts rest := by
  cases t <;> first | rfl | (cases ec <;> simp [EndCheck.test] at h)

theorem TX.untilLoop (ec : EndCheck) : ∀ n nodes s, TW (untilLoop C recU ex ec n nodes) s
    (fun r s' => ∃ more, r = nodes ++ more ∧ PostT s more s' ∧ HeadNC s'
      ∧ (ec = .never → s'.p.toks = [])) := by
  have htag := fun f s => TW.cps (TX.parseTag (C := C) Hcl Hk HU f s)
  intro n
  induction n with
  | zero => intro nodes s; exact TW.fuel
  | succ n ih =>
    intro nodes s
    obtain ⟨⟨ts, a, b⟩, c1, c2, c3, c4, c5⟩ := s
    rw [TW_def]
    unfold TParser.untilLoop
    cases ts with
    | nil =>
      refine ⟨[], by simp, fun hd => ⟨hd, by simp [Node.allTextsList]⟩, ?_, fun _ => rfl⟩
      intro t rest h; cases h
    | cons tok rest =>
      cases tok
      case error => trivial
      case content c =>
        dsimp only
        rw [← TW_def]
        refine TW.mono (ih _ _) (fun r s' h => ?_)
        obtain ⟨more, rfl, hp, hn, hs⟩ := h
        by_cases hc : c.isEmpty = true
        · refine ⟨more, by simp [hc], fun hd => ?_, hn, hs⟩
          obtain ⟨h1, h2⟩ := hp hd
          exact ⟨h1, by simpa [toksTexts, hc] using h2⟩
        · refine ⟨.content c :: more, by simp [hc], fun hd => ?_, hn, hs⟩
          obtain ⟨h1, h2⟩ := hp hd
          refine ⟨h1, ?_⟩
          simp only [] at h2
          simp [toksTexts, hc, Node.allTextsList, Node.allTexts, h2]
      case variableStart w =>
        dsimp only
        rw [← TW_def]
        refine TW.bind (TW.exprK Hcl Hk _ (fun e p' hcl hk => ?_))
        refine TW.bind (TW.liftK KT.expectVariableEnd (fun _ p2 hk2 => ?_))
        refine TW.mono (ih _ _) (fun r s' h => ?_)
        obtain ⟨more, rfl, hp, hn, hs⟩ := h
        refine ⟨.expression e :: more, by simp, fun hd => ?_, hn, hs⟩
        obtain ⟨h1, h2⟩ := hp hd
        refine ⟨h1, ?_⟩
        simp only [] at h2 hk hk2
        simp [toksTexts, Node.allTextsList, Node.allTexts_expression e hcl, hk, hk2, h2]
      case tagStart w =>
        dsimp only
        split
        · rename_i r s' heq
          split at heq
          · cases heq
          · cases heq
          · split at heq
            · rename_i t tail _ ht
              cases heq
              refine ⟨[], by simp, fun hd => ⟨hd, by simp [Node.allTextsList, toksTexts]⟩, ?_, ?_⟩
              · intro t' rest' h
                simp only [] at h
                cases h
                exact EndCheck.test_keeps ec _ _ ht
              · intro hec; subst hec; simp [EndCheck.test] at ht
            · rename_i t tail _ hne
              refine TW.of_eq (Q := fun r s' => ∃ more, r = nodes ++ more ∧
                PostT ⟨⟨.tagStart w :: t :: tail, a, b⟩, c1, c2, c3, c4, c5⟩ more s' ∧ HeadNC s'
                ∧ (ec = .never → s'.p.toks = [])) heq ?_
              refine TW.bind (htag _ _ _ (fun node s1 hp1 => ?_))
              refine TW.bind (TW.liftK KT.expectTagEnd (fun _ p2 hk2 => ?_))
              refine TW.mono (ih _ _) (fun r2 s2 h2 => ?_)
              obtain ⟨more, rfl, hp2, hn, hs⟩ := h2
              refine ⟨node.toList ++ more, by cases node <;> simp, fun hd => ?_, hn, hs⟩
              obtain ⟨h1, h2⟩ := hp2 hd
              obtain ⟨h3, h4⟩ := hp1 h1
              refine ⟨h3, ?_⟩
              simp only [] at h2 h4 hk2
              simp [toksTexts, Node.allTextsList_append, h4, hk2, h2]
        all_goals trivial
      all_goals trivial

end level

theorem TX.parseUntil : ∀ r ec s, TW (parseUntil r ec) s
    (fun nodes s' => PostT s nodes s' ∧ HeadNC s' ∧ (ec = .never → s'.p.toks = [])) := by
  intro r
  induction r with
  | zero => intro ec s; exact TW.err
  | succ r ih =>
    intro ec s
    unfold TParser.parseUntil
    refine TW.bind (TW.liftFuel (fun n => ?_))
    refine TW.mono (TX.untilLoop (fun il m => PW.innerParseExpression _ _ _)
      (fun il m p => Parser.KT.innerParseExpression _ _ _ p)
      (fun ec s => TW.mono (ih ec s) (fun _ _ h => ⟨h.1, h.2.1⟩)) ec n [] _) ?_
    intro nodes s' ⟨more, h, hp⟩
    simp at h; subst h
    exact hp

/-- **the texts of an accepted template without component definitions are the non-empty Content
tokens, in order** -/
theorem parse_texts (maxDepth : Nat) (toks : List Tok) (t : Template) (s : TState)
    (h : parse maxDepth toks = .ok t s) (hd : t.componentDefinitions = []) :
    Node.allTextsList t.nodes = toksTexts toks := by
  unfold parse at h
  simp only [] at h
  split at h <;> try cases h
  rename_i _ nodes heq
  have := TW.of_eq heq (TX.parseUntil maxDepth .never _)
  obtain ⟨hp, _, hs⟩ := this
  obtain ⟨_, h2⟩ := hp hd
  simp only [] at h2
  rw [hs rfl] at h2
  simpa [toksTexts] using h2.symm

end TParser
end Tera
