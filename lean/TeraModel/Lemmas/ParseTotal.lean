/-
Totality of the parser model (Model/ExprParser.lean) on EVERY token list: the iteration budgets of
its loops always suffice (`Res.fuel` never comes out) and the `expect("to have an expr")` of
`parse_subscript` is unreachable (`Res.panic` never comes out).  The key invariant: a successful
parse never leaves more tokens than it was given, and everything that precedes a loop's next
iteration consumes at least one.
-/
import TeraModel.Lemmas.ParseSteps
namespace Tera.Parser
open Tera
set_option linter.unusedSimpArgs false
set_option linter.unusedVariables false

/-- `l'` is what is left of `l` after consuming a prefix (a non-empty one when `strict`) -/
def Left (strict : Bool) (l' l : List Tok) : Prop :=
  l' <:+ l ∧ (strict = true → l'.length < l.length)

theorem Left.refl (l : List Tok) : Left false l l := ⟨List.suffix_refl l, by simp⟩

theorem Left.trans {b1 b2 b3 : Bool} {l1 l2 l3 : List Tok} (hb : b3 = true → b1 = true ∨ b2 = true)
    (h12 : Left b1 l2 l1) (h23 : Left b2 l3 l2) : Left b3 l3 l1 := by
  refine ⟨h23.1.trans h12.1, fun h3 => ?_⟩
  have e1 := h12.1.length_le
  have e2 := h23.1.length_le
  rcases hb h3 with h | h
  · have := h12.2 h; omega
  · have := h23.2 h; omega

theorem Left.weaken {b : Bool} {l' l : List Tok} (h : Left b l' l) : Left false l' l :=
  ⟨h.1, by simp⟩

theorem Left.length_le {b : Bool} {l' l : List Tok} (h : Left b l' l) : l'.length ≤ l.length :=
  h.1.length_le

/-- a result is acceptable from state `s`: no model-only outcome, and on success what is left of
the tokens is a suffix of what was there (a proper one when `strict`) -/
def okRes {α} (strict : Bool) (s : PState) : Res α → Prop
  | .ok _ s' => Left strict s'.toks s.toks
  | .err => True
  | .panic _ => False
  | .fuel => False

/-- `x` is acceptable from every state -/
def G {α} (strict : Bool) (x : P α) : Prop := ∀ s, okRes strict s (x s)

/-- `x` is acceptable from every state with fewer than `n` tokens -/
def GN {α} (n : Nat) (x : P α) : Prop := ∀ s, s.toks.length < n → okRes false s (x s)

theorem okRes_weaken {α} {b : Bool} {s : PState} {r : Res α} (h : okRes b s r) : okRes false s r := by
  cases r <;> simp_all [okRes]
  exact h.weaken

theorem G.weaken {α} {x : P α} (h : G true x) : G false x := fun s => okRes_weaken (h s)
theorem G.toGN {α} {x : P α} (n : Nat) (h : G false x) : GN n x := fun s _ => h s

theorem G.pure {α} (a : α) : G false (Pure.pure a : P α) := by
  intro s; simp [okRes, Left.refl]
theorem G.pure' {α} (a : α) : G false (P.pure a : P α) := by intro s; simp [okRes, Left.refl]
theorem G.err {α} (b : Bool) : G b (P.err : P α) := by intro s; simp [okRes]

/-- the generic sequencing rule -/
theorem okRes_bind {α β} {b1 b2 b3 : Bool} (hb : b3 = true → b1 = true ∨ b2 = true)
    {x : P α} {f : α → P β} {s : PState} (h1 : okRes b1 s (x s))
    (hf : ∀ a s', Left b1 s'.toks s.toks → okRes b2 s' (f a s')) : okRes b3 s ((x >>= f) s) := by
  simp only [bind_def, P.bind_apply]
  cases hr : x s with
  | ok a s' =>
    rw [hr] at h1
    have h2 := hf a s' h1
    simp only []
    cases hr2 : f a s' with
    | ok c s'' => rw [hr2] at h2; exact Left.trans hb h1 h2
    | err => simp [okRes]
    | panic m => rw [hr2] at h2; simp [okRes] at h2
    | fuel => rw [hr2] at h2; simp [okRes] at h2
  | err => simp [okRes]
  | panic m => rw [hr] at h1; simp [okRes] at h1
  | fuel => rw [hr] at h1; simp [okRes] at h1

theorem G.bind_ff {α β} {x : P α} {f : α → P β} (hx : G false x) (hf : ∀ a, G false (f a)) :
    G false (x >>= f) := fun s => okRes_bind (by simp) (hx s) (fun a s' _ => hf a s')

theorem G.bind_tf {α β} {x : P α} {f : α → P β} (hx : G true x) (hf : ∀ a, G false (f a)) :
    G true (x >>= f) := fun s => okRes_bind (by simp) (hx s) (fun a s' _ => hf a s')

theorem G.bind_ft {α β} {x : P α} {f : α → P β} (hx : G false x) (hf : ∀ a, G true (f a)) :
    G true (x >>= f) := fun s => okRes_bind (by simp) (hx s) (fun a s' _ => hf a s')

theorem G.ite {α} {b : Bool} {c : Prop} [Decidable c] {x y : P α} (hx : G b x) (hy : G b y) :
    G b (if c then x else y) := by split <;> assumption

theorem GN.ite {α} {n : Nat} {c : Prop} [Decidable c] {x y : P α} (hx : GN n x) (hy : GN n y) :
    GN n (if c then x else y) := by split <;> assumption

theorem GN.bind_strict {α β} {n : Nat} {x : P α} {f : α → P β} (hx : G true x)
    (hf : ∀ a, GN n (f a)) : GN (n + 1) (x >>= f) := fun s hs =>
  okRes_bind (b2 := false) (by simp) (hx s) (fun a s' h => hf a s' (by have := h.2 rfl; omega))

theorem GN.bind_weak {α β} {n : Nat} {x : P α} {f : α → P β} (hx : G false x)
    (hf : ∀ a, GN n (f a)) : GN n (x >>= f) := fun s hs =>
  okRes_bind (b2 := false) (by simp) (hx s) (fun a s' h => hf a s' (by have := h.length_le; omega))

/-! ### primitives -/

theorem Left.cons (t : Tok) (ts : List Tok) : Left true ts (t :: ts) :=
  ⟨List.suffix_cons t ts, by simp⟩

theorem G.headIs (t : Tok) : G false (headIs t) := by
  intro s; simp [Parser.headIs, okRes, Left.refl]
theorem G.peekOk : G false peekOk := by
  intro s; obtain ⟨ts, a, b⟩ := s
  cases ts with
  | nil => simp [Parser.peekOk, okRes, Left.refl]
  | cons t ts => cases t <;> simp [Parser.peekOk, okRes, Left.refl]
theorem G.loopFuel : G false loopFuel := by intro s; simp [Parser.loopFuel, okRes, Left.refl]
theorem G.nextOrError : G true nextOrError := by
  intro s; obtain ⟨ts, a, b⟩ := s
  cases ts with
  | nil => simp [Parser.nextOrError, okRes]
  | cons t ts => cases t <;> simp [Parser.nextOrError, okRes, Left.cons]
theorem G.expect (t : Tok) : G true (expect t) := by
  unfold Parser.expect
  exact G.bind_tf G.nextOrError (fun x => G.ite (G.pure _) (G.err _))
theorem G.expectIdent : G true expectIdent := by
  unfold Parser.expectIdent
  refine G.bind_tf G.nextOrError (fun x => ?_)
  split
  · exact G.pure _
  · exact G.err _

/-- a step that only touches the counters -/
theorem G.counters {α} (f : PState → α) (g : PState → PState) (hg : ∀ s, (g s).toks = s.toks) :
    G false (fun s => Res.ok (f s) (g s) : P α) := by
  intro s; simp only [okRes]; rw [hg]; exact Left.refl _

theorem G.withFuel {α} {f : Nat → P α} (h : ∀ n, GN n (f n)) :
    G false (Parser.loopFuel >>= f) := by
  intro s
  simp only [bind_def, P.bind_apply, Parser.loopFuel]
  exact h _ s (by omega)

theorem GN.bind_gn_g {α β} {n : Nat} {x : P α} {f : α → P β} (hx : GN n x)
    (hf : ∀ a, G false (f a)) : GN n (x >>= f) := fun s hs =>
  okRes_bind (b1 := false) (b2 := false) (by simp) (hx s hs) (fun a s' _ => hf a s')

/-! ### automation -/

/-- closes `G true x` for a primitive / hypothesis / conditional of such -/
syntax "gstrict" : tactic
macro_rules
  | `(tactic| gstrict) => `(tactic|
      first
        | with_reducible exact G.nextOrError | with_reducible exact G.expect _
        | with_reducible exact G.expectIdent
        | with_reducible apply_assumption
        | (with_reducible apply G.ite <;> gstrict))

/-- closes `G false x` for terms without recursive loop calls -/
syntax "gtac" : tactic
macro_rules
  | `(tactic| gtac) => `(tactic|
      repeat (first
        | with_reducible exact G.pure _ | with_reducible exact G.pure' _
        | with_reducible exact G.err _
        | with_reducible exact G.headIs _ | with_reducible exact G.peekOk
        | with_reducible exact G.loopFuel
        | with_reducible exact G.weaken G.nextOrError
        | with_reducible exact G.weaken (G.expect _)
        | with_reducible exact G.weaken G.expectIdent
        | with_reducible apply_assumption
        | (apply G.weaken; with_reducible apply_assumption)
        | with_reducible apply G.ite
        | with_reducible refine G.withFuel (fun _ => ?_)
        | with_reducible refine GN.bind_gn_g (by with_reducible apply_assumption) (fun _ => ?_)
        | with_reducible refine G.bind_ff ?_ (fun _ => ?_)
        | dsimp only
        | split
        | exact G.counters _ _ (fun _ => rfl)))

/-- `GN n x` goals: loop bodies -/
syntax "gntac" : tactic
macro_rules
  | `(tactic| gntac) => `(tactic|
      repeat (first
        | with_reducible exact G.toGN _ (G.pure _) | with_reducible exact G.toGN _ (G.pure' _)
        | with_reducible exact G.toGN _ (G.err _)
        | with_reducible apply_assumption
        | (refine G.toGN _ ?_; with_reducible apply_assumption)
        | (refine G.toGN _ (G.weaken ?_); with_reducible apply_assumption)
        | with_reducible apply GN.ite
        | with_reducible refine GN.bind_strict (by gstrict) (fun _ => ?_)
        | with_reducible refine GN.bind_weak (by gtac) (fun _ => ?_)
        | dsimp only
        | split))

section funs
variable {rec : Nat → P Expr} (Hrec : ∀ m, G true (rec m))
include Hrec

theorem GN.kwargsLoop : ∀ n acc, GN n (kwargsLoop rec n acc) := by
  intro n
  induction n with
  | zero => intro acc s hs; omega
  | succ n ih =>
    intro acc
    unfold Parser.kwargsLoop
    gntac

theorem G.parseKwargs : G true (parseKwargs rec) := by
  have hk := GN.kwargsLoop Hrec
  unfold Parser.parseKwargs
  refine G.bind_tf (G.expect _) (fun _ => ?_)
  gtac

theorem G.parseNameArgs : G false (parseNameArgs rec) := by
  have hk := G.parseKwargs Hrec
  unfold Parser.parseNameArgs
  gtac

theorem G.parseFilter (e : Expr) : G false (parseFilter rec e) := by
  have hk := G.parseNameArgs Hrec
  unfold Parser.parseFilter
  gtac

theorem G.parseTest (e : Expr) : G false (parseTest rec e) := by
  have hk := G.parseNameArgs Hrec
  unfold Parser.parseTest
  gtac

theorem G.subscriptStart : G false (subscriptStart rec) := by
  unfold Parser.subscriptStart
  gtac

theorem G.subscriptSlice : G false (subscriptSlice rec) := by
  unfold Parser.subscriptSlice
  gtac

omit Hrec in
theorem subscriptStart_none (s s' : PState) (h : subscriptStart rec s = .ok none s') :
    s' = s ∧ s.toks.head? = some .colon := by
  obtain ⟨ts, a, b⟩ := s
  simp only [Parser.subscriptStart, bind_def, P.bind_apply, headIs_apply] at h
  cases hc : (ts.head? == some Tok.colon)
  · simp only [hc, Bool.not_false, if_true] at h
    cases hr : rec 0 ⟨ts, a, b⟩ <;> simp [hr, P.bind_apply] at h
  · simp only [hc, Bool.not_true, Bool.false_eq_true, if_false, pure_def, P.pure_apply,
      Res.ok.injEq, true_and] at h
    exact ⟨h.symm, by simpa using hc⟩

omit Hrec in
theorem bind_ok_inv {α β} {x : P α} {f : α → P β} {s s' : PState} {r : β}
    (h : (x >>= f) s = .ok r s') : ∃ a s1, x s = .ok a s1 ∧ f a s1 = .ok r s' := by
  simp only [bind_def, P.bind_apply] at h
  cases hx : x s with
  | ok a s1 => rw [hx] at h; exact ⟨a, s1, rfl, h⟩
  | err => rw [hx] at h; cases h
  | panic m => rw [hx] at h; cases h
  | fuel => rw [hx] at h; cases h

omit Hrec in
theorem subscriptSlice_true (s s' : PState) (sl : Bool) (st sp : Option Expr)
    (hc : s.toks.head? = some .colon) (h : subscriptSlice rec s = .ok (sl, st, sp) s') :
    sl = true := by
  obtain ⟨ts, a, b⟩ := s
  have e : (ts.head? == some Tok.colon) = true := by simpa using hc
  unfold Parser.subscriptSlice at h
  obtain ⟨hd, s0, h0, h⟩ := bind_ok_inv h
  simp only [headIs_apply, Res.ok.injEq] at h0
  obtain ⟨rfl, rfl⟩ := h0
  simp only [e, if_true] at h
  obtain ⟨_, s1, _, h⟩ := bind_ok_inv h
  obtain ⟨stop, s2, _, h⟩ := bind_ok_inv h
  obtain ⟨step, s3, _, h⟩ := bind_ok_inv h
  simp only [pure_def, P.pure_apply, Res.ok.injEq, Prod.mk.injEq] at h
  exact h.1.1.symm

theorem G.parseSubscript (C : Cfg) (e : Expr) : G true (parseSubscript C rec e) := by
  unfold Parser.parseSubscript
  refine G.bind_ft (G.headIs _) (fun o => ?_)
  dsimp only
  have core : ∀ (u : Unit), G false (do
      let brackets ← (fun s => .ok (s.brackets + 1) { s with brackets := s.brackets + 1 } : P Nat)
      if brackets > C.maxBrackets then P.err
      else do
        let start ← Parser.subscriptStart rec
        let (slice, stop, step) ← Parser.subscriptSlice rec
        Parser.expect .rightBracket
        let out ← (if slice then Pure.pure (.slice e start stop step o)
          else match start with
            | some s => Pure.pure (.getItem e s o)
            | none => P.panic "parser.rs:277 expect(to have an expr)" : P Expr)
        (fun s => .ok () { s with brackets := s.brackets - 1 } : P Unit)
        Pure.pure out) := by
    intro _
    refine G.bind_ff (G.counters _ _ (fun _ => rfl)) (fun br => ?_)
    refine G.ite (G.err _) ?_
    intro s
    have hA := G.subscriptStart Hrec s
    simp only [bind_def, P.bind_apply]
    cases hAs : Parser.subscriptStart rec s with
    | err => simp [okRes]
    | panic m => rw [hAs] at hA; simp [okRes] at hA
    | fuel => rw [hAs] at hA; simp [okRes] at hA
    | ok start s1 =>
      rw [hAs] at hA
      simp only [okRes] at hA
      have hB := G.subscriptSlice Hrec s1
      cases hBs : Parser.subscriptSlice rec s1 with
      | err => simp [okRes, hBs]
      | panic m => rw [hBs] at hB; simp [okRes] at hB
      | fuel => rw [hBs] at hB; simp [okRes] at hB
      | ok r s2 =>
        obtain ⟨sl, st, sp⟩ := r
        simp only [hBs]
        rw [hBs] at hB
        simp only [okRes] at hB
        have hC := G.expect Tok.rightBracket s2
        cases hCs : Parser.expect Tok.rightBracket s2 with
        | err => simp [okRes, hCs]
        | panic m => rw [hCs] at hC; simp [okRes] at hC
        | fuel => rw [hCs] at hC; simp [okRes] at hC
        | ok u s3 =>
          simp only [hCs]
          rw [hCs] at hC
          simp only [okRes] at hC
          have hfin : Left false s3.toks s.toks :=
            Left.trans (b3 := false) (by simp) (Left.trans (b3 := false) (by simp) hA hB) hC
          cases sl with
          | true => simpa [okRes, P.bind_apply] using hfin
          | false =>
            cases start with
            | some x => simpa [okRes, P.bind_apply] using hfin
            | none =>
              obtain ⟨h1, hcol⟩ := subscriptStart_none s s1 hAs
              rw [h1] at hBs
              have := subscriptSlice_true _ _ false st sp hcol hBs
              cases this
  refine G.ite ?_ ?_ <;> exact G.bind_tf (G.expect _) core

theorem GN.identChain (C : Cfg) (ident : String) : ∀ n e, GN n (identChain C rec ident n e) := by
  have hs := G.parseSubscript Hrec C
  intro n
  induction n with
  | zero => intro e s hs; omega
  | succ n ih =>
    intro e
    unfold Parser.identChain
    gntac

theorem G.parseIdent (C : Cfg) (ident : String) : G false (parseIdent C rec ident) := by
  have hk := G.parseKwargs Hrec
  have hc := GN.identChain Hrec C ident
  unfold Parser.parseIdent
  gtac

theorem GN.mapLoop : ∀ n acc lit, GN n (mapLoop rec n acc lit) := by
  intro n
  induction n with
  | zero => intro acc lit s hs; omega
  | succ n ih =>
    intro acc lit
    unfold Parser.mapLoop
    gntac

theorem G.parseMap : G false (parseMap rec) := by
  have hm := GN.mapLoop Hrec
  unfold Parser.parseMap
  gtac

theorem G.parseListComprehension (C : Cfg) (e : Expr) : G false (parseListComprehension C rec e) := by
  unfold Parser.parseListComprehension
  gtac

theorem GN.arrayLoop (C : Cfg) : ∀ n acc lit, GN n (arrayLoop C rec n acc lit) := by
  have hl := G.parseListComprehension Hrec C
  intro n
  induction n with
  | zero => intro acc lit s hs; omega
  | succ n ih =>
    intro acc lit
    unfold Parser.arrayLoop
    gntac

theorem G.parseArray (C : Cfg) : G false (parseArray C rec) := by
  have ha := GN.arrayLoop Hrec C
  unfold Parser.parseArray
  gtac

omit Hrec in
theorem GN.dottedNameLoop : ∀ n name, GN n (dottedNameLoop n name) := by
  intro n
  induction n with
  | zero => intro name s hs; omega
  | succ n ih =>
    intro name
    unfold Parser.dottedNameLoop
    gntac

omit Hrec in
theorem G.dottedName : G false dottedName := by
  have hd := GN.dottedNameLoop
  unfold Parser.dottedName
  gtac

theorem GN.componentAttributes : ∀ n acc, GN n (componentAttributes rec n acc) := by
  intro n
  induction n with
  | zero => intro acc s hs; omega
  | succ n ih =>
    intro acc
    unfold Parser.componentAttributes
    gntac

theorem G.parseInlineComponentCall : G false (parseInlineComponentCall rec) := by
  have hd := G.dottedName
  have hc := GN.componentAttributes Hrec
  unfold Parser.parseInlineComponentCall
  gtac

theorem G.parseOperand (op : BinaryOperator) (r : Nat) (lhs : Expr) :
    G false (parseOperand rec op r lhs) := by
  have h1 := G.parseTest Hrec
  have h2 := G.parseFilter Hrec
  cases op <;> (unfold Parser.parseOperand; gtac)

theorem GN.prattLoop (C : Cfg) (m : Nat) : ∀ n lhs neg, GN n (prattLoop C rec m n lhs neg) := by
  have hs := G.parseSubscript Hrec C
  have ho := G.parseOperand Hrec
  intro n
  induction n with
  | zero => intro lhs neg s hs; omega
  | succ n ih =>
    intro lhs neg
    unfold Parser.prattLoop
    gntac

theorem G.parsePrefix (C : Cfg) : G true (parsePrefix C rec) := by
  have h1 := G.parseIdent Hrec C
  have h2 := G.parseInlineComponentCall Hrec
  have h3 := G.parseMap Hrec
  have h4 := G.parseArray Hrec C
  unfold Parser.parsePrefix
  refine G.bind_tf G.nextOrError (fun t => ?_)
  gtac

theorem G.parseExprBp (C : Cfg) (m : Nat) : G true (parseExprBp C rec m) := by
  have hl := GN.prattLoop Hrec C m
  unfold Parser.parseExprBp
  refine G.bind_tf (G.parsePrefix Hrec C) (fun lhs => ?_)
  gtac

end funs

theorem G.innerParseExpression (C : Cfg) : ∀ b m, G true (innerParseExpression C b m) := by
  intro b
  induction b with
  | zero => intro m; exact G.err _
  | succ b ih => intro m; exact G.parseExprBp ih C m

/-- **Totality of the model**: on every token list the parser model answers `ok` or `err`: the
iteration budgets of its loops always suffice and the `expect` of `parse_subscript` cannot fire. -/
theorem parseExpression_total (C : Cfg) (maxDepth depth : Nat) (toks : List Tok) :
    parseExpression C maxDepth depth toks ≠ .fuel
    ∧ ∀ site, parseExpression C maxDepth depth toks ≠ .panic site := by
  have h := G.innerParseExpression C (maxDepth - depth) 0 ⟨toks, 0, 0⟩
  unfold parseExpression
  cases hr : innerParseExpression C (maxDepth - depth) 0 ⟨toks, 0, 0⟩ <;> simp_all [okRes]

end Tera.Parser
