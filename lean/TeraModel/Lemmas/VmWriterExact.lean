/-
C18 on the value-level VM, part 4:

* `loopW`: the interpreter loop with the writer threaded through it — after every turn the chunks
  of that turn go to the writer, and the loop stops with the I/O error at the first refusal, before
  the next instruction is looked at.  `loopW_eq_feed`: it computes exactly what feeding the trace of
  the whole run does (`runW`): the VM never reads its output, so stopping early and stopping
  afterwards cannot be told apart.
* the two writer families the C18 harness enumerates, exactly: a byte budget (`acceptBytes`) has
  accepted the first `n` bytes; a writer refusing its `k`-th call (`failAtCall k`) has accepted the
  first `k` non-empty `write_all` calls, and the I/O error is returned iff there was a `k`-th call.
-/
import TeraModel.Lemmas.VmWriterFeed
namespace Tera.Vm
open Tera Tera.W

theorem writeChunks_append {δ : Type} (D : Device δ) (a b : List Bytes) :
    ∀ (o : δ), D.writeChunks o (a ++ b) =
      match D.writeChunks o a with
      | (o', true) => D.writeChunks o' b
      | (o', false) => (o', false) := by
  induction a with
  | nil => intro o; simp [Device.writeChunks]
  | cons c cs ih =>
    intro o
    simp only [List.cons_append, Device.writeChunks]
    cases hw : D.writeAll o c with
    | mk o' ok =>
      cases ok with
      | true => simp only; exact ih o'
      | false => simp only

theorem callsOf_append (sp : Split) (a b : Trace) : callsOf sp (a ++ b) = callsOf sp a ++ callsOf sp b := by
  simp [callsOf]

/-! ### the loop with the writer threaded through -/

/-- The interpreter loop of one `interpret` call writing to an arbitrary writer as it goes. -/
def loopW {σ : Type} (W : Writer σ) (sp : Split) (rec : VmCtx → Chunk → State → RunRes)
    (recT : VmCtx → Chunk → State → Trace) (env : Env) (vm : VmCtx) (c : Chunk) :
    Nat → Nat → State → Sink σ → WRes × Sink σ
  | 0, pc, st, s =>
    match c.code[pc]? with
    | none => (.fin (.done st), s)
    | some _ => (.fin .outOfFuel, s)
  | fuel + 1, pc, st, s =>
    match c.code[pc]? with
    | none => (.fin (.done st), s)
    | some e =>
      -- the `write_all` calls of this turn (and of the `interpret` it nests on the same output)
      match (userDev W).writeChunks s (callsOf sp (stepChunks rec recT env vm c e pc st)) with
      | (s', false) => (.io, s')
      | (s', true) =>
        match step rec env vm c e pc st with
        | .next pc' st' => loopW W sp rec recT env vm c fuel pc' st' s'
        | .err x => (.fin (.err x), s')
        | .panic x => (.fin (.panic x), s')
        | .unmodelled x => (.fin (.unmodelled x), s')
        | .outOfFuel => (.fin .outOfFuel, s')

/-- feeding from an arbitrary sink state -/
def feedFrom {σ : Type} (W : Writer σ) (s : Sink σ) (calls : List Bytes) (r : RunRes) : WRes × Sink σ :=
  match (userDev W).writeChunks s calls with
  | (s', true) => (.fin r, s')
  | (s', false) => (.io, s')

/-- Stopping at the first refusal during the run = feeding the trace of the whole run. -/
theorem loopW_eq_feed {σ : Type} (W : Writer σ) (sp : Split) (rec : VmCtx → Chunk → State → RunRes)
    (recT : VmCtx → Chunk → State → Trace) (env : Env) (vm : VmCtx) (c : Chunk) :
    ∀ (fuel pc : Nat) (st : State) (s : Sink σ),
      loopW W sp rec recT env vm c fuel pc st s =
        feedFrom W s (callsOf sp (tLoop noGuard rec recT env vm c fuel pc st).2)
          (tLoop noGuard rec recT env vm c fuel pc st).1 := by
  intro fuel
  induction fuel with
  | zero =>
    intro pc st s
    cases hc : c.code[pc]? <;> simp [loopW, tLoop, hc, feedFrom, callsOf, Device.writeChunks]
  | succ fuel ih =>
    intro pc st s
    cases hc : c.code[pc]? with
    | none => simp [loopW, tLoop, hc, feedFrom, callsOf, Device.writeChunks]
    | some e =>
      simp only [loopW, tLoop, hc, noGuard, Bool.false_eq_true, ↓reduceIte]
      cases hs : step rec env vm c e pc st with
      | next pc' st' =>
        simp only [feedFrom, callsOf_append, writeChunks_append]
        cases hw : (userDev W).writeChunks s (callsOf sp (stepChunks rec recT env vm c e pc st)) with
        | mk s' ok =>
          cases ok with
          | true => simp only; rw [ih]; rfl
          | false => simp only
      | err x =>
        simp only [feedFrom]
        cases hw : (userDev W).writeChunks s (callsOf sp (stepChunks rec recT env vm c e pc st)) with
        | mk s' ok => cases ok <;> rfl
      | panic x =>
        simp only [feedFrom]
        cases hw : (userDev W).writeChunks s (callsOf sp (stepChunks rec recT env vm c e pc st)) with
        | mk s' ok => cases ok <;> rfl
      | unmodelled x =>
        simp only [feedFrom]
        cases hw : (userDev W).writeChunks s (callsOf sp (stepChunks rec recT env vm c e pc st)) with
        | mk s' ok => cases ok <;> rfl
      | outOfFuel =>
        simp only [feedFrom]
        cases hw : (userDev W).writeChunks s (callsOf sp (stepChunks rec recT env vm c e pc st)) with
        | mk s' ok => cases ok <;> rfl

/-- `interpret` with the writer threaded through its loop (nested calls on the same output hand
their chunks to the turn that made them). -/
def interpW {σ : Type} (W : Writer σ) (sp : Split) (fuel : Fuel) (env : Env) (vm : VmCtx) (c : Chunk)
    (st : State) (s0 : σ) : WRes × Sink σ :=
  match fuel.depth with
  | 0 => (.fin .outOfFuel, Sink.fresh s0)
  | d + 1 =>
    loopW W sp (fun vm c st => (tInterp noGuard env fuel.steps d vm c st).1)
      (fun vm c st => (tInterp noGuard env fuel.steps d vm c st).2) env vm c fuel.steps 0 st (Sink.fresh s0)

theorem interpW_eq_runW {σ : Type} (W : Writer σ) (sp : Split) (fuel : Fuel) (env : Env) (vm : VmCtx)
    (c : Chunk) (st : State) (s0 : σ) :
    interpW W sp fuel env vm c st s0 = runW W sp fuel env vm c st s0 := by
  obtain ⟨depth, steps⟩ := fuel
  unfold interpW runW traceRun feed
  cases depth with
  | zero => simp [tInterp, callsOf, Device.writeChunks]
  | succ d =>
    simp only [tInterp, loopW_eq_feed, feedFrom]
    rfl

/-! ### the byte-budget writer -/

theorem acceptBytes_writeChunks (n : Nat) (cs : List Bytes) :
    ∀ (s : Sink Nat), Budget n s → Budget n ((userDev acceptBytes).writeChunks s cs).1 := by
  induction cs with
  | nil => intro s h; simpa [Device.writeChunks] using h
  | cons c cs ih =>
    intro s h
    simp only [Device.writeChunks, userDev]
    have hb := acceptBytes_writeAllAux n c.length s c h
    change Budget n (writeAll acceptBytes s c).1 at hb
    cases hw : writeAll acceptBytes s c with
    | mk s' ok =>
      rw [hw] at hb
      cases ok with
      | true => simp only; have := ih s' hb; simpa [userDev] using this
      | false => simpa using hb

/-- A writer that accepts `n` bytes in total (splitting the last buffer) and then refuses has
accepted exactly the first `n` bytes of what was to be written. -/
theorem feed_acceptBytes_exact {α : Type} (n : Nat) (calls : List Bytes) (io fin : α) :
    (feed acceptBytes n calls io fin).2.accepted = calls.flatten.take n := by
  have hfresh : Budget n (Sink.fresh n) := ⟨by simp [Sink.fresh], by simp [Sink.fresh]⟩
  have hb : Budget n (feed acceptBytes n calls io fin).2 := by
    have := acceptBytes_writeChunks n calls (Sink.fresh n) hfresh
    unfold feed
    cases hw : (userDev acceptBytes).writeChunks (Sink.fresh n) calls with
    | mk s ok => rw [hw] at this; cases ok <;> exact this
  obtain ⟨hb1, hb2⟩ := hb
  rcases feed_spec acceptBytes n calls io fin with ⟨_, _, h3⟩ | ⟨h1, _, h3⟩
  · rw [h3] at hb1 ⊢
    rw [List.take_of_length_le (by omega)]
  · have hz := hb2 h1
    rw [hz] at hb1
    have hlen : (feed acceptBytes n calls io fin).2.accepted.length = n := by omega
    rw [List.prefix_iff_eq_take, hlen] at h3
    exact h3

/-! ### the call-index writer -/

/-- the `write_all` calls that reach the writer: `write_all(&[])` makes no `write` call -/
def nonEmpty (calls : List Bytes) : List Bytes := calls.filter (fun x => !x.isEmpty)

theorem failAtCall_writeChunks (k : Nat) (cs : List Bytes) :
    ∀ (s : Sink Nat) (t : List Bytes), CallR k s t →
      (((userDev (failAtCall k)).writeChunks s cs).2 = true ∧
          CallR k ((userDev (failAtCall k)).writeChunks s cs).1 (t ++ nonEmpty cs)) ∨
      (((userDev (failAtCall k)).writeChunks s cs).2 = false ∧
          CallF k ((userDev (failAtCall k)).writeChunks s cs).1 (t ++ nonEmpty cs)) := by
  induction cs with
  | nil => intro s t h; left; simpa [Device.writeChunks, nonEmpty] using h
  | cons x cs ih =>
    intro s t ⟨h1, h2, h3, h4⟩
    simp only [Device.writeChunks, userDev, failAtCall_writeAll]
    by_cases hx : x = []
    · subst hx
      simp only [↓reduceIte]
      have := ih s t ⟨h1, h2, h3, h4⟩
      simpa [userDev, nonEmpty] using this
    · have hne : nonEmpty (x :: cs) = x :: nonEmpty cs := by
        cases x with
        | nil => exact absurd rfl hx
        | cons b bs => simp [nonEmpty]
      simp only [hx, ↓reduceIte]
      by_cases hk : s.st < k
      · simp only [hk, ↓reduceIte]
        have := ih { st := s.st + 1, accepted := s.accepted ++ x, failed := s.failed, calls := s.calls + 1 }
          (t ++ [x]) ⟨h1, by simp [h2], by simp [h3], by simp; omega⟩
        rw [hne]
        simpa [userDev] using this
      · simp only [hk, ↓reduceIte]
        right
        have hkt : t.length = k := by omega
        refine ⟨trivial, rfl, ?_, ?_⟩
        · simp only
          rw [h3, List.take_append_of_le_length (by omega), List.take_of_length_le (by omega)]
        · rw [hne]; simp; omega

/-- A writer that refuses its `k`-th `write` call (0-based) and every later one has accepted
exactly the first `k` non-empty `write_all` calls, and the I/O error is returned iff there was a
`k`-th call. -/
theorem feed_failAtCall_exact {α : Type} (k : Nat) (calls : List Bytes) (io fin : α) (hne : io ≠ fin) :
    (feed (failAtCall k) 0 calls io fin).2.accepted = ((nonEmpty calls).take k).flatten ∧
    ((feed (failAtCall k) 0 calls io fin).1 = io ↔ k < (nonEmpty calls).length) := by
  have h0 : CallR k (Sink.fresh 0) [] := ⟨rfl, rfl, rfl, Nat.zero_le _⟩
  have := failAtCall_writeChunks k calls (Sink.fresh 0) [] h0
  unfold feed
  cases hw : (userDev (failAtCall k)).writeChunks (Sink.fresh 0) calls with
  | mk s ok =>
    rw [hw] at this
    simp only [List.nil_append] at this
    rcases this with ⟨e1, _, _, e3, e4⟩ | ⟨e1, _, e2, e3⟩
    · subst e1
      simp only
      refine ⟨?_, ?_⟩
      · rw [e3, List.take_of_length_le e4]
      · constructor
        · intro h; exact absurd h.symm hne
        · intro h; omega
    · subst e1
      simp only
      exact ⟨e2, fun _ => e3, fun _ => trivial⟩

end Tera.Vm
