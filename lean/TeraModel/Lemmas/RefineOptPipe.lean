/-
Last mile (Props/RefineE2E.lean), part 2: taking the pipeline model apart.

* `storeChunk_inv`: what `Pipeline.storeChunk` answered, as the optimiser's output and its decoding;
* `newTemplate_main`: `Template::new` on a source that parses to `t` stores
  `storeChunk name (nodesCode 0 none t.nodes)` as the main chunk;
* `single_template_entry`: after `addTemplatesT cfg [(name, src)]` the VM's table entry for `name`
  (directly or as an include alias) carries that chunk under the template's own name
  (p2_pipeline's `addTemplatesT_inv`, `infosOf_spec`, `includeAliases_mem`).
-/
import TeraModel.Lemmas.RefineOpt
import TeraModel.Lemmas.PipelineT
namespace Tera.RefineE2E
open Tera Tera.Vm Tera.Compiler Tera.Refine

/-- what `storeChunk` answered, taken apart -/
theorem storeChunk_inv (cname : String) (code : Code) (ch : Chunk)
    (h : Pipeline.storeChunk cname code = .ok ch) :
    ∃ c' code', Optimize.optimize (Pipeline.encode code) = .ok c' ∧
      Pipeline.decodeAll code c' = some code' ∧ ch = ⟨cname, code'⟩ := by
  unfold Pipeline.storeChunk at h
  cases hopt : Optimize.optimize (Pipeline.encode code) with
  | panic s => rw [hopt] at h; cases h
  | ok c' =>
    rw [hopt] at h
    simp only at h
    cases hd : Pipeline.decodeAll code c' with
    | none => rw [hd] at h; cases h
    | some code' =>
      rw [hd] at h
      simp only [Pipeline.Stored.ok.injEq] at h
      exact ⟨c', code', rfl, hd, h.symm⟩

/-- `Template::new` on a source that parses to `t`: the stored main chunk is
`storeChunk name (compile t.nodes)` -/
theorem newTemplate_main (d : Delims) (name : String) (src : Tera.Bytes) (t : Template)
    (td : Pipeline.TemplateData) (hf : Pipeline.front d src = .ok t)
    (h : Pipeline.newTemplate d name src = .ok td) :
    td.name = name ∧ Pipeline.storeChunk name (nodesCode 0 none t.nodes) = .ok td.main := by
  unfold Pipeline.newTemplate at h
  rw [hf] at h
  simp only at h
  cases hc : compileTemplate t with
  | error site => rw [hc] at h; cases h
  | ok c =>
    rw [hc] at h
    simp only at h
    have hmain := (Pipeline.chunks_are_nodes t c hc).1
    split at h
    case h_1 main blocks comps h1 h2 h3 =>
      simp only [Pipeline.NewRes.ok.injEq] at h
      subst h
      rw [hmain] at h1
      exact ⟨rfl, h1⟩
    all_goals cases h

/-- the entry of the VM's template table for the only template of a one-source batch -/
theorem single_template_entry (cfg : Pipeline.Config) (name : String) (src : Tera.Bytes)
    (t : Template) (env : Pipeline.Env) (hf : Pipeline.front cfg.delims src = .ok t)
    (hadd : Pipeline.addTemplatesT cfg [(name, src)] = .ok env) (tpl : TemplateInfo)
    (htpl : env.template name = some tpl) :
    tpl.name = name ∧ Pipeline.storeChunk tpl.name (nodesCode 0 none t.nodes) = .ok tpl.chunk := by
  obtain ⟨tds, st, hnew, _, hbuild⟩ := Pipeline.addTemplatesT_inv cfg [(name, src)] env hadd
  -- the batch is the one template
  obtain ⟨td, rfl, htd⟩ : ∃ td, tds = [td] ∧ Pipeline.newTemplate cfg.delims name src = .ok td := by
    simp only [Pipeline.newAll] at hnew
    cases hn : Pipeline.newTemplate cfg.delims name src with
    | ok td =>
      rw [hn] at hnew
      simp only [Except.ok.injEq] at hnew
      exact ⟨td, hnew.symm, rfl⟩
    | «syntax» => rw [hn] at hnew; cases hnew
    | panic s => rw [hn] at hnew; cases hnew
    | outOfFuel => rw [hn] at hnew; cases hnew
    | internal w => rw [hn] at hnew; cases hnew
  obtain ⟨hname, hmain⟩ := newTemplate_main cfg.delims name src t td hf htd
  -- the table of the environment
  unfold Pipeline.buildEnv at hbuild
  cases hi : Pipeline.infosOf (Pipeline.namedOf [td]) st.templates with
  | none => rw [hi] at hbuild; simp at hbuild
  | some tpls =>
    cases hg : Pipeline.globalComponents (Pipeline.namedOf [td]) st.comps with
    | none => rw [hi, hg] at hbuild; simp at hbuild
    | some comps =>
      rw [hi, hg] at hbuild
      simp only [Option.some.injEq] at hbuild
      subst hbuild
      have hassoc : Vm.assoc name (tpls ++ Pipeline.includeAliases cfg.prefixes (st.templates.map (·.tpl)) tpls
          ((st.templates.map (·.tpl)).flatMap (·.includeCalls))) = some tpl := htpl
      obtain ⟨k, hmem⟩ := Pipeline.assoc_mem hassoc
      -- in either half of the table the entry comes from `infoOf`
      obtain ⟨r, hr⟩ : ∃ r, (r, tpl) ∈ tpls := by
        rcases List.mem_append.mp hmem with h | h
        · exact ⟨k, h⟩
        · obtain ⟨r, hr⟩ := Pipeline.includeAliases_mem _ _ _ _ _ h
          obtain ⟨r', hr'⟩ := Pipeline.assoc_mem hr
          exact ⟨r', hr'⟩
      obtain ⟨e, _, hinfo⟩ := (Pipeline.infosOf_spec _ st.templates tpls hi).2 _ hr
      unfold Pipeline.infoOf at hinfo
      cases hl : Pipeline.lookupLast e.tpl.name (Pipeline.namedOf [td]) with
      | none => rw [hl] at hinfo; cases hinfo
      | some td' =>
        rw [hl] at hinfo
        simp only at hinfo
        cases hlin : Pipeline.lineagesOf (Pipeline.namedOf [td]) e.lineage with
        | none => rw [hlin] at hinfo; cases hinfo
        | some lin =>
          rw [hlin] at hinfo
          simp only [Option.some.injEq, Prod.mk.injEq] at hinfo
          obtain ⟨_, htplEq⟩ := hinfo
          have hmem' := Pipeline.lookupLast_mem _ _ _ hl
          simp only [Pipeline.namedOf, List.map_cons, List.map_nil, List.mem_singleton,
            Prod.mk.injEq] at hmem'
          obtain ⟨hen, rfl⟩ := hmem'
          subst htplEq
          simp only
          rw [hen, hname]
          exact ⟨rfl, hmain⟩

/-- a source `Template::new` accepts parses -/
theorem newTemplate_front (d : Delims) (name : String) (src : Tera.Bytes) (td : Pipeline.TemplateData)
    (h : Pipeline.newTemplate d name src = .ok td) : ∃ t, Pipeline.front d src = .ok t := by
  unfold Pipeline.newTemplate at h
  cases hf : Pipeline.front d src with
  | ok t => exact ⟨t, rfl⟩
  | «syntax» => rw [hf] at h; cases h
  | panic s => rw [hf] at h; cases h
  | outOfFuel => rw [hf] at h; cases h

/-- every template of the batch comes from one of the sources -/
theorem newAll_mem (d : Delims) : ∀ (sources : List (String × Tera.Bytes)) (tds : List Pipeline.TemplateData),
    Pipeline.newAll d sources = .ok tds → ∀ td ∈ tds, ∃ src, (td.name, src) ∈ sources ∧
      ∃ t, Pipeline.front d src = .ok t ∧
        Pipeline.storeChunk td.name (nodesCode 0 none t.nodes) = .ok td.main
  | [], tds, h, td, htd => by
    simp only [Pipeline.newAll, Except.ok.injEq] at h
    subst h; cases htd
  | (name, src) :: rest, tds, h, td, htd => by
    simp only [Pipeline.newAll] at h
    cases hn : Pipeline.newTemplate d name src with
    | ok td0 =>
      rw [hn] at h
      simp only at h
      cases hr : Pipeline.newAll d rest with
      | error e => rw [hr] at h; cases h
      | ok ts =>
        rw [hr] at h
        simp only [Except.ok.injEq] at h
        subst h
        rcases List.mem_cons.mp htd with rfl | hmem
        · obtain ⟨t, hf⟩ := newTemplate_front d name src td hn
          obtain ⟨hname, hmain⟩ := newTemplate_main d name src t td hf hn
          exact ⟨src, by rw [hname]; exact List.mem_cons_self, t, hf, by rw [hname]; exact hmain⟩
        · obtain ⟨src', hm, t, hf, hst⟩ := newAll_mem d rest ts hr td hmem
          exact ⟨src', List.mem_cons_of_mem _ hm, t, hf, hst⟩
    | «syntax» => rw [hn] at h; cases h
    | panic s => rw [hn] at h; cases h
    | outOfFuel => rw [hn] at h; cases h
    | internal w => rw [hn] at h; cases h

/-- **every entry of the VM's template table** after `addTemplatesT` on any batch of sources holds
the STORED chunk of the compiled body of one of the sources, the one under the entry's own name -/
theorem template_entry_sources (cfg : Pipeline.Config) (sources : List (String × Tera.Bytes))
    (env : Pipeline.Env) (hadd : Pipeline.addTemplatesT cfg sources = .ok env) (name : String)
    (tpl : TemplateInfo) (htpl : env.template name = some tpl) :
    ∃ src, (tpl.name, src) ∈ sources ∧ ∃ t, Pipeline.front cfg.delims src = .ok t ∧
      Pipeline.storeChunk tpl.name (nodesCode 0 none t.nodes) = .ok tpl.chunk := by
  obtain ⟨tds, st, hnew, _, hbuild⟩ := Pipeline.addTemplatesT_inv cfg sources env hadd
  unfold Pipeline.buildEnv at hbuild
  cases hi : Pipeline.infosOf (Pipeline.namedOf tds) st.templates with
  | none => rw [hi] at hbuild; simp at hbuild
  | some tpls =>
    cases hg : Pipeline.globalComponents (Pipeline.namedOf tds) st.comps with
    | none => rw [hi, hg] at hbuild; simp at hbuild
    | some comps =>
      rw [hi, hg] at hbuild
      simp only [Option.some.injEq] at hbuild
      subst hbuild
      have hassoc : Vm.assoc name (tpls ++ Pipeline.includeAliases cfg.prefixes (st.templates.map (·.tpl)) tpls
          ((st.templates.map (·.tpl)).flatMap (·.includeCalls))) = some tpl := htpl
      obtain ⟨k, hmem⟩ := Pipeline.assoc_mem hassoc
      obtain ⟨r, hr⟩ : ∃ r, (r, tpl) ∈ tpls := by
        rcases List.mem_append.mp hmem with h | h
        · exact ⟨k, h⟩
        · obtain ⟨r, hr⟩ := Pipeline.includeAliases_mem _ _ _ _ _ h
          obtain ⟨r', hr'⟩ := Pipeline.assoc_mem hr
          exact ⟨r', hr'⟩
      obtain ⟨e, _, hinfo⟩ := (Pipeline.infosOf_spec _ st.templates tpls hi).2 _ hr
      unfold Pipeline.infoOf at hinfo
      cases hl : Pipeline.lookupLast e.tpl.name (Pipeline.namedOf tds) with
      | none => rw [hl] at hinfo; cases hinfo
      | some td' =>
        rw [hl] at hinfo
        simp only at hinfo
        cases hlin : Pipeline.lineagesOf (Pipeline.namedOf tds) e.lineage with
        | none => rw [hlin] at hinfo; cases hinfo
        | some lin =>
          rw [hlin] at hinfo
          simp only [Option.some.injEq, Prod.mk.injEq] at hinfo
          obtain ⟨_, htplEq⟩ := hinfo
          have hmem' := Pipeline.lookupLast_mem _ _ _ hl
          simp only [Pipeline.namedOf, List.mem_map] at hmem'
          obtain ⟨td, htd, heq⟩ := hmem'
          simp only [Prod.mk.injEq] at heq
          obtain ⟨hen, rfl⟩ := heq
          obtain ⟨src, hm, t, hf, hst⟩ := newAll_mem cfg.delims sources tds hnew td htd
          subst htplEq
          simp only
          rw [← hen]
          exact ⟨src, hm, t, hf, hst⟩

end Tera.RefineE2E
