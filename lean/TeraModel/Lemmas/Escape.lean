/-
Helper lemmas for C01: facts about `escapeWith t` for *any* table `t` that passes the executable
check `goodTable`, and the proof (by kernel evaluation over all 256 rows) that the table the
translator extracted from `tera/src/utils.rs` passes it.
-/
import TeraModel.Model.Escape
namespace Tera.Escape

/-- The table in the source right now passes the check — re-proved on every run. -/
theorem goodTable_generated : goodTable Generated.escapeTable = true := by decide +kernel

theorem goodTable_length {t : List (List Nat)} (h : goodTable t = true) : t.length = 256 := by
  unfold goodTable at h
  simp only [Bool.and_eq_true, beq_iff_eq] at h
  exact h.1

theorem goodRow_of_goodTable {t : List (List Nat)} (h : goodTable t = true) {i : Nat}
    (hi : i < 256) : goodRow t i = true := by
  unfold goodTable at h
  simp only [Bool.and_eq_true, List.all_eq_true, List.mem_range] at h
  exact h.2 i hi

theorem row_big {t : List (List Nat)} (h : goodTable t = true) {i : Nat} (hi : 256 ≤ i) :
    row t i = [i] := by
  have hl := goodTable_length h
  unfold row
  rw [List.getD_eq_getElem?_getD, List.getElem?_eq_none (by omega)]
  rfl

theorem row_clean {t : List (List Nat)} (h : goodTable t = true) (b : Nat) :
    ∀ x ∈ row t b, isSpecial x = false := by
  by_cases hb : b < 256
  · have g := goodRow_of_goodTable h hb
    unfold goodRow at g
    simp only [Bool.and_eq_true, List.all_eq_true] at g
    intro x hx
    have := g.1.1.1 x hx
    simpa using this
  · rw [row_big h (by omega)]
    intro x hx
    simp only [List.mem_singleton] at hx
    subst hx
    unfold isSpecial
    have h1 : (x == 60) = false := by simp; omega
    have h2 : (x == 62) = false := by simp; omega
    have h3 : (x == 34) = false := by simp; omega
    have h4 : (x == 39) = false := by simp; omega
    simp [h1, h2, h3, h4]

theorem row_ampOk {t : List (List Nat)} (h : goodTable t = true) (b : Nat) :
    ampOk (row t b) = true := by
  by_cases hb : b < 256
  · have g := goodRow_of_goodTable h hb
    unfold goodRow at g
    simp only [Bool.and_eq_true] at g
    exact g.1.1.2
  · rw [row_big h (by omega)]
    have h1 : (b != 38) = true := by simp; omega
    simp [ampOk, h1]

theorem row_high {t : List (List Nat)} (h : goodTable t = true) {b : Nat} (hb : 128 ≤ b) :
    row t b = [b] := by
  by_cases hb2 : b < 256
  · have g := goodRow_of_goodTable h hb2
    unfold goodRow at g
    simp only [Bool.and_eq_true] at g
    have g3 := g.1.2
    have : ¬ b < 128 := by omega
    simp only [this, if_false, beq_iff_eq] at g3
    exact g3
  · exact row_big h (by omega)

theorem row_ascii {t : List (List Nat)} (h : goodTable t = true) {b : Nat} (hb : b < 128) :
    ∀ x ∈ row t b, x < 128 := by
  have g := goodRow_of_goodTable h (show b < 256 by omega)
  unfold goodRow at g
  simp only [Bool.and_eq_true] at g
  have g3 := g.1.2
  simp only [hb, if_true, List.all_eq_true, decide_eq_true_eq] at g3
  exact g3

theorem row_scalar {t : List (List Nat)} (h : goodTable t = true) {b : Nat}
    (hb : isScalarByte b = true) : row t b = [b] := by
  have hb2 : b < 256 := by
    unfold isScalarByte at hb
    simp only [Bool.or_eq_true, Bool.and_eq_true, decide_eq_true_eq, beq_iff_eq] at hb
    omega
  have g := goodRow_of_goodTable h hb2
  unfold goodRow at g
  simp only [Bool.and_eq_true] at g
  have g4 := g.2
  simp only [hb, if_true, beq_iff_eq] at g4
  exact g4

@[simp] theorem escapeWith_nil (t : List (List Nat)) : escapeWith t [] = [] := rfl

@[simp] theorem escapeWith_cons (t : List (List Nat)) (b : Nat) (bs : List Nat) :
    escapeWith t (b :: bs) = row t b ++ escapeWith t bs := by
  simp [escapeWith]

theorem escapeWith_append (t : List (List Nat)) (a b : List Nat) :
    escapeWith t (a ++ b) = escapeWith t a ++ escapeWith t b := by
  simp [escapeWith]

/-- No `<`, `>`, `"`, `'` comes out of the escaper. -/
theorem escapeWith_clean {t : List (List Nat)} (h : goodTable t = true) (bs : List Nat) :
    ∀ x ∈ escapeWith t bs, isSpecial x = false := by
  induction bs with
  | nil => simp
  | cons b bs ih =>
    intro x hx
    rw [escapeWith_cons, List.mem_append] at hx
    cases hx with
    | inl hx => exact row_clean h b x hx
    | inr hx => exact ih x hx

theorem isPrefixOf_append_right (p a b : List Nat) (h : p.isPrefixOf a = true) :
    p.isPrefixOf (a ++ b) = true := by
  induction p generalizing a with
  | nil => simp [List.isPrefixOf]
  | cons x p ih =>
    cases a with
    | nil => simp [List.isPrefixOf] at h
    | cons y a =>
      simp only [List.cons_append, List.isPrefixOf, Bool.and_eq_true] at h ⊢
      exact ⟨h.1, ih a h.2⟩

theorem ampOk_append (a b : List Nat) (ha : ampOk a = true) (hb : ampOk b = true) :
    ampOk (a ++ b) = true := by
  induction a with
  | nil => simpa using hb
  | cons x a ih =>
    simp only [List.cons_append, ampOk, Bool.and_eq_true, Bool.or_eq_true, List.any_eq_true] at ha ⊢
    refine ⟨?_, ih ha.2⟩
    cases ha.1 with
    | inl h => exact Or.inl h
    | inr h =>
      obtain ⟨tl, htl, hp⟩ := h
      exact Or.inr ⟨tl, htl, isPrefixOf_append_right tl a b hp⟩

/-- Every `&` that comes out of the escaper starts one of its five entities. -/
theorem escapeWith_ampOk {t : List (List Nat)} (h : goodTable t = true) (bs : List Nat) :
    ampOk (escapeWith t bs) = true := by
  induction bs with
  | nil => rfl
  | cons b bs ih =>
    rw [escapeWith_cons]
    exact ampOk_append _ _ (row_ampOk h b) ih

/-- Escaping text drawn from the scalar alphabet is the identity. -/
theorem escapeWith_scalar {t : List (List Nat)} (h : goodTable t = true) (bs : List Nat)
    (hs : bs.all isScalarByte = true) : escapeWith t bs = bs := by
  induction bs with
  | nil => rfl
  | cons b bs ih =>
    simp only [List.all_cons, Bool.and_eq_true] at hs
    rw [escapeWith_cons, row_scalar h hs.1, ih hs.2]
    rfl

theorem utf8Valid_ascii_append (a : List Nat) (ha : ∀ x ∈ a, x < 128) (xs : List Nat) :
    utf8Valid (a ++ xs) = utf8Valid xs := by
  induction a with
  | nil => rfl
  | cons x a ih =>
    have hx : x < 128 := ha x (by simp)
    have hx' : x < 0x80 := hx
    rw [List.cons_append]
    conv => lhs; unfold utf8Valid
    simp only [hx', if_true]
    exact ih (fun y hy => ha y (by simp [hy]))

theorem seqInfo_lo {b0 n lo hi : Nat} (h : seqInfo b0 = some (n, lo, hi)) : 0x80 ≤ lo := by
  unfold seqInfo at h
  repeat' split at h
  all_goals first | (simp only [Option.some.injEq, Prod.mk.injEq] at h; omega) | simp at h

theorem inR_lo {lo hi b : Nat} (h : inR lo hi b = true) : lo ≤ b := by
  unfold inR at h
  simp only [Bool.and_eq_true, decide_eq_true_eq] at h
  exact h.1

/-- The escaper maps valid UTF-8 to valid UTF-8. -/
theorem escapeWith_utf8 {t : List (List Nat)} (h : goodTable t = true) (bs : List Nat)
    (hv : utf8Valid bs = true) : utf8Valid (escapeWith t bs) = true := by
  fun_induction utf8Valid bs with
  | case1 => rfl
  | case2 b0 rest hb ih =>
    rw [escapeWith_cons, utf8Valid_ascii_append _ (row_ascii h (by omega))]
    exact ih hv
  | case3 b0 hb lo hi b1 r hs ih =>
    simp only [Bool.and_eq_true] at hv
    have h0 : 128 ≤ b0 := by omega
    have h1 : 128 ≤ b1 := Nat.le_trans (seqInfo_lo hs) (inR_lo hv.1)
    simp only [escapeWith_cons, row_high h h0, row_high h h1, List.singleton_append]
    rw [utf8Valid.eq_def]
    simp only [hb, if_false, hs, Bool.and_eq_true]
    exact ⟨hv.1, ih hv.2⟩
  | case4 b0 hb lo hi b1 b2 r hs ih =>
    simp only [Bool.and_eq_true] at hv
    have h0 : 128 ≤ b0 := by omega
    have h1 : 128 ≤ b1 := Nat.le_trans (seqInfo_lo hs) (inR_lo hv.1.1)
    have h2 : 128 ≤ b2 := inR_lo hv.1.2
    simp only [escapeWith_cons, row_high h h0, row_high h h1, row_high h h2, List.singleton_append]
    rw [utf8Valid.eq_def]
    simp only [hb, if_false, hs, Bool.and_eq_true]
    exact ⟨⟨hv.1.1, hv.1.2⟩, ih hv.2⟩
  | case5 b0 hb lo hi b1 b2 b3 r hs ih =>
    simp only [Bool.and_eq_true] at hv
    have h0 : 128 ≤ b0 := by omega
    have h1 : 128 ≤ b1 := Nat.le_trans (seqInfo_lo hs) (inR_lo hv.1.1.1)
    have h2 : 128 ≤ b2 := inR_lo hv.1.1.2
    have h3 : 128 ≤ b3 := inR_lo hv.1.2
    simp only [escapeWith_cons, row_high h h0, row_high h h1, row_high h h2, row_high h h3,
      List.singleton_append]
    rw [utf8Valid.eq_def]
    simp only [hb, if_false, hs, Bool.and_eq_true]
    exact ⟨⟨⟨hv.1.1.1, hv.1.1.2⟩, hv.1.2⟩, ih hv.2⟩
  | case6 => simp at hv

theorem isScalarByte_not_special {b : Nat} (h : isScalarByte b = true) : isSpecial b = false := by
  unfold isScalarByte at h
  simp only [Bool.or_eq_true, Bool.and_eq_true, decide_eq_true_eq, beq_iff_eq] at h
  unfold isSpecial
  have h1 : (b == 60) = false := by simp; omega
  have h2 : (b == 62) = false := by simp; omega
  have h3 : (b == 34) = false := by simp; omega
  have h4 : (b == 39) = false := by simp; omega
  simp [h1, h2, h3, h4]

theorem fmtNat_scalar (n : Nat) : (fmtNat n).all isScalarByte = true := by
  simp only [fmtNat, List.all_eq_true, List.mem_map]
  rintro b ⟨c, hc, rfl⟩
  have hd : c.isDigit = true := Nat.isDigit_of_mem_toDigits (by omega) (by omega) hc
  simp only [Char.isDigit, Bool.and_eq_true, decide_eq_true_eq] at hd
  unfold isScalarByte
  have h1 : 48 ≤ c.toNat := UInt32.le_iff_toNat_le.mp hd.1
  have h2 : c.toNat ≤ 57 := UInt32.le_iff_toNat_le.mp hd.2
  simp [h1, h2]

theorem fmtInt_scalar (n : Int) : (fmtInt n).all isScalarByte = true := by
  unfold fmtInt
  split
  · simp only [List.all_cons, Bool.and_eq_true]
    exact ⟨by decide, fmtNat_scalar _⟩
  · exact fmtNat_scalar _

theorem fmtBool_scalar (b : Bool) : (fmtBool b).all isScalarByte = true := by
  cases b <;> decide

end Tera.Escape
