/-
Glue for `include` across the optimiser (Props/RefineE2E.lean).

* `codeNoBlockCalls`: executable check on compiler output: no `RenderBlock`, no
  `CallFunction("super")` (what C09VmLift's `NoBlockCalls` asks of the typed chunk;
  `noBlockCalls_typed`).  Compiled in-domain ASTs have no `RenderBlock` (`{% block %}` is outside
  the domain); `super()` is an ordinary function call for the domain check (the evaluator answers
  `unsupported`), so the check is what excludes it.
* `inclDone_of_runs` / `inclErr_of_runs`: nested calls that end with the same text (fail in the
  same class) for every large enough fuel end in ONE state (fail with ONE error) for every large
  enough fuel: fuel monotonicity (`interp_mono`).
-/
import TeraModel.Lemmas.RefineOpt
import TeraModel.Lemmas.RefineOptMono
import TeraModel.Lemmas.RefineNode
namespace Tera.RefineE2E
open Tera Tera.Vm Tera.Compiler Tera.Refine

/-- no `RenderBlock` and no `CallFunction("super")` in compiler output -/
def codeNoBlockCalls (code : Code) : Bool :=
  code.all fun e => match e.1 with
    | .renderBlock _ => false
    | .callFunction n => n != "super"
    | _ => true

theorem noBlockCalls_typed (code : Code) (tcode : List VEntry)
    (ht : Pipeline.typedCode code = some tcode) (h : codeNoBlockCalls code = true) :
    ∀ e ∈ tcode, OptimizeSimVm.isBlockCall e.1 = false := by
  intro ve hve
  obtain ⟨ce, hce, hv⟩ := mapM_typed_mem code tcode ht ve hve
  have hno := List.all_eq_true.mp h ce hce
  obtain ⟨ci, b⟩ := ce
  cases ci <;> simp only [Pipeline.vinstr, Option.some.injEq] at hv <;>
    first
    | (rw [← hv]; rfl)
    | (simp at hno; done)
    | skip
  case callFunction n =>
    rw [← hv]
    simpa [OptimizeSimVm.isBlockCall] using hno
  case binop op =>
    cases op <;> simp only [Option.some.injEq, reduceCtorEq] at hv <;> (rw [← hv]; rfl)

theorem inclDone_of_runs {env : Vm.Env} {vm : VmCtx} {tpl : TemplateInfo} {st : State}
    {out : List Char}
    (h : ∃ N D, ∀ steps depth, N ≤ steps → D ≤ depth → ∃ stN,
      interp env steps (depth + 1) (inclVm vm tpl) tpl.chunk (includeState st) = .done stN
        ∧ stN.out = out) :
    ∃ stN, InclDone env vm tpl st stN ∧ stN.out = out := by
  obtain ⟨N, D, h⟩ := h
  obtain ⟨stN, hrun, hout⟩ := h N D (Nat.le_refl _) (Nat.le_refl _)
  refine ⟨stN, ⟨N, D, fun steps depth hs hd => ?_⟩, hout⟩
  rw [interp_mono env N steps hs (D + 1) (depth + 1) (by omega) _ _ _ (by rw [hrun]; intro h; cases h),
    hrun]

theorem inclErr_of_runs {env : Vm.Env} {vm : VmCtx} {tpl : TemplateInfo} {st : State}
    {P : RErr → Prop}
    (h : ∃ N D, ∀ steps depth, N ≤ steps → D ≤ depth → ∃ re, P re ∧
      interp env steps (depth + 1) (inclVm vm tpl) tpl.chunk (includeState st) = .err re) :
    ∃ re, P re ∧ InclErr env vm tpl st re := by
  obtain ⟨N, D, h⟩ := h
  obtain ⟨re, hP, hrun⟩ := h N D (Nat.le_refl _) (Nat.le_refl _)
  refine ⟨re, hP, ⟨N, D, fun steps depth hs hd => ?_⟩⟩
  rw [interp_mono env N steps hs (D + 1) (depth + 1) (by omega) _ _ _ (by rw [hrun]; intro h; cases h),
    hrun]

end Tera.RefineE2E
