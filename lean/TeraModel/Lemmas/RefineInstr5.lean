/-
Compiler correctness (Props/Refine.lean), part 2e: keyword arguments and the calls of built-in
filters, tests and functions.

The VM model takes the built-ins as parameters of `Vm.Env` (`hasFilter`, `callFilter`,
`filterIsSafe`, …; `CallRes`), the evaluator has a fixed table (`applyFilter`, `applyTest`,
`applyFunction` of Model/Eval.lean).  `BuiltinsRel` is the hypothesis that relates them: on every
receiver and every keyword-argument list with distinct names, the VM's table returns what the
evaluator's function returns (after the VM's `mark_safe` for safe filters / functions), and fails
(`InvalidArgument` or any other error — both become a rendering error) where the evaluator's
fails with a reportable error.  The theorems are parametric in the table.

Keyword arguments reach a built-in through `BuildMap(n)` and `kwargs.into_map_arc()`
(`kwargsOf`): `kwargs_roundtrip` — for distinct names, what arrives is the evaluated list itself.
-/
import TeraModel.Lemmas.RefineInstr4
namespace Tera.Refine
open Tera Tera.Vm Tera.Compiler

/-- evaluated keyword arguments as evaluated map entries (the key is the name) -/
def kwParts (kw : List (String × Value)) : List (Option Key × Value) :=
  kw.map fun p => (some (Key.str p.1.toList), p.2)

theorem kvs_kwParts (kw : List (String × Value)) :
    kvs (kwParts kw) = kw.map fun p => (Key.str p.1.toList, p.2) := by
  induction kw with
  | nil => rfl
  | cons x rest ih => simp only [kwParts, List.map_cons, kvs] at ih ⊢; rw [ih]

theorem kwParts_all (kw : List (String × Value)) : ∀ p ∈ kwParts kw, p.1.isSome = true := by
  intro p hp
  obtain ⟨q, _, rfl⟩ := List.mem_map.mp hp
  rfl

theorem mapInsert_absent (acc : Entries) (k : Key) (v : Value)
    (h : ∀ x ∈ acc, Key.eqv x.1 k = false) : mapInsert acc k v = acc ++ [(k, v)] := by
  induction acc with
  | nil => rfl
  | cons x rest ih =>
    obtain ⟨k', v'⟩ := x
    have h1 : Key.eqv k' k = false := h (k', v') (by simp)
    simp only [mapInsert, h1, Bool.false_eq_true, if_false, List.cons_append,
      ih (fun y hy => h y (by simp [hy]))]

theorem foldl_mapInsert_distinct : ∀ (l : List (Key × Value)) (acc : Entries),
    (∀ x ∈ acc, ∀ y ∈ l, Key.eqv x.1 y.1 = false) →
    l.Pairwise (fun a b => Key.eqv a.1 b.1 = false) →
    l.foldl (fun m e => mapInsert m e.1 e.2) acc = acc ++ l := by
  intro l
  induction l with
  | nil => intro acc _ _; simp
  | cons y rest ih =>
    intro acc hacc hpw
    obtain ⟨hy, hrest⟩ := List.pairwise_cons.mp hpw
    simp only [List.foldl_cons]
    rw [mapInsert_absent acc y.1 y.2 (fun x hx => hacc x hx y (by simp))]
    rw [ih (acc ++ [(y.1, y.2)]) ?_ hrest]
    · simp
    · intro x hx z hz
      rcases List.mem_append.mp hx with hx | hx
      · exact hacc x hx z (by simp [hz])
      · simp only [List.mem_singleton] at hx
        subst hx
        exact hy z hz

theorem kwargsOf_names (kw : List (String × Value)) :
    kwargsOf (kw.map fun p => (Key.str p.1.toList, p.2)) = kw := by
  induction kw with
  | nil => rfl
  | cons x rest ih =>
    simp only [List.map_cons, kwargsOf, ih, String.ofList_toList]

/-- what `BuildMap(n)` + `into_map_arc()` hand to a built-in is the evaluated list, when the
names are distinct -/
theorem kwargs_roundtrip (kw : List (String × Value)) (hd : (kw.map (·.1)).Nodup) :
    kwargsOf ((kvs (kwParts kw)).foldl (fun m e => mapInsert m e.1 e.2) []) = kw := by
  rw [kvs_kwParts, foldl_mapInsert_distinct _ [] (by intro x hx; cases hx), List.nil_append,
    kwargsOf_names]
  rw [List.pairwise_map]
  have hd' := List.pairwise_map.mp hd
  refine hd'.imp ?_
  intro a b hab
  simp only [Key.eqv]
  have : a.1.toList ≠ b.1.toList := fun h => hab (String.toList_injective h)
  simpa using this

/-! ### the built-in tables -/

structure BuiltinsRel (venv : Vm.Env) (eenv : Tera.Env) : Prop where
  filter : ∀ (name : String) (v : Value) (kw : List (String × Value)), (kw.map (·.1)).Nodup →
    match applyFilter eenv name v kw with
    | .ok r => venv.hasFilter name = true ∧ ∃ r', venv.callFilter name v kw = .ok r'
        ∧ (if venv.filterIsSafe name then r'.markSafe else r') = r
    | .error err => reportable err = true → venv.hasFilter name = true
        ∧ (venv.callFilter name v kw = .errInvalidArg ∨ venv.callFilter name v kw = .err)
  test : ∀ (name : String) (v : Value) (kw : List (String × Value)), (kw.map (·.1)).Nodup →
    match applyTest name v with
    | .ok b => venv.hasTest name = true ∧ venv.callTest name v kw = .ok (.bool b)
    | .error err => reportable err = true → venv.hasTest name = true
        ∧ (venv.callTest name v kw = .errInvalidArg ∨ venv.callTest name v kw = .err)
  function : ∀ (name : String) (kw : List (String × Value)), (kw.map (·.1)).Nodup →
    match applyFunction name kw with
    | .ok r => venv.hasFunction name = true ∧ ∃ r', venv.callFunction name kw = .ok r'
        ∧ (if venv.functionIsSafe name then r'.markSafe else r') = r
    | .error err => reportable err = true → venv.hasFunction name = true
        ∧ (venv.callFunction name kw = .errInvalidArg ∨ venv.callFunction name kw = .err)

/-! ### the evaluator's built-ins only fail with `call` / `thrown` (or `unsupported`) -/

theorem applyFilter_error {eenv : Tera.Env} {name : String} {v : Value} {kw : List (String × Value)}
    {err : Err} (h : applyFilter eenv name v kw = .error err) (hrep : reportable err = true) :
    err = .call := by
  unfold applyFilter at h
  repeat' split at h
  all_goals cases h <;> first | rfl | simp [reportable] at hrep

theorem applyTest_error {name : String} {v : Value}
    {err : Err} (h : applyTest name v = .error err) (hrep : reportable err = true) :
    err = .call := by
  unfold applyTest at h
  by_cases h0 : (name == "defined") = true
  · rw [if_pos h0] at h; cases h
  rw [if_neg h0] at h
  by_cases h1 : (name == "undefined") = true
  · rw [if_pos h1] at h; cases h
  rw [if_neg h1] at h
  by_cases h2 : (name == "none") = true
  · rw [if_pos h2] at h; cases h
  rw [if_neg h2] at h
  by_cases h3 : (name == "string") = true
  · rw [if_pos h3] at h; cases h
  rw [if_neg h3] at h
  by_cases h4 : (name == "number") = true
  · rw [if_pos h4] at h; cases h
  rw [if_neg h4] at h
  by_cases h5 : (name == "integer") = true
  · rw [if_pos h5] at h; cases h
  rw [if_neg h5] at h
  by_cases h6 : (name == "float") = true
  · rw [if_pos h6] at h; cases h
  rw [if_neg h6] at h
  by_cases h7 : (name == "bool") = true
  · rw [if_pos h7] at h; cases h
  rw [if_neg h7] at h
  by_cases h8 : (name == "array") = true
  · rw [if_pos h8] at h; cases h
  rw [if_neg h8] at h
  by_cases h9 : (name == "map") = true
  · rw [if_pos h9] at h; cases h
  rw [if_neg h9] at h
  by_cases h10 : (name == "iterable") = true
  · rw [if_pos h10] at h; cases h
  rw [if_neg h10] at h
  by_cases g0 : (name == "odd") = true
  · rw [if_pos g0] at h
    split at h <;> cases h <;> first | rfl | simp [reportable] at hrep
  rw [if_neg g0] at h
  by_cases g1 : (name == "even") = true
  · rw [if_pos g1] at h
    split at h <;> cases h <;> first | rfl | simp [reportable] at hrep
  rw [if_neg g1] at h
  cases h; simp [reportable] at hrep

theorem argI128_error {v : Option Value} {d : Option Int} {err : Err} (h : argI128 v d = .error err)
    (hrep : reportable err = true) : err = .call := by
  unfold argI128 at h
  repeat' split at h
  all_goals cases h <;> first | rfl | simp [reportable] at hrep

theorem applyFunction_error {name : String} {kw : List (String × Value)}
    {err : Err} (h : applyFunction name kw = .error err) (hrep : reportable err = true) :
    err = .call ∨ err = .thrown := by
  unfold applyFunction at h
  by_cases hn : (name == "throw") = true
  · rw [if_pos hn] at h
    split at h <;> cases h <;> first | exact .inr rfl | exact .inl rfl
  · rw [if_neg hn] at h
    by_cases hr : (name == "range") = true
    · rw [if_pos hr] at h
      cases h1 : argI128 (kwGet kw "start") (some 0) with
      | error e => simp only [h1] at h; cases h; exact .inl (argI128_error h1 hrep)
      | ok a =>
        cases h2 : argI128 (kwGet kw "end") none with
        | error e => simp only [h1, h2] at h; cases h; exact .inl (argI128_error h2 hrep)
        | ok b =>
          cases h3 : argI128 (kwGet kw "step_by") (some 1) with
          | error e => simp only [h1, h2, h3] at h; cases h; exact .inl (argI128_error h3 hrep)
          | ok c =>
            simp only [h1, h2, h3] at h
            repeat' split at h
            all_goals cases h <;> first | exact .inl rfl | simp [reportable] at hrep
    · rw [if_neg hr] at h; cases h; simp [reportable] at hrep

theorem applyFunction_super (kw : List (String × Value)) :
    ∃ w, applyFunction "super" kw = .error (.unsupported w) := by
  refine ⟨"function " ++ "super", ?_⟩
  unfold applyFunction
  rw [if_neg (by decide), if_neg (by decide)]

section
variable {venv : Vm.Env} {vm : VmCtx} {c : Chunk}
  {eenv : Tera.Env}

/-- `BuildMap(n)` of `compile_kwargs` on the slots of the evaluated arguments -/
theorem run_buildKwargs {pc n : Nat} {hasSpan : Bool} (h : EntryAt c pc (.buildMap n, hasSpan))
    (st : State) (kw : List (String × Value)) (stk : List Slot) (hn : n = kw.length)
    (hstk : MapStack c (kwParts kw) st.stack stk) :
    Run venv vm c pc { st with stack := stk } [pc] (pc + 1)
      (st.push (.map ((kvs (kwParts kw)).foldl (fun m e => mapInsert m e.1 e.2) [])) (pc, pc)) := by
  obtain ⟨vi, sps, hv, hc, _⟩ := h
  simp only [Pipeline.vinstr, Option.some.injEq] at hv
  subst hv
  have hlen : (kwParts kw).length = kw.length := by simp [kwParts]
  refine Run.one hc ?_
  intro rec
  simp only [step, stepBuildMap, hn, ← hlen]
  by_cases h0 : (kwParts kw).length = 0
  · have hp : kwParts kw = [] := List.length_eq_zero_iff.mp h0
    have hs := hstk.nil_inv hp
    subst hs
    simp only [hp, List.length_nil, if_true, kvs, List.foldl_nil]
    first | rfl | done
  · rw [if_neg h0, popPairs_mapStack hstk (kwParts_all kw) []]
    simp only [List.append_nil]
    rfl

/-- `ApplyFilter(name)` against `applyFilter` -/
theorem filter_sim {pc : Nat} {name : String} (h : EntryAt c pc (sp (.applyFilter name)))
    (hB : BuiltinsRel venv eenv) (ht : reportTargetOk venv vm c = true) (st : State) (v : Value)
    (rv : SpanRange) (kw : List (String × Value)) (rk : SpanRange) (hd : (kw.map (·.1)).Nodup)
    (hrv : SpanOk c rv) :
    match applyFilter eenv name v kw with
    | .ok r => Run venv vm c pc
        ((st.push v rv).push (.map ((kvs (kwParts kw)).foldl (fun m e => mapInsert m e.1 e.2) [])) rk)
        [pc] (pc + 1) (st.push r (pc, pc))
    | .error err => reportable err = true → ∃ re, Fails venv vm c pc
        ((st.push v rv).push (.map ((kvs (kwParts kw)).foldl (fun m e => mapInsert m e.1 e.2) [])) rk)
        [pc] re ∧ errMatch err re = true := by
  have hown := spanOk_own h
  obtain ⟨vi, sps, hv, hc, _⟩ := h
  simp only [sp, Pipeline.vinstr, Option.some.injEq] at hv
  subst hv
  have hrel := hB.filter name v kw hd
  cases hr : applyFilter eenv name v kw with
  | ok r =>
    rw [hr] at hrel
    obtain ⟨hhas, r', hcall, hsafe⟩ := hrel
    refine Run.one hc ?_
    intro rec
    simp only [step, stepFilterOrTest, State.push, Bool.false_eq_true, if_false, hhas, Bool.not_true,
      kwargs_roundtrip kw hd, hcall, Bool.not_false, Bool.true_and, hsafe]
  | error err =>
    rw [hr] at hrel
    intro hrep
    obtain ⟨hhas, hcall⟩ := hrel hrep
    have he := applyFilter_error hr hrep
    subst he
    refine ⟨.call, Fails.here hc ?_, rfl⟩
    intro rec
    rcases hcall with hcall | hcall
    · simp only [step, stepFilterOrTest, State.push, Bool.false_eq_true, if_false, hhas, Bool.not_true,
        kwargs_roundtrip kw hd, hcall]
      exact renderingError_eq ht hrv _
    · simp only [step, stepFilterOrTest, State.push, Bool.false_eq_true, if_false, hhas, Bool.not_true,
        kwargs_roundtrip kw hd, hcall]
      exact renderingError_eq ht hown _

/-- `RunTest(name)` against `applyTest` -/
theorem test_sim {pc : Nat} {name : String} (h : EntryAt c pc (sp (.runTest name)))
    (hB : BuiltinsRel venv eenv) (ht : reportTargetOk venv vm c = true) (st : State) (v : Value)
    (rv : SpanRange) (kw : List (String × Value)) (rk : SpanRange) (hd : (kw.map (·.1)).Nodup)
    (hrv : SpanOk c rv) :
    match applyTest name v with
    | .ok b => Run venv vm c pc
        ((st.push v rv).push (.map ((kvs (kwParts kw)).foldl (fun m e => mapInsert m e.1 e.2) [])) rk)
        [pc] (pc + 1) (st.push (.bool b) (pc, pc))
    | .error err => reportable err = true → ∃ re, Fails venv vm c pc
        ((st.push v rv).push (.map ((kvs (kwParts kw)).foldl (fun m e => mapInsert m e.1 e.2) [])) rk)
        [pc] re ∧ errMatch err re = true := by
  have hown := spanOk_own h
  obtain ⟨vi, sps, hv, hc, _⟩ := h
  simp only [sp, Pipeline.vinstr, Option.some.injEq] at hv
  subst hv
  have hrel := hB.test name v kw hd
  cases hr : applyTest name v with
  | ok b =>
    rw [hr] at hrel
    obtain ⟨hhas, hcall⟩ := hrel
    refine Run.one hc ?_
    intro rec
    simp only [step, stepFilterOrTest, State.push, if_true, hhas, Bool.not_true, Bool.false_eq_true,
      if_false, kwargs_roundtrip kw hd, hcall, Bool.false_and]
  | error err =>
    rw [hr] at hrel
    intro hrep
    obtain ⟨hhas, hcall⟩ := hrel hrep
    have he := applyTest_error hr hrep
    subst he
    refine ⟨.call, Fails.here hc ?_, rfl⟩
    intro rec
    rcases hcall with hcall | hcall
    · simp only [step, stepFilterOrTest, State.push, if_true, hhas, Bool.not_true, Bool.false_eq_true,
        if_false, kwargs_roundtrip kw hd, hcall]
      exact renderingError_eq ht hrv _
    · simp only [step, stepFilterOrTest, State.push, if_true, hhas, Bool.not_true, Bool.false_eq_true,
        if_false, kwargs_roundtrip kw hd, hcall]
      exact renderingError_eq ht hown _

/-- `CallFunction(name)` against `applyFunction` -/
theorem function_sim {pc : Nat} {name : String} (h : EntryAt c pc (sp (.callFunction name)))
    (hB : BuiltinsRel venv eenv) (ht : reportTargetOk venv vm c = true) (st : State)
    (kw : List (String × Value)) (rk : SpanRange) (hd : (kw.map (·.1)).Nodup) :
    match applyFunction name kw with
    | .ok r => Run venv vm c pc
        (st.push (.map ((kvs (kwParts kw)).foldl (fun m e => mapInsert m e.1 e.2) [])) rk)
        [pc] (pc + 1) (st.push r (pc, pc))
    | .error err => reportable err = true → ∃ re, Fails venv vm c pc
        (st.push (.map ((kvs (kwParts kw)).foldl (fun m e => mapInsert m e.1 e.2) [])) rk)
        [pc] re ∧ errMatch err re = true := by
  have hown := spanOk_own h
  obtain ⟨vi, sps, hv, hc, _⟩ := h
  simp only [sp, Pipeline.vinstr, Option.some.injEq] at hv
  subst hv
  by_cases hsuper : name = "super"
  · subst hsuper
    obtain ⟨w, hw⟩ := applyFunction_super kw
    rw [hw]
    intro hrep; simp [reportable] at hrep
  · have hrel := hB.function name kw hd
    cases hr : applyFunction name kw with
    | ok r =>
      rw [hr] at hrel
      obtain ⟨hhas, r', hcall, hsafe⟩ := hrel
      refine Run.one hc ?_
      intro rec
      simp only [step, stepCallFunction, State.push, hsuper, if_false, hhas, Bool.not_true,
        Bool.false_eq_true, kwargs_roundtrip kw hd, hcall, hsafe]
    | error err =>
      rw [hr] at hrel
      intro hrep
      obtain ⟨hhas, hcall⟩ := hrel hrep
      have hm : errMatch err .call = true := by
        rcases applyFunction_error hr hrep with rfl | rfl <;> rfl
      refine ⟨.call, Fails.here hc ?_, hm⟩
      intro rec
      rcases hcall with hcall | hcall
      · simp only [step, stepCallFunction, State.push, hsuper, if_false, hhas, Bool.not_true,
          Bool.false_eq_true, kwargs_roundtrip kw hd, hcall]
        exact renderingError_eq ht hown _
      · simp only [step, stepCallFunction, State.push, hsuper, if_false, hhas, Bool.not_true,
          Bool.false_eq_true, kwargs_roundtrip kw hd, hcall]
        exact renderingError_eq ht hown _

end
end Tera.Refine
