/-
`i128 as f64` in the model (`F64.roundNat`, `F64.ofIntRNE`): the result is the nearest value with a
53-bit significand, ties to even.
-/
import TeraModel.Model.F64
import Mathlib.Tactic.Linarith
import Mathlib.Tactic.Ring
namespace Tera

/-- Rounding `n = q * p + r` (0 ≤ r < p = 2 * half) to a multiple of `p`, ties to even. -/
theorem round_step (n q r p half : Nat) (hp : p = 2 * half) (hh : 0 < half) (hn : n = q * p + r)
    (hr : r < p) :
    let q' := if r > half || (r == half && q % 2 == 1) then q + 1 else q
    (2 * ((n : Int) - (q' : Int) * p).natAbs ≤ p) ∧
    (2 * ((n : Int) - (q' : Int) * p).natAbs = p → q' % 2 = 0) := by
  intro q'
  by_cases c : (r > half || (r == half && q % 2 == 1)) = true
  · have hq : q' = q + 1 := by simp only [q', c, if_true]
    have hd : (n : Int) - (q' : Int) * p = (r : Int) - p := by
      rw [hq, hn]; push_cast; ring
    rw [hd]
    have c' : r > half ∨ (r = half ∧ q % 2 = 1) := by simpa using c
    constructor
    · omega
    · intro he
      rcases c' with h | ⟨h1, h2⟩
      · omega
      · omega
  · have hq : q' = q := by simp only [q', c]; simp
    have hd : (n : Int) - (q' : Int) * p = (r : Int) := by
      rw [hq, hn]; push_cast; ring
    rw [hd]
    have c' : ¬ (r > half ∨ (r = half ∧ q % 2 = 1)) := by simpa using c
    constructor
    · omega
    · intro he
      have : r = half := by omega
      omega

end Tera

namespace Tera

theorem roundNat_small (n : Nat) (h : F64.bitLen n ≤ 53) : F64.roundNat n = (n, 0) := by
  simp [F64.roundNat, h]

/-- `roundNat` returns a value within half a unit in the last place of `n`; exactly half a unit
away only when the significand is even (ties to even); small values are exact. -/
theorem roundNat_nearest (n : Nat) :
    (2 * ((n : Int) - ((F64.roundNat n).1 : Int) * (2 ^ (F64.roundNat n).2 : Nat)).natAbs
        ≤ 2 ^ (F64.roundNat n).2) ∧
    (2 * ((n : Int) - ((F64.roundNat n).1 : Int) * (2 ^ (F64.roundNat n).2 : Nat)).natAbs
        = 2 ^ (F64.roundNat n).2 → (F64.roundNat n).1 % 2 = 0) ∧
    (F64.bitLen n ≤ 53 → (F64.roundNat n).1 = n ∧ (F64.roundNat n).2 = 0) := by
  by_cases h : F64.bitLen n ≤ 53
  · rw [roundNat_small n h]
    refine ⟨by simp, ?_, fun _ => ⟨rfl, rfl⟩⟩
    intro he; simp at he
  · have hsh : 1 ≤ F64.bitLen n - 53 := by omega
    obtain ⟨k, hk⟩ : ∃ k, F64.bitLen n - 53 = k + 1 := ⟨F64.bitLen n - 53 - 1, by omega⟩
    have hp : 2 ^ (k + 1) = 2 * 2 ^ k := by rw [pow_succ]; ring
    have hpos : 0 < 2 ^ k := Nat.two_pow_pos k
    have hn : n = n / 2 ^ (k + 1) * 2 ^ (k + 1) + n % 2 ^ (k + 1) := by
      rw [Nat.mul_comm]; exact (Nat.div_add_mod n _).symm
    have hr : n % 2 ^ (k + 1) < 2 ^ (k + 1) := Nat.mod_lt _ (Nat.two_pow_pos _)
    have key := round_step n (n / 2 ^ (k + 1)) (n % 2 ^ (k + 1)) (2 ^ (k + 1)) (2 ^ k) hp hpos hn hr
    have e : F64.roundNat n =
        ((if n % 2 ^ (k + 1) > 2 ^ k || (n % 2 ^ (k + 1) == 2 ^ k && n / 2 ^ (k + 1) % 2 == 1)
          then n / 2 ^ (k + 1) + 1 else n / 2 ^ (k + 1)), k + 1) := by
      simp only [F64.roundNat, h, if_false, hk]
      simp
    rw [e]
    refine ⟨key.1, key.2, fun hc => absurd hc h⟩

end Tera
