/-
From the registry's acceptance to a RANK on template names that decreases along every resolved
include edge: the bridge between C11 (`C11_accepted_graphs`: no include cycle is reachable from a
registered template of an accepted set; graph `Reg.IncEdge` on the registry's own summaries) and
the acyclicity hypothesis of the evaluator's termination theorem (`C11Eval.IncludeRank`, on the
names of the evaluator's table).
-/
import TeraModel.Props.C11
import TeraModel.Lemmas.PipelineParents
import TeraModel.Lemmas.PipelineT
import Mathlib.Data.Finset.Card
namespace Tera.Pipeline
open Tera Tera.Reg

/-! ### a finite graph without cycles has a rank -/

/-- reachable in one or more steps -/
def ReachPlus (E : String → String → Prop) (a x : String) : Prop := ∃ d, E a d ∧ Reach E d x

open Classical in
/-- number of vertices of `V` reachable from `a` in one or more steps -/
noncomputable def reachRank (E : String → String → Prop) (V : List String) (a : String) : Nat :=
  (V.toFinset.filter (ReachPlus E a)).card

/-- **in a graph whose edges end in the finite set `V` and in which no vertex lies on a cycle,
`reachRank` strictly decreases along every edge** -/
theorem reachRank_lt (E : String → String → Prop) (V : List String)
    (hV : ∀ a b, E a b → b ∈ V) (hac : ∀ c, ¬ OnCycle E c) {a b : String} (hab : E a b) :
    reachRank E V b < reachRank E V a := by
  classical
  unfold reachRank
  apply Finset.card_lt_card
  rw [Finset.ssubset_iff_of_subset]
  · refine ⟨b, ?_, ?_⟩
    · simp only [Finset.mem_filter, List.mem_toFinset]
      exact ⟨hV a b hab, b, hab, ⟨[], .nil b⟩⟩
    · simp only [Finset.mem_filter, List.mem_toFinset, not_and]
      intro _ hbb
      exact hac b hbb
  · intro x hx
    simp only [Finset.mem_filter, List.mem_toFinset] at hx ⊢
    obtain ⟨hxV, d, hbd, cs, hw⟩ := hx
    exact ⟨hxV, b, hab, ⟨d :: cs, .cons hbd hw⟩⟩

/-! ### what the entries of the VM's template table are -/

theorem assoc_mem_key {α : Type} {k : String} {l : List (String × α)} {v : α}
    (h : Vm.assoc k l = some v) : (k, v) ∈ l := by
  induction l with
  | nil => simp [Vm.assoc] at h
  | cons hd tl ih =>
    obtain ⟨k', v'⟩ := hd
    simp only [Vm.assoc] at h
    split at h
    · rename_i hk; cases h; subst hk; exact List.mem_cons_self
    · exact List.mem_cons_of_mem _ (ih h)

theorem infoOf_name (named : List (String × TemplateData)) (e : Reg.Entry)
    (p : String × Vm.TemplateInfo) (h : infoOf named e = some p) :
    p.1 = e.tpl.name ∧ p.2.name = e.tpl.name := by
  unfold infoOf at h
  cases h1 : lookupLast e.tpl.name named with
  | none => simp [h1] at h
  | some td =>
    simp only [h1] at h
    cases h2 : lineagesOf named e.lineage with
    | none => simp [h2] at h
    | some lin =>
      simp only [h2, Option.some.injEq] at h
      subst h
      exact ⟨rfl, rfl⟩

theorem includeAliases_resolve (prefixes : List String) (S : List Tpl)
    (tpls : List (String × Vm.TemplateInfo)) :
    ∀ (l : List String) (p : String × Vm.TemplateInfo), p ∈ includeAliases prefixes S tpls l →
      ∃ r, resolve prefixes S p.1 = some r ∧ Vm.assoc r tpls = some p.2 := by
  intro l
  induction l with
  | nil => intro p hp; cases hp
  | cons n rest ih =>
    intro p hp
    simp only [includeAliases] at hp
    split at hp
    · exact ih p hp
    · rename_i r hr
      split at hp
      · exact ih p hp
      · split at hp
        · rename_i info hinfo
          simp only [List.mem_cons] at hp
          rcases hp with rfl | hp
          · exact ⟨r, hr, hinfo⟩
          · exact ih p hp
        · exact ih p hp

theorem commitAll_tpls {d : Derived} {sfx : List String} :
    ∀ (ts ts' : List Reg.Entry), commitAll d sfx ts = .ok ts' →
      ts'.map (·.tpl) = ts.map (·.tpl) := by
  intro ts
  induction ts with
  | nil => intro ts' h; simp only [commitAll] at h; cases h; rfl
  | cons e rest ih =>
    intro ts' h
    unfold commitAll at h
    cases h1 : commitEntry d sfx e with
    | error x => simp [h1] at h
    | ok e1 =>
      cases h2 : commitAll d sfx rest with
      | error x => simp [h1, h2] at h
      | ok es =>
        simp only [h1, h2, Except.ok.injEq] at h
        subst h
        simp only [List.map_cons, ih es h2, (commitEntry_tpl h1).1]

theorem has_of_mem {S : List Tpl} {t : Tpl} (h : t ∈ S) : has S t.name = true := by
  unfold Reg.has Reg.get
  rw [List.find?_isSome]
  exact ⟨t, h, by simp⟩

/-- every entry `(k, info)` of the table: `info.name` is a registered name, and it is what the
registry resolves `k` to (the name itself, or through a fallback prefix for an include alias) -/
theorem table_entry_resolves (cfg : Config) (tds : List TemplateData) (st : Reg.State) (env : Env)
    (hb : buildEnv cfg tds st = some env) :
    ∀ k info, env.template k = some info →
      has (st.templates.map (·.tpl)) info.name = true ∧
      resolve cfg.prefixes (st.templates.map (·.tpl)) k = some info.name := by
  unfold buildEnv at hb
  cases hi : infosOf (namedOf tds) st.templates with
  | none => simp [hi] at hb
  | some tpls =>
    cases hg : globalComponents (namedOf tds) st.comps with
    | none => simp [hi, hg] at hb
    | some comps =>
      simp only [hi, hg, Option.some.injEq] at hb
      subst hb
      have htpls : ∀ p ∈ tpls, p.1 = p.2.name ∧ has (st.templates.map (·.tpl)) p.2.name = true := by
        intro p hp
        obtain ⟨e, he, hinfo⟩ := (infosOf_spec (namedOf tds) st.templates tpls hi).2 p hp
        obtain ⟨h1, h2⟩ := infoOf_name _ e p hinfo
        refine ⟨by rw [h1, h2], ?_⟩
        rw [h2]
        exact has_of_mem (List.mem_map.mpr ⟨e, he, rfl⟩)
      intro k info hl
      unfold Vm.Env.template at hl
      have hm := assoc_mem_key hl
      simp only [mkEnv, List.mem_append] at hm
      rcases hm with hm | hm
      · obtain ⟨h1, h2⟩ := htpls (k, info) hm
        simp only at h1 h2
        refine ⟨h2, ?_⟩
        rw [h1]
        exact C11.resolve_exact_first _ _ _ h2
      · obtain ⟨r, hr, ha⟩ := includeAliases_resolve _ _ tpls _ (k, info) hm
        obtain ⟨h1, h2⟩ := htpls (r, info) (assoc_mem_key ha)
        simp only at h1 h2 hr
        exact ⟨h2, by rw [hr, h1]⟩

/-! ### the include calls of a registered summary are the compiler's include events -/

theorem newTemplate_summary (d : Delims) (name : String) (src : Bytes) (td : TemplateData)
    (h : newTemplate d name src = .ok td) :
    ∃ t, front d src = .ok t ∧ td.name = name ∧
      td.summary.base.includeCalls = Compiler.includeCalls (Compiler.allEvents t) := by
  unfold newTemplate at h
  cases hf : front d src with
  | ok t =>
    rw [hf] at h
    simp only at h
    cases hc : Compiler.compileTemplate t with
    | error s => simp [hc] at h
    | ok c =>
      simp only [hc] at h
      have hinc : c.includeCalls = Compiler.includeCalls (Compiler.allEvents t) := by
        unfold Compiler.compileTemplate at hc
        split at hc
        · cases hc
        · cases hc; rfl
      split at h <;> try cases h
      refine ⟨t, rfl, rfl, ?_⟩
      simp [Reg.Tpl.includeCalls, summaryOf, hinc]
  | «syntax» => simp [hf] at h
  | panic s => simp [hf] at h
  | outOfFuel => simp [hf] at h

/-! ### the rank -/

/-- **an accepted batch has an include rank.**  After `addTemplatesT cfg sources = .ok env` there
is a rank on the names of the VM's template table (include aliases too) that strictly decreases
from a template to every template one of its `{% include %}`s — anywhere in its source: body,
blocks, component bodies — names, when that name is in the table.  "Its source": every source of
the batch filed under the template's own name (the last one is the one registered).  From
`Reg.derive`'s acceptance through C11 (`C11_accepted_graphs`: no include cycle is reachable from a
registered template) and `reachRank_lt`. -/
theorem accepted_env_include_rank (cfg : Config) (sources : List (String × Bytes)) (env : Env)
    (hadd : addTemplatesT cfg sources = .ok env) :
    ∃ rk : String → Nat, ∀ n tpl m tplm, env.template n = some tpl → env.template m = some tplm →
      (∀ src t, (tpl.name, src) ∈ sources → front cfg.delims src = .ok t →
        m ∈ Compiler.includeCalls (Compiler.allEvents t)) →
      rk m < rk n := by
  obtain ⟨tds, st, hn, hr, hb⟩ := addTemplatesT_inv cfg sources env hadd
  have hok := newAll_tdok cfg.reg cfg.delims sources tds hn
  obtain ⟨d, ts0, hd, hc, _, hS⟩ := (register_facts cfg tds st hok hr).ex
  have hSeq : st.templates.map (·.tpl) = ts0.map (·.tpl) := commitAll_tpls ts0 st.templates hc
  have hent := table_entry_resolves cfg tds st env hb
  rw [hSeq] at hent
  -- the graph
  let S := ts0.map (·.tpl)
  let E := IncEdge cfg.prefixes S
  have hall : ∀ k, has S k = true → k ∈ ts0.map (·.tpl.name) := by
    intro k hk
    have := has_mem_keys hk
    simpa [keys, S] using this
  have hV : ∀ a b, E a b → b ∈ keys S := by
    intro a b hab
    obtain ⟨_, _, _, _, hres⟩ := hab
    exact has_mem_keys (resolve_has hres)
  have hac : ∀ c, ¬ OnCycle E c := by
    intro c hon
    obtain ⟨dd, hcd, _⟩ := id hon
    obtain ⟨t, _, hg, _, _⟩ := hcd
    have hname := get_name hg
    have hT : get S t.name = some t := by rw [hname]; exact hg
    have := (C11.C11_accepted_graphs cfg.prefixes S _ _ d hd hall t hT).2.1
    apply this
    rw [hname]
    exact ⟨c, ⟨[], .nil c⟩, hon⟩
  refine ⟨fun n => match env.template n with
    | some tpl => reachRank E (keys S) tpl.name
    | none => 0, ?_⟩
  intro n tpl m tplm hnt hmt hinc
  simp only [hnt, hmt]
  apply reachRank_lt E (keys S) hV hac
  -- the edge
  obtain ⟨hhas, _⟩ := hent n tpl hnt
  obtain ⟨_, hres⟩ := hent m tplm hmt
  obtain ⟨T, hg⟩ := has_iff_get.mp hhas
  obtain ⟨td, _, hT, hmem, hname⟩ := hS tpl.name T hg
  obtain ⟨q, hq, hqt⟩ := newAll_sources cfg.delims sources tds hn td hmem
  obtain ⟨t, hf, hqn, hcalls⟩ := newTemplate_summary cfg.delims q.1 q.2 td hqt
  have hqm : (tpl.name, q.2) ∈ sources := by
    have : q = (tpl.name, q.2) := by rw [← hname, hqn]
    rw [← this]; exact hq
  have hmem' := hinc q.2 t hqm hf
  refine ⟨T, m, hg, ?_, hres⟩
  rw [hT]
  show m ∈ (td.summary.toTpl cfg.reg).includeCalls
  have : (td.summary.toTpl cfg.reg).includeCalls = td.summary.base.includeCalls := rfl
  rw [this, hcalls]
  exact hmem'

end Tera.Pipeline
