/-
Totality of the whole-template parser model (Model/TemplateParser.lean) on every token list the
filtered lexer can emit (`shaped`): never `panic` (the `unreachable!` of `parse_until_inner` at
parser.rs:1700, the `as_map().unwrap()` of `parse_component_definition` at :1376 and the
`expect` of `parse_subscript` at :278 are unreachable), never out of iteration budget.
-/
import TeraModel.Lemmas.ParseTotal
import TeraModel.Model.TemplateParser
namespace Tera.TParser
open Tera Tera.Parser
set_option linter.unusedSimpArgs false
set_option linter.unusedVariables false

/-! ### what the lexer emits -/

/-- some state in which the list is shaped: what every suffix of a shaped list satisfies -/
def Sh (l : List Tok) : Prop := ∃ st, shaped st l = true

theorem shaped_tail {st : LexSt} {t : Tok} {rest : List Tok} (h : shaped st (t :: rest) = true) :
    Sh rest := by
  unfold shaped at h
  cases t <;> simp only [Bool.and_eq_true] at h
  all_goals first
    | exact ⟨_, h.2⟩
    | (cases rest with
       | nil => exact ⟨.tpl, rfl⟩
       | cons _ _ => simp at h)

theorem Sh.suffix {l l' : List Tok} (h : Sh l) (hs : l' <:+ l) : Sh l' := by
  induction l with
  | nil => simp at hs; subst hs; exact h
  | cons t rest ih =>
    rcases List.suffix_cons_iff.mp hs with rfl | hs'
    · exact h
    · obtain ⟨st, hst⟩ := h
      exact ih (shaped_tail hst) hs'

theorem Sh.after_ve {w : Bool} {l : List Tok} (h : Sh (.variableEnd w :: l)) : shaped .tpl l = true := by
  obtain ⟨st, hst⟩ := h
  unfold shaped at hst
  simp only [Bool.and_eq_true] at hst
  exact hst.2

theorem Sh.after_te {w : Bool} {l : List Tok} (h : Sh (.tagEnd w :: l)) : shaped .tpl l = true := by
  obtain ⟨st, hst⟩ := h
  unfold shaped at hst
  simp only [Bool.and_eq_true] at hst
  exact hst.2

/-! ### acceptable results -/

def okT {α} (strict : Bool) (s : TState) : TRes α → Prop
  | .ok _ s' => Left strict s'.p.toks s.p.toks
  | .err => True
  | .panic _ => False
  | .fuel => False

/-- acceptable from every state whose tokens are a suffix of a lexer-shaped stream -/
def TG {α} (strict : Bool) (x : T α) : Prop := ∀ s, Sh s.p.toks → okT strict s (x s)

def TGN {α} (n : Nat) (x : T α) : Prop :=
  ∀ s, Sh s.p.toks → s.p.toks.length < n → okT false s (x s)

theorem tbind_def {α β} (x : T α) (f : α → T β) : (x >>= f) = T.bind x f := rfl
theorem T.bind_apply {α β} (x : T α) (f : α → T β) (s : TState) :
    T.bind x f s = match x s with
      | .ok a s' => f a s'
      | .err => .err
      | .panic m => .panic m
      | .fuel => .fuel := rfl

theorem okT_weaken {α} {b : Bool} {s : TState} {r : TRes α} (h : okT b s r) : okT false s r := by
  cases r <;> simp_all [okT]
  exact h.weaken

theorem okT_bind {α β} {b1 b2 b3 : Bool} (hb : b3 = true → b1 = true ∨ b2 = true)
    {x : T α} {f : α → T β} {s : TState} (h1 : okT b1 s (x s))
    (hf : ∀ a s', Left b1 s'.p.toks s.p.toks → okT b2 s' (f a s')) : okT b3 s ((x >>= f) s) := by
  simp only [tbind_def, T.bind_apply]
  cases hr : x s with
  | ok a s' =>
    rw [hr] at h1
    have h2 := hf a s' h1
    simp only []
    cases hr2 : f a s' with
    | ok c s'' => rw [hr2] at h2; exact Left.trans hb h1 h2
    | err => simp [okT]
    | panic m => rw [hr2] at h2; simp [okT] at h2
    | fuel => rw [hr2] at h2; simp [okT] at h2
  | err => simp [okT]
  | panic m => rw [hr] at h1; simp [okT] at h1
  | fuel => rw [hr] at h1; simp [okT] at h1

theorem TG.weaken {α} {x : T α} (h : TG true x) : TG false x := fun s hs => okT_weaken (h s hs)
theorem TG.toTGN {α} {x : T α} (n : Nat) (h : TG false x) : TGN n x := fun s hs _ => h s hs

theorem TG.pure {α} (a : α) : TG false (Pure.pure a : T α) := by
  intro s _; show okT false s (.ok a s); simp [okT, Left.refl]
theorem TG.pure' {α} (a : α) : TG false (T.pure a : T α) := by
  intro s _; simp [T.pure, okT, Left.refl]
theorem TG.err {α} (b : Bool) : TG b (T.err : T α) := by intro s _; simp [T.err, okT]

theorem TG.bind_ff {α β} {x : T α} {f : α → T β} (hx : TG false x) (hf : ∀ a, TG false (f a)) :
    TG false (x >>= f) := fun s hs =>
  okT_bind (by simp) (hx s hs) (fun a s' h => hf a s' (hs.suffix h.1))

theorem TG.bind_tf {α β} {x : T α} {f : α → T β} (hx : TG true x) (hf : ∀ a, TG false (f a)) :
    TG true (x >>= f) := fun s hs =>
  okT_bind (by simp) (hx s hs) (fun a s' h => hf a s' (hs.suffix h.1))

theorem TG.ite {α} {b : Bool} {c : Prop} [Decidable c] {x y : T α} (hx : TG b x) (hy : TG b y) :
    TG b (if c then x else y) := by split <;> assumption

theorem TGN.ite {α} {n : Nat} {c : Prop} [Decidable c] {x y : T α} (hx : TGN n x) (hy : TGN n y) :
    TGN n (if c then x else y) := by split <;> assumption

theorem TGN.bind_strict {α β} {n : Nat} {x : T α} {f : α → T β} (hx : TG true x)
    (hf : ∀ a, TGN n (f a)) : TGN (n + 1) (x >>= f) := fun s hs hn =>
  okT_bind (b2 := false) (by simp) (hx s hs)
    (fun a s' h => hf a s' (hs.suffix h.1) (by have := h.2 rfl; omega))

theorem TGN.bind_weak {α β} {n : Nat} {x : T α} {f : α → T β} (hx : TG false x)
    (hf : ∀ a, TGN n (f a)) : TGN n (x >>= f) := fun s hs hn =>
  okT_bind (b2 := false) (by simp) (hx s hs)
    (fun a s' h => hf a s' (hs.suffix h.1) (by have := h.length_le; omega))

theorem TGN.bind_tgn_g {α β} {n : Nat} {x : T α} {f : α → T β} (hx : TGN n x)
    (hf : ∀ a, TG false (f a)) : TGN n (x >>= f) := fun s hs hn =>
  okT_bind (b1 := false) (b2 := false) (by simp) (hx s hs hn)
    (fun a s' h => hf a s' (hs.suffix h.1))

/-! ### primitives -/

theorem TG.lift {α} {b : Bool} {x : P α} (h : G b x) : TG b (lift x) := by
  intro s _
  have := h s.p
  unfold TParser.lift
  cases hr : x s.p <;> simp_all [okRes, okT]

theorem TGN.lift {α} {n : Nat} {x : P α} (h : GN n x) : TGN n (TParser.lift x) := by
  intro s _ hn
  have := h s.p hn
  unfold TParser.lift
  cases hr : x s.p <;> simp_all [okRes, okT]

theorem TG.getState : TG false getState := by intro s _; simp [TParser.getState, okT, Left.refl]
theorem TG.modify (f : TState → TState) (hf : ∀ s, (f s).p = s.p) : TG false (modify f) := by
  intro s _; simp [TParser.modify, okT, hf, Left.refl]
theorem TG.pushCtx (c : BodyContext) : TG false (pushCtx c) := TG.modify _ (fun _ => rfl)
theorem TG.popCtx : TG false popCtx := TG.modify _ (fun _ => rfl)

theorem TG.withFuel {α} {f : Nat → T α} (h : ∀ n, TGN n (f n)) :
    TG false (TParser.lift Parser.loopFuel >>= f) := by
  intro s hs
  simp only [tbind_def, T.bind_apply, TParser.lift, Parser.loopFuel]
  exact h _ s hs (by omega)

theorem G.expectTagEnd : G true expectTagEnd := by
  unfold TParser.expectTagEnd
  refine G.bind_tf G.nextOrError (fun x => ?_)
  split
  · exact G.pure _
  · exact G.err _

theorem G.expectVariableEnd : G true expectVariableEnd := by
  unfold TParser.expectVariableEnd
  refine G.bind_tf G.nextOrError (fun x => ?_)
  split
  · exact G.pure _
  · exact G.err _

/-- after a successful `expect %}` the stream is back in template state -/
theorem after_tagEnd (s : TState) (hs : Sh s.p.toks) :
    match lift expectTagEnd s with
    | .ok _ s' => Left true s'.p.toks s.p.toks ∧ shaped .tpl s'.p.toks = true
    | .err => True
    | .panic _ => False
    | .fuel => False := by
  obtain ⟨⟨ts, a, b⟩, c1, c2, c3, c4, c5⟩ := s
  cases ts with
  | nil => simp [TParser.lift, TParser.expectTagEnd, nextOrError, P.bind_apply]
  | cons t rest =>
    cases t <;> simp [TParser.lift, TParser.expectTagEnd, nextOrError, P.bind_apply, Left.cons]
    exact Sh.after_te hs

theorem after_variableEnd (s : TState) (hs : Sh s.p.toks) :
    match lift expectVariableEnd s with
    | .ok _ s' => Left true s'.p.toks s.p.toks ∧ shaped .tpl s'.p.toks = true
    | .err => True
    | .panic _ => False
    | .fuel => False := by
  obtain ⟨⟨ts, a, b⟩, c1, c2, c3, c4, c5⟩ := s
  cases ts with
  | nil => simp [TParser.lift, TParser.expectVariableEnd, nextOrError, P.bind_apply]
  | cons t rest =>
    cases t <;> simp [TParser.lift, TParser.expectVariableEnd, nextOrError, P.bind_apply, Left.cons]
    exact Sh.after_ve hs


/-! ### expression-level helpers of the statement parser -/

section plevel
variable {rec : Nat → P Expr} (Hrec : ∀ m, G true (rec m))
include Hrec

theorem GN.setFilters : ∀ n acc, GN n (setFilters rec n acc) := by
  have hf := G.parseFilter Hrec
  intro n
  induction n with
  | zero => intro acc s hs; omega
  | succ n ih =>
    intro acc
    unfold TParser.setFilters
    gntac

theorem G.parseLiteralMap : G false (parseLiteralMap rec) := by
  have hm := G.parseMap Hrec
  unfold TParser.parseLiteralMap
  gtac

omit Hrec in
theorem parseMap_value (s s' : PState) (e : Expr) (h : parseMap rec s = .ok e s') :
    (∃ m, e = .const (.map m)) ∨ (∃ es, e = .map es) := by
  unfold Parser.parseMap at h
  obtain ⟨n, s1, _, h⟩ := bind_ok_inv h
  obtain ⟨r, s2, _, h⟩ := bind_ok_inv h
  obtain ⟨entries, lit⟩ := r
  simp only [] at h
  obtain ⟨_, s3, _, h⟩ := bind_ok_inv h
  cases lit
  · simp only [Bool.false_eq_true, if_false, pure_def, P.pure_apply, Res.ok.injEq] at h
    exact Or.inr ⟨entries, h.1.symm⟩
  · simp only [if_true, pure_def, P.pure_apply, Res.ok.injEq] at h
    exact Or.inl ⟨_, h.1.symm⟩

omit Hrec in
/-- `parse_literal_map` only ever returns a map: the `as_map().unwrap()` at parser.rs:1376 is safe -/
theorem parseLiteralMap_value (s s' : PState) (v : Value) (h : parseLiteralMap rec s = .ok v s') :
    ∃ es, v = .map es := by
  unfold TParser.parseLiteralMap at h
  obtain ⟨_, s1, _, h⟩ := bind_ok_inv h
  obtain ⟨e, s2, he, h⟩ := bind_ok_inv h
  rcases parseMap_value s1 s2 e he with ⟨m, rfl⟩ | ⟨es, rfl⟩
  · simp only [pure_def, P.pure_apply, Res.ok.injEq] at h
    exact ⟨m, h.1.symm⟩
  · simp [P.err] at h

theorem G.componentDefault (C : Cfg) : G false (componentDefault C rec) := by
  have h1 := G.parseArray Hrec C
  have h2 := G.parseLiteralMap Hrec
  unfold TParser.componentDefault
  gtac

theorem GN.componentArgs (C : Cfg) : ∀ n kw seen, GN n (componentArgs C rec n kw seen) := by
  have h1 := G.componentDefault Hrec C
  intro n
  induction n with
  | zero => intro kw seen s hs; omega
  | succ n ih =>
    intro kw seen
    unfold TParser.componentArgs
    gntac

end plevel

section level
variable {C : Bool → Cfg} {recU : EndCheck → T (List Node)} {ex : Bool → Nat → P Expr}
variable (Hex : ∀ il m, G true (ex il m))
variable (HU : ∀ ec s, shaped .tpl s.p.toks = true → okT false s (recU ec s))
include Hex HU

omit Hex in
/-- `expect %}` then the next `parse_until` level: the only way the next level is entered -/
theorem tagEnd_rec_pt {α} (ec : EndCheck) {f : List Node → T α} (s : TState) (hs : Sh s.p.toks)
    (hf : ∀ a s', Sh s'.p.toks → s'.p.toks.length < s.p.toks.length → okT false s' (f a s')) :
    okT false s ((TParser.lift expectTagEnd >>= fun _ => recU ec >>= f) s) := by
  have h1 := after_tagEnd s hs
  simp only [tbind_def, T.bind_apply]
  cases hr : TParser.lift expectTagEnd s with
  | ok u s1 =>
    rw [hr] at h1
    simp only []
    have h2 := HU ec s1 h1.2
    cases hr2 : recU ec s1 with
    | ok body s2 =>
      rw [hr2] at h2
      simp only []
      have hs2 : Sh s2.p.toks := (hs.suffix h1.1.1).suffix h2.1
      have h12 : Left true s2.p.toks s.p.toks := Left.trans (by simp) h1.1 h2
      have h3 := hf body s2 hs2 (h12.2 rfl)
      cases hr3 : f body s2 with
      | ok c s3 =>
        rw [hr3] at h3
        exact Left.trans (b3 := false) (by simp) h12 h3
      | err => simp [okT]
      | panic m => rw [hr3] at h3; simp [okT] at h3
      | fuel => rw [hr3] at h3; simp [okT] at h3
    | err => simp [okT]
    | panic m => rw [hr2] at h2; simp [okT] at h2
    | fuel => rw [hr2] at h2; simp [okT] at h2
  | err => simp [okT]
  | panic m => rw [hr] at h1; simp at h1
  | fuel => rw [hr] at h1; simp at h1

omit Hex in
theorem TG.tagEnd_rec {α} (ec : EndCheck) {f : List Node → T α} (hf : ∀ a, TG false (f a)) :
    TG false (TParser.lift expectTagEnd >>= fun _ => recU ec >>= f) := fun s hs =>
  tagEnd_rec_pt HU ec s hs (fun a s' hs' _ => hf a s' hs')

omit Hex in
theorem TGN.tagEnd_rec {α} {n : Nat} (ec : EndCheck) {f : List Node → T α}
    (hf : ∀ a, TGN n (f a)) :
    TGN n (TParser.lift expectTagEnd >>= fun _ => recU ec >>= f) := fun s hs hn =>
  tagEnd_rec_pt HU ec s hs (fun a s' hs' hl => hf a s' hs' (by omega))

omit Hex in
theorem TG.tagEnd_rec0 (ec : EndCheck) :
    TG false (TParser.lift expectTagEnd >>= fun _ => recU ec) := by
  intro s hs
  have h1 := after_tagEnd s hs
  simp only [tbind_def, T.bind_apply]
  cases hr : TParser.lift expectTagEnd s with
  | ok u s1 =>
    rw [hr] at h1
    simp only []
    have h2 := HU ec s1 h1.2
    cases hr2 : recU ec s1 with
    | ok body s2 =>
      rw [hr2] at h2
      exact Left.trans (b3 := false) (by simp) h1.1 h2
    | err => simp [okT]
    | panic m => rw [hr2] at h2; simp [okT] at h2
    | fuel => rw [hr2] at h2; simp [okT] at h2
  | err => simp [okT]
  | panic m => rw [hr] at h1; simp at h1
  | fuel => rw [hr] at h1; simp at h1

omit HU in
theorem TG.expr (m : Nat) : TG true (expr ex m) := by
  intro s hs
  exact TG.lift (Hex (isInLoop s) m) s hs

omit HU in
/-- the metadata map of a component definition: `parse_literal_map` returns a map, so only the
`.map` arm of what follows matters -/
theorem TG.literalMap {α} {f : Value → T α} (il : Bool) (hf : ∀ es, TG false (f (.map es))) :
    TG false (TParser.lift (parseLiteralMap (ex il)) >>= f) := by
  intro s hs
  have h1 := TG.lift (G.parseLiteralMap (Hex il)) s hs
  simp only [tbind_def, T.bind_apply]
  cases hr : TParser.lift (parseLiteralMap (ex il)) s with
  | ok v s1 =>
    rw [hr] at h1
    have hv : ∃ es, v = .map es := by
      unfold TParser.lift at hr
      cases hp : parseLiteralMap (ex il) s.p with
      | ok v' p' =>
        rw [hp] at hr
        simp only [TRes.ok.injEq] at hr
        obtain ⟨rfl, _⟩ := hr
        exact parseLiteralMap_value _ _ _ hp
      | err => rw [hp] at hr; cases hr
      | panic m => rw [hp] at hr; cases hr
      | fuel => rw [hp] at hr; cases hr
    obtain ⟨es, rfl⟩ := hv
    simp only []
    have h2 := hf es s1 (hs.suffix h1.1)
    cases hr2 : f (.map es) s1 with
    | ok c s2 => rw [hr2] at h2; exact Left.trans (b3 := false) (by simp) h1 h2
    | err => simp [okT]
    | panic m => rw [hr2] at h2; simp [okT] at h2
    | fuel => rw [hr2] at h2; simp [okT] at h2
  | err => simp [okT]
  | panic m => rw [hr] at h1; simp [okT] at h1
  | fuel => rw [hr] at h1; simp [okT] at h1

/-! ### automation (same scheme as Lemmas/ParseTotal.lean) -/

syntax "tgstrict" : tactic
macro_rules
  | `(tactic| tgstrict) => `(tactic|
      first
        | with_reducible apply_assumption
        | with_reducible exact TG.lift G.expectTagEnd
        | with_reducible exact TG.lift G.expectVariableEnd
        | (with_reducible refine TG.lift ?_; gstrict)
        | (with_reducible apply TG.ite <;> tgstrict))

syntax "tgtac" : tactic
macro_rules
  | `(tactic| tgtac) => `(tactic|
      repeat (first
        | with_reducible exact TG.pure _ | with_reducible exact TG.pure' _
        | with_reducible exact TG.err _
        | with_reducible exact TG.getState | with_reducible exact TG.pushCtx _
        | with_reducible exact TG.popCtx
        | with_reducible exact TG.modify _ (fun _ => rfl)
        | with_reducible apply_assumption
        | (apply TG.weaken; with_reducible apply_assumption)
        | with_reducible exact TG.lift (G.weaken G.expectTagEnd)
        | with_reducible exact TG.lift (G.weaken G.expectVariableEnd)
        | focus (with_reducible refine TG.lift ?_; gtac; done)
        | with_reducible apply TG.ite
        | with_reducible refine TG.tagEnd_rec (by assumption) _ (fun _ => ?_)
        | with_reducible exact TG.tagEnd_rec0 (by assumption) _
        | with_reducible refine TG.withFuel (fun _ => ?_)
        | with_reducible refine TG.literalMap (by assumption) _ (fun _ => ?_)
        | (with_reducible refine TGN.bind_tgn_g ?_ (fun _ => ?_); focus (with_reducible apply_assumption))
        | (with_reducible refine TGN.bind_tgn_g (TGN.lift ?_) (fun _ => ?_); focus (with_reducible apply_assumption))
        | with_reducible refine TG.bind_ff ?_ (fun _ => ?_)
        | dsimp only
        | split))

syntax "tgntac" : tactic
macro_rules
  | `(tactic| tgntac) => `(tactic|
      repeat (first
        | with_reducible exact TG.toTGN _ (TG.pure _) | with_reducible exact TG.toTGN _ (TG.pure' _)
        | with_reducible exact TG.toTGN _ (TG.err _)
        | with_reducible apply_assumption
        | (refine TG.toTGN _ ?_; with_reducible apply_assumption)
        | (refine TG.toTGN _ (TG.weaken ?_); with_reducible apply_assumption)
        | with_reducible apply TGN.ite
        | with_reducible refine TGN.tagEnd_rec (by assumption) _ (fun _ => ?_)
        | (refine TG.toTGN _ ?_; with_reducible exact TG.tagEnd_rec0 (by assumption) _)
        | (with_reducible refine TGN.bind_strict ?_ (fun _ => ?_); focus (tgstrict; done))
        | (with_reducible refine TGN.bind_weak ?_ (fun _ => ?_); focus (tgtac; done))
        | (with_reducible refine TGN.bind_tgn_g ?_ (fun _ => ?_); rotate_left; focus (tgtac; done))
        | dsimp only
        | split))

theorem TGN.parseIf : ∀ n, TGN n (parseIf recU ex n) := by
  have he := TG.expr Hex
  intro n
  induction n with
  | zero => intro s _ hn; omega
  | succ n ih =>
    unfold TParser.parseIf
    tgntac

theorem TG.parseForLoop : TG false (parseForLoop recU ex) := by
  have he := TG.expr Hex
  unfold TParser.parseForLoop
  tgtac

theorem TG.parseSet (g : Bool) : TG false (parseSet recU ex g) := by
  have he := TG.expr Hex
  have hf : ∀ il n acc, GN n (setFilters (ex il) n acc) := fun il => GN.setFilters (Hex il)
  unfold TParser.parseSet
  tgtac

theorem TG.parseComponentDefinition : TG false (parseComponentDefinition C recU ex) := by
  have hd := G.dottedName
  have ha : ∀ n kw seen, GN n (componentArgs (C false) (ex false) n kw seen) :=
    GN.componentArgs (Hex false) (C false)
  unfold TParser.parseComponentDefinition
  tgtac

theorem TG.parseComponentWithBody : TG false (parseComponentWithBody recU ex) := by
  have hd := G.dottedName
  have hc : ∀ il n acc, GN n (componentAttributes (ex il) n acc) :=
    fun il => GN.componentAttributes (Hex il)
  unfold TParser.parseComponentWithBody
  tgtac

theorem TG.parseTag (isFirst : Bool) : TG true (parseTag C recU ex isFirst) := by
  have h1 := TG.parseSet Hex HU
  have h2 := TG.parseForLoop Hex HU
  have h3 := TGN.parseIf Hex HU
  have h4 := TG.parseComponentDefinition (C := C) Hex HU
  have h5 := TG.parseComponentWithBody Hex HU
  have hk : ∀ il, G true (parseKwargs (ex il)) := fun il => G.parseKwargs (Hex il)
  unfold TParser.parseTag
  refine TG.bind_tf (TG.lift G.nextOrError) (fun t => ?_)
  tgtac

/-- the loop of `parse_until_inner`, from template state: the `unreachable!` at parser.rs:1700
is not reached -/
theorem untilLoop_ok (ec : EndCheck) : ∀ n nodes s, shaped .tpl s.p.toks = true →
    s.p.toks.length < n → okT false s (untilLoop C recU ex ec n nodes s) := by
  have hexpr := TG.expr Hex
  have htag := TG.parseTag (C := C) Hex HU
  intro n
  induction n with
  | zero => intro nodes s _ hn; omega
  | succ n ih =>
    intro nodes s hsh hn
    obtain ⟨⟨ts, a, b⟩, c1, c2, c3, c4, c5⟩ := s
    unfold TParser.untilLoop
    cases ts with
    | nil => simp [okT, Left.refl]
    | cons tok rest =>
      simp only [] at hsh hn ⊢
      have hrest : Sh rest := shaped_tail hsh
      have hcons : Left true rest (tok :: rest) := Left.cons tok rest
      -- what a continuation from `rest` gives, seen from `tok :: rest`
      have lift_res : ∀ {r : TRes (List Node)},
          okT false ⟨⟨rest, a, b⟩, c1, c2, c3, c4, c5⟩ r →
          okT false ⟨⟨tok :: rest, a, b⟩, c1, c2, c3, c4, c5⟩ r := by
        intro r hr
        cases r <;> simp_all [okT]
        exact Left.trans (b3 := false) (by simp) hcons hr
      unfold shaped at hsh
      cases tok <;> simp only [Bool.and_eq_true, beq_iff_eq, bne_iff_ne, ne_eq, reduceCtorEq,
        not_true_eq_false, false_and, Bool.false_eq_true, not_false_eq_true, true_and] at hsh
      case error => simp [okT]
      case content c =>
        exact lift_res (ih _ _ hsh (by simpa using hn))
      case variableStart w =>
        apply lift_res
        refine okT_bind (b1 := true) (b2 := false) (by simp) (hexpr 0 _ hrest) (fun e s1 h1 => ?_)
        have hs1 : Sh s1.p.toks := hrest.suffix h1.1
        have hve := after_variableEnd s1 hs1
        simp only [tbind_def, T.bind_apply]
        cases hr : TParser.lift expectVariableEnd s1 with
        | ok u s2 =>
          rw [hr] at hve
          simp only []
          have hlen : s2.p.toks.length < n := by
            have e1 := hve.1.2 rfl
            have e2 : s1.p.toks.length ≤ rest.length := h1.length_le
            simp at hn
            omega
          have h3 := ih (nodes ++ [Node.expression e]) s2 hve.2 hlen
          cases hr3 : untilLoop C recU ex ec n (nodes ++ [Node.expression e]) s2 with
          | ok c s3 => rw [hr3] at h3; exact Left.trans (b3 := false) (by simp) hve.1 h3
          | err => simp [okT]
          | panic m => rw [hr3] at h3; simp [okT] at h3
          | fuel => rw [hr3] at h3; simp [okT] at h3
        | err => simp [okT]
        | panic m => rw [hr] at hve; simp at hve
        | fuel => rw [hr] at hve; simp at hve
      case tagStart w =>
        dsimp only
        cases rest with
        | nil => simp [okT]
        | cons t rest' =>
          by_cases hte : t = .error
          · subst hte; simp [okT]
          · split
            all_goals first
              | (exact trivial)
              | skip
            rename_i t' tail' hne heq
            cases heq
            split
            · exact lift_res (by simp [okT, Left.refl])
            · apply lift_res
              refine okT_bind (b1 := true) (b2 := false) (by simp) (htag _ _ hrest) (fun node s1 h1 => ?_)
              have hs1 : Sh s1.p.toks := hrest.suffix h1.1
              have fin : ∀ nodes', okT false s1
                  ((TParser.lift expectTagEnd >>= fun _ => untilLoop C recU ex ec n nodes') s1) := by
                intro nodes'
                have hte' := after_tagEnd s1 hs1
                simp only [tbind_def, T.bind_apply]
                cases hr : TParser.lift expectTagEnd s1 with
                | ok u s2 =>
                  rw [hr] at hte'
                  simp only []
                  have hlen : s2.p.toks.length < n := by
                    have e1 := hte'.1.2 rfl
                    have e2 : s1.p.toks.length ≤ (t :: rest').length := h1.length_le
                    simp at hn e2
                    omega
                  have h3 := ih nodes' s2 hte'.2 hlen
                  cases hr3 : untilLoop C recU ex ec n nodes' s2 with
                  | ok c s3 => rw [hr3] at h3; exact Left.trans (b3 := false) (by simp) hte'.1 h3
                  | err => simp [okT]
                  | panic m => rw [hr3] at h3; simp [okT] at h3
                  | fuel => rw [hr3] at h3; simp [okT] at h3
                | err => simp [okT]
                | panic m => rw [hr] at hte'; simp at hte'
                | fuel => rw [hr] at hte'; simp at hte'
              cases node <;> exact fin _

end level

theorem parseUntil_ok : ∀ r ec s, shaped .tpl s.p.toks = true → okT false s (parseUntil r ec s) := by
  intro r
  induction r with
  | zero => intro ec s _; simp [parseUntil, T.err, okT]
  | succ r ih =>
    intro ec s hs
    unfold parseUntil
    simp only [tbind_def, T.bind_apply, TParser.lift, Parser.loopFuel]
    exact untilLoop_ok (C := cfgOf) (fun il m => G.innerParseExpression (cfgOf il) r m) ih ec _ [] s hs
      (by omega)

/-- **Totality of the whole-template parser model** on lexer-shaped token streams. -/
theorem parse_total (maxDepth : Nat) (toks : List Tok) (h : shaped .tpl toks = true) :
    (∃ t s, parse maxDepth toks = .ok t s) ∨ parse maxDepth toks = .err := by
  have := parseUntil_ok maxDepth .never ⟨⟨toks, 0, 0⟩, [], [], [], none, []⟩ h
  unfold parse
  simp only []
  cases hr : parseUntil maxDepth .never ⟨⟨toks, 0, 0⟩, [], [], [], none, []⟩ with
  | ok nodes s => exact Or.inl ⟨_, _, rfl⟩
  | err => exact Or.inr rfl
  | panic m => rw [hr] at this; simp [okT] at this
  | fuel => rw [hr] at this; simp [okT] at this

end Tera.TParser
