/-
The checker of Model/VmCheck.lean refines the checker of Model/WellFormed.lean: forgetting the
`map` / `sp` / `okb` flags of every slot (`projSt`), one abstract step of VmCheck is one abstract
step of WellFormed's stack machine on the instruction's `Op` (`opV`, which `decode_opOf` identifies
with `WellFormed.opOf` of the listing entry).  So the stack discipline `wellFormed_sound`
(Props/C07.lean) states for the abstract machine is the one the value-level soundness proof
(Lemmas/VmSim.lean) goes through, with the extra per-slot facts on top.
-/
import TeraModel.Lemmas.VmDecode
import TeraModel.Lemmas.VmTotal
import TeraModel.Model.VmCheck
namespace Tera.Vm
open Tera

/-- forget everything about a slot but "is a known array" -/
def projSt (a : ASt) : WellFormed.St := ⟨a.stack.map (·.arr), a.loops, a.caps⟩

def projSuccs (l : List (Nat × ASt)) : List (Nat × WellFormed.St) := l.map fun x => (x.1, projSt x.2)

theorem spreadMapPops_drop : ∀ (fs : List Bool) (ts rest : List Tag),
    spreadMapPops fs ts = some rest → popsOf fs ≤ ts.length ∧ rest = ts.drop (popsOf fs)
  | [], ts, rest, h => by simp [spreadMapPops] at h; simp [popsOf, h]
  | true :: fs, [], _, h => by simp [spreadMapPops] at h
  | true :: fs, t :: ts, rest, h => by
    simp only [spreadMapPops] at h
    split at h
    · obtain ⟨h1, h2⟩ := spreadMapPops_drop fs ts rest h
      rw [popsOf_true]; exact ⟨by simp; omega, by simp [h2]⟩
    · cases h
  | false :: fs, [], _, h => by simp [spreadMapPops] at h
  | false :: fs, [_], _, h => by simp [spreadMapPops] at h
  | false :: fs, _ :: _ :: ts, rest, h => by
    simp only [spreadMapPops] at h
    obtain ⟨h1, h2⟩ := spreadMapPops_drop fs ts rest h
    rw [popsOf_false]; exact ⟨by simp; omega, by simp [h2]⟩

theorem spreadListPops_drop : ∀ (fs : List Bool) (ts rest : List Tag),
    spreadListPops fs ts = some rest → fs.length ≤ ts.length ∧ rest = ts.drop fs.length
  | [], ts, rest, h => by simp [spreadListPops] at h; simp [h]
  | f :: fs, [], _, h => by simp [spreadListPops] at h
  | f :: fs, t :: ts, rest, h => by
    simp only [spreadListPops] at h
    split at h
    · obtain ⟨h1, h2⟩ := spreadListPops_drop fs ts rest h
      exact ⟨by simp; omega, by simp [h2]⟩
    · cases h

/-- One abstract step of the value-level checker is, flags forgotten, one step of WellFormed's
abstract machine. -/
theorem astep_projects (i : VInstr) (own : Bool) (n pc : Nat) (a : ASt) (succs : List (Nat × ASt))
    (h : astep i own n pc a = some succs) :
    WellFormed.step (opV i) pc (projSt a) = some (projSuccs succs) := by
  cases i
  case buildMapWithSpreads flags =>
    simp only [astep] at h
    split at h
    · rename_i rest hp
      simp only [Option.some.injEq] at h; subst h
      obtain ⟨h1, h2⟩ := spreadMapPops_drop _ _ _ hp
      rw [popsOf_reverse] at h1 h2
      subst h2
      simp [opV, WellFormed.step, projSt, projSuccs, spreadPops_eq, h1, List.map_drop]
    · cases h
  case buildListWithSpreads flags =>
    simp only [astep] at h
    split at h
    · rename_i rest hp
      simp only [Option.some.injEq] at h; subst h
      obtain ⟨h1, h2⟩ := spreadListPops_drop _ _ _ hp
      rw [List.length_reverse] at h1 h2
      subst h2
      simp [opV, WellFormed.step, projSt, projSuccs, h1, List.map_drop]
    · cases h
  all_goals
    simp only [astep, abinop, ajumpOrPop] at h
    (repeat' split at h) <;>
      first
        | (cases h; done)
        | (simp only [Option.some.injEq] at h; subst h
           simp_all [opV, WellFormed.step, projSt, projSuccs, Tag.fresh, List.map_drop])

/-! ### tables -/

theorem leTags_proj : ∀ (xs ys : List Tag), leTags xs ys = true →
    WellFormed.leStack (xs.map (·.arr)) (ys.map (·.arr)) = true
  | [], [], _ => rfl
  | x :: xs, y :: ys, h => by
    simp only [leTags, Bool.and_eq_true] at h
    simp only [List.map_cons, WellFormed.leStack, Bool.and_eq_true]
    refine ⟨?_, leTags_proj xs ys h.2⟩
    have := h.1
    simp only [Tag.le, Bool.and_eq_true] at this
    exact this.1.1.1
  | [], _ :: _, h => by simp [leTags] at h
  | _ :: _, [], h => by simp [leTags] at h

theorem leLoops_proj : ∀ (xs ys : List (Option Nat)), leLoops xs ys = true → WellFormed.leLoops xs ys = true
  | [], [], _ => rfl
  | x :: xs, y :: ys, h => by
    simp only [leLoops, Bool.and_eq_true] at h
    simp only [WellFormed.leLoops, Bool.and_eq_true]
    exact ⟨h.1, leLoops_proj xs ys h.2⟩
  | [], _ :: _, h => by simp [leLoops] at h
  | _ :: _, [], h => by simp [leLoops] at h

theorem le_proj (a b : ASt) (h : a.le b = true) : (projSt a).le (projSt b) = true := by
  simp only [ASt.le, Bool.and_eq_true] at h
  simp only [WellFormed.St.le, projSt, Bool.and_eq_true]
  exact ⟨⟨leTags_proj _ _ h.1.1, h.1.2⟩, leLoops_proj _ _ h.2⟩

def projTable (table : List (Option ASt)) : List (Option WellFormed.St) := table.map (Option.map projSt)

theorem covered_proj (table : List (Option ASt)) (len : Nat) (x : Nat × ASt)
    (h : covered table len x = true) :
    WellFormed.covered (projTable table) len (x.1, projSt x.2) = true := by
  unfold covered at h
  unfold WellFormed.covered
  simp only
  split at h
  · rename_i hlt
    simp only [hlt, ↓reduceIte, projTable, List.getElem?_map]
    cases ht : table[x.1]? with
    | none => rw [ht] at h; cases h
    | some entry =>
      cases entry with
      | none => rw [ht] at h; cases h
      | some b => rw [ht] at h; simp only [Option.map_some]; exact le_proj _ _ h
  · rename_i hlt
    simp only [hlt, ↓reduceIte]
    simp only [Bool.and_eq_true, beq_iff_eq] at h ⊢
    refine ⟨h.1, ?_⟩
    rw [h.2]; rfl

theorem decodeCode_get (p : String → Option Value) : ∀ (c : List Entry) (code : List VEntry),
    decodeCode p c = some code →
    c.length = code.length ∧ ∀ (pc : Nat) (e : Entry), c[pc]? = some e → ∃ ve, code[pc]? = some ve ∧ decodeEntry p e = some ve
  | [], code, h => by
    simp [decodeCode] at h; subst h; exact ⟨rfl, by intro pc e he; simp at he⟩
  | e0 :: c, code, h => by
    simp only [decodeCode, List.mapM_cons, Option.bind_eq_bind, Option.pure_def] at h
    cases h0 : decodeEntry p e0 with
    | none => simp [h0] at h
    | some ve0 =>
      cases h1 : c.mapM (decodeEntry p) with
      | none => simp [h0, h1] at h
      | some code' =>
        simp [h0, h1] at h; subst h
        obtain ⟨hl, hg⟩ := decodeCode_get p c code' h1
        refine ⟨by simp [hl], ?_⟩
        intro pc e he
        cases pc with
        | zero => simp at he; subst he; exact ⟨ve0, rfl, h0⟩
        | succ k =>
          simp only [List.getElem?_cons_succ] at he ⊢
          exact hg k e he

/-- A table the value-level checker verified for the decoded chunk is, flags forgotten, a table
WellFormed's checker verifies for the listing: the chunks `checkChunk` accepts are well-formed in
the sense of Model/WellFormed.lean, so `verify_sound` / `wellFormed_sound` (Props/C07.lean) speak
about them. -/
theorem verify_projects (p : String → Option Value) (c : List Entry) (code : List VEntry)
    (hdec : decodeCode p c = some code) (table : List (Option ASt))
    (h : verify code table = true) : WellFormed.verify c (projTable table) = true := by
  obtain ⟨hlen, hget⟩ := decodeCode_get p c code hdec
  simp only [verify, Bool.and_eq_true, List.all_eq_true, List.mem_range] at h
  simp only [WellFormed.verify, Bool.and_eq_true, List.all_eq_true, List.mem_range]
  refine ⟨?_, ?_⟩
  · have := covered_proj table code.length (0, ASt.empty) h.1
    rw [hlen]; exact this
  · intro pc hpc
    have hv := h.2 pc (hlen ▸ hpc)
    unfold WellFormed.verifyAt
    unfold verifyAt at hv
    simp only [projTable, List.getElem?_map]
    cases ht : table[pc]? with
    | none => simp
    | some entry =>
      cases entry with
      | none => simp
      | some a =>
        simp only [Option.map_some]
        cases hc : c[pc]? with
        | none => simp
        | some e =>
          simp only
          obtain ⟨ve, hve, hde⟩ := hget pc e hc
          rw [ht, hve] at hv
          simp only at hv
          have hop : WellFormed.opOf e.1 = some (opV ve.1) := by
            unfold decodeEntry at hde
            cases hd : decodeWith p e.1 with
            | none => simp [hd] at hde
            | some vi =>
              simp [hd] at hde; subst hde
              exact decode_opOf p e.1 vi hd
          rw [hop]
          simp only
          cases hs : astep ve.1 (!ve.2.isEmpty) ve.2.length pc a with
          | none => rw [hs] at hv; cases hv
          | some succs =>
            rw [hs] at hv
            rw [astep_projects _ _ _ _ _ _ hs]
            simp only [List.all_eq_true] at hv ⊢
            intro y hy
            obtain ⟨x, hx, rfl⟩ := List.mem_map.mp hy
            have := covered_proj table code.length x (hv x hx)
            rw [hlen]; exact this

end Tera.Vm
